/- Helper lemmas about `Ca/ClassModel.lean`: the key object set mirrors the ROA objects of the
class along every history (`objects_mirror` for ROAs, one key). -/
import KrillModel.Ca.ClassModel
import KrillModel.Ca.ObjLemmasSync
import KrillModel.Ca.ObjLemmas
import KrillModel.Ca.RoaLemmas
namespace KM.Ca.Pub

/-- Names identify objects: injective per kind, and simple and aggregate names never clash
(`<hex of payload>.roa` vs `AS<asn>.roa`). -/
structure Naming.Ok (nm : Naming) : Prop where
  injS : ∀ a b, nm.nameS a = nm.nameS b → a = b
  injA : ∀ a b, nm.nameA a = nm.nameA b → a = b
  disj : ∀ a b, nm.nameS a ≠ nm.nameA b

/-- The current key set publishes exactly what the class believes it issued. -/
def MirrorV (nm : Naming) (c : ClassState) : Prop :=
  (keys c.set.published).Nodup ∧ ∀ e, e ∈ c.set.published ↔ e ∈ roaView nm c.roas

/-! ### `published` through the set operations -/

theorem erase_of_not_mem {κ ν} [DecidableEq κ] (m : List (κ × ν)) (k : κ) (h : k ∉ keys m) : erase m k = m := by
  simp only [erase, List.filter_eq_self, decide_eq_true_eq]
  intro e he heq
  exact h (heq ▸ mem_keys_of_mem he)

theorem remove_published (s : KeyObjectSet) (n : Nat) : (s.remove n).published = erase s.published n := by
  unfold KeyObjectSet.remove
  cases hg : get? s.published n with
  | none => simp [erase_of_not_mem _ _ (get?_none_iff.mp hg)]
  | some old => rfl

theorem foldl_insert_published (l : List (Nat × PubObj)) (s : KeyObjectSet) :
    (l.foldl (fun s e => s.insert e.1 e.2) s).published = l.foldl (fun m e => put m e.1 e.2) s.published := by
  induction l generalizing s with
  | nil => rfl
  | cons e l ih => simp only [List.foldl_cons]; rw [ih]; rfl

theorem foldl_remove_published (l : List Nat) (s : KeyObjectSet) :
    (l.foldl KeyObjectSet.remove s).published = l.foldl (fun m n => erase m n) s.published := by
  induction l generalizing s with
  | nil => rfl
  | cons n l ih => simp only [List.foldl_cons]; rw [ih, remove_published]

theorem update_published (s : KeyObjectSet) (u : ObjUpdates) :
    (s.update u).published =
      u.removed.foldl (fun m n => erase m n) (u.added.foldl (fun m e => put m e.1 e.2) s.published) := by
  unfold KeyObjectSet.update
  rw [foldl_remove_published, foldl_insert_published]

theorem mem_foldl_erase {κ ν} [DecidableEq κ] (ks : List κ) (m : List (κ × ν)) (e : κ × ν) :
    e ∈ ks.foldl (fun m n => erase m n) m ↔ e ∈ m ∧ e.1 ∉ ks := by
  induction ks generalizing m with
  | nil => simp
  | cons k ks ih =>
    simp only [List.foldl_cons]
    rw [ih]
    simp only [erase, List.mem_filter, decide_eq_true_eq, List.mem_cons, not_or]
    constructor
    · rintro ⟨⟨h1, h2⟩, h3⟩; exact ⟨h1, h2, h3⟩
    · rintro ⟨h1, h2, h3⟩; exact ⟨⟨h1, h2⟩, h3⟩

theorem mem_put {κ ν} [DecidableEq κ] (m : List (κ × ν)) (k : κ) (v : ν) (e : κ × ν) :
    e ∈ put m k v ↔ (e ∈ m ∧ e.1 ≠ k) ∨ e = (k, v) := by
  simp [put, erase, List.mem_append, List.mem_filter]

theorem mem_foldl_put {κ ν} [DecidableEq κ] (us : List (κ × ν)) (hn : (keys us).Nodup) (m : List (κ × ν))
    (e : κ × ν) :
    e ∈ us.foldl (fun m p => put m p.1 p.2) m ↔ (e ∈ m ∧ e.1 ∉ keys us) ∨ e ∈ us := by
  induction us generalizing m with
  | nil => simp [keys]
  | cons p us ih =>
    simp only [keys, List.map_cons, List.nodup_cons] at hn
    simp only [List.foldl_cons]
    rw [ih hn.2, mem_put]
    simp only [keys, List.map_cons, List.mem_cons, not_or]
    constructor
    · rintro (⟨(⟨h1, h2⟩ | h1), h3⟩ | h1)
      · exact Or.inl ⟨h1, h2, h3⟩
      · exact Or.inr (Or.inl h1)
      · exact Or.inr (Or.inr h1)
    · rintro (⟨h1, h2, h3⟩ | h1 | h1)
      · exact Or.inl ⟨Or.inl ⟨h1, h2⟩, h3⟩
      · refine Or.inl ⟨Or.inr h1, ?_⟩
        subst h1
        exact hn.1
      · exact Or.inr h1

/-! ### The mirror is kept -/

theorem mem_roaView (nm : Naming) (r : Roas) (e : Nat × PubObj) :
    e ∈ roaView nm r ↔ (∃ x ∈ r.simple, e = (nm.nameS x.1, pubOf x.2.obj)) ∨
      (∃ x ∈ r.agg, e = (nm.nameA x.1, pubOf x.2.obj)) := by
  simp only [roaView, List.mem_append, List.mem_map]
  constructor
  · rintro (⟨x, hx, rfl⟩ | ⟨x, hx, rfl⟩)
    · exact Or.inl ⟨x, hx, rfl⟩
    · exact Or.inr ⟨x, hx, rfl⟩
  · rintro (⟨x, hx, rfl⟩ | ⟨x, hx, rfl⟩)
    · exact Or.inl ⟨x, hx, rfl⟩
    · exact Or.inr ⟨x, hx, rfl⟩

theorem added_keys_nodup (nm : Naming) (hnm : nm.Ok) (u : RoaUpdates)
    (hu : (keys u.updated).Nodup) (ha : (keys u.aggUpdated).Nodup) :
    (keys (roaObjUpdates nm u).added).Nodup := by
  simp only [roaObjUpdates, keys, List.map_append, List.map_map, Function.comp_def]
  rw [List.nodup_append]
  simp only [keys] at hu ha
  refine ⟨?_, ?_, ?_⟩
  · have := List.Pairwise.map (S := fun a b => a ≠ b) (fun (x : Payload) => nm.nameS x)
      (fun a b hab h => hab (hnm.injS a b h)) hu
    rw [List.map_map] at this
    exact this
  · have := List.Pairwise.map (S := fun a b => a ≠ b) (fun (x : AggKey) => nm.nameA x)
      (fun a b hab h => hab (hnm.injA a b h)) ha
    rw [List.map_map] at this
    exact this
  · intro a ha1 b hb hab
    obtain ⟨x, _, rfl⟩ := List.mem_map.mp ha1
    obtain ⟨y, _, rfl⟩ := List.mem_map.mp hb
    exact hnm.disj _ _ hab

theorem mirror_applyRoaUpdates (nm : Naming) (hnm : nm.Ok) (t : Timing) (c : ClassState) (u : RoaUpdates)
    (i : IssueIn) (hm : MirrorV nm c) (hu : (keys u.updated).Nodup) (ha : (keys u.aggUpdated).Nodup) :
    MirrorV nm (c.applyRoaUpdates nm t u i) := by
  obtain ⟨hk, hmem⟩ := hm
  have hadd := added_keys_nodup nm hnm u hu ha
  have hpub : (c.applyRoaUpdates nm t u i).set.published =
      (roaObjUpdates nm u).removed.foldl (fun m n => erase m n)
        ((roaObjUpdates nm u).added.foldl (fun m e => put m e.1 e.2) c.set.published) := by
    simp only [ClassState.applyRoaUpdates, KeyObjectSet.reissue]
    exact update_published c.set (roaObjUpdates nm u)
  refine ⟨?_, ?_⟩
  · rw [hpub]
    exact nodup_foldl_erase _ (fun n => n) _ (nodup_foldl_put _ _ hk)
  · intro e
    rw [hpub, mem_foldl_erase, mem_foldl_put _ hadd, hmem]
    simp only [ClassState.applyRoaUpdates]
    rw [mem_roaView, mem_roaView]
    -- names of what is added / removed
    have hkeysAdded : ∀ n, n ∈ keys (roaObjUpdates nm u).added ↔
        (∃ k ∈ keys u.updated, n = nm.nameS k) ∨ (∃ k ∈ keys u.aggUpdated, n = nm.nameA k) := by
      intro n
      simp only [roaObjUpdates, keys, List.map_append, List.map_map, Function.comp_def, List.mem_append,
        List.mem_map]
      constructor
      · rintro (⟨x, hx, rfl⟩ | ⟨x, hx, rfl⟩)
        · exact Or.inl ⟨x.1, ⟨x, hx, rfl⟩, rfl⟩
        · exact Or.inr ⟨x.1, ⟨x, hx, rfl⟩, rfl⟩
      · rintro (⟨k, ⟨x, hx, rfl⟩, rfl⟩ | ⟨k, ⟨x, hx, rfl⟩, rfl⟩)
        · exact Or.inl ⟨x, hx, rfl⟩
        · exact Or.inr ⟨x, hx, rfl⟩
    have hremoved : ∀ n, n ∈ (roaObjUpdates nm u).removed ↔
        (∃ k ∈ u.removed, n = nm.nameS k) ∨ (∃ k ∈ u.aggRemoved, n = nm.nameA k) := by
      intro n
      simp only [roaObjUpdates, List.mem_append, List.mem_map]
      constructor
      · rintro (⟨k, hk', rfl⟩ | ⟨k, hk', rfl⟩)
        · exact Or.inl ⟨k, hk', rfl⟩
        · exact Or.inr ⟨k, hk', rfl⟩
      · rintro (⟨k, hk', rfl⟩ | ⟨k, hk', rfl⟩)
        · exact Or.inl ⟨k, hk', rfl⟩
        · exact Or.inr ⟨k, hk', rfl⟩
    have haddedMem : ∀ e, e ∈ (roaObjUpdates nm u).added ↔
        (∃ x ∈ u.updated, e = (nm.nameS x.1, pubOf x.2.obj)) ∨
        (∃ x ∈ u.aggUpdated, e = (nm.nameA x.1, pubOf x.2.obj)) := by
      intro e
      simp only [roaObjUpdates, List.mem_append, List.mem_map]
      constructor
      · rintro (⟨x, hx, rfl⟩ | ⟨x, hx, rfl⟩)
        · exact Or.inl ⟨x, hx, rfl⟩
        · exact Or.inr ⟨x, hx, rfl⟩
      · rintro (⟨x, hx, rfl⟩ | ⟨x, hx, rfl⟩)
        · exact Or.inl ⟨x, hx, rfl⟩
        · exact Or.inr ⟨x, hx, rfl⟩
    simp only [Roas.apply]
    constructor
    · rintro ⟨h1, hnr⟩
      rw [hremoved] at hnr
      rcases h1 with ⟨hold, hna⟩ | hnew
      · rw [hkeysAdded] at hna
        rcases hold with ⟨x, hx, rfl⟩ | ⟨x, hx, rfl⟩
        · refine Or.inl ⟨x, ?_, rfl⟩
          rw [mem_eraseAll, mem_putAll]
          exact ⟨Or.inl ⟨hx, fun hk' => hna (Or.inl ⟨x.1, hk', rfl⟩)⟩,
            fun hr => hnr (Or.inl ⟨x.1, hr, rfl⟩)⟩
        · refine Or.inr ⟨x, ?_, rfl⟩
          rw [mem_eraseAll, mem_putAll]
          exact ⟨Or.inl ⟨hx, fun hk' => hna (Or.inr ⟨x.1, hk', rfl⟩)⟩,
            fun hr => hnr (Or.inr ⟨x.1, hr, rfl⟩)⟩
      · rcases (haddedMem e).mp hnew with ⟨x, hx, rfl⟩ | ⟨x, hx, rfl⟩
        · refine Or.inl ⟨x, ?_, rfl⟩
          rw [mem_eraseAll, mem_putAll]
          exact ⟨Or.inr hx, fun hr => hnr (Or.inl ⟨x.1, hr, rfl⟩)⟩
        · refine Or.inr ⟨x, ?_, rfl⟩
          rw [mem_eraseAll, mem_putAll]
          exact ⟨Or.inr hx, fun hr => hnr (Or.inr ⟨x.1, hr, rfl⟩)⟩
    · rintro (⟨x, hx, rfl⟩ | ⟨x, hx, rfl⟩)
      · rw [mem_eraseAll, mem_putAll] at hx
        obtain ⟨h1, h2⟩ := hx
        refine ⟨?_, ?_⟩
        · rcases h1 with ⟨hin, hnk⟩ | hin
          · refine Or.inl ⟨Or.inl ⟨x, hin, rfl⟩, ?_⟩
            rw [hkeysAdded]
            rintro (⟨k, hk', heq⟩ | ⟨k, _, heq⟩)
            · exact hnk (hnm.injS _ _ heq ▸ hk')
            · exact hnm.disj _ _ heq
          · exact Or.inr ((haddedMem _).mpr (Or.inl ⟨x, hin, rfl⟩))
        · rw [hremoved]
          rintro (⟨k, hk', heq⟩ | ⟨k, _, heq⟩)
          · exact h2 (hnm.injS _ _ heq ▸ hk')
          · exact hnm.disj _ _ heq
      · rw [mem_eraseAll, mem_putAll] at hx
        obtain ⟨h1, h2⟩ := hx
        refine ⟨?_, ?_⟩
        · rcases h1 with ⟨hin, hnk⟩ | hin
          · refine Or.inl ⟨Or.inr ⟨x, hin, rfl⟩, ?_⟩
            rw [hkeysAdded]
            rintro (⟨k, _, heq⟩ | ⟨k, hk', heq⟩)
            · exact hnm.disj _ _ heq.symm
            · exact hnk (hnm.injA _ _ heq ▸ hk')
          · exact Or.inr ((haddedMem _).mpr (Or.inr ⟨x, hin, rfl⟩))
        · rw [hremoved]
          rintro (⟨k, _, heq⟩ | ⟨k, hk', heq⟩)
          · exact hnm.disj _ _ heq.symm
          · exact h2 (hnm.injA _ _ heq ▸ hk')

/-! ### Histories of a class -/

theorem createUpdates_keys_nodup (r : Roas) (cov : Payload → Bool) (routes : List Payload) (hroutes : routes.Nodup)
    (deagg agg : Nat) (mintS : Payload → ObjMeta) (mintA : AggKey → ObjMeta) :
    (keys (r.createUpdates cov routes deagg agg mintS mintA).updated).Nodup ∧
    (keys (r.createUpdates cov routes deagg agg mintS mintA).aggUpdated).Nodup := by
  have hrel : (relevant cov routes).Nodup := nodup_filter hroutes _
  have hS : ∀ l : List Payload, l.Nodup → (keys (l.map fun a => (a, (⟨[a], mintS a⟩ : RoaInfo)))).Nodup := by
    intro l hl; rw [keys_signed]; exact hl
  have hA : ∀ l : List (AggKey × List Payload), (keys l).Nodup →
      (keys (l.map fun d => (d.1, (⟨d.2, mintA d.1⟩ : RoaInfo)))).Nodup := by
    intro l hl; rw [keys_signedAgg]; exact hl
  have hdes : (keys ((toAggregates (relevant cov routes)).filter (needsAgg r))).Nodup := by
    have := keys_toAggregates_nodup (relevant cov routes)
    simp only [keys] at this ⊢
    exact List.Nodup.sublist (List.Sublist.map _ List.filter_sublist) this
  simp only [Roas.createUpdates, Roas.plan]
  cases r.mode (relevant cov routes).length deagg agg <;>
    simp only [RoaPlan.sign, Roas.planSimple, Roas.planStop, Roas.planStart, Roas.planAggregate]
  · exact ⟨hS _ (nodup_filter hrel _), by simp [keys]⟩
  · exact ⟨hS _ (nodup_filter hrel _), by simp [keys]⟩
  · exact ⟨by simp [keys], hA _ hdes⟩
  · exact ⟨by simp [keys], hA _ hdes⟩

theorem createRenewal_keys_nodup (r : Roas) (hr : r.WF) (force : Bool) (thr : Nat)
    (mintS : Payload → ObjMeta) (mintA : AggKey → ObjMeta) :
    (keys (r.createRenewal force thr mintS mintA).updated).Nodup ∧
    (keys (r.createRenewal force thr mintS mintA).aggUpdated).Nodup := by
  simp only [Roas.createRenewal, Roas.planRenewal, RoaPlan.sign, List.map_map, Function.comp_def]
  constructor
  · have := hr.simpleKeys
    simp only [keys, List.map_map, Function.comp_def] at this ⊢
    exact List.Nodup.sublist (List.Sublist.map _ List.filter_sublist) this
  · have := hr.aggKeys
    simp only [keys, List.map_map, Function.comp_def] at this ⊢
    exact List.Nodup.sublist (List.Sublist.map _ List.filter_sublist) this

def ClassOp.ok : ClassOp → Prop
  | .derive _ routes _ _ _ _ _ => routes.Nodup
  | _ => True

def ClassOp.isDerive : ClassOp → Bool
  | .derive .. => true
  | _ => false

/-- Well-formed ROA objects, mirrored by a well-formed key set. -/
def ClassInv (nm : Naming) (c : ClassState) : Prop := c.roas.WF ∧ MirrorV nm c ∧ GoodSet c.set

theorem classInv_step (nm : Naming) (hnm : nm.Ok) (t : Timing) (c : ClassState) (op : ClassOp) (hop : op.ok)
    (h : ClassInv nm c) : ClassInv nm (c.step nm t op) := by
  obtain ⟨hw, hm, hg⟩ := h
  cases op with
  | derive cov routes deagg agg mintS mintA i =>
    obtain ⟨k1, k2⟩ := createUpdates_keys_nodup c.roas cov routes hop deagg agg mintS mintA
    exact ⟨(createUpdates_exact c.roas hw cov routes hop deagg agg mintS mintA).2.2,
      mirror_applyRoaUpdates nm hnm t c _ i hm k1 k2, good_reissue _ t i⟩
  | renew force thr mintS mintA i =>
    obtain ⟨k1, k2⟩ := createRenewal_keys_nodup c.roas hw force thr mintS mintA
    exact ⟨(renewal_exact c.roas hw force thr mintS mintA).2.2.2,
      mirror_applyRoaUpdates nm hnm t c _ i hm k1 k2, good_reissue _ t i⟩
  | republish i => exact ⟨hw, hm, good_reissue _ t i⟩

theorem classInv_run (nm : Naming) (hnm : nm.Ok) (t : Timing) (ops : List ClassOp) (c : ClassState)
    (hops : ∀ op ∈ ops, op.ok) (h : ClassInv nm c) : ClassInv nm (c.run nm t ops) := by
  induction ops generalizing c with
  | nil => exact h
  | cons op ops ih =>
    exact ih (c.step nm t op) (fun o ho => hops o (List.mem_cons_of_mem _ ho))
      (classInv_step nm hnm t c op (hops op (List.mem_cons_self ..)) h)

/-- A fresh class: no ROAs, a freshly created key set. -/
def ClassState.init (k : NewKey) (t : Timing) : ClassState := { roas := {}, set := k.create t }

theorem classInv_init (nm : Naming) (k : NewKey) (t : Timing) : ClassInv nm (ClassState.init k t) := by
  refine ⟨wf_empty, ⟨by simp [ClassState.init, NewKey.create, KeyObjectSet.create, keys], ?_⟩, good_create k t⟩
  intro e
  simp [ClassState.init, NewKey.create, KeyObjectSet.create, roaView]

/-- Renewals and republish runs keep the payloads. -/
theorem payloads_step_nonDerive (nm : Naming) (t : Timing) (c : ClassState) (op : ClassOp)
    (hw : c.roas.WF) (hnd : op.isDerive = false) :
    ∀ p, p ∈ (c.step nm t op).roas.payloads ↔ p ∈ c.roas.payloads := by
  cases op with
  | derive => simp [ClassOp.isDerive] at hnd
  | renew force thr mintS mintA i =>
    exact (renewal_exact c.roas hw force thr mintS mintA).2.2.1
  | republish i => intro p; rfl

theorem payloads_run_nonDerive (nm : Naming) (hnm : nm.Ok) (t : Timing) (ops : List ClassOp) (c : ClassState)
    (h : ClassInv nm c) (hnd : ∀ op ∈ ops, op.isDerive = false) :
    ∀ p, p ∈ (c.run nm t ops).roas.payloads ↔ p ∈ c.roas.payloads := by
  induction ops generalizing c with
  | nil => intro p; rfl
  | cons op ops ih =>
    intro p
    have hop : op.ok := by
      have := hnd op (List.mem_cons_self ..)
      cases op <;> simp [ClassOp.isDerive, ClassOp.ok] at this ⊢
    have h' := classInv_step nm hnm t c op hop h
    have := ih (c.step nm t op) h' (fun o ho => hnd o (List.mem_cons_of_mem _ ho)) p
    simp only [ClassState.run, List.foldl_cons] at this ⊢
    rw [this]
    exact payloads_step_nonDerive nm t c op h.1 (hnd op (List.mem_cons_self ..)) p

/-! ### A naming that identifies objects (non-vacuity of `Naming.Ok`) -/

/-- An injective pairing. -/
def pr (a b : Nat) : Nat := 2 ^ a * (2 * b + 1)

theorem pr_inj : ∀ a b c d, pr a b = pr c d → a = c ∧ b = d := by
  intro a
  induction a with
  | zero =>
    intro b c d h
    cases c with
    | zero => simp [pr] at h; exact ⟨rfl, by omega⟩
    | succ c =>
      exfalso
      simp only [pr, Nat.pow_zero, Nat.one_mul, Nat.pow_succ] at h
      have : 2 ^ c * 2 * (2 * d + 1) = 2 * (2 ^ c * (2 * d + 1)) := by
        rw [Nat.mul_comm (2 ^ c) 2, Nat.mul_assoc]
      omega
  | succ a ih =>
    intro b c d h
    cases c with
    | zero =>
      exfalso
      simp only [pr, Nat.pow_zero, Nat.one_mul, Nat.pow_succ] at h
      have : 2 ^ a * 2 * (2 * b + 1) = 2 * (2 ^ a * (2 * b + 1)) := by
        rw [Nat.mul_comm (2 ^ a) 2, Nat.mul_assoc]
      omega
    | succ c =>
      simp only [pr, Nat.pow_succ] at h
      have h1 : 2 ^ a * 2 * (2 * b + 1) = 2 * (2 ^ a * (2 * b + 1)) := by
        rw [Nat.mul_comm (2 ^ a) 2, Nat.mul_assoc]
      have h2 : 2 ^ c * 2 * (2 * d + 1) = 2 * (2 ^ c * (2 * d + 1)) := by
        rw [Nat.mul_comm (2 ^ c) 2, Nat.mul_assoc]
      have : pr a b = pr c d := by simp only [pr]; omega
      obtain ⟨e1, e2⟩ := ih b c d this
      exact ⟨by omega, e2⟩

/-- Even numbers for simple ROAs, odd ones for aggregates. -/
def exampleNaming : Naming :=
  { nameS := fun p => 2 * pr p.asn (pr (if p.v6 then 1 else 0) (pr p.addr (pr p.len p.maxLen)))
    nameA := fun k => 2 * pr k.asn (match k.group with | none => 0 | some g => g + 1) + 1 }

theorem exampleNaming_ok : exampleNaming.Ok := by
  refine ⟨?_, ?_, ?_⟩
  · intro a b h
    simp only [exampleNaming] at h
    have h1 : pr a.asn (pr (if a.v6 then 1 else 0) (pr a.addr (pr a.len a.maxLen))) =
        pr b.asn (pr (if b.v6 then 1 else 0) (pr b.addr (pr b.len b.maxLen))) := by omega
    obtain ⟨e1, h2⟩ := pr_inj _ _ _ _ h1
    obtain ⟨e2, h3⟩ := pr_inj _ _ _ _ h2
    obtain ⟨e3, h4⟩ := pr_inj _ _ _ _ h3
    obtain ⟨e4, e5⟩ := pr_inj _ _ _ _ h4
    obtain ⟨a1, v1, a3, a4, a5⟩ := a
    obtain ⟨b1, v2, b3, b4, b5⟩ := b
    simp only at e1 e2 e3 e4 e5
    subst e1; subst e3; subst e4; subst e5
    cases v1 <;> cases v2 <;> simp at e2 <;> rfl
  · intro a b h
    simp only [exampleNaming] at h
    have h1 : pr a.asn (match a.group with | none => 0 | some g => g + 1) =
        pr b.asn (match b.group with | none => 0 | some g => g + 1) := by omega
    obtain ⟨e1, e2⟩ := pr_inj _ _ _ _ h1
    obtain ⟨a1, g1⟩ := a
    obtain ⟨b1, g2⟩ := b
    simp only at e1 e2
    subst e1
    cases g1 <;> cases g2 <;> simp at e2 <;> simp [e2]
  · intro a b h
    simp only [exampleNaming] at h
    omega

end KM.Ca.Pub
