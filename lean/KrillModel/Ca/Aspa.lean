/-
Model of `AspaDefinitions` / `AspaDefinitions::process_updates`
(`src/server/ca/aspa.rs:36-200`), `AspaDefinition::{customer_used_as_provider,
contains_duplicate_providers, apply_update}` (`src/api/aspa.rs:110-151`), the three ASPA
configuration events of `CertAuth::apply` (`certauth.rs:607-617`) and
`CertAuth::updated_allowed_and_needed` / `process_aspas_update_existing`
(`certauth.rs:2314-2388`).

`AspaDefinitions` is a `HashMap<CustomerAsn, AspaDefinition>`; the model is an association
list with map semantics.

Import-free so that the driver can be compiled as a `lean_exe`.
-/
namespace KM.Ca

/-- `AspaDefinition` -/
structure AspaDef where
  customer  : Nat
  providers : List Nat
deriving DecidableEq, Repr, Inhabited

/-- `AspaProvidersUpdate` -/
structure ProvUpdate where
  added   : List Nat
  removed : List Nat
deriving DecidableEq, Repr, Inhabited

def ProvUpdate.isEmpty (u : ProvUpdate) : Bool := u.added.isEmpty && u.removed.isEmpty

/-- `customer_used_as_provider` -/
def AspaDef.customerUsedAsProvider (d : AspaDef) : Bool := d.providers.contains d.customer

/-- Does the list contain some value twice. -/
def hasDup : List Nat → Bool
  | [] => false
  | x :: xs => xs.contains x || hasDup xs

/-- `contains_duplicate_providers` (sort, dedup, compare lengths). -/
def AspaDef.containsDuplicateProviders (d : AspaDef) : Bool := hasDup d.providers

/-- Insertion into a sorted list (for `providers.sort()`). -/
def insertSorted (x : Nat) : List Nat → List Nat
  | [] => [x]
  | y :: ys => if x ≤ y then x :: y :: ys else y :: insertSorted x ys

def sortNat (l : List Nat) : List Nat := l.foldr insertSorted []

/-- `AspaDefinition::apply_update`: drop the removed, push the added that are not there yet,
sort. -/
def AspaDef.applyUpdate (d : AspaDef) (u : ProvUpdate) : AspaDef :=
  let kept := d.providers.filter (fun p => !(u.removed.contains p))
  let pushed := u.added.foldl (fun acc a => if acc.contains a then acc else acc ++ [a]) kept
  { d with providers := sortNat pushed }

abbrev AspaDefs := List AspaDef

namespace AspaDefs

def get? (s : AspaDefs) (c : Nat) : Option AspaDef := s.find? (fun d => d.customer == c)

def has (s : AspaDefs) (c : Nat) : Bool := s.any (fun d => d.customer == c)

/-- `AspaDefinitions::remove` -/
def remove (s : AspaDefs) (c : Nat) : AspaDefs := s.filter (fun d => !(d.customer == c))

/-- `AspaDefinitions::add_or_replace` -/
def addOrReplace (s : AspaDefs) (d : AspaDef) : AspaDefs := d :: remove s d.customer

/-- `AspaDefinitions::apply_update` (aspa.rs:56-79) -/
def applyUpdate (s : AspaDefs) (c : Nat) (u : ProvUpdate) : AspaDefs :=
  match get? s c with
  | some cur =>
    let upd := cur.applyUpdate u
    if upd.providers.isEmpty then remove s c else addOrReplace s upd
  | none => addOrReplace s ((⟨c, []⟩ : AspaDef).applyUpdate u)

end AspaDefs

/-- `AspaConfigAdded | AspaConfigUpdated | AspaConfigRemoved` -/
inductive AspaEv where
  | added (d : AspaDef)
  | updated (c : Nat) (u : ProvUpdate)
  | removed (c : Nat)
deriving DecidableEq, Repr, Inhabited

/-- `CertAuth::apply` for the ASPA configuration events. -/
def applyAspaEv (s : AspaDefs) : AspaEv → AspaDefs
  | .added d => s.addOrReplace d
  | .updated c u => s.applyUpdate c u
  | .removed c => s.remove c

def applyAspaEvs (s : AspaDefs) (evs : List AspaEv) : AspaDefs := evs.foldl applyAspaEv s

inductive AspaErr where
  | customerUnknown (c : Nat)
  | providersEmpty (c : Nat)
  | customerAsProvider (c : Nat)
  | providersDuplicates (c : Nat)
  | notEntitled (c : Nat)
deriving DecidableEq, Repr, Inhabited

/-- `AspaDefinitionUpdates` -/
structure AspaUpdates where
  addOrReplace : List AspaDef
  remove       : List Nat
deriving DecidableEq, Repr, Inhabited

/-- Body of the removal loop (aspa.rs:101-110). -/
def aspaRemoveStep (acc : AspaDefs × List AspaEv) (c : Nat) : Except AspaErr (AspaDefs × List AspaEv) :=
  if !(acc.1.has c) then .error (.customerUnknown c)
  else .ok (acc.1.remove c, acc.2 ++ [.removed c])

/-- The four checks on a definition, in the order of the code (aspa.rs:114-140). -/
def aspaCheck (holdsAsn : Nat → Bool) (d : AspaDef) : Option AspaErr :=
  if d.providers.isEmpty then some (.providersEmpty d.customer)
  else if d.customerUsedAsProvider then some (.customerAsProvider d.customer)
  else if d.containsDuplicateProviders then some (.providersDuplicates d.customer)
  else if !(holdsAsn d.customer) then some (.notEntitled d.customer)
  else none

/-- Body of the addition loop (aspa.rs:112-186, after fix abeec4b3): the event is computed
against the running copy as it is before this entry. -/
def aspaAddStep (holdsAsn : Nat → Bool) (acc : AspaDefs × List AspaEv)
    (d : AspaDef) : Except AspaErr (AspaDefs × List AspaEv) :=
  match aspaCheck holdsAsn d with
  | some e => .error e
  | none =>
    let all := acc.1.addOrReplace d
    match acc.1.get? d.customer with
    | none => .ok (all, acc.2 ++ [.added d])
    | some existing =>
      let upd : ProvUpdate :=
        { added := d.providers.filter (fun p => !(existing.providers.contains p)),
          removed := existing.providers.filter (fun p => !(d.providers.contains p)) }
      if !upd.isEmpty then .ok (all, acc.2 ++ [.updated d.customer upd]) else .ok (all, acc.2)

/-- COUNTER-MODEL – the addition loop of the pinned tree (before fix abeec4b3): the event is
computed against the definitions *before* the update (`self.get(customer)`, here `orig`),
not against the running copy. -/
def aspaAddStepPinned (orig : AspaDefs) (holdsAsn : Nat → Bool) (acc : AspaDefs × List AspaEv)
    (d : AspaDef) : Except AspaErr (AspaDefs × List AspaEv) :=
  match aspaCheck holdsAsn d with
  | some e => .error e
  | none =>
    let all := acc.1.addOrReplace d
    match orig.get? d.customer with
    | none => .ok (all, acc.2 ++ [.added d])
    | some existing =>
      let upd : ProvUpdate :=
        { added := d.providers.filter (fun p => !(existing.providers.contains p)),
          removed := existing.providers.filter (fun p => !(d.providers.contains p)) }
      if !upd.isEmpty then .ok (all, acc.2 ++ [.updated d.customer upd]) else .ok (all, acc.2)

def foldlE {α β ε} (f : β → α → Except ε β) : β → List α → Except ε β
  | b, [] => .ok b
  | b, a :: as =>
    match f b a with
    | .error e => .error e
    | .ok b' => foldlE f b' as

/-- `AspaDefinitions::process_updates` -/
def aspaProcessUpdates (s : AspaDefs) (holdsAsn : Nat → Bool) (u : AspaUpdates) :
    Except AspaErr (AspaDefs × List AspaEv) :=
  match foldlE aspaRemoveStep (s, []) u.remove with
  | .error e => .error e
  | .ok acc => foldlE (aspaAddStep holdsAsn) acc u.addOrReplace

/-- COUNTER-MODEL – `process_updates` of the pinned tree. -/
def aspaProcessUpdatesPinned (s : AspaDefs) (holdsAsn : Nat → Bool) (u : AspaUpdates) :
    Except AspaErr (AspaDefs × List AspaEv) :=
  match foldlE aspaRemoveStep (s, []) u.remove with
  | .error e => .error e
  | .ok acc => foldlE (aspaAddStepPinned s holdsAsn) acc u.addOrReplace

/-- The effect of the command on the configuration. -/
def aspaCommand (s : AspaDefs) (holdsAsn : Nat → Bool) (u : AspaUpdates) : AspaDefs :=
  match aspaProcessUpdates s holdsAsn u with
  | .ok (_, evs) => applyAspaEvs s evs
  | .error _ => s

/-- `CertAuth::updated_allowed_and_needed` (certauth.rs:2347-2388): `.ok false` – nothing to
do, `.ok true` – apply, `.error` – refused. -/
def updatedAllowedAndNeeded (s : AspaDefs) (holdsAsn : Nat → Bool) (c : Nat) (u : ProvUpdate) :
    Except AspaErr Bool :=
  let existing : AspaDef := (s.get? c).getD ⟨c, []⟩
  let updated := existing.applyUpdate u
  if updated == existing then .ok false
  else if updated.providers.isEmpty then .ok true
  else if !(holdsAsn c) then .error (.notEntitled c)
  else if updated.customerUsedAsProvider then .error (.customerAsProvider c)
  else .ok true

/-- `process_aspas_update_existing` up to the configuration event. -/
def aspaUpdateExisting (s : AspaDefs) (holdsAsn : Nat → Bool) (c : Nat) (u : ProvUpdate) :
    Except AspaErr (List AspaEv) :=
  match updatedAllowedAndNeeded s holdsAsn c u with
  | .error e => .error e
  | .ok true => .ok [.updated c u]
  | .ok false => .ok []

/-- One ASPA update request: the update and the AS numbers held at that moment. -/
structure AspaReq where
  holdsAsn : Nat → Bool
  upd      : AspaUpdates

/-- The definitions after a history of update requests. -/
def runAspa (s0 : AspaDefs) (h : List AspaReq) : AspaDefs :=
  h.foldl (fun s q => aspaCommand s q.holdsAsn q.upd) s0

namespace Spec

/-- A removal is bad when there is no definition for the customer, or an earlier removal of
this update already took it. -/
def badRemove (s : AspaDefs) (before : List Nat) (c : Nat) : Bool :=
  !(s.has c) || before.contains c

/-- A definition is bad when the provider list is empty, names the customer, has a
duplicate, or the customer AS is not held. -/
def badDef (holdsAsn : Nat → Bool) (d : AspaDef) : Bool :=
  d.providers.isEmpty || d.providers.contains d.customer || hasDup d.providers ||
    !(holdsAsn d.customer)

end Spec

end KM.Ca
