/-
Model of `Routes` and `Routes::process_updates` (`src/server/ca/roa.rs:28-233`), the three
route events of `CertAuth::apply` (`src/server/ca/certauth.rs:586-596`) and the
normalisation `RoaConfigurationUpdates::set_explicit_max_length` (`src/api/roa.rs:536-539`)
that `process_route_authorizations_update` (`certauth.rs:2216-2226`) runs first.

`Routes` is a `HashMap<RoaPayloadJsonMapKey, RouteInfo>`; the key is the payload *including*
the optional max length (derived `Hash`/`Eq`), so `10.0.0.0/8 => 1` and `10.0.0.0/8-8 => 1`
are different keys unless the delta has been normalised.  The model is an association list
with map semantics (`get?` finds the first entry, `add` drops older entries of the key).
`RouteInfo::since` (a time stamp) is not modelled.

`Spec.*` is the declarative reading of the property ("refused exactly when …"): it says for
each entry of the delta, from the state and the entries *before* it alone, whether and why
it is bad.  `Props/C05.lean` proves that the code computes exactly that.

Import-free so that the driver can be compiled as a `lean_exe`.
-/
import KrillModel.Bgp.Analyse
namespace KM.Ca
open KM.Bgp KM.Input

abbrev Comment := Option String

/-- `Routes`: payload ↦ comment. -/
abbrev Routes := List (Roa × Comment)

namespace Routes

def get? (r : Routes) (p : Roa) : Option Comment := (r.find? (fun e => e.1 == p)).map (·.2)

def has (r : Routes) (p : Roa) : Bool := r.any (fun e => e.1 == p)

/-- `Routes::remove` -/
def remove (r : Routes) (p : Roa) : Routes := r.filter (fun e => !(e.1 == p))

/-- `Routes::add`: insert with `RouteInfo::default()` (no comment), replacing any entry. -/
def add (r : Routes) (p : Roa) : Routes := (p, none) :: remove r p

/-- `Routes::update_comment`: no-op when absent. -/
def updateComment (r : Routes) (p : Roa) (c : Comment) : Routes :=
  r.map (fun e => if e.1 == p then (e.1, c) else e)

end Routes

/-- `RouteAuthorizationRemoved | RouteAuthorizationAdded | RouteAuthorizationComment` -/
inductive RouteEv where
  | removed (p : Roa)
  | added (p : Roa)
  | comment (p : Roa) (c : Comment)
deriving DecidableEq, Repr, Inhabited

/-- `CertAuth::apply` for the route events. -/
def applyRouteEv (r : Routes) : RouteEv → Routes
  | .removed p => r.remove p
  | .added p => r.add p
  | .comment p c => r.updateComment p c

def applyRouteEvs (r : Routes) (evs : List RouteEv) : Routes := evs.foldl applyRouteEv r

/-- `RoaDeltaError` -/
structure DeltaError where
  duplicates    : List RoaConf := []
  notheld       : List RoaConf := []
  unknowns      : List Roa := []
  invalidLength : List RoaConf := []
deriving DecidableEq, Repr, Inhabited

def DeltaError.isEmpty (e : DeltaError) : Bool :=
  e.duplicates.isEmpty && e.notheld.isEmpty && e.unknowns.isEmpty && e.invalidLength.isEmpty

/-- `RoaConfigurationUpdates` -/
structure RoaUpdates where
  added   : List RoaConf
  removed : List Roa
deriving DecidableEq, Repr, Inhabited

/-- `RoaConfigurationUpdates::set_explicit_max_length` -/
def RoaUpdates.setExplicitMaxLength (u : RoaUpdates) : RoaUpdates :=
  { added := u.added.map (fun c => { c with payload := Input.setExplicitMaxLength c.payload }),
    removed := u.removed.map Input.setExplicitMaxLength }

/-- The mutable locals of `process_updates`. -/
structure Acc where
  desired : Routes
  evs     : List RouteEv := []
  errs    : DeltaError := {}
deriving Repr, Inhabited

/-- Body of the first loop (roa.rs:161-169). -/
def removeStep (acc : Acc) (p : Roa) : Acc :=
  if acc.desired.has p then
    { acc with desired := acc.desired.remove p, evs := acc.evs ++ [.removed p] }
  else
    { acc with errs := { acc.errs with unknowns := acc.errs.unknowns ++ [p] } }

/-- Body of the second loop (roa.rs:172-224).  `held` is
`all_resources.contains_roa_address(&payload.as_roa_ip_address())`. -/
def addStep (held : Roa → Bool) (acc : Acc) (c : RoaConf) : Acc :=
  let p := c.payload
  if !maxLengthValid p then
    { acc with errs := { acc.errs with invalidLength := acc.errs.invalidLength ++ [c] } }
  else if !held p then
    { acc with errs := { acc.errs with notheld := acc.errs.notheld ++ [c] } }
  else
    match acc.desired.get? p with
    | some cur =>
      if cur != c.comment then
        -- the event is recorded; `desired_routes` keeps the old comment
        { acc with evs := acc.evs ++ [.comment p c.comment] }
      else
        { acc with errs := { acc.errs with duplicates := acc.errs.duplicates ++ [c] } }
    | none =>
      if c.comment.isSome then
        { acc with desired := (acc.desired.add p).updateComment p c.comment,
                   evs := acc.evs ++ [.added p, .comment p c.comment] }
      else
        { acc with desired := acc.desired.add p, evs := acc.evs ++ [.added p] }

/-- `Routes::process_updates` -/
def processUpdates (r : Routes) (held : Roa → Bool) (u : RoaUpdates) :
    Except DeltaError (Routes × List RouteEv) :=
  let acc := u.removed.foldl removeStep { desired := r }
  let acc := u.added.foldl (addStep held) acc
  if acc.errs.isEmpty then .ok (acc.desired, acc.evs) else .error acc.errs

/-- `process_route_authorizations_update` up to the configuration events: normalise, then
`process_updates`. -/
def processRouteUpdate (r : Routes) (held : Roa → Bool) (u : RoaUpdates) :
    Except DeltaError (Routes × List RouteEv) :=
  processUpdates r held u.setExplicitMaxLength

/-- The effect of the command on the configuration: a refused command leaves no event. -/
def routeCommand (r : Routes) (held : Roa → Bool) (u : RoaUpdates) : Routes :=
  match processRouteUpdate r held u with
  | .ok (_, evs) => applyRouteEvs r evs
  | .error _ => r

/-! ## Histories of requests -/

/-- One `routes update` request as the CA sees it: the delta and the resources the CA holds
at that moment (entitlements change between requests). -/
structure RouteReq where
  held : Roa → Bool
  upd  : RoaUpdates

/-- The configuration after a history of requests (each one `routeCommand`). -/
def runRoutes (r0 : Routes) (h : List RouteReq) : Routes :=
  h.foldl (fun r q => routeCommand r q.held q.upd) r0

/-! ## The declarative reading of the property -/
namespace Spec

/-- The configuration after the removals: everything whose payload is not listed. -/
def baseline (r : Routes) (removed : List Roa) : Routes :=
  r.filter (fun e => !(removed.contains e.1))

/-- A removal is bad when the payload is not configured, or an earlier removal of the same
delta already took it. -/
def badRemoval (r : Routes) (before : List Roa) (p : Roa) : Bool :=
  !(r.has p) || before.contains p

/-- The removals reported as unknown, in order. -/
def unknowns (r : Routes) : List Roa → List Roa → List Roa
  | _, [] => []
  | before, p :: rest =>
    (if badRemoval r before p then [p] else []) ++ unknowns r (before ++ [p]) rest

/-- Additions that pass the two checks that look at the entry alone. -/
def admissible (held : Roa → Bool) (c : RoaConf) : Bool :=
  maxLengthValid c.payload && held c.payload

/-- Is the payload configured when an addition is looked at: it survived the removals or an
earlier admissible addition of this delta brought it in. -/
def present (base : Routes) (held : Roa → Bool) (before : List RoaConf) (p : Roa) : Bool :=
  base.has p || (before.filter (admissible held)).any (fun c => c.payload == p)

/-- … and with which comment: the one it had, else the one of the *first* admissible
addition of this delta (`process_updates` never refreshes the comment it tracks). -/
def commentOf (base : Routes) (held : Roa → Bool) (before : List RoaConf) (p : Roa) : Comment :=
  match base.get? p with
  | some c => c
  | none =>
    match (before.filter (admissible held)).find? (fun c => c.payload == p) with
    | some c => c.comment
    | none => none

inductive Bad where
  | invalidLength | notHeld | duplicate
deriving DecidableEq, Repr

/-- Why an addition is bad, if it is: invalid max length, prefix not held, or already present
with the same comment. -/
def badAddition (base : Routes) (held : Roa → Bool) (before : List RoaConf) (c : RoaConf) :
    Option Bad :=
  if !maxLengthValid c.payload then some .invalidLength
  else if !held c.payload then some .notHeld
  else if present base held before c.payload && commentOf base held before c.payload == c.comment
    then some .duplicate
  else none

/-- The additions of class `k`, in order. -/
def badAdditions (k : Bad) (base : Routes) (held : Roa → Bool) :
    List RoaConf → List RoaConf → List RoaConf
  | _, [] => []
  | before, c :: rest =>
    (if badAddition base held before c == some k then [c] else []) ++
      badAdditions k base held (before ++ [c]) rest

/-- The error report the property asks for. -/
def expectedErrors (r : Routes) (held : Roa → Bool) (u : RoaUpdates) : DeltaError :=
  let base := baseline r u.removed
  { duplicates := badAdditions .duplicate base held [] u.added,
    notheld := badAdditions .notHeld base held [] u.added,
    unknowns := unknowns r [] u.removed,
    invalidLength := badAdditions .invalidLength base held [] u.added }

/-- Comment of the last addition for `p` in the delta. -/
def lastComment (added : List RoaConf) (p : Roa) : Option Comment :=
  (added.reverse.find? (fun c => c.payload == p)).map (·.comment)

/-- The configuration an accepted delta must produce: `(r ∖ removed) ∪ added`, an added
payload carrying the comment of its last mention. -/
def expectedGet (r : Routes) (u : RoaUpdates) (p : Roa) : Option Comment :=
  match lastComment u.added p with
  | some c => some c
  | none => (baseline r u.removed).get? p

/-- Some entry of the delta is bad: a removal of something that is not configured (or was
already removed by this delta), or an addition with an invalid max length, with a prefix
that is not held, or of an authorisation already present with the same comment.
"Present" and "same comment" refer to the configuration as it is when the entry is looked
at: after all removals and the admissible additions before it (`Ca.Spec`). -/
def SomeEntryBad (r : Routes) (held : Roa → Bool) (u : RoaUpdates) : Prop :=
  (∃ pre p post, u.removed = pre ++ p :: post ∧ (r.has p = false ∨ p ∈ pre)) ∨
  (∃ pre c post, u.added = pre ++ c :: post ∧
    (maxLengthValid c.payload = false ∨ held c.payload = false ∨
      (present (baseline r u.removed) held pre c.payload = true ∧
        commentOf (baseline r u.removed) held pre c.payload = c.comment)))

/-- Is the request accepted in configuration `r`: no entry of the (normalised) delta is bad. -/
def accepted (r : Routes) (q : RouteReq) : Bool :=
  (expectedErrors r q.held q.upd.setExplicitMaxLength).isEmpty

/-- What the API shows for payload `p` after an accepted delta, from what it showed before:
the comment of the last mention among the additions, else gone if removed, else unchanged. -/
def viewStep (u : RoaUpdates) (g : Roa → Option Comment) (p : Roa) : Option Comment :=
  match lastComment u.added p with
  | some c => some c
  | none => if u.removed.contains p then none else g p

/-- The view after a history: the fold of the *accepted* deltas; refused requests leave no
trace.  (`r` is the configuration the acceptance of each request is judged in.) -/
def viewRun : Routes → (Roa → Option Comment) → List RouteReq → (Roa → Option Comment)
  | _, g, [] => g
  | r, g, q :: rest =>
    if accepted r q then
      viewRun (routeCommand r q.held q.upd) (viewStep q.upd.setExplicitMaxLength g) rest
    else viewRun r g rest

end Spec

end KM.Ca
