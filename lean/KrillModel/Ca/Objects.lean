/-
Model of `src/server/ca/publishing.rs` (`CaObjects`, `ResourceClassObjects`, `KeyObjectSet`,
`ObjectSetRevision`, `ManifestBuilder`, `PublishedCrl::build`), of `Revocations` (api/ca.rs:690-734)
and of the repository synchronisation `CaManager::ca_repo_sync` (manager.rs:2642-2703).

A `KeyObjectSet` carries what the code stores (revision, revocations, published objects, the last
manifest and CRL) as abstract records, plus two *ghost* fields used only by the C03 statements:
`ever`, the `(serial, notAfter)` of every object that was ever put into `published`, and `maxNow`,
the latest instant at which expired revocations were dropped.

Time is explicit: every function that reads the clock in the code takes `now` (unix seconds).
What signing produces (hashes, the manifest's EE serial, the random jitter on next-update) comes
in as `IssueIn`.  Names, serials, hashes, URIs are natural numbers (the driver encodes strings
injectively).

Quirks kept: `re_issue(force)` re-issues *every* class when forced and, when not forced, every
class in which *any* set is due (all sets of that class); staging/old set first, then current;
revocations are appended; `remove_expired` keeps `expires > now`; `retire` keeps revision,
manifest and CRL and empties the object list; updates always go to the *current* set; the
`unsuspended` list of a certificate update inserts without revoking what it replaces (only
produced by pre-0.16 histories).

Import-free so that the driver can be compiled as a `lean_exe`.
-/
import KrillModel.Ca.PubBase
namespace KM.Ca.Pub

/-! ### Revocations -/

structure Revocation where
  serial  : Nat
  expires : Nat
deriving DecidableEq, Repr, Inhabited

/-- `Revocations::remove_expired`: keep what expires after `now`. -/
def removeExpired (now : Nat) (revs : List Revocation) : List Revocation :=
  revs.filter fun r => decide (r.expires > now)

/-- A published object other than manifest and CRL (`PublishedObject`). -/
structure PubObj where
  serial  : Nat
  expires : Nat
  hash    : Nat
deriving DecidableEq, Repr, Inhabited

/-- `PublishedItem::revoke`. -/
def PubObj.revoke (o : PubObj) : Revocation := ⟨o.serial, o.expires⟩

/-! ### Revisions, manifests, CRLs -/

/-- `ObjectSetRevision`. -/
structure Revision where
  number     : Nat
  thisUpdate : Nat
  nextUpdate : Nat
deriving DecidableEq, Repr, Inhabited

/-- The part of `IssuanceTimingConfig` that concerns manifests and CRLs. -/
structure Timing where
  nextHours   : Nat := 24
  jitterHours : Nat := 4
  hoursBefore : Nat := 8
deriving DecidableEq, Repr, Inhabited

/-- Environment inputs of one signing run. -/
structure IssueIn where
  now       : Nat
  /-- minutes of jitter drawn by `publish_next` (`0 ≤ jitterMin < 60 * jitter_hours`, 0 if none) -/
  jitterMin : Nat := 0
  crlHash   : Nat := 0
  mftHash   : Nat := 0
  mftSerial : Nat := 0
deriving DecidableEq, Repr, Inhabited

/-- `IssuanceTimingConfig::publish_next`. -/
def publishNext (t : Timing) (i : IssueIn) : Nat := i.now + (t.nextHours * 60 + i.jitterMin) * 60

/-- `Time::five_minutes_ago`. -/
def fiveMinutesAgo (now : Nat) : Nat := now - 300

/-- `ObjectSetRevision::next` (no override). -/
def Revision.next (r : Revision) (t : Timing) (i : IssueIn) : Revision :=
  { number := r.number + 1, thisUpdate := fiveMinutesAgo i.now, nextUpdate := publishNext t i }

/-- `ObjectSetRevision::create`. -/
def Revision.create (t : Timing) (i : IssueIn) : Revision :=
  { number := 1, thisUpdate := fiveMinutesAgo i.now, nextUpdate := publishNext t i }

structure Crl where
  name       : Nat
  number     : Nat
  thisUpdate : Nat
  nextUpdate : Nat
  revoked    : List Nat
  hash       : Nat
deriving DecidableEq, Repr, Inhabited

structure Manifest where
  number     : Nat
  thisUpdate : Nat
  nextUpdate : Nat
  /-- file name ↦ hash -/
  entries    : List (Nat × Nat)
  /-- serial of the one-off EE certificate -/
  serial     : Nat
  hash       : Nat
deriving DecidableEq, Repr, Inhabited

/-- `PublishedCrl::build`. -/
def buildCrl (name : Nat) (rev : Revision) (revs : List Revocation) (hash : Nat) : Crl :=
  { name, number := rev.number, thisUpdate := rev.thisUpdate, nextUpdate := rev.nextUpdate,
    revoked := revs.map (·.serial), hash }

/-- `ManifestBuilder::with_objects`: the CRL, then every published object (a map by name). -/
def mkEntries (crl : Crl) (published : List (Nat × PubObj)) : List (Nat × Nat) :=
  putAll [(crl.name, crl.hash)] (published.map fun e => (e.1, e.2.hash))

/-- `ManifestBuilder::build_new_mft`. -/
def buildMft (rev : Revision) (crl : Crl) (published : List (Nat × PubObj)) (i : IssueIn) : Manifest :=
  { number := rev.number, thisUpdate := rev.thisUpdate, nextUpdate := rev.nextUpdate,
    entries := mkEntries crl published, serial := i.mftSerial, hash := i.mftHash }

/-! ### KeyObjectSet -/

structure KeyObjectSet where
  /-- directory the key publishes in (`signing_cert.ca_repository`) -/
  base        : Nat
  crlName     : Nat
  mftName     : Nat
  revision    : Revision
  revocations : List Revocation := []
  published   : List (Nat × PubObj) := []
  manifest    : Manifest
  crl         : Crl
  /-- ghost: `(serial, notAfter)` of everything ever put into `published` -/
  ever        : List (Nat × Nat) := []
  /-- ghost: latest instant at which expired revocations were dropped -/
  maxNow      : Nat := 0
deriving DecidableEq, Repr, Inhabited

/-- `KeyObjectSet::create`. -/
def KeyObjectSet.create (base crlName mftName : Nat) (t : Timing) (i : IssueIn) : KeyObjectSet :=
  let rev := Revision.create t i
  let crl := buildCrl crlName rev [] i.crlHash
  { base, crlName, mftName, revision := rev, revocations := [], published := [],
    manifest := buildMft rev crl [] i, crl, ever := [], maxNow := 0 }

/-- `published_objects.insert(name, o)` + revocation of what it replaces. -/
def KeyObjectSet.insert (s : KeyObjectSet) (name : Nat) (o : PubObj) : KeyObjectSet :=
  { s with
    published := put s.published name o
    revocations := match get? s.published name with
      | some old => s.revocations ++ [old.revoke]
      | none => s.revocations
    ever := s.ever ++ [(o.serial, o.expires)] }

/-- `published_objects.remove(name)` + revocation of what is removed. -/
def KeyObjectSet.remove (s : KeyObjectSet) (name : Nat) : KeyObjectSet :=
  match get? s.published name with
  | some old =>
    { s with published := erase s.published name, revocations := s.revocations ++ [old.revoke] }
  | none => s

/-- The `unsuspended` arm of `update_certs`: insert, nothing revoked. -/
def KeyObjectSet.insertNoRevoke (s : KeyObjectSet) (name : Nat) (o : PubObj) : KeyObjectSet :=
  { s with published := put s.published name o, ever := s.ever ++ [(o.serial, o.expires)] }

/-- Object-level content of `RoaUpdates` / `AspaObjectsUpdates` / `BgpSecCertificateUpdates`. -/
structure ObjUpdates where
  added   : List (Nat × PubObj) := []
  removed : List Nat := []
deriving DecidableEq, Repr, Inhabited

/-- `update_roas` / `update_aspas` / `update_bgpsec_certs`: insert the added, then remove the removed. -/
def KeyObjectSet.update (s : KeyObjectSet) (u : ObjUpdates) : KeyObjectSet :=
  u.removed.foldl KeyObjectSet.remove (u.added.foldl (fun s e => s.insert e.1 e.2) s)

/-- Object-level content of `ChildCertificateUpdates`. -/
structure CertUpdates where
  removed     : List Nat := []
  issued      : List (Nat × PubObj) := []
  unsuspended : List (Nat × PubObj) := []
  suspended   : List Nat := []
deriving DecidableEq, Repr, Inhabited

/-- `update_certs`: removed, issued, unsuspended, suspended – in this order. -/
def KeyObjectSet.updateCerts (s : KeyObjectSet) (c : CertUpdates) : KeyObjectSet :=
  let s := c.removed.foldl KeyObjectSet.remove s
  let s := c.issued.foldl (fun s e => s.insert e.1 e.2) s
  let s := c.unsuspended.foldl (fun s e => s.insertNoRevoke e.1 e.2) s
  c.suspended.foldl KeyObjectSet.remove s

/-- `KeyObjectSet::requires_reissuance`: `now > next_update - hours`. -/
def KeyObjectSet.requiresReissuance (s : KeyObjectSet) (now hours : Nat) : Bool :=
  decide (now + hours * 3600 > s.revision.nextUpdate)

/-- `KeyObjectSet::reissue`. -/
def KeyObjectSet.reissue (s : KeyObjectSet) (t : Timing) (i : IssueIn) : KeyObjectSet :=
  let rev := s.revision.next t i
  let revs := removeExpired i.now s.revocations
  let crl := buildCrl s.crlName rev revs i.crlHash
  { s with
    revision := rev, revocations := revs, crl
    manifest := buildMft rev crl s.published i
    maxNow := max s.maxNow i.now }

/-- `KeyObjectSet::retire`. -/
def KeyObjectSet.retire (s : KeyObjectSet) (now : Nat) : KeyObjectSet :=
  { s with
    revocations := removeExpired now (s.revocations ++ s.published.map (·.2.revoke))
    published := []
    maxNow := max s.maxNow now }

/-- Files of this set (`add_elements`): manifest, CRL, objects – `(directory, name, hash)`. -/
def KeyObjectSet.elements (s : KeyObjectSet) : List ((Nat × Nat) × Nat) :=
  ((s.base, s.mftName), s.manifest.hash) :: ((s.base, s.crlName), s.crl.hash) ::
    s.published.map fun e => ((s.base, e.1), e.2.hash)

/-! ### Resource class: key states -/

/-- `ResourceClassKeyState`. -/
inductive ClassObjects where
  | current (cur : KeyObjectSet)
  | staging (stg cur : KeyObjectSet)
  | old (cur old : KeyObjectSet)
deriving DecidableEq, Repr, Inhabited

namespace ClassObjects

def sets : ClassObjects → List KeyObjectSet
  | current c => [c]
  | staging s c => [s, c]
  | old c o => [o, c]

def cur : ClassObjects → KeyObjectSet
  | current c => c
  | staging _ c => c
  | old c _ => c

/-- Updates always go to the current set. -/
def mapCurrent (f : KeyObjectSet → KeyObjectSet) : ClassObjects → ClassObjects
  | current c => current (f c)
  | staging s c => staging s (f c)
  | old c o => old (f c) o

/-- `ResourceClassObjects::requires_re_issuance`. -/
def requiresReissuance (now hours : Nat) : ClassObjects → Bool
  | current c => c.requiresReissuance now hours
  | old c o => o.requiresReissuance now hours || c.requiresReissuance now hours
  | staging s c => s.requiresReissuance now hours || c.requiresReissuance now hours

/-- `ResourceClassObjects::reissue`: the staging/old set first (`i1`), then the current one. -/
def reissue (t : Timing) (i1 i2 : IssueIn) : ClassObjects → ClassObjects
  | current c => current (c.reissue t i1)
  | staging s c => staging (s.reissue t i1) (c.reissue t i2)
  | old c o => old (c.reissue t i2) (o.reissue t i1)

/-- `keyroll_stage`. -/
def keyrollStage (new : KeyObjectSet) : ClassObjects → Option ClassObjects
  | current c => some (staging new c)
  | _ => none

/-- `keyroll_activate`. -/
def keyrollActivate (now : Nat) : ClassObjects → Option ClassObjects
  | staging s c => some (old s (c.retire now))
  | _ => none

/-- `keyroll_finish`. -/
def keyrollFinish : ClassObjects → Option ClassObjects
  | old c _ => some (current c)
  | _ => none

end ClassObjects

/-! ### CaObjects -/

/-- `CaObjects.classes` (keyed by resource class name). -/
abbrev CaObjects := List (Nat × ClassObjects)

/-- What `KeyObjectSet::create` needs for a newly certified key. -/
structure NewKey where
  base    : Nat
  crlName : Nat
  mftName : Nat
  i       : IssueIn
deriving DecidableEq, Repr, Inhabited

def NewKey.create (k : NewKey) (t : Timing) : KeyObjectSet :=
  KeyObjectSet.create k.base k.crlName k.mftName t k.i

/-- Events as far as `cert_auth_pre_save_events` looks at them. -/
inductive ObjEvent where
  | roasUpdated (rcn : Nat) (u : ObjUpdates)
  | aspasUpdated (rcn : Nat) (u : ObjUpdates)
  | bgpsecUpdated (rcn : Nat) (u : ObjUpdates)
  | certsUpdated (rcn : Nat) (c : CertUpdates)
  | keyPendingToActive (rcn : Nat) (key : NewKey)
  | keyPendingToNew (rcn : Nat) (key : NewKey)
  | keyRollActivated (rcn : Nat) (now : Nat)
  | keyRollFinished (rcn : Nat)
  | certificateReceived (rcn : Nat)
  | resourceClassRemoved (rcn : Nat)
  | repoUpdated
  | other
deriving DecidableEq, Repr, Inhabited

/-- `get_class_mut` + modification; `none` = "Missing resource class". -/
def modifyClass (o : CaObjects) (rcn : Nat) (f : ClassObjects → Option ClassObjects) : Option CaObjects :=
  match get? o rcn with
  | none => none
  | some c => (f c).map fun c' => o.map fun e => if e.1 = rcn then (e.1, c') else e

/-- One arm of the `match event` in `cert_auth_pre_save_events`: new objects and whether the
event forces a re-issue.  `none`: the listener returns an error (the command fails). -/
def applyEvent (t : Timing) (o : CaObjects) : ObjEvent → Option (CaObjects × Bool)
  | .roasUpdated rcn u | .aspasUpdated rcn u | .bgpsecUpdated rcn u =>
    (modifyClass o rcn fun c => some (c.mapCurrent (·.update u))).map (·, true)
  | .certsUpdated rcn c =>
    (modifyClass o rcn fun k => some (k.mapCurrent (·.updateCerts c))).map (·, true)
  | .keyPendingToActive rcn key =>
    if has o rcn then none else some (o ++ [(rcn, .current (key.create t))], false)
  | .keyPendingToNew rcn key => (modifyClass o rcn (·.keyrollStage (key.create t))).map (·, false)
  | .keyRollActivated rcn now => (modifyClass o rcn (·.keyrollActivate now)).map (·, true)
  | .keyRollFinished rcn => (modifyClass o rcn (·.keyrollFinish)).map (·, false)
  | .certificateReceived rcn => if has o rcn then some (o, false) else none
  | .resourceClassRemoved rcn => some (erase o rcn, true)
  | .repoUpdated => some (o, true)
  | .other => some (o, false)

def applyEvents (t : Timing) (o : CaObjects) : List ObjEvent → Option (CaObjects × Bool)
  | [] => some (o, false)
  | e :: es =>
    match applyEvent t o e with
    | none => none
    | some (o', f) => (applyEvents t o' es).map fun (o'', f') => (o'', f || f')

/-- Per class the two signing inputs of a re-issue. -/
abbrev IssueInputs := Nat → IssueIn × IssueIn

/-- `CaObjects::re_issue`: returns the new objects and whether anything was re-issued. -/
def reIssue (o : CaObjects) (force : Bool) (now : Nat) (t : Timing) (ins : IssueInputs) : CaObjects × Bool :=
  (o.map fun e =>
      if force || e.2.requiresReissuance now t.hoursBefore
      then (e.1, e.2.reissue t (ins e.1).1 (ins e.1).2) else e,
   o.any fun e => force || e.2.requiresReissuance now t.hoursBefore)

/-- `CaObjectsStore::cert_auth_pre_save_events`. -/
def preSave (o : CaObjects) (evs : List ObjEvent) (now : Nat) (t : Timing) (ins : IssueInputs) :
    Option CaObjects :=
  (applyEvents t o evs).map fun (o', force) => (reIssue o' force now t ins).1

/-- Events for which `TaskQueue::schedule_for_ca_event` queues `SyncRepo` (mq.rs:441-514). -/
def schedulesSync : ObjEvent → Bool
  | .roasUpdated .. | .aspasUpdated .. | .bgpsecUpdated .. | .certsUpdated ..
  | .keyPendingToActive .. | .keyPendingToNew .. | .keyRollActivated .. | .keyRollFinished ..
  | .resourceClassRemoved .. => true
  | _ => false

/-- `CertAuth::pre_save_events`: the object store's listener, then the task queue's; a repository
sync is queued if an event asks for it *or the listener re-issued* (the latter since the fix of
finding F-C14-2).  Returns the new objects and whether a `SyncRepo` task is queued. -/
def preSaveSync (o : CaObjects) (evs : List ObjEvent) (now : Nat) (t : Timing) (ins : IssueInputs) :
    Option (CaObjects × Bool) :=
  (applyEvents t o evs).map fun (o', force) =>
    let r := reIssue o' force now t ins
    (r.1, evs.any schedulesSync || r.2)

/-- Counter-model pinned to the behaviour before the fix: only events queue the sync. -/
def pinnedPreSaveSync (o : CaObjects) (evs : List ObjEvent) (now : Nat) (t : Timing) (ins : IssueInputs) :
    Option (CaObjects × Bool) :=
  (applyEvents t o evs).map fun (o', force) => ((reIssue o' force now t ins).1, evs.any schedulesSync)

/-- `CaObjectsStore::reissue_if_needed` (one CA of `republish_all`). -/
def reissueIfNeeded (o : CaObjects) (force : Bool) (now : Nat) (t : Timing) (ins : IssueInputs) :
    CaObjects × Bool :=
  reIssue o force now t ins

def allSets (o : CaObjects) : List KeyObjectSet := o.flatMap (·.2.sets)

/-! ### Histories -/

/-- What can happen to one key object set. -/
inductive SetOp where
  | update (u : ObjUpdates)
  | updateCerts (c : CertUpdates)
  | reissue (i : IssueIn)
  | retire (now : Nat)
deriving DecidableEq, Repr, Inhabited

def SetOp.isReissue : SetOp → Bool
  | .reissue _ => true
  | _ => false

def KeyObjectSet.step (t : Timing) (s : KeyObjectSet) : SetOp → KeyObjectSet
  | .update u => s.update u
  | .updateCerts c => s.updateCerts c
  | .reissue i => s.reissue t i
  | .retire now => s.retire now

def KeyObjectSet.run (t : Timing) (s : KeyObjectSet) (ops : List SetOp) : KeyObjectSet :=
  ops.foldl (KeyObjectSet.step t) s

/-- What can happen to the object store of one CA: a stored command (its events go through the
pre-save listener; if that fails the command fails and nothing is stored) or one CA's share of
`republish_all`. -/
inductive CaOp where
  | command (evs : List ObjEvent) (now : Nat) (ins : IssueInputs)
  | republish (force : Bool) (now : Nat) (ins : IssueInputs)

def caStep (t : Timing) (o : CaObjects) : CaOp → CaObjects
  | .command evs now ins => (preSave o evs now t ins).getD o
  | .republish force now ins => (reissueIfNeeded o force now t ins).1

def caRun (t : Timing) (o : CaObjects) (ops : List CaOp) : CaObjects := ops.foldl (caStep t) o

/-- `CaObjects::all_publish_elements` (one repository). -/
def allPublishElements (o : CaObjects) : List ((Nat × Nat) × Nat) := (allSets o).flatMap (·.elements)

/-! ### Repository synchronisation (`ca_repo_sync`) -/

abbrev Uri := Nat × Nat

structure Delta where
  publish  : List (Uri × Nat) := []
  /-- uri, new hash, hash of the object it replaces -/
  update   : List (Uri × Nat × Nat) := []
  withdraw : List (Uri × Nat) := []
deriving DecidableEq, Repr, Inhabited

def Delta.isEmpty (d : Delta) : Bool := d.publish.isEmpty && d.update.isEmpty && d.withdraw.isEmpty

/-- `publish_elements.into_iter().collect::<HashMap>()`: a later element wins. -/
def elementMap (elements : List (Uri × Nat)) : List (Uri × Nat) :=
  elements.foldl (fun m e => put m e.1 e.2) []

/-- The delta of `ca_repo_sync` from the server's list reply and the elements to publish. -/
def syncDelta (listReply : List (Uri × Nat)) (elements : List (Uri × Nat)) : Delta :=
  let all := elementMap elements
  { update := listReply.filterMap fun e =>
      match get? all e.1 with
      | some h => if h = e.2 then none else some (e.1, h, e.2)
      | none => none
    withdraw := listReply.filter fun e => !has all e.1
    publish := all.filter fun e => !has listReply e.1 }

/-- What the publication server does with an accepted delta (C10 owns the acceptance checks). -/
def applyDelta (server : List (Uri × Nat)) (d : Delta) : List (Uri × Nat) :=
  let s := d.withdraw.foldl (fun m w => erase m w.1) server
  let s := d.update.foldl (fun m u => put m u.1 u.2.1) s
  d.publish.foldl (fun m p => put m p.1 p.2) s

/-- `cas_repo_sync_single` for one CA with one repository. -/
def syncRepo (server : List (Uri × Nat)) (o : CaObjects) : List (Uri × Nat) :=
  applyDelta server (syncDelta server (allPublishElements o))

/-! ### Revocation requests of a child (`CertAuth::process_child_revoke_key`, certauth.rs:1422-1466) -/

/-- `ChildDetails` as far as the revocation request looks at it. -/
structure ChildM where
  /-- key ↦ `some rcn` (`InUse(rcn)`) or `none` (`Revoked`) -/
  usedKeys : List (Nat × Option Nat) := []
  /-- `rcn_map`: name in the parent ↦ name the child is told -/
  rcnMap   : List (Nat × Nat) := []
deriving DecidableEq, Repr, Inhabited

/-- `ChildDetails::parent_name_for_rcn`. -/
def ChildM.parentNameForRcn (c : ChildM) (nameInChild : Nat) : Nat :=
  match c.rcnMap.find? fun e => decide (e.2 = nameInChild) with
  | some e => e.1
  | none => nameInChild

/-- `ChildDetails::is_issued`. -/
def ChildM.isIssued (c : ChildM) (key : Nat) : Bool :=
  match get? c.usedKeys key with
  | some (some _) => true
  | _ => false

inductive RevokeOut where
  /-- `Ok(vec![])` for a class this CA does not have: nothing happens, the manager still sends a
  `RevocationResponse` -/
  | ignored
  /-- `Ok(vec![])` for a key this CA marked `Revoked` itself (fix 7be8c4c6): nothing to do, the
  manager sends a `RevocationResponse` -/
  | alreadyRevoked
  /-- `Err(KeyUseNoIssuedCert)` -/
  | error
  /-- `ChildKeyRevoked` + `ChildCertificatesUpdated { removed: [key] }` for the parent's class -/
  | revoked (myRcn key : Nat)
deriving DecidableEq, Repr, Inhabited

/-- `used_keys.get(key) == Some(UsedKeyState::Revoked)` -/
def ChildM.isRevoked (c : ChildM) (key : Nat) : Bool :=
  match get? c.usedKeys key with
  | some none => true
  | _ => false

/-- The decision as the code takes it (since fix 43d7eca0 of finding F-C03-1): the child's class
name is translated first, then the class is looked up; (since fix 7be8c4c6 of F-C02-2) a key this
CA revoked itself is confirmed, only a key the child never used is an error; (since fix 239f0a59
of F-C03-3) the revocation is executed only when the key is in use in THE CLASS THE REQUEST NAMES -
the class recorded in `used_keys` - and refused when it is in use in another class. -/
def processChildRevokeKey (resources : List Nat) (c : ChildM) (childRcn key : Nat) : RevokeOut :=
  if c.parentNameForRcn childRcn ∉ resources then .ignored
  else
    match get? c.usedKeys key with
    | some (some r) => if r = c.parentNameForRcn childRcn then .revoked r key else .error
    | some none => .alreadyRevoked
    | none => .error

/-- Counter-model pinned to the behaviour before fix 239f0a59 (F-C03-3): a key in use in ANY class
was "revoked" in the class the request names. -/
def pinnedRevokeAnyClass (resources : List Nat) (c : ChildM) (childRcn key : Nat) : RevokeOut :=
  if c.parentNameForRcn childRcn ∉ resources then .ignored
  else if !c.isIssued key then (if c.isRevoked key then .alreadyRevoked else .error)
  else .revoked (c.parentNameForRcn childRcn) key

/-- Counter-model pinned to the behaviour before fix 7be8c4c6 (F-C02-2, F-C01-3, F-C08-6): a
request for a key this CA had revoked itself was an error - for ever. -/
def pinnedRevokedKeyRefused (resources : List Nat) (c : ChildM) (childRcn key : Nat) : RevokeOut :=
  if c.parentNameForRcn childRcn ∉ resources then .ignored
  else if !c.isIssued key then .error
  else .revoked (c.parentNameForRcn childRcn) key

/-- Counter-model pinned to the behaviour before the fix: the class-name test came *before* the
translation. -/
def pinnedProcessChildRevokeKey (resources : List Nat) (c : ChildM) (childRcn key : Nat) : RevokeOut :=
  if childRcn ∉ resources then .ignored
  else if !c.isIssued key then .error
  else .revoked (c.parentNameForRcn childRcn) key

/-- `rfc6492_revoke` answers positively unless the command failed. -/
def RevokeOut.positive : RevokeOut → Bool
  | .error => false
  | _ => true

/-! ### The trust anchor's own objects (`TrustAnchorObjects`, api/ta.rs:215-247, 127-161) -/

structure TaObjects where
  revision    : Revision
  issued      : List (Nat × PubObj) := []
  revocations : List Revocation := []
deriving DecidableEq, Repr, Inhabited

/-- `add_issued`: replaces and revokes the previous certificate for the key. -/
def TaObjects.addIssued (o : TaObjects) (now key : Nat) (c : PubObj) : TaObjects :=
  match get? o.issued key with
  | some prev =>
    { o with issued := put o.issued key c, revocations := removeExpired now (o.revocations ++ [prev.revoke]) }
  | none => { o with issued := put o.issued key c }

/-- `revoke_issued`. -/
def TaObjects.revokeIssued (o : TaObjects) (now key : Nat) : TaObjects × Bool :=
  match get? o.issued key with
  | some prev =>
    ({ o with issued := erase o.issued key, revocations := removeExpired now (o.revocations ++ [prev.revoke]) }, true)
  | none => (o, false)

/-- `ObjectSetRevision::next` with the operator's `--ta-mft-number-override`. -/
def Revision.nextWith (r : Revision) (thisUpdate nextUpdate : Nat) (override : Option Nat) : Revision :=
  { number := match override with
      | some n => n
      | none => r.number + 1
    thisUpdate, nextUpdate }

/-- `TrustAnchorObjects::republish`. -/
def TaObjects.republish (o : TaObjects) (thisUpdate nextUpdate : Nat) (override : Option Nat) : TaObjects :=
  { o with revision := o.revision.nextWith thisUpdate nextUpdate override }

end KM.Ca.Pub
