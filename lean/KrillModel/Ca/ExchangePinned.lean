/-
`Pair.sync` (`Ca/Exchange.lean`) with the PARENT's commands executed by a given function, so that
the exchange can be run against the pinned `process` (`Sys.pinnedExec`: the tree before the fixes
7be8c4c6 and 02d8de59).  Only the counter-models of `Props/C02.lean` use it; with `Sys.exec` it is
`Pair.sync` itself (`syncWith_exec`).  Import-free (model files only).
-/
import KrillModel.Ca.Exchange
namespace KM.CaK
open KM.Res KM.AMap

def Pair.certRequestWith (E : Sys → Cmd → Outcome) (x : Pair) (r : Rcn) (parentRcn : Rcn) (ki : KeyId)
    (na : Int) : Pair :=
  match E x.parent (.childCertify x.ch parentRcn ki none na) with
  | .stored _ p' =>
    match p'.ca.issuedFor x.ch parentRcn ki with
    | some cc =>
      { x with parent := p', child := x.child.receiveOrDrop r ki { res := cc.res, na := cc.na } na }
    | none => { x with parent := p' }
  | _ => x

def Pair.classRequestsWith (E : Sys → Cmd → Outcome) (x : Pair) (r : Rcn) (na : Int) : Pair :=
  match get x.child.ca.classes r with
  | none => x
  | some rc =>
    if rc.parent ≠ x.ph then x
    else
      let x1 : Pair := match rc.keys.revokeRequest with
        | some k =>
          match E x.parent (.childRevokeKey x.ch rc.parentRcn k) with
          | .stored _ p' => { x with parent := p', child := x.child.next (.keyrollFinish r) }
          | _ => x
        | none => x
      rc.keys.certRequests.foldl (fun y ki =>
        if (get y.child.ca.classes r).isSome then y.certRequestWith E r rc.parentRcn ki na else y) x1

def Pair.syncWith (E : Sys → Cmd → Outcome) (x : Pair) (now na : Int) (fresh : List KeyId) : Pair :=
  if x.child.ca.hasPendingRequests x.ph then
    (keys x.child.ca.classes).foldl (fun y r => y.classRequestsWith E r na) x
  else
    { x with child := x.child.next (.updateEntitlements x.ph (x.parent.ca.entitlementsFor x.ch na) now fresh) }

theorem certRequestWith_exec (x : Pair) (r n : Rcn) (ki : KeyId) (na : Int) :
    x.certRequestWith Sys.exec r n ki na = x.certRequest r n ki na := rfl

theorem classRequestsWith_exec (x : Pair) (r : Rcn) (na : Int) :
    x.classRequestsWith Sys.exec r na = x.classRequests r na := rfl

/-- With the current `process` this is `Pair.sync`. -/
theorem syncWith_exec (x : Pair) (now na : Int) (fresh : List KeyId) :
    x.syncWith Sys.exec now na fresh = x.sync now na fresh := rfl

/-- One `ca_sync_parent` against a parent of the tree before the fixes 7be8c4c6 / 02d8de59. -/
def Pair.pinnedSync (x : Pair) (now na : Int) (fresh : List KeyId) : Pair := x.syncWith Sys.pinnedExec now na fresh

def Pair.pinnedSyncs (x : Pair) (now na : Int) : List (List KeyId) → Pair
  | [] => x
  | f :: fs => (x.pinnedSync now na f).pinnedSyncs now na fs

theorem pinnedSyncs_of_fixed {y : Pair} {now na : Int} (h : ∀ f, y.pinnedSync now na f = y) :
    ∀ fs, y.pinnedSyncs now na fs = y := by
  intro fs
  induction fs with
  | nil => rfl
  | cons f fs ih =>
    show (y.pinnedSync now na f).pinnedSyncs now na fs = y
    rw [h f]; exact ih

end KM.CaK
