/-
Reachable system states: from the freshly initialised CA (`CertAuth::init`, no repository,
no parents, no classes, no children) by any sequence of commands with any inputs.  A command
that is refused, whose events make `apply` panic, or whose events the pre-save listener refuses
is not stored and leaves the state as it was (`Sys.next`).  Import-free (model files only).
-/
import KrillModel.Ca.Preds
namespace KM.CaK

inductive Reachable : Sys → Prop where
  | init : Reachable {}
  | step {s : Sys} (c : Cmd) : Reachable s → Reachable (s.next c)

theorem reachable_run {s : Sys} (h : Reachable s) (cs : List Cmd) : Reachable (s.run cs) := by
  induction cs generalizing s with
  | nil => exact h
  | cons c cs ih => exact ih (Reachable.step c h)

end KM.CaK
