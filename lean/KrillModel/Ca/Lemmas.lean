/-
Helper lemmas for the configuration-change models (`Ca/Roa.lean`, `Ca/Aspa.lean`,
`Ca/Bgpsec.lean`).  No property statements here; those are in `Props/C05.lean`.
-/
import KrillModel.Ca.Roa
import KrillModel.Ca.Aspa
import KrillModel.Ca.Bgpsec
namespace KM.Ca
open KM.Bgp KM.Input

/-! ## `Routes` as a map -/
namespace Routes

theorem has_eq_isSome (r : Routes) (p : Roa) : r.has p = (r.get? p).isSome := by
  unfold has get?
  induction r with
  | nil => rfl
  | cons e rest ih =>
    by_cases h : (e.1 == p) = true
    · simp [List.any_cons, h]
    · have h' : (e.1 == p) = false := by simpa using h
      simp only [List.any_cons, List.find?_cons, h', Bool.false_or]
      exact ih

theorem get?_remove (r : Routes) (p q : Roa) :
    (r.remove p).get? q = if q = p then none else r.get? q := by
  unfold remove get?
  induction r with
  | nil => simp
  | cons e rest ih =>
    simp only [List.filter_cons]
    by_cases he : e.1 = p
    · have hp : (e.1 == p) = true := by simpa using he
      simp only [hp, Bool.not_true, Bool.false_eq_true, if_false]
      rw [ih]
      by_cases hq : q = p
      · simp [hq]
      · have : (e.1 == q) = false := by rw [he]; simpa using fun h => hq h.symm
        simp [hq, this]
    · have hne : (e.1 == p) = false := by simpa using he
      simp only [hne, Bool.not_false, if_true, List.find?_cons]
      by_cases heq : (e.1 == q) = true
      · have : q ≠ p := by
          intro h; subst h; rw [heq] at hne; cases hne
        simp [heq, this]
      · have heq' : (e.1 == q) = false := by simpa using heq
        simp only [heq']
        exact ih

theorem get?_add (r : Routes) (p q : Roa) :
    (r.add p).get? q = if q = p then some none else r.get? q := by
  unfold add
  by_cases hq : q = p
  · subst hq; simp [get?]
  · have : (p == q) = false := by simpa using fun h => hq h.symm
    have h := get?_remove r p q
    unfold get? at h ⊢
    simp only [List.find?_cons, this, hq, if_false] at h ⊢
    exact h

theorem get?_updateComment (r : Routes) (p q : Roa) (c : Comment) :
    (r.updateComment p c).get? q = if q = p then (r.get? p).map (fun _ => c) else r.get? q := by
  unfold updateComment get?
  induction r with
  | nil => simp
  | cons e rest ih =>
    by_cases he : e.1 = p
    · by_cases hq : q = p
      · subst hq; simp [he]
      · have : (e.1 == q) = false := by rw [he]; simpa using fun h => hq h.symm
        have hp : (e.1 == p) = true := by simpa using he
        simp only [List.map_cons, hp, if_true, List.find?_cons, this, hq, if_false]
        simpa [hq] using ih
    · have hne : (e.1 == p) = false := by simpa using he
      simp only [List.map_cons, hne, Bool.false_eq_true, if_false, List.find?_cons]
      by_cases heq : (e.1 == q) = true
      · have : q ≠ p := by
          intro h; subst h; rw [heq] at hne; cases hne
        simp [heq, this]
      · have heq' : (e.1 == q) = false := by simpa using heq
        simp only [heq']
        exact ih

theorem has_remove (r : Routes) (p q : Roa) :
    (r.remove p).has q = (if q = p then false else r.has q) := by
  rw [has_eq_isSome, get?_remove, has_eq_isSome]
  split <;> rfl

theorem has_add (r : Routes) (p q : Roa) :
    (r.add p).has q = (if q = p then true else r.has q) := by
  rw [has_eq_isSome, get?_add, has_eq_isSome]
  split <;> rfl

theorem has_updateComment (r : Routes) (p q : Roa) (c : Comment) :
    (r.updateComment p c).has q = r.has q := by
  rw [has_eq_isSome, get?_updateComment, has_eq_isSome]
  split
  · rename_i h; subst h; cases r.get? q <;> rfl
  · rfl

theorem remove_of_not_has (r : Routes) (p : Roa) (h : r.has p = false) : r.remove p = r := by
  unfold remove
  rw [List.filter_eq_self]
  intro e he
  unfold has at h
  rw [List.any_eq_false] at h
  simpa using h e he

end Routes

/-! ## The removal loop -/

namespace Spec

theorem baseline_snoc (r : Routes) (before : List Roa) (p : Roa) :
    baseline r (before ++ [p]) = (baseline r before).remove p := by
  unfold baseline Routes.remove
  rw [List.filter_filter]
  apply List.filter_congr
  intro e _
  simp only [List.contains_append, List.contains_cons, List.contains_nil, Bool.or_false,
    Bool.not_or]
  rw [Bool.and_comm]

theorem baseline_has (r : Routes) (before : List Roa) (p : Roa) :
    (baseline r before).has p = (r.has p && !(before.contains p)) := by
  unfold baseline Routes.has
  rw [Bool.eq_iff_iff]
  simp only [List.any_eq_true, List.mem_filter, Bool.and_eq_true, Bool.not_eq_true',
    beq_iff_eq]
  constructor
  · rintro ⟨e, ⟨he, hnc⟩, rfl⟩; exact ⟨⟨e, he, rfl⟩, hnc⟩
  · rintro ⟨⟨e, he, rfl⟩, hnc⟩; exact ⟨e, ⟨he, hnc⟩, rfl⟩

theorem baseline_nil (r : Routes) : baseline r [] = r := by
  unfold baseline; simp

end Spec

theorem applyRouteEvs_snoc (r : Routes) (evs : List RouteEv) (e : RouteEv) :
    applyRouteEvs r (evs ++ [e]) = applyRouteEv (applyRouteEvs r evs) e := by
  unfold applyRouteEvs; rw [List.foldl_append]; rfl

theorem applyRouteEvs_snoc2 (r : Routes) (evs : List RouteEv) (e1 e2 : RouteEv) :
    applyRouteEvs r (evs ++ [e1, e2]) = applyRouteEv (applyRouteEv (applyRouteEvs r evs) e1) e2 := by
  unfold applyRouteEvs; rw [List.foldl_append]; rfl

/-- State of the removal loop: started in a state whose tracked configuration is the
baseline after the removals `before`, it ends in the baseline after all removals, has
reported exactly the bad removals, and the events it recorded produce the tracked
configuration. -/
theorem removeFold (r : Routes) (rest before : List Roa) (acc : Acc)
    (hd : acc.desired = Spec.baseline r before) (ha : applyRouteEvs r acc.evs = acc.desired) :
    (rest.foldl removeStep acc).desired = Spec.baseline r (before ++ rest) ∧
    (rest.foldl removeStep acc).errs.unknowns = acc.errs.unknowns ++ Spec.unknowns r before rest ∧
    (rest.foldl removeStep acc).errs.duplicates = acc.errs.duplicates ∧
    (rest.foldl removeStep acc).errs.notheld = acc.errs.notheld ∧
    (rest.foldl removeStep acc).errs.invalidLength = acc.errs.invalidLength ∧
    applyRouteEvs r (rest.foldl removeStep acc).evs = (rest.foldl removeStep acc).desired := by
  induction rest generalizing before acc with
  | nil => simp [Spec.unknowns, hd, ha]
  | cons p rest ih =>
    simp only [List.foldl_cons]
    have hhas : acc.desired.has p = !(Spec.badRemoval r before p) := by
      rw [hd, Spec.baseline_has]; unfold Spec.badRemoval; simp
    by_cases hb : Spec.badRemoval r before p = true
    · have hh : acc.desired.has p = false := by rw [hhas, hb]; rfl
      have hstep : removeStep acc p =
          { acc with errs := { acc.errs with unknowns := acc.errs.unknowns ++ [p] } } := by
        unfold removeStep; simp [hh]
      have hd' : (removeStep acc p).desired = Spec.baseline r ((before ++ [p])) := by
        rw [hstep, Spec.baseline_snoc, ← hd]
        exact (Routes.remove_of_not_has _ _ hh).symm
      have ha' : applyRouteEvs r (removeStep acc p).evs = (removeStep acc p).desired := by
        rw [hstep]; exact ha
      obtain ⟨h1, h2, h3, h4, h5, h6⟩ := ih (before ++ [p]) (removeStep acc p) hd' ha'
      simp only [List.append_assoc, List.singleton_append] at h1 h2
      refine ⟨h1, ?_, ?_, ?_, ?_, h6⟩
      · rw [h2, hstep]; simp [Spec.unknowns, hb, List.append_assoc]
      · rw [h3, hstep]
      · rw [h4, hstep]
      · rw [h5, hstep]
    · have hb' : Spec.badRemoval r before p = false := by simpa using hb
      have hh : acc.desired.has p = true := by rw [hhas, hb']; rfl
      have hstep : removeStep acc p =
          { acc with desired := acc.desired.remove p, evs := acc.evs ++ [.removed p] } := by
        unfold removeStep; simp [hh]
      have hd' : (removeStep acc p).desired = Spec.baseline r ((before ++ [p])) := by
        rw [hstep, Spec.baseline_snoc, ← hd]
      have ha' : applyRouteEvs r (removeStep acc p).evs = (removeStep acc p).desired := by
        rw [hstep]; simp only; rw [applyRouteEvs_snoc, ha]; rfl
      obtain ⟨h1, h2, h3, h4, h5, h6⟩ := ih (before ++ [p]) (removeStep acc p) hd' ha'
      simp only [List.append_assoc, List.singleton_append] at h1 h2
      refine ⟨h1, ?_, ?_, ?_, ?_, h6⟩
      · rw [h2, hstep]; simp [Spec.unknowns, hb']
      · rw [h3, hstep]
      · rw [h4, hstep]
      · rw [h5, hstep]

/-! ## The addition loop -/

namespace Spec

theorem good_snoc (held : Roa → Bool) (before : List RoaConf) (c : RoaConf) :
    (before ++ [c]).filter (admissible held) =
      before.filter (admissible held) ++ (if admissible held c then [c] else []) := by
  rw [List.filter_append]
  by_cases h : admissible held c = true <;> simp [h]

theorem present_snoc (base : Routes) (held : Roa → Bool) (before : List RoaConf) (c : RoaConf) (p : Roa) :
    present base held (before ++ [c]) p =
      (present base held before p || (admissible held c && c.payload == p)) := by
  unfold present
  rw [good_snoc, List.any_append, Bool.or_assoc]
  by_cases h : admissible held c = true <;> simp [h]

theorem commentOf_snoc (base : Routes) (held : Roa → Bool) (before : List RoaConf) (c : RoaConf) (p : Roa) :
    commentOf base held (before ++ [c]) p =
      if present base held before p then commentOf base held before p
      else if admissible held c && c.payload == p then c.comment else none := by
  unfold commentOf present
  rw [Routes.has_eq_isSome]
  cases hb : base.get? p with
  | some cm => simp
  | none =>
    simp only [Option.isSome_none, Bool.false_or]
    rw [good_snoc, List.find?_append]
    cases hf : (before.filter (admissible held)).find? (fun x => x.payload == p) with
    | some x =>
      have : (before.filter (admissible held)).any (fun x => x.payload == p) = true := by
        rw [List.any_eq_true]
        exact ⟨x, List.mem_of_find?_eq_some hf, by simpa using List.find?_some hf⟩
      simp [this]
    | none =>
      have : (before.filter (admissible held)).any (fun x => x.payload == p) = false := by
        rw [List.any_eq_false]
        intro x hx
        have := List.find?_eq_none.mp hf x hx
        simpa using this
      simp only [this, Bool.false_eq_true, if_false, Option.none_or]
      by_cases h : admissible held c = true
      · by_cases h2 : (c.payload == p) = true
        · simp [h, h2]
        · have h2' : (c.payload == p) = false := by simpa using h2
          simp [h, h2']
      · have h' : admissible held c = false := by simpa using h
        simp [h']

theorem lastComment_snoc (before : List RoaConf) (c : RoaConf) (q : Roa) :
    lastComment (before ++ [c]) q =
      if c.payload == q then some c.comment else lastComment before q := by
  unfold lastComment
  rw [List.reverse_append]
  simp only [List.reverse_cons, List.reverse_nil, List.nil_append, List.singleton_append,
    List.find?_cons]
  by_cases h : (c.payload == q) = true
  · simp [h]
  · have h' : (c.payload == q) = false := by simpa using h
    simp [h']

end Spec

/-- The tracked configuration is the one the declarative description gives. -/
def AddInv (base : Routes) (held : Roa → Bool) (before : List RoaConf) (d : Routes) : Prop :=
  ∀ p, d.get? p =
    if Spec.present base held before p then some (Spec.commentOf base held before p) else none

theorem addInv_nil (base : Routes) (held : Roa → Bool) : AddInv base held [] base := by
  intro p
  unfold Spec.present Spec.commentOf
  rw [Routes.has_eq_isSome]
  cases base.get? p <;> simp

/-- What one round of the addition loop does, in terms of the declarative classification. -/
theorem addStep_spec (base : Routes) (held : Roa → Bool) (before : List RoaConf) (acc : Acc)
    (c : RoaConf) (hinv : AddInv base held before acc.desired) :
    AddInv base held (before ++ [c]) (addStep held acc c).desired ∧
    (addStep held acc c).errs.unknowns = acc.errs.unknowns ∧
    (addStep held acc c).errs.invalidLength = acc.errs.invalidLength ++
      (if Spec.badAddition base held before c == some .invalidLength then [c] else []) ∧
    (addStep held acc c).errs.notheld = acc.errs.notheld ++
      (if Spec.badAddition base held before c == some .notHeld then [c] else []) ∧
    (addStep held acc c).errs.duplicates = acc.errs.duplicates ++
      (if Spec.badAddition base held before c == some .duplicate then [c] else []) := by
  unfold addStep Spec.badAddition
  simp only
  by_cases hv : maxLengthValid c.payload = true
  · by_cases hh : held c.payload = true
    · have hadm : Spec.admissible held c = true := by unfold Spec.admissible; simp [hv, hh]
      simp only [hv, hh, Bool.not_true, Bool.false_eq_true, if_false]
      have hget := hinv c.payload
      by_cases hp : Spec.present base held before c.payload = true
      · rw [hp] at hget
        simp only [if_true] at hget
        rw [hget]
        simp only [hp, Bool.true_and]
        -- the tracked configuration does not change in either branch
        have hkeep : AddInv base held (before ++ [c]) acc.desired := by
          intro q
          rw [hinv q, Spec.present_snoc, Spec.commentOf_snoc]
          by_cases hq : Spec.present base held before q = true
          · simp [hq]
          · have hq' : Spec.present base held before q = false := by simpa using hq
            have : (c.payload == q) = false := by
              apply Bool.eq_false_iff.mpr
              intro h
              have : c.payload = q := by simpa using h
              rw [this] at hp; rw [hp] at hq'; cases hq'
            simp [hq', this]
        by_cases hc : (Spec.commentOf base held before c.payload != c.comment) = true
        · have hc' : (Spec.commentOf base held before c.payload == c.comment) = false := by
            simpa [bne] using hc
          simp only [hc, if_true, hc', Bool.false_eq_true, if_false]
          exact ⟨hkeep, trivial, by simp, by simp, by simp⟩
        · have hc0 : (Spec.commentOf base held before c.payload != c.comment) = false := by simpa using hc
          have hc' : (Spec.commentOf base held before c.payload == c.comment) = true := by
            simpa [bne] using hc0
          simp only [hc0, Bool.false_eq_true, if_false, hc', if_true]
          exact ⟨hkeep, trivial, by simp, by simp, by simp⟩
      · have hp' : Spec.present base held before c.payload = false := by simpa using hp
        rw [hp'] at hget
        simp only [Bool.false_eq_true, if_false] at hget
        rw [hget]
        simp only [hp', Bool.false_and, Bool.false_eq_true, if_false]
        -- fresh insertion
        have hfresh : ∀ d : Routes, (∀ q, d.get? q = if q = c.payload then some c.comment else acc.desired.get? q) →
            AddInv base held (before ++ [c]) d := by
          intro d hd q
          rw [hd q, Spec.present_snoc, Spec.commentOf_snoc, hadm]
          by_cases hq : q = c.payload
          · subst hq; simp [hp']
          · have : (c.payload == q) = false := by simpa using fun h => hq h.symm
            simp only [hq, if_false, this, Bool.and_false, Bool.or_false, Bool.false_eq_true]
            rw [hinv q]
            by_cases hpq : Spec.present base held before q = true <;> simp [hpq]
        by_cases hcs : c.comment.isSome = true
        · simp only [hcs, if_true]
          refine ⟨hfresh _ ?_, trivial, by simp, by simp, by simp⟩
          intro q
          rw [Routes.get?_updateComment, Routes.get?_add]
          by_cases hq : q = c.payload
          · simp [hq]
          · simp [hq, Routes.get?_add]
        · have hcn : c.comment = none := by
            cases hcc : c.comment with
            | none => rfl
            | some x => rw [hcc] at hcs; simp at hcs
          simp only [hcs, Bool.false_eq_true, if_false]
          refine ⟨hfresh _ ?_, trivial, by simp, by simp, by simp⟩
          intro q
          rw [Routes.get?_add, hcn]
    · have hh' : held c.payload = false := by simpa using hh
      have hadm : Spec.admissible held c = false := by unfold Spec.admissible; simp [hh']
      simp only [hv, hh', Bool.not_true, Bool.false_eq_true, if_false, Bool.not_false, if_true]
      refine ⟨?_, trivial, by simp, by simp, by simp⟩
      intro q
      rw [hinv q, Spec.present_snoc, Spec.commentOf_snoc, hadm]
      by_cases hq : Spec.present base held before q = true <;> simp [hq]
  · have hv' : maxLengthValid c.payload = false := by simpa using hv
    have hadm : Spec.admissible held c = false := by unfold Spec.admissible; simp [hv']
    simp only [hv', Bool.not_false, if_true]
    refine ⟨?_, trivial, by simp, by simp, by simp⟩
    intro q
    rw [hinv q, Spec.present_snoc, Spec.commentOf_snoc, hadm]
    by_cases hq : Spec.present base held before q = true <;> simp [hq]

/-- The error lists after the addition loop. -/
theorem addFold_errs (base : Routes) (held : Roa → Bool) (rest before : List RoaConf) (acc : Acc)
    (hinv : AddInv base held before acc.desired) :
    (rest.foldl (addStep held) acc).errs.unknowns = acc.errs.unknowns ∧
    (rest.foldl (addStep held) acc).errs.invalidLength =
      acc.errs.invalidLength ++ Spec.badAdditions .invalidLength base held before rest ∧
    (rest.foldl (addStep held) acc).errs.notheld =
      acc.errs.notheld ++ Spec.badAdditions .notHeld base held before rest ∧
    (rest.foldl (addStep held) acc).errs.duplicates =
      acc.errs.duplicates ++ Spec.badAdditions .duplicate base held before rest := by
  induction rest generalizing before acc with
  | nil => simp [Spec.badAdditions]
  | cons c rest ih =>
    simp only [List.foldl_cons]
    obtain ⟨hi, h1, h2, h3, h4⟩ := addStep_spec base held before acc c hinv
    obtain ⟨g1, g2, g3, g4⟩ := ih (before ++ [c]) (addStep held acc c) hi
    refine ⟨by rw [g1, h1], ?_, ?_, ?_⟩
    · rw [g2, h2]; simp [Spec.badAdditions, List.append_assoc]
    · rw [g3, h3]; simp [Spec.badAdditions, List.append_assoc]
    · rw [g4, h4]; simp [Spec.badAdditions, List.append_assoc]

/-! ## Events of the addition loop applied to the configuration -/

/-- What the recorded events make of the configuration `r`, compared with the expectation
for the additions `before` on top of `base`. -/
def AppliedInv (r base : Routes) (before : List RoaConf) (acc : Acc) : Prop :=
  (∀ q, (applyRouteEvs r acc.evs).has q = acc.desired.has q) ∧
  (acc.errs.isEmpty = true → ∀ q, (applyRouteEvs r acc.evs).get? q =
    match Spec.lastComment before q with
    | some c => some c
    | none => base.get? q)

theorem addStep_applied (r base : Routes) (held : Roa → Bool) (before : List RoaConf) (acc : Acc)
    (c : RoaConf) (h : AppliedInv r base before acc) :
    AppliedInv r base (before ++ [c]) (addStep held acc c) := by
  obtain ⟨hJ, hK⟩ := h
  unfold AppliedInv addStep
  simp only
  by_cases hv : maxLengthValid c.payload = true
  · by_cases hh : held c.payload = true
    · simp only [hv, hh, Bool.not_true, Bool.false_eq_true, if_false]
      cases hg : acc.desired.get? c.payload with
      | some cur =>
        simp only
        have hhas : (applyRouteEvs r acc.evs).has c.payload = true := by
          rw [hJ, Routes.has_eq_isSome, hg]; rfl
        by_cases hc : (cur != c.comment) = true
        · simp only [hc, if_true]
          refine ⟨?_, ?_⟩
          · intro q; rw [applyRouteEvs_snoc]; simp only [applyRouteEv]
            rw [Routes.has_updateComment]; exact hJ q
          · intro he q
            rw [applyRouteEvs_snoc]; simp only [applyRouteEv]
            rw [Routes.get?_updateComment, Spec.lastComment_snoc]
            by_cases hq : q = c.payload
            · subst hq
              rw [Routes.has_eq_isSome] at hhas
              cases hx : (applyRouteEvs r acc.evs).get? c.payload with
              | none => rw [hx] at hhas; cases hhas
              | some y => simp
            · have : (c.payload == q) = false := by simpa using fun h => hq h.symm
              simp only [hq, if_false, this, Bool.false_eq_true]
              exact hK he q
        · have hc' : (cur != c.comment) = false := by simpa using hc
          simp only [hc', Bool.false_eq_true, if_false]
          refine ⟨hJ, ?_⟩
          intro he
          simp [DeltaError.isEmpty] at he
      | none =>
        simp only
        by_cases hcs : c.comment.isSome = true
        · simp only [hcs, if_true]
          refine ⟨?_, ?_⟩
          · intro q
            rw [applyRouteEvs_snoc2]; simp only [applyRouteEv]
            rw [Routes.has_updateComment, Routes.has_add, Routes.has_updateComment, Routes.has_add, hJ q]
          · intro he q
            rw [applyRouteEvs_snoc2]; simp only [applyRouteEv]
            rw [Routes.get?_updateComment, Routes.get?_add, Spec.lastComment_snoc]
            by_cases hq : q = c.payload
            · subst hq; simp
            · have : (c.payload == q) = false := by simpa using fun h => hq h.symm
              simp only [hq, if_false, this, Bool.false_eq_true]
              rw [Routes.get?_add]
              simp only [hq, if_false]
              exact hK he q
        · have hcn : c.comment = none := by
            cases hcc : c.comment with
            | none => rfl
            | some x => rw [hcc] at hcs; simp at hcs
          simp only [hcs, Bool.false_eq_true, if_false]
          refine ⟨?_, ?_⟩
          · intro q
            rw [applyRouteEvs_snoc]; simp only [applyRouteEv]
            rw [Routes.has_add, Routes.has_add, hJ q]
          · intro he q
            rw [applyRouteEvs_snoc]; simp only [applyRouteEv]
            rw [Routes.get?_add, Spec.lastComment_snoc]
            by_cases hq : q = c.payload
            · subst hq; simp [hcn]
            · have : (c.payload == q) = false := by simpa using fun h => hq h.symm
              simp only [hq, if_false, this, Bool.false_eq_true]
              exact hK he q
    · have hh' : held c.payload = false := by simpa using hh
      simp only [hv, hh', Bool.not_true, Bool.false_eq_true, if_false, Bool.not_false, if_true]
      refine ⟨hJ, ?_⟩
      intro he
      simp [DeltaError.isEmpty] at he
  · have hv' : maxLengthValid c.payload = false := by simpa using hv
    simp only [hv', Bool.not_false, if_true]
    refine ⟨hJ, ?_⟩
    intro he
    simp [DeltaError.isEmpty] at he

theorem addFold_applied (r base : Routes) (held : Roa → Bool) (rest before : List RoaConf) (acc : Acc)
    (h : AppliedInv r base before acc) :
    AppliedInv r base (before ++ rest) (rest.foldl (addStep held) acc) := by
  induction rest generalizing before acc with
  | nil => simpa using h
  | cons c rest ih =>
    simp only [List.foldl_cons]
    have := ih (before ++ [c]) (addStep held acc c) (addStep_applied r base held before acc c h)
    simpa [List.append_assoc] using this

/-- Additions never shrink the tracked configuration's key set below what it had, and the
result of `process_updates` has the keys of the applied configuration. -/
theorem addFold_inv (base : Routes) (held : Roa → Bool) (rest before : List RoaConf) (acc : Acc)
    (hinv : AddInv base held before acc.desired) :
    AddInv base held (before ++ rest) (rest.foldl (addStep held) acc).desired := by
  induction rest generalizing before acc with
  | nil => simpa using hinv
  | cons c rest ih =>
    simp only [List.foldl_cons]
    have := ih (before ++ [c]) (addStep held acc c) (addStep_spec base held before acc c hinv).1
    simpa [List.append_assoc] using this

/-! ## Empty error lists -/

theorem unknowns_nil_iff (r : Routes) (rest before : List Roa) :
    Spec.unknowns r before rest = [] ↔
      ∀ pre p post, rest = pre ++ p :: post → Spec.badRemoval r (before ++ pre) p = false := by
  induction rest generalizing before with
  | nil =>
    simp only [Spec.unknowns, true_iff]
    intro pre p post h; simp at h
  | cons x rest ih =>
    simp only [Spec.unknowns, List.append_eq_nil_iff]
    rw [ih (before ++ [x])]
    constructor
    · rintro ⟨h1, h2⟩ pre p post hsplit
      cases pre with
      | nil =>
        simp only [List.nil_append, List.cons.injEq] at hsplit
        obtain ⟨rfl, _⟩ := hsplit
        by_cases hb : Spec.badRemoval r before x = true
        · simp [hb] at h1
        · simpa using hb
      | cons y pre' =>
        simp only [List.cons_append, List.cons.injEq] at hsplit
        obtain ⟨rfl, hrest⟩ := hsplit
        have := h2 pre' p post hrest
        simpa [List.append_assoc] using this
    · intro h
      refine ⟨?_, ?_⟩
      · have := h [] x rest rfl
        simp at this; simp [this]
      · intro pre p post hsplit
        have := h (x :: pre) p post (by rw [hsplit]; rfl)
        simpa [List.append_assoc] using this

theorem badAdditions_nil_iff (k : Spec.Bad) (base : Routes) (held : Roa → Bool)
    (rest before : List RoaConf) :
    Spec.badAdditions k base held before rest = [] ↔
      ∀ pre c post, rest = pre ++ c :: post →
        Spec.badAddition base held (before ++ pre) c ≠ some k := by
  induction rest generalizing before with
  | nil =>
    simp only [Spec.badAdditions, true_iff]
    intro pre p post h; simp at h
  | cons x rest ih =>
    simp only [Spec.badAdditions, List.append_eq_nil_iff]
    rw [ih (before ++ [x])]
    constructor
    · rintro ⟨h1, h2⟩ pre p post hsplit
      cases pre with
      | nil =>
        simp only [List.nil_append, List.cons.injEq] at hsplit
        obtain ⟨rfl, _⟩ := hsplit
        intro hb
        rw [List.append_nil] at hb
        simp [hb] at h1
      | cons y pre' =>
        simp only [List.cons_append, List.cons.injEq] at hsplit
        obtain ⟨rfl, hrest⟩ := hsplit
        have := h2 pre' p post hrest
        simpa [List.append_assoc] using this
    · intro h
      refine ⟨?_, ?_⟩
      · have := h [] x rest rfl
        simp only [List.append_nil] at this
        simp [this]
      · intro pre p post hsplit
        have := h (x :: pre) p post (by rw [hsplit]; rfl)
        simpa [List.append_assoc] using this

/-- `process_updates` in closed form: the error report is the declarative one; when it is
empty the events, applied to the configuration, give the expected configuration. -/
theorem processUpdates_closed (r : Routes) (held : Roa → Bool) (u : RoaUpdates) :
    let acc := u.added.foldl (addStep held) (u.removed.foldl removeStep { desired := r })
    acc.errs = Spec.expectedErrors r held u ∧
    AddInv (Spec.baseline r u.removed) held u.added acc.desired ∧
    AppliedInv r (Spec.baseline r u.removed) u.added acc := by
  simp only
  obtain ⟨h1, h2, h3, h4, h5, h6⟩ :=
    removeFold r u.removed [] { desired := r } (by simp [Spec.baseline_nil]) (by simp [applyRouteEvs])
  simp only [List.nil_append] at h1 h2
  have hinv0 : AddInv (Spec.baseline r u.removed) held []
      (u.removed.foldl removeStep { desired := r }).desired := by
    rw [h1]; exact addInv_nil _ _
  obtain ⟨g1, g2, g3, g4⟩ := addFold_errs (Spec.baseline r u.removed) held u.added [] _ hinv0
  refine ⟨?_, ?_, ?_⟩
  · generalize hE : (u.added.foldl (addStep held) (u.removed.foldl removeStep { desired := r })).errs = E at *
    rw [h2] at g1; rw [h5] at g2; rw [h4] at g3; rw [h3] at g4
    cases E
    simp only [Spec.expectedErrors] at *
    simp_all
  · have := addFold_inv (Spec.baseline r u.removed) held u.added [] _ hinv0
    simpa using this
  · have h0 : AppliedInv r (Spec.baseline r u.removed) [] (u.removed.foldl removeStep { desired := r }) := by
      refine ⟨?_, ?_⟩
      · intro q; rw [h6]
      · intro _ q; rw [h6, h1]; simp [Spec.lastComment]
    have := addFold_applied r (Spec.baseline r u.removed) held u.added [] _ h0
    simpa using this

theorem processUpdates_def (r : Routes) (held : Roa → Bool) (u : RoaUpdates) :
    processUpdates r held u =
      if (u.added.foldl (addStep held) (u.removed.foldl removeStep { desired := r })).errs.isEmpty then
        .ok ((u.added.foldl (addStep held) (u.removed.foldl removeStep { desired := r })).desired,
             (u.added.foldl (addStep held) (u.removed.foldl removeStep { desired := r })).evs)
      else .error (u.added.foldl (addStep held) (u.removed.foldl removeStep { desired := r })).errs := rfl

theorem badAddition_isSome (base : Routes) (held : Roa → Bool) (pre : List RoaConf) (c : RoaConf) :
    (∃ k, Spec.badAddition base held pre c = some k) ↔
      (maxLengthValid c.payload = false ∨ held c.payload = false ∨
        (Spec.present base held pre c.payload = true ∧ Spec.commentOf base held pre c.payload = c.comment)) := by
  unfold Spec.badAddition
  by_cases h1 : maxLengthValid c.payload = true
  · by_cases h2 : held c.payload = true
    · by_cases h3 : Spec.present base held pre c.payload = true
      · by_cases h4 : Spec.commentOf base held pre c.payload = c.comment
        · simp [h1, h2, h3, h4]
        · simp [h1, h2, h3, h4]
      · simp [h1, h2, h3]
    · simp [h1, h2]
  · simp [h1]

theorem expected_empty_iff (r : Routes) (held : Roa → Bool) (u : RoaUpdates) :
    (Spec.expectedErrors r held u).isEmpty = true ↔ ¬ Spec.SomeEntryBad r held u := by
  unfold DeltaError.isEmpty Spec.expectedErrors
  simp only [Bool.and_eq_true, List.isEmpty_iff]
  rw [unknowns_nil_iff, badAdditions_nil_iff, badAdditions_nil_iff, badAdditions_nil_iff]
  unfold Spec.SomeEntryBad
  constructor
  · rintro ⟨⟨⟨hD, hN⟩, hU⟩, hI⟩ hbad
    rcases hbad with ⟨pre, p, post, hs, hb⟩ | ⟨pre, c, post, hs, hb⟩
    · have := hU pre p post hs
      unfold Spec.badRemoval at this
      simp only [List.nil_append, Bool.or_eq_false_iff, Bool.not_eq_false'] at this
      rcases hb with hb | hb
      · rw [hb] at this; exact absurd this.1 (by simp)
      · have hc : pre.contains p = true := by simpa using hb
        rw [hc] at this; exact absurd this.2 (by simp)
    · obtain ⟨k, hk⟩ := (badAddition_isSome _ held pre c).mpr hb
      cases k with
      | invalidLength => exact hI pre c post hs (by simpa using hk)
      | notHeld => exact hN pre c post hs (by simpa using hk)
      | duplicate => exact hD pre c post hs (by simpa using hk)
  · intro hno
    refine ⟨⟨⟨?_, ?_⟩, ?_⟩, ?_⟩
    · intro pre c post hs hk
      exact hno (Or.inr ⟨pre, c, post, hs, (badAddition_isSome _ held pre c).mp ⟨_, by simpa using hk⟩⟩)
    · intro pre c post hs hk
      exact hno (Or.inr ⟨pre, c, post, hs, (badAddition_isSome _ held pre c).mp ⟨_, by simpa using hk⟩⟩)
    · intro pre p post hs
      unfold Spec.badRemoval
      simp only [List.nil_append, Bool.or_eq_false_iff, Bool.not_eq_false']
      refine ⟨?_, ?_⟩
      · apply Classical.byContradiction
        intro h
        have : r.has p = false := by simpa using h
        exact hno (Or.inl ⟨pre, p, post, hs, Or.inl this⟩)
      · apply Classical.byContradiction
        intro h
        have : p ∈ pre := by simpa using h
        exact hno (Or.inl ⟨pre, p, post, hs, Or.inr this⟩)
    · intro pre c post hs hk
      exact hno (Or.inr ⟨pre, c, post, hs, (badAddition_isSome _ held pre c).mp ⟨_, by simpa using hk⟩⟩)


/-! ## One request in a history -/

theorem baseline_get? (r : Routes) (removed : List Roa) (p : Roa) :
    (Spec.baseline r removed).get? p = if removed.contains p then none else r.get? p := by
  by_cases hm : p ∈ removed
  · have hc : removed.contains p = true := by simpa using hm
    rw [hc]
    simp only [if_true]
    have : (Spec.baseline r removed).has p = false := by
      rw [Spec.baseline_has, hc]; simp
    rw [Routes.has_eq_isSome] at this
    cases hg : (Spec.baseline r removed).get? p with
    | none => rfl
    | some c => rw [hg] at this; cases this
  · have hc : removed.contains p = false := by simpa using hm
    rw [hc]
    simp only [Bool.false_eq_true, if_false]
    unfold Spec.baseline Routes.get?
    induction r with
    | nil => rfl
    | cons e rest ih =>
      rw [List.filter_cons]
      cases hr : removed.contains e.1 with
      | true =>
        have hne : (e.1 == p) = false := by
          apply Bool.eq_false_iff.mpr
          intro h
          have : e.1 = p := by simpa using h
          rw [this, hc] at hr; cases hr
        simp only [Bool.not_true, Bool.false_eq_true, if_false, List.find?_cons, hne]
        exact ih
      | false =>
        simp only [Bool.not_false, if_true, List.find?_cons]
        cases he : (e.1 == p) with
        | true => rfl
        | false => exact ih

/-- A request in configuration `r`: accepted – the new view is `viewStep` of the old one;
refused – nothing changes. -/
theorem routeCommand_view (r : Routes) (q : RouteReq) :
    (Spec.accepted r q = true →
      ∀ p, (routeCommand r q.held q.upd).get? p =
        Spec.viewStep q.upd.setExplicitMaxLength r.get? p) ∧
    (Spec.accepted r q = false → routeCommand r q.held q.upd = r) := by
  have hc := (processUpdates_closed r q.held q.upd.setExplicitMaxLength)
  obtain ⟨hE, _, hJ, hK⟩ := hc
  unfold routeCommand processRouteUpdate Spec.accepted
  rw [processUpdates_def, hE]
  constructor
  · intro ha p
    simp only [ha, if_true]
    rw [hK (by rw [hE]; exact ha) p]
    unfold Spec.viewStep
    cases Spec.lastComment q.upd.setExplicitMaxLength.added p with
    | some c => rfl
    | none => simp only; rw [baseline_get?]
  · intro ha
    simp [ha]

/-! ## ASPA -/

namespace AspaDefs

theorem has_remove (s : AspaDefs) (c d : Nat) :
    (s.remove c).has d = (if d = c then false else s.has d) := by
  unfold remove has
  induction s with
  | nil => simp
  | cons x rest ih =>
    simp only [List.filter_cons]
    by_cases hx : x.customer = c
    · have : (x.customer == c) = true := by simpa using hx
      simp only [this, Bool.not_true, Bool.false_eq_true, if_false, List.any_cons]
      rw [ih]
      by_cases hd : d = c
      · simp [hd]
      · have : (x.customer == d) = false := by rw [hx]; simpa using fun h => hd h.symm
        simp [hd, this]
    · have : (x.customer == c) = false := by simpa using hx
      simp only [this, Bool.not_false, if_true, List.any_cons]
      rw [ih]
      by_cases hd : d = c
      · subst hd; simp [this]
      · simp [hd]

end AspaDefs

/-- The definitions left after removing the customers `before`. -/
def aspaBase (s : AspaDefs) (before : List Nat) : AspaDefs :=
  s.filter (fun d => !(before.contains d.customer))

theorem aspaBase_nil (s : AspaDefs) : aspaBase s [] = s := by
  unfold aspaBase
  induction s with
  | nil => rfl
  | cons x rest _ => simp

theorem aspaBase_snoc (s : AspaDefs) (before : List Nat) (c : Nat) :
    aspaBase s (before ++ [c]) = (aspaBase s before).remove c := by
  unfold aspaBase AspaDefs.remove
  rw [List.filter_filter]
  apply List.filter_congr
  intro e _
  simp only [List.contains_append, List.contains_cons, List.contains_nil, Bool.or_false,
    Bool.not_or]
  rw [Bool.and_comm]

theorem aspaBase_has (s : AspaDefs) (before : List Nat) (c : Nat) :
    (aspaBase s before).has c = (s.has c && !(before.contains c)) := by
  unfold aspaBase AspaDefs.has
  rw [Bool.eq_iff_iff]
  simp only [List.any_eq_true, List.mem_filter, Bool.and_eq_true, Bool.not_eq_true', beq_iff_eq]
  constructor
  · rintro ⟨e, ⟨he, hnc⟩, rfl⟩; exact ⟨⟨e, he, rfl⟩, hnc⟩
  · rintro ⟨⟨e, he, rfl⟩, hnc⟩; exact ⟨e, ⟨he, hnc⟩, rfl⟩

/-- The removal loop fails exactly at the first bad removal. -/
theorem aspaRemoveFold (s : AspaDefs) (rest before : List Nat) (acc : AspaDefs × List AspaEv)
    (hd : acc.1 = aspaBase s before) :
    ((∃ e, foldlE aspaRemoveStep acc rest = .error e) ↔
      ∃ pre c post, rest = pre ++ c :: post ∧ Spec.badRemove s (before ++ pre) c = true) ∧
    (∀ acc', foldlE aspaRemoveStep acc rest = .ok acc' → acc'.1 = aspaBase s (before ++ rest)) := by
  induction rest generalizing before acc with
  | nil =>
    refine ⟨⟨?_, ?_⟩, ?_⟩
    · rintro ⟨e, he⟩; simp [foldlE] at he
    · rintro ⟨pre, c, post, h, _⟩; simp at h
    · intro acc' h; simp [foldlE] at h; subst h; simpa using hd
  | cons c rest ih =>
    have hhas : acc.1.has c = !(Spec.badRemove s before c) := by
      rw [hd, aspaBase_has]; unfold Spec.badRemove; simp
    by_cases hb : Spec.badRemove s before c = true
    · have hh : acc.1.has c = false := by rw [hhas, hb]; rfl
      have hstep : aspaRemoveStep acc c = .error (.customerUnknown c) := by
        unfold aspaRemoveStep; simp [hh]
      refine ⟨⟨fun _ => ⟨[], c, rest, rfl, by simpa using hb⟩, fun _ => ⟨.customerUnknown c, by simp [foldlE, hstep]⟩⟩, ?_⟩
      intro acc' h; simp [foldlE, hstep] at h
    · have hb' : Spec.badRemove s before c = false := by simpa using hb
      have hh : acc.1.has c = true := by rw [hhas, hb']; rfl
      have hstep : aspaRemoveStep acc c = .ok (acc.1.remove c, acc.2 ++ [.removed c]) := by
        unfold aspaRemoveStep; simp [hh]
      have hd' : (acc.1.remove c, acc.2 ++ [AspaEv.removed c]).1 = aspaBase s (before ++ [c]) := by
        simp only; rw [aspaBase_snoc, ← hd]
      obtain ⟨ih1, ih2⟩ := ih (before ++ [c]) _ hd'
      have hfold : foldlE aspaRemoveStep acc (c :: rest) =
          foldlE aspaRemoveStep (acc.1.remove c, acc.2 ++ [.removed c]) rest := by
        simp [foldlE, hstep]
      rw [hfold]
      refine ⟨⟨?_, ?_⟩, ?_⟩
      · intro h
        obtain ⟨pre, x, post, hsplit, hbad⟩ := ih1.mp h
        exact ⟨c :: pre, x, post, by rw [hsplit]; rfl, by simpa [List.append_assoc] using hbad⟩
      · rintro ⟨pre, x, post, hsplit, hbad⟩
        apply ih1.mpr
        cases pre with
        | nil =>
          simp only [List.nil_append, List.cons.injEq] at hsplit
          obtain ⟨rfl, _⟩ := hsplit
          simp at hbad; rw [hbad] at hb'; cases hb'
        | cons y pre' =>
          simp only [List.cons_append, List.cons.injEq] at hsplit
          obtain ⟨rfl, hrest⟩ := hsplit
          exact ⟨pre', x, post, hrest, by simpa [List.append_assoc] using hbad⟩
      · intro acc' h
        have := ih2 acc' h
        simpa [List.append_assoc] using this

theorem aspaCheck_isSome (holdsAsn : Nat → Bool) (d : AspaDef) :
    (aspaCheck holdsAsn d).isSome = Spec.badDef holdsAsn d := by
  unfold aspaCheck Spec.badDef AspaDef.customerUsedAsProvider AspaDef.containsDuplicateProviders
  by_cases h1 : d.providers.isEmpty = true
  · simp [h1]
  · by_cases h2 : d.customer ∈ d.providers
    · simp [h1, h2]
    · by_cases h3 : hasDup d.providers = true
      · simp [h1, h2, h3]
      · by_cases h4 : holdsAsn d.customer = true <;> simp [h1, h2, h3, h4]

/-- The addition loop fails exactly when some definition is bad. -/
theorem aspaAddFold (holdsAsn : Nat → Bool) (adds : List AspaDef)
    (acc : AspaDefs × List AspaEv) :
    (∃ e, foldlE (aspaAddStep holdsAsn) acc adds = .error e) ↔
      ∃ d ∈ adds, Spec.badDef holdsAsn d = true := by
  induction adds generalizing acc with
  | nil => simp [foldlE]
  | cons d rest ih =>
    by_cases hb : Spec.badDef holdsAsn d = true
    · have : (aspaCheck holdsAsn d).isSome = true := by rw [aspaCheck_isSome]; exact hb
      obtain ⟨e, he⟩ := Option.isSome_iff_exists.mp this
      have hstep : aspaAddStep holdsAsn acc d = .error e := by
        unfold aspaAddStep; simp [he]
      constructor
      · intro _; exact ⟨d, List.mem_cons_self, hb⟩
      · intro _; exact ⟨e, by simp [foldlE, hstep]⟩
    · have hb' : Spec.badDef holdsAsn d = false := by simpa using hb
      have hc : aspaCheck holdsAsn d = none := by
        have : (aspaCheck holdsAsn d).isSome = false := by rw [aspaCheck_isSome]; exact hb'
        simpa using this
      have hok : ∃ acc', aspaAddStep holdsAsn acc d = .ok acc' := by
        unfold aspaAddStep
        simp only [hc]
        split
        · exact ⟨_, rfl⟩
        · split <;> exact ⟨_, rfl⟩
      obtain ⟨acc', hacc'⟩ := hok
      have hfold : foldlE (aspaAddStep holdsAsn) acc (d :: rest) =
          foldlE (aspaAddStep holdsAsn) acc' rest := by simp [foldlE, hacc']
      rw [hfold, ih acc']
      constructor
      · rintro ⟨x, hx, hbx⟩; exact ⟨x, List.mem_cons_of_mem _ hx, hbx⟩
      · rintro ⟨x, hx, hbx⟩
        rcases List.mem_cons.mp hx with rfl | hx'
        · rw [hbx] at hb'; cases hb'
        · exact ⟨x, hx', hbx⟩

/-! ### Events of an ASPA update applied to the definitions -/

namespace AspaDefs

theorem get?_remove (s : AspaDefs) (c d : Nat) :
    (s.remove c).get? d = if d = c then none else s.get? d := by
  unfold remove get?
  induction s with
  | nil => simp
  | cons x rest ih =>
    simp only [List.filter_cons]
    by_cases hx : x.customer = c
    · have hp : (x.customer == c) = true := by simpa using hx
      simp only [hp, Bool.not_true, Bool.false_eq_true, if_false]
      rw [ih]
      by_cases hd : d = c
      · simp [hd]
      · have : (x.customer == d) = false := by rw [hx]; simpa using fun h => hd h.symm
        simp [hd, this]
    · have hne : (x.customer == c) = false := by simpa using hx
      simp only [hne, Bool.not_false, if_true, List.find?_cons]
      by_cases heq : (x.customer == d) = true
      · have : d ≠ c := by
          intro h; subst h; rw [heq] at hne; cases hne
        simp [heq, this]
      · have heq' : (x.customer == d) = false := by simpa using heq
        simp only [heq']
        exact ih

theorem get?_addOrReplace (s : AspaDefs) (x : AspaDef) (d : Nat) :
    (s.addOrReplace x).get? d = if d = x.customer then some x else s.get? d := by
  unfold addOrReplace
  by_cases hd : d = x.customer
  · subst hd; simp [get?]
  · have : (x.customer == d) = false := by simpa using fun h => hd h.symm
    have h := get?_remove s x.customer d
    unfold get? at h ⊢
    simp only [List.find?_cons, this, hd, if_false] at h ⊢
    exact h

theorem get?_customer (s : AspaDefs) (c : Nat) (x : AspaDef) (h : s.get? c = some x) :
    x.customer = c := by
  unfold get? at h
  simpa using List.find?_some h

theorem get?_applyUpdate (s : AspaDefs) (c d : Nat) (u : ProvUpdate) :
    (s.applyUpdate c u).get? d =
      if d = c then
        (match s.get? c with
         | some cur => if (cur.applyUpdate u).providers.isEmpty then none else some (cur.applyUpdate u)
         | none => some ((⟨c, []⟩ : AspaDef).applyUpdate u))
      else s.get? d := by
  unfold applyUpdate
  cases hg : s.get? c with
  | none =>
    simp only
    rw [get?_addOrReplace]
    have : ((⟨c, []⟩ : AspaDef).applyUpdate u).customer = c := rfl
    rw [this]
  | some cur =>
    simp only
    have hc : cur.customer = c := get?_customer s c cur hg
    by_cases he : (cur.applyUpdate u).providers.isEmpty = true
    · simp only [he, if_true]
      rw [get?_remove]
    · simp only [he, Bool.false_eq_true, if_false]
      rw [get?_addOrReplace]
      have : (cur.applyUpdate u).customer = c := by rw [← hc]; rfl
      rw [this]

end AspaDefs

theorem mem_insertSorted (x y : Nat) (l : List Nat) : y ∈ insertSorted x l ↔ y = x ∨ y ∈ l := by
  induction l with
  | nil => simp [insertSorted]
  | cons z rest ih =>
    unfold insertSorted
    by_cases h : x ≤ z
    · simp [h]
    · simp only [h, if_false, List.mem_cons, ih]
      constructor
      · rintro (h1 | h1 | h1)
        · exact Or.inr (Or.inl h1)
        · exact Or.inl h1
        · exact Or.inr (Or.inr h1)
      · rintro (h1 | h1 | h1)
        · exact Or.inr (Or.inl h1)
        · exact Or.inl h1
        · exact Or.inr (Or.inr h1)

theorem mem_sortNat (y : Nat) (l : List Nat) : y ∈ sortNat l ↔ y ∈ l := by
  unfold sortNat
  induction l with
  | nil => simp
  | cons x rest ih => simp [List.foldr_cons, mem_insertSorted, ih]

theorem mem_pushed (added kept : List Nat) (p : Nat) :
    p ∈ added.foldl (fun acc a => if acc.contains a then acc else acc ++ [a]) kept ↔
      p ∈ kept ∨ p ∈ added := by
  induction added generalizing kept with
  | nil => simp
  | cons a rest ih =>
    simp only [List.foldl_cons]
    rw [ih]
    by_cases h : kept.contains a = true
    · have ha : a ∈ kept := by simpa using h
      simp only [h, if_true, List.mem_cons]
      constructor
      · rintro (h1 | h1)
        · exact Or.inl h1
        · exact Or.inr (Or.inr h1)
      · rintro (h1 | h1 | h1)
        · exact Or.inl h1
        · exact Or.inl (h1 ▸ ha)
        · exact Or.inr h1
    · simp only [h, Bool.false_eq_true, if_false]
      simp [or_assoc]

theorem mem_applyUpdate (d : AspaDef) (u : ProvUpdate) (p : Nat) :
    p ∈ (d.applyUpdate u).providers ↔ (p ∈ d.providers ∧ p ∉ u.removed) ∨ p ∈ u.added := by
  unfold AspaDef.applyUpdate
  simp only
  rw [mem_sortNat, mem_pushed]
  simp

/-- Same customer, same providers up to order. -/
def SameProviders (a b : Option AspaDef) : Prop :=
  match a, b with
  | none, none => True
  | some x, some y => x.customer = y.customer ∧ ∀ p, p ∈ x.providers ↔ p ∈ y.providers
  | _, _ => False

theorem sameProviders_refl (a : Option AspaDef) : SameProviders a a := by
  cases a with
  | none => trivial
  | some x => exact ⟨rfl, fun _ => Iff.rfl⟩

theorem aspaBase_get? (s : AspaDefs) (removed : List Nat) (c : Nat) (h : c ∉ removed) :
    (aspaBase s removed).get? c = s.get? c := by
  unfold aspaBase AspaDefs.get?
  induction s with
  | nil => rfl
  | cons x rest ih =>
    simp only [List.filter_cons]
    by_cases hx : (x.customer == c) = true
    · have : x.customer = c := by simpa using hx
      have hnm : x.customer ∉ removed := by rw [this]; exact h
      simp [hnm, hx]
    · have hx' : (x.customer == c) = false := by simpa using hx
      by_cases hr : removed.contains x.customer = true
      · simp only [hr, Bool.not_true, Bool.false_eq_true, if_false, List.find?_cons, hx']
        exact ih
      · simp only [hr, Bool.not_false, if_true, List.find?_cons, hx']
        exact ih

theorem applyAspaEvs_snoc (s : AspaDefs) (evs : List AspaEv) (e : AspaEv) :
    applyAspaEvs s (evs ++ [e]) = applyAspaEv (applyAspaEvs s evs) e := by
  unfold applyAspaEvs; rw [List.foldl_append]; rfl

/-- During the removal loop the events produce the running copy. -/
theorem aspaRemoveFold_applied (s : AspaDefs) (rest : List Nat) (acc acc' : AspaDefs × List AspaEv)
    (ha : applyAspaEvs s acc.2 = acc.1) (h : foldlE aspaRemoveStep acc rest = .ok acc') :
    applyAspaEvs s acc'.2 = acc'.1 := by
  induction rest generalizing acc with
  | nil => simp [foldlE] at h; subst h; exact ha
  | cons c rest ih =>
    unfold foldlE at h
    cases hs : aspaRemoveStep acc c with
    | error e => rw [hs] at h; cases h
    | ok a1 =>
      rw [hs] at h
      simp only at h
      apply ih a1 _ h
      unfold aspaRemoveStep at hs
      split at hs
      · cases hs
      · simp only [Except.ok.injEq] at hs
        subst hs
        simp only
        rw [applyAspaEvs_snoc, ha]; rfl

theorem sameProviders_none_right {a : Option AspaDef} (h : SameProviders a none) : a = none := by
  cases a with
  | none => rfl
  | some x => exact absurd h (by simp [SameProviders])

/-- The addition loop: the events produce the running copy, up to the order of providers. -/
theorem aspaAddFold_applied (s : AspaDefs) (holdsAsn : Nat → Bool)
    (adds : List AspaDef) (acc acc' : AspaDefs × List AspaEv)
    (hI1 : ∀ c, SameProviders ((applyAspaEvs s acc.2).get? c) (acc.1.get? c))
    (h : foldlE (aspaAddStep holdsAsn) acc adds = .ok acc') :
    ∀ c, SameProviders ((applyAspaEvs s acc'.2).get? c) (acc'.1.get? c) := by
  induction adds generalizing acc with
  | nil => simp [foldlE] at h; subst h; exact hI1
  | cons d rest ih =>
    unfold foldlE at h
    cases hs : aspaAddStep holdsAsn acc d with
    | error e => rw [hs] at h; cases h
    | ok a1 =>
      rw [hs] at h
      simp only at h
      unfold aspaAddStep at hs
      cases hchk : aspaCheck holdsAsn d with
      | some e => rw [hchk] at hs; cases hs
      | none =>
        rw [hchk] at hs
        simp only at hs
        have hne : d.providers ≠ [] := by
          intro hc
          unfold aspaCheck at hchk
          simp [hc] at hchk
        apply ih a1 _ h
        intro c
        have hIc := hI1 d.customer
        cases hso : acc.1.get? d.customer with
        | none =>
          rw [hso] at hs hIc
          have hAn := sameProviders_none_right hIc
          simp only [Except.ok.injEq] at hs
          subst hs
          simp only
          rw [applyAspaEvs_snoc]
          simp only [applyAspaEv]
          rw [AspaDefs.get?_addOrReplace, AspaDefs.get?_addOrReplace]
          by_cases hc : c = d.customer
          · simp only [hc, if_true]; exact sameProviders_refl _
          · simp only [hc, if_false]; exact hI1 c
        | some existing =>
          rw [hso] at hs hIc
          simp only at hs
          have hexc : existing.customer = d.customer := AspaDefs.get?_customer _ _ _ hso
          -- the applied state has a definition with the same providers
          cases hA : (applyAspaEvs s acc.2).get? d.customer with
          | none => rw [hA] at hIc; exact absurd hIc (by simp [SameProviders])
          | some ex' =>
            rw [hA] at hIc
            obtain ⟨hcust, hprov⟩ := hIc
            split at hs
            · simp only [Except.ok.injEq] at hs
              subst hs
              simp only
              rw [applyAspaEvs_snoc]
              simp only [applyAspaEv]
              rw [AspaDefs.get?_applyUpdate, AspaDefs.get?_addOrReplace]
              by_cases hc : c = d.customer
              · simp only [hc, if_true]
                rw [hA]
                simp only
                have hmem : ∀ p, p ∈ (ex'.applyUpdate
                    { added := d.providers.filter (fun p => !(existing.providers.contains p)),
                      removed := existing.providers.filter (fun p => !(d.providers.contains p)) }).providers ↔
                    p ∈ d.providers := by
                  intro p
                  rw [mem_applyUpdate, hprov p]
                  by_cases hpe : p ∈ existing.providers <;> by_cases hpd : p ∈ d.providers <;>
                    simp [List.mem_filter, hpe, hpd]
                have hnonE : (ex'.applyUpdate
                    { added := d.providers.filter (fun p => !(existing.providers.contains p)),
                      removed := existing.providers.filter (fun p => !(d.providers.contains p)) }).providers.isEmpty = false := by
                  obtain ⟨p, hp⟩ := List.exists_mem_of_ne_nil _ hne
                  have := (hmem p).mpr hp
                  cases hl : (ex'.applyUpdate
                    { added := d.providers.filter (fun p => !(existing.providers.contains p)),
                      removed := existing.providers.filter (fun p => !(d.providers.contains p)) }).providers with
                  | nil => rw [hl] at this; cases this
                  | cons _ _ => rfl
                rw [hnonE]
                simp only [Bool.false_eq_true, if_false]
                exact ⟨hcust.trans hexc, hmem⟩
              · simp only [hc, if_false]; exact hI1 c
            · rename_i hempty
              simp only [Except.ok.injEq] at hs
              subst hs
              simp only
              rw [AspaDefs.get?_addOrReplace]
              by_cases hc : c = d.customer
              · simp only [hc, if_true]
                rw [hA]
                refine ⟨hcust.trans hexc, ?_⟩
                have he : (d.providers.filter (fun p => !(existing.providers.contains p))) = [] ∧
                    (existing.providers.filter (fun p => !(d.providers.contains p))) = [] := by
                  simpa [ProvUpdate.isEmpty, List.isEmpty_iff] using hempty
                intro p
                rw [hprov p]
                constructor
                · intro hp
                  apply Classical.byContradiction
                  intro hn
                  have : p ∈ existing.providers.filter (fun p => !(d.providers.contains p)) :=
                    List.mem_filter.mpr ⟨hp, by simpa using hn⟩
                  rw [he.2] at this; cases this
                · intro hp
                  apply Classical.byContradiction
                  intro hn
                  have : p ∈ d.providers.filter (fun p => !(existing.providers.contains p)) :=
                    List.mem_filter.mpr ⟨hp, by simpa using hn⟩
                  rw [he.1] at this; cases this
              · simp only [hc, if_false]; exact hI1 c

/-! ### Customers after an ASPA update -/

theorem AspaDefs.has_eq_isSome (s : AspaDefs) (c : Nat) : s.has c = (s.get? c).isSome := by
  unfold AspaDefs.has AspaDefs.get?
  induction s with
  | nil => rfl
  | cons e rest ih =>
    cases h : (e.customer == c) with
    | true => simp [List.any_cons, List.find?_cons, h]
    | false => simp only [List.any_cons, List.find?_cons, h, Bool.false_or]; exact ih

theorem AspaDefs.has_addOrReplace (s : AspaDefs) (x : AspaDef) (c : Nat) :
    (s.addOrReplace x).has c = (if c = x.customer then true else s.has c) := by
  rw [AspaDefs.has_eq_isSome, AspaDefs.get?_addOrReplace, AspaDefs.has_eq_isSome]
  split <;> rfl

theorem sameProviders_isSome {a b : Option AspaDef} (h : SameProviders a b) : a.isSome = b.isSome := by
  cases a <;> cases b <;> simp_all [SameProviders]

/-- Customers of the running copy after the addition loop were there before or are listed. -/
theorem aspaAddFold_has (holdsAsn : Nat → Bool) (adds : List AspaDef)
    (acc acc' : AspaDefs × List AspaEv) (h : foldlE (aspaAddStep holdsAsn) acc adds = .ok acc') (c : Nat)
    (hc : acc'.1.has c = true) : acc.1.has c = true ∨ ∃ d ∈ adds, d.customer = c := by
  induction adds generalizing acc with
  | nil => simp [foldlE] at h; subst h; exact Or.inl hc
  | cons d rest ih =>
    unfold foldlE at h
    cases hs : aspaAddStep holdsAsn acc d with
    | error e => rw [hs] at h; cases h
    | ok a1 =>
      rw [hs] at h
      simp only at h
      have h1 : a1.1 = acc.1.addOrReplace d := by
        unfold aspaAddStep at hs
        split at hs
        · cases hs
        · split at hs
          · simp only [Except.ok.injEq] at hs; rw [← hs]
          · simp only at hs
            split at hs <;> (simp only [Except.ok.injEq] at hs; rw [← hs])
      rcases ih a1 h with h2 | ⟨x, hx, hxc⟩
      · rw [h1, AspaDefs.has_addOrReplace] at h2
        by_cases hcd : c = d.customer
        · exact Or.inr ⟨d, List.mem_cons_self, hcd.symm⟩
        · simp only [hcd, if_false] at h2; exact Or.inl h2
      · exact Or.inr ⟨x, List.mem_cons_of_mem _ hx, hxc⟩

/-! ### Router keys: events and keys after an update -/

namespace BgpsecDefs

theorem has_remove' (s : BgpsecDefs) (k j : BgpsecKey) :
    (s.remove k).has j = true → s.has j = true := by
  unfold remove has
  simp only [List.any_eq_true, List.mem_filter]
  rintro ⟨e, ⟨he, _⟩, hj⟩; exact ⟨e, he, hj⟩

theorem has_addOrReplace' (s : BgpsecDefs) (k j : BgpsecKey) (c : StoredCsr) :
    (s.addOrReplace k c).has j = true → j = k ∨ s.has j = true := by
  unfold addOrReplace
  intro h
  unfold has at h
  rw [List.any_cons] at h
  simp only [Bool.or_eq_true, beq_iff_eq] at h
  rcases h with h | h
  · exact Or.inl h.symm
  · exact Or.inr (has_remove' s k j h)

end BgpsecDefs

theorem applyBgpsecEvs_snoc (s : BgpsecDefs) (evs : List BgpsecEv) (e : BgpsecEv) :
    applyBgpsecEvs s (evs ++ [e]) = applyBgpsecEv (applyBgpsecEvs s evs) e := by
  unfold applyBgpsecEvs; rw [List.foldl_append]; rfl

theorem bgpsecRemoveFold_applied (s : BgpsecDefs) (rest : List BgpsecKey)
    (acc acc' : BgpsecDefs × List BgpsecEv)
    (ha : applyBgpsecEvs s acc.2 = acc.1) (h : foldlE' bgpsecRemoveStep acc rest = .ok acc') :
    applyBgpsecEvs s acc'.2 = acc'.1 ∧ (∀ j, acc'.1.has j = true → acc.1.has j = true) := by
  induction rest generalizing acc with
  | nil => simp [foldlE'] at h; subst h; exact ⟨ha, fun _ h => h⟩
  | cons c rest ih =>
    unfold foldlE' at h
    cases hs : bgpsecRemoveStep acc c with
    | error e => rw [hs] at h; cases h
    | ok a1 =>
      rw [hs] at h
      simp only at h
      unfold bgpsecRemoveStep at hs
      split at hs
      · cases hs
      · simp only [Except.ok.injEq] at hs
        subst hs
        obtain ⟨g1, g2⟩ := ih _ (by simp only; rw [applyBgpsecEvs_snoc, ha]; rfl) h
        exact ⟨g1, fun j hj => BgpsecDefs.has_remove' _ c j (g2 j hj)⟩

theorem bgpsecAddFold_applied (s : BgpsecDefs) (holdsAsn : Nat → Bool) (adds : List BgpsecDef)
    (acc acc' : BgpsecDefs × List BgpsecEv × Nat)
    (ha : applyBgpsecEvs s acc.2.1 = acc.1) (h : foldlE' (bgpsecAddStep holdsAsn) acc adds = .ok acc') :
    applyBgpsecEvs s acc'.2.1 = acc'.1 ∧
      (∀ j, acc'.1.has j = true → acc.1.has j = true ∨ ∃ d ∈ adds, (⟨d.asn, d.key⟩ : BgpsecKey) = j) := by
  induction adds generalizing acc with
  | nil => simp [foldlE'] at h; subst h; exact ⟨ha, fun _ h => Or.inl h⟩
  | cons d rest ih =>
    unfold foldlE' at h
    cases hs : bgpsecAddStep holdsAsn acc d with
    | error e => rw [hs] at h; cases h
    | ok a1 =>
      rw [hs] at h
      simp only at h
      have key : applyBgpsecEvs s a1.2.1 = a1.1 ∧
          (∀ j, a1.1.has j = true → acc.1.has j = true ∨ (⟨d.asn, d.key⟩ : BgpsecKey) = j) := by
        unfold bgpsecAddStep at hs
        split at hs
        · cases hs
        · simp only at hs
          split at hs
          · cases hs
          · split at hs
            · split at hs
              · simp only [Except.ok.injEq] at hs; subst hs
                refine ⟨by simp only; rw [applyBgpsecEvs_snoc, ha]; rfl, ?_⟩
                intro j hj
                rcases BgpsecDefs.has_addOrReplace' _ _ j _ hj with h1 | h1
                · exact Or.inr h1.symm
                · exact Or.inl h1
              · simp only [Except.ok.injEq] at hs; subst hs
                exact ⟨ha, fun j hj => Or.inl hj⟩
            · simp only [Except.ok.injEq] at hs; subst hs
              refine ⟨by simp only; rw [applyBgpsecEvs_snoc, ha]; rfl, ?_⟩
              intro j hj
              rcases BgpsecDefs.has_addOrReplace' _ _ j _ hj with h1 | h1
              · exact Or.inr h1.symm
              · exact Or.inl h1
      obtain ⟨g1, g2⟩ := ih a1 key.1 h
      refine ⟨g1, ?_⟩
      intro j hj
      rcases g2 j hj with h1 | ⟨x, hx, hxj⟩
      · rcases key.2 j h1 with h2 | h2
        · exact Or.inl h2
        · exact Or.inr ⟨d, List.mem_cons_self, h2⟩
      · exact Or.inr ⟨x, List.mem_cons_of_mem _ hx, hxj⟩

/-! ## BGPsec -/

def bgpsecBase (s : BgpsecDefs) (before : List BgpsecKey) : BgpsecDefs :=
  s.filter (fun e => !(before.contains e.1))

theorem bgpsecBase_nil (s : BgpsecDefs) : bgpsecBase s [] = s := by
  unfold bgpsecBase
  induction s with
  | nil => rfl
  | cons x rest _ => simp

theorem bgpsecBase_snoc (s : BgpsecDefs) (before : List BgpsecKey) (k : BgpsecKey) :
    bgpsecBase s (before ++ [k]) = (bgpsecBase s before).remove k := by
  unfold bgpsecBase BgpsecDefs.remove
  rw [List.filter_filter]
  apply List.filter_congr
  intro e _
  simp only [List.contains_append, List.contains_cons, List.contains_nil, Bool.or_false,
    Bool.not_or]
  rw [Bool.and_comm]

theorem bgpsecBase_has (s : BgpsecDefs) (before : List BgpsecKey) (k : BgpsecKey) :
    (bgpsecBase s before).has k = (s.has k && !(before.contains k)) := by
  unfold bgpsecBase BgpsecDefs.has
  rw [Bool.eq_iff_iff]
  simp only [List.any_eq_true, List.mem_filter, Bool.and_eq_true, Bool.not_eq_true', beq_iff_eq]
  constructor
  · rintro ⟨e, ⟨he, hnc⟩, rfl⟩; exact ⟨⟨e, he, rfl⟩, hnc⟩
  · rintro ⟨⟨e, he, rfl⟩, hnc⟩; exact ⟨e, ⟨he, hnc⟩, rfl⟩

/-- A removal is bad when there is no such definition, or an earlier removal of this update
already took it. -/
def bgpsecBadRemove (s : BgpsecDefs) (before : List BgpsecKey) (k : BgpsecKey) : Bool :=
  !(s.has k) || before.contains k

theorem bgpsecRemoveFold (s : BgpsecDefs) (rest before : List BgpsecKey)
    (acc : BgpsecDefs × List BgpsecEv) (hd : acc.1 = bgpsecBase s before) :
    ((∃ e, foldlE' bgpsecRemoveStep acc rest = .error e) ↔
      ∃ pre k post, rest = pre ++ k :: post ∧ bgpsecBadRemove s (before ++ pre) k = true) ∧
    (∀ acc', foldlE' bgpsecRemoveStep acc rest = .ok acc' → acc'.1 = bgpsecBase s (before ++ rest)) := by
  induction rest generalizing before acc with
  | nil =>
    refine ⟨⟨?_, ?_⟩, ?_⟩
    · rintro ⟨e, he⟩; simp [foldlE'] at he
    · rintro ⟨pre, c, post, h, _⟩; simp at h
    · intro acc' h; simp [foldlE'] at h; subst h; simpa using hd
  | cons c rest ih =>
    have hhas : acc.1.has c = !(bgpsecBadRemove s before c) := by
      rw [hd, bgpsecBase_has]; unfold bgpsecBadRemove; simp
    by_cases hb : bgpsecBadRemove s before c = true
    · have hh : acc.1.has c = false := by rw [hhas, hb]; rfl
      have hstep : bgpsecRemoveStep acc c = .error (.unknown c) := by
        unfold bgpsecRemoveStep; simp [hh]
      refine ⟨⟨fun _ => ⟨[], c, rest, rfl, by simpa using hb⟩, fun _ => ⟨.unknown c, by simp [foldlE', hstep]⟩⟩, ?_⟩
      intro acc' h; simp [foldlE', hstep] at h
    · have hb' : bgpsecBadRemove s before c = false := by simpa using hb
      have hh : acc.1.has c = true := by rw [hhas, hb']; rfl
      have hstep : bgpsecRemoveStep acc c = .ok (acc.1.remove c, acc.2 ++ [.removed c]) := by
        unfold bgpsecRemoveStep; simp [hh]
      have hd' : (acc.1.remove c, acc.2 ++ [BgpsecEv.removed c]).1 = bgpsecBase s (before ++ [c]) := by
        simp only; rw [bgpsecBase_snoc, ← hd]
      obtain ⟨ih1, ih2⟩ := ih (before ++ [c]) _ hd'
      have hfold : foldlE' bgpsecRemoveStep acc (c :: rest) =
          foldlE' bgpsecRemoveStep (acc.1.remove c, acc.2 ++ [.removed c]) rest := by
        simp [foldlE', hstep]
      rw [hfold]
      refine ⟨⟨?_, ?_⟩, ?_⟩
      · intro h
        obtain ⟨pre, x, post, hsplit, hbad⟩ := ih1.mp h
        exact ⟨c :: pre, x, post, by rw [hsplit]; rfl, by simpa [List.append_assoc] using hbad⟩
      · rintro ⟨pre, x, post, hsplit, hbad⟩
        apply ih1.mpr
        cases pre with
        | nil =>
          simp only [List.nil_append, List.cons.injEq] at hsplit
          obtain ⟨rfl, _⟩ := hsplit
          simp at hbad; rw [hbad] at hb'; cases hb'
        | cons y pre' =>
          simp only [List.cons_append, List.cons.injEq] at hsplit
          obtain ⟨rfl, hrest⟩ := hsplit
          exact ⟨pre', x, post, hrest, by simpa [List.append_assoc] using hbad⟩
      · intro acc' h
        have := ih2 acc' h
        simpa [List.append_assoc] using this

/-- A definition is bad when its CSR is not validly self-signed or its AS is not held. -/
def bgpsecBadDef (holdsAsn : Nat → Bool) (d : BgpsecDef) : Bool := !d.valid || !(holdsAsn d.asn)

theorem bgpsecAddFold (holdsAsn : Nat → Bool) (adds : List BgpsecDef)
    (acc : BgpsecDefs × List BgpsecEv × Nat) :
    (∃ e, foldlE' (bgpsecAddStep holdsAsn) acc adds = .error e) ↔
      ∃ d ∈ adds, bgpsecBadDef holdsAsn d = true := by
  induction adds generalizing acc with
  | nil => simp [foldlE']
  | cons d rest ih =>
    by_cases hb : bgpsecBadDef holdsAsn d = true
    · have hstep : ∃ e, bgpsecAddStep holdsAsn acc d = .error e := by
        unfold bgpsecAddStep
        unfold bgpsecBadDef at hb
        by_cases hv : d.valid = true
        · have hh : holdsAsn d.asn = false := by simpa [hv] using hb
          simp [hv, hh]
        · have hv' : d.valid = false := by simpa using hv
          simp [hv']
      obtain ⟨e, he⟩ := hstep
      constructor
      · intro _; exact ⟨d, List.mem_cons_self, hb⟩
      · intro _; exact ⟨e, by simp [foldlE', he]⟩
    · have hb' : bgpsecBadDef holdsAsn d = false := by simpa using hb
      unfold bgpsecBadDef at hb'
      simp only [Bool.or_eq_false_iff, Bool.not_eq_false'] at hb'
      have hok : ∃ acc', bgpsecAddStep holdsAsn acc d = .ok acc' := by
        unfold bgpsecAddStep
        simp only [hb'.1, hb'.2, Bool.not_true, Bool.false_eq_true, if_false]
        split
        · split <;> exact ⟨_, rfl⟩
        · exact ⟨_, rfl⟩
      obtain ⟨acc', hacc'⟩ := hok
      have hfold : foldlE' (bgpsecAddStep holdsAsn) acc (d :: rest) =
          foldlE' (bgpsecAddStep holdsAsn) acc' rest := by simp [foldlE', hacc']
      rw [hfold, ih acc']
      constructor
      · rintro ⟨x, hx, hbx⟩; exact ⟨x, List.mem_cons_of_mem _ hx, hbx⟩
      · rintro ⟨x, hx, hbx⟩
        rcases List.mem_cons.mp hx with rfl | hx'
        · unfold bgpsecBadDef at hbx; simp [hb'.1, hb'.2] at hbx
        · exact ⟨x, hx', hbx⟩

theorem children_get_none (s : Children) (h : String) :
    s.get? h = none ↔ s.has h = false := by
  unfold Children.get? Children.has
  rw [Option.map_eq_none_iff, List.find?_eq_none, List.any_eq_false]


end KM.Ca
