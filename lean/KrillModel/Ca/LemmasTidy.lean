/-
Helper lemmas for C02: `Tidy` classes – the issued and suspended maps have pairwise different
keys and no key is in both – and the updates that keep a class tidy.  No property statements.
-/
import KrillModel.Ca.LemmasShrink
import KrillModel.Ca.Reach
namespace KM.CaK
open KM.Res KM.AMap

/-- No stale entries, no duplicate keys. -/
structure TidyC (cs : ChildCerts) : Prop where
  ndI : (keys cs.issued).Nodup
  ndS : (keys cs.suspended).Nodup
  disj : ∀ k, (get cs.issued k).isSome = true → get cs.suspended k = none

def Tidy (rc : Rc) : Prop := TidyC rc.certs

theorem tidyC_empty : TidyC {} := ⟨List.nodup_nil, List.nodup_nil, fun k h => by simp at h⟩

theorem tidyC_addIssued {cs : ChildCerts} (h : TidyC cs) (p : KeyId × ChildCert) : TidyC (cs.addIssued p) := by
  refine ⟨nodup_set h.ndI _ _, nodup_del h.ndS _, ?_⟩
  intro k hk
  simp only [ChildCerts.addIssued, get_set, get_del] at hk ⊢
  by_cases hpk : p.1 = k
  · simp [hpk]
  · simp only [hpk, if_false] at hk ⊢; exact h.disj k hk

theorem tidyC_unsuspend {cs : ChildCerts} (h : TidyC cs) (p : KeyId × ChildCert) : TidyC (cs.unsuspend p) :=
  tidyC_addIssued h p

theorem tidyC_removeRevoked {cs : ChildCerts} (h : TidyC cs) (k0 : KeyId) : TidyC (cs.removeRevoked k0) := by
  refine ⟨nodup_del h.ndI _, nodup_del h.ndS _, ?_⟩
  intro k hk
  simp only [ChildCerts.removeRevoked, get_del] at hk ⊢
  by_cases hpk : k0 = k
  · simp [hpk] at hk
  · simp only [hpk, if_false] at hk ⊢; exact h.disj k hk

theorem tidyC_suspend {cs : ChildCerts} (h : TidyC cs) (p : KeyId × ChildCert) : TidyC (cs.suspend p) := by
  refine ⟨nodup_del h.ndI _, nodup_set h.ndS _ _, ?_⟩
  intro k hk
  simp only [ChildCerts.suspend, get_del, get_set] at hk ⊢
  by_cases hpk : p.1 = k
  · simp [hpk] at hk
  · simp only [hpk, if_false] at hk ⊢; exact h.disj k hk

theorem tidyC_foldl_addIssued {cs : ChildCerts} (h : TidyC cs) (l : List (KeyId × ChildCert)) :
    TidyC (l.foldl ChildCerts.addIssued cs) := by
  induction l generalizing cs with
  | nil => exact h
  | cons p t ih => exact ih (tidyC_addIssued h p)

theorem tidyC_foldl_unsuspend {cs : ChildCerts} (h : TidyC cs) (l : List (KeyId × ChildCert)) :
    TidyC (l.foldl ChildCerts.unsuspend cs) := by
  induction l generalizing cs with
  | nil => exact h
  | cons p t ih => exact ih (tidyC_unsuspend h p)

theorem tidyC_foldl_removeRevoked {cs : ChildCerts} (h : TidyC cs) (l : List KeyId) :
    TidyC (l.foldl ChildCerts.removeRevoked cs) := by
  induction l generalizing cs with
  | nil => exact h
  | cons p t ih => exact ih (tidyC_removeRevoked h p)

theorem tidyC_foldl_suspend {cs : ChildCerts} (h : TidyC cs) (l : List (KeyId × ChildCert)) :
    TidyC (l.foldl ChildCerts.suspend cs) := by
  induction l generalizing cs with
  | nil => exact h
  | cons p t ih => exact ih (tidyC_suspend h p)

/-- Every update keeps the maps tidy (since fix bb96d233 `add_issued_certificate` clears the
suspended entry itself). -/
theorem tidyC_applyUpd {cs : ChildCerts} (h : TidyC cs) (u : CertUpd) : TidyC (cs.applyUpd u) := by
  simp only [ChildCerts.applyUpd]
  exact tidyC_foldl_suspend (tidyC_foldl_removeRevoked (tidyC_foldl_unsuspend (tidyC_foldl_addIssued h _) _) _) _

end KM.CaK
