/-
Helper lemmas for C02: `Tidy` classes – the issued and suspended maps have pairwise different
keys and no key is in both – and the updates that keep a class tidy.  No property statements.
-/
import KrillModel.Ca.LemmasShrink
import KrillModel.Ca.ReachQ
namespace KM.CaK
open KM.Res KM.AMap

/-- No stale entries, no duplicate keys. -/
structure TidyC (cs : ChildCerts) : Prop where
  ndI : (keys cs.issued).Nodup
  ndS : (keys cs.suspended).Nodup
  disj : ∀ k, (get cs.issued k).isSome = true → get cs.suspended k = none

def Tidy (rc : Rc) : Prop := TidyC rc.certs

theorem tidyC_empty : TidyC {} := ⟨List.nodup_nil, List.nodup_nil, fun k h => by simp at h⟩

theorem tidyC_addIssued {cs : ChildCerts} (h : TidyC cs) (p : KeyId × ChildCert)
    (hp : get cs.suspended p.1 = none) : TidyC (cs.addIssued p) := by
  refine ⟨nodup_set h.ndI _ _, h.ndS, ?_⟩
  intro k hk
  simp only [ChildCerts.addIssued, get_set] at hk ⊢
  by_cases hpk : p.1 = k
  · subst hpk; exact hp
  · simp only [hpk, if_false] at hk; exact h.disj k hk

theorem tidyC_removeRevoked {cs : ChildCerts} (h : TidyC cs) (k0 : KeyId) : TidyC (cs.removeRevoked k0) := by
  refine ⟨nodup_del h.ndI _, nodup_del h.ndS _, ?_⟩
  intro k hk
  simp only [ChildCerts.removeRevoked, get_del] at hk ⊢
  by_cases hpk : k0 = k
  · simp [hpk] at hk
  · simp only [hpk, if_false] at hk ⊢; exact h.disj k hk

theorem tidyC_suspend {cs : ChildCerts} (h : TidyC cs) (p : KeyId × ChildCert) : TidyC (cs.suspend p) := by
  refine ⟨nodup_del h.ndI _, nodup_set h.ndS _ _, ?_⟩
  intro k hk
  simp only [ChildCerts.suspend, get_del, get_set] at hk ⊢
  by_cases hpk : p.1 = k
  · simp [hpk] at hk
  · simp only [hpk, if_false] at hk ⊢; exact h.disj k hk

theorem tidyC_foldl_addIssued {cs : ChildCerts} (h : TidyC cs) (l : List (KeyId × ChildCert))
    (hl : ∀ p ∈ l, get cs.suspended p.1 = none) : TidyC (l.foldl ChildCerts.addIssued cs) := by
  induction l generalizing cs with
  | nil => exact h
  | cons p t ih =>
    simp only [List.foldl_cons]
    refine ih (tidyC_addIssued h p (hl p (List.mem_cons_self ..))) ?_
    intro q hq
    simp only [ChildCerts.addIssued]
    exact hl q (List.mem_cons_of_mem _ hq)

theorem tidyC_foldl_removeRevoked {cs : ChildCerts} (h : TidyC cs) (l : List KeyId) :
    TidyC (l.foldl ChildCerts.removeRevoked cs) := by
  induction l generalizing cs with
  | nil => exact h
  | cons p t ih => exact ih (tidyC_removeRevoked h p)

theorem tidyC_foldl_suspend {cs : ChildCerts} (h : TidyC cs) (l : List (KeyId × ChildCert)) :
    TidyC (l.foldl ChildCerts.suspend cs) := by
  induction l generalizing cs with
  | nil => exact h
  | cons p t ih => exact ih (tidyC_suspend h p)

/-- An update that issues only for keys without suspended entry keeps the maps tidy. -/
theorem tidyC_applyUpd {cs : ChildCerts} (h : TidyC cs) (u : CertUpd) (hu : u.unsuspended = [])
    (hi : ∀ p ∈ u.issued, get cs.suspended p.1 = none) : TidyC (cs.applyUpd u) := by
  simp only [ChildCerts.applyUpd, hu, List.foldl_nil]
  exact tidyC_foldl_suspend (tidyC_foldl_removeRevoked (tidyC_foldl_addIssued h _ hi) _) _

theorem tidyC_shrink {cs : ChildCerts} (h : TidyC cs) {cert : Cert} {na : Int} {upd : CertUpd}
    (hsh : cs.shrinkOverclaiming cert na = .ok upd) : TidyC (cs.applyUpd upd) := by
  unfold ChildCerts.shrinkOverclaiming at hsh
  cases h1 : shrinkList cs.issued cert na with
  | error e => simp [h1] at hsh
  | ok pr1 =>
    obtain ⟨iss, rem1⟩ := pr1
    simp only [h1] at hsh
    cases h2 : shrinkList cs.suspended cert na with
    | error e => simp [h2] at hsh
    | ok pr2 =>
      obtain ⟨sus, rem2⟩ := pr2
      simp only [h2, Except.ok.injEq] at hsh; subst hsh
      refine tidyC_applyUpd h _ rfl ?_
      intro p hp
      obtain ⟨_, _, h3⟩ := shrinkList_spec h1
      have hk : p.1 ∈ keys cs.issued := h3 p.1 (Or.inr (List.mem_map.mpr ⟨p, hp, rfl⟩))
      exact h.disj p.1 (get_isSome_iff_mem_keys.mpr hk)

theorem tidyC_activate {cs : ChildCerts} (h : TidyC cs) {cert : Cert} {na : Int} {upd : CertUpd}
    (hac : cs.activateKey cert na = .ok upd) : TidyC (cs.applyUpd upd) := by
  unfold ChildCerts.activateKey at hac
  cases h1 : reissueAll cs.issued cert na with
  | error e => simp [h1] at hac
  | ok iss =>
    simp only [h1] at hac
    cases h2 : reissueAll cs.suspended cert na with
    | error e => simp [h2] at hac
    | ok sus =>
      simp only [h2, Except.ok.injEq] at hac; subst hac
      refine tidyC_applyUpd h _ rfl ?_
      intro p hp
      have hkeys := (reissueAll_spec h1).2
      have hk : p.1 ∈ keys cs.issued := by
        have : p.1 ∈ iss.map (·.1) := List.mem_map.mpr ⟨p, hp, rfl⟩
        rw [hkeys] at this; exact this
      exact h.disj p.1 (get_isSome_iff_mem_keys.mpr hk)

end KM.CaK
