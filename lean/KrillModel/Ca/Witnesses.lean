/-
Concrete command histories used as witnesses and non-vacuity examples by `Props/C02.lean` and
`Props/C04.lean` (each is replayed on the implementation by a scenario in corpus/system).
Import-free (model files only).
-/
import KrillModel.Ca.CertAuth
namespace KM.CaK

/-- Non-vacuity: a shrink that re-issues one child certificate and removes another, in the
command that receives the smaller certificate. -/
def shrinkHistory : List Cmd :=
  [ .repoUpdate [], .addParent 9,
    .updateEntitlements 9 [⟨0, [1, 2, 3], 100, []⟩] 0 [4],
    .updateRcvdCert 0 4 { res := [1, 2, 3], na := 100 } 50 [],
    .childAdd 7 [1, 2], .childAdd 8 [3],
    .childCertify 7 0 6 none 60, .childCertify 8 0 5 none 60 ]

/-- suspend → unsuspend → the parent's certificate shrinks (the F-C02-1 history). -/
def staleHistory : List Cmd :=
  [ .repoUpdate [], .addParent 9,
    .updateEntitlements 9 [⟨0, [1, 2, 3], 100, []⟩] 0 [4],
    .updateRcvdCert 0 4 { res := [1, 2, 3], na := 100 } 50 [],
    .childAdd 7 [1, 2],
    .childCertify 7 0 6 none 60,
    .childSuspend 7,
    .childUnsuspend 7 10 61,
    .updateRcvdCert 0 4 { res := [1], na := 100 } 62 [] ]

def orphanHistory : List Cmd :=
  [ .repoUpdate [], .addParent 9,
    .updateEntitlements 9 [⟨0, [1, 2, 3], 100, []⟩] 0 [4],
    .updateRcvdCert 0 4 { res := [1, 2, 3], na := 100 } 50 [],
    .childAdd 7 [1, 2],
    .childCertify 7 0 6 none 60,
    .childSuspend 7,
    .childUnsuspend 7 10 61,
    .childUpdateResources 7 [1, 2, 3],
    .childCertify 7 0 6 none 62,
    .updateRcvdCert 0 4 { res := [3], na := 100 } 63 [],
    .updateRcvdCert 0 4 { res := [2], na := 100 } 64 [] ]

/-- `process_child_revoke_key` of the pinned tree (before 43d7eca0): the class test is made on
the *child's* name and only then is the name translated – the counter-model of F-C03-1 and
F-C04-1. -/
def Ca.pinnedRevoke (s : Ca) (ch : Handle) (childRcn : Rcn) (ki : KeyId) : Except Err (List Ev) :=
  if !(AMap.get s.classes childRcn).isSome then .ok []
  else
    match AMap.get s.children ch with
    | none => .error .unknownChild
    | some c =>
      let myRcn := c.nameInParent childRcn
      if !c.isIssued ki then .error .noIssuedCert
      else .ok [.childKeyRevoked ch myRcn ki, .childCerts myRcn { removed := [ki] }]

/-- A child whose certificate is under class 0 and a class-name mapping "class 0 of the child is
class 5 here", class 5 not being a class of this CA (allowed with a warning). -/
def witnessMapped : List Cmd :=
  [ .repoUpdate [], .addParent 9,
    .updateEntitlements 9 [⟨0, [1, 2], 100, []⟩] 0 [4],
    .updateRcvdCert 0 4 { res := [1, 2], na := 100 } 50 [],
    .childAdd 7 [1, 2],
    .childCertify 7 0 6 none 60,
    .childMapping 7 5 0 ]

/-- A child whose class 0 is called 5 *by the child* (mapping name_in_parent 0 ↦ name_for_child 5). -/
def witnessRenamed : List Cmd :=
  [ .repoUpdate [], .addParent 9,
    .updateEntitlements 9 [⟨0, [1, 2], 100, []⟩] 0 [4],
    .updateRcvdCert 0 4 { res := [1, 2], na := 100 } 50 [],
    .childAdd 7 [1, 2],
    .childMapping 7 0 5,
    .childCertify 7 5 6 none 60 ]

/-- suspend → unsuspend → roll (F-C02-1 seen from the roll on the pinned tree: at activation the
active child's certificate was dropped, re-issued as *suspended*). -/
def staleRoll : List Cmd :=
  [ .repoUpdate [], .addParent 9,
    .updateEntitlements 9 [⟨0, [1, 2], 100, []⟩] 0 [4],
    .updateRcvdCert 0 4 { res := [1, 2], na := 100 } 50 [],
    .childAdd 7 [1],
    .childCertify 7 0 6 none 60,
    .config [(0, ⟨.roa, [(31, 310)], []⟩)],
    .childSuspend 7, .childUnsuspend 7 10 61,
    .keyrollInit [(0, 5)],
    .updateRcvdCert 0 5 { res := [1, 2], na := 100 } 62 [] ]

/-- Class 0 certified, class 1 entitled but still pending; the child holds a certificate under
class 0. -/
def pendingClassHistory : List Cmd :=
  [ .repoUpdate [], .addParent 9,
    .updateEntitlements 9 [⟨0, [1, 2], 100, []⟩, ⟨1, [3], 100, []⟩] 0 [4, 5],
    .updateRcvdCert 0 4 { res := [1, 2], na := 100 } 50 [],
    .childAdd 7 [1, 2],
    .childCertify 7 0 6 none 60 ]

end KM.CaK
