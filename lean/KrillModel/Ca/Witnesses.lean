/-
Concrete command histories used as witnesses and non-vacuity examples by `Props/C02.lean` and
`Props/C04.lean` (each is replayed on the implementation by a scenario in corpus/system).
Import-free (model files only).
-/
import KrillModel.Ca.CertAuth
namespace KM.CaK

/-- Non-vacuity: a shrink that re-issues one child certificate and removes another, in the
command that receives the smaller certificate. -/
def shrinkHistory : List Cmd :=
  [ .repoUpdate [], .addParent 9,
    .updateEntitlements 9 [⟨0, [1, 2, 3], 100, []⟩] 0 [4],
    .updateRcvdCert 0 4 { res := [1, 2, 3], na := 100 } 50 [],
    .childAdd 7 [1, 2], .childAdd 8 [3],
    .childCertify 7 0 6 none 60, .childCertify 8 0 5 none 60 ]

/-- suspend → unsuspend → the parent's certificate shrinks. -/
def staleHistory : List Cmd :=
  [ .repoUpdate [], .addParent 9,
    .updateEntitlements 9 [⟨0, [1, 2, 3], 100, []⟩] 0 [4],
    .updateRcvdCert 0 4 { res := [1, 2, 3], na := 100 } 50 [],
    .childAdd 7 [1, 2],
    .childCertify 7 0 6 none 60,
    .childSuspend 7,
    .childUnsuspend 7 10 61,
    .updateRcvdCert 0 4 { res := [1], na := 100 } 62 [] ]

def orphanHistory : List Cmd :=
  [ .repoUpdate [], .addParent 9,
    .updateEntitlements 9 [⟨0, [1, 2, 3], 100, []⟩] 0 [4],
    .updateRcvdCert 0 4 { res := [1, 2, 3], na := 100 } 50 [],
    .childAdd 7 [1, 2],
    .childCertify 7 0 6 none 60,
    .childSuspend 7,
    .childUnsuspend 7 10 61,
    .childUpdateResources 7 [1, 2, 3],
    .childCertify 7 0 6 none 62,
    .updateRcvdCert 0 4 { res := [3], na := 100 } 63 [],
    .updateRcvdCert 0 4 { res := [2], na := 100 } 64 [] ]

/-- F-C04-1: with a class-name mapping to a class the parent does not have, a revocation
request of the child makes `process` return `ChildKeyRevoked` for the unknown class, and
`apply` unwraps `None` (certauth.rs:391-393).  Reachable state, concrete witness. -/
def witnessMapped : List Cmd :=
  [ .repoUpdate [], .addParent 9,
    .updateEntitlements 9 [⟨0, [1, 2], 100, []⟩] 0 [4],
    .updateRcvdCert 0 4 { res := [1, 2], na := 100 } 50 [],
    .childAdd 7 [1, 2],
    .childCertify 7 0 6 none 60,
    .childMapping 7 5 0 ]

/-- F-C02-1 seen from the roll: suspend → unsuspend → roll; at activation the active child's
certificate is dropped (it is re-issued as *suspended*). -/
def staleRoll : List Cmd :=
  [ .repoUpdate [], .addParent 9,
    .updateEntitlements 9 [⟨0, [1, 2], 100, []⟩] 0 [4],
    .updateRcvdCert 0 4 { res := [1, 2], na := 100 } 50 [],
    .childAdd 7 [1],
    .childCertify 7 0 6 none 60,
    .config [(0, ⟨.roa, [(31, 310)], []⟩)],
    .childSuspend 7, .childUnsuspend 7 10 61,
    .keyrollInit [(0, 5)],
    .updateRcvdCert 0 5 { res := [1, 2], na := 100 } 62 [] ]

end KM.CaK
