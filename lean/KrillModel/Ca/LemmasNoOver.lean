/-
Helper lemmas for C02: the class invariant `NoOver` (issued ⊆ current certificate) holds for
every class of every reachable state.  No property statements.
-/
import KrillModel.Ca.LemmasCerts
import KrillModel.Ca.LemmasReach
namespace KM.CaK
open KM.Res KM.AMap

/-- Every class satisfies a class predicate. -/
def AllCls (P : Rc → Prop) (s : Ca) : Prop := ∀ r rc, get s.classes r = some rc → P rc

/-! ## Class-local chunks -/

theorem applyEvs_append (rc : Rc) (a b : List Ev) :
    rc.applyEvs (a ++ b) = (rc.applyEvs a).bind (·.applyEvs b) := by
  induction a generalizing rc with
  | nil => rfl
  | cons e es ih =>
    simp only [List.cons_append, Rc.applyEvs]
    cases rc.applyEv e with
    | none => rfl
    | some rc' => simp only [Option.bind_some]; exact ih rc'

/-- Product updates leave keys and certificates alone. -/
theorem applyEvs_products {rc rc' : Rc} {r : Rcn} {evs : List Ev}
    (hp : ∀ e ∈ evs, ∃ u, e = Ev.products r u) (h : rc.applyEvs evs = some rc') :
    rc'.keys = rc.keys ∧ rc'.certs = rc.certs := by
  induction evs generalizing rc with
  | nil => simp only [Rc.applyEvs, Option.some.injEq] at h; subst h; exact ⟨rfl, rfl⟩
  | cons e es ih =>
    obtain ⟨u, rfl⟩ := hp _ (List.mem_cons_self ..)
    simp only [Rc.applyEvs, Rc.applyEv, Option.bind_some] at h
    obtain ⟨h1, h2⟩ := ih (fun e' he' => hp e' (List.mem_cons_of_mem _ he')) h
    exact ⟨h1, h2⟩

theorem renewal_products (r : Rcn) (rc : Rc) (k : PKind) : ∀ e ∈ renewal r rc k, ∃ u, e = Ev.products r u := by
  intro e he
  simp only [renewal] at he
  by_cases hp : (rc.productsOf k).isEmpty = true
  · simp [hp] at he
  · simp only [hp, Bool.false_eq_true, if_false, List.mem_singleton] at he; exact ⟨_, he⟩

/-- A class predicate kept by every chunk of a class loop is kept by the loop. -/
theorem forClasses_pres (P : Rc → Prop) {f : Rcn → Rc → Except Err (List Ev)}
    (hf : ∀ r rc evs, f r rc = .ok evs → (∀ e ∈ evs, e.onClass r = true) ∧
      (P rc → ∀ rc', rc.applyEvs evs = some rc' → P rc'))
    {l : List (Rcn × Rc)} {evs : List Ev} {s s' : Ca} (hnd : (keys l).Nodup)
    (hl : ∀ p ∈ l, get s.classes p.1 = some p.2) (hP : AllCls P s)
    (h : forClasses f l = .ok evs) (hs : s.applyAll evs = some s') : AllCls P s' := by
  induction l generalizing s evs with
  | nil =>
    simp only [forClasses, Except.ok.injEq] at h; subst h
    simp only [Ca.applyAll, Option.some.injEq] at hs; subst hs; exact hP
  | cons p ps ih =>
    simp only [forClasses] at h
    cases hfp : f p.1 p.2 with
    | error e => simp [hfp] at h
    | ok a =>
      simp only [hfp] at h
      cases hrest : forClasses f ps with
      | error e => simp [hrest] at h
      | ok b =>
        simp only [hrest, Except.ok.injEq] at h; subst h
        rw [applyAll_append] at hs
        cases hs1 : s.applyAll a with
        | none => simp [hs1] at hs
        | some s1 =>
          simp only [hs1, Option.bind_some] at hs
          obtain ⟨hon, hpres⟩ := hf p.1 p.2 a hfp
          have hgp := hl p (List.mem_cons_self ..)
          obtain ⟨rc', happ, hg', hframe, _⟩ := applyAll_of_rc hon hgp hs1
          simp only [keys, List.map_cons, List.nodup_cons] at hnd
          refine ih hnd.2 ?_ ?_ hrest hs
          · intro q hq
            have hne : q.1 ≠ p.1 := fun he => hnd.1 (he ▸ List.mem_map.mpr ⟨q, hq, rfl⟩)
            rw [hframe q.1 hne]; exact hl q (List.mem_cons_of_mem _ hq)
          · intro r rc hg
            by_cases hr : r = p.1
            · subst hr
              rw [hg'] at hg; cases hg
              exact hpres (hP _ _ hgp) _ happ
            · rw [hframe r hr] at hg; exact hP r rc hg

/-! ## `NoOver` along the chunks -/

theorem initClass_noOver (fresh : AMap Rcn KeyId) (r : Rcn) (rc : Rc) (evs : List Ev)
    (h : initClass fresh r rc = .ok evs) :
    NoOver rc → ∀ rc', rc.applyEvs evs = some rc' → NoOver rc' := by
  intro hno rc' happ
  unfold initClass at h
  cases hk : rc.keys with
  | active c =>
    simp only [hk] at h
    cases hf : get fresh r with
    | none => simp [hf] at h
    | some k =>
      simp only [hf] at h
      by_cases hkc : k = c.id
      · simp [hkc] at h
      · simp only [hkc, if_false, Except.ok.injEq, KeyState.keyrollInitiate, List.map_cons, List.map_nil] at h
        subst h
        simp only [Rc.applyEvs, Rc.applyEv, hk, KeyState.apply, KeyState.applyPendingAdded,
          KeyState.applyRequested, Option.map_some, Option.bind_some, Option.some.injEq] at happ
        subst happ
        split <;> exact noOver_keys hno (by simp [hk, KeyState.current, seteq_refl])
  | pending _ => simp only [hk, Except.ok.injEq] at h; subst h; simp [Rc.applyEvs] at happ; subst happ; exact hno
  | rollPending _ _ => simp only [hk, Except.ok.injEq] at h; subst h; simp [Rc.applyEvs] at happ; subst happ; exact hno
  | rollNew _ _ => simp only [hk, Except.ok.injEq] at h; subst h; simp [Rc.applyEvs] at happ; subst happ; exact hno
  | rollOld _ _ => simp only [hk, Except.ok.injEq] at h; subst h; simp [Rc.applyEvs] at happ; subst happ; exact hno

theorem reissueAll_nil_of_nil {l : List (KeyId × ChildCert)} {signing : Cert} {na : Int}
    (h : reissueAll l signing na = .ok []) : l = [] := by
  have := (reissueAll_spec h).2
  cases l with
  | nil => rfl
  | cons p t => simp at this

theorem activateClass_noOver (na : Int) (r : Rcn) (rc : Rc) (evs : List Ev)
    (h : activateClass r rc na = .ok evs) :
    NoOver rc → ∀ rc', rc.applyEvs evs = some rc' → NoOver rc' := by
  intro hno rc' happ
  unfold activateClass at h
  cases hn : rc.keys.newKey with
  | none =>
    simp only [hn, Except.ok.injEq] at h; subst h
    simp only [Rc.applyEvs, Option.some.injEq] at happ; subst happ; exact hno
  | some n =>
    simp only [hn] at h
    cases hk : rc.keys with
    | rollNew n' c =>
      have hnn : n' = n := by rw [hk] at hn; simpa [KeyState.newKey] using hn
      subst hnn
      cases ha : rc.keys.keyrollActivate with
      | error e => simp [ha] at h
      | ok kevs =>
        simp only [ha] at h
        cases hac : rc.certs.activateKey n'.cert na with
        | error e => simp [hac] at h
        | ok upd =>
          simp only [hac, Except.ok.injEq] at h; subst h
          have hkevs : kevs = [.activated] := by
            rw [hk] at ha
            simp only [KeyState.keyrollActivate] at ha
            split at ha <;> cases ha
            rfl
          subst hkevs
          -- run the chunk: the key event, then four groups of payload events
          simp only [List.map_cons, List.map_nil, List.cons_append, List.nil_append, Rc.applyEvs,
            Rc.applyEv, hk, KeyState.apply, KeyState.applyActivated, Option.map_some, Option.bind_some] at happ
          rw [List.append_assoc, List.append_assoc, applyEvs_append] at happ
          cases h1 : Rc.applyEvs { rc with keys := .rollOld n' c } (renewal r rc .roa) with
          | none => simp [h1] at happ
          | some rc1 =>
            simp only [h1, Option.bind_some] at happ
            obtain ⟨hk1, hc1⟩ := applyEvs_products (renewal_products r rc .roa) h1
            rw [applyEvs_append] at happ
            cases h2 : rc1.applyEvs (renewal r rc .aspa) with
            | none => simp [h2] at happ
            | some rc2 =>
              simp only [h2, Option.bind_some] at happ
              obtain ⟨hk2, hc2⟩ := applyEvs_products (renewal_products r rc .aspa) h2
              rw [applyEvs_append] at happ
              by_cases hemp : upd.isEmpty = true
              · simp only [hemp, if_true, Rc.applyEvs, Option.bind_some] at happ
                obtain ⟨hk3, hc3⟩ := applyEvs_products (renewal_products r rc .bgpsec) happ
                -- nothing was issued: the invariant holds trivially
                have hiss : rc.certs.issued = [] := by
                  unfold ChildCerts.activateKey at hac
                  cases hr1 : reissueAll rc.certs.issued n'.cert na with
                  | error e => simp [hr1] at hac
                  | ok iss =>
                    simp only [hr1] at hac
                    cases hr2 : reissueAll rc.certs.suspended n'.cert na with
                    | error e => simp [hr2] at hac
                    | ok sus =>
                      simp only [hr2, Except.ok.injEq] at hac; subst hac
                      simp only [CertUpd.isEmpty, Bool.and_eq_true, List.isEmpty_iff] at hemp
                      have : iss = [] := hemp.1.1.1
                      subst this
                      exact reissueAll_nil_of_nil hr1
                unfold NoOver
                rw [hk3, hk2, hk1, hc3, hc2, hc1]
                simp only [KeyState.current, hiss]
                intro k cc hg; simp at hg
              · simp only [hemp, Bool.false_eq_true, if_false, Rc.applyEvs, Rc.applyEv, Option.bind_some] at happ
                obtain ⟨hk3, hc3⟩ := applyEvs_products (renewal_products r rc .bgpsec) happ
                have hfin : NoOver { rc2 with certs := rc2.certs.applyUpd upd } := by
                  have := noOver_activate (rc := rc) (n := n') (ks' := .rollOld n' c) (upd := upd) (na := na)
                    (by simp [KeyState.current]) hac
                  unfold NoOver at this ⊢
                  simp only [hk2, hk1, hc2, hc1] at this ⊢
                  exact this
                unfold NoOver at hfin ⊢
                rw [hk3, hc3]
                exact hfin
    | pending _ => rw [hk] at hn; simp [KeyState.newKey] at hn
    | active _ => rw [hk] at hn; simp [KeyState.newKey] at hn
    | rollPending _ _ => rw [hk] at hn; simp [KeyState.newKey] at hn
    | rollOld _ _ => rw [hk] at hn; simp [KeyState.newKey] at hn

/-- A class predicate through one class-local chunk. -/
theorem allCls_chunk (P : Rc → Prop) {s s' : Ca} {r : Rcn} {rc : Rc} {evs : List Ev}
    (hon : ∀ e ∈ evs, e.onClass r = true) (hg : get s.classes r = some rc) (hP : AllCls P s)
    (hpres : ∀ rc', rc.applyEvs evs = some rc' → P rc') (hs : s.applyAll evs = some s') : AllCls P s' := by
  obtain ⟨rc', happ, hg', hframe, _⟩ := applyAll_of_rc hon hg hs
  intro r2 rc2 hg2
  by_cases hr : r2 = r
  · subst hr; rw [hg'] at hg2; cases hg2; exact hpres _ happ
  · rw [hframe r2 hr] at hg2; exact hP r2 rc2 hg2

theorem route_current_applyReceived {ks : KeyState} {ki : KeyId} {c : CertKey} (cert : Cert)
    (h : ks.route ki = .ok (.current c)) :
    ∃ ks', ks.applyReceived ki cert = some ks' ∧ ks'.current = some (c.setIncoming cert) ∧
      ks.current = some c := by
  cases ks with
  | pending p => simp only [KeyState.route] at h; split at h <;> cases h
  | active c' =>
    simp only [KeyState.route] at h
    split at h
    · cases h
    · cases h; exact ⟨.active (c.setIncoming cert), rfl, rfl, rfl⟩
  | rollPending p c' =>
    simp only [KeyState.route] at h
    split at h
    · cases h
    · split at h
      · cases h
      · cases h; exact ⟨.rollPending p (c.setIncoming cert), rfl, rfl, rfl⟩
  | rollNew n c' =>
    simp only [KeyState.route] at h
    split at h
    · cases h
    · rename_i hne
      split at h
      · cases h
      · cases h
        refine ⟨.rollNew n (c.setIncoming cert), ?_, rfl, rfl⟩
        simp only [KeyState.applyReceived]
        have : ¬ n.id = ki := fun he => hne he.symm
        simp [this]
  | rollOld c' o =>
    simp only [KeyState.route] at h
    split at h
    · cases h
    · rename_i hne
      cases h
      refine ⟨.rollOld (c.setIncoming cert) o, ?_, rfl, rfl⟩
      simp only [KeyState.applyReceived]
      have : c.id = ki := by
        have : ¬ ki ≠ c.id := hne
        exact (Classical.not_not.mp this).symm
      simp [this]

theorem products_map_products (r : Rcn) (l : List ProdUpd) :
    ∀ e ∈ l.map (Ev.products r), ∃ u, e = Ev.products r u := by
  intro e he
  obtain ⟨u, _, rfl⟩ := List.mem_map.mp he
  exact ⟨u, rfl⟩

theorem isEmpty_applyUpd {u : CertUpd} (h : u.isEmpty = true) (cs : ChildCerts) : cs.applyUpd u = cs := by
  obtain ⟨i, r, su, un⟩ := u
  simp only [CertUpd.isEmpty, Bool.and_eq_true, List.isEmpty_iff] at h
  obtain ⟨⟨⟨rfl, rfl⟩, rfl⟩, rfl⟩ := h
  rfl

/-- `UpdateRcvdCert` keeps `NoOver` in every class. -/
theorem noOver_updateRcvdCert {s s' : Ca} {rcn : Rcn} {ki : KeyId} {cert : Cert} {na : Int}
    {prods : List ProdUpd} {evs : List Ev} (hP : AllCls NoOver s)
    (h : s.process (.updateRcvdCert rcn ki cert na prods) = .ok evs)
    (hs : s.applyAll evs = some s') : AllCls NoOver s' := by
  simp only [Ca.process] at h
  cases hg : get s.classes rcn with
  | none => simp [hg] at h
  | some rc =>
    simp only [hg] at h
    have hno := hP rcn rc hg
    cases hr : rc.keys.route ki with
    | error e => simp [hr] at h
    | ok route =>
      simp only [hr] at h
      cases route with
      | toActive =>
        simp only [Except.ok.injEq] at h; subst h
        refine allCls_chunk NoOver (r := rcn) ?_ hg hP ?_ hs
        · intro e he
          rcases List.mem_cons.mp he with rfl | he
          · simp [Ev.onClass]
          · obtain ⟨u, _, rfl⟩ := List.mem_map.mp he; simp [Ev.onClass]
        · intro rc' happ
          simp only [Rc.applyEvs, Rc.applyEv] at happ
          cases hka : rc.keys.apply (.pendingToActive (CertKey.create ki cert)) with
          | none => simp [hka] at happ
          | some ks' =>
            simp only [hka, Option.map_some, Option.bind_some] at happ
            obtain ⟨hk1, hc1⟩ := applyEvs_products (products_map_products rcn _) happ
            -- the class was pending
            cases hk : rc.keys with
            | pending p =>
              rw [hk] at hka
              simp only [KeyState.apply, KeyState.applyPendingToActive, Option.some.injEq] at hka
              subst hka
              unfold NoOver at hno ⊢
              rw [hk1, hc1]
              simp only [hk, KeyState.current] at hno ⊢
              intro k cc hgk; rw [hno k] at hgk; cases hgk
            | active _ => rw [hk] at hka; simp [KeyState.apply, KeyState.applyPendingToActive] at hka
            | rollPending _ _ => rw [hk] at hka; simp [KeyState.apply, KeyState.applyPendingToActive] at hka
            | rollNew _ _ => rw [hk] at hka; simp [KeyState.apply, KeyState.applyPendingToActive] at hka
            | rollOld _ _ => rw [hk] at hka; simp [KeyState.apply, KeyState.applyPendingToActive] at hka
      | toNew =>
        simp only [Except.ok.injEq] at h; subst h
        refine allCls_chunk NoOver (r := rcn) (by intro e he; simp at he; subst he; simp [Ev.onClass]) hg hP ?_ hs
        intro rc' happ
        simp only [Rc.applyEvs, Rc.applyEv] at happ
        cases hk : rc.keys with
        | rollPending p c =>
          simp only [hk, KeyState.apply, KeyState.applyPendingToNew, Option.map_some, Option.bind_some,
            Option.some.injEq] at happ
          subst happ
          exact noOver_keys hno (by simp [hk, KeyState.current, seteq_refl])
        | pending _ => simp [hk, KeyState.apply, KeyState.applyPendingToNew] at happ
        | active _ => simp [hk, KeyState.apply, KeyState.applyPendingToNew] at happ
        | rollNew _ _ => simp [hk, KeyState.apply, KeyState.applyPendingToNew] at happ
        | rollOld _ _ => simp [hk, KeyState.apply, KeyState.applyPendingToNew] at happ
      | newCert =>
        simp only [Except.ok.injEq] at h; subst h
        refine allCls_chunk NoOver (r := rcn) (by intro e he; simp at he; subst he; simp [Ev.onClass]) hg hP ?_ hs
        intro rc' happ
        simp only [Rc.applyEvs, Rc.applyEv] at happ
        cases hk : rc.keys with
        | rollNew n c =>
          rw [hk] at hr
          simp only [KeyState.route] at hr
          by_cases hki : ki = n.id
          · simp only [hk, KeyState.apply, KeyState.applyReceived, hki, if_true, Option.map_some,
              Option.bind_some, Option.some.injEq] at happ
            subst happ
            exact noOver_keys hno (by simp [hk, KeyState.current, seteq_refl])
          · simp only [hki, if_false] at hr; split at hr <;> cases hr
        | pending _ => rw [hk] at hr; simp only [KeyState.route] at hr; split at hr <;> cases hr
        | active _ => rw [hk] at hr; simp only [KeyState.route] at hr; split at hr <;> cases hr
        | rollPending _ _ =>
          rw [hk] at hr; simp only [KeyState.route] at hr
          split at hr
          · cases hr
          · split at hr <;> cases hr
        | rollOld _ _ => rw [hk] at hr; simp only [KeyState.route] at hr; split at hr <;> cases hr
      | current c =>
        obtain ⟨ks', hrecv, hcur', hcur⟩ := route_current_applyReceived cert hr
        simp only [Rc.rcvdCertCurrent] at h
        by_cases hse : seteq cert.res c.cert.res = true
        · simp only [hse, if_true, Except.ok.injEq] at h; subst h
          refine allCls_chunk NoOver (r := rcn) (by intro e he; simp at he; subst he; simp [Ev.onClass]) hg hP ?_ hs
          intro rc' happ
          simp only [Rc.applyEvs, Rc.applyEv, KeyState.apply, hrecv, Option.map_some, Option.bind_some,
            Option.some.injEq] at happ
          subst happ
          exact noOver_keys hno (by simp [hcur, hcur', CertKey.setIncoming, hse])
        · simp only [hse, Bool.false_eq_true, if_false] at h
          cases hsh : rc.certs.shrinkOverclaiming cert na with
          | error e => simp [hsh] at h
          | ok upd =>
            simp only [hsh, Except.ok.injEq] at h; subst h
            refine allCls_chunk NoOver (r := rcn) ?_ hg hP ?_ hs
            · intro e he
              rcases List.mem_cons.mp he with rfl | he
              · simp [Ev.onClass]
              · rcases List.mem_append.mp he with he | he
                · split at he
                  · cases he
                  · simp only [List.mem_singleton] at he; subst he; simp [Ev.onClass]
                · obtain ⟨u, _, rfl⟩ := List.mem_map.mp he; simp [Ev.onClass]
            · intro rc' happ
              rw [applyEvs_append] at happ
              have hfin := noOver_shrink (rc := rc) (c := c) (ks' := ks') hcur' hsh
              by_cases hemp : upd.isEmpty = true
              · simp only [hemp, if_true, Rc.applyEvs, Rc.applyEv, KeyState.apply, hrecv, Option.map_some,
                  Option.bind_some] at happ
                obtain ⟨hk1, hc1⟩ := applyEvs_products (products_map_products rcn _) happ
                rw [isEmpty_applyUpd hemp] at hfin
                unfold NoOver at hfin ⊢
                rw [hk1, hc1]; exact hfin
              · simp only [hemp, Bool.false_eq_true, if_false, Rc.applyEvs, Rc.applyEv, KeyState.apply, hrecv,
                  Option.map_some, Option.bind_some] at happ
                obtain ⟨hk1, hc1⟩ := applyEvs_products (products_map_products rcn _) happ
                unfold NoOver at hfin ⊢
                rw [hk1, hc1]; exact hfin

/-! ## Single events -/

/-- What a `ChildCertificatesUpdated` must satisfy for `NoOver` to survive it on its own:
whatever it adds to `issued` lies inside the current certificate of its class. -/
def NEv (s : Ca) : Ev → Prop
  | .childCerts r u => ∀ p, p ∈ u.issued ∨ p ∈ u.unsuspended →
      ∃ rc c, get s.classes r = some rc ∧ rc.keys.current = some c ∧ subset p.2.res c.cert.res = true
  | _ => True

/-- Events after which `NoOver` holds whenever it held before (given `NEv`): everything except
the key events that change or switch the current certificate, which come in chunks. -/
def Ev.noOverSafe : Ev → Bool
  | .key _ (.requested _) => true
  | .key _ (.unexpected _) => true
  | .key _ _ => false
  | _ => true

theorem apply_nodup {s s' : Ca} {e : Ev} (hnd : (keys s.classes).Nodup) (ha : s.apply e = some s') :
    (keys s'.classes).Nodup := by
  have wc : ∀ (r : Rcn) (f : Rc → Option Rc) (s1 : Ca), s.withClass r f = some s1 → (keys s1.classes).Nodup := by
    intro r f s1 h
    obtain ⟨rc, rc', _, _, rfl⟩ := Ca.withClass_some h
    exact nodup_set hnd _ _
  have wch : ∀ (ch : Handle) (f : Child → Child) (s0 s1 : Ca), (keys s0.classes).Nodup →
      s0.withChild ch f = some s1 → (keys s1.classes).Nodup := by
    intro ch f s0 s1 h0 h
    obtain ⟨c, _, rfl⟩ := Ca.withChild_some h
    exact h0
  cases e with
  | rcAdded r p pr k => simp only [Ca.apply, Option.some.injEq] at ha; subst ha; exact nodup_set hnd _ _
  | rcRemoved r => simp only [Ca.apply, Option.some.injEq] at ha; subst ha; exact nodup_del hnd _
  | key r ke =>
    by_cases hu : ∃ k, ke = .unexpected k
    · obtain ⟨k, rfl⟩ := hu
      simp only [Ca.apply, Option.some.injEq] at ha; subst ha; exact hnd
    · have happ : s.apply (.key r ke) =
          s.withClass r fun rc => (rc.keys.apply ke).map fun ks => { rc with keys := ks } := by
        cases ke <;> first | rfl | exact absurd ⟨_, rfl⟩ hu
      rw [happ] at ha; exact wc _ _ _ ha
  | products r u => simp only [Ca.apply] at ha; exact wc _ _ _ ha
  | childCerts r u =>
    simp only [Ca.apply] at ha
    cases hw : s.withClass r (fun rc => some { rc with certs := rc.certs.applyUpd u }) with
    | none => simp [hw] at ha
    | some s1 => simp only [hw, Option.some.injEq] at ha; subst ha; exact (wc _ _ _ hw : (keys s1.classes).Nodup)
  | childKeyRevoked ch r k =>
    simp only [Ca.apply] at ha
    cases hw : s.withClass r (fun rc => some { rc with certs := rc.certs.removeRevoked k }) with
    | none => simp [hw] at ha
    | some s1 => simp only [hw] at ha; exact wch _ _ _ _ (wc _ _ _ hw) ha
  | childAdded ch res => simp only [Ca.apply, Option.some.injEq] at ha; subst ha; exact hnd
  | childCertIssued ch r k => simp only [Ca.apply] at ha; exact wch _ _ _ _ hnd ha
  | childUpdatedResources ch res => simp only [Ca.apply] at ha; exact wch _ _ _ _ hnd ha
  | childUpdatedId ch => simp only [Ca.apply] at ha; exact wch _ _ _ _ hnd ha
  | childMapping ch n m => simp only [Ca.apply] at ha; exact wch _ _ _ _ hnd ha
  | childRemoved ch => simp only [Ca.apply, Option.some.injEq] at ha; subst ha; exact hnd
  | childSuspended ch => simp only [Ca.apply] at ha; exact wch _ _ _ _ hnd ha
  | childUnsuspended ch => simp only [Ca.apply] at ha; exact wch _ _ _ _ hnd ha
  | parentAdded p => simp only [Ca.apply, Option.some.injEq] at ha; subst ha; exact hnd
  | parentRemoved p => simp only [Ca.apply, Option.some.injEq] at ha; subst ha; exact nodup_filter hnd _
  | repoUpdated => simp only [Ca.apply, Option.some.injEq] at ha; subst ha; exact hnd
  | other => simp only [Ca.apply, Option.some.injEq] at ha; subst ha; exact hnd

theorem applyRequested_current (ks : KeyState) (k : KeyId) :
    match ks.current, (ks.applyRequested k).current with
    | some c, some c' => seteq c'.cert.res c.cert.res = true
    | none, none => True
    | none, some _ => True
    | some _, none => False := by
  cases ks with
  | pending p => simp [KeyState.applyRequested, KeyState.current]
  | active c => simp [KeyState.applyRequested, KeyState.current, seteq_refl]
  | rollPending p c =>
    simp only [KeyState.applyRequested]; by_cases h : p.id = k <;> simp [h, KeyState.current, seteq_refl]
  | rollNew n c =>
    simp only [KeyState.applyRequested]; by_cases h : n.id = k <;> simp [h, KeyState.current, seteq_refl]
  | rollOld c o =>
    simp only [KeyState.applyRequested]; by_cases h : c.id = k <;> simp [h, KeyState.current, seteq_refl]

theorem noOver_step {s s' : Ca} {e : Ev} (hnd : (keys s.classes).Nodup) (hsafe : e.noOverSafe = true)
    (hP : AllCls NoOver s) (hev : NEv s e) (ha : s.apply e = some s') : AllCls NoOver s' := by
  -- a class rewritten at one name
  have upd : ∀ (r : Rcn) (rc rc' : Rc), get s.classes r = some rc → NoOver rc' →
      ∀ (ch : AMap Handle Child),
      AllCls NoOver { s with classes := set s.classes r rc', children := ch } := by
    intro r rc rc' _ hno ch r2 rc2 hg2
    simp only [get_set] at hg2
    by_cases h : r = r2
    · simp only [h, if_true, Option.some.injEq] at hg2; subst hg2; exact hno
    · simp only [h, if_false] at hg2; exact hP r2 rc2 hg2
  have childOnly : ∀ (ch0 : Handle) (f : Child → Child) (s1 : Ca), s.withChild ch0 f = some s1 → AllCls NoOver s1 := by
    intro ch0 f s1 h
    obtain ⟨c, _, rfl⟩ := Ca.withChild_some h
    exact hP
  cases e with
  | rcAdded r p pr k =>
    simp only [Ca.apply, Option.some.injEq] at ha; subst ha
    intro r2 rc2 hg2
    simp only [get_set] at hg2
    by_cases h : r = r2
    · simp only [h, if_true, Option.some.injEq] at hg2; subst hg2; exact noOver_create _ _ _
    · simp only [h, if_false] at hg2; exact hP r2 rc2 hg2
  | rcRemoved r =>
    simp only [Ca.apply, Option.some.injEq] at ha; subst ha
    intro r2 rc2 hg2
    simp only [get_del] at hg2
    split at hg2
    · cases hg2
    · exact hP r2 rc2 hg2
  | key r ke =>
    cases ke with
    | requested k =>
      simp only [Ca.apply] at ha
      obtain ⟨rc, rc', hg, hf, rfl⟩ := Ca.withClass_some ha
      simp only [KeyState.apply, Option.map_some, Option.some.injEq] at hf; subst hf
      refine upd r rc _ hg ?_ s.children
      exact noOver_keys (hP r rc hg) (applyRequested_current rc.keys k)
    | unexpected k => simp only [Ca.apply, Option.some.injEq] at ha; subst ha; exact hP
    | _ => simp [Ev.noOverSafe] at hsafe
  | products r u =>
    simp only [Ca.apply] at ha
    obtain ⟨rc, rc', hg, hf, rfl⟩ := Ca.withClass_some ha
    simp only [Option.some.injEq] at hf; subst hf
    exact upd r rc _ hg (noOver_products u (hP r rc hg)) s.children
  | childCerts r u =>
    simp only [Ca.apply] at ha
    cases hw : s.withClass r (fun rc => some { rc with certs := rc.certs.applyUpd u }) with
    | none => simp [hw] at ha
    | some s1 =>
      simp only [hw, Option.some.injEq] at ha; subst ha
      obtain ⟨rc, rc', hg, hf, rfl⟩ := Ca.withClass_some hw
      simp only [Option.some.injEq] at hf; subst hf
      refine upd r rc _ hg ?_ _
      -- with a current key the additions are inside; without one there are no additions
      cases hc : rc.keys.current with
      | some c =>
        refine noOver_applyUpd u (hP r rc hg) hc ?_
        intro p hp
        obtain ⟨rc0, c0, hg0, hc0, hsub⟩ := hev p hp
        rw [hg] at hg0; cases hg0
        rw [hc] at hc0; cases hc0
        exact hsub
      | none =>
        have hno := hP r rc hg
        unfold NoOver at hno ⊢
        simp only [hc] at hno ⊢
        intro k
        cases hgk : get (rc.certs.applyUpd u).issued k with
        | none => rfl
        | some x =>
          obtain ⟨_, _, hcase⟩ := applyUpd_issued_cases _ _ _ _ hgk
          rcases hcase with hm | ⟨_, hm | ⟨hg1, _⟩⟩
          · obtain ⟨rc0, c0, hg0, hc0, _⟩ := hev (k, x) (Or.inr hm)
            rw [hg] at hg0; cases hg0; rw [hc] at hc0; cases hc0
          · obtain ⟨rc0, c0, hg0, hc0, _⟩ := hev (k, x) (Or.inl hm)
            rw [hg] at hg0; cases hg0; rw [hc] at hc0; cases hc0
          · rw [hno k] at hg1; cases hg1
  | childKeyRevoked ch r k =>
    simp only [Ca.apply] at ha
    cases hw : s.withClass r (fun rc => some { rc with certs := rc.certs.removeRevoked k }) with
    | none => simp [hw] at ha
    | some s1 =>
      simp only [hw] at ha
      obtain ⟨c, _, rfl⟩ := Ca.withChild_some ha
      obtain ⟨rc, rc', hg, hf, rfl⟩ := Ca.withClass_some hw
      simp only [Option.some.injEq] at hf; subst hf
      exact upd r rc _ hg (noOver_removeRevoked k (hP r rc hg)) _
  | childAdded ch res => simp only [Ca.apply, Option.some.injEq] at ha; subst ha; exact hP
  | childCertIssued ch r k => simp only [Ca.apply] at ha; exact childOnly _ _ _ ha
  | childUpdatedResources ch res => simp only [Ca.apply] at ha; exact childOnly _ _ _ ha
  | childUpdatedId ch => simp only [Ca.apply] at ha; exact childOnly _ _ _ ha
  | childMapping ch n m => simp only [Ca.apply] at ha; exact childOnly _ _ _ ha
  | childRemoved ch => simp only [Ca.apply, Option.some.injEq] at ha; subst ha; exact hP
  | childSuspended ch => simp only [Ca.apply] at ha; exact childOnly _ _ _ ha
  | childUnsuspended ch => simp only [Ca.apply] at ha; exact childOnly _ _ _ ha
  | parentAdded p => simp only [Ca.apply, Option.some.injEq] at ha; subst ha; exact hP
  | parentRemoved p =>
    simp only [Ca.apply, Option.some.injEq] at ha; subst ha
    intro r2 rc2 hg2
    have hm := (List.mem_filter.mp (mem_of_get hg2)).1
    exact hP r2 rc2 (get_of_mem_nodup hnd hm)
  | repoUpdated => simp only [Ca.apply, Option.some.injEq] at ha; subst ha; exact hP
  | other => simp only [Ca.apply, Option.some.injEq] at ha; subst ha; exact hP

/-! ## Sequences -/

/-- A `ChildCertificatesUpdated` that only removes or suspends. -/
def Ev.addsNothing : Ev → Bool
  | .childCerts _ u => u.issued.isEmpty && u.unsuspended.isEmpty
  | _ => true

theorem nEv_of_addsNothing (s : Ca) {e : Ev} (h : e.addsNothing = true) : NEv s e := by
  cases e with
  | childCerts r u =>
    simp only [Ev.addsNothing, Bool.and_eq_true, List.isEmpty_iff] at h
    intro p hp
    rcases hp with hp | hp
    · rw [h.1] at hp; cases hp
    · rw [h.2] at hp; cases hp
  | _ => trivial

theorem noOver_applyAll_plain {s s' : Ca} {evs : List Ev} (hnd : (keys s.classes).Nodup)
    (h : ∀ e ∈ evs, e.noOverSafe = true ∧ e.addsNothing = true) (hP : AllCls NoOver s)
    (hs : s.applyAll evs = some s') : AllCls NoOver s' := by
  induction evs generalizing s with
  | nil => simp only [Ca.applyAll, Option.some.injEq] at hs; subst hs; exact hP
  | cons e es ih =>
    simp only [Ca.applyAll] at hs
    cases ha : s.apply e with
    | none => simp [ha] at hs
    | some s1 =>
      simp only [ha, Option.bind_some] at hs
      have he := h e (List.mem_cons_self ..)
      exact ih (apply_nodup hnd ha) (fun e' he' => h e' (List.mem_cons_of_mem _ he'))
        (noOver_step hnd he.1 hP (nEv_of_addsNothing s he.2) ha) hs

theorem nEv_env {s s1 : Ca} {e : Ev} (henv : Env s s1) (h : NEv s e) : NEv s1 e := by
  cases e with
  | childCerts r u =>
    intro p hp
    obtain ⟨rc, c, hg, hc, hsub⟩ := h p hp
    have := henv.keys r
    rw [hg] at this
    cases hg1 : get s1.classes r with
    | none => simp [hg1] at this
    | some rc1 =>
      simp only [hg1, Option.map_some, Option.some.injEq] at this
      exact ⟨rc1, c, rfl, by rw [this]; exact hc, hsub⟩
  | _ => trivial

theorem keysPres_noOverSafe {e : Ev} (h : e.keysPres = true) : e.noOverSafe = true := by
  cases e with
  | key r ke => cases ke <;> simp [Ev.keysPres] at h <;> rfl
  | _ => first | rfl | simp [Ev.keysPres] at h

/-- Key-preserving events whose additions are inside the current certificates of the initial
state (followed by at most one event that adds or removes a child). -/
theorem noOver_applyAll_keysPres {s : Ca} {evs last : List Ev} {s' : Ca}
    (hnd : (keys s.classes).Nodup)
    (h : ∀ e ∈ evs, e.keysPres = true ∧ NEv s e)
    (hl : ∀ e ∈ last, (∃ ch, e = .childRemoved ch) ∨ (∃ ch res, e = .childAdded ch res))
    (hP : AllCls NoOver s) (hs : s.applyAll (evs ++ last) = some s') : AllCls NoOver s' := by
  suffices H : ∀ s1, Env s s1 → (keys s1.classes).Nodup → AllCls NoOver s1 →
      s1.applyAll (evs ++ last) = some s' → AllCls NoOver s' from H s (Env.refl s) hnd hP hs
  clear hs
  induction evs with
  | nil =>
    intro s1 _ hnd1 hP1 hs1
    simp only [List.nil_append] at hs1
    refine noOver_applyAll_plain hnd1 ?_ hP1 hs1
    intro e he
    rcases hl e he with ⟨ch, rfl⟩ | ⟨ch, res, rfl⟩ <;> exact ⟨rfl, rfl⟩
  | cons e es ih =>
    intro s1 henv hnd1 hP1 hs1
    simp only [List.cons_append, Ca.applyAll] at hs1
    cases ha : s1.apply e with
    | none => simp [ha] at hs1
    | some s2 =>
      simp only [ha, Option.bind_some] at hs1
      have he := h e (List.mem_cons_self ..)
      exact ih (fun e' he' => h e' (List.mem_cons_of_mem _ he')) s2 (henv.trans (apply_env he.1 ha))
        (apply_nodup hnd1 ha)
        (noOver_step hnd1 (keysPres_noOverSafe he.1) hP1 (nEv_env henv he.2) ha) hs1

/-! ## Child commands -/

theorem certifyEvents_nEv {s : Ca} {ch : Handle} {res : ResSet} {r : Rcn} {k : KeyId} {l : Limit}
    {na : Int} {evs : List Ev} (h : s.childCertifyEvents ch res r k l na = .ok evs) :
    ∀ e ∈ evs, e.keysPres = true ∧ NEv s e := by
  unfold Ca.childCertifyEvents at h
  cases hg : get s.classes r with
  | none => simp [hg] at h
  | some rc =>
    simp only [hg] at h
    cases hi : issueCert rc.keys res l na with
    | error e => simp [hi] at h
    | ok cc =>
      simp only [hi, Except.ok.injEq] at h; subst h
      intro e he
      simp only [List.mem_cons, List.not_mem_nil, or_false] at he
      rcases he with rfl | rfl
      · exact ⟨rfl, trivial⟩
      · refine ⟨rfl, ?_⟩
        intro p hp
        simp only [List.mem_singleton, List.not_mem_nil, or_false] at hp
        subst hp
        unfold issueCert at hi
        cases hc : rc.keys.current with
        | none => simp [hc] at hi
        | some c =>
          simp only [hc] at hi
          exact ⟨rc, c, hg, hc, makeIssued_subset hi⟩

theorem unsuspendKeys_nEv {s : Ca} {ch : Handle} {c : Child} {r : Rcn} {rc : Rc} {now1d na : Int}
    {ks : List KeyId} {evs : List Ev} {rem : List KeyId}
    (h : unsuspendKeys s ch c r rc now1d na ks = .ok (evs, rem)) : ∀ e ∈ evs, e.keysPres = true ∧ NEv s e := by
  induction ks generalizing evs rem with
  | nil => simp only [unsuspendKeys, Except.ok.injEq, Prod.mk.injEq] at h; intro e he; rw [← h.1] at he; cases he
  | cons k ks ih =>
    simp only [unsuspendKeys] at h
    cases hs : get rc.certs.suspended k with
    | none => simp only [hs] at h; exact ih h
    | some sc =>
      simp only [hs] at h
      split at h
      · cases hce : s.childCertifyEvents ch sc.res r k sc.limit na with
        | error e => simp [hce] at h
        | ok evs1 =>
          simp only [hce] at h
          cases hrest : unsuspendKeys s ch c r rc now1d na ks with
          | error e => simp [hrest] at h
          | ok pr =>
            obtain ⟨es, rm⟩ := pr
            simp only [hrest, Except.ok.injEq, Prod.mk.injEq] at h
            intro e he
            rw [← h.1] at he
            rcases List.mem_append.mp he with he | he
            · exact certifyEvents_nEv hce e he
            · exact ih hrest e he
      · cases hrest : unsuspendKeys s ch c r rc now1d na ks with
        | error e => simp [hrest] at h
        | ok pr =>
          obtain ⟨es, rm⟩ := pr
          simp only [hrest, Except.ok.injEq, Prod.mk.injEq] at h
          intro e he
          rw [← h.1] at he
          exact ih hrest e he

theorem unsuspendClasses_nEv {s : Ca} {ch : Handle} {c : Child} {now1d na : Int}
    {l : List (Rcn × Rc)} {evs : List Ev}
    (h : unsuspendClasses s ch c now1d na l = .ok evs) : ∀ e ∈ evs, e.keysPres = true ∧ NEv s e := by
  induction l generalizing evs with
  | nil => simp only [unsuspendClasses, Except.ok.injEq] at h; subst h; intro e he; cases he
  | cons p ps ih =>
    simp only [unsuspendClasses] at h
    by_cases hk : (c.issuedKeys p.1).isEmpty = true
    · simp only [hk, if_true] at h; exact ih h
    · simp only [hk, Bool.false_eq_true, if_false] at h
      cases hkeys : unsuspendKeys s ch c p.1 p.2 now1d na (c.issuedKeys p.1) with
      | error e => simp [hkeys] at h
      | ok pr =>
        obtain ⟨evs1, rem⟩ := pr
        simp only [hkeys] at h
        cases hrest : unsuspendClasses s ch c now1d na ps with
        | error e => simp [hrest] at h
        | ok rest =>
          simp only [hrest, Except.ok.injEq] at h; subst h
          intro e he
          simp only [List.append_assoc, List.mem_append, List.mem_cons, List.not_mem_nil, or_false] at he
          rcases he with he | rfl | he
          · exact unsuspendKeys_nEv hkeys e he
          · exact ⟨rfl, nEv_of_addsNothing s rfl⟩
          · exact ih hrest e he

/-! ## All commands -/

theorem entEv_plain {r : Rcn} {e : Ev} (h : e.isEntEv r = true) : e.noOverSafe = true ∧ e.addsNothing = true := by
  cases e with
  | key r' ke => cases ke <;> simp [Ev.isEntEv] at h <;> exact ⟨rfl, rfl⟩
  | _ => simp [Ev.isEntEv] at h

theorem entitlementLoop_plain {s : Ca} {p : Handle} {now : Int} {ents : List Entitlement}
    {next : Nat} {fresh : List KeyId} {evs : List Ev}
    (h : entitlementLoop s p now ents next fresh = .ok evs) :
    ∀ e ∈ evs, e.noOverSafe = true ∧ e.addsNothing = true := by
  induction ents generalizing next fresh evs with
  | nil => simp only [entitlementLoop, Except.ok.injEq] at h; subst h; intro e he; cases he
  | cons ent ents ih =>
    simp only [entitlementLoop] at h
    cases hf : s.findParentRc p ent.rcn with
    | some q =>
      obtain ⟨rcn, rc⟩ := q
      simp only [hf] at h
      split at h
      · cases h
      · cases hrest : entitlementLoop s p now ents next fresh with
        | error e => simp [hrest] at h
        | ok rest =>
          simp only [hrest, Except.ok.injEq] at h; subst h
          intro e he
          rcases List.mem_append.mp he with he | he
          · exact entEv_plain (entitlementEvents_isEntEv rc.keys ent now rcn e he)
          · exact ih hrest e he
    | none =>
      simp only [hf] at h
      cases fresh with
      | nil => simp at h
      | cons k fresh' =>
        simp only at h
        split at h
        · cases h
        · cases hrest : entitlementLoop s p now ents (next + 1) fresh' with
          | error e => simp [hrest] at h
          | ok rest =>
            simp only [hrest, Except.ok.injEq] at h; subst h
            intro e he
            rcases List.mem_cons.mp he with rfl | he
            · exact ⟨rfl, rfl⟩
            · rcases List.mem_append.mp he with he | he
              · exact entEv_plain (entitlementEvents_isEntEv _ ent now next e he)
              · exact ih hrest e he

/-- A stored command keeps `NoOver` in every class. -/
theorem noOver_next {s : Sys} (hinv : Inv s) (hP : AllCls NoOver s.ca) (c : Cmd) :
    AllCls NoOver (s.next c).ca := by
  unfold Sys.next
  cases hex : s.exec c with
  | refused e => exact hP
  | panic => exact hP
  | listenerError e => exact hP
  | stored evs s' =>
    simp only
    obtain ⟨hp, hr⟩ := exec_stored_iff.mp hex
    obtain ⟨ca', o'⟩ := s'
    obtain ⟨hs, _⟩ := runEvs_some_iff.mp hr
    simp only
    have hnd := hinv.core.nodup
    have plain : (∀ e ∈ evs, e.noOverSafe = true ∧ e.addsNothing = true) → AllCls NoOver ca' :=
      fun h => noOver_applyAll_plain hnd h hP hs
    cases c with
    | childAdd ch res =>
      simp only [Ca.process] at hp
      split at hp
      · cases hp
      · split at hp
        · cases hp
        · split at hp
          · cases hp
          · simp only [Except.ok.injEq] at hp; subst hp
            exact plain (by intro e he; simp at he; subst he; exact ⟨rfl, rfl⟩)
    | childUpdateResources ch res =>
      simp only [Ca.process] at hp
      split at hp
      · cases hp
      · cases hg : get s.ca.children ch with
        | none => simp [hg] at hp
        | some cd =>
          simp only [hg] at hp
          split at hp
          · simp only [Except.ok.injEq] at hp; subst hp; exact plain (by intro e he; cases he)
          · simp only [Except.ok.injEq] at hp; subst hp
            exact plain (by intro e he; simp at he; subst he; exact ⟨rfl, rfl⟩)
    | childMapping ch n m =>
      simp only [Ca.process] at hp
      cases hg : get s.ca.children ch with
      | none => simp [hg] at hp
      | some cd =>
        simp only [hg] at hp
        split at hp
        · cases hp
        · split at hp
          · cases hp
          · simp only [Except.ok.injEq] at hp; subst hp
            exact plain (by intro e he; simp at he; subst he; exact ⟨rfl, rfl⟩)
    | childCertify ch childRcn ki limit na =>
      simp only [Ca.process] at hp
      cases hg : get s.ca.children ch with
      | none => simp [hg] at hp
      | some cd =>
        simp only [hg] at hp
        have := noOver_applyAll_keysPres (last := []) hnd (certifyEvents_nEv hp) (by intro e he; cases he) hP
          (by simpa using hs)
        exact this
    | childRevokeKey ch childRcn ki =>
      simp only [Ca.process] at hp
      cases hg : get s.ca.children ch with
      | none => simp [hg] at hp
      | some cd =>
        simp only [hg] at hp
        split at hp
        · simp only [Except.ok.injEq] at hp; subst hp; exact plain (by intro e he; cases he)
        · split at hp
          · split at hp
            · simp only [Except.ok.injEq] at hp; subst hp; exact plain (by intro e he; cases he)
            · cases hp
          · split at hp
            · cases hp
            simp only [Except.ok.injEq] at hp; subst hp
            exact plain (by
              intro e he
              simp only [List.mem_cons, List.not_mem_nil, or_false] at he
              rcases he with rfl | rfl <;> exact ⟨rfl, rfl⟩)
    | childRemove ch =>
      simp only [Ca.process] at hp
      cases hg : get s.ca.children ch with
      | none => simp [hg] at hp
      | some cd =>
        simp only [hg, Except.ok.injEq] at hp; subst hp
        refine plain ?_
        intro e he
        rcases List.mem_append.mp he with he | he
        · simp only [removeEventsFor, List.mem_filterMap] at he
          obtain ⟨p, _, hsome⟩ := he
          split at hsome
          · cases hsome
          · simp only [Option.some.injEq] at hsome; subst hsome; exact ⟨rfl, rfl⟩
        · simp at he; subst he; exact ⟨rfl, rfl⟩
    | childSuspend ch =>
      simp only [Ca.process] at hp
      cases hg : get s.ca.children ch with
      | none => simp [hg] at hp
      | some cd =>
        simp only [hg] at hp
        split at hp
        · simp only [Except.ok.injEq] at hp; subst hp; exact plain (by intro e he; cases he)
        · split at hp
          · simp only [Except.ok.injEq] at hp; subst hp; exact plain (by intro e he; cases he)
          · simp only [Except.ok.injEq] at hp; subst hp
            refine plain ?_
            intro e he
            rcases List.mem_append.mp he with he | he
            · simp only [suspendEventsFor, List.mem_filterMap] at he
              obtain ⟨p, _, hsome⟩ := he
              split at hsome
              · cases hsome
              · simp only [Option.some.injEq] at hsome; subst hsome; exact ⟨rfl, rfl⟩
            · simp at he; subst he; exact ⟨rfl, rfl⟩
    | childUnsuspend ch now1d na =>
      simp only [Ca.process] at hp
      cases hg : get s.ca.children ch with
      | none => simp [hg] at hp
      | some cd =>
        simp only [hg] at hp
        split at hp
        · simp only [Except.ok.injEq] at hp; subst hp; exact plain (by intro e he; cases he)
        · cases hcl : unsuspendClasses s.ca ch cd now1d na s.ca.classes with
          | error e => simp [hcl] at hp
          | ok evs1 =>
            simp only [hcl, Except.ok.injEq] at hp; subst hp
            have h1 : ∀ e ∈ evs1 ++ [Ev.childUnsuspended ch], e.keysPres = true ∧ NEv s.ca e := by
              intro e he
              rcases List.mem_append.mp he with he | he
              · exact unsuspendClasses_nEv hcl e he
              · simp at he; subst he; exact ⟨rfl, trivial⟩
            exact noOver_applyAll_keysPres (last := []) hnd h1 (by intro e he; cases he) hP (by simpa using hs)
    | addParent p =>
      simp only [Ca.process] at hp
      split at hp
      · cases hp
      · simp only [Except.ok.injEq] at hp; subst hp
        exact plain (by intro e he; simp at he; subst he; exact ⟨rfl, rfl⟩)
    | removeParent p =>
      simp only [Ca.process] at hp
      split at hp
      · cases hp
      · simp only [Except.ok.injEq] at hp; subst hp
        refine plain ?_
        intro e he
        rcases List.mem_append.mp he with he | he
        · obtain ⟨q, _, rfl⟩ := List.mem_map.mp he; exact ⟨rfl, rfl⟩
        · simp at he; subst he; exact ⟨rfl, rfl⟩
    | updateEntitlements p ents now fresh =>
      simp only [Ca.process] at hp
      cases hl : entitlementLoop s.ca p now ents s.ca.nextClass fresh with
      | error e => simp [hl] at hp
      | ok evs1 =>
        simp only [hl, Except.ok.injEq] at hp; subst hp
        refine plain ?_
        intro e he
        rcases List.mem_append.mp he with he | he
        · obtain ⟨q, _, rfl⟩ := List.mem_map.mp he; exact ⟨rfl, rfl⟩
        · exact entitlementLoop_plain hl e he
    | updateRcvdCert rcn ki cert na prods => exact noOver_updateRcvdCert hP hp hs
    | dropClass rcn =>
      simp only [Ca.process] at hp
      cases hg : get s.ca.classes rcn with
      | none => simp [hg] at hp
      | some rc =>
        simp only [hg, Except.ok.injEq] at hp; subst hp
        exact plain (by intro e he; simp at he; subst he; exact ⟨rfl, rfl⟩)
    | keyrollInit fresh =>
      simp only [Ca.process] at hp
      split at hp
      · simp only [Except.ok.injEq] at hp; subst hp; exact plain (by intro e he; cases he)
      · split at hp
        · cases hp
        · rw [keyrollInitLoop_eq] at hp
          exact forClasses_pres NoOver
            (fun r rc evs h => ⟨(initClass_ready fresh r rc evs h).1, initClass_noOver fresh r rc evs h⟩)
            hnd (classes_get_of_mem hnd) hP hp hs
    | keyrollActivate na =>
      simp only [Ca.process] at hp
      rw [activateLoop_eq] at hp
      exact forClasses_pres NoOver
        (fun r rc evs h => ⟨(activateClass_ready na r rc evs h).1, activateClass_noOver na r rc evs h⟩)
        hnd (classes_get_of_mem hnd) hP hp hs
    | keyrollFinish rcn =>
      simp only [Ca.process] at hp
      cases hg : get s.ca.classes rcn with
      | none => simp [hg] at hp
      | some rc =>
        simp only [hg] at hp
        cases hf : rc.keys.keyrollFinish with
        | error e => simp [hf] at hp
        | ok e =>
          simp only [hf, Except.ok.injEq] at hp; subst hp
          cases hk : rc.keys with
          | rollOld c o =>
            rw [hk] at hf; simp only [KeyState.keyrollFinish, Except.ok.injEq] at hf; subst hf
            refine allCls_chunk NoOver (r := rcn) (by intro e he; simp at he; subst he; simp [Ev.onClass]) hg hP ?_ hs
            intro rc' happ
            simp only [Rc.applyEvs, Rc.applyEv, hk, KeyState.apply, KeyState.applyFinished, Option.map_some,
              Option.bind_some, Option.some.injEq] at happ
            subst happ
            exact noOver_keys (hP rcn rc hg) (by simp [hk, KeyState.current, seteq_refl])
          | pending _ => rw [hk] at hf; simp [KeyState.keyrollFinish] at hf
          | active _ => rw [hk] at hf; simp [KeyState.keyrollFinish] at hf
          | rollPending _ _ => rw [hk] at hf; simp [KeyState.keyrollFinish] at hf
          | rollNew _ _ => rw [hk] at hf; simp [KeyState.keyrollFinish] at hf
    | repoUpdate fresh =>
      simp only [Ca.process] at hp
      split at hp
      · simp only [Except.ok.injEq] at hp; subst hp
        exact plain (by intro e he; simp at he; subst he; exact ⟨rfl, rfl⟩)
      · split at hp
        · cases hp
        · cases hl : keyrollInitLoop fresh s.ca.classes with
          | error e => simp [hl] at hp
          | ok evs1 =>
            simp only [hl, Except.ok.injEq] at hp; subst hp
            rw [applyAll_append] at hs
            cases hs1 : s.ca.applyAll evs1 with
            | none => simp [hs1] at hs
            | some s1 =>
              simp only [hs1, Option.bind_some, Ca.applyAll, Ca.apply, Option.some.injEq] at hs
              subst hs
              rw [keyrollInitLoop_eq] at hl
              have := forClasses_pres NoOver
                (fun r rc evs h => ⟨(initClass_ready fresh r rc evs h).1, initClass_noOver fresh r rc evs h⟩)
                hnd (classes_get_of_mem hnd) hP hl hs1
              exact this
    | config upds =>
      simp only [Ca.process, Except.ok.injEq] at hp; subst hp
      refine plain ?_
      intro e he
      obtain ⟨u, _, rfl⟩ := List.mem_map.mp he
      exact ⟨rfl, rfl⟩

theorem reachable_noOver {s : Sys} (h : Reachable s) : AllCls NoOver s.ca := by
  induction h with
  | init => intro r rc hg; simp at hg
  | step c hr ih => exact noOver_next (reachable_inv hr) ih c

end KM.CaK
