/-
Resource sets as krill sees them through rpki-rs (`rpki::repository::resources`), and the
"does the CA hold this" tests of the configuration checks.

A `ResourceSet` is three normalised block lists (AS numbers, IPv4, IPv6).  rpki-rs keeps IP
addresses of *both* families in one 128-bit space (`Addr(u128)`, an IPv4 address in the top
32 bits) and

    pub fn contains_roa_address(&self, roa_address: &RoaIpAddress) -> bool {
        self.ipv4.contains_roa(roa_address) || self.ipv6.contains_roa(roa_address)
    }

compares the prefix' range in that space with the blocks of both families (`holdsPinned`;
that was krill's test in the pinned tree, finding F-C05-2).  What the property means by
"holds" is `holdsSpec`: a block of the prefix' own family; since fix f600a28f krill tests
exactly that (`holdsCode`).
rpki-rs's block arithmetic (normalisation, union, difference) is not modelled; the harness
prints the normalised blocks.

Import-free so that the driver can be compiled as a `lean_exe`.
-/
import KrillModel.Bgp.Validate
namespace KM.Ca
open KM.Bgp

/-- Inclusive range. -/
abbrev Range := Nat × Nat

/-- A `ResourceSet` as rpki-rs keeps it: sorted, merged ranges per type. -/
structure ResSet where
  asn : List Range := []
  v4  : List Range := []
  v6  : List Range := []
deriving DecidableEq, Repr, Inhabited

def rangesContain (outer inner : List Range) : Bool :=
  inner.all (fun i => outer.any (fun o => decide (o.1 ≤ i.1) && decide (i.2 ≤ o.2)))

/-- `ResourceSet::is_empty` -/
def ResSet.isEmpty (r : ResSet) : Bool := r.asn.isEmpty && r.v4.isEmpty && r.v6.isEmpty

/-- `ResourceSet::contains` -/
def ResSet.contains (outer inner : ResSet) : Bool :=
  rangesContain outer.asn inner.asn && rangesContain outer.v4 inner.v4 &&
    rangesContain outer.v6 inner.v6

/-- `ResourceSet::contains_asn` -/
def ResSet.containsAsn (r : ResSet) (a : Nat) : Bool := rangesContain r.asn [(a, a)]

/-- `IpBlocks::contains_roa`: one block spans the whole range of the prefix. -/
def blocksContainRoa (blocks : List Range) (p : Prefix) : Bool :=
  blocks.any (fun b => decide (b.1 ≤ p.lo128) && decide (p.hi128 ≤ b.2))

/-- `RoaPayload::is_held_by` (api/roa.rs, after fix f600a28f): the blocks of the prefix' own
family.  This is the test of `Routes::process_updates`, `Routes::filter` and
`BgpAnalyser::analyse`. -/
def ResSet.holdsCode (r : ResSet) (roa : Roa) : Bool :=
  match roa.pfx.fam with
  | .v4 => blocksContainRoa r.v4 roa.pfx
  | .v6 => blocksContainRoa r.v6 roa.pfx

/-- COUNTER-MODEL – the test of the pinned tree (before fix f600a28f),
`ResourceSet::contains_roa_address` as rpki-rs writes it: either family's blocks. -/
def ResSet.holdsPinned (r : ResSet) (roa : Roa) : Bool :=
  blocksContainRoa r.v4 roa.pfx || blocksContainRoa r.v6 roa.pfx

/-- Holding a prefix: a block of the prefix' own family spans it. -/
def ResSet.holdsSpec (r : ResSet) (roa : Roa) : Bool :=
  match roa.pfx.fam with
  | .v4 => blocksContainRoa r.v4 roa.pfx
  | .v6 => blocksContainRoa r.v6 roa.pfx

end KM.Ca
