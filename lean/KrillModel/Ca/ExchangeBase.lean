/-
Helper lemmas for C02 (`exchange_converges`): the parent side of the exchange
(`Ca/Exchange.lean`).  What the parent answers to a certificate request, what stays the same at
the parent while it answers (`ParentSame`), what its `list` response contains (`Ca.offers`).
No property statements.
-/
import KrillModel.Ca.Exchange
import KrillModel.Ca.LemmasProgress
namespace KM.CaK
open KM.Res KM.AMap

/-! ## Generic list facts -/

theorem length_le_of_nodup_subset {α : Type} [DecidableEq α] :
    ∀ {l1 l2 : List α}, l1.Nodup → (∀ a ∈ l1, a ∈ l2) → l1.length ≤ l2.length := by
  intro l1
  induction l1 with
  | nil => intro l2 _ _; exact Nat.zero_le _
  | cons a t ih =>
    intro l2 hnd hsub
    have hnd' := List.nodup_cons.mp hnd
    have ha : a ∈ l2 := hsub a (List.mem_cons_self ..)
    have h1 : t.length ≤ (l2.erase a).length := by
      apply ih hnd'.2
      intro b hb
      have hne : b ≠ a := fun h => hnd'.1 (h ▸ hb)
      exact (List.mem_erase_of_ne hne).mpr (hsub b (List.mem_cons_of_mem _ hb))
    have h2 : (l2.erase a).length = l2.length - 1 := List.length_erase_of_mem ha
    have h3 : 0 < l2.length := List.length_pos_of_mem ha
    simp only [List.length_cons]
    omega

theorem length_eq_of_nodup_same {α : Type} [DecidableEq α] {l1 l2 : List α} (h1 : l1.Nodup) (h2 : l2.Nodup)
    (h : ∀ a, a ∈ l1 ↔ a ∈ l2) : l1.length = l2.length :=
  Nat.le_antisymm (length_le_of_nodup_subset h1 fun a ha => (h a).mp ha)
    (length_le_of_nodup_subset h2 fun a ha => (h a).mpr ha)

/-- A `filterMap` keeps pairwise different keys when the mapped values determine the key. -/
theorem nodup_filterMap_map {α β γ κ : Type} (key : α → κ) (f : α → Option β) (g : β → γ)
    (l : List α) (hnd : (l.map key).Nodup)
    (hinj : ∀ a ∈ l, ∀ b ∈ l, ∀ x y, f a = some x → f b = some y → g x = g y → key a = key b) :
    ((l.filterMap f).map g).Nodup := by
  induction l with
  | nil => exact List.nodup_nil
  | cons a t ih =>
    have hnd' := List.nodup_cons.mp (by simpa using hnd : (key a :: t.map key).Nodup)
    have iht := ih hnd'.2 (fun a' ha' b' hb' => hinj a' (List.mem_cons_of_mem _ ha') b' (List.mem_cons_of_mem _ hb'))
    simp only [List.filterMap_cons]
    cases hfa : f a with
    | none => exact iht
    | some x =>
      simp only [List.map_cons]
      refine List.nodup_cons.mpr ⟨?_, iht⟩
      intro hmem
      obtain ⟨y, hy, hgy⟩ := List.mem_map.mp hmem
      obtain ⟨b, hb, hfb⟩ := List.mem_filterMap.mp hy
      have := hinj a (List.mem_cons_self ..) b (List.mem_cons_of_mem _ hb) x y hfa hfb hgy.symm
      exact hnd'.1 (this ▸ List.mem_map.mpr ⟨b, hb, rfl⟩)

/-! ## What the parent answers -/

/-- The resources of the certificate the parent issues for a request naming the child-side
class `n` (`none`: the request is refused – unknown child, unknown class, class without a
current key). -/
def Ca.answer (p : Ca) (ch : Handle) (n : Rcn) : Option ResSet :=
  match get p.children ch with
  | none => none
  | some c =>
    match get p.classes (c.nameInParent n) with
    | none => none
    | some rc =>
      match rc.keys.current with
      | none => none
      | some k => some (inter k.cert.res c.res)

/-- The certificate on file for key `ki` in the parent's own class `q`. -/
def Ca.issuedIn (p : Ca) (q : Rcn) (ki : KeyId) : Option ChildCert :=
  match get p.classes q with
  | none => none
  | some rc => get rc.certs.issued ki

theorem issuedFor_eq (p : Ca) (ch : Handle) (n : Rcn) (ki : KeyId) :
    p.issuedFor ch n ki = match get p.children ch with
      | none => none
      | some c => p.issuedIn (c.nameInParent n) ki := by
  unfold Ca.issuedFor Ca.issuedIn
  cases get p.children ch <;> rfl

/-- What an answering parent keeps while it answers: the key state of every class, the
entitlement and the class-name mapping of the child. -/
structure ParentSame (p p' : Ca) (ch : Handle) : Prop where
  keys : ∀ q, (get p'.classes q).map (·.keys) = (get p.classes q).map (·.keys)
  child : (get p'.children ch).map (fun c => (c.res, c.rcnMap)) =
    (get p.children ch).map (fun c => (c.res, c.rcnMap))

theorem ParentSame.refl (p : Ca) (ch : Handle) : ParentSame p p ch := ⟨fun _ => rfl, rfl⟩

theorem ParentSame.trans {a b c : Ca} {ch : Handle} (h1 : ParentSame a b ch) (h2 : ParentSame b c ch) :
    ParentSame a c ch :=
  ⟨fun q => (h2.keys q).trans (h1.keys q), h2.child.trans h1.child⟩

theorem ParentSame.symm {a b : Ca} {ch : Handle} (h : ParentSame a b ch) : ParentSame b a ch :=
  ⟨fun q => (h.keys q).symm, h.child.symm⟩

theorem nameInParent_congr {c c' : Child} (h : c'.rcnMap = c.rcnMap) (n : Rcn) :
    c'.nameInParent n = c.nameInParent n := by
  simp only [Child.nameInParent, h]

theorem nameForChild_congr {c c' : Child} (h : c'.rcnMap = c.rcnMap) (n : Rcn) :
    c'.nameForChild n = c.nameForChild n := by
  simp only [Child.nameForChild, h]

/-- The child record as far as `ParentSame` fixes it. -/
theorem ParentSame.child_cases {p p' : Ca} {ch : Handle} (h : ParentSame p p' ch) :
    (get p.children ch = none ∧ get p'.children ch = none) ∨
    ∃ c c', get p.children ch = some c ∧ get p'.children ch = some c' ∧ c'.res = c.res ∧ c'.rcnMap = c.rcnMap := by
  have := h.child
  cases h1 : get p.children ch with
  | none =>
    cases h2 : get p'.children ch with
    | none => exact Or.inl ⟨rfl, rfl⟩
    | some c' => rw [h1, h2] at this; cases this
  | some c =>
    cases h2 : get p'.children ch with
    | none => rw [h1, h2] at this; cases this
    | some c' =>
      rw [h1, h2] at this
      simp only [Option.map_some, Option.some.injEq, Prod.mk.injEq] at this
      exact Or.inr ⟨c, c', rfl, rfl, this.1, this.2⟩

theorem ParentSame.current {p p' : Ca} {ch : Handle} (h : ParentSame p p' ch) (q : Rcn) :
    (get p'.classes q).map (·.keys.current) = (get p.classes q).map (·.keys.current) := by
  have := h.keys q
  cases h1 : get p.classes q with
  | none =>
    cases h2 : get p'.classes q with
    | none => rfl
    | some rc' => rw [h1, h2] at this; cases this
  | some rc =>
    cases h2 : get p'.classes q with
    | none => rw [h1, h2] at this; cases this
    | some rc' =>
      rw [h1, h2] at this
      simp only [Option.map_some, Option.some.injEq] at this
      simp [this]

theorem ParentSame.answer {p p' : Ca} {ch : Handle} (h : ParentSame p p' ch) (n : Rcn) :
    p'.answer ch n = p.answer ch n := by
  unfold Ca.answer
  rcases h.child_cases with ⟨h1, h2⟩ | ⟨c, c', h1, h2, hres, hmap⟩
  · rw [h1, h2]
  · rw [h1, h2]
    simp only [nameInParent_congr hmap, hres]
    have := h.current (c.nameInParent n)
    cases h3 : get p.classes (c.nameInParent n) with
    | none =>
      cases h4 : get p'.classes (c.nameInParent n) with
      | none => rfl
      | some rc' => rw [h3, h4] at this; cases this
    | some rc =>
      cases h4 : get p'.classes (c.nameInParent n) with
      | none => rw [h3, h4] at this; cases this
      | some rc' =>
        rw [h3, h4] at this
        simp only [Option.map_some, Option.some.injEq] at this
        simp only [this]

/-! ## The `list` response -/

/-- The parent lists a class under the child-side name `n` with resources `R`. -/
def Ca.offers (p : Ca) (ch : Handle) (n : Rcn) (R : ResSet) : Prop :=
  ∃ c q rc k, get p.children ch = some c ∧ get p.classes q = some rc ∧ rc.keys.current = some k ∧
    isEmpty (inter k.cert.res c.res) = false ∧ n = c.nameForChild q ∧ R = inter k.cert.res c.res

theorem ParentSame.offers {p p' : Ca} {ch : Handle} (h : ParentSame p p' ch) {n : Rcn} {R : ResSet}
    (ho : p.offers ch n R) : p'.offers ch n R := by
  obtain ⟨c, q, rc, k, hc, hq, hk, hne, hn, hR⟩ := ho
  rcases h.child_cases with ⟨h1, _⟩ | ⟨c0, c', h1, h2, hres, hmap⟩
  · rw [h1] at hc; cases hc
  · rw [h1] at hc; cases hc
    have := h.current q
    rw [hq] at this
    cases h4 : get p'.classes q with
    | none => rw [h4] at this; cases this
    | some rc' =>
      rw [h4] at this
      simp only [Option.map_some, Option.some.injEq] at this
      exact ⟨c', q, rc', k, h2, h4, this.trans hk, by rw [hres]; exact hne,
        by rw [nameForChild_congr hmap]; exact hn, by rw [hres]; exact hR⟩

theorem mem_entitlementsFor {p : Ca} {ch : Handle} {na : Int} {ent : Entitlement}
    (hnd : (keys p.classes).Nodup) (h : ent ∈ p.entitlementsFor ch na) :
    p.offers ch ent.rcn ent.res ∧ ent.na = na := by
  unfold Ca.entitlementsFor at h
  cases hc : get p.children ch with
  | none => rw [hc] at h; cases h
  | some c =>
    rw [hc] at h
    simp only [List.mem_filterMap] at h
    obtain ⟨q, hq, hf⟩ := h
    cases hk : q.2.keys.current with
    | none => rw [hk] at hf; cases hf
    | some k =>
      rw [hk] at hf
      simp only at hf
      split at hf
      · cases hf
      · rename_i hne
        simp only [Option.some.injEq] at hf
        subst hf
        refine ⟨⟨c, q.1, q.2, k, hc, get_of_mem_nodup hnd hq, hk, by simpa using hne, rfl, rfl⟩, rfl⟩

theorem entitlementsFor_of_offers {p : Ca} {ch : Handle} {n : Rcn} {R : ResSet} (na : Int)
    (h : p.offers ch n R) : ∃ ent ∈ p.entitlementsFor ch na, ent.rcn = n ∧ ent.res = R ∧ ent.na = na := by
  obtain ⟨c, q, rc, k, hc, hq, hk, hne, hn, hR⟩ := h
  unfold Ca.entitlementsFor
  rw [hc]
  refine ⟨{ rcn := c.nameForChild q, res := inter k.cert.res c.res, na := na,
            issued := (c.issuedKeys q).filter fun ki => (get rc.certs.issued ki).isSome }, ?_, hn.symm, hR.symm, rfl⟩
  simp only [List.mem_filterMap]
  refine ⟨(q, rc), mem_of_get hq, ?_⟩
  simp only [hk, hne, Bool.false_eq_true, if_false]

/-- The class names of the parent translate back (`parent_name_for_rcn ∘ name_for_parent_rcn` is
the identity on the parent's classes): what makes requests reach the class that was listed. -/
def Ca.namesOk (p : Ca) (ch : Handle) : Bool :=
  match get p.children ch with
  | none => true
  | some c => (keys p.classes).all fun q => c.nameInParent (c.nameForChild q) = q

theorem ParentSame.namesOk {p p' : Ca} {ch : Handle} (h : ParentSame p p' ch)
    (hn : p.namesOk ch = true) : p'.namesOk ch = true := by
  unfold Ca.namesOk at hn ⊢
  rcases h.child_cases with ⟨h1, h2⟩ | ⟨c, c', h1, h2, hres, hmap⟩
  · rw [h2]
  · rw [h2]; rw [h1] at hn
    simp only [List.all_eq_true, decide_eq_true_eq] at hn ⊢
    intro q hq
    rw [nameForChild_congr hmap, nameInParent_congr hmap]
    apply hn
    have h3 := get_isSome_iff_mem_keys.mpr hq
    apply get_isSome_iff_mem_keys.mp
    have := h.keys q
    cases h4 : get p.classes q with
    | none =>
      rw [h4] at this
      cases h5 : get p'.classes q with
      | none => rw [h5] at h3; cases h3
      | some _ => rw [h5] at this; cases this
    | some _ => rfl

/-- A listed class is answered with the listed resources. -/
theorem offers_answer {p : Ca} {ch : Handle} {n : Rcn} {R : ResSet} (hn : p.namesOk ch = true)
    (h : p.offers ch n R) : p.answer ch n = some R := by
  obtain ⟨c, q, rc, k, hc, hq, hk, _, hnm, hR⟩ := h
  unfold Ca.namesOk at hn
  rw [hc] at hn
  simp only [List.all_eq_true, decide_eq_true_eq] at hn
  have := hn q (mem_keys_of_get hq)
  unfold Ca.answer
  rw [hc]
  simp only [hnm, this, hq, hk, hR]

theorem offers_unique {p : Ca} {ch : Handle} {n : Rcn} {R R' : ResSet} (hn : p.namesOk ch = true)
    (h : p.offers ch n R) (h' : p.offers ch n R') : R = R' := by
  have h1 := offers_answer hn h
  have h2 := offers_answer hn h'
  rw [h1] at h2
  exact Option.some.inj h2

/-- The names in the `list` response are pairwise different. -/
theorem entitlementsFor_nodup {p : Ca} {ch : Handle} (na : Int) (hnd : (keys p.classes).Nodup)
    (hn : p.namesOk ch = true) : ((p.entitlementsFor ch na).map (·.rcn)).Nodup := by
  unfold Ca.entitlementsFor
  cases hc : get p.children ch with
  | none => exact List.nodup_nil
  | some c =>
    simp only
    unfold Ca.namesOk at hn
    rw [hc] at hn
    simp only [List.all_eq_true, decide_eq_true_eq] at hn
    apply nodup_filterMap_map (key := fun q : Rcn × Rc => q.1) (hnd := hnd)
    intro a ha b hb x y hfa hfb hxy
    have hxa : x.rcn = c.nameForChild a.1 := by
      cases hk : a.2.keys.current with
      | none => rw [hk] at hfa; cases hfa
      | some k =>
        rw [hk] at hfa; simp only at hfa
        split at hfa
        · cases hfa
        · simp only [Option.some.injEq] at hfa; subst hfa; rfl
    have hyb : y.rcn = c.nameForChild b.1 := by
      cases hk : b.2.keys.current with
      | none => rw [hk] at hfb; cases hfb
      | some k =>
        rw [hk] at hfb; simp only at hfb
        split at hfb
        · cases hfb
        · simp only [Option.some.injEq] at hfb; subst hfb; rfl
    have h1 := hn a.1 (List.mem_map.mpr ⟨a, ha, rfl⟩)
    have h2 := hn b.1 (List.mem_map.mpr ⟨b, hb, rfl⟩)
    rw [← hxa] at h1
    rw [← hyb] at h2
    rw [← h1, ← h2, hxy]

/-! ## A certificate request at the parent -/

theorem process_certify_of_answer {p : Ca} {ch : Handle} {n : Rcn} {R : ResSet} (ki : KeyId) (na : Int)
    (h : p.answer ch n = some R) :
    ∃ c rc, get p.children ch = some c ∧ get p.classes (c.nameInParent n) = some rc ∧
      p.process (.childCertify ch n ki none na) =
        .ok [.childCertIssued ch (c.nameInParent n) ki,
             .childCerts (c.nameInParent n) { issued := [(ki, { res := R, limit := none, na := na })] }] := by
  unfold Ca.answer at h
  cases hc : get p.children ch with
  | none => rw [hc] at h; cases h
  | some c =>
    rw [hc] at h; simp only at h
    cases hq : get p.classes (c.nameInParent n) with
    | none => rw [hq] at h; cases h
    | some rc =>
      rw [hq] at h; simp only at h
      cases hk : rc.keys.current with
      | none => rw [hk] at h; cases h
      | some k =>
        rw [hk] at h
        simp only [Option.some.injEq] at h
        subst h
        refine ⟨c, rc, rfl, hq, ?_⟩
        simp [Ca.process, hc, Ca.childCertifyEvents, hq, issueCert, hk, makeIssued, applyLimit,
          inter_subset_left]

theorem process_certify_of_no_answer {p : Ca} {ch : Handle} {n : Rcn} (ki : KeyId) (na : Int)
    (h : p.answer ch n = none) : ∃ e, p.process (.childCertify ch n ki none na) = .error e := by
  unfold Ca.answer at h
  cases hc : get p.children ch with
  | none => exact ⟨.unknownChild, by simp [Ca.process, hc]⟩
  | some c =>
    rw [hc] at h; simp only at h
    cases hq : get p.classes (c.nameInParent n) with
    | none => exact ⟨.unknownClass, by simp [Ca.process, hc, Ca.childCertifyEvents, hq]⟩
    | some rc =>
      rw [hq] at h; simp only at h
      cases hk : rc.keys.current with
      | none => exact ⟨.issue .noCurrentKey, by simp [Ca.process, hc, Ca.childCertifyEvents, hq, issueCert, hk]⟩
      | some k => rw [hk] at h; cases h

/-- The certificate on file is the one an answer would carry now. -/
def Ca.bookedExact (p : Ca) (ch : Handle) (q : Rcn) (ki : KeyId) : Prop :=
  ∃ c rc k cc, get p.children ch = some c ∧ get p.classes q = some rc ∧ rc.keys.current = some k ∧
    get rc.certs.issued ki = some cc ∧ cc.res = inter k.cert.res c.res

/-- A stored certificate request: the parent is what it was for the exchange, the certificate
is on file, every other certificate on file is untouched. -/
theorem certify_stored {s : Sys} (hr : Reachable s) {ch : Handle} {n : Rcn} {R : ResSet} (ki : KeyId) (na : Int)
    (h : s.ca.answer ch n = some R) :
    ∃ evs s', s.exec (.childCertify ch n ki none na) = .stored evs s' ∧ Reachable s' ∧
      ParentSame s.ca s'.ca ch ∧
      s'.ca.issuedFor ch n ki = some { res := R, limit := none, na := na } ∧
      (∀ q k, s'.ca.issuedIn q k = s.ca.issuedIn q k ∨ s'.ca.bookedExact ch q k) ∧
      (∃ c c', get s.ca.children ch = some c ∧ get s'.ca.children ch = some c' ∧
        get c'.usedKeys ki = some (.inUse (c.nameInParent n)) ∧
        ∀ k, k ≠ ki → get c'.usedKeys k = get c.usedKeys k) := by
  obtain ⟨c, rc, hc, hq, hp⟩ := process_certify_of_answer ki na h
  obtain ⟨s', hex, happ, hr'⟩ := stored_of_process hr (c := _) (by exact trivial) hp
  refine ⟨_, s', hex, hr', ?_⟩
  -- the state after the two events
  have hc' : get (set s.ca.children ch { c with usedKeys := set c.usedKeys ki (.inUse (c.nameInParent n)) }) ch =
      some { c with usedKeys := set c.usedKeys ki (.inUse (c.nameInParent n)) } := get_set_self _ _ _
  simp only [Ca.applyAll, Ca.apply, Ca.withChild, hc, Ca.withClass, hq, Option.bind_some, List.foldl_nil,
    Option.some.injEq] at happ
  have hcls : ∀ q, get s'.ca.classes q = if c.nameInParent n = q then
      some { rc with certs := rc.certs.applyUpd { issued := [(ki, { res := R, limit := none, na := na })] } }
      else get s.ca.classes q := by
    intro q; rw [← happ]; simp only [get_set]
  have hchild : get s'.ca.children ch =
      some { c with usedKeys := set c.usedKeys ki (.inUse (c.nameInParent n)) } := by
    rw [← happ]; exact hc'
  have hissued : (rc.certs.applyUpd { issued := [(ki, { res := R, limit := none, na := na })] }).issued =
      set rc.certs.issued ki { res := R, limit := none, na := na } := by
    simp [ChildCerts.applyUpd, ChildCerts.addIssued]
  -- what the answer says about the class
  have hans := h
  unfold Ca.answer at hans
  rw [hc] at hans; simp only [hq] at hans
  cases hk : rc.keys.current with
  | none => rw [hk] at hans; cases hans
  | some k =>
    rw [hk] at hans; simp only [Option.some.injEq] at hans
    refine ⟨⟨?_, ?_⟩, ?_, ?_, ⟨c, _, hc, hchild, get_set_self _ _ _,
      fun k hk => get_set_ne _ _ (fun h => hk h.symm)⟩⟩
    · intro q
      rw [hcls q]
      split
      · rename_i heq; subst heq; rw [hq]; rfl
      · rfl
    · rw [hchild, hc]; rfl
    · rw [issuedFor_eq, hchild]
      simp only [Ca.issuedIn]
      have : ({ c with usedKeys := set c.usedKeys ki (.inUse (c.nameInParent n)) } : Child).nameInParent n =
          c.nameInParent n := nameInParent_congr rfl n
      rw [this, hcls]
      simp only [if_true, hissued, get_set_self]
    · intro q k0
      by_cases hqq : c.nameInParent n = q
      · by_cases hkk : ki = k0
        · subst hqq; subst hkk
          right
          refine ⟨_, { rc with certs := rc.certs.applyUpd { issued := [(ki, { res := R, limit := none, na := na })] } },
            k, { res := R, limit := none, na := na }, hchild, ?_, hk, ?_, hans.symm⟩
          · rw [hcls]; simp only [if_true]
          · simp only [hissued, get_set_self]
        · left
          simp only [Ca.issuedIn, hcls, hqq, if_true]
          subst hqq
          rw [hq]
          simp only [hissued]
          exact get_set_ne _ _ hkk
      · left
        simp only [Ca.issuedIn, hcls, hqq, if_false]

/-- A refused certificate request leaves the parent as it was. -/
theorem certify_refused {s : Sys} {ch : Handle} {n : Rcn} (ki : KeyId) (na : Int)
    (h : s.ca.answer ch n = none) : ∃ e, s.exec (.childCertify ch n ki none na) = .refused e := by
  obtain ⟨e, he⟩ := process_certify_of_no_answer ki na h
  exact ⟨e, by simp only [Sys.exec, he]⟩

/-- An exact certificate on file is the answer to the request that names its class. -/
theorem bookedExact_issuedFor {p : Ca} {ch : Handle} {n : Rcn} {ki : KeyId} {R : ResSet} {c : Child}
    (hc : get p.children ch = some c) (hb : p.bookedExact ch (c.nameInParent n) ki)
    (ha : p.answer ch n = some R) : ∃ cc, p.issuedFor ch n ki = some cc ∧ cc.res = R := by
  obtain ⟨c0, rc, k, cc, hc0, hq, hk, hi, hres⟩ := hb
  rw [hc] at hc0; cases hc0
  refine ⟨cc, ?_, ?_⟩
  · rw [issuedFor_eq, hc]; simp only [Ca.issuedIn, hq, hi]
  · unfold Ca.answer at ha
    rw [hc] at ha; simp only [hq, hk, Option.some.injEq] at ha
    rw [hres, ha]

/-- `ParentSame` keeps an exact certificate exact as long as it stays on file. -/
theorem ParentSame.bookedExact {p p' : Ca} {ch : Handle} (h : ParentSame p p' ch) {q : Rcn} {ki : KeyId}
    (hb : p.bookedExact ch q ki) (hi : p'.issuedIn q ki = p.issuedIn q ki) : p'.bookedExact ch q ki := by
  obtain ⟨c, rc, k, cc, hc, hq, hk, hg, hres⟩ := hb
  rcases h.child_cases with ⟨h1, _⟩ | ⟨c0, c', h1, h2, hr, hm⟩
  · rw [h1] at hc; cases hc
  · rw [h1] at hc; cases hc
    have hcur := h.current q
    rw [hq] at hcur
    cases h4 : get p'.classes q with
    | none => rw [h4] at hcur; cases hcur
    | some rc' =>
      rw [h4] at hcur
      simp only [Option.map_some, Option.some.injEq] at hcur
      simp only [Ca.issuedIn, h4, hq] at hi
      exact ⟨c', rc', k, cc, h2, h4, hcur.trans hk, hi.trans hg, by rw [hr]; exact hres⟩

/-! ## An accepted class-name mapping keeps the names distinct (fix 02d8de59) -/

theorem find?_filter_of_found {l : List (Rcn × Rcn)} {v n : Rcn} {p : Rcn × Rcn}
    (h : l.find? (fun e => decide (e.2 = v)) = some p) (hp : p.1 ≠ n) :
    (l.filter (fun e => decide (e.1 ≠ n))).find? (fun e => decide (e.2 = v)) = some p := by
  induction l with
  | nil => cases h
  | cons a t ih =>
    simp only [List.find?_cons] at h
    by_cases hav : a.2 = v
    · simp only [hav, decide_true] at h
      cases h
      simp [hp, hav]
    · simp only [hav, decide_false] at h
      by_cases han : a.1 ≠ n
      · simp only [List.filter_cons, han, ne_eq, not_false_eq_true, decide_true, if_true, List.find?_cons, hav,
          decide_false]
        exact ih h
      · simp only [List.filter_cons, han, decide_false, Bool.false_eq_true, if_false]
        exact ih h

theorem find?_filter_of_none {l : List (Rcn × Rcn)} {v n : Rcn}
    (h : l.find? (fun e => decide (e.2 = v)) = none) :
    (l.filter (fun e => decide (e.1 ≠ n))).find? (fun e => decide (e.2 = v)) = none := by
  rw [List.find?_eq_none] at h ⊢
  intro x hx
  exact h x (List.mem_filter.mp hx).1

/-- `ChildUpdateResourceClassNameMapping`, when accepted, keeps `namesOk` for the child. -/
theorem mapping_keeps_namesOk {s s' : Sys} {ch : Handle} {n m : Rcn} {evs : List Ev}
    (hok : s.ca.namesOk ch = true) (hex : s.exec (.childMapping ch n m) = .stored evs s') :
    s'.ca.namesOk ch = true := by
  obtain ⟨hp, hr⟩ := exec_stored_iff.mp hex
  obtain ⟨ca', o'⟩ := s'
  have ha := (runEvs_some_iff.mp hr).1
  simp only [Ca.process] at hp
  cases hc : get s.ca.children ch with
  | none => rw [hc] at hp; cases hp
  | some c =>
    rw [hc] at hp
    simp only at hp
    split at hp
    · cases hp
    · split at hp
      · cases hp
      · rename_i _ htaken
        simp only [Except.ok.injEq] at hp; subst hp
        simp only [Ca.applyAll, Ca.apply, Ca.withChild, hc, Option.bind_some, Option.some.injEq] at ha
        subst ha
        unfold Ca.namesOk at hok ⊢
        rw [hc] at hok
        simp only [get_set_self, List.all_eq_true, decide_eq_true_eq] at hok ⊢
        intro q hq
        have hnt : ∀ q', q' ∈ keys s.ca.classes → q' ≠ n → c.nameForChild q' ≠ m := by
          intro q' hq' hne hm
          apply htaken
          unfold Ca.nameTaken
          rw [List.any_eq_true]
          exact ⟨q', List.mem_filter.mpr ⟨List.mem_append.mpr (Or.inl hq'), by simpa using hne⟩, by simpa using hm⟩
        by_cases hqn : q = n
        · subst hqn
          have h1 : ({ c with rcnMap := set c.rcnMap q m } : Child).nameForChild q = m := by
            simp only [Child.nameForChild, get_set_self, Option.getD_some]
          rw [h1]
          simp only [Child.nameInParent, AMap.set, List.find?_cons, decide_true]
        · have hfc : ({ c with rcnMap := set c.rcnMap n m } : Child).nameForChild q = c.nameForChild q := by
            simp only [Child.nameForChild]
            rw [get_set_ne _ _ (fun h => hqn h.symm)]
          rw [hfc]
          have hvm : c.nameForChild q ≠ m := hnt q hq hqn
          have hold := hok q hq
          simp only [Child.nameInParent] at hold ⊢
          simp only [AMap.set, List.find?_cons]
          have hhead : decide (m = c.nameForChild q) = false := by simpa using fun h => hvm h.symm
          simp only [hhead]
          cases hf : c.rcnMap.find? (fun p => decide (p.2 = c.nameForChild q)) with
          | none =>
            rw [hf] at hold
            simp only [AMap.del]
            rw [find?_filter_of_none hf]
            exact hold
          | some p =>
            rw [hf] at hold
            simp only at hold
            simp only [AMap.del]
            rw [find?_filter_of_found hf (by rw [hold]; exact hqn)]
            exact hold

end KM.CaK
