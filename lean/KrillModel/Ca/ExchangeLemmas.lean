/-
Helper lemmas for C02 (`exchange_converges`): one `Pair.sync` (`Ca/Exchange.lean`) on a pair of
reachable aggregates, in its two branches – requests sent and answered, entitlements fetched –
described class by class.  No property statements.
-/
import KrillModel.Ca.ExchangeChild
import KrillModel.Ca.LemmasKeySync
namespace KM.CaK
open KM.Res KM.AMap

/-- What every step of the exchange keeps on both sides. -/
structure PairInv (x : Pair) : Prop where
  rp : Reachable x.parent
  rc : Reachable x.child
  repo : x.child.ca.hasRepo = true
  nolim : NoLimits x.child.ca

/-- Certificates on file at the parent after some answers: untouched or exact. -/
def BookRel (p p' : Ca) (ch : Handle) : Prop :=
  ∀ q k, p'.issuedIn q k = p.issuedIn q k ∨ p'.bookedExact ch q k

theorem BookRel.refl (p : Ca) (ch : Handle) : BookRel p p ch := fun _ _ => Or.inl rfl

theorem BookRel.trans {a b c : Ca} {ch : Handle} (h1 : BookRel a b ch) (h2 : BookRel b c ch)
    (hs : ParentSame b c ch) : BookRel a c ch := by
  intro q k
  rcases h2 q k with h | h
  · rcases h1 q k with h' | h'
    · exact Or.inl (h.trans h')
    · exact Or.inr (hs.bookedExact h' h)
  · exact Or.inr h

theorem BookRel.exact {a b : Ca} {ch : Handle} (h : BookRel a b ch) (hs : ParentSame a b ch) {q : Rcn} {k : KeyId}
    (he : a.bookedExact ch q k) : b.bookedExact ch q k := by
  rcases h q k with h' | h'
  · exact hs.bookedExact he h'
  · exact h'

theorem bookedExact_of_issuedFor {p : Ca} {ch : Handle} {n : Rcn} {ki : KeyId} {R : ResSet} {cc : ChildCert}
    (ha : p.answer ch n = some R) (hi : p.issuedFor ch n ki = some cc) (hres : cc.res = R) :
    ∃ c, get p.children ch = some c ∧ p.bookedExact ch (c.nameInParent n) ki := by
  unfold Ca.answer at ha
  rw [issuedFor_eq] at hi
  cases hc : get p.children ch with
  | none => rw [hc] at ha; cases ha
  | some c =>
    rw [hc] at ha hi; simp only at ha hi
    cases hq : get p.classes (c.nameInParent n) with
    | none => rw [hq] at ha; cases ha
    | some rc =>
      rw [hq] at ha; simp only at ha
      cases hk : rc.keys.current with
      | none => rw [hk] at ha; cases ha
      | some k =>
        rw [hk] at ha; simp only [Option.some.injEq] at ha
        simp only [Ca.issuedIn, hq] at hi
        exact ⟨c, rfl, c, rc, k, cc, hc, hq, hk, hi, hres.trans ha.symm⟩

/-! ## One certificate request with its response -/

/-- One step of the request branch on class `r`: what it keeps. -/
structure ReqStep (y y' : Pair) (r : Rcn) : Prop where
  ch : y'.ch = y.ch
  ph : y'.ph = y.ph
  inv : PairInv y'
  same : ParentSame y.parent.ca y'.parent.ca y.ch
  frame : ∀ r2, r2 ≠ r → get y'.child.ca.classes r2 = get y.child.ca.classes r2
  book : BookRel y.parent.ca y'.parent.ca y.ch

theorem ReqStep.refl {y : Pair} (h : PairInv y) (r : Rcn) : ReqStep y y r :=
  ⟨rfl, rfl, h, ParentSame.refl _ _, fun _ _ => rfl, BookRel.refl _ _⟩

/-- The certificate an answer carries, as the child stores it. -/
def answerCert (R : ResSet) (na : Int) : Cert := { res := R, na := na }

theorem certRequest_spec {y : Pair} (hinv : PairInv y) {r : Rcn} {rc : Rc} {ki : KeyId}
    (hg : get y.child.ca.classes r = some rc)
    (hk : (∃ b, rc.keys = .pending ⟨ki, b⟩) ∨ (∃ c, rc.keys = .active c ∧ c.id = ki)) (na : Int) :
    ReqStep y (y.certRequest r rc.parentRcn ki na) r ∧
    (y.parent.ca.answer y.ch rc.parentRcn = none → y.certRequest r rc.parentRcn ki na = y) ∧
    (∀ R, y.parent.ca.answer y.ch rc.parentRcn = some R →
      ∃ rc', get (y.certRequest r rc.parentRcn ki na).child.ca.classes r = some rc' ∧
        rc'.parent = rc.parent ∧ rc'.parentRcn = rc.parentRcn ∧
        rc'.keys = .active ⟨ki, answerCert R na, false⟩ ∧
        ∃ c, get (y.certRequest r rc.parentRcn ki na).parent.ca.children y.ch = some c ∧
          (y.certRequest r rc.parentRcn ki na).parent.ca.bookedExact y.ch (c.nameInParent rc.parentRcn) ki) := by
  cases ha : y.parent.ca.answer y.ch rc.parentRcn with
  | none =>
    obtain ⟨e, hex⟩ := certify_refused (s := y.parent) ki na ha
    have hy : y.certRequest r rc.parentRcn ki na = y := by
      unfold Pair.certRequest; rw [hex]
    rw [hy]
    exact ⟨ReqStep.refl hinv r, fun _ => rfl, fun R hR => (nomatch hR)⟩
  | some R =>
    obtain ⟨evs, p', hex, hr', hsame, hiss, hbook, _⟩ := certify_stored hinv.rp ki na ha
    obtain ⟨c0, c1, c2, c3, _, c5, rc', c6, c7, c8, c9⟩ := recv_spec hinv.rc hinv.nolim hg hk (answerCert R na) na
    have hy : y.certRequest r rc.parentRcn ki na =
        { y with parent := p', child := y.child.next (.updateRcvdCert r ki (answerCert R na) na []) } := by
      unfold Pair.certRequest; rw [hex]; simp only [hiss]; rw [← c0]; rfl
    rw [hy]
    refine ⟨⟨rfl, rfl, ⟨hr', c1, c3.trans hinv.repo, c2⟩, hsame, c5, hbook⟩, fun h => (nomatch h), ?_⟩
    intro R' hR'
    cases hR'
    refine ⟨rc', c6, c7, c8, c9, ?_⟩
    exact bookedExact_of_issuedFor ((hsame.answer _).trans ha) hiss rfl

/-! ## The requests of one class (no key roll in progress) -/

/-- The class as it is after its open requests were sent, relative to the pair `x` in which the
answers are computed: untouched without an open request (or under another parent), dropped when
the parent refuses, else `active` with the answer's certificate, which is then on file. -/
structure Answered (x y : Pair) (na : Int) (r : Rcn) : Prop where
  absent : get x.child.ca.classes r = none → get y.child.ca.classes r = none
  quiet : ∀ rc, get x.child.ca.classes r = some rc → ¬ (rc.parent = x.ph ∧ rc.keys.hasPending = true) →
    get y.child.ca.classes r = some rc
  refused : ∀ rc, get x.child.ca.classes r = some rc → rc.parent = x.ph → rc.keys.hasPending = true →
    x.parent.ca.answer x.ch rc.parentRcn = none → get y.child.ca.classes r = none
  answered : ∀ rc R, get x.child.ca.classes r = some rc → rc.parent = x.ph → rc.keys.hasPending = true →
    x.parent.ca.answer x.ch rc.parentRcn = some R →
    ∃ rc' ki, get y.child.ca.classes r = some rc' ∧ rc'.parent = rc.parent ∧ rc'.parentRcn = rc.parentRcn ∧
      rc'.keys = .active ⟨ki, answerCert R na, false⟩ ∧
      ∃ c, get y.parent.ca.children x.ch = some c ∧ y.parent.ca.bookedExact x.ch (c.nameInParent rc.parentRcn) ki

/-- A later step on another class keeps `Answered`. -/
theorem Answered.step {x y y' : Pair} {na : Int} {r r' : Rcn} (h : Answered x y na r) (hch : y.ch = x.ch)
    (hst : ReqStep y y' r') (hne : r ≠ r') : Answered x y' na r := by
  have hfr := hst.frame r hne
  refine ⟨fun h0 => (by rw [hfr]; exact h.absent h0), fun rc h0 h1 => (by rw [hfr]; exact h.quiet rc h0 h1),
    fun rc h0 h1 h2 h3 => (by rw [hfr]; exact h.refused rc h0 h1 h2 h3), ?_⟩
  intro rc R h0 h1 h2 h3
  obtain ⟨rc', ki, a1, a2, a3, a4, c, a5, a6⟩ := h.answered rc R h0 h1 h2 h3
  have hsame := hst.same
  rw [hch] at hsame
  rcases hsame.child_cases with ⟨e1, _⟩ | ⟨c0, c', e1, e2, _, e4⟩
  · rw [e1] at a5; cases a5
  · rw [e1] at a5; cases a5
    refine ⟨rc', ki, (by rw [hfr]; exact a1), a2, a3, a4, c', e2, ?_⟩
    rw [nameInParent_congr e4]
    have hb := hst.book
    rw [hch] at hb
    exact hb.exact hsame a6

/-- The key state is `pending` or `active`. -/
def KeyState.plain : KeyState → Prop
  | .pending _ => True
  | .active _ => True
  | _ => False

theorem plain_of_not_rolling {ks : KeyState} (h : ks.rolling = false) : ks.plain := by
  cases ks <;> simp_all [KeyState.rolling, KeyState.plain]

/-- Every class of the child under the parent that has a certificate request open is one the
parent answers.  A krill parent refuses a request it cannot answer with an error and the child
keeps it (`Pair.certRequest`): without this the request branch never ends
(`C02.sync_stuck_with_request_for_lost_class`). -/
def Answerable (x : Pair) : Prop :=
  ∀ r rc, get x.child.ca.classes r = some rc → rc.parent = x.ph → rc.keys.certRequests ≠ [] →
    ∃ R, x.parent.ca.answer x.ch rc.parentRcn = some R

/-- `Answerable` as a decidable test. -/
def Pair.pendingAnswerable (x : Pair) : Bool :=
  x.child.ca.classes.all fun q =>
    decide (q.2.parent ≠ x.ph) || q.2.keys.certRequests.isEmpty || (x.parent.ca.answer x.ch q.2.parentRcn).isSome

theorem answerable_of_bool {x : Pair} (h : x.pendingAnswerable = true) : Answerable x := by
  intro r rc hg hp hreq
  unfold Pair.pendingAnswerable at h
  rw [List.all_eq_true] at h
  have := h (r, rc) (mem_of_get hg)
  simp only [hp, ne_eq, not_true_eq_false, decide_false, Bool.false_or, Bool.or_eq_true,
    List.isEmpty_iff] at this
  rcases this with h1 | h1
  · exact absurd h1 hreq
  · cases ha : x.parent.ca.answer x.ch rc.parentRcn with
    | none => rw [ha] at h1; cases h1
    | some R => exact ⟨R, rfl⟩

theorem certRequests_ne_nil_of_plain_pending {ks : KeyState} (hpl : ks.plain) (h : ks.hasPending = true) :
    ks.certRequests ≠ [] := by
  cases ks with
  | pending p => obtain ⟨pid, preq⟩ := p; cases preq <;> simp_all [KeyState.hasPending, KeyState.certRequests, KeyState.revokeRequest]
  | active c => obtain ⟨cid, cc, creq⟩ := c; cases creq <;> simp_all [KeyState.hasPending, KeyState.certRequests, KeyState.revokeRequest]
  | rollPending _ _ => cases hpl
  | rollNew _ _ => cases hpl
  | rollOld _ _ => cases hpl

/-- `Pair.classRequests` on a class without a key roll. -/
theorem classRequests_spec {y : Pair} (hinv : PairInv y) (r : Rcn) (na : Int)
    (hplain : ∀ rc, get y.child.ca.classes r = some rc → rc.parent = y.ph → rc.keys.plain)
    (hansw : ∀ rc, get y.child.ca.classes r = some rc → rc.parent = y.ph → rc.keys.certRequests ≠ [] →
      ∃ R, y.parent.ca.answer y.ch rc.parentRcn = some R) :
    ReqStep y (y.classRequests r na) r ∧ Answered y (y.classRequests r na) na r := by
  unfold Pair.classRequests
  cases hg : get y.child.ca.classes r with
  | none =>
    refine ⟨ReqStep.refl hinv r, fun _ => hg, fun rc h => (by rw [hg] at h; cases h),
      fun rc h => (by rw [hg] at h; cases h), fun rc R h => (by rw [hg] at h; cases h)⟩
  | some rc =>
    simp only
    by_cases hp : rc.parent = y.ph
    · simp only [hp, ne_eq, not_true_eq_false, if_false]
      have hpl := hplain rc hg hp
      -- the single open request, if any
      have hcases : (rc.keys.revokeRequest = none ∧ rc.keys.certRequests = [] ∧ rc.keys.hasPending = false) ∨
          (∃ ki, rc.keys.revokeRequest = none ∧ rc.keys.certRequests = [ki] ∧ rc.keys.hasPending = true ∧
            ((∃ b, rc.keys = .pending ⟨ki, b⟩) ∨ (∃ c, rc.keys = .active c ∧ c.id = ki))) := by
        cases hks : rc.keys with
        | pending p =>
          obtain ⟨pid, preq⟩ := p
          cases preq
          · left; simp [KeyState.revokeRequest, KeyState.certRequests, KeyState.hasPending]
          · right; exact ⟨pid, by simp [KeyState.revokeRequest, KeyState.certRequests, KeyState.hasPending]⟩
        | active c =>
          obtain ⟨cid, ccert, creq⟩ := c
          cases creq
          · left; simp [KeyState.revokeRequest, KeyState.certRequests, KeyState.hasPending]
          · right; exact ⟨cid, by simp [KeyState.revokeRequest, KeyState.certRequests, KeyState.hasPending]⟩
        | rollPending _ _ => rw [hks] at hpl; cases hpl
        | rollNew _ _ => rw [hks] at hpl; cases hpl
        | rollOld _ _ => rw [hks] at hpl; cases hpl
      rcases hcases with ⟨h1, h2, h3⟩ | ⟨ki, h1, h2, h3, h4⟩
      · simp only [h1, h2, List.foldl_nil]
        refine ⟨ReqStep.refl hinv r, fun h => (by rw [hg] at h; cases h), ?_, ?_, ?_⟩
        · intro rc0 h0 _; rw [hg] at h0; cases h0; exact hg
        · intro rc0 h0 _ hpend; rw [hg] at h0; cases h0; rw [h3] at hpend; cases hpend
        · intro rc0 R h0 _ hpend; rw [hg] at h0; cases h0; rw [h3] at hpend; cases hpend
      · simp only [h1, h2, List.foldl_cons, List.foldl_nil, hg, Option.isSome_some, if_true]
        obtain ⟨hst, hno, hyes⟩ := certRequest_spec hinv hg h4 na
        refine ⟨hst, fun h => (by rw [hg] at h; cases h), ?_, ?_, ?_⟩
        · intro rc0 h0 hnot; rw [hg] at h0; cases h0; exact absurd ⟨hp, h3⟩ hnot
        · intro rc0 h0 _ _ hans; rw [hg] at h0; cases h0
          obtain ⟨R, hR⟩ := hansw rc hg hp (by rw [h2]; simp)
          rw [hans] at hR; cases hR
        · intro rc0 R h0 _ _ hans
          rw [hg] at h0; cases h0
          obtain ⟨rc', a1, a2, a3, a4, a5⟩ := hyes R hans
          exact ⟨rc', ki, a1, a2, a3, a4, a5⟩
    · simp only [ne_eq, hp, not_false_eq_true, if_true]
      refine ⟨ReqStep.refl hinv r, fun h => (by rw [hg] at h; cases h), ?_, ?_, ?_⟩
      · intro rc0 h0 _; rw [hg] at h0; cases h0; exact hg
      · intro rc0 h0 hp0; rw [hg] at h0; cases h0; exact absurd hp0 hp
      · intro rc0 R h0 hp0; rw [hg] at h0; cases h0; exact absurd hp0 hp

/-! ## The request branch of a sync -/

/-- The pair after the request branch of a sync. -/
structure ReqRun (x z : Pair) (na : Int) : Prop where
  ch : z.ch = x.ch
  ph : z.ph = x.ph
  inv : PairInv z
  same : ParentSame x.parent.ca z.parent.ca x.ch
  book : BookRel x.parent.ca z.parent.ca x.ch
  cls : ∀ r, Answered x z na r

/-- No class under the parent is in a key roll. -/
def NoRoll (s : Ca) (p : Handle) : Prop := ∀ r rc, get s.classes r = some rc → rc.parent = p → rc.keys.plain

theorem requests_fold {x : Pair} (na : Int) (hnr : NoRoll x.child.ca x.ph) (hansw : Answerable x) :
    ∀ (rs : List Rcn) (y : Pair), rs.Nodup → y.ch = x.ch → y.ph = x.ph → PairInv y →
      ParentSame x.parent.ca y.parent.ca x.ch → BookRel x.parent.ca y.parent.ca x.ch →
      (∀ r ∈ rs, get y.child.ca.classes r = get x.child.ca.classes r) →
      (∀ r, r ∉ rs → Answered x y na r) →
      ReqRun x (rs.foldl (fun y r => y.classRequests r na) y) na := by
  intro rs
  induction rs with
  | nil => intro y _ hch hph hinv hsame hbook _ hdone; exact ⟨hch, hph, hinv, hsame, hbook, fun r => hdone r (by simp)⟩
  | cons r t ih =>
    intro y hnd hch hph hinv hsame hbook htodo hdone
    have hnd' := List.nodup_cons.mp hnd
    simp only [List.foldl_cons]
    have hgr := htodo r (List.mem_cons_self ..)
    obtain ⟨hst, hans⟩ := classRequests_spec hinv r na (by
      intro rc hg hp
      rw [hgr] at hg
      exact hnr r rc hg (hp.trans hph)) (by
      intro rc hg hp hreq
      rw [hgr] at hg
      obtain ⟨R, hR⟩ := hansw r rc hg (hp.trans hph) hreq
      exact ⟨R, by rw [hch]; exact (hsame.answer _).trans hR⟩)
    have hsame1 : ParentSame x.parent.ca (y.classRequests r na).parent.ca x.ch := by
      have := hst.same; rw [hch] at this; exact hsame.trans this
    refine ih (y.classRequests r na) hnd'.2 (hst.ch.trans hch) (hst.ph.trans hph) hst.inv hsame1 ?_ ?_ ?_
    · have h1 := hst.book; have h2 := hst.same
      rw [hch] at h1 h2
      exact hbook.trans h1 h2
    · intro r' hr'
      have hne : r' ≠ r := fun h => hnd'.1 (h ▸ hr')
      rw [hst.frame r' hne]
      exact htodo r' (List.mem_cons_of_mem _ hr')
    · intro r' hr'
      by_cases hrr : r' = r
      · subst hrr
        -- the class just handled: restate relative to `x`
        have hans' : ∀ n, y.parent.ca.answer y.ch n = x.parent.ca.answer x.ch n := by
          intro n; rw [hch]; exact hsame.answer n
        refine ⟨fun h => hans.absent (hgr.trans h), fun rc h hq => hans.quiet rc (hgr.trans h) (by rw [hph]; exact hq),
          fun rc h h1 h2 h3 => hans.refused rc (hgr.trans h) (h1.trans hph.symm) h2 ((hans' _).trans h3), ?_⟩
        intro rc R h h1 h2 h3
        have := hans.answered rc R (hgr.trans h) (h1.trans hph.symm) h2 ((hans' _).trans h3)
        rw [hch] at this
        exact this
      · have hnot : r' ∉ r :: t := by
          intro h
          rcases List.mem_cons.mp h with h | h
          · exact hrr h
          · exact hr' h
        exact (hdone r' hnot).step hch hst hrr

/-- The request branch of `Pair.sync`. -/
theorem syncR_spec {x : Pair} (hinv : PairInv x) (hnr : NoRoll x.child.ca x.ph) (hansw : Answerable x)
    (now na : Int)
    (fresh : List KeyId) (hpend : x.child.ca.hasPendingRequests x.ph = true) :
    ReqRun x (x.sync now na fresh) na := by
  unfold Pair.sync
  simp only [hpend, if_true]
  refine requests_fold na hnr hansw _ x (reachable_inv hinv.rc).core.nodup rfl rfl hinv (ParentSame.refl _ _)
    (BookRel.refl _ _) (fun _ _ => rfl) ?_
  intro r hr
  have hnone : get x.child.ca.classes r = none := by
    cases hg : get x.child.ca.classes r with
    | none => rfl
    | some rc => exact absurd (mem_keys_of_get hg) hr
  exact ⟨fun _ => hnone, fun rc h => (by rw [hnone] at h; cases h), fun rc h => (by rw [hnone] at h; cases h),
    fun rc R h => (by rw [hnone] at h; cases h)⟩

/-! ## The coupling invariant -/

/-- The certificate of an `active` class that holds what the parent would answer is on file at the
parent with those resources. -/
def Booked (x : Pair) : Prop :=
  ∀ r rc k R, get x.child.ca.classes r = some rc → rc.parent = x.ph → rc.keys = .active k →
    x.parent.ca.answer x.ch rc.parentRcn = some R → seteq k.cert.res R = true →
    ∃ cc, x.parent.ca.issuedFor x.ch rc.parentRcn k.id = some cc ∧ seteq cc.res R = true

/-- What the exchange needs and keeps (no key roll in progress). -/
structure Coupled (x : Pair) : Prop where
  inv : PairInv x
  names : x.parent.ca.namesOk x.ch = true
  uniq : UniqueNames x.child.ca x.ph
  noroll : NoRoll x.child.ca x.ph
  booked : Booked x

/-- Where a class after the request branch comes from. -/
theorem Answered.origin {x z : Pair} {na : Int} {r : Rcn} (h : Answered x z na r) {rc' : Rc}
    (hg : get z.child.ca.classes r = some rc') :
    ∃ rc, get x.child.ca.classes r = some rc ∧ rc'.parent = rc.parent ∧ rc'.parentRcn = rc.parentRcn ∧
      ((rc' = rc ∧ ¬ (rc.parent = x.ph ∧ rc.keys.hasPending = true)) ∨
       (rc.parent = x.ph ∧ rc.keys.hasPending = true ∧ ∃ R ki c, x.parent.ca.answer x.ch rc.parentRcn = some R ∧
          rc'.keys = .active ⟨ki, answerCert R na, false⟩ ∧ get z.parent.ca.children x.ch = some c ∧
          z.parent.ca.bookedExact x.ch (c.nameInParent rc.parentRcn) ki)) := by
  cases hx : get x.child.ca.classes r with
  | none => rw [h.absent hx] at hg; cases hg
  | some rc =>
    refine ⟨rc, rfl, ?_⟩
    by_cases hq : rc.parent = x.ph ∧ rc.keys.hasPending = true
    · cases ha : x.parent.ca.answer x.ch rc.parentRcn with
      | none => rw [h.refused rc hx hq.1 hq.2 ha] at hg; cases hg
      | some R =>
        obtain ⟨rc'', ki, a1, a2, a3, a4, c, a5, a6⟩ := h.answered rc R hx hq.1 hq.2 ha
        rw [a1] at hg; cases hg
        exact ⟨a2, a3, Or.inr ⟨hq.1, hq.2, R, ki, c, rfl, a4, a5, a6⟩⟩
    · rw [h.quiet rc hx hq] at hg; cases hg
      exact ⟨rfl, rfl, Or.inl ⟨rfl, hq⟩⟩

/-- A class of `x` that is not dropped is still there, under its names. -/
theorem Answered.survives {x z : Pair} {na : Int} {r : Rcn} (h : Answered x z na r) {rc : Rc}
    (hg : get x.child.ca.classes r = some rc)
    (hans : rc.parent = x.ph → rc.keys.hasPending = true → ∃ R, x.parent.ca.answer x.ch rc.parentRcn = some R) :
    ∃ rc', get z.child.ca.classes r = some rc' ∧ rc'.parent = rc.parent ∧ rc'.parentRcn = rc.parentRcn := by
  by_cases hq : rc.parent = x.ph ∧ rc.keys.hasPending = true
  · obtain ⟨R, hR⟩ := hans hq.1 hq.2
    obtain ⟨rc', ki, a1, a2, a3, _⟩ := h.answered rc R hg hq.1 hq.2 hR
    exact ⟨rc', a1, a2, a3⟩
  · exact ⟨rc, h.quiet rc hg hq, rfl, rfl⟩

theorem hasPending_active_false (ki : KeyId) (cert : Cert) : (KeyState.active ⟨ki, cert, false⟩).hasPending = false := by
  simp [KeyState.hasPending, KeyState.certRequests, KeyState.revokeRequest]

/-- The request branch keeps the coupling. -/
theorem ReqRun.coupled {x z : Pair} {na : Int} (hc : Coupled x) (h : ReqRun x z na) : Coupled z := by
  refine ⟨h.inv, ?_, ?_, ?_, ?_⟩
  · rw [h.ch]; exact h.same.namesOk hc.names
  · intro r1 r2 rc1 rc2 hg1 hg2 hp1 hp2 hname
    obtain ⟨rc1', hx1, a1, a2, _⟩ := (h.cls r1).origin hg1
    obtain ⟨rc2', hx2, b1, b2, _⟩ := (h.cls r2).origin hg2
    rw [h.ph] at hp1 hp2
    exact hc.uniq r1 r2 rc1' rc2' hx1 hx2 (a1.symm.trans hp1) (b1.symm.trans hp2) (a2.symm.trans (hname.trans b2))
  · intro r rc' hg hp
    obtain ⟨rc, hx, a1, _, a3⟩ := (h.cls r).origin hg
    rw [h.ph] at hp
    rcases a3 with ⟨heq, _⟩ | ⟨_, _, R, ki, c, _, hk, _⟩
    · rw [heq]; exact hc.noroll r rc hx (a1.symm.trans hp)
    · rw [hk]; trivial
  · intro r rc' k R hg hp hk ha hse
    rw [h.ch] at ha ⊢
    rw [h.ph] at hp
    have ha' : x.parent.ca.answer x.ch rc'.parentRcn = some R := (h.same.answer _).symm.trans ha
    obtain ⟨rc, hx, a1, a2, a3⟩ := (h.cls r).origin hg
    rcases h.same.child_cases with ⟨e1, _⟩ | ⟨c0, c', e1, e2, _, e4⟩
    · unfold Ca.answer at ha'; rw [e1] at ha'; cases ha'
    · rcases a3 with ⟨heq, _⟩ | ⟨_, _, R', ki, c, hR', hk', hc', hb⟩
      · subst heq
        obtain ⟨cc, hcc, hres⟩ := hc.booked r rc' k R hx hp hk ha' hse
        rcases h.book (c0.nameInParent rc'.parentRcn) k.id with hsame | hex
        · refine ⟨cc, ?_, hres⟩
          rw [issuedFor_eq, e2]; simp only
          rw [nameInParent_congr e4, hsame]
          rw [issuedFor_eq, e1] at hcc; exact hcc
        · have hex' : z.parent.ca.bookedExact x.ch (c'.nameInParent rc'.parentRcn) k.id := by
            rw [nameInParent_congr e4]; exact hex
          obtain ⟨cc', h1, h2⟩ := bookedExact_issuedFor e2 hex' ha
          exact ⟨cc', h1, by rw [h2]; exact seteq_refl _⟩
      · rw [hk'] at hk
        cases hk
        rw [e2] at hc'; cases hc'
        rw [← a2] at hb
        obtain ⟨cc', h1, h2⟩ := bookedExact_issuedFor e2 hb ha
        exact ⟨cc', h1, by rw [h2]; exact seteq_refl _⟩

theorem hasPendingRequests_false_iff {s : Ca} (hnd : (keys s.classes).Nodup) (p : Handle) :
    s.hasPendingRequests p = false ↔
      ∀ r rc, get s.classes r = some rc → rc.parent = p → rc.keys.hasPending = false := by
  unfold Ca.hasPendingRequests
  rw [List.any_eq_false]
  constructor
  · intro h r rc hg hp
    have := h (r, rc) (mem_of_get hg)
    simp only [hp, decide_true, Bool.true_and, Bool.not_eq_true] at this
    exact this
  · intro h q hq
    have hg := get_of_mem_nodup hnd hq
    by_cases hp : q.2.parent = p
    · simp [hp, h q.1 q.2 hg hp]
    · simp [hp]

/-- After the request branch nothing is left to send. -/
theorem ReqRun.quiet {x z : Pair} {na : Int} (h : ReqRun x z na) :
    z.child.ca.hasPendingRequests z.ph = false := by
  rw [hasPendingRequests_false_iff (reachable_inv h.inv.rc).core.nodup]
  intro r rc' hg hp
  obtain ⟨rc, hx, a1, _, a3⟩ := (h.cls r).origin hg
  rw [h.ph] at hp
  rcases a3 with ⟨heq, hnot⟩ | ⟨_, _, R, ki, c, _, hk, _⟩
  · subst heq
    cases hpend : rc'.keys.hasPending with
    | false => rfl
    | true => exact absurd ⟨hp, hpend⟩ hnot
  · rw [hk]; exact hasPending_active_false _ _

/-! ## Settled classes -/

/-- The class is `active` without an open request and its key does not want an update for what
the parent lists under the class's name. -/
def Settled (p : Ca) (ch : Handle) (now na : Int) (rc : Rc) : Prop :=
  ∃ k R, rc.keys = .active k ∧ k.req = false ∧ p.offers ch rc.parentRcn R ∧ k.wantsUpdate R na now = false

/-- The pair after the entitlement branch: every class under the parent is listed and either has
its request open or is settled; every listed class exists. -/
structure PostE (x : Pair) (now na : Int) : Prop where
  coupled : Coupled x
  cls : ∀ r rc, get x.child.ca.classes r = some rc → rc.parent = x.ph →
    (∃ R, x.parent.ca.offers x.ch rc.parentRcn R) ∧
    (rc.keys.hasPending = true ∨ Settled x.parent.ca x.ch now na rc)
  all : ∀ n R, x.parent.ca.offers x.ch n R →
    ∃ r rc, get x.child.ca.classes r = some rc ∧ rc.parent = x.ph ∧ rc.parentRcn = n

/-- The converged pair, class by class. -/
structure Conv (x : Pair) (now na : Int) : Prop where
  coupled : Coupled x
  cls : ∀ r rc, get x.child.ca.classes r = some rc → rc.parent = x.ph → Settled x.parent.ca x.ch now na rc
  all : ∀ n R, x.parent.ca.offers x.ch n R →
    ∃ r rc, get x.child.ca.classes r = some rc ∧ rc.parent = x.ph ∧ rc.parentRcn = n

theorem settled_not_pending {p : Ca} {ch : Handle} {now na : Int} {rc : Rc} (h : Settled p ch now na rc) :
    rc.keys.hasPending = false := by
  obtain ⟨k, R, hk, hreq, _, _⟩ := h
  obtain ⟨kid, kcert, kreq⟩ := k
  simp only at hreq; subst hreq
  rw [hk]; exact hasPending_active_false _ _

theorem PostE.conv_of_quiet {x : Pair} {now na : Int} (h : PostE x now na)
    (hq : x.child.ca.hasPendingRequests x.ph = false) : Conv x now na := by
  refine ⟨h.coupled, ?_, h.all⟩
  intro r rc hg hp
  rcases (h.cls r rc hg hp).2 with hpend | hs
  · have := (hasPendingRequests_false_iff (reachable_inv h.coupled.inv.rc).core.nodup x.ph).mp hq r rc hg hp
    rw [this] at hpend; cases hpend
  · exact hs

theorem wantsUpdate_answerCert (ki : KeyId) (R : ResSet) (now na : Int) :
    (CertKey.mk ki (answerCert R na) false).wantsUpdate R na now = false :=
  wantsUpdate_offer ki false ⟨R, na⟩ now

/-- After the entitlement branch, the request branch converges. -/
theorem PostE.conv_of_requests {x z : Pair} {now na : Int} (h : PostE x now na) (hr : ReqRun x z na) :
    Conv z now na := by
  have hcz := hr.coupled h.coupled
  refine ⟨hcz, ?_, ?_⟩
  · intro r rc' hg hp
    rw [hr.ph] at hp
    rw [hr.ch]
    obtain ⟨rc, hx, a1, a2, a3⟩ := (hr.cls r).origin hg
    obtain ⟨⟨R0, hoff⟩, hst⟩ := h.cls r rc hx (a1.symm.trans hp)
    rcases a3 with ⟨heq, hnot⟩ | ⟨hpp, _, R, ki, c, hR, hk, _⟩
    · subst heq
      rcases hst with hpend | ⟨k, R, hk, hreq, ho, hw⟩
      · exact absurd ⟨hp, hpend⟩ hnot
      · exact ⟨k, R, hk, hreq, hr.same.offers ho, hw⟩
    · have := offers_answer h.coupled.names hoff
      rw [this] at hR; cases hR
      refine ⟨_, R0, hk, rfl, ?_, wantsUpdate_answerCert ki R0 now na⟩
      rw [a2]; exact hr.same.offers hoff
  · intro n R ho
    rw [hr.ch] at ho
    have hox := hr.same.symm.offers ho
    obtain ⟨r, rc, hg, hp, hn⟩ := h.all n R hox
    obtain ⟨rc', g1, g2, g3⟩ := (hr.cls r).survives hg (fun _ _ => by
      obtain ⟨⟨R0, hoff⟩, _⟩ := h.cls r rc hg hp
      exact ⟨R0, offers_answer h.coupled.names hoff⟩)
    exact ⟨r, rc', g1, by rw [g2, hp, hr.ph], g3.trans hn⟩

/-! ## The entitlement branch of a sync -/

theorem requestedFor_pending (k : KeyId) (ent : Entitlement) (now : Int) :
    (KeyState.pending ⟨k, false⟩).requestedFor ent now = .pending ⟨k, true⟩ := by
  simp [KeyState.requestedFor, KeyState.requestKeys, KeyState.applyRequested]

theorem requestedFor_active (c : CertKey) (ent : Entitlement) (now : Int) :
    (KeyState.active c).requestedFor ent now =
      if c.wantsUpdate ent.res ent.na now then .active { c with req := true } else .active c := by
  by_cases hw : c.wantsUpdate ent.res ent.na now = true
  · simp [KeyState.requestedFor, KeyState.requestKeys, hw, KeyState.applyRequested]
  · simp [KeyState.requestedFor, KeyState.requestKeys, hw]

/-- The number of classes the next `UpdateEntitlements` creates (each needs a new key). -/
def Pair.newClasses (x : Pair) (na : Int) : Nat :=
  (newEntitlements x.child.ca x.ph (x.parent.ca.entitlementsFor x.ch na)).length

/-- The entitlement branch of `Pair.sync` on a coupled pair with nothing to send. -/
theorem syncE_spec {x : Pair} (hc : Coupled x) (now na : Int) (fresh : List KeyId)
    (hpend : x.child.ca.hasPendingRequests x.ph = false)
    (hlen : x.newClasses na ≤ fresh.length) :
    PostE (x.sync now na fresh) now na ∧ (x.sync now na fresh).parent = x.parent ∧
    (x.sync now na fresh).ch = x.ch ∧ (x.sync now na fresh).ph = x.ph := by
  have hndP := (reachable_inv hc.inv.rp).core.nodup
  have hndC := (reachable_inv hc.inv.rc).core.nodup
  obtain ⟨s', hn, h1, h2, h3, h4, h5, h6, _⟩ := updEnt_spec hc.inv.rc hc.inv.repo hc.inv.nolim x.ph hc.uniq
    (x.parent.ca.entitlementsFor x.ch na) (entitlementsFor_nodup na hndP hc.names) now fresh hlen
  have hy : x.sync now na fresh = { x with child := s' } := by
    unfold Pair.sync
    simp only [hpend, Bool.false_eq_true, if_false, hn]
  rw [hy]
  refine ⟨?_, rfl, rfl, rfl⟩
  have hquiet := (hasPendingRequests_false_iff hndC x.ph).mp hpend
  -- the classes under the parent after the command
  have hcls : ∀ r rc', get s'.ca.classes r = some rc' → rc'.parent = x.ph →
      (∃ R, x.parent.ca.offers x.ch rc'.parentRcn R) ∧
      (rc'.keys.hasPending = true ∨ Settled x.parent.ca x.ch now na rc') ∧ rc'.keys.plain ∧
      (∀ k, rc'.keys = .active k → ∃ rc k0, get x.child.ca.classes r = some rc ∧ rc.parent = x.ph ∧
        rc.parentRcn = rc'.parentRcn ∧ rc.keys = .active k0 ∧ k0.id = k.id ∧ k0.cert = k.cert) := by
    intro r rc' hg hp
    rcases h5 r rc' hg with ⟨rc, hgx, hpp, heq⟩ | ⟨rc, ent, hgx, hpp, hent, hname, heq⟩ | ⟨ent, k, hent, _, _, _, heq⟩
    · rw [heq] at hp; exact absurd hp hpp
    · obtain ⟨hoff, hna⟩ := mem_entitlementsFor hndP hent
      have hpl := hc.noroll r rc hgx hpp
      have hnp := hquiet r rc hgx hpp
      subst heq
      simp only
      refine ⟨⟨ent.res, by rw [hname]; exact hoff⟩, ?_⟩
      cases hks : rc.keys with
      | pending pk =>
        obtain ⟨pid, preq⟩ := pk
        cases preq
        · rw [requestedFor_pending]
          refine ⟨Or.inl (by simp [KeyState.hasPending, KeyState.certRequests]), trivial, fun k hk => by cases hk⟩
        · rw [hks] at hnp; simp [KeyState.hasPending, KeyState.certRequests] at hnp
      | active c =>
        obtain ⟨cid, ccert, creq⟩ := c
        cases creq
        · rw [requestedFor_active]
          by_cases hw : (CertKey.mk cid ccert false).wantsUpdate ent.res ent.na now = true
          · simp only [hw, if_true]
            refine ⟨Or.inl (by simp [KeyState.hasPending, KeyState.certRequests]), trivial, ?_⟩
            intro k hk; cases hk
            exact ⟨rc, _, hgx, hpp, rfl, hks, rfl, rfl⟩
          · simp only [hw, Bool.false_eq_true, if_false]
            refine ⟨Or.inr ⟨_, ent.res, rfl, rfl, by rw [hname]; exact hoff, ?_⟩, trivial, ?_⟩
            · rw [← hna]; simpa using hw
            · intro k hk; cases hk
              exact ⟨rc, _, hgx, hpp, rfl, hks, rfl, rfl⟩
        · rw [hks] at hnp; simp [KeyState.hasPending, KeyState.certRequests] at hnp
      | rollPending _ _ => rw [hks] at hpl; cases hpl
      | rollNew _ _ => rw [hks] at hpl; cases hpl
      | rollOld _ _ => rw [hks] at hpl; cases hpl
    · obtain ⟨hoff, _⟩ := mem_entitlementsFor hndP hent
      subst heq
      refine ⟨⟨ent.res, hoff⟩, Or.inl (by simp [Rc.requested, KeyState.hasPending, KeyState.certRequests]),
        trivial, fun k hk => by simp [Rc.requested] at hk⟩
  refine ⟨⟨⟨hc.inv.rp, h1, h2, h3⟩, hc.names, h4, ?_, ?_⟩, ?_, ?_⟩
  · intro r rc' hg hp; exact (hcls r rc' hg hp).2.2.1
  · intro r rc' k R hg hp hk ha hse
    obtain ⟨rc, k0, hgx, hpp, hname, hk0, hid, hcert⟩ := (hcls r rc' hg hp).2.2.2 k hk
    have := hc.booked r rc k0 R hgx hpp hk0 (by rw [hname]; exact ha) (by rw [hcert]; exact hse)
    rw [hname, hid] at this
    exact this
  · intro r rc' hg hp
    exact ⟨(hcls r rc' hg hp).1, (hcls r rc' hg hp).2.1⟩
  · intro n R ho
    obtain ⟨ent, hent, hn1, _, _⟩ := entitlementsFor_of_offers na ho
    obtain ⟨r, rc', hg, hp, hname⟩ := h6 ent hent
    exact ⟨r, rc', hg, hp, hname.trans hn1⟩

/-! ## A converged pair: the executable predicate and the fixed point -/

theorem eq_of_nodup_map {α β : Type} (f : α → β) : ∀ {l : List α}, (l.map f).Nodup →
    ∀ {a b : α}, a ∈ l → b ∈ l → f a = f b → a = b := by
  intro l
  induction l with
  | nil => intro _ a b ha; cases ha
  | cons c t ih =>
    intro hnd a b ha hb hab
    have hnd' := List.nodup_cons.mp (by simpa using hnd : (f c :: t.map f).Nodup)
    rcases List.mem_cons.mp ha with ha' | ha'
    · rcases List.mem_cons.mp hb with hb' | hb'
      · rw [ha', hb']
      · rw [ha'] at hab
        exact absurd (List.mem_map.mpr ⟨b, hb', hab.symm⟩) hnd'.1
    · rcases List.mem_cons.mp hb with hb' | hb'
      · rw [hb'] at hab
        exact absurd (List.mem_map.mpr ⟨a, ha', hab⟩) hnd'.1
      · exact ih hnd'.2 ha' hb' hab

theorem nodup_map_of_key {α β κ : Type} (key : α → κ) (f : α → β) : ∀ {l : List α}, (l.map key).Nodup →
    (∀ a ∈ l, ∀ b ∈ l, f a = f b → key a = key b) → (l.map f).Nodup := by
  intro l
  induction l with
  | nil => intro _ _; exact List.nodup_nil
  | cons c t ih =>
    intro hnd hinj
    have hnd' := List.nodup_cons.mp (by simpa using hnd : (key c :: t.map key).Nodup)
    simp only [List.map_cons]
    refine List.nodup_cons.mpr ⟨?_, ih hnd'.2 (fun a ha b hb => hinj a (List.mem_cons_of_mem _ ha) b (List.mem_cons_of_mem _ hb))⟩
    intro hm
    obtain ⟨b, hb, hfb⟩ := List.mem_map.mp hm
    have := hinj c (List.mem_cons_self ..) b (List.mem_cons_of_mem _ hb) hfb.symm
    exact hnd'.1 (this ▸ List.mem_map.mpr ⟨b, hb, rfl⟩)

/-- A key that does not want an update holds exactly the listed resources. -/
theorem seteq_of_not_wantsUpdate {k : CertKey} {res : ResSet} {na now : Int}
    (h : k.wantsUpdate res na now = false) : seteq res k.cert.res = true := by
  unfold CertKey.wantsUpdate at h
  by_cases hs : k.cert.slash = true
  · simp only [hs, Bool.not_true, Bool.false_eq_true, if_false] at h
    by_cases he : seteq res k.cert.res = true
    · exact he
    · simp [he] at h
  · simp [hs] at h

/-- The class names under the parent, as a list. -/
theorem mem_classNames {s : Ca} (hnd : (keys s.classes).Nodup) (p : Handle) (n : Rcn) :
    n ∈ (s.classes.filter fun q => q.2.parent = p).map (·.2.parentRcn) ↔
      ∃ r rc, get s.classes r = some rc ∧ rc.parent = p ∧ rc.parentRcn = n := by
  constructor
  · intro h
    obtain ⟨q, hq, hn⟩ := List.mem_map.mp h
    obtain ⟨hq1, hq2⟩ := List.mem_filter.mp hq
    exact ⟨q.1, q.2, get_of_mem_nodup hnd hq1, by simpa using hq2, hn⟩
  · rintro ⟨r, rc, hg, hp, hn⟩
    exact List.mem_map.mpr ⟨(r, rc), List.mem_filter.mpr ⟨mem_of_get hg, by simpa using hp⟩, hn⟩

theorem nodup_classNames {s : Ca} (hnd : (keys s.classes).Nodup) {p : Handle} (hu : UniqueNames s p) :
    ((s.classes.filter fun q => q.2.parent = p).map (·.2.parentRcn)).Nodup := by
  apply nodup_map_of_key (key := fun q : Rcn × Rc => q.1)
  · exact (List.filter_sublist.map _).nodup hnd
  · intro a ha b hb hab
    obtain ⟨ha1, ha2⟩ := List.mem_filter.mp ha
    obtain ⟨hb1, hb2⟩ := List.mem_filter.mp hb
    exact hu a.1 b.1 a.2 b.2 (get_of_mem_nodup hnd ha1) (get_of_mem_nodup hnd hb1) (by simpa using ha2)
      (by simpa using hb2) hab

/-- `Conv` implies the executable `Pair.converged`. -/
theorem Conv.converged {x : Pair} {now na : Int} (h : Conv x now na) : x.converged na = true := by
  have hndP := (reachable_inv h.coupled.inv.rp).core.nodup
  have hndC := (reachable_inv h.coupled.inv.rc).core.nodup
  unfold Pair.converged
  simp only [Bool.and_eq_true, Bool.not_eq_true', beq_iff_eq, List.all_eq_true]
  refine ⟨⟨?_, ?_⟩, ?_⟩
  · rw [hasPendingRequests_false_iff hndC]
    intro r rc hg hp
    exact settled_not_pending (h.cls r rc hg hp)
  · have h1 : ((x.child.ca.classes.filter fun q => q.2.parent = x.ph).map (·.2.parentRcn)).length =
        ((x.parent.ca.entitlementsFor x.ch na).map (·.rcn)).length := by
      apply length_eq_of_nodup_same (nodup_classNames hndC h.coupled.uniq)
        (entitlementsFor_nodup na hndP h.coupled.names)
      intro n
      rw [mem_classNames hndC]
      constructor
      · rintro ⟨r, rc, hg, hp, hn⟩
        obtain ⟨k, R, _, _, ho, _⟩ := h.cls r rc hg hp
        obtain ⟨ent, hent, he1, _, _⟩ := entitlementsFor_of_offers na ho
        exact List.mem_map.mpr ⟨ent, hent, he1.trans hn⟩
      · intro hm
        obtain ⟨ent, hent, hn⟩ := List.mem_map.mp hm
        obtain ⟨ho, _⟩ := mem_entitlementsFor hndP hent
        rw [hn] at ho
        exact h.all n ent.res ho
    simpa using h1
  · intro ent hent
    obtain ⟨ho, _⟩ := mem_entitlementsFor hndP hent
    obtain ⟨r, rc, hg, hp, hn⟩ := h.all ent.rcn ent.res ho
    have hf := findParentRc_of_get hndC h.coupled.uniq hg hp
    rw [hn] at hf
    obtain ⟨k, R, hk, hreq, ho', hw⟩ := h.cls r rc hg hp
    rw [hn] at ho'
    have hR := offers_unique h.coupled.names ho' ho
    subst hR
    have hse : seteq k.cert.res ent.res = true := seteq_symm (seteq_of_not_wantsUpdate hw)
    obtain ⟨cc, hcc, hres⟩ := h.coupled.booked r rc k ent.res hg hp hk
      (by rw [hn]; exact offers_answer h.coupled.names ho) hse
    rw [hn] at hcc
    simp only [hf, hk, hse, hreq, Bool.not_false, Bool.and_self, hcc, hres]

/-- A command whose events are all `UnexpectedKeyFound` leaves the system as it was. -/
theorem next_of_unexpected {s : Sys} {c : Cmd} {evs : List Ev} (hp : s.ca.process c = .ok evs)
    (hall : ∀ e ∈ evs, ∃ r k, e = Ev.key r (.unexpected k)) : s.next c = s := by
  have h1 : ∀ (ca : Ca) (l : List Ev), (∀ e ∈ l, ∃ r k, e = Ev.key r (.unexpected k)) → ca.applyAll l = some ca := by
    intro ca l
    induction l with
    | nil => intro _; rfl
    | cons e t ih =>
      intro hl
      obtain ⟨r, k, rfl⟩ := hl e (List.mem_cons_self ..)
      simp only [Ca.applyAll, Ca.apply, Option.bind_some]
      exact ih (fun e' he' => hl e' (List.mem_cons_of_mem _ he'))
  have h2 : ∀ (o : Objs) (l : List Ev), (∀ e ∈ l, ∃ r k, e = Ev.key r (.unexpected k)) → o.stepAll l = .ok o := by
    intro o l
    induction l with
    | nil => intro _; rfl
    | cons e t ih =>
      intro hl
      obtain ⟨r, k, rfl⟩ := hl e (List.mem_cons_self ..)
      simp only [Objs.stepAll, Objs.step]
      exact ih (fun e' he' => hl e' (List.mem_cons_of_mem _ he'))
  unfold Sys.next Sys.exec
  simp only [hp, h1 s.ca evs hall, h2 s.objs evs hall]

/-- A converged pair is a fixed point of `Pair.sync` (also when the parent lists keys the child
does not know: `UnexpectedKeyFound` changes nothing). -/
theorem Conv.sync_eq {x : Pair} {now na : Int} (h : Conv x now na) (fresh : List KeyId) :
    x.sync now na fresh = x := by
  have hndP := (reachable_inv h.coupled.inv.rp).core.nodup
  have hndC := (reachable_inv h.coupled.inv.rc).core.nodup
  have hpend : x.child.ca.hasPendingRequests x.ph = false := by
    rw [hasPendingRequests_false_iff hndC]
    intro r rc hg hp
    exact settled_not_pending (h.cls r rc hg hp)
  -- no class is removed
  have hrem : (x.child.ca.classes.filter fun q =>
      decide (q.2.parent = x.ph ∧ (!((x.parent.ca.entitlementsFor x.ch na).map (·.rcn)).contains q.2.parentRcn) = true)) = [] := by
    apply List.filter_eq_nil_iff.mpr
    intro q hq
    simp only [decide_eq_true_eq, not_and, Bool.not_eq_true', Bool.not_eq_false]
    intro hpar
    obtain ⟨k, R, _, _, ho, _⟩ := h.cls q.1 q.2 (get_of_mem_nodup hndC hq) hpar
    obtain ⟨ent, hent, he1, _, _⟩ := entitlementsFor_of_offers na ho
    exact List.contains_iff_mem.mpr (List.mem_map.mpr ⟨ent, hent, he1⟩)
  -- the loop emits `UnexpectedKeyFound` only
  have hloop : ∀ (l : List Entitlement) (next : Nat), (∀ ent ∈ l, ent ∈ x.parent.ca.entitlementsFor x.ch na) →
      ∃ evs, entitlementLoop x.child.ca x.ph now l next fresh = .ok evs ∧
        ∀ e ∈ evs, ∃ r k, e = Ev.key r (.unexpected k) := by
    intro l
    induction l with
    | nil => intro _ _; exact ⟨[], rfl, fun _ he => by cases he⟩
    | cons ent l ih =>
      intro next hl
      have hent := hl ent (List.mem_cons_self ..)
      obtain ⟨ho, hna⟩ := mem_entitlementsFor hndP hent
      obtain ⟨r, rc, hg, hp, hn⟩ := h.all ent.rcn ent.res ho
      have hf := findParentRc_of_get hndC h.coupled.uniq hg hp
      rw [hn] at hf
      obtain ⟨k, R, hk, _, ho', hw⟩ := h.cls r rc hg hp
      rw [hn] at ho'
      have hR := offers_unique h.coupled.names ho' ho
      subst hR
      obtain ⟨rest, hrest, hall⟩ := ih next (fun e he => hl e (List.mem_cons_of_mem _ he))
      refine ⟨(rc.keys.entitlementEvents ent now).map (Ev.key r) ++ rest,
        by simp only [entitlementLoop, hf, h.coupled.inv.repo, Bool.not_true, Bool.false_eq_true,
          if_false, hrest], ?_⟩
      intro e he
      rcases List.mem_append.mp he with he | he
      · obtain ⟨ke, hke, rfl⟩ := List.mem_map.mp he
        simp only [KeyState.entitlementEvents, hk, KeyState.requestKeys, hna, hw, Bool.false_eq_true,
          if_false, List.map_nil, List.nil_append, List.mem_map] at hke
        obtain ⟨k', _, rfl⟩ := hke
        exact ⟨r, k', rfl⟩
      · exact hall e he
  obtain ⟨evs, hevs, hall⟩ := hloop (x.parent.ca.entitlementsFor x.ch na) x.child.ca.nextClass (fun _ h => h)
  have hproc : x.child.ca.process (.updateEntitlements x.ph (x.parent.ca.entitlementsFor x.ch na) now fresh) =
      .ok evs := by
    simp only [Ca.process, hevs, hrem, List.map_nil, List.nil_append]
  unfold Pair.sync
  simp only [hpend, Bool.false_eq_true, if_false, next_of_unexpected hproc hall]

/-! ## The hypotheses as decidable predicates on the pair -/

/-- The parent's class names for this child translate back and forth (no two parent classes are
presented to the child under one name).  Excludes the non-injective mapping. -/
def Pair.mappingInjective (x : Pair) : Bool := x.parent.ca.namesOk x.ch

/-- The child has a repository (`ca_sync_parent` refuses to fetch entitlements without one). -/
def Pair.childHasRepo (x : Pair) : Bool := x.child.ca.hasRepo

/-- No certificate the child issued to its own children carries a request limit.  With a limit
`shrink_overclaiming` / `re_issue` can fail with `Error::limit` and the child refuses a smaller
certificate; `handle_cert_response` then drops the class (`Sys.receiveOrDrop`) and the exchange
still converges - through a new class with a new key (`C02.sync_converges_with_request_limit`).
That detour (class dropped and created again under a new name) is outside the class-by-class
simulation `KeyState.syncStep` the general proof follows, so the hypothesis stays. -/
def Pair.noRequestLimits (x : Pair) : Bool :=
  x.child.ca.classes.all fun q => (q.2.certs.issued ++ q.2.certs.suspended).all fun e => e.2.limit.isNone

/-- The child's classes under this parent have pairwise different parent class names (what
`find_parent_rc` assumes). -/
def Pair.classNamesDistinct (x : Pair) : Bool :=
  decide ((x.child.ca.classes.filter fun q => q.2.parent = x.ph).map (·.2.parentRcn)).Nodup

/-- No class of the child under this parent is in a key roll. -/
def Pair.noRollInProgress (x : Pair) : Bool :=
  x.child.ca.classes.all fun q => decide (q.2.parent ≠ x.ph) || !q.2.keys.rolling

/-- Where the child holds, in an `active` class, exactly what the parent would issue now, the
parent has that certificate on file (it was not removed behind the child's back by removing and
re-adding the child). -/
def Pair.certsOnFile (x : Pair) : Bool :=
  x.child.ca.classes.all fun q => decide (q.2.parent ≠ x.ph) ||
    match q.2.keys with
    | .active k =>
      match x.parent.ca.answer x.ch q.2.parentRcn with
      | some R => !seteq k.cert.res R ||
        (match x.parent.ca.issuedFor x.ch q.2.parentRcn k.id with
          | some cc => seteq cc.res R
          | none => false)
      | none => true
    | _ => true

/-- The coupling of a parent/child pair, decidable. -/
def Pair.coupled (x : Pair) : Bool :=
  x.childHasRepo && x.mappingInjective && x.noRequestLimits && x.classNamesDistinct && x.certsOnFile

theorem coupled_of_bool {x : Pair} (hp : Reachable x.parent) (hc : Reachable x.child)
    (h : x.coupled = true) (hnr : x.noRollInProgress = true) : Coupled x := by
  have hndC := (reachable_inv hc).core.nodup
  simp only [Pair.coupled, Bool.and_eq_true] at h
  obtain ⟨⟨⟨⟨h1, h2⟩, h3⟩, h4⟩, h5⟩ := h
  refine ⟨⟨hp, hc, h1, ?_⟩, h2, ?_, ?_, ?_⟩
  · intro r rc hg e he
    simp only [Pair.noRequestLimits, List.all_eq_true] at h3
    have := h3 (r, rc) (mem_of_get hg) e he
    cases hl : e.2.limit with
    | none => rfl
    | some l => rw [hl] at this; cases this
  · intro r1 r2 rc1 rc2 hg1 hg2 hp1 hp2 hname
    simp only [Pair.classNamesDistinct, decide_eq_true_eq] at h4
    have h1m : (r1, rc1) ∈ x.child.ca.classes.filter fun q => q.2.parent = x.ph :=
      List.mem_filter.mpr ⟨mem_of_get hg1, by simpa using hp1⟩
    have h2m : (r2, rc2) ∈ x.child.ca.classes.filter fun q => q.2.parent = x.ph :=
      List.mem_filter.mpr ⟨mem_of_get hg2, by simpa using hp2⟩
    have := eq_of_nodup_map (fun q : Rcn × Rc => q.2.parentRcn) h4 h1m h2m hname
    exact congrArg Prod.fst this
  · intro r rc hg hpar
    simp only [Pair.noRollInProgress, List.all_eq_true, Bool.or_eq_true, decide_eq_true_eq,
      Bool.not_eq_true'] at hnr
    rcases hnr (r, rc) (mem_of_get hg) with h | h
    · exact absurd hpar h
    · exact plain_of_not_rolling h
  · intro r rc k R hg hpar hk ha hse
    simp only [Pair.certsOnFile, List.all_eq_true, Bool.or_eq_true, decide_eq_true_eq] at h5
    rcases h5 (r, rc) (mem_of_get hg) with h | h
    · exact absurd hpar h
    · simp only [hk, ha, hse, Bool.not_true, Bool.false_or] at h
      cases hi : x.parent.ca.issuedFor x.ch rc.parentRcn k.id with
      | none => rw [hi] at h; cases h
      | some cc => rw [hi] at h; exact ⟨cc, rfl, h⟩

/-! ## Convergence -/

/-- After the entitlement branch every class under the parent is listed, hence answerable. -/
theorem PostE.answerable {x : Pair} {now na : Int} (h : PostE x now na) : Answerable x := by
  intro r rc hg hp _
  obtain ⟨⟨R, hoff⟩, _⟩ := h.cls r rc hg hp
  exact ⟨R, offers_answer h.coupled.names hoff⟩

/-- Two syncs from a coupled pair with nothing to send: entitlements, then requests. -/
theorem converges_from_quiet {x : Pair} (hc : Coupled x) (now na : Int) (f1 f2 : List KeyId)
    (hpend : x.child.ca.hasPendingRequests x.ph = false)
    (hlen : x.newClasses na ≤ f1.length) :
    Conv ((x.sync now na f1).sync now na f2) now na := by
  obtain ⟨hpost, _, _, _⟩ := syncE_spec hc now na f1 hpend hlen
  cases hp2 : (x.sync now na f1).child.ca.hasPendingRequests (x.sync now na f1).ph with
  | false =>
    have hconv := hpost.conv_of_quiet hp2
    rw [hconv.sync_eq f2]; exact hconv
  | true =>
    exact hpost.conv_of_requests (syncR_spec hpost.coupled.inv hpost.coupled.noroll hpost.answerable now na f2 hp2)

theorem ParentSame.classes_length {p p' : Ca} {ch : Handle} (h : ParentSame p p' ch)
    (hnd : (AMap.keys p.classes).Nodup) (hnd' : (AMap.keys p'.classes).Nodup) :
    p'.classes.length = p.classes.length := by
  have : (AMap.keys p'.classes).length = (AMap.keys p.classes).length := by
    apply length_eq_of_nodup_same hnd' hnd
    intro q
    rw [← get_isSome_iff_mem_keys, ← get_isSome_iff_mem_keys]
    have := h.keys q
    cases h1 : get p.classes q <;> cases h2 : get p'.classes q <;> simp_all
  simpa [AMap.keys] using this

theorem newClasses_le (x : Pair) (na : Int) : x.newClasses na ≤ x.parent.ca.classes.length := by
  unfold Pair.newClasses newEntitlements Ca.entitlementsFor
  cases get x.parent.ca.children x.ch with
  | none => exact Nat.zero_le _
  | some c => exact Nat.le_trans (List.length_filter_le _ _) (List.length_filterMap_le _ _)

/-- Three syncs from any coupled pair: (requests,) entitlements, requests.  New keys are needed
by the sync that fetches the entitlements: the first one when there is nothing to send, else the
second. -/
theorem converges_any {x : Pair} (hc : Coupled x) (hansw : Answerable x) (now na : Int) (f1 f2 f3 : List KeyId)
    (hf : if x.child.ca.hasPendingRequests x.ph then x.parent.ca.classes.length ≤ f2.length
      else x.newClasses na ≤ f1.length) :
    Conv (((x.sync now na f1).sync now na f2).sync now na f3) now na := by
  cases hpend : x.child.ca.hasPendingRequests x.ph with
  | false =>
    simp only [hpend, Bool.false_eq_true, if_false] at hf
    have hconv := converges_from_quiet hc now na f1 f2 hpend hf
    rw [hconv.sync_eq f3]; exact hconv
  | true =>
    simp only [hpend, if_true] at hf
    have hr := syncR_spec hc.inv hc.noroll hansw now na f1 hpend
    have hc1 := hr.coupled hc
    have hlen : (x.sync now na f1).parent.ca.classes.length = x.parent.ca.classes.length :=
      hr.same.classes_length (reachable_inv hc.inv.rp).core.nodup (reachable_inv hr.inv.rp).core.nodup
    exact converges_from_quiet hc1 now na f2 f3 hr.quiet
      (Nat.le_trans (newClasses_le _ _) (by rw [hlen]; exact hf))

/-- Every sync keeps the coupling. -/
theorem sync_coupled {x : Pair} (hc : Coupled x) (now na : Int) (f : List KeyId)
    (h : x.child.ca.hasPendingRequests x.ph = false → x.newClasses na ≤ f.length)
    (ha : x.child.ca.hasPendingRequests x.ph = true → Answerable x) :
    Coupled (x.sync now na f) := by
  cases hpend : x.child.ca.hasPendingRequests x.ph with
  | false => exact (syncE_spec hc now na f hpend (h hpend)).1.coupled
  | true => exact (syncR_spec hc.inv hc.noroll (ha hpend) now na f hpend).coupled hc

/-- A fixed point of `Pair.sync` stays where it is. -/
theorem syncs_of_fixed {y : Pair} {now na : Int} (h : ∀ f, y.sync now na f = y) :
    ∀ fs, y.syncs now na fs = y := by
  intro fs
  induction fs with
  | nil => rfl
  | cons f fs ih =>
    show (y.sync now na f).syncs now na fs = y
    rw [h f]; exact ih

/-! ## A change of the child's entitlement at the parent -/

/-- `ChildUpdateResources` at the parent: only the child's entitlement changes. -/
theorem childUpdateResources_spec {s : Sys} (hr : Reachable s) (ch : Handle) (res : ResSet) :
    Reachable (s.next (.childUpdateResources ch res)) ∧
    (s.next (.childUpdateResources ch res)).ca.classes = s.ca.classes ∧
    ((get (s.next (.childUpdateResources ch res)).ca.children ch = get s.ca.children ch) ∨
     ∃ c, get s.ca.children ch = some c ∧
       get (s.next (.childUpdateResources ch res)).ca.children ch = some { c with res := res }) := by
  refine ⟨Reachable.step _ hr, ?_⟩
  unfold Sys.next
  cases hex : s.exec (.childUpdateResources ch res) with
  | refused e => exact ⟨rfl, Or.inl rfl⟩
  | panic => exact ⟨rfl, Or.inl rfl⟩
  | listenerError e => exact ⟨rfl, Or.inl rfl⟩
  | stored evs s' =>
    simp only
    obtain ⟨hp, hrun⟩ := exec_stored_iff.mp hex
    obtain ⟨ca', o'⟩ := s'
    have happ := (runEvs_some_iff.mp hrun).1
    simp only [Ca.process] at hp
    split at hp
    · cases hp
    · cases hc : get s.ca.children ch with
      | none => rw [hc] at hp; cases hp
      | some c =>
        rw [hc] at hp
        simp only at hp
        split at hp
        · simp only [Except.ok.injEq] at hp; subst hp
          simp only [Ca.applyAll, Option.some.injEq] at happ; subst happ
          exact ⟨rfl, Or.inl hc⟩
        · simp only [Except.ok.injEq] at hp; subst hp
          simp only [Ca.applyAll, Ca.apply, Ca.withChild, hc, Option.bind_some, Option.some.injEq] at happ
          subst happ
          exact ⟨rfl, Or.inr ⟨c, rfl, get_set_self _ _ _⟩⟩

/-- From a converged pair, a change of the child's entitlement at the parent keeps the coupling:
the hypotheses of the convergence theorems hold again. -/
theorem Conv.coupled_after_resources_change {x : Pair} {now na : Int} (h : Conv x now na) (res : ResSet) :
    Coupled { x with parent := x.parent.next (.childUpdateResources x.ch res) } := by
  have hc := h.coupled
  obtain ⟨hr', hcls, hchild⟩ := childUpdateResources_spec hc.inv.rp x.ch res
  refine ⟨⟨hr', hc.inv.rc, hc.inv.repo, hc.inv.nolim⟩, ?_, hc.uniq, hc.noroll, ?_⟩
  · -- the class names still translate back
    show (x.parent.next (.childUpdateResources x.ch res)).ca.namesOk x.ch = true
    have hn := hc.names
    unfold Ca.namesOk at hn ⊢
    rw [hcls]
    rcases hchild with h1 | ⟨c, h1, h2⟩
    · rw [h1]; exact hn
    · rw [h2]; rw [h1] at hn
      simp only [List.all_eq_true, decide_eq_true_eq] at hn ⊢
      intro q hq
      have e1 : ({ c with res := res } : Child).nameForChild q = c.nameForChild q := nameForChild_congr rfl q
      have e2 : ∀ n, ({ c with res := res } : Child).nameInParent n = c.nameInParent n := nameInParent_congr rfl
      rw [e1, e2]; exact hn q hq
  · -- certificates on file
    intro r rc k R hg hp hk ha hse
    obtain ⟨k0, R0, hk0, _, ho0, hw0⟩ := h.cls r rc hg hp
    rw [hk] at hk0; cases hk0
    have ha0 := offers_answer hc.names ho0
    have hse0 : seteq k.cert.res R0 = true := seteq_symm (seteq_of_not_wantsUpdate hw0)
    obtain ⟨cc, hcc, hres⟩ := hc.booked r rc k R0 hg hp hk ha0 hse0
    refine ⟨cc, ?_, seteq_trans hres (seteq_trans (seteq_symm hse0) hse)⟩
    show (x.parent.next (.childUpdateResources x.ch res)).ca.issuedFor x.ch rc.parentRcn k.id = some cc
    rw [issuedFor_eq] at hcc ⊢
    rcases hchild with h1 | ⟨c, h1, h2⟩
    · rw [h1]; simp only [Ca.issuedIn, hcls]; exact hcc
    · rw [h2]; rw [h1] at hcc
      simp only [Ca.issuedIn, hcls] at hcc ⊢
      exact hcc


/-- … and the child still has nothing to send. -/
theorem Conv.quiet {x : Pair} {now na : Int} (h : Conv x now na) : x.child.ca.hasPendingRequests x.ph = false := by
  rw [hasPendingRequests_false_iff (reachable_inv h.coupled.inv.rc).core.nodup]
  intro r rc hg hp
  exact settled_not_pending (h.cls r rc hg hp)

end KM.CaK
