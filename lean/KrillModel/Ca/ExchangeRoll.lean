/-
Helper lemmas for C02 (`exchange_converges` with a key roll of the child in progress): the
commands of the exchange on classes in ANY key state – a received certificate routed as
`process_received_cert` routes it, the revocation of the old key with `KeyRollFinish`, the
activation of the new keys – and the request branch of `Pair.sync` as `KeyState.syncStep`.
No property statements.
-/
import KrillModel.Ca.ExchangeLemmas
import KrillModel.Ca.LemmasNoOver
namespace KM.CaK
open KM.Res KM.AMap

/-! ## No suspended child certificates -/

/-- The CA has no suspended child certificate (krill suspends children only when
`suspend_child_after_inactive_hours` is configured). -/
def NoSusp (s : Ca) : Prop := ∀ r rc, get s.classes r = some rc → rc.certs.suspended = []

theorem del_nil' {K V : Type} [DecidableEq K] (k : K) : del ([] : AMap K V) k = [] := rfl

theorem suspended_foldl_addIssued_nil (l : List (KeyId × ChildCert)) {cs : ChildCerts} (h : cs.suspended = []) :
    (l.foldl ChildCerts.addIssued cs).suspended = [] := by
  induction l generalizing cs with
  | nil => exact h
  | cons p t ih => exact ih (by simp only [ChildCerts.addIssued, h]; rfl)

theorem suspended_foldl_removeRevoked_nil (l : List KeyId) {cs : ChildCerts} (h : cs.suspended = []) :
    (l.foldl ChildCerts.removeRevoked cs).suspended = [] := by
  induction l generalizing cs with
  | nil => exact h
  | cons p t ih => exact ih (by simp only [ChildCerts.removeRevoked, h]; rfl)

theorem applyUpd_suspended_nil {cs : ChildCerts} {u : CertUpd} (h : cs.suspended = [])
    (hs : u.suspended = []) (hu : u.unsuspended = []) : (cs.applyUpd u).suspended = [] := by
  simp only [ChildCerts.applyUpd, hs, hu, List.foldl_nil]
  exact suspended_foldl_removeRevoked_nil _ (suspended_foldl_addIssued_nil _ h)

theorem shrinkOverclaiming_nice {cs : ChildCerts} (h : cs.noLimits) (rcvd : Cert) (na : Int) :
    ∃ upd, cs.shrinkOverclaiming rcvd na = .ok upd ∧ (cs.applyUpd upd).noLimits ∧
      (cs.suspended = [] → (cs.applyUpd upd).suspended = []) := by
  obtain ⟨iss, rem1, h1, hi⟩ := shrinkList_noLimit cs.issued rcvd na (fun e he => h e (List.mem_append_left _ he))
  obtain ⟨sus, rem2, h2, hs⟩ := shrinkList_noLimit cs.suspended rcvd na (fun e he => h e (List.mem_append_right _ he))
  refine ⟨{ issued := iss, removed := rem1 ++ rem2, suspended := sus }, ?_, noLimits_applyUpd h hi hs rfl, ?_⟩
  · simp only [ChildCerts.shrinkOverclaiming, h1, h2]
  · intro hsus
    rw [hsus] at h2
    simp only [shrinkList, Except.ok.injEq, Prod.mk.injEq] at h2
    exact applyUpd_suspended_nil hsus h2.1.symm rfl

/-! ## A received certificate, any key state -/

/-- The events of `process_rcvd_cert_current` on the class record. -/
theorem rcvdCertCurrent_events {rc : Rc} (r : Rcn) (c0 : CertKey) {ki : KeyId} {cert : Cert} {ks' : KeyState}
    (hnl : rc.certs.noLimits) (na : Int) (happ : rc.keys.applyReceived ki cert = some ks') :
    ∃ evs rc', rc.rcvdCertCurrent r c0 ki cert na [] = .ok evs ∧ (∀ e ∈ evs, e.onClass r = true) ∧
      rc.applyEvs evs = some rc' ∧ rc'.parent = rc.parent ∧ rc'.parentRcn = rc.parentRcn ∧ rc'.keys = ks' ∧
      rc'.certs.noLimits ∧ (rc.certs.suspended = [] → rc'.certs.suspended = []) := by
  by_cases hse : seteq cert.res c0.cert.res = true
  · refine ⟨[.key r (.received ki cert)], { rc with keys := ks' }, ?_, ?_, ?_, rfl, rfl, rfl, hnl, fun h => h⟩
    · simp [Rc.rcvdCertCurrent, hse]
    · intro e he; simp only [List.mem_singleton] at he; subst he; simp [Ev.onClass]
    · simp [Rc.applyEvs, Rc.applyEv, KeyState.apply, happ]
  · obtain ⟨upd, hupd, hnl', hsus'⟩ := shrinkOverclaiming_nice hnl cert na
    by_cases hemp : upd.isEmpty = true
    · refine ⟨[.key r (.received ki cert)], { rc with keys := ks' }, ?_, ?_, ?_, rfl, rfl, rfl, hnl, fun h => h⟩
      · simp [Rc.rcvdCertCurrent, hse, hupd, hemp]
      · intro e he; simp only [List.mem_singleton] at he; subst he; simp [Ev.onClass]
      · simp [Rc.applyEvs, Rc.applyEv, KeyState.apply, happ]
    · refine ⟨[.key r (.received ki cert), .childCerts r upd],
        { rc with keys := ks', certs := rc.certs.applyUpd upd }, ?_, ?_, ?_, rfl, rfl, rfl, hnl', hsus'⟩
      · simp [Rc.rcvdCertCurrent, hse, hupd, hemp]
      · intro e he
        simp only [List.mem_cons, List.mem_nil_iff, or_false] at he
        rcases he with rfl | rfl <;> simp [Ev.onClass]
      · simp [Rc.applyEvs, Rc.applyEv, KeyState.apply, happ]

/-- `UpdateRcvdCert` for a key the class routes (`process_received_cert`), in a reachable CA
without request limits: the command is stored and the key state is `KeyState.receive`; nothing
else of the class map changes. -/
theorem recv_gen {s : Sys} (hr : Reachable s) (hnl : NoLimits s.ca) (hns : NoSusp s.ca) {r : Rcn} {rc : Rc}
    {ki : KeyId} {rt : Route} (hg : get s.ca.classes r = some rc) (hroute : rc.keys.route ki = .ok rt)
    (cert : Cert) (na : Int) :
    ∃ s', s.next (.updateRcvdCert r ki cert na []) = s' ∧ s.receiveOrDrop r ki cert na = s' ∧
      Reachable s' ∧ NoLimits s'.ca ∧ NoSusp s'.ca ∧
      s'.ca.hasRepo = s.ca.hasRepo ∧ (∀ r2, r2 ≠ r → get s'.ca.classes r2 = get s.ca.classes r2) ∧
      ∃ rc', get s'.ca.classes r = some rc' ∧ rc'.parent = rc.parent ∧ rc'.parentRcn = rc.parentRcn ∧
        rc'.keys = rc.keys.receive ki cert := by
  have hev : ∃ evs rc', s.ca.process (.updateRcvdCert r ki cert na []) = .ok evs ∧
      (∀ e ∈ evs, e.onClass r = true) ∧ rc.applyEvs evs = some rc' ∧
      rc'.parent = rc.parent ∧ rc'.parentRcn = rc.parentRcn ∧ rc'.keys = rc.keys.receive ki cert ∧
      rc'.certs.noLimits ∧ (rc.certs.suspended = [] → rc'.certs.suspended = []) := by
    have hnlr := hnl r rc hg
    -- the three routes that are not `current`
    cases rt with
    | toActive =>
      cases hks : rc.keys with
      | pending p =>
        refine ⟨[.key r (.pendingToActive (CertKey.create ki cert))],
          { rc with keys := .active (CertKey.create ki cert) }, ?_, ?_, ?_, rfl, rfl, ?_, hnlr, fun h => h⟩
        · simp [Ca.process, hg, hroute]
        · intro e he; simp only [List.mem_singleton] at he; subst he; simp [Ev.onClass]
        · simp [Rc.applyEvs, Rc.applyEv, hks, KeyState.apply, KeyState.applyPendingToActive]
        · rw [hks] at hroute
          simp [KeyState.receive, hroute, KeyState.applyPendingToActive]
      | active c => rw [hks] at hroute; simp only [KeyState.route] at hroute; split at hroute <;> cases hroute
      | rollPending p c => rw [hks] at hroute; simp only [KeyState.route] at hroute; repeat (split at hroute <;> try cases hroute)
      | rollNew n c => rw [hks] at hroute; simp only [KeyState.route] at hroute; repeat (split at hroute <;> try cases hroute)
      | rollOld c o => rw [hks] at hroute; simp only [KeyState.route] at hroute; split at hroute <;> cases hroute
    | toNew =>
      cases hks : rc.keys with
      | rollPending p c =>
        refine ⟨[.key r (.pendingToNew (CertKey.create ki cert))],
          { rc with keys := .rollNew (CertKey.create ki cert) c }, ?_, ?_, ?_, rfl, rfl, ?_, hnlr, fun h => h⟩
        · simp [Ca.process, hg, hroute]
        · intro e he; simp only [List.mem_singleton] at he; subst he; simp [Ev.onClass]
        · simp [Rc.applyEvs, Rc.applyEv, hks, KeyState.apply, KeyState.applyPendingToNew]
        · rw [hks] at hroute
          simp [KeyState.receive, hroute, KeyState.applyPendingToNew]
      | pending p => rw [hks] at hroute; simp only [KeyState.route] at hroute; split at hroute <;> cases hroute
      | active c => rw [hks] at hroute; simp only [KeyState.route] at hroute; split at hroute <;> cases hroute
      | rollNew n c => rw [hks] at hroute; simp only [KeyState.route] at hroute; repeat (split at hroute <;> try cases hroute)
      | rollOld c o => rw [hks] at hroute; simp only [KeyState.route] at hroute; split at hroute <;> cases hroute
    | newCert =>
      cases hks : rc.keys with
      | rollNew n c =>
        have hki : ki = n.id := by
          rw [hks] at hroute; simp only [KeyState.route] at hroute
          split at hroute
          · assumption
          · split at hroute <;> cases hroute
        subst hki
        refine ⟨[.key r (.received n.id cert)], { rc with keys := .rollNew (n.setIncoming cert) c },
          ?_, ?_, ?_, rfl, rfl, ?_, hnlr, fun h => h⟩
        · simp [Ca.process, hg, hroute]
        · intro e he; simp only [List.mem_singleton] at he; subst he; simp [Ev.onClass]
        · simp [Rc.applyEvs, Rc.applyEv, hks, KeyState.apply, KeyState.applyReceived]
        · rw [hks] at hroute
          simp [KeyState.receive, hroute, KeyState.applyReceived]
      | pending p => rw [hks] at hroute; simp only [KeyState.route] at hroute; split at hroute <;> cases hroute
      | active c => rw [hks] at hroute; simp only [KeyState.route] at hroute; split at hroute <;> cases hroute
      | rollPending p c => rw [hks] at hroute; simp only [KeyState.route] at hroute; repeat (split at hroute <;> try cases hroute)
      | rollOld c o => rw [hks] at hroute; simp only [KeyState.route] at hroute; split at hroute <;> cases hroute
    | current c0 =>
      -- `apply_received_cert` never panics here
      have happ : ∃ ks', rc.keys.applyReceived ki cert = some ks' := by
        cases hks : rc.keys with
        | pending p => rw [hks] at hroute; simp only [KeyState.route] at hroute; split at hroute <;> cases hroute
        | active c => exact ⟨_, rfl⟩
        | rollPending p c => exact ⟨_, rfl⟩
        | rollNew n c => simp only [KeyState.applyReceived]; split <;> exact ⟨_, rfl⟩
        | rollOld c o => simp only [KeyState.applyReceived]; split <;> exact ⟨_, rfl⟩
      obtain ⟨ks', hks'⟩ := happ
      obtain ⟨evs, rc', h1, h2, h3, h4, h5, h6, h7, h8⟩ := rcvdCertCurrent_events r c0 hnlr na hks'
      refine ⟨evs, rc', ?_, h2, h3, h4, h5, ?_, h7, h8⟩
      · simp only [Ca.process, hg, hroute, h1]
      · rw [h6]; simp [KeyState.receive, hroute, hks']
  obtain ⟨evs, rc', hp, hon, happl, h1, h2, h3, h4, h5⟩ := hev
  obtain ⟨s', hex, happ, hr'⟩ := stored_of_process hr (c := _) (by exact trivial) hp
  have hn : s.next (.updateRcvdCert r ki cert na []) = s' := by unfold Sys.next; rw [hex]
  have hrd : s.receiveOrDrop r ki cert na = s' := by unfold Sys.receiveOrDrop; rw [hex]
  obtain ⟨rc'', ha, hb, hc, _, he, _, _, _⟩ := applyAll_of_rc hon hg happ
  rw [happl] at ha; cases ha
  refine ⟨s', hn, hrd, hr', ?_, ?_, he, hc, rc', hb, h1, h2, h3⟩
  · intro r2 rc2 hg2
    by_cases hr2 : r2 = r
    · subst hr2; rw [hb] at hg2; cases hg2; exact h4
    · rw [hc r2 hr2] at hg2; exact hnl r2 rc2 hg2
  · intro r2 rc2 hg2
    by_cases hr2 : r2 = r
    · subst hr2; rw [hb] at hg2; cases hg2; exact h5 (hns r2 rc hg)
    · rw [hc r2 hr2] at hg2; exact hns r2 rc2 hg2

/-! ## `KeyRollFinish` and `DropResourceClass` -/

theorem finish_spec {s : Sys} (hr : Reachable s) (hnl : NoLimits s.ca) (hns : NoSusp s.ca) {r : Rcn} {rc : Rc}
    {c o : CertKey} (hg : get s.ca.classes r = some rc) (hk : rc.keys = .rollOld c o) :
    ∃ s', s.next (.keyrollFinish r) = s' ∧ Reachable s' ∧ NoLimits s'.ca ∧ NoSusp s'.ca ∧
      s'.ca.hasRepo = s.ca.hasRepo ∧ (∀ r2, r2 ≠ r → get s'.ca.classes r2 = get s.ca.classes r2) ∧
      get s'.ca.classes r = some { rc with keys := .active c } := by
  have hp : s.ca.process (.keyrollFinish r) = .ok [.key r .finished] := by
    simp [Ca.process, hg, hk, KeyState.keyrollFinish]
  obtain ⟨s', hex, happ, hr'⟩ := stored_of_process hr (c := _) (by exact trivial) hp
  have hn : s.next (.keyrollFinish r) = s' := by unfold Sys.next; rw [hex]
  simp only [Ca.applyAll, Ca.apply, Ca.withClass, hg, hk, KeyState.apply, KeyState.applyFinished,
    Option.map_some, Option.bind_some, Option.some.injEq] at happ
  have hcls : ∀ r2, get s'.ca.classes r2 = if r = r2 then some { rc with keys := .active c } else get s.ca.classes r2 := by
    intro r2; rw [← happ]; simp only [get_set]
  refine ⟨s', hn, hr', ?_, ?_, by rw [← happ], ?_, by rw [hcls]; simp⟩
  · intro r2 rc2 hg2
    rw [hcls] at hg2
    split at hg2
    · cases hg2; exact hnl r rc hg
    · exact hnl r2 rc2 hg2
  · intro r2 rc2 hg2
    rw [hcls] at hg2
    split at hg2
    · cases hg2; exact hns r rc hg
    · exact hns r2 rc2 hg2
  · intro r2 hr2
    rw [hcls]
    split
    · rename_i h; exact absurd h.symm hr2
    · rfl

theorem drop_gen {s : Sys} (hr : Reachable s) (hnl : NoLimits s.ca) (hns : NoSusp s.ca) {r : Rcn} {rc : Rc}
    (hg : get s.ca.classes r = some rc) :
    ∃ s', s.next (.dropClass r) = s' ∧ Reachable s' ∧ NoLimits s'.ca ∧ NoSusp s'.ca ∧
      s'.ca.hasRepo = s.ca.hasRepo ∧ (∀ r2, r2 ≠ r → get s'.ca.classes r2 = get s.ca.classes r2) ∧
      get s'.ca.classes r = none := by
  obtain ⟨d1, d2, d3, _, d5, d6⟩ := drop_spec hr hnl hg
  refine ⟨_, rfl, d1, d2, ?_, d3, d5, d6⟩
  intro r2 rc2 hg2
  by_cases hr2 : r2 = r
  · subst hr2; rw [d6] at hg2; cases hg2
  · rw [d5 r2 hr2] at hg2; exact hns r2 rc2 hg2

/-! ## A revocation request at the parent -/

/-- A revocation request for a key the parent has in use for the child in the class the request
names: the request is stored; the parent is what it was for the exchange; only that key's
certificate and in-use mark change. -/
theorem revoke_stored {s : Sys} (hr : Reachable s) {ch : Handle} {n : Rcn} {ki : KeyId} {c : Child}
    (hc : get s.ca.children ch = some c) (hused : get c.usedKeys ki = some (.inUse (c.nameInParent n))) :
    ∃ evs s', s.exec (.childRevokeKey ch n ki) = .stored evs s' ∧ Reachable s' ∧ ParentSame s.ca s'.ca ch ∧
      (∀ q k, k ≠ ki → s'.ca.issuedIn q k = s.ca.issuedIn q k) ∧
      ∃ c', get s'.ca.children ch = some c' ∧ c'.res = c.res ∧ c'.rcnMap = c.rcnMap ∧
        ∀ k, k ≠ ki → get c'.usedKeys k = get c.usedKeys k := by
  cases hq : get s.ca.classes (c.nameInParent n) with
  | none =>
    have hp : s.ca.process (.childRevokeKey ch n ki) = .ok [] := by simp [Ca.process, hc, hq]
    obtain ⟨s', hex, happ, hr'⟩ := stored_of_process hr (c := _) (by
      intro cd rc0 hcd hcls; rw [hc] at hcd; cases hcd; rw [hq] at hcls; cases hcls) hp
    simp only [Ca.applyAll, Option.some.injEq] at happ
    refine ⟨[], s', hex, hr', ?_, ?_, c, by rw [← happ]; exact hc, rfl, rfl, fun _ _ => rfl⟩
    · rw [← happ]; exact ParentSame.refl _ _
    · intro q k _; rw [← happ]
  | some rc =>
    have hiss : c.isIssued ki = true := by simp [Child.isIssued, hused]
    have hp : s.ca.process (.childRevokeKey ch n ki) =
        .ok [.childKeyRevoked ch (c.nameInParent n) ki, .childCerts (c.nameInParent n) { removed := [ki] }] := by
      simp [Ca.process, hc, hq, hiss, hused]
    obtain ⟨s', hex, happ, hr'⟩ := stored_of_process hr (c := _) (by
      intro cd rc0 hcd hcls
      rw [hc] at hcd; cases hcd
      exact ((reachable_inv hr).used ch c ki _ hc hused).2 rc0 hcls) hp
    refine ⟨_, s', hex, hr', ?_⟩
    simp only [Ca.applyAll, Ca.apply, Ca.withClass, hq, Ca.withChild, hc, Option.bind_some, get_set_self,
      List.foldl_cons, List.foldl_nil, Option.some.injEq] at happ
    have hcls : ∀ q, ∃ rc', get s'.ca.classes q = (if c.nameInParent n = q then some rc' else get s.ca.classes q) ∧
        rc'.keys = rc.keys ∧ ∀ k, k ≠ ki → get rc'.certs.issued k = get rc.certs.issued k := by
      intro q
      refine ⟨{ rc with certs := (rc.certs.removeRevoked ki).applyUpd { removed := [ki] } }, ?_, rfl, ?_⟩
      · rw [← happ]; simp only [get_set]
        split <;> rfl
      · intro k hk
        have hk' : ki ≠ k := fun h => hk h.symm
        simp [ChildCerts.applyUpd, ChildCerts.removeRevoked, get_del_ne _ hk']
    have hchild : get s'.ca.children ch = some { c with usedKeys := set c.usedKeys ki .revoked } := by
      rw [← happ]
      simp only [get_revokeEverywhere, get_set_self, Option.map_some]
      simp [Child.isIssued, get_set_self]
    refine ⟨⟨?_, ?_⟩, ?_, _, hchild, rfl, rfl, ?_⟩
    · intro q
      obtain ⟨rc', h1, h2, _⟩ := hcls q
      rw [h1]
      split
      · rename_i heq; subst heq; rw [hq]; simp [h2]
      · rfl
    · rw [hchild, hc]; rfl
    · intro q k hk
      obtain ⟨rc', h1, _, h3⟩ := hcls q
      simp only [Ca.issuedIn, h1]
      by_cases heq : c.nameInParent n = q
      · simp only [heq, if_true]
        subst heq; rw [hq]; exact h3 k hk
      · simp only [heq, if_false]
    · intro k hk
      exact get_set_ne _ _ (fun h => hk h.symm)

/-! ## Routing of the open requests of a class -/

/-- The keys `process_received_cert` accepts a certificate for. -/
def KeyState.routed : KeyState → List KeyId
  | .pending p => [p.id]
  | .active c => [c.id]
  | .rollPending p c => [p.id, c.id]
  | .rollNew n c => [n.id, c.id]
  | .rollOld c _ => [c.id]

theorem route_ok_iff (ks : KeyState) (ki : KeyId) : (∃ rt, ks.route ki = .ok rt) ↔ ki ∈ ks.routed := by
  cases ks with
  | pending p => by_cases h : ki = p.id <;> simp [KeyState.route, KeyState.routed, h]
  | active c => by_cases h : ki = c.id <;> simp [KeyState.route, KeyState.routed, h]
  | rollOld c o => by_cases h : ki = c.id <;> simp [KeyState.route, KeyState.routed, h]
  | rollPending p c =>
    by_cases h : ki = p.id
    · simp [KeyState.route, KeyState.routed, h]
    · by_cases h2 : ki = c.id
      · subst h2; simp [KeyState.route, KeyState.routed, h]
      · simp [KeyState.route, KeyState.routed, h, h2]
  | rollNew n c =>
    by_cases h : ki = n.id
    · simp [KeyState.route, KeyState.routed, h]
    · by_cases h2 : ki = c.id
      · subst h2; simp [KeyState.route, KeyState.routed, h]
      · simp [KeyState.route, KeyState.routed, h, h2]

theorem routed_receive (ks : KeyState) (ki : KeyId) (cert : Cert) : (ks.receive ki cert).routed = ks.routed := by
  cases ks with
  | pending p =>
    by_cases h : ki = p.id <;>
      simp [KeyState.receive, KeyState.route, h, KeyState.applyPendingToActive, KeyState.routed, create_id]
  | active c =>
    by_cases h : ki = c.id <;>
      simp [KeyState.receive, KeyState.route, h, KeyState.applyReceived, KeyState.routed, setIncoming_id]
  | rollOld c o =>
    by_cases h : ki = c.id <;>
      simp [KeyState.receive, KeyState.route, h, KeyState.applyReceived, KeyState.routed, setIncoming_id]
  | rollPending p c =>
    by_cases h : ki = p.id
    · simp [KeyState.receive, KeyState.route, h, KeyState.applyPendingToNew, KeyState.routed, create_id]
    · by_cases h2 : ki = c.id
      · subst h2
        simp [KeyState.receive, KeyState.route, h, KeyState.applyReceived, KeyState.routed, setIncoming_id]
      · simp [KeyState.receive, KeyState.route, h, h2, KeyState.routed]
  | rollNew n c =>
    by_cases h : ki = n.id
    · simp [KeyState.receive, KeyState.route, h, KeyState.applyReceived, KeyState.routed, setIncoming_id]
    · by_cases h2 : ki = c.id
      · subst h2
        have h' : ¬ n.id = c.id := fun e => h e.symm
        simp [KeyState.receive, KeyState.route, h, KeyState.applyReceived, KeyState.routed, setIncoming_id, h']
      · simp [KeyState.receive, KeyState.route, h, h2, KeyState.routed]

theorem wf_receive {ks : KeyState} (hwf : ks.wf = true) (ki : KeyId) (cert : Cert) :
    (ks.receive ki cert).wf = true := by
  cases ks with
  | pending p =>
    by_cases h : ki = p.id <;>
      simp [KeyState.receive, KeyState.route, h, KeyState.applyPendingToActive, KeyState.wf]
  | active c =>
    by_cases h : ki = c.id <;>
      simp [KeyState.receive, KeyState.route, h, KeyState.applyReceived, KeyState.wf]
  | rollOld c o =>
    simp only [KeyState.wf, Bool.and_eq_true, Bool.not_eq_true', decide_eq_true_eq] at hwf
    by_cases h : ki = c.id <;>
      simp [KeyState.receive, KeyState.route, h, KeyState.applyReceived, KeyState.wf, setIncoming_id, hwf.1, hwf.2]
  | rollPending p c =>
    have hne : p.id ≠ c.id := by simpa [KeyState.wf] using hwf
    by_cases h : ki = p.id
    · simp [KeyState.receive, KeyState.route, h, KeyState.applyPendingToNew, KeyState.wf, create_id, hne]
    · by_cases h2 : ki = c.id
      · subst h2
        simp [KeyState.receive, KeyState.route, h, KeyState.applyReceived, KeyState.wf, setIncoming_id, hne]
      · simp [KeyState.receive, KeyState.route, h, h2, KeyState.wf, hne]
  | rollNew n c =>
    have hne : n.id ≠ c.id := by simpa [KeyState.wf] using hwf
    by_cases h : ki = n.id
    · simp [KeyState.receive, KeyState.route, h, KeyState.applyReceived, KeyState.wf, setIncoming_id, hne]
    · by_cases h2 : ki = c.id
      · subst h2
        simp [KeyState.receive, KeyState.route, h, KeyState.applyReceived, KeyState.wf, setIncoming_id, hne]
      · simp [KeyState.receive, KeyState.route, h, h2, KeyState.wf, hne]

theorem certRequests_sub_routed {ks : KeyState} (hwf : ks.wf = true) : ∀ ki ∈ ks.certRequests, ki ∈ ks.routed := by
  intro ki h
  cases ks with
  | pending p => simp only [KeyState.certRequests] at h; split at h <;> simp_all [KeyState.routed]
  | active c => simp only [KeyState.certRequests] at h; split at h <;> simp_all [KeyState.routed]
  | rollPending p c =>
    simp only [KeyState.certRequests, List.mem_append] at h
    rcases h with h | h <;> split at h <;> simp_all [KeyState.routed]
  | rollNew n c =>
    simp only [KeyState.certRequests, List.mem_append] at h
    rcases h with h | h <;> split at h <;> simp_all [KeyState.routed]
  | rollOld c o =>
    simp only [KeyState.wf, Bool.and_eq_true, Bool.not_eq_true', decide_eq_true_eq] at hwf
    simp only [KeyState.certRequests, hwf.1, Bool.false_eq_true, if_false, List.append_nil] at h
    split at h <;> simp_all [KeyState.routed]

theorem certRequests_nodup {ks : KeyState} (hwf : ks.wf = true) : ks.certRequests.Nodup := by
  cases ks with
  | pending p => simp only [KeyState.certRequests]; split <;> simp
  | active c => simp only [KeyState.certRequests]; split <;> simp
  | rollPending p c =>
    have hne : p.id ≠ c.id := by simpa [KeyState.wf] using hwf
    simp only [KeyState.certRequests]; split <;> split <;> simp [hne]
  | rollNew n c =>
    have hne : n.id ≠ c.id := by simpa [KeyState.wf] using hwf
    simp only [KeyState.certRequests]; split <;> split <;> simp [hne]
  | rollOld c o =>
    simp only [KeyState.wf, Bool.and_eq_true, Bool.not_eq_true', decide_eq_true_eq] at hwf
    simp only [KeyState.certRequests, hwf.1]; split <;> simp

/-- The key state after the confirmed revocation (`KeyRollFinish`). -/
def KeyState.finished : KeyState → KeyState
  | .rollOld c _ => .active c
  | ks => ks

theorem certRequests_finished {ks : KeyState} (hwf : ks.wf = true) : ks.finished.certRequests = ks.certRequests := by
  cases ks with
  | rollOld c o =>
    simp only [KeyState.wf, Bool.and_eq_true, Bool.not_eq_true', decide_eq_true_eq] at hwf
    simp [KeyState.finished, KeyState.certRequests, hwf.1]
  | _ => rfl

theorem wf_finished {ks : KeyState} (hwf : ks.wf = true) : ks.finished.wf = true := by
  cases ks <;> simp_all [KeyState.finished, KeyState.wf]

theorem syncStep_pending_eq {ks : KeyState} (hp : ks.hasPending = true) (o : Offer) (now : Int) :
    ks.syncStep o now = ks.finished.certRequests.foldl (fun k ki => k.receive ki o.cert) ks.finished := by
  unfold KeyState.syncStep
  simp only [hp, if_true]
  cases ks <;> rfl

/-! ## Certificate requests of one class, any key state -/

/-- What every step keeps on both sides (with a key roll possibly in progress). -/
structure PairInv2 (x : Pair) : Prop where
  base : PairInv x
  nosusp : NoSusp x.child.ca

/-- The in-use marks of the child's keys at the parent after some certificate requests for keys
in `K` of the class named `n`: untouched, or marked in use in the class the name stands for. -/
def UsedRel (p p' : Ca) (ch : Handle) (n : Rcn) (K : List KeyId) : Prop :=
  ∀ c, get p.children ch = some c → ∃ c', get p'.children ch = some c' ∧ c'.rcnMap = c.rcnMap ∧
    ∀ k, get c'.usedKeys k = get c.usedKeys k ∨ (k ∈ K ∧ get c'.usedKeys k = some (.inUse (c.nameInParent n)))

theorem UsedRel.refl (p : Ca) (ch : Handle) (n : Rcn) (K : List KeyId) : UsedRel p p ch n K :=
  fun c hc => ⟨c, hc, rfl, fun _ => Or.inl rfl⟩

theorem UsedRel.trans {a b c : Ca} {ch : Handle} {n : Rcn} {K : List KeyId} (h1 : UsedRel a b ch n K)
    (h2 : UsedRel b c ch n K) : UsedRel a c ch n K := by
  intro ca hca
  obtain ⟨cb, hcb, hm1, hk1⟩ := h1 ca hca
  obtain ⟨cc, hcc, hm2, hk2⟩ := h2 cb hcb
  refine ⟨cc, hcc, hm2.trans hm1, ?_⟩
  intro k
  rcases hk2 k with h | ⟨hK, h⟩
  · rcases hk1 k with h' | ⟨hK, h'⟩
    · exact Or.inl (h.trans h')
    · exact Or.inr ⟨hK, h.trans h'⟩
  · exact Or.inr ⟨hK, by rw [h, nameInParent_congr hm1]⟩

/-- Some certificate requests of class `r` (named `n`, keys among `K`) with their responses. -/
structure CertStep (y y' : Pair) (r : Rcn) (n : Rcn) (K : List KeyId) : Prop where
  ch : y'.ch = y.ch
  ph : y'.ph = y.ph
  inv : PairInv2 y'
  same : ParentSame y.parent.ca y'.parent.ca y.ch
  frame : ∀ r2, r2 ≠ r → get y'.child.ca.classes r2 = get y.child.ca.classes r2
  book : BookRel y.parent.ca y'.parent.ca y.ch
  used : UsedRel y.parent.ca y'.parent.ca y.ch n K

theorem CertStep.refl {y : Pair} (h : PairInv2 y) (r n : Rcn) (K : List KeyId) : CertStep y y r n K :=
  ⟨rfl, rfl, h, ParentSame.refl _ _, fun _ _ => rfl, BookRel.refl _ _, UsedRel.refl _ _ _ _⟩

theorem CertStep.trans {a b c : Pair} {r n : Rcn} {K : List KeyId} (h1 : CertStep a b r n K)
    (h2 : CertStep b c r n K) : CertStep a c r n K := by
  have hs2 := h2.same; have hb2 := h2.book; have hu2 := h2.used
  rw [h1.ch] at hs2 hb2 hu2
  exact ⟨h2.ch.trans h1.ch, h2.ph.trans h1.ph, h2.inv, h1.same.trans hs2,
    fun r2 hr2 => (h2.frame r2 hr2).trans (h1.frame r2 hr2), h1.book.trans hb2 hs2, h1.used.trans hu2⟩

/-- A request the parent does not answer changes nothing. -/
theorem certRequest_of_no_answer {y : Pair} (r n : Rcn) (ki : KeyId) (na : Int)
    (ha : y.parent.ca.answer y.ch n = none) : y.certRequest r n ki na = y := by
  obtain ⟨e, hex⟩ := certify_refused (s := y.parent) ki na ha
  unfold Pair.certRequest; rw [hex]

/-- One certificate request for a key the class routes, with its response. -/
theorem certRequest_gen {y : Pair} (hinv : PairInv2 y) {r : Rcn} {rc : Rc} {ki : KeyId}
    (hg : get y.child.ca.classes r = some rc) (hroute : ki ∈ rc.keys.routed) (na : Int)
    (K : List KeyId) (hK : ki ∈ K) :
    CertStep y (y.certRequest r rc.parentRcn ki na) r rc.parentRcn K ∧
    (y.parent.ca.answer y.ch rc.parentRcn = none → y.certRequest r rc.parentRcn ki na = y) ∧
    (∀ R, y.parent.ca.answer y.ch rc.parentRcn = some R →
      ∃ rc', get (y.certRequest r rc.parentRcn ki na).child.ca.classes r = some rc' ∧
        rc'.parent = rc.parent ∧ rc'.parentRcn = rc.parentRcn ∧
        rc'.keys = rc.keys.receive ki (answerCert R na) ∧
        ∃ c, get (y.certRequest r rc.parentRcn ki na).parent.ca.children y.ch = some c ∧
          (y.certRequest r rc.parentRcn ki na).parent.ca.bookedExact y.ch (c.nameInParent rc.parentRcn) ki) := by
  obtain ⟨rt, hrt⟩ := (route_ok_iff rc.keys ki).mpr hroute
  cases ha : y.parent.ca.answer y.ch rc.parentRcn with
  | none =>
    obtain ⟨e, hex⟩ := certify_refused (s := y.parent) ki na ha
    have hy : y.certRequest r rc.parentRcn ki na = y := by
      unfold Pair.certRequest; rw [hex]
    rw [hy]
    exact ⟨CertStep.refl hinv r rc.parentRcn K, fun _ => rfl, fun R hR => (nomatch hR)⟩
  | some R =>
    obtain ⟨evs, p', hex, hr', hsame, hiss, hbook, c0, c0', hc0, hc0', hu1, hu2⟩ :=
      certify_stored hinv.base.rp ki na ha
    obtain ⟨s', _, hn, c1, c2, c3, c4, c5, rc', c6, c7, c8, c9⟩ :=
      recv_gen hinv.base.rc hinv.base.nolim hinv.nosusp hg hrt (answerCert R na) na
    have hy : y.certRequest r rc.parentRcn ki na = { y with parent := p', child := s' } := by
      unfold Pair.certRequest; rw [hex]; simp only [hiss]; rw [← hn]; rfl
    rw [hy]
    refine ⟨⟨rfl, rfl, ⟨⟨hr', c1, c4.trans hinv.base.repo, c2⟩, c3⟩, hsame, c5, hbook, ?_⟩,
      fun h => (nomatch h), ?_⟩
    · intro c hc
      rw [hc0] at hc; cases hc
      have hm : c0'.rcnMap = c0.rcnMap := by
        rcases hsame.child_cases with ⟨e1, _⟩ | ⟨ca, cb, e1, e2, _, e4⟩
        · rw [e1] at hc0; cases hc0
        · rw [e1] at hc0; cases hc0; rw [e2] at hc0'; cases hc0'; exact e4
      refine ⟨c0', hc0', hm, ?_⟩
      intro k
      by_cases hk : k = ki
      · subst hk; exact Or.inr ⟨hK, hu1⟩
      · exact Or.inl (hu2 k hk)
    · intro R' hR'
      cases hR'
      refine ⟨rc', c6, c7, c8, c9, ?_⟩
      exact bookedExact_of_issuedFor ((hsame.answer _).trans ha) hiss rfl

/-- The certificate requests of a class, one after the other (`send_cert_requests_handle_responses`
for one class): with an answering parent the key state receives the answer's certificate for
every requested key; a refusing parent leaves everything as it is (the requests stay open). -/
theorem certRequests_fold (r n : Rcn) (na : Int) (K : List KeyId) :
    ∀ (L : List KeyId) (y : Pair) (rc1 : Rc), PairInv2 y → get y.child.ca.classes r = some rc1 →
      rc1.parentRcn = n → (∀ ki ∈ L, ki ∈ rc1.keys.routed) → (∀ ki ∈ L, ki ∈ K) →
      CertStep y (L.foldl (fun y ki =>
        if (get y.child.ca.classes r).isSome then y.certRequest r n ki na else y) y) r n K ∧
      (y.parent.ca.answer y.ch n = none →
        L.foldl (fun y ki => if (get y.child.ca.classes r).isSome then y.certRequest r n ki na else y) y = y) ∧
      (∀ R, y.parent.ca.answer y.ch n = some R →
        ∃ rc', get (L.foldl (fun y ki =>
            if (get y.child.ca.classes r).isSome then y.certRequest r n ki na else y) y).child.ca.classes r = some rc' ∧
          rc'.parent = rc1.parent ∧ rc'.parentRcn = rc1.parentRcn ∧
          rc'.keys = L.foldl (fun k ki => k.receive ki (answerCert R na)) rc1.keys ∧
          ∀ ki ∈ L, ∃ c, get (L.foldl (fun y ki =>
              if (get y.child.ca.classes r).isSome then y.certRequest r n ki na else y) y).parent.ca.children y.ch = some c ∧
            (L.foldl (fun y ki =>
              if (get y.child.ca.classes r).isSome then y.certRequest r n ki na else y) y).parent.ca.bookedExact
              y.ch (c.nameInParent n) ki) := by
  intro L
  induction L with
  | nil =>
    intro y rc1 hinv hg hn _ _
    simp only [List.foldl_nil]
    exact ⟨CertStep.refl hinv r n K, fun _ => trivial, fun R _ => ⟨rc1, hg, rfl, rfl, rfl, fun _ h => (nomatch h)⟩⟩
  | cons ki t ih =>
    intro y rc1 hinv hg hn hrouted hK
    simp only [List.foldl_cons, hg, Option.isSome_some, if_true]
    obtain ⟨hst, hno, hyes⟩ := certRequest_gen hinv hg (hrouted ki (List.mem_cons_self ..)) na K
      (hK ki (List.mem_cons_self ..))
    rw [hn] at hst hno hyes
    cases ha : y.parent.ca.answer y.ch n with
    | none =>
      have hsame := hno ha
      -- the parent refuses: every request leaves the pair as it is
      have hskip : ∀ (t : List KeyId),
          t.foldl (fun y ki => if (get y.child.ca.classes r).isSome then y.certRequest r n ki na else y) y = y := by
        intro t
        induction t with
        | nil => rfl
        | cons k t iht =>
          simp only [List.foldl_cons, hg, Option.isSome_some, if_true, certRequest_of_no_answer r n k na ha]
          exact iht
      rw [hsame, hskip t]
      exact ⟨CertStep.refl hinv r n K, fun _ => rfl, fun R hR => (nomatch hR)⟩
    | some R =>
      obtain ⟨rc1', g1, g2, g3, g4, c, g5, g6⟩ := hyes R ha
      have hans1 : (y.certRequest r n ki na).parent.ca.answer (y.certRequest r n ki na).ch n = some R := by
        rw [hst.ch]; exact (hst.same.answer n).trans ha
      obtain ⟨ih1, _, ih3⟩ := ih (y.certRequest r n ki na) rc1' hst.inv g1 g3
        (by
          intro k hk
          rw [g4, routed_receive]
          exact hrouted k (List.mem_cons_of_mem _ hk))
        (fun k hk => hK k (List.mem_cons_of_mem _ hk))
      obtain ⟨rc', f1, f2, f3, f4, f5⟩ := ih3 R hans1
      have htot := hst.trans ih1
      refine ⟨htot, fun h => (nomatch h), ?_⟩
      intro R' hR'
      cases hR'
      refine ⟨rc', f1, f2.trans g2, f3.trans (g3.trans hn.symm), by rw [f4, g4], ?_⟩
      intro k hk
      rcases List.mem_cons.mp hk with rfl | hk
      · -- the first request's certificate is still on file
        have hs := ih1.same; have hb := ih1.book
        rw [hst.ch] at hs hb
        rcases hs.child_cases with ⟨e1, _⟩ | ⟨ca, cb, e1, e2, _, e4⟩
        · rw [e1] at g5; cases g5
        · rw [e1] at g5; cases g5
          refine ⟨cb, e2, ?_⟩
          rw [nameInParent_congr e4]
          exact hb.exact hs g6
      · have := f5 k hk
        rw [hst.ch] at this
        exact this

/-! ## The requests of one class, any key state -/

/-- The parent has key `k` in use for the child in the class the child calls `n`. -/
def InUse (p : Ca) (ch : Handle) (n : Rcn) (k : KeyId) : Prop :=
  ∃ c, get p.children ch = some c ∧ get c.usedKeys k = some (.inUse (c.nameInParent n))

theorem UsedRel.inUse {p p' : Ca} {ch : Handle} {n : Rcn} {K : List KeyId} (h : UsedRel p p' ch n K) {k : KeyId}
    (hu : InUse p ch n k) : InUse p' ch n k := by
  obtain ⟨c, hc, hk⟩ := hu
  obtain ⟨c', hc', hm, hks⟩ := h c hc
  refine ⟨c', hc', ?_⟩
  rw [nameInParent_congr hm]
  rcases hks k with h1 | ⟨_, h1⟩
  · rw [h1]; exact hk
  · exact h1

/-- The key the revocation request of the class is for. -/
def KeyState.revoked : KeyState → List KeyId
  | .rollOld _ o => [o.id]
  | _ => []

/-- One step of the request branch on class `r`: what it keeps.  `Kb`: the keys whose certificate
on file may be gone (revoked); `K`: the keys whose in-use mark may have changed. -/
structure ReqStep2 (y y' : Pair) (r : Rcn) (Kb K : List KeyId) : Prop where
  ch : y'.ch = y.ch
  ph : y'.ph = y.ph
  inv : PairInv2 y'
  same : ParentSame y.parent.ca y'.parent.ca y.ch
  frame : ∀ r2, r2 ≠ r → get y'.child.ca.classes r2 = get y.child.ca.classes r2
  book : ∀ q k, y'.parent.ca.issuedIn q k = y.parent.ca.issuedIn q k ∨ y'.parent.ca.bookedExact y.ch q k ∨ k ∈ Kb
  used : ∀ c, get y.parent.ca.children y.ch = some c → ∃ c', get y'.parent.ca.children y.ch = some c' ∧
    c'.rcnMap = c.rcnMap ∧ ∀ k, k ∉ K → get c'.usedKeys k = get c.usedKeys k

theorem ReqStep2.refl {y : Pair} (h : PairInv2 y) (r : Rcn) (Kb K : List KeyId) : ReqStep2 y y r Kb K :=
  ⟨rfl, rfl, h, ParentSame.refl _ _, fun _ _ => rfl, fun _ _ => Or.inl rfl, fun c hc => ⟨c, hc, rfl, fun _ _ => rfl⟩⟩

theorem CertStep.toReq {y y' : Pair} {r n : Rcn} {K : List KeyId} (h : CertStep y y' r n K) (Kb : List KeyId) :
    ReqStep2 y y' r Kb K := by
  refine ⟨h.ch, h.ph, h.inv, h.same, h.frame, ?_, ?_⟩
  · intro q k
    rcases h.book q k with h1 | h1
    · exact Or.inl h1
    · exact Or.inr (Or.inl h1)
  · intro c hc
    obtain ⟨c', hc', hm, hk⟩ := h.used c hc
    refine ⟨c', hc', hm, ?_⟩
    intro k hkK
    rcases hk k with h1 | ⟨h1, _⟩
    · exact h1
    · exact absurd h1 hkK

theorem keyIds_finished_sub (ks : KeyState) : ∀ k ∈ ks.finished.keyIds, k ∈ ks.keyIds := by
  cases ks <;> simp [KeyState.finished, KeyState.keyIds]

theorem routed_sub_keyIds (ks : KeyState) : ∀ k ∈ ks.routed, k ∈ ks.keyIds := by
  cases ks <;> simp [KeyState.routed, KeyState.keyIds]

theorem routed_finished (ks : KeyState) : ∀ k ∈ ks.finished.routed, k ∈ ks.keyIds := by
  cases ks <;> simp [KeyState.finished, KeyState.routed, KeyState.keyIds]

theorem revoked_sub_keyIds (ks : KeyState) : ∀ k ∈ ks.revoked, k ∈ ks.keyIds := by
  cases ks <;> simp [KeyState.revoked, KeyState.keyIds]

theorem revokeRequest_none_of_not_pending {ks : KeyState} (h : ks.hasPending = false) : ks.revokeRequest = none := by
  cases ks <;> simp_all [KeyState.hasPending, KeyState.revokeRequest]

/-- The outcome of `Pair.classRequests` on a class under the parent, whatever its key state:
the revocation request (for a key the parent has in use) is confirmed and `KeyRollFinish` stored;
every certificate request is answered and stored, i.e. the key state makes `KeyState.syncStep`;
a refusing parent makes the child drop the class at its first certificate request. -/
theorem classRequests_gen {y : Pair} (hinv : PairInv2 y) (r : Rcn) (na now : Int) {rc : Rc}
    (hg : get y.child.ca.classes r = some rc) (hp : rc.parent = y.ph) (hwf : rc.keys.wf = true)
    (hleave : ∀ k ∈ rc.keys.revoked, InUse y.parent.ca y.ch rc.parentRcn k)
    (hansw : rc.keys.certRequests ≠ [] → ∃ R, y.parent.ca.answer y.ch rc.parentRcn = some R) :
    ReqStep2 y (y.classRequests r na) r rc.keys.revoked rc.keys.keyIds ∧
    (rc.keys.hasPending = false → y.classRequests r na = y) ∧
    (∀ k, InUse y.parent.ca y.ch rc.parentRcn k → k ∉ rc.keys.revoked →
      InUse (y.classRequests r na).parent.ca y.ch rc.parentRcn k) ∧
    (rc.keys.hasPending = true → y.parent.ca.answer y.ch rc.parentRcn = none →
      get (y.classRequests r na).child.ca.classes r = none ∨
      ∃ rc', get (y.classRequests r na).child.ca.classes r = some rc' ∧ rc'.parent = rc.parent ∧
        rc'.parentRcn = rc.parentRcn ∧ rc'.keys = rc.keys.finished ∧ rc.keys.finished.certRequests = []) ∧
    (∀ R, rc.keys.hasPending = true → y.parent.ca.answer y.ch rc.parentRcn = some R →
      ∃ rc', get (y.classRequests r na).child.ca.classes r = some rc' ∧ rc'.parent = rc.parent ∧
        rc'.parentRcn = rc.parentRcn ∧ rc'.keys = rc.keys.syncStep ⟨R, na⟩ now ∧
        ∀ ki ∈ rc.keys.finished.certRequests,
          ∃ c, get (y.classRequests r na).parent.ca.children y.ch = some c ∧
            (y.classRequests r na).parent.ca.bookedExact y.ch (c.nameInParent rc.parentRcn) ki) := by
  -- the pair after the revocation, if any
  have hx1 : ∃ x1 : Pair, ∃ rc1 : Rc,
      y.classRequests r na = rc.keys.certRequests.foldl (fun w ki =>
        if (get w.child.ca.classes r).isSome then w.certRequest r rc.parentRcn ki na else w) x1 ∧
      x1.ch = y.ch ∧ x1.ph = y.ph ∧ PairInv2 x1 ∧ ParentSame y.parent.ca x1.parent.ca y.ch ∧
      (∀ r2, r2 ≠ r → get x1.child.ca.classes r2 = get y.child.ca.classes r2) ∧
      get x1.child.ca.classes r = some rc1 ∧ rc1.parent = rc.parent ∧ rc1.parentRcn = rc.parentRcn ∧
      rc1.keys = rc.keys.finished ∧
      (∀ q k, k ∉ rc.keys.revoked → x1.parent.ca.issuedIn q k = y.parent.ca.issuedIn q k) ∧
      (∀ c, get y.parent.ca.children y.ch = some c → ∃ c', get x1.parent.ca.children y.ch = some c' ∧
        c'.rcnMap = c.rcnMap ∧ ∀ k, k ∉ rc.keys.revoked → get c'.usedKeys k = get c.usedKeys k) ∧
      (rc.keys.revokeRequest = none → x1 = y) := by
    cases hks : rc.keys with
    | rollOld c o =>
      obtain ⟨c0, hc0, hu0⟩ := hleave o.id (by simp [hks, KeyState.revoked])
      obtain ⟨evs, p', hex, hr', hsame, hiss, c0', hc0', _, hm0, hu0'⟩ := revoke_stored hinv.base.rp hc0 hu0
      obtain ⟨s', hn, f1, f2, f3, f4, f5, f6⟩ := finish_spec hinv.base.rc hinv.base.nolim hinv.nosusp hg hks
      refine ⟨{ y with parent := p', child := s' }, { rc with keys := .active c }, ?_, rfl, rfl,
        ⟨⟨hr', f1, f4.trans hinv.base.repo, f2⟩, f3⟩, hsame, f5, f6, rfl, rfl, rfl, ?_, ?_, ?_⟩
      · unfold Pair.classRequests
        simp only [hg, hp, ne_eq, not_true_eq_false, if_false, hks, KeyState.revokeRequest, hex, hn]
      · intro q k hk
        exact hiss q k (by simpa [KeyState.revoked] using hk)
      · intro c hc
        rw [hc0] at hc; cases hc
        exact ⟨c0', hc0', hm0, fun k hk => hu0' k (by simpa [KeyState.revoked] using hk)⟩
      · intro h; simp [KeyState.revokeRequest] at h
    | pending _ =>
      refine ⟨y, rc, ?_, rfl, rfl, hinv, ParentSame.refl _ _, fun _ _ => rfl, hg, rfl, rfl, by rw [hks]; rfl,
        fun _ _ _ => rfl, fun c hc => ⟨c, hc, rfl, fun _ _ => rfl⟩, fun _ => rfl⟩
      unfold Pair.classRequests
      simp only [hg, hp, ne_eq, not_true_eq_false, if_false, hks, KeyState.revokeRequest]
    | active _ =>
      refine ⟨y, rc, ?_, rfl, rfl, hinv, ParentSame.refl _ _, fun _ _ => rfl, hg, rfl, rfl, by rw [hks]; rfl,
        fun _ _ _ => rfl, fun c hc => ⟨c, hc, rfl, fun _ _ => rfl⟩, fun _ => rfl⟩
      unfold Pair.classRequests
      simp only [hg, hp, ne_eq, not_true_eq_false, if_false, hks, KeyState.revokeRequest]
    | rollPending _ _ =>
      refine ⟨y, rc, ?_, rfl, rfl, hinv, ParentSame.refl _ _, fun _ _ => rfl, hg, rfl, rfl, by rw [hks]; rfl,
        fun _ _ _ => rfl, fun c hc => ⟨c, hc, rfl, fun _ _ => rfl⟩, fun _ => rfl⟩
      unfold Pair.classRequests
      simp only [hg, hp, ne_eq, not_true_eq_false, if_false, hks, KeyState.revokeRequest]
    | rollNew _ _ =>
      refine ⟨y, rc, ?_, rfl, rfl, hinv, ParentSame.refl _ _, fun _ _ => rfl, hg, rfl, rfl, by rw [hks]; rfl,
        fun _ _ _ => rfl, fun c hc => ⟨c, hc, rfl, fun _ _ => rfl⟩, fun _ => rfl⟩
      unfold Pair.classRequests
      simp only [hg, hp, ne_eq, not_true_eq_false, if_false, hks, KeyState.revokeRequest]
  obtain ⟨x1, rc1, hy, a1, a2, a3, a4, a5, a6, a7, a8, a9, a10, a11, a12⟩ := hx1
  rw [hy]
  have hL : rc.keys.certRequests = rc.keys.finished.certRequests := (certRequests_finished hwf).symm
  have hrouted : ∀ ki ∈ rc.keys.certRequests, ki ∈ rc1.keys.routed := by
    intro ki hki
    rw [a9]
    exact certRequests_sub_routed (wf_finished hwf) ki (by rw [← hL]; exact hki)
  have hK : ∀ ki ∈ rc.keys.certRequests, ki ∈ rc.keys.keyIds := by
    intro ki hki
    exact routed_finished rc.keys ki (by rw [← a9]; exact hrouted ki hki)
  obtain ⟨hcs, hno, hyes⟩ := certRequests_fold r rc.parentRcn na rc.keys.keyIds rc.keys.certRequests x1 rc1 a3 a6 a8
    hrouted hK
  have hans : x1.parent.ca.answer x1.ch rc.parentRcn = y.parent.ca.answer y.ch rc.parentRcn := by
    rw [a1]; exact a4.answer _
  have hrevK : ∀ k ∈ rc.keys.revoked, k ∈ rc.keys.keyIds := revoked_sub_keyIds rc.keys
  refine ⟨?_, ?_, ?_, ?_, ?_⟩
  · -- what the step keeps
    have hreq := hcs.toReq rc.keys.revoked
    refine ⟨hreq.ch.trans a1, hreq.ph.trans a2, hreq.inv, ?_, ?_, ?_, ?_⟩
    · have := hreq.same; rw [a1] at this; exact a4.trans this
    · intro r2 hr2; rw [hreq.frame r2 hr2]; exact a5 r2 hr2
    · intro q k
      by_cases hk : k ∈ rc.keys.revoked
      · exact Or.inr (Or.inr hk)
      · have hb := hreq.book q k
        rw [a1] at hb
        rcases hb with h1 | h1 | h1
        · exact Or.inl (h1.trans (a10 q k hk))
        · exact Or.inr (Or.inl h1)
        · exact Or.inr (Or.inr h1)
    · intro c hc
      obtain ⟨c1, hc1, hm1, hk1⟩ := a11 c hc
      have hu := hreq.used
      rw [a1] at hu
      obtain ⟨c2, hc2, hm2, hk2⟩ := hu c1 hc1
      refine ⟨c2, hc2, hm2.trans hm1, ?_⟩
      intro k hk
      rw [hk2 k hk]
      exact hk1 k (fun h => hk (hrevK k h))
  · intro hnp
    have h1 : rc.keys.revokeRequest = none := revokeRequest_none_of_not_pending hnp
    have h2 : rc.keys.certRequests = [] := by
      simp only [KeyState.hasPending, Bool.or_eq_false_iff, Bool.not_eq_false', List.isEmpty_iff] at hnp
      exact hnp.1
    rw [h2, a12 h1]; rfl
  · intro k hu hk
    -- after the revocation
    have hu1 : InUse x1.parent.ca y.ch rc.parentRcn k := by
      obtain ⟨c, hc, hkc⟩ := hu
      obtain ⟨c1, hc1, hm1, hk1⟩ := a11 c hc
      exact ⟨c1, hc1, by rw [nameInParent_congr hm1, hk1 k hk]; exact hkc⟩
    have hur := hcs.used
    rw [a1] at hur
    exact hur.inUse hu1
  · intro hpend hnone
    have hnil : rc.keys.certRequests = [] := by
      cases hl : rc.keys.certRequests with
      | nil => rfl
      | cons k t =>
        obtain ⟨R, hR⟩ := hansw (by rw [hl]; simp)
        rw [hnone] at hR; cases hR
    right
    rw [hnil]
    simp only [List.foldl_nil]
    exact ⟨rc1, a6, a7, a8, a9, by rw [← hL]; exact hnil⟩
  · intro R hpend hsome
    obtain ⟨rc', g1, g2, g3, g4, g5⟩ := hyes R (hans.trans hsome)
    refine ⟨rc', g1, g2.trans a7, g3.trans a8, ?_, ?_⟩
    · rw [g4, a9, syncStep_pending_eq hpend, hL]; rfl
    · intro ki hki
      have := g5 ki (by rw [hL]; exact hki)
      rw [a1] at this
      exact this

end KM.CaK
