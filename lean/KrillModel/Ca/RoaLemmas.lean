/- Helper lemmas about `Ca/RoaObjects.lean` (no property statements; those are in `Props/`). -/
import KrillModel.Ca.RoaObjects
import KrillModel.Ca.PubBaseLemmas
namespace KM.Ca.Pub

theorem wf_empty : (({} : Roas)).WF :=
  { simpleKeys := by simp [keys], aggKeys := by simp [keys], simpleAuth := by simp, aggGroup := by simp,
    aggAsn := by simp, aggNodup := by simp, aggNonempty := by simp, exclusive := Or.inl rfl }

/-! ### Generic facts -/

theorem eraseAll_keys_self {κ ν} [DecidableEq κ] (m : List (κ × ν)) : eraseAll m (keys m) = [] := by
  simp only [eraseAll, List.filter_eq_nil_iff, decide_eq_true_eq, Decidable.not_not]
  intro e he
  exact mem_keys_of_mem he

theorem putAll_nil {κ ν} [DecidableEq κ] (m : List (κ × ν)) : putAll m [] = m := by
  simp [putAll, keys]

theorem eraseAll_nil_left {κ ν} [DecidableEq κ] (ks : List κ) : eraseAll ([] : List (κ × ν)) ks = [] := rfl

theorem flatMap_auths_eq_keys (m : List (Payload × RoaInfo)) (h : ∀ e ∈ m, e.2.auths = [e.1]) :
    m.flatMap (·.2.auths) = keys m := by
  induction m with
  | nil => rfl
  | cons e m ih =>
    simp only [List.flatMap_cons, keys, List.map_cons]
    rw [h e (List.mem_cons_self ..)]
    simp only [List.cons_append, List.nil_append]
    congr 1
    exact ih fun e' he' => h e' (List.mem_cons_of_mem _ he')

theorem not_aggregating_nil (r : Roas) (hg : ∀ e ∈ r.agg, e.1.group = none) (h : r.isAggregating = false) :
    r.agg = [] := by
  cases hagg : r.agg with
  | nil => rfl
  | cons e l =>
    have he : e ∈ r.agg := by rw [hagg]; exact List.mem_cons_self ..
    have : r.isAggregating = true := by
      simp only [Roas.isAggregating, List.any_eq_true]
      exact ⟨e, he, by simp [hg e he]⟩
    rw [h] at this; cases this

theorem aggregating_simple_nil (r : Roas) (hr : r.WF) (h : r.isAggregating = true) : r.simple = [] := by
  rcases hr.exclusive with h1 | h1
  · exact h1
  · simp [Roas.isAggregating, h1] at h

/-! ### The simple part -/

/-- Simple ROAs after `update_simple` applied. -/
def simpleAfter (simple : List (Payload × RoaInfo)) (rel : List Payload) (mintS : Payload → ObjMeta) :
    List (Payload × RoaInfo) :=
  eraseAll (putAll simple ((rel.filter fun p => !has simple p).map fun a => (a, ⟨[a], mintS a⟩)))
    ((keys simple).filter fun p => decide (p ∉ rel))

theorem keys_signed (l : List Payload) (mintS : Payload → ObjMeta) :
    keys (l.map fun a => (a, (⟨[a], mintS a⟩ : RoaInfo))) = l := by
  simp [keys, List.map_map, Function.comp_def]

theorem simpleAfter_spec (simple : List (Payload × RoaInfo)) (rel : List Payload) (mintS : Payload → ObjMeta)
    (hk : (keys simple).Nodup) (ha : ∀ e ∈ simple, e.2.auths = [e.1]) (hrel : rel.Nodup) :
    (keys (simpleAfter simple rel mintS)).Nodup ∧
    (∀ e ∈ simpleAfter simple rel mintS, e.2.auths = [e.1]) ∧
    (∀ p, p ∈ keys (simpleAfter simple rel mintS) ↔ p ∈ rel) := by
  have hU : (keys ((rel.filter fun p => !has simple p).map fun a => (a, (⟨[a], mintS a⟩ : RoaInfo)))).Nodup := by
    rw [keys_signed]; exact nodup_filter hrel _
  refine ⟨nodup_keys_eraseAll (nodup_keys_putAll hk hU) _, ?_, ?_⟩
  · intro e he
    simp only [simpleAfter] at he
    rw [mem_eraseAll, mem_putAll] at he
    rcases he.1 with ⟨h1, _⟩ | h1
    · exact ha e h1
    · rw [List.mem_map] at h1
      obtain ⟨a, _, rfl⟩ := h1
      rfl
  · intro p
    simp only [simpleAfter]
    rw [keys_eraseAll, List.mem_filter, mem_keys_putAll, keys_signed]
    simp only [List.mem_filter, decide_eq_true_eq, not_and, Bool.not_eq_true',
      decide_not]
    constructor
    · rintro ⟨h1 | h1, h2⟩
      · by_cases hp : p ∈ rel
        · exact hp
        · have := h2 h1; simp [hp] at this
      · exact h1.1
    · intro hp
      refine ⟨?_, fun _ => by simp [hp]⟩
      by_cases hs : p ∈ keys simple
      · exact Or.inl hs
      · refine Or.inr ⟨hp, ?_⟩
        cases hh : has simple p
        · rfl
        · exact absurd (has_iff.mp hh) hs

/-! ### The aggregate part -/

theorem toAggregates_mem {rel : List Payload} {d : AggKey × List Payload} (h : d ∈ toAggregates rel) :
    d.1.group = none ∧ d.2 = rel.filter (fun p => p.asn = d.1.asn) ∧ ∃ p ∈ rel, p.asn = d.1.asn := by
  simp only [toAggregates, List.mem_map] at h
  obtain ⟨a, ha, rfl⟩ := h
  rw [mem_dedup, List.mem_map] at ha
  exact ⟨rfl, rfl, ha⟩

theorem mem_toAggregates {rel : List Payload} {p : Payload} (h : p ∈ rel) :
    ((⟨p.asn, none⟩ : AggKey), rel.filter (fun q => q.asn = p.asn)) ∈ toAggregates rel := by
  simp only [toAggregates, List.mem_map]
  exact ⟨p.asn, mem_dedup.mpr (List.mem_map.mpr ⟨p, h, rfl⟩), rfl⟩

theorem keys_toAggregates_nodup (rel : List Payload) : (keys (toAggregates rel)).Nodup := by
  simp only [toAggregates, keys, List.map_map, Function.comp_def]
  have h := nodup_dedup (rel.map (·.asn))
  exact List.Pairwise.map _ (fun a b hab h' => hab (by injection h')) h

/-- Aggregated ROAs after `update_aggregate` applied. -/
def aggAfter (r : Roas) (rel : List Payload) (mintA : AggKey → ObjMeta) : List (AggKey × RoaInfo) :=
  eraseAll (putAll r.agg (((toAggregates rel).filter (needsAgg r)).map fun d => (d.1, ⟨d.2, mintA d.1⟩)))
    ((keys r.agg).filter fun k => decide (k ∉ keys (toAggregates rel)))

theorem keys_signedAgg (l : List (AggKey × List Payload)) (mintA : AggKey → ObjMeta) :
    keys (l.map fun d => (d.1, (⟨d.2, mintA d.1⟩ : RoaInfo))) = keys l := by
  simp [keys, List.map_map, Function.comp_def]

/-- What an entry of `aggAfter` is: a freshly made desired aggregate, or an existing one whose
authorisations are those desired. -/
theorem aggAfter_entry (r : Roas) (rel : List Payload) (mintA : AggKey → ObjMeta)
    (hk : (keys r.agg).Nodup) {e : AggKey × RoaInfo} (he : e ∈ aggAfter r rel mintA) :
    ∃ d ∈ toAggregates rel, d.1 = e.1 ∧ ((e.2.auths = d.2) ∨ (e ∈ r.agg ∧ ∀ x, x ∈ d.2 ↔ x ∈ e.2.auths)) := by
  simp only [aggAfter] at he
  rw [mem_eraseAll, mem_putAll] at he
  obtain ⟨h1, h2⟩ := he
  rcases h1 with ⟨hin, hnot⟩ | hnew
  · -- an existing entry that stays: its key is desired and it did not need replacing
    have hkd : e.1 ∈ keys (toAggregates rel) := by
      by_cases hd : e.1 ∈ keys (toAggregates rel)
      · exact hd
      · exact absurd (List.mem_filter.mpr ⟨mem_keys_of_mem hin, by simpa using hd⟩) h2
    obtain ⟨auths, hd⟩ := mem_keys.mp hkd
    refine ⟨(e.1, auths), hd, rfl, Or.inr ⟨hin, ?_⟩⟩
    rw [keys_signedAgg] at hnot
    have hnn : needsAgg r (e.1, auths) = false := by
      cases hn : needsAgg r (e.1, auths)
      · rfl
      · exact absurd (mem_keys_of_mem (List.mem_filter.mpr ⟨hd, hn⟩)) hnot
    have hg : get? r.agg e.1 = some e.2 := get?_of_mem hk (by cases e; exact hin)
    simp only [needsAgg, hg, Bool.not_eq_false'] at hnn
    exact sameMembers_iff.mp hnn
  · rw [List.mem_map] at hnew
    obtain ⟨d, hd, rfl⟩ := hnew
    exact ⟨d, (List.mem_filter.mp hd).1, rfl, Or.inl rfl⟩

/-- Every desired aggregate is present afterwards with the desired authorisations. -/
theorem aggAfter_has (r : Roas) (rel : List Payload) (mintA : AggKey → ObjMeta)
    (_hk : (keys r.agg).Nodup) {d : AggKey × List Payload} (hd : d ∈ toAggregates rel) :
    ∃ e ∈ aggAfter r rel mintA, e.1 = d.1 ∧ ∀ x, x ∈ d.2 ↔ x ∈ e.2.auths := by
  have hnotRemoved : d.1 ∉ (keys r.agg).filter fun k => decide (k ∉ keys (toAggregates rel)) := by
    intro h
    have := (List.mem_filter.mp h).2
    simp at this
    exact this (mem_keys_of_mem hd)
  cases hn : needsAgg r d with
  | true =>
    refine ⟨(d.1, ⟨d.2, mintA d.1⟩), ?_, rfl, fun _ => Iff.rfl⟩
    simp only [aggAfter]
    rw [mem_eraseAll, mem_putAll]
    exact ⟨Or.inr (List.mem_map.mpr ⟨d, List.mem_filter.mpr ⟨hd, hn⟩, rfl⟩), hnotRemoved⟩
  | false =>
    simp only [needsAgg] at hn
    cases hg : get? r.agg d.1 with
    | none => simp [hg] at hn
    | some ex =>
      simp only [hg, Bool.not_eq_false'] at hn
      refine ⟨(d.1, ex), ?_, rfl, sameMembers_iff.mp hn⟩
      simp only [aggAfter]
      rw [mem_eraseAll, mem_putAll]
      refine ⟨Or.inl ⟨get?_some_mem' hg, ?_⟩, hnotRemoved⟩
      rw [keys_signedAgg]
      intro hk'
      obtain ⟨a', ha'⟩ := mem_keys.mp hk'
      have hmem := List.mem_filter.mp ha'
      have : a' = d.2 := nodup_keys_unique (keys_toAggregates_nodup rel) hmem.1 (by cases d; exact hd)
      subst this
      have hn' := hmem.2
      simp only [needsAgg, hg] at hn'
      cases d
      simp_all

/-- Pairwise-distinct keys + per-entry facts give a duplicate-free concatenation of payloads. -/
theorem flatMap_auths_nodup (m : List (AggKey × RoaInfo)) (hk : (keys m).Nodup)
    (hg : ∀ e ∈ m, e.1.group = none) (ha : ∀ e ∈ m, ∀ p ∈ e.2.auths, p.asn = e.1.asn)
    (hn : ∀ e ∈ m, e.2.auths.Nodup) : (m.flatMap (·.2.auths)).Nodup := by
  induction m with
  | nil => simp
  | cons e m ih =>
    simp only [keys, List.map_cons, List.nodup_cons] at hk
    simp only [List.flatMap_cons]
    rw [List.nodup_append]
    refine ⟨hn e (List.mem_cons_self ..), ?_, ?_⟩
    · exact ih hk.2 (fun x hx => hg x (List.mem_cons_of_mem _ hx))
        (fun x hx => ha x (List.mem_cons_of_mem _ hx)) (fun x hx => hn x (List.mem_cons_of_mem _ hx))
    · intro a ha1 b hb hab
      subst hab
      rw [List.mem_flatMap] at hb
      obtain ⟨e', he', hb'⟩ := hb
      have h1 := ha e (List.mem_cons_self ..) a ha1
      have h2 := ha e' (List.mem_cons_of_mem _ he') a hb'
      have g1 := hg e (List.mem_cons_self ..)
      have g2 := hg e' (List.mem_cons_of_mem _ he')
      have : e'.1 = e.1 := by
        cases hk1 : e.1; cases hk2 : e'.1
        simp_all
      exact hk.1 (this ▸ mem_keys_of_mem he')

theorem aggAfter_spec (r : Roas) (hr : r.WF) (rel : List Payload) (hrel : rel.Nodup) (mintA : AggKey → ObjMeta) :
    (keys (aggAfter r rel mintA)).Nodup ∧
    (∀ e ∈ aggAfter r rel mintA, e.1.group = none) ∧
    (∀ e ∈ aggAfter r rel mintA, ∀ p ∈ e.2.auths, p.asn = e.1.asn) ∧
    (∀ e ∈ aggAfter r rel mintA, e.2.auths.Nodup) ∧
    (∀ e ∈ aggAfter r rel mintA, e.2.auths ≠ []) ∧
    (∀ p, p ∈ (aggAfter r rel mintA).flatMap (·.2.auths) ↔ p ∈ rel) := by
  have hkn : (keys (aggAfter r rel mintA)).Nodup := by
    simp only [aggAfter]
    refine nodup_keys_eraseAll (nodup_keys_putAll hr.aggKeys ?_) _
    rw [keys_signedAgg]
    have := keys_toAggregates_nodup rel
    simp only [keys] at this ⊢
    exact List.Nodup.sublist (List.Sublist.map _ List.filter_sublist) this
  refine ⟨hkn, ?_, ?_, ?_, ?_, ?_⟩
  · intro e he
    obtain ⟨d, hd, hde, _⟩ := aggAfter_entry r rel mintA hr.aggKeys he
    rw [← hde]; exact (toAggregates_mem hd).1
  · intro e he p hp
    obtain ⟨d, hd, hde, h⟩ := aggAfter_entry r rel mintA hr.aggKeys he
    rcases h with h | ⟨hin, _⟩
    · rw [h, (toAggregates_mem hd).2.1, List.mem_filter] at hp
      rw [← hde]; simpa using hp.2
    · exact hr.aggAsn e hin p hp
  · intro e he
    obtain ⟨d, hd, _, h⟩ := aggAfter_entry r rel mintA hr.aggKeys he
    rcases h with h | ⟨hin, _⟩
    · rw [h, (toAggregates_mem hd).2.1]; exact nodup_filter hrel _
    · exact hr.aggNodup e hin
  · intro e he
    obtain ⟨d, hd, _, h⟩ := aggAfter_entry r rel mintA hr.aggKeys he
    rcases h with h | ⟨hin, _⟩
    · obtain ⟨_, h2, p, hp, hpa⟩ := toAggregates_mem hd
      rw [h, h2]
      intro hnil
      have : p ∈ rel.filter (fun q => q.asn = d.1.asn) := List.mem_filter.mpr ⟨hp, by simpa using hpa⟩
      rw [hnil] at this; cases this
    · exact hr.aggNonempty e hin
  · intro p
    rw [List.mem_flatMap]
    constructor
    · rintro ⟨e, he, hp⟩
      obtain ⟨d, hd, _, h⟩ := aggAfter_entry r rel mintA hr.aggKeys he
      have hd2 := (toAggregates_mem hd).2.1
      rcases h with h | ⟨_, hsame⟩
      · rw [h, hd2] at hp; exact (List.mem_filter.mp hp).1
      · have := (hsame p).mpr hp
        rw [hd2] at this; exact (List.mem_filter.mp this).1
    · intro hp
      obtain ⟨e, he, _, hsame⟩ := aggAfter_has r rel mintA hr.aggKeys (mem_toAggregates hp)
      exact ⟨e, he, (hsame p).mp (List.mem_filter.mpr ⟨hp, by simp⟩)⟩

/-! ### `create_updates` applied: exactness in every mode -/

theorem apply_createUpdates (r : Roas) (cov : Payload → Bool) (routes : List Payload) (deagg agg : Nat)
    (mintS : Payload → ObjMeta) (mintA : AggKey → ObjMeta) (hr : r.WF) :
    let rel := relevant cov routes
    let r' := r.apply (r.createUpdates cov routes deagg agg mintS mintA)
    (r'.simple = simpleAfter r.simple rel mintS ∧ r'.agg = []) ∨
    (r'.simple = [] ∧ r'.agg = aggAfter r rel mintA) := by
  intro rel r'
  have hmode : ∀ m, r.mode rel.length deagg agg = m →
      (m = .simple ∨ m = .startAggregating → r.isAggregating = false) ∧
      (m = .stopAggregating ∨ m = .aggregate → r.isAggregating = true) := by
    intro m hm
    unfold Roas.mode at hm
    cases hagg : r.isAggregating <;> simp [hagg] at hm <;> (split at hm <;> (try split at hm) <;> subst hm <;> simp)
  cases hm : r.mode rel.length deagg agg with
  | simple =>
    have hnil := not_aggregating_nil r hr.aggGroup ((hmode _ hm).1 (Or.inl rfl))
    left
    simp only [r', Roas.createUpdates, Roas.plan, rel, hm, Roas.apply, RoaPlan.sign, Roas.planSimple, hnil,
      List.map_nil, putAll_nil, eraseAll_nil_left, simpleAfter, and_true]
  | stopAggregating =>
    have hs := aggregating_simple_nil r hr ((hmode _ hm).2 (Or.inl rfl))
    left
    simp only [r', Roas.createUpdates, Roas.plan, rel, hm, Roas.apply, RoaPlan.sign, Roas.planStop,
      Roas.planSimple, List.map_nil, putAll_nil, eraseAll_keys_self, simpleAfter, and_true]
  | startAggregating =>
    have hnil := not_aggregating_nil r hr.aggGroup ((hmode _ hm).1 (Or.inr rfl))
    right
    simp only [r', Roas.createUpdates, Roas.plan, rel, hm, Roas.apply, RoaPlan.sign, Roas.planStart,
      Roas.planAggregate, List.map_nil, putAll_nil, eraseAll_keys_self, aggAfter, true_and]
  | aggregate =>
    have hs := aggregating_simple_nil r hr ((hmode _ hm).2 (Or.inr rfl))
    right
    simp only [r', Roas.createUpdates, Roas.plan, rel, hm, Roas.apply, RoaPlan.sign, Roas.planAggregate, hs,
      List.map_nil, putAll_nil, eraseAll_nil_left, aggAfter, true_and]

theorem createUpdates_exact (r : Roas) (hr : r.WF) (cov : Payload → Bool) (routes : List Payload)
    (hroutes : routes.Nodup) (deagg agg : Nat) (mintS : Payload → ObjMeta) (mintA : AggKey → ObjMeta) :
    let r' := r.apply (r.createUpdates cov routes deagg agg mintS mintA)
    (∀ p, p ∈ r'.payloads ↔ (p ∈ routes ∧ cov p = true)) ∧ r'.payloads.Nodup ∧ r'.WF := by
  intro r'
  have hrel : (relevant cov routes).Nodup := nodup_filter hroutes _
  have hmem : ∀ p, p ∈ relevant cov routes ↔ (p ∈ routes ∧ cov p = true) := fun p => List.mem_filter
  rcases apply_createUpdates r cov routes deagg agg mintS mintA hr with ⟨h1, h2⟩ | ⟨h1, h2⟩
  · obtain ⟨s1, s2, s3⟩ := simpleAfter_spec r.simple (relevant cov routes) mintS hr.simpleKeys hr.simpleAuth hrel
    have hp : r'.payloads = keys (simpleAfter r.simple (relevant cov routes) mintS) := by
      simp only [Roas.payloads, r']
      rw [h1, h2]
      simp [flatMap_auths_eq_keys _ s2]
    refine ⟨fun p => by rw [hp, s3, hmem], by rw [hp]; exact s1, ?_⟩
    exact { simpleKeys := by simp only [r']; rw [h1]; exact s1
            aggKeys := by simp only [r']; rw [h2]; simp [keys]
            simpleAuth := by simp only [r']; rw [h1]; exact s2
            aggGroup := by simp only [r']; rw [h2]; simp
            aggAsn := by simp only [r']; rw [h2]; simp
            aggNodup := by simp only [r']; rw [h2]; simp
            aggNonempty := by simp only [r']; rw [h2]; simp
            exclusive := Or.inr (by simp only [r']; exact h2) }
  · obtain ⟨a1, a2, a3, a4, a5, a6⟩ := aggAfter_spec r hr (relevant cov routes) hrel mintA
    have hp : r'.payloads = (aggAfter r (relevant cov routes) mintA).flatMap (·.2.auths) := by
      simp only [Roas.payloads, r']
      rw [h1, h2]
      simp
    refine ⟨fun p => by rw [hp, a6, hmem], by rw [hp]; exact flatMap_auths_nodup _ a1 a2 a3 a4, ?_⟩
    exact { simpleKeys := by simp only [r']; rw [h1]; simp [keys]
            aggKeys := by simp only [r']; rw [h2]; exact a1
            simpleAuth := by simp only [r']; rw [h1]; simp
            aggGroup := by simp only [r']; rw [h2]; exact a2
            aggAsn := by simp only [r']; rw [h2]; exact a3
            aggNodup := by simp only [r']; rw [h2]; exact a4
            aggNonempty := by simp only [r']; rw [h2]; exact a5
            exclusive := Or.inl (by simp only [r']; exact h1) }

/-! ### Renewal -/

section Renew
variable {κ : Type} {ν : Type} [DecidableEq κ]

/-- Replace the value of every entry satisfying `P` by `g entry`. -/
def renewMap (m : List (κ × ν)) (P : κ × ν → Bool) (g : κ × ν → ν) : List (κ × ν) :=
  putAll m ((m.filter P).map fun e => (e.1, g e))

theorem keys_renew_updates (m : List (κ × ν)) (P : κ × ν → Bool) (g : κ × ν → ν) :
    keys ((m.filter P).map fun e => (e.1, g e)) = keys (m.filter P) := by
  simp [keys, List.map_map, Function.comp_def]

theorem renewMap_spec (m : List (κ × ν)) (hk : (keys m).Nodup) (P : κ × ν → Bool) (g : κ × ν → ν) :
    (keys (renewMap m P g)).Nodup ∧
    (∀ e ∈ m, (P e = true → (e.1, g e) ∈ renewMap m P g) ∧ (P e = false → e ∈ renewMap m P g)) ∧
    (∀ e' ∈ renewMap m P g, ∃ e ∈ m, e'.1 = e.1 ∧ ((P e = false ∧ e' = e) ∨ (P e = true ∧ e'.2 = g e))) := by
  have hsub : (keys (m.filter P)).Nodup := by
    simp only [keys]
    exact List.Nodup.sublist (List.Sublist.map _ List.filter_sublist) hk
  refine ⟨?_, ?_, ?_⟩
  · exact nodup_keys_putAll hk (by rw [keys_renew_updates]; exact hsub)
  · intro e he
    constructor
    · intro hp
      exact mem_putAll.mpr (Or.inr (List.mem_map.mpr ⟨e, List.mem_filter.mpr ⟨he, hp⟩, rfl⟩))
    · intro hp
      refine mem_putAll.mpr (Or.inl ⟨he, ?_⟩)
      rw [keys_renew_updates]
      intro hk'
      obtain ⟨v, hv⟩ := mem_keys.mp hk'
      have hm := List.mem_filter.mp hv
      have : v = e.2 := nodup_keys_unique hk hm.1 (by cases e; exact he)
      subst this
      cases e
      simp_all
  · intro e' he'
    rcases mem_putAll.mp he' with ⟨hin, hnot⟩ | hnew
    · refine ⟨e', hin, rfl, Or.inl ⟨?_, rfl⟩⟩
      cases hp : P e'
      · rfl
      · rw [keys_renew_updates] at hnot
        exact absurd (mem_keys_of_mem (List.mem_filter.mpr ⟨hin, hp⟩)) hnot
    · obtain ⟨e, he, rfl⟩ := List.mem_map.mp hnew
      have hm := List.mem_filter.mp he
      exact ⟨e, hm.1, rfl, Or.inr ⟨hm.2, rfl⟩⟩

end Renew

theorem apply_createRenewal (r : Roas) (force : Bool) (thr : Nat) (mintS : Payload → ObjMeta)
    (mintA : AggKey → ObjMeta) :
    (r.apply (r.createRenewal force thr mintS mintA)).simple =
      renewMap r.simple (fun e => force || decide (e.2.obj.expires < thr)) (fun e => ⟨[e.1], mintS e.1⟩) ∧
    (r.apply (r.createRenewal force thr mintS mintA)).agg =
      renewMap r.agg (fun e => force || decide (e.2.obj.expires < thr)) (fun e => ⟨e.2.auths, mintA e.1⟩) := by
  simp [Roas.apply, Roas.createRenewal, Roas.planRenewal, RoaPlan.sign, eraseAll_nil, renewMap,
    List.map_map, Function.comp_def]

theorem renewal_exact (r : Roas) (hr : r.WF) (force : Bool) (thr : Nat)
    (mintS : Payload → ObjMeta) (mintA : AggKey → ObjMeta) :
    let r' := r.apply (r.createRenewal force thr mintS mintA)
    (∀ p info, (p, info) ∈ r.simple →
      ((force = true ∨ info.obj.expires < thr) → (p, ⟨[p], mintS p⟩) ∈ r'.simple) ∧
      (¬ (force = true ∨ info.obj.expires < thr) → (p, info) ∈ r'.simple)) ∧
    (∀ k info, (k, info) ∈ r.agg →
      ((force = true ∨ info.obj.expires < thr) → (k, ⟨info.auths, mintA k⟩) ∈ r'.agg) ∧
      (¬ (force = true ∨ info.obj.expires < thr) → (k, info) ∈ r'.agg)) ∧
    (∀ p, p ∈ r'.payloads ↔ p ∈ r.payloads) ∧ r'.WF := by
  intro r'
  obtain ⟨hs, ha⟩ := apply_createRenewal r force thr mintS mintA
  obtain ⟨s1, s2, s3⟩ := renewMap_spec r.simple hr.simpleKeys
    (fun e => force || decide (e.2.obj.expires < thr)) (fun e => ⟨[e.1], mintS e.1⟩)
  obtain ⟨a1, a2, a3⟩ := renewMap_spec r.agg hr.aggKeys
    (fun e => force || decide (e.2.obj.expires < thr)) (fun e => ⟨e.2.auths, mintA e.1⟩)
  have hP : ∀ (x : Nat), (force || decide (x < thr)) = true ↔ (force = true ∨ x < thr) := by
    intro x; simp
  -- auths of entries are preserved key by key
  have sAuth : ∀ e' ∈ r'.simple, e'.2.auths = [e'.1] := by
    intro e' he'
    simp only [r'] at he'; rw [hs] at he'
    obtain ⟨e, he, hk, h⟩ := s3 e' he'
    rcases h with ⟨_, rfl⟩ | ⟨_, h2⟩
    · exact hr.simpleAuth _ he
    · rw [h2, hk]
  have aSame : ∀ e' ∈ r'.agg, ∃ e ∈ r.agg, e'.1 = e.1 ∧ e'.2.auths = e.2.auths := by
    intro e' he'
    simp only [r'] at he'; rw [ha] at he'
    obtain ⟨e, he, hk, h⟩ := a3 e' he'
    rcases h with ⟨_, rfl⟩ | ⟨_, h2⟩
    · exact ⟨_, he, rfl, rfl⟩
    · exact ⟨e, he, hk, by rw [h2]⟩
  refine ⟨?_, ?_, ?_, ?_⟩
  · intro p info hin
    simp only [r']; rw [hs]
    have := s2 (p, info) hin
    constructor
    · intro h; exact this.1 ((hP _).mpr h)
    · intro h; refine this.2 ?_
      cases hb : (force || decide (info.obj.expires < thr))
      · rfl
      · exact absurd ((hP _).mp hb) h
  · intro k info hin
    simp only [r']; rw [ha]
    have := a2 (k, info) hin
    constructor
    · intro h; exact this.1 ((hP _).mpr h)
    · intro h; refine this.2 ?_
      cases hb : (force || decide (info.obj.expires < thr))
      · rfl
      · exact absurd ((hP _).mp hb) h
  · intro p
    simp only [Roas.payloads, List.mem_append, List.mem_flatMap]
    constructor
    · rintro (⟨e', he', hp⟩ | ⟨e', he', hp⟩)
      · left
        have h1 := sAuth e' he'
        simp only [r'] at he'; rw [hs] at he'
        obtain ⟨e, he, hk, _⟩ := s3 e' he'
        refine ⟨e, he, ?_⟩
        rw [hr.simpleAuth e he, ← hk, ← h1]; exact hp
      · right
        obtain ⟨e, he, _, hau⟩ := aSame e' he'
        exact ⟨e, he, hau ▸ hp⟩
    · rintro (⟨e, he, hp⟩ | ⟨e, he, hp⟩)
      · left
        rw [hr.simpleAuth e he] at hp
        cases hb : (force || decide (e.2.obj.expires < thr))
        · exact ⟨e, by simp only [r']; rw [hs]; exact (s2 e he).2 hb, by rw [hr.simpleAuth e he]; exact hp⟩
        · exact ⟨(e.1, ⟨[e.1], mintS e.1⟩), by simp only [r']; rw [hs]; exact (s2 e he).1 hb, hp⟩
      · right
        cases hb : (force || decide (e.2.obj.expires < thr))
        · exact ⟨e, by simp only [r']; rw [ha]; exact (a2 e he).2 hb, hp⟩
        · exact ⟨(e.1, ⟨e.2.auths, mintA e.1⟩), by simp only [r']; rw [ha]; exact (a2 e he).1 hb, hp⟩
  · exact
      { simpleKeys := by simp only [r']; rw [hs]; exact s1
        aggKeys := by simp only [r']; rw [ha]; exact a1
        simpleAuth := sAuth
        aggGroup := by
          intro e' he'
          obtain ⟨e, he, hk, _⟩ := aSame e' he'
          rw [hk]; exact hr.aggGroup e he
        aggAsn := by
          intro e' he' p hp
          obtain ⟨e, he, hk, hau⟩ := aSame e' he'
          rw [hk]; exact hr.aggAsn e he p (hau ▸ hp)
        aggNodup := by
          intro e' he'
          obtain ⟨e, he, _, hau⟩ := aSame e' he'
          rw [hau]; exact hr.aggNodup e he
        aggNonempty := by
          intro e' he'
          obtain ⟨e, he, _, hau⟩ := aSame e' he'
          rw [hau]; exact hr.aggNonempty e he
        exclusive := by
          rcases hr.exclusive with h | h
          · left; simp only [r']; rw [hs, h]; rfl
          · right; simp only [r']; rw [ha, h]; rfl }

/-! ### ASPA objects and router certificates -/

theorem routers_exact (certs : RouterCerts) (hasAsn : Nat → Bool) (defs : List RouterKey)
    (mint : RouterKey → ObjMeta) (hk : (keys certs).Nodup) (hd : defs.Nodup) :
    let certs' := routerApply certs (routerCreateUpdates certs hasAsn defs mint)
    (keys certs').Nodup ∧ ∀ k, k ∈ keys certs' ↔ (k ∈ defs ∧ hasAsn k.asn = true) := by
  intro certs'
  have hU : keys ((defs.filter fun k => !has certs k && hasAsn k.asn).map fun k => (k, mint k)) =
      defs.filter fun k => !has certs k && hasAsn k.asn := by
    simp [keys, List.map_map, Function.comp_def]
  constructor
  · simp only [certs', routerApply, routerCreateUpdates, RouterPlan.sign, routerPlan]
    exact nodup_keys_eraseAll (nodup_keys_putAll hk (by rw [hU]; exact nodup_filter hd _)) _
  · intro k
    simp only [certs', routerApply, routerCreateUpdates, RouterPlan.sign, routerPlan]
    rw [keys_eraseAll, List.mem_filter, mem_keys_putAll, hU]
    simp only [List.mem_filter, Bool.and_eq_true, decide_eq_true_eq, Bool.or_eq_true,
      Bool.not_eq_eq_eq_not, Bool.not_true, decide_eq_false_iff_not, not_and, not_or, Decidable.not_not]
    constructor
    · rintro ⟨h1 | h1, h2⟩
      · have := h2 h1
        exact ⟨this.1, by cases h : hasAsn k.asn <;> simp_all⟩
      · exact ⟨h1.1, h1.2.2⟩
    · rintro ⟨h1, h2⟩
      refine ⟨?_, fun _ => ⟨h1, by simp [h2]⟩⟩
      by_cases hc : k ∈ keys certs
      · exact Or.inl hc
      · refine Or.inr ⟨h1, ?_, h2⟩
        cases hh : has certs k
        · rfl
        · exact absurd (has_iff.mp hh) hc

theorem aspaDef_unique (defs : List AspaDefn) (hd : (defs.map (·.customer)).Nodup) :
    ∀ d d', d ∈ defs → d' ∈ defs → d.customer = d'.customer → d = d' := by
  intro d d' h1 h2 hc
  induction defs with
  | nil => cases h1
  | cons a l ih =>
    simp only [List.map_cons, List.nodup_cons] at hd
    rcases List.mem_cons.mp h1 with rfl | h1' <;> rcases List.mem_cons.mp h2 with rfl | h2'
    · rfl
    · exact absurd (List.mem_map.mpr ⟨d', h2', hc.symm⟩) hd.1
    · exact absurd (List.mem_map.mpr ⟨d, h1', hc⟩) hd.1
    · exact ih hd.2 h1' h2'

theorem aspas_exact' (objs : AspaObjects) (hasAsn : Nat → Bool) (defs : List AspaDefn)
    (mint : AspaDefn → ObjMeta) (hw : AspaWF objs) (hd : (defs.map (·.customer)).Nodup) :
    let objs' := aspaApply objs (aspaCreateUpdates objs hasAsn defs mint)
    AspaWF objs' ∧ ∀ d, (∃ e ∈ objs', e.2.defn = d) ↔ (d ∈ defs ∧ hasAsn d.customer = true) := by
  intro objs'
  obtain ⟨hk, hkey⟩ := hw
  -- the update list
  let upd := defs.filter fun d =>
      hasAsn d.customer && (match get? objs d.customer with
        | some ex => decide (ex.defn ≠ d)
        | none => true)
  have hobjs' : objs' = eraseAll (putAll objs (upd.map fun d => (d.customer, (⟨d, mint d⟩ : AspaInfo))))
      ((keys objs).filter fun c => !(decide (c ∈ defs.map (·.customer))) || !hasAsn c) := by
    simp only [objs', aspaApply, aspaCreateUpdates, AspaPlan.sign, aspaPlan, upd, List.map_map, Function.comp_def]
    rfl
  have hU : keys (upd.map fun d => (d.customer, (⟨d, mint d⟩ : AspaInfo))) = upd.map (·.customer) := by
    simp [keys, List.map_map, Function.comp_def]
  have hUn : (upd.map (·.customer)).Nodup :=
    List.Nodup.sublist (List.Sublist.map _ List.filter_sublist) hd
  have defUnique := aspaDef_unique defs hd
  have notRemoved : ∀ c, c ∈ defs.map (·.customer) → hasAsn c = true →
      c ∉ (keys objs).filter fun c => !(decide (c ∈ defs.map (·.customer))) || !hasAsn c := by
    intro c h1 h2 h
    have := (List.mem_filter.mp h).2
    simp [h1, h2] at this
  refine ⟨⟨?_, ?_⟩, ?_⟩
  · rw [hobjs']
    exact nodup_keys_eraseAll (nodup_keys_putAll hk (by rw [hU]; exact hUn)) _
  · intro e he
    rw [hobjs', mem_eraseAll, mem_putAll] at he
    rcases he.1 with ⟨h1, _⟩ | h1
    · exact hkey e h1
    · obtain ⟨d, _, rfl⟩ := List.mem_map.mp h1
      rfl
  · intro d
    constructor
    · rintro ⟨e, he, hed⟩
      rw [hobjs', mem_eraseAll, mem_putAll] at he
      obtain ⟨h1, h2⟩ := he
      rcases h1 with ⟨hin, hnot⟩ | hnew
      · -- an old entry that stays
        have hkeep : e.1 ∈ defs.map (·.customer) ∧ hasAsn e.1 = true := by
          by_cases hc : e.1 ∈ defs.map (·.customer)
          · refine ⟨hc, ?_⟩
            cases hh : hasAsn e.1
            · exact absurd (List.mem_filter.mpr ⟨mem_keys_of_mem hin, by simp [hh]⟩) h2
            · rfl
          · exact absurd (List.mem_filter.mpr ⟨mem_keys_of_mem hin, by simp [hc]⟩) h2
        obtain ⟨d', hd', hdc⟩ := List.mem_map.mp hkeep.1
        have hg : get? objs d'.customer = some e.2 := get?_of_mem hk (by rw [hdc]; cases e; exact hin)
        have hnu : d' ∉ upd := by
          intro hu
          rw [hU] at hnot
          exact hnot (List.mem_map.mpr ⟨d', hu, hdc⟩)
        have : e.2.defn = d' := by
          by_cases heq : e.2.defn = d'
          · exact heq
          · exfalso; apply hnu
            simp only [upd, List.mem_filter, Bool.and_eq_true]
            refine ⟨hd', ?_, ?_⟩
            · rw [hdc]; exact hkeep.2
            · simp [hg, heq]
        rw [← hed, this]
        exact ⟨hd', by rw [hdc]; exact hkeep.2⟩
      · obtain ⟨d', hd', rfl⟩ := List.mem_map.mp hnew
        simp only at hed
        subst hed
        have := List.mem_filter.mp hd'
        simp only [Bool.and_eq_true] at this
        exact ⟨this.1, this.2.1⟩
    · rintro ⟨hd1, hd2⟩
      have hcm : d.customer ∈ defs.map (·.customer) := List.mem_map.mpr ⟨d, hd1, rfl⟩
      by_cases hu : d ∈ upd
      · refine ⟨(d.customer, ⟨d, mint d⟩), ?_, rfl⟩
        rw [hobjs', mem_eraseAll, mem_putAll]
        exact ⟨Or.inr (List.mem_map.mpr ⟨d, hu, rfl⟩), notRemoved _ hcm hd2⟩
      · -- not in the update list: an object with this very definition exists
        cases hg : get? objs d.customer with
        | none =>
          exfalso; apply hu
          simp only [upd, List.mem_filter, Bool.and_eq_true]
          exact ⟨hd1, hd2, by simp [hg]⟩
        | some ex =>
          have hexd : ex.defn = d := by
            by_cases heq : ex.defn = d
            · exact heq
            · exfalso; apply hu
              simp only [upd, List.mem_filter, Bool.and_eq_true]
              exact ⟨hd1, hd2, by simp [hg, heq]⟩
          refine ⟨(d.customer, ex), ?_, hexd⟩
          rw [hobjs', mem_eraseAll, mem_putAll]
          refine ⟨Or.inl ⟨get?_some_mem' hg, ?_⟩, notRemoved _ hcm hd2⟩
          rw [hU]
          intro hc
          obtain ⟨d', hd', hdc⟩ := List.mem_map.mp hc
          have := defUnique d' d (List.mem_filter.mp hd').1 hd1 hdc
          subst this
          exact hu hd'

end KM.Ca.Pub
