/- Helper lemmas about the repository synchronisation model (`syncDelta`, `applyDelta`). -/
import KrillModel.Ca.Objects
import KrillModel.Ca.PubBaseLemmas
namespace KM.Ca.Pub

universe u v
variable {κ : Type u} {ν : Type v} [DecidableEq κ]

/-! ### `get?` through the map primitives -/

theorem get?_cons (e : κ × ν) (m : List (κ × ν)) (k : κ) :
    get? (e :: m) k = if e.1 = k then some e.2 else get? m k := by
  simp only [get?, List.find?_cons]
  by_cases h : e.1 = k <;> simp [h]

theorem get?_nil (k : κ) : get? ([] : List (κ × ν)) k = none := rfl

theorem get?_filter_key (m : List (κ × ν)) (p : κ → Bool) (k : κ) :
    get? (m.filter fun e => p e.1) k = if p k then get? m k else none := by
  induction m with
  | nil => simp [get?_nil]
  | cons e m ih =>
    simp only [List.filter_cons]
    split
    · rename_i hp
      rw [get?_cons, get?_cons, ih]
      by_cases hk : e.1 = k
      · subst hk; simp [hp]
      · simp [hk]
    · rename_i hp
      rw [get?_cons, ih]
      by_cases hk : e.1 = k
      · subst hk; simp [hp]
      · simp [hk]

theorem get?_append (a b : List (κ × ν)) (k : κ) :
    get? (a ++ b) k = (get? a k).orElse fun _ => get? b k := by
  induction a with
  | nil => simp [get?_nil]
  | cons e a ih =>
    simp only [List.cons_append, get?_cons, ih]
    by_cases hk : e.1 = k <;> simp [hk]

theorem get?_erase (m : List (κ × ν)) (k u : κ) :
    get? (erase m k) u = if u = k then none else get? m u := by
  have := get?_filter_key m (fun x => decide (x ≠ k)) u
  simp only [erase]
  rw [this]
  by_cases h : u = k <;> simp [h]

theorem get?_put (m : List (κ × ν)) (k : κ) (v : ν) (u : κ) :
    get? (put m k v) u = if u = k then some v else get? m u := by
  simp only [put, get?_append, get?_erase, get?_cons, get?_nil]
  by_cases h : u = k
  · subst h; simp
  · have h' : ¬ k = u := fun e => h e.symm
    simp [h, h']

theorem keys_put_nodup' {m : List (κ × ν)} (h : (keys m).Nodup) (k : κ) (v : ν) : (keys (put m k v)).Nodup := by
  simp only [put, keys_append, erase]
  rw [List.nodup_append]
  refine ⟨?_, by simp [keys], ?_⟩
  · rw [keys_filter m (fun x => decide (x ≠ k))]; exact nodup_filter h _
  · intro a ha b hb hab
    simp [keys] at hb
    subst hab; subst hb
    rw [keys_filter m (fun x => decide (x ≠ a)), List.mem_filter] at ha
    simp at ha

theorem keys_erase_nodup' {m : List (κ × ν)} (h : (keys m).Nodup) (k : κ) : (keys (erase m k)).Nodup := by
  simp only [erase]
  rw [keys_filter m (fun x => decide (x ≠ k))]; exact nodup_filter h _

/-- Folding erasures. -/
theorem get?_foldl_erase {α : Type} (ws : List α) (f : α → κ) (m : List (κ × ν)) (u : κ) :
    get? (ws.foldl (fun m w => erase m (f w)) m) u = if u ∈ ws.map f then none else get? m u := by
  induction ws generalizing m with
  | nil => simp
  | cons w ws ih =>
    simp only [List.foldl_cons, ih, get?_erase, List.map_cons, List.mem_cons]
    by_cases h1 : u ∈ ws.map f <;> by_cases h2 : u = f w <;> simp [h1, h2]

theorem nodup_foldl_erase {α : Type} (ws : List α) (f : α → κ) (m : List (κ × ν)) (h : (keys m).Nodup) :
    (keys (ws.foldl (fun m w => erase m (f w)) m)).Nodup := by
  induction ws generalizing m with
  | nil => exact h
  | cons w ws ih => exact ih _ (keys_erase_nodup' h _)

/-- Folding insertions of a map (unique keys). -/
theorem get?_foldl_put (ps : List (κ × ν)) (hn : (keys ps).Nodup) (m : List (κ × ν)) (u : κ) :
    get? (ps.foldl (fun m p => put m p.1 p.2) m) u = (get? ps u).orElse fun _ => get? m u := by
  induction ps generalizing m with
  | nil => simp [get?_nil]
  | cons p ps ih =>
    simp only [keys, List.map_cons, List.nodup_cons] at hn
    simp only [List.foldl_cons, ih hn.2, get?_put, get?_cons]
    by_cases hk : p.1 = u
    · subst hk
      have : get? ps p.1 = none := get?_none_iff.mpr hn.1
      simp [this]
    · have hk' : ¬ u = p.1 := fun e => hk e.symm
      simp [hk, hk']

theorem nodup_foldl_put (ps : List (κ × ν)) (m : List (κ × ν)) (h : (keys m).Nodup) :
    (keys (ps.foldl (fun m p => put m p.1 p.2) m)).Nodup := by
  induction ps generalizing m with
  | nil => exact h
  | cons p ps ih => exact ih _ (keys_put_nodup' h _ _)

theorem elementMap_nodup (elements : List (Uri × Nat)) : (keys (elementMap elements)).Nodup :=
  nodup_foldl_put elements [] (by simp [keys])

/-! ### The update list -/

/-- The `(uri, new hash)` pairs of the updates of `syncDelta`. -/
def updStep (all : List (Uri × Nat)) (e : Uri × Nat) : Option (Uri × Nat) :=
  match get? all e.1 with
  | some h => if h = e.2 then none else some (e.1, h)
  | none => none

def updPairs (all listReply : List (Uri × Nat)) : List (Uri × Nat) := listReply.filterMap (updStep all)

theorem updStep_key {all : List (Uri × Nat)} {e p : Uri × Nat} (h : updStep all e = some p) : p.1 = e.1 := by
  unfold updStep at h
  cases hg : get? all e.1 with
  | none => simp [hg] at h
  | some x =>
    simp only [hg] at h
    split at h
    · cases h
    · cases h; rfl

theorem updPairs_keys_sublist (all listReply : List (Uri × Nat)) :
    (keys (updPairs all listReply)).Sublist (keys listReply) := by
  induction listReply with
  | nil => simp [updPairs, keys]
  | cons e l ih =>
    simp only [updPairs, List.filterMap_cons, keys, List.map_cons] at ih ⊢
    cases hs : updStep all e with
    | none => simp only []; exact List.Sublist.cons _ ih
    | some p =>
      simp only [List.map_cons]
      rw [updStep_key hs]
      exact List.Sublist.cons_cons _ ih

theorem get?_updPairs (all listReply : List (Uri × Nat)) (hn : (keys listReply).Nodup) (u : Uri) :
    get? (updPairs all listReply) u =
      match get? listReply u, get? all u with
      | some h0, some h => if h = h0 then none else some h
      | _, _ => none := by
  induction listReply with
  | nil => simp [updPairs, get?_nil]
  | cons e l ih =>
    simp only [keys, List.map_cons, List.nodup_cons] at hn
    have ih' := ih hn.2
    simp only [updPairs, List.filterMap_cons] at ih' ⊢
    by_cases hk : e.1 = u
    · subst hk
      have hnone : get? l e.1 = none := get?_none_iff.mpr hn.1
      have hrest : get? (List.filterMap (updStep all) l) e.1 = none := by rw [ih', hnone]
      cases hs : updStep all e with
      | none =>
        simp only [hrest, get?_cons, if_true]
        unfold updStep at hs
        cases hg : get? all e.1 with
        | none => rfl
        | some h =>
          simp only [hg] at hs
          by_cases heq : h = e.2
          · simp [heq]
          · simp [heq] at hs
      | some p =>
        have hp1 := updStep_key hs
        simp only [get?_cons, hp1, if_true]
        unfold updStep at hs
        cases hg : get? all e.1 with
        | none => simp [hg] at hs
        | some h =>
          simp only [hg] at hs
          by_cases heq : h = e.2
          · simp [heq] at hs
          · simp [heq] at hs; subst hs; simp [heq]
    · cases hs : updStep all e with
      | none => simp only [get?_cons, hk, if_false]; exact ih'
      | some p =>
        have hp1 := updStep_key hs
        simp only [get?_cons, hp1, hk, if_false]; exact ih'

theorem update_fold_eq (all0 server : List (Uri × Nat)) (m : List (Uri × Nat)) :
    (syncDelta server all0).update.foldl (fun m u => put m u.1 u.2.1) m =
      (updPairs (elementMap all0) server).foldl (fun m p => put m p.1 p.2) m := by
  simp only [syncDelta, updPairs]
  generalize elementMap all0 = al
  induction server generalizing m with
  | nil => rfl
  | cons e l ih =>
    simp only [List.filterMap_cons, updStep]
    cases hg : get? al e.1 with
    | none => simp only []; exact ih m
    | some h =>
      by_cases heq : h = e.2
      · simp only [heq, if_true]; exact ih m
      · simp only [heq, if_false, List.foldl_cons]; exact ih _

theorem has_of_get? {m : List (κ × ν)} {k : κ} {v : ν} (h : get? m k = some v) : has m k = true :=
  has_iff.mpr (mem_keys_of_mem (get?_some_mem' h))

theorem has_false_of_get? {m : List (κ × ν)} {k : κ} (h : get? m k = none) : has m k = false := by
  cases hh : has m k
  · rfl
  · exact absurd (has_iff.mp hh) (get?_none_iff.mp h)

/-- After applying the delta computed from the server's own content, the content is the element map. -/
theorem syncRepo_exact (server elements : List (Uri × Nat)) (hn : (keys server).Nodup) :
    (keys (applyDelta server (syncDelta server elements))).Nodup ∧
    ∀ u, get? (applyDelta server (syncDelta server elements)) u = get? (elementMap elements) u := by
  have hall := elementMap_nodup elements
  have hupd : (keys (updPairs (elementMap elements) server)).Nodup :=
    List.Nodup.sublist (updPairs_keys_sublist _ _) hn
  have hpubN : (keys ((elementMap elements).filter fun e => !has server e.1)).Nodup := by
    rw [keys_filter (elementMap elements) (fun k => !has server k)]; exact nodup_filter hall _
  constructor
  · simp only [applyDelta]
    exact nodup_foldl_put _ _ (by rw [update_fold_eq]; exact nodup_foldl_put _ _ (nodup_foldl_erase _ _ _ hn))
  · intro u
    simp only [applyDelta]
    rw [show (syncDelta server elements).publish = (elementMap elements).filter (fun e => !has server e.1) from rfl]
    rw [get?_foldl_put _ hpubN, update_fold_eq, get?_foldl_put _ hupd, get?_foldl_erase,
      get?_filter_key (elementMap elements) (fun k => !has server k), get?_updPairs _ _ hn]
    have hw : (u ∈ (syncDelta server elements).withdraw.map (·.1)) ↔
        (u ∈ keys server ∧ has (elementMap elements) u = false) := by
      simp only [syncDelta]
      have := keys_filter server (fun k => !has (elementMap elements) k)
      simp only [keys] at this ⊢
      rw [this, List.mem_filter]
      simp
    cases hs : get? server u with
    | none =>
      have h1 := has_false_of_get? hs
      have h2 : u ∉ keys server := get?_none_iff.mp hs
      have h3 : ¬ (u ∈ (syncDelta server elements).withdraw.map (·.1)) := fun h => h2 (hw.mp h).1
      simp only [h1, Bool.not_false, if_true, h3, if_false]
      cases get? (elementMap elements) u <;> simp
    | some h0 =>
      have h1 := has_of_get? hs
      have h2 : u ∈ keys server := has_iff.mp h1
      simp only [h1, Bool.not_true, Bool.false_eq_true, if_false, Option.orElse]
      cases ha : get? (elementMap elements) u with
      | none =>
        have h3 : u ∈ (syncDelta server elements).withdraw.map (·.1) := hw.mpr ⟨h2, has_false_of_get? ha⟩
        simp [h3]
      | some h =>
        have h3 : ¬ (u ∈ (syncDelta server elements).withdraw.map (·.1)) := by
          intro hc
          have := (hw.mp hc).2
          rw [has_of_get? ha] at this; cases this
        by_cases heq : h = h0
        · simp [heq, h3]
        · simp [heq]

end KM.Ca.Pub
