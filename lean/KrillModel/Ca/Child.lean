/-
Child bookkeeping of a parent CA: `ChildDetails` and `ChildCertificates` of
src/server/ca/child.rs with the exact insert/remove behaviour of `add_issued_certificate`,
`unsuspend_certificate`, `suspend_certificate`, `remove_revoked_key`, the
`ChildCertificatesUpdated` arm of `CertAuth::apply`, `shrink_overclaiming` and `activate_key`.

`add_issued_certificate` only inserts into `issued`; it does **not** remove a `suspended`
entry for the same key (child.rs:200-203).  That is the code, and the model follows it.
Import-free (model files only).
-/
import KrillModel.Base.AMap
import KrillModel.Ca.Issue
namespace KM.CaK
open KM.Res KM.AMap

/-- `UsedKeyState` -/
inductive UsedKey where
  | inUse (rcn : Rcn)
  | revoked
deriving DecidableEq, Repr

/-- `ChildDetails` (without the identity certificate). -/
structure Child where
  /-- `state == ChildState::Active` -/
  active : Bool := true
  /-- entitlement -/
  res : ResSet
  usedKeys : AMap KeyId UsedKey := []
  /-- `rcn_map`: name in the parent ↦ name for the child -/
  rcnMap : AMap Rcn Rcn := []
deriving DecidableEq, Repr

/-- `name_for_parent_rcn`: our class name → the name the child uses. -/
def Child.nameForChild (c : Child) (nameInParent : Rcn) : Rcn :=
  (get c.rcnMap nameInParent).getD nameInParent

/-- `parent_name_for_rcn`: the name the child uses → our class name (first mapping with that
value, else the same name). -/
def Child.nameInParent (c : Child) (nameForChild : Rcn) : Rcn :=
  match c.rcnMap.find? (fun p => p.2 = nameForChild) with
  | some p => p.1
  | none => nameForChild

/-- `ChildDetails::issued(rcn)`: the keys in use in that class. -/
def Child.issuedKeys (c : Child) (rcn : Rcn) : List KeyId :=
  (keys c.usedKeys).filter fun k => get c.usedKeys k = some (.inUse rcn)

/-- `is_issued` -/
def Child.isIssued (c : Child) (k : KeyId) : Bool :=
  match get c.usedKeys k with
  | some (.inUse _) => true
  | _ => false

/-- `ChildCertificateUpdates` -/
structure CertUpd where
  issued : List (KeyId × ChildCert) := []
  removed : List KeyId := []
  suspended : List (KeyId × ChildCert) := []
  /-- "no longer used as of Krill 0.16.0", still applied -/
  unsuspended : List (KeyId × ChildCert) := []
deriving DecidableEq, Repr

def CertUpd.isEmpty (u : CertUpd) : Bool :=
  u.issued.isEmpty && u.removed.isEmpty && u.suspended.isEmpty && u.unsuspended.isEmpty

/-- `ChildCertificates` -/
structure ChildCerts where
  issued : AMap KeyId ChildCert := []
  suspended : AMap KeyId ChildCert := []
deriving DecidableEq, Repr

/-- `add_issued_certificate` (child.rs:200-204, after fix bb96d233): a `suspended` entry of the
same key is removed, then `issued.insert`. -/
def ChildCerts.addIssued (cs : ChildCerts) (p : KeyId × ChildCert) : ChildCerts :=
  { issued := set cs.issued p.1 p.2, suspended := del cs.suspended p.1 }

/-- `add_issued_certificate` of the pinned tree (before bb96d233): `issued.insert` only – the
counter-model of F-C02-1. -/
def ChildCerts.pinnedAddIssued (cs : ChildCerts) (p : KeyId × ChildCert) : ChildCerts :=
  { cs with issued := set cs.issued p.1 p.2 }

/-- `unsuspend_certificate` (child.rs:206-210) -/
def ChildCerts.unsuspend (cs : ChildCerts) (p : KeyId × ChildCert) : ChildCerts :=
  { issued := set cs.issued p.1 p.2, suspended := del cs.suspended p.1 }

/-- `suspend_certificate` (child.rs:213-217) -/
def ChildCerts.suspend (cs : ChildCerts) (p : KeyId × ChildCert) : ChildCerts :=
  { issued := del cs.issued p.1, suspended := set cs.suspended p.1 p.2 }

/-- `remove_revoked_key` (child.rs:220-223) -/
def ChildCerts.removeRevoked (cs : ChildCerts) (k : KeyId) : ChildCerts :=
  { issued := del cs.issued k, suspended := del cs.suspended k }

/-- The class part of the `ChildCertificatesUpdated` arm of `CertAuth::apply`
(certauth.rs:401-438): issued, unsuspended, removed, suspended – in that order. -/
def ChildCerts.applyUpd (cs : ChildCerts) (u : CertUpd) : ChildCerts :=
  let cs := u.issued.foldl ChildCerts.addIssued cs
  let cs := u.unsuspended.foldl ChildCerts.unsuspend cs
  let cs := u.removed.foldl ChildCerts.removeRevoked cs
  u.suspended.foldl ChildCerts.suspend cs

/-- `ChildCertificates` update of the pinned tree (before bb96d233): as `applyUpd`, with the
pinned `add_issued_certificate`. -/
def ChildCerts.pinnedApplyUpd (cs : ChildCerts) (u : CertUpd) : ChildCerts :=
  let cs := u.issued.foldl ChildCerts.pinnedAddIssued cs
  let cs := u.unsuspended.foldl ChildCerts.unsuspend cs
  let cs := u.removed.foldl ChildCerts.removeRevoked cs
  u.suspended.foldl ChildCerts.suspend cs

/-- One loop of `shrink_overclaiming` (child.rs:290-309 / 312-337) over the entries of a map:
re-issued entries and removed keys. -/
def shrinkList (l : List (KeyId × ChildCert)) (rcvd : Cert) (na : Int) :
    Except IssueErr (List (KeyId × ChildCert) × List KeyId) :=
  match l with
  | [] => .ok ([], [])
  | (k, cc) :: t =>
    match cc.reduced rcvd.res with
    | none => shrinkList t rcvd na
    | some r =>
      if isEmpty r then
        match shrinkList t rcvd na with
        | .error e => .error e
        | .ok (iss, rem) => .ok (iss, k :: rem)
      else
        match reissue cc (some r) rcvd na with
        | .error e => .error e
        | .ok c' =>
          match shrinkList t rcvd na with
          | .error e => .error e
          | .ok (iss, rem) => .ok ((k, c') :: iss, rem)

/-- `ChildCertificates::shrink_overclaiming` (child.rs:280-340). -/
def ChildCerts.shrinkOverclaiming (cs : ChildCerts) (rcvd : Cert) (na : Int) : Except IssueErr CertUpd :=
  match shrinkList cs.issued rcvd na with
  | .error e => .error e
  | .ok (iss, rem1) =>
    match shrinkList cs.suspended rcvd na with
    | .error e => .error e
    | .ok (sus, rem2) => .ok { issued := iss, removed := rem1 ++ rem2, suspended := sus }

/-- Re-issue every entry of a map under a new signing certificate. -/
def reissueAll (l : List (KeyId × ChildCert)) (signing : Cert) (na : Int) :
    Except IssueErr (List (KeyId × ChildCert)) :=
  match l with
  | [] => .ok []
  | (k, cc) :: t =>
    match reissue cc none signing na with
    | .error e => .error e
    | .ok c' =>
      match reissueAll t signing na with
      | .error e => .error e
      | .ok r => .ok ((k, c') :: r)

/-- `ChildCertificates::activate_key` (child.rs:242-273): everything issued and everything
suspended is re-issued under the new key. -/
def ChildCerts.activateKey (cs : ChildCerts) (signing : Cert) (na : Int) : Except IssueErr CertUpd :=
  match reissueAll cs.issued signing na with
  | .error e => .error e
  | .ok iss =>
    match reissueAll cs.suspended signing na with
    | .error e => .error e
    | .ok sus => .ok { issued := iss, suspended := sus }

/-! ## Non-vacuity -/

private def cc12 : ChildCert := { res := [1, 2], na := 5 }

/-- suspend → unsuspend (re-issue through `add_issued_certificate`) leaves the key in `issued`
only; on the pinned tree it stayed in both maps (F-C02-1). -/
example :
    (((({} : ChildCerts).addIssued (7, cc12)).suspend (7, cc12)).addIssued (7, cc12)) =
      { issued := [(7, cc12)], suspended := [] } ∧
    (((({} : ChildCerts).addIssued (7, cc12)).suspend (7, cc12)).pinnedAddIssued (7, cc12)) =
      { issued := [(7, cc12)], suspended := [(7, cc12)] } := by decide

/-- A shrink to `{1}` re-issues, a shrink to `{3}` removes, no change leaves alone. -/
example :
    ({ issued := [(7, cc12)] } : ChildCerts).shrinkOverclaiming { res := [1] } 9 =
      .ok { issued := [(7, { res := [1], na := 9 })] } ∧
    ({ issued := [(7, cc12)] } : ChildCerts).shrinkOverclaiming { res := [3] } 9 =
      .ok { removed := [7] } ∧
    ({ issued := [(7, cc12)] } : ChildCerts).shrinkOverclaiming { res := [1, 2, 3] } 9 = .ok {} := by
  decide

/-- A limit that no longer fits makes the whole shrink fail (`Error::limit`). -/
example :
    ({ issued := [(7, { res := [1, 2], limit := some [1, 2] })] } : ChildCerts).shrinkOverclaiming
      { res := [1] } 9 = .error .limit := by decide

end KM.CaK
