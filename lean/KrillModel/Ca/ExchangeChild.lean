/-
Helper lemmas for C02 (`exchange_converges`): the child side of the exchange
(`Ca/Exchange.lean`) – what `UpdateRcvdCert`, `DropResourceClass` and `UpdateEntitlements` do to
the class map of a reachable CA.  No property statements.
-/
import KrillModel.Ca.ExchangeBase
namespace KM.CaK
open KM.Res KM.AMap

/-- `omega` after unfolding the `Nat` abbreviations of the model. -/
macro "omegan" : tactic => `(tactic| ((try unfold Rcn at *); (try unfold KeyId at *); omega))

/-! ## Association lists -/

theorem mem_del' {K V : Type} [DecidableEq K] {m : AMap K V} {k : K} {e : K × V} (h : e ∈ del m k) : e ∈ m :=
  (List.mem_filter.mp h).1

theorem mem_set' {K V : Type} [DecidableEq K] {m : AMap K V} {k : K} {v : V} {e : K × V}
    (h : e ∈ set m k v) : e = (k, v) ∨ e ∈ m := by
  rcases List.mem_cons.mp h with h | h
  · exact Or.inl h
  · exact Or.inr (mem_del' h)

/-! ## No request limits -/

/-- No child certificate of the class carries a request limit. -/
def ChildCerts.noLimits (cs : ChildCerts) : Prop := ∀ e ∈ cs.issued ++ cs.suspended, e.2.limit = none

/-- No child certificate of the CA carries a request limit (krill as a child never sends one). -/
def NoLimits (s : Ca) : Prop := ∀ r rc, get s.classes r = some rc → rc.certs.noLimits

theorem noLimits_addIssued {cs : ChildCerts} (h : cs.noLimits) {p : KeyId × ChildCert} (hp : p.2.limit = none) :
    (cs.addIssued p).noLimits := by
  intro e he
  simp only [ChildCerts.addIssued, List.mem_append] at he
  rcases he with he | he
  · rcases mem_set' he with rfl | he
    · exact hp
    · exact h e (List.mem_append_left _ he)
  · exact h e (List.mem_append_right _ (mem_del' he))

theorem noLimits_suspend {cs : ChildCerts} (h : cs.noLimits) {p : KeyId × ChildCert} (hp : p.2.limit = none) :
    (cs.suspend p).noLimits := by
  intro e he
  simp only [ChildCerts.suspend, List.mem_append] at he
  rcases he with he | he
  · exact h e (List.mem_append_left _ (mem_del' he))
  · rcases mem_set' he with rfl | he
    · exact hp
    · exact h e (List.mem_append_right _ he)

theorem noLimits_removeRevoked {cs : ChildCerts} (h : cs.noLimits) (k : KeyId) : (cs.removeRevoked k).noLimits := by
  intro e he
  simp only [ChildCerts.removeRevoked, List.mem_append] at he
  rcases he with he | he
  · exact h e (List.mem_append_left _ (mem_del' he))
  · exact h e (List.mem_append_right _ (mem_del' he))

theorem noLimits_foldl_addIssued (l : List (KeyId × ChildCert)) (hl : ∀ e ∈ l, e.2.limit = none)
    {cs : ChildCerts} (h : cs.noLimits) : (l.foldl ChildCerts.addIssued cs).noLimits := by
  induction l generalizing cs with
  | nil => exact h
  | cons p t ih =>
    exact ih (fun e he => hl e (List.mem_cons_of_mem _ he)) (noLimits_addIssued h (hl p (List.mem_cons_self ..)))

theorem noLimits_foldl_suspend (l : List (KeyId × ChildCert)) (hl : ∀ e ∈ l, e.2.limit = none)
    {cs : ChildCerts} (h : cs.noLimits) : (l.foldl ChildCerts.suspend cs).noLimits := by
  induction l generalizing cs with
  | nil => exact h
  | cons p t ih =>
    exact ih (fun e he => hl e (List.mem_cons_of_mem _ he)) (noLimits_suspend h (hl p (List.mem_cons_self ..)))

theorem noLimits_foldl_removeRevoked (l : List KeyId) {cs : ChildCerts} (h : cs.noLimits) :
    (l.foldl ChildCerts.removeRevoked cs).noLimits := by
  induction l generalizing cs with
  | nil => exact h
  | cons p t ih => exact ih (noLimits_removeRevoked h p)

theorem noLimits_applyUpd {cs : ChildCerts} (h : cs.noLimits) {u : CertUpd}
    (hi : ∀ e ∈ u.issued, e.2.limit = none) (hs : ∀ e ∈ u.suspended, e.2.limit = none)
    (hu : u.unsuspended = []) : (cs.applyUpd u).noLimits := by
  simp only [ChildCerts.applyUpd, hu, List.foldl_nil]
  exact noLimits_foldl_suspend _ hs (noLimits_foldl_removeRevoked _ (noLimits_foldl_addIssued _ hi h))

/-- Without request limits the shrink loop never fails and re-issues without limits. -/
theorem shrinkList_noLimit (l : List (KeyId × ChildCert)) (rcvd : Cert) (na : Int)
    (h : ∀ e ∈ l, e.2.limit = none) :
    ∃ iss rem, shrinkList l rcvd na = .ok (iss, rem) ∧ ∀ e ∈ iss, e.2.limit = none := by
  induction l with
  | nil => exact ⟨[], [], rfl, fun _ he => by cases he⟩
  | cons p t ih =>
    obtain ⟨k, cc⟩ := p
    obtain ⟨iss, rem, ht, hiss⟩ := ih (fun e he => h e (List.mem_cons_of_mem _ he))
    have hl : cc.limit = none := h (k, cc) (List.mem_cons_self ..)
    simp only [shrinkList]
    cases hred : cc.reduced rcvd.res with
    | none => exact ⟨iss, rem, by simp only [ht], hiss⟩
    | some r =>
      simp only
      by_cases he : isEmpty r = true
      · simp only [he, if_true, ht]; exact ⟨iss, k :: rem, rfl, hiss⟩
      · simp only [he, Bool.false_eq_true, if_false]
        have hr : r = inter rcvd.res cc.res := by
          unfold ChildCert.reduced at hred
          split at hred
          · cases hred
          · simp only [Option.some.injEq] at hred; exact hred.symm
        have hre : reissue cc (some r) rcvd na = .ok { res := r, limit := none, na := na } := by
          simp only [reissue, Option.getD_some, makeIssued, hl, applyLimit, hr, inter_subset_left, if_true]
        simp only [hre, ht]
        refine ⟨(k, { res := r, limit := none, na := na }) :: iss, rem, rfl, ?_⟩
        intro e he'
        rcases List.mem_cons.mp he' with rfl | he'
        · rfl
        · exact hiss e he'

theorem shrinkOverclaiming_noLimit {cs : ChildCerts} (h : cs.noLimits) (rcvd : Cert) (na : Int) :
    ∃ upd, cs.shrinkOverclaiming rcvd na = .ok upd ∧ (cs.applyUpd upd).noLimits := by
  obtain ⟨iss, rem1, h1, hi⟩ := shrinkList_noLimit cs.issued rcvd na (fun e he => h e (List.mem_append_left _ he))
  obtain ⟨sus, rem2, h2, hs⟩ := shrinkList_noLimit cs.suspended rcvd na (fun e he => h e (List.mem_append_right _ he))
  refine ⟨{ issued := iss, removed := rem1 ++ rem2, suspended := sus }, ?_, noLimits_applyUpd h hi hs rfl⟩
  simp only [ChildCerts.shrinkOverclaiming, h1, h2]

/-! ## A received certificate -/

/-- `UpdateRcvdCert` for the key of a `pending` or `active` class of a reachable CA without
request limits: the command is stored, the class is `active` with exactly that certificate and no
open request, nothing else of the class map changes. -/
theorem recv_spec {s : Sys} (hr : Reachable s) (hnl : NoLimits s.ca) {r : Rcn} {rc : Rc} {ki : KeyId}
    (hg : get s.ca.classes r = some rc)
    (hk : (∃ b, rc.keys = .pending ⟨ki, b⟩) ∨ (∃ c, rc.keys = .active c ∧ c.id = ki)) (cert : Cert) (na : Int) :
    s.receiveOrDrop r ki cert na = s.next (.updateRcvdCert r ki cert na []) ∧
    Reachable (s.next (.updateRcvdCert r ki cert na [])) ∧
    NoLimits (s.next (.updateRcvdCert r ki cert na [])).ca ∧
    (s.next (.updateRcvdCert r ki cert na [])).ca.hasRepo = s.ca.hasRepo ∧
    (s.next (.updateRcvdCert r ki cert na [])).ca.nextClass = s.ca.nextClass ∧
    (∀ r2, r2 ≠ r → get (s.next (.updateRcvdCert r ki cert na [])).ca.classes r2 = get s.ca.classes r2) ∧
    ∃ rc', get (s.next (.updateRcvdCert r ki cert na [])).ca.classes r = some rc' ∧
      rc'.parent = rc.parent ∧ rc'.parentRcn = rc.parentRcn ∧ rc'.keys = .active ⟨ki, cert, false⟩ := by
  -- the events and what they do to the class record
  have hev : ∃ evs rc', s.ca.process (.updateRcvdCert r ki cert na []) = .ok evs ∧
      (∀ e ∈ evs, e.onClass r = true) ∧ rc.applyEvs evs = some rc' ∧
      rc'.parent = rc.parent ∧ rc'.parentRcn = rc.parentRcn ∧ rc'.keys = .active ⟨ki, cert, false⟩ ∧
      rc'.certs.noLimits := by
    rcases hk with ⟨b, hk⟩ | ⟨c, hk, hid⟩
    · refine ⟨[.key r (.pendingToActive (CertKey.create ki cert))], { rc with keys := .active (CertKey.create ki cert) },
        ?_, ?_, ?_, rfl, rfl, rfl, hnl r rc hg⟩
      · simp [Ca.process, hg, hk, KeyState.route]
      · intro e he; simp only [List.mem_singleton] at he; subst he; simp [Ev.onClass]
      · simp [Rc.applyEvs, Rc.applyEv, hk, KeyState.apply, KeyState.applyPendingToActive]
    · subst hid
      have hroute : rc.keys.route c.id = .ok (.current c) := by simp [hk, KeyState.route]
      by_cases hse : seteq cert.res c.cert.res = true
      · refine ⟨[.key r (.received c.id cert)], { rc with keys := .active (c.setIncoming cert) },
          ?_, ?_, ?_, rfl, rfl, rfl, hnl r rc hg⟩
        · simp [Ca.process, hg, hroute, Rc.rcvdCertCurrent, hse]
        · intro e he; simp only [List.mem_singleton] at he; subst he; simp [Ev.onClass]
        · simp [Rc.applyEvs, Rc.applyEv, hk, KeyState.apply, KeyState.applyReceived]
      · obtain ⟨upd, hupd, hnl'⟩ := shrinkOverclaiming_noLimit (hnl r rc hg) cert na
        by_cases hemp : upd.isEmpty = true
        · refine ⟨[.key r (.received c.id cert)], { rc with keys := .active (c.setIncoming cert) },
            ?_, ?_, ?_, rfl, rfl, rfl, hnl r rc hg⟩
          · simp [Ca.process, hg, hroute, Rc.rcvdCertCurrent, hse, hupd, hemp]
          · intro e he; simp only [List.mem_singleton] at he; subst he; simp [Ev.onClass]
          · simp [Rc.applyEvs, Rc.applyEv, hk, KeyState.apply, KeyState.applyReceived]
        · refine ⟨[.key r (.received c.id cert), .childCerts r upd],
            { rc with keys := .active (c.setIncoming cert), certs := rc.certs.applyUpd upd },
            ?_, ?_, ?_, rfl, rfl, rfl, hnl'⟩
          · simp [Ca.process, hg, hroute, Rc.rcvdCertCurrent, hse, hupd, hemp]
          · intro e he
            simp only [List.mem_cons, List.mem_nil_iff, or_false] at he
            rcases he with rfl | rfl <;> simp [Ev.onClass]
          · simp [Rc.applyEvs, Rc.applyEv, hk, KeyState.apply, KeyState.applyReceived]
  obtain ⟨evs, rc', hp, hon, happl, h1, h2, h3, h4⟩ := hev
  obtain ⟨s', hex, happ, hr'⟩ := stored_of_process hr (c := _) (by exact trivial) hp
  have hn : s.next (.updateRcvdCert r ki cert na []) = s' := by unfold Sys.next; rw [hex]
  have hrd : s.receiveOrDrop r ki cert na = s' := by unfold Sys.receiveOrDrop; rw [hex]
  rw [hn]
  obtain ⟨rc'', ha, hb, hc, hd, he, _, _, _⟩ := applyAll_of_rc hon hg happ
  rw [happl] at ha; cases ha
  refine ⟨hrd, hr', ?_, he, hd, hc, rc', hb, h1, h2, h3⟩
  intro r2 rc2 hg2
  by_cases hr2 : r2 = r
  · subst hr2; rw [hb] at hg2; cases hg2; exact h4
  · rw [hc r2 hr2] at hg2; exact hnl r2 rc2 hg2

/-! ## A dropped class -/

theorem drop_spec {s : Sys} (hr : Reachable s) (hnl : NoLimits s.ca) {r : Rcn} {rc : Rc}
    (hg : get s.ca.classes r = some rc) :
    Reachable (s.next (.dropClass r)) ∧ NoLimits (s.next (.dropClass r)).ca ∧
    (s.next (.dropClass r)).ca.hasRepo = s.ca.hasRepo ∧
    (s.next (.dropClass r)).ca.nextClass = s.ca.nextClass ∧
    (∀ r2, r2 ≠ r → get (s.next (.dropClass r)).ca.classes r2 = get s.ca.classes r2) ∧
    get (s.next (.dropClass r)).ca.classes r = none := by
  have hp : s.ca.process (.dropClass r) = .ok [.rcRemoved r] := by simp [Ca.process, hg]
  obtain ⟨s', hex, happ, hr'⟩ := stored_of_process hr (c := _) (by exact trivial) hp
  have hn : s.next (.dropClass r) = s' := by unfold Sys.next; rw [hex]
  rw [hn]
  simp only [Ca.applyAll, Ca.apply, Option.bind_some, Option.some.injEq] at happ
  refine ⟨hr', ?_, by rw [← happ], by rw [← happ], ?_, by rw [← happ]; exact get_del_self _ _⟩
  · intro r2 rc2 hg2
    rw [← happ] at hg2
    simp only [get_del] at hg2
    split at hg2
    · cases hg2
    · exact hnl r2 rc2 hg2
  · intro r2 hr2
    rw [← happ]
    exact get_del_ne _ (fun h => hr2 h.symm)

/-! ## `find_parent_rc` -/

/-- Class names under a parent are pairwise different. -/
def UniqueNames (s : Ca) (p : Handle) : Prop :=
  ∀ r1 r2 rc1 rc2, get s.classes r1 = some rc1 → get s.classes r2 = some rc2 →
    rc1.parent = p → rc2.parent = p → rc1.parentRcn = rc2.parentRcn → r1 = r2

theorem findParentRc_some {s : Ca} (hnd : (keys s.classes).Nodup) {p : Handle} {n : Rcn} {q : Rcn × Rc}
    (h : s.findParentRc p n = some q) : get s.classes q.1 = some q.2 ∧ q.2.parent = p ∧ q.2.parentRcn = n := by
  unfold Ca.findParentRc at h
  have hm := List.mem_of_find?_eq_some h
  have hp := List.find?_some h
  simp only [decide_eq_true_eq] at hp
  exact ⟨get_of_mem_nodup hnd hm, hp.1, hp.2⟩

theorem findParentRc_none {s : Ca} {p : Handle} {n : Rcn} (h : s.findParentRc p n = none) {r : Rcn} {rc : Rc}
    (hg : get s.classes r = some rc) (hp : rc.parent = p) : rc.parentRcn ≠ n := by
  unfold Ca.findParentRc at h
  have := List.find?_eq_none.mp h (r, rc) (mem_of_get hg)
  simp only [decide_eq_true_eq, not_and] at this
  exact this hp

theorem findParentRc_of_get {s : Ca} (hnd : (keys s.classes).Nodup) {p : Handle} (hu : UniqueNames s p)
    {r : Rcn} {rc : Rc} (hg : get s.classes r = some rc) (hp : rc.parent = p) :
    s.findParentRc p rc.parentRcn = some (r, rc) := by
  cases hf : s.findParentRc p rc.parentRcn with
  | none => exact absurd rfl (findParentRc_none hf hg hp)
  | some q =>
    obtain ⟨h1, h2, h3⟩ := findParentRc_some hnd hf
    have := hu q.1 r q.2 rc h1 hg h2 hp h3
    obtain ⟨q1, q2⟩ := q
    simp only at this h1
    subst this
    rw [hg] at h1
    cases h1; rfl

/-! ## The entitlement loop -/

/-- The key state after the requests `append_entitlement_events` creates. -/
def KeyState.requestedFor (ks : KeyState) (ent : Entitlement) (now : Int) : KeyState :=
  (ks.requestKeys ent now).foldl (fun k ki => k.applyRequested ki) ks

theorem applyEvs_requested (r : Rcn) (l : List KeyId) (rc : Rc) :
    rc.applyEvs (l.map fun k => Ev.key r (.requested k)) =
      some { rc with keys := l.foldl (fun k ki => k.applyRequested ki) rc.keys } := by
  induction l generalizing rc with
  | nil => rfl
  | cons k t ih =>
    simp only [List.map_cons, Rc.applyEvs, Rc.applyEv, KeyState.apply, Option.map_some, Option.bind_some,
      List.foldl_cons]
    exact ih _

theorem applyAll_unexpected (s : Ca) (r : Rcn) (l : List KeyId) :
    s.applyAll (l.map fun k => Ev.key r (.unexpected k)) = some s := by
  induction l with
  | nil => rfl
  | cons k t ih => simp only [List.map_cons, Ca.applyAll, Ca.apply, Option.bind_some]; exact ih

/-- The events of one class for its entitlement. -/
theorem applyAll_entEvents {s s' : Ca} {r : Rcn} {rc : Rc} (hg : get s.classes r = some rc)
    (ent : Entitlement) (now : Int)
    (h : s.applyAll ((rc.keys.entitlementEvents ent now).map (Ev.key r)) = some s') :
    get s'.classes r = some { rc with keys := rc.keys.requestedFor ent now } ∧
    (∀ r2, r2 ≠ r → get s'.classes r2 = get s.classes r2) ∧
    s'.nextClass = s.nextClass ∧ s'.hasRepo = s.hasRepo := by
  simp only [KeyState.entitlementEvents, List.map_append, List.map_map] at h
  rw [applyAll_append] at h
  cases h1 : s.applyAll (List.map (Ev.key r ∘ KeyEv.requested) (rc.keys.requestKeys ent now)) with
  | none => rw [h1] at h; cases h
  | some s1 =>
    rw [h1] at h
    simp only [Option.bind_some] at h
    have hun := applyAll_unexpected s1 r (ent.issued.filter fun k => !rc.keys.knows k)
    have hfun : (fun k => Ev.key r (.unexpected k)) = (Ev.key r ∘ KeyEv.unexpected) := rfl
    rw [hfun, h] at hun
    cases hun
    have hon : ∀ e ∈ List.map (Ev.key r ∘ KeyEv.requested) (rc.keys.requestKeys ent now), e.onClass r = true := by
      intro e he
      obtain ⟨k, _, rfl⟩ := List.mem_map.mp he
      simp [Ev.onClass]
    obtain ⟨rc', ha, hb, hc, hd, he, _, _, _⟩ := applyAll_of_rc hon hg h1
    have hfun2 : (Ev.key r ∘ KeyEv.requested) = (fun k => Ev.key r (.requested k)) := rfl
    rw [hfun2, applyEvs_requested] at ha
    cases ha
    exact ⟨hb, hc, hd, he⟩

/-- The entitlements that lead to a new class (each needs a new key). -/
def newEntitlements (s : Ca) (p : Handle) (ents : List Entitlement) : List Entitlement :=
  ents.filter fun e => (s.findParentRc p e.rcn).isNone

theorem entitlementLoop_ok (s : Ca) (p : Handle) (now : Int) (hrepo : s.hasRepo = true) :
    ∀ (ents : List Entitlement) (next : Nat) (fresh : List KeyId),
      (newEntitlements s p ents).length ≤ fresh.length →
      ∃ evs, entitlementLoop s p now ents next fresh = .ok evs := by
  intro ents
  induction ents with
  | nil => intro _ _ _; exact ⟨[], rfl⟩
  | cons ent ents ih =>
    intro next fresh hlen
    simp only [entitlementLoop, hrepo, Bool.not_true, Bool.false_eq_true, if_false]
    cases hf : s.findParentRc p ent.rcn with
    | some q =>
      obtain ⟨rcn, rc⟩ := q
      obtain ⟨rest, hrest⟩ := ih next fresh (by
        simpa [newEntitlements, List.filter_cons, hf] using hlen)
      simp only [hrest]; exact ⟨_, rfl⟩
    | none =>
      have hlen' : (newEntitlements s p ents).length + 1 ≤ fresh.length := by
        simpa [newEntitlements, List.filter_cons, hf] using hlen
      cases fresh with
      | nil => simp at hlen'
      | cons k fresh' =>
        obtain ⟨rest, hrest⟩ := ih (next + 1) fresh' (by simp only [List.length_cons] at hlen'; omega)
        simp only [hrest]; exact ⟨_, rfl⟩

/-- The class a new entitlement creates: `ResourceClass::create` with the request already made. -/
def Rc.requested (p : Handle) (n : Rcn) (k : KeyId) : Rc :=
  { parent := p, parentRcn := n, keys := .pending ⟨k, true⟩ }

/-- What the loop of `process_update_entitlements` does to the class map.  `s` is the state the
command was issued in (the loop looks classes up there), `s1` the state its events are applied
to, `next` the loop's class-name counter. -/
theorem entitlementLoop_spec {s : Ca} (hnd : (keys s.classes).Nodup) (p : Handle) (now : Int) :
    ∀ (ents : List Entitlement) (next : Nat) (fresh : List KeyId) (evs : List Ev) (s1 s2 : Ca),
      (ents.map (·.rcn)).Nodup →
      entitlementLoop s p now ents next fresh = .ok evs → s1.applyAll evs = some s2 →
      s1.nextClass = next →
      (∀ ent ∈ ents, ∀ r rc, s.findParentRc p ent.rcn = some (r, rc) → get s1.classes r = some rc ∧ r < next) →
      (∀ r, next ≤ r → get s1.classes r = none) →
      -- classes found: the requests are made
      (∀ ent ∈ ents, ∀ r rc, s.findParentRc p ent.rcn = some (r, rc) →
        get s2.classes r = some { rc with keys := rc.keys.requestedFor ent now }) ∧
      -- classes not found: created under a new name
      (∀ ent ∈ ents, s.findParentRc p ent.rcn = none →
        ∃ r k, next ≤ r ∧ get s2.classes r = some (Rc.requested p ent.rcn k)) ∧
      -- every new name belongs to one of those
      (∀ r rc', next ≤ r → get s2.classes r = some rc' →
        ∃ ent ∈ ents, s.findParentRc p ent.rcn = none ∧ ∃ k ∈ fresh, rc' = Rc.requested p ent.rcn k) ∧
      -- new names are not used twice for one class name
      (∀ r1 r2 rc1 rc2, next ≤ r1 → next ≤ r2 → get s2.classes r1 = some rc1 → get s2.classes r2 = some rc2 →
        rc1.parentRcn = rc2.parentRcn → r1 = r2) ∧
      -- nor is a new key, if the new keys are pairwise different
      (fresh.Nodup → ∀ r1 r2 rc1 rc2, next ≤ r1 → next ≤ r2 → get s2.classes r1 = some rc1 →
        get s2.classes r2 = some rc2 → rc1.keys = rc2.keys → r1 = r2) ∧
      -- everything else is as it was
      (∀ r, r < next → (∀ ent ∈ ents, ∀ rc, s.findParentRc p ent.rcn ≠ some (r, rc)) →
        get s2.classes r = get s1.classes r) ∧
      s2.hasRepo = s1.hasRepo := by
  intro ents
  induction ents with
  | nil =>
    intro next fresh evs s1 s2 _ hl ha _ _ hfree
    simp only [entitlementLoop, Except.ok.injEq] at hl; subst hl
    simp only [Ca.applyAll, Option.some.injEq] at ha; subst ha
    refine ⟨fun _ h => (nomatch h), fun _ h => (nomatch h), ?_, ?_, ?_, fun _ _ _ => rfl, rfl⟩
    · intro r rc' hr hg; rw [hfree r hr] at hg; cases hg
    · intro r1 _ rc1 _ hr1 _ hg1; rw [hfree r1 hr1] at hg1; cases hg1
    · intro _ r1 _ rc1 _ hr1 _ hg1; rw [hfree r1 hr1] at hg1; cases hg1
  | cons ent ents ih =>
    intro next fresh evs s1 s2 hndE hl ha hnext hfound hfree
    have hndE' := List.nodup_cons.mp (by simpa using hndE : (ent.rcn :: ents.map (·.rcn)).Nodup)
    simp only [entitlementLoop] at hl
    cases hf : s.findParentRc p ent.rcn with
    | some q =>
      obtain ⟨rcn, rc⟩ := q
      simp only [hf] at hl
      split at hl
      · cases hl
      · cases hrest : entitlementLoop s p now ents next fresh with
        | error e => simp [hrest] at hl
        | ok rest =>
          simp only [hrest, Except.ok.injEq] at hl; subst hl
          obtain ⟨hg1, hlt⟩ := hfound ent (List.mem_cons_self ..) rcn rc hf
          rw [applyAll_append] at ha
          cases hm : s1.applyAll ((rc.keys.entitlementEvents ent now).map (Ev.key rcn)) with
          | none => rw [hm] at ha; cases ha
          | some sm =>
            rw [hm] at ha; simp only [Option.bind_some] at ha
            obtain ⟨hm1, hm2, hm3, hm4⟩ := applyAll_entEvents hg1 ent now hm
            -- classes found for the later entitlements are other classes
            have hother : ∀ ent' ∈ ents, ∀ r' rc', s.findParentRc p ent'.rcn = some (r', rc') → r' ≠ rcn := by
              intro ent' hent' r' rc' hf' heq
              subst heq
              obtain ⟨h1, _, h3⟩ := findParentRc_some hnd hf'
              obtain ⟨h1', _, h3'⟩ := findParentRc_some hnd hf
              simp only at h1 h3 h1' h3'
              rw [h1] at h1'; cases h1'
              exact hndE'.1 (List.mem_map.mpr ⟨ent', hent', h3.symm.trans h3'⟩)
            obtain ⟨iha, ihb, ihc, ihd, ihd2, ihe, ihf⟩ := ih next fresh rest sm s2 hndE'.2 hrest ha (hm3.trans hnext)
              (by
                intro ent' hent' r' rc' hf'
                obtain ⟨h1, h2⟩ := hfound ent' (List.mem_cons_of_mem _ hent') r' rc' hf'
                exact ⟨by rw [hm2 r' (hother ent' hent' r' rc' hf')]; exact h1, h2⟩)
              (by
                intro r hr
                have hne : r ≠ rcn := by intro h; subst h; exact absurd hlt (Nat.not_lt.mpr hr)
                rw [hm2 r hne]; exact hfree r hr)
            refine ⟨?_, ?_, ?_, ihd, ihd2, ?_, ihf.trans hm4⟩
            · intro ent' hent' r' rc' hf'
              rcases List.mem_cons.mp hent' with rfl | hent'
              · rw [hf] at hf'; cases hf'
                rw [ihe rcn hlt (fun ent'' hent'' rc'' hf'' => hother ent'' hent'' rcn rc'' hf'' rfl)]
                exact hm1
              · exact iha ent' hent' r' rc' hf'
            · intro ent' hent' hf'
              rcases List.mem_cons.mp hent' with rfl | hent'
              · rw [hf] at hf'; cases hf'
              · exact ihb ent' hent' hf'
            · intro r rc' hr hg
              obtain ⟨ent', hent', h1, h2⟩ := ihc r rc' hr hg
              exact ⟨ent', List.mem_cons_of_mem _ hent', h1, h2⟩
            · intro r hr hnf
              rw [ihe r hr (fun ent' hent' => hnf ent' (List.mem_cons_of_mem _ hent'))]
              apply hm2
              intro heq; subst heq
              exact hnf ent (List.mem_cons_self ..) rc hf
    | none =>
      simp only [hf] at hl
      cases fresh with
      | nil => simp at hl
      | cons k fresh' =>
        simp only at hl
        split at hl
        · cases hl
        · cases hrest : entitlementLoop s p now ents (next + 1) fresh' with
          | error e => simp [hrest] at hl
          | ok rest =>
            simp only [hrest, Except.ok.injEq] at hl; subst hl
            simp only [List.cons_append, Ca.applyAll, Ca.apply, Option.bind_some] at ha
            rw [applyAll_append] at ha
            -- the state after `ResourceClassAdded`
            have hg0 : get (set s1.classes next (Rc.create p ent.rcn k)) next = some (Rc.create p ent.rcn k) :=
              get_set_self _ _ _
            obtain ⟨sm, hm, ha⟩ := Option.bind_eq_some_iff.mp ha
            · obtain ⟨hm1, hm2, hm3, hm4⟩ := applyAll_entEvents (rc := Rc.create p ent.rcn k) hg0 ent now hm
              have hreq : ({ Rc.create p ent.rcn k with
                  keys := (Rc.create p ent.rcn k).keys.requestedFor ent now } : Rc) = Rc.requested p ent.rcn k := by
                simp [Rc.create, Rc.requested, KeyState.requestedFor, KeyState.requestKeys, KeyState.applyRequested]
              rw [hreq] at hm1
              have hfl : ∀ ent' ∈ ents, ∀ r' rc', s.findParentRc p ent'.rcn = some (r', rc') →
                  get s1.classes r' = some rc' ∧ r' < next :=
                fun ent' hent' => hfound ent' (List.mem_cons_of_mem _ hent')
              obtain ⟨iha, ihb, ihc, ihd, ihd2, ihe, ihf⟩ := ih (next + 1) fresh' rest sm s2 hndE'.2 hrest ha
                (by rw [hm3]; show s1.nextClass + 1 = next + 1; rw [hnext])
                (by
                  intro ent' hent' r' rc' hf'
                  obtain ⟨h1, h2⟩ := hfl ent' hent' r' rc' hf'
                  refine ⟨?_, by omegan⟩
                  rw [hm2 r' (by omegan)]
                  simp only
                  rw [get_set_ne _ _ (by omegan)]; exact h1)
                (by
                  intro r hr
                  rw [hm2 r (by omegan)]
                  simp only
                  rw [get_set_ne _ _ (by omegan)]; exact hfree r (by omegan))
              -- the new class survives the rest of the loop
              have hnew : get s2.classes next = some (Rc.requested p ent.rcn k) := by
                rw [ihe next (by omegan) (fun ent' hent' rc' hf' => by
                  exact absurd (hfl ent' hent' next rc' hf').2 (Nat.lt_irrefl _))]
                exact hm1
              refine ⟨?_, ?_, ?_, ?_, ?_, ?_, ihf.trans hm4⟩
              · intro ent' hent' r' rc' hf'
                rcases List.mem_cons.mp hent' with rfl | hent'
                · rw [hf] at hf'; cases hf'
                · exact iha ent' hent' r' rc' hf'
              · intro ent' hent' hf'
                rcases List.mem_cons.mp hent' with rfl | hent'
                · exact ⟨next, k, Nat.le_refl _, hnew⟩
                · obtain ⟨r, k', hr, hg⟩ := ihb ent' hent' hf'
                  exact ⟨r, k', by omegan, hg⟩
              · intro r rc' hr hg
                by_cases hrn : r = next
                · subst hrn
                  rw [hnew] at hg; cases hg
                  exact ⟨ent, List.mem_cons_self .., hf, k, List.mem_cons_self .., rfl⟩
                · obtain ⟨ent', hent', h1, k', hk', h2⟩ := ihc r rc' (by omegan) hg
                  exact ⟨ent', List.mem_cons_of_mem _ hent', h1, k', List.mem_cons_of_mem _ hk', h2⟩
              · intro r1 r2 rc1 rc2 hr1 hr2 hg1 hg2 hname
                by_cases h1n : r1 = next
                · by_cases h2n : r2 = next
                  · rw [h1n, h2n]
                  · exfalso
                    subst h1n
                    rw [hnew] at hg1; cases hg1
                    obtain ⟨ent', hent', _, k', _, h2⟩ := ihc r2 rc2 (by omegan) hg2
                    subst h2
                    simp only [Rc.requested] at hname
                    exact hndE'.1 (List.mem_map.mpr ⟨ent', hent', hname.symm⟩)
                · by_cases h2n : r2 = next
                  · exfalso
                    subst h2n
                    rw [hnew] at hg2; cases hg2
                    obtain ⟨ent', hent', _, k', _, h2⟩ := ihc r1 rc1 (by omegan) hg1
                    subst h2
                    simp only [Rc.requested] at hname
                    exact hndE'.1 (List.mem_map.mpr ⟨ent', hent', hname⟩)
                  · exact ihd r1 r2 rc1 rc2 (by omegan) (by omegan) hg1 hg2 hname
              · intro hndF r1 r2 rc1 rc2 hr1 hr2 hg1 hg2 hkeys
                have hndF' := List.nodup_cons.mp hndF
                by_cases h1n : r1 = next
                · by_cases h2n : r2 = next
                  · rw [h1n, h2n]
                  · exfalso
                    subst h1n
                    rw [hnew] at hg1; cases hg1
                    obtain ⟨ent', _, _, k', hk', h2⟩ := ihc r2 rc2 (by omegan) hg2
                    subst h2
                    simp only [Rc.requested, KeyState.pending.injEq, PendKey.mk.injEq, and_true] at hkeys
                    exact hndF'.1 (hkeys ▸ hk')
                · by_cases h2n : r2 = next
                  · exfalso
                    subst h2n
                    rw [hnew] at hg2; cases hg2
                    obtain ⟨ent', _, _, k', hk', h2⟩ := ihc r1 rc1 (by omegan) hg1
                    subst h2
                    simp only [Rc.requested, KeyState.pending.injEq, PendKey.mk.injEq, and_true] at hkeys
                    exact hndF'.1 (hkeys ▸ hk')
                  · exact ihd2 hndF'.2 r1 r2 rc1 rc2 (by omegan) (by omegan) hg1 hg2 hkeys
              · intro r hr hnf
                rw [ihe r (by omegan) (fun ent' hent' => hnf ent' (List.mem_cons_of_mem _ hent'))]
                rw [hm2 r (by omegan)]
                simp only
                exact get_set_ne _ _ (by omegan)

/-- Where a class of the state after `UpdateEntitlements` comes from. -/
inductive EntOrigin (s : Ca) (p : Handle) (ents : List Entitlement) (now : Int) (fresh : List KeyId)
    (r : Rcn) (rc' : Rc) : Prop where
  /-- a class under another parent, untouched -/
  | other (rc : Rc) (hg : get s.classes r = some rc) (hp : rc.parent ≠ p) (heq : rc' = rc)
  /-- a class under the parent that is still listed: the requests are made -/
  | listed (rc : Rc) (ent : Entitlement) (hg : get s.classes r = some rc) (hp : rc.parent = p)
      (hent : ent ∈ ents) (hn : rc.parentRcn = ent.rcn)
      (heq : rc' = { rc with keys := rc.keys.requestedFor ent now })
  /-- a class created for a new entitlement -/
  | created (ent : Entitlement) (k : KeyId) (hent : ent ∈ ents) (hf : s.findParentRc p ent.rcn = none)
      (hr : s.nextClass ≤ r) (hk : k ∈ fresh) (heq : rc' = Rc.requested p ent.rcn k)

/-- `UpdateEntitlements` in a reachable CA with a repository, pairwise different class names
under the parent and in the list, and enough new keys: the command is stored; the classes under
the parent afterwards are exactly the listed ones – the old ones with their requests made, the
new ones created with their request – and everything else is untouched. -/
theorem updEnt_spec {s : Sys} (hr : Reachable s) (hrepo : s.ca.hasRepo = true) (hnl : NoLimits s.ca)
    (p : Handle) (hu : UniqueNames s.ca p) (ents : List Entitlement) (hndE : (ents.map (·.rcn)).Nodup)
    (now : Int) (fresh : List KeyId) (hlen : (newEntitlements s.ca p ents).length ≤ fresh.length) :
    ∃ s', s.next (.updateEntitlements p ents now fresh) = s' ∧
      Reachable s' ∧ s'.ca.hasRepo = true ∧ NoLimits s'.ca ∧ UniqueNames s'.ca p ∧
      (∀ r rc', get s'.ca.classes r = some rc' → EntOrigin s.ca p ents now fresh r rc') ∧
      (∀ ent ∈ ents, ∃ r rc', get s'.ca.classes r = some rc' ∧ rc'.parent = p ∧ rc'.parentRcn = ent.rcn) ∧
      (fresh.Nodup → ∀ r1 r2 rc1 rc2, s.ca.nextClass ≤ r1 → s.ca.nextClass ≤ r2 → get s'.ca.classes r1 = some rc1 →
        get s'.ca.classes r2 = some rc2 → rc1.keys = rc2.keys → r1 = r2) := by
  have hinv := reachable_inv hr
  have hnd := hinv.core.nodup
  have hfr := hinv.core.fresh
  obtain ⟨evs, hloop⟩ := entitlementLoop_ok s.ca p now hrepo ents s.ca.nextClass fresh hlen
  have hp : s.ca.process (.updateEntitlements p ents now fresh) =
      .ok (((s.ca.classes.filter fun q => q.2.parent = p ∧ !(ents.map (·.rcn)).contains q.2.parentRcn).map
        fun q => Ev.rcRemoved q.1) ++ evs) := by
    simp only [Ca.process, hloop]
  obtain ⟨s', hex, happ, hr'⟩ := stored_of_process hr (c := _) (by exact trivial) hp
  have hn : s.next (.updateEntitlements p ents now fresh) = s' := by unfold Sys.next; rw [hex]
  refine ⟨s', hn, hr', ?_⟩
  -- the removed classes
  have hmap : ∀ (l : List (Rcn × Rc)), l.map (fun q => Ev.rcRemoved q.1) = (l.map (·.1)).map Ev.rcRemoved := by
    intro l; simp [List.map_map]
  rw [hmap, applyAll_append, applyAll_rcRemoved] at happ
  simp only [Option.bind_some] at happ
  -- membership in the removed names
  have hrem : ∀ r, r ∈ (s.ca.classes.filter fun q => q.2.parent = p ∧
        !(ents.map (·.rcn)).contains q.2.parentRcn).map (·.1) ↔
      ∃ rc, get s.ca.classes r = some rc ∧ rc.parent = p ∧ rc.parentRcn ∉ ents.map (·.rcn) := by
    intro r
    constructor
    · intro h
      obtain ⟨q, hq, rfl⟩ := List.mem_map.mp h
      obtain ⟨hq1, hq2⟩ := List.mem_filter.mp hq
      simp only [Bool.decide_and, Bool.and_eq_true, decide_eq_true_eq, Bool.not_eq_true'] at hq2
      refine ⟨q.2, get_of_mem_nodup hnd hq1, hq2.1, ?_⟩
      intro hc
      have := List.contains_iff_mem.mpr hc
      rw [hq2.2] at this; cases this
    · rintro ⟨rc, hg, hp1, hp2⟩
      refine List.mem_map.mpr ⟨(r, rc), List.mem_filter.mpr ⟨mem_of_get hg, ?_⟩, rfl⟩
      simp only [Bool.decide_and, Bool.and_eq_true, decide_eq_true_eq, Bool.not_eq_true']
      refine ⟨hp1, ?_⟩
      cases hc : (ents.map (·.rcn)).contains rc.parentRcn with
      | false => rfl
      | true => exact absurd (List.contains_iff_mem.mp hc) hp2
  obtain ⟨ha, hb, hc, hd, hd2, he, hf⟩ := entitlementLoop_spec hnd p now ents s.ca.nextClass fresh evs _ s'.ca hndE hloop happ rfl
    (by
      intro ent hent r rc hfnd
      obtain ⟨h1, h2, h3⟩ := findParentRc_some hnd hfnd
      simp only at h1 h2 h3
      refine ⟨?_, hfr r (by rw [h1]; rfl)⟩
      simp only [get_foldl_del]
      split
      · rename_i hin
        obtain ⟨rc0, hg0, _, hnot⟩ := (hrem r).mp hin
        rw [h1] at hg0; cases hg0
        exact absurd (List.mem_map.mpr ⟨ent, hent, h3.symm⟩) hnot
      · exact h1)
    (by
      intro r hr0
      simp only [get_foldl_del]
      split
      · rfl
      · cases hg : get s.ca.classes r with
        | none => rfl
        | some rc =>
          have := hfr r (by rw [hg]; rfl)
          exact absurd this (Nat.not_lt.mpr hr0))
  -- where a class of the new state comes from
  have horigin : ∀ r rc', get s'.ca.classes r = some rc' → EntOrigin s.ca p ents now fresh r rc' := by
    intro r rc' hg'
    by_cases hlt : r < s.ca.nextClass
    · by_cases hex : ∃ ent ∈ ents, ∃ rc, s.ca.findParentRc p ent.rcn = some (r, rc)
      · obtain ⟨ent, hent, rc, hfnd⟩ := hex
        obtain ⟨h1, h2, h3⟩ := findParentRc_some hnd hfnd
        simp only at h1 h2 h3
        rw [ha ent hent r rc hfnd] at hg'
        exact .listed rc ent h1 h2 hent h3 (Option.some.inj hg').symm
      · have hnf : ∀ ent ∈ ents, ∀ rc, s.ca.findParentRc p ent.rcn ≠ some (r, rc) :=
          fun ent hent rc hfnd => hex ⟨ent, hent, rc, hfnd⟩
        rw [he r hlt hnf] at hg'
        simp only [get_foldl_del] at hg'
        split at hg'
        · cases hg'
        · rename_i hnin
          by_cases hpar : rc'.parent = p
          · exfalso
            by_cases hmem : rc'.parentRcn ∈ ents.map (·.rcn)
            · obtain ⟨ent, hent, hname⟩ := List.mem_map.mp hmem
              have := findParentRc_of_get hnd hu hg' hpar
              rw [← hname] at this
              exact hnf ent hent rc' this
            · exact hnin ((hrem r).mpr ⟨rc', hg', hpar, hmem⟩)
          · exact .other rc' hg' hpar rfl
    · have hge : s.ca.nextClass ≤ r := Nat.le_of_not_lt hlt
      obtain ⟨ent, hent, hfn, k, hk, heq⟩ := hc r rc' hge hg'
      exact .created ent k hent hfn hge hk heq
  refine ⟨by rw [hf]; exact hrepo, ?_, ?_, horigin, ?_, hd2⟩
  · -- no limits
    intro r rc' hg'
    rcases horigin r rc' hg' with ⟨rc, hg, _, heq⟩ | ⟨rc, ent, hg, _, _, _, heq⟩ | ⟨ent, k, _, _, _, _, heq⟩
    · rw [heq]; exact hnl r rc hg
    · rw [heq]; exact hnl r rc hg
    · rw [heq]; intro e he; simp [Rc.requested] at he
  · -- class names stay pairwise different
    intro r1 r2 rc1 rc2 hg1 hg2 hp1 hp2 hname
    rcases horigin r1 rc1 hg1 with ⟨rc, hg, hpp, heq⟩ | ⟨rc, ent, hg, hpp, hent, hn1, heq⟩ | ⟨ent, k, hent, hfn, hge, _, heq⟩
    · subst heq; exact absurd hp1 hpp
    · rcases horigin r2 rc2 hg2 with ⟨rc0, hg0, hpp0, heq0⟩ | ⟨rc0, ent0, hg0, hpp0, hent0, hn0, heq0⟩ |
          ⟨ent0, k0, hent0, hfn0, hge0, _, heq0⟩
      · subst heq0; exact absurd hp2 hpp0
      · subst heq heq0
        exact hu r1 r2 rc rc0 hg hg0 hpp hpp0 hname
      · subst heq heq0
        simp only [Rc.requested] at hname
        exact absurd hname (findParentRc_none hfn0 hg hpp)
    · rcases horigin r2 rc2 hg2 with ⟨rc0, hg0, hpp0, heq0⟩ | ⟨rc0, ent0, hg0, hpp0, hent0, hn0, heq0⟩ |
          ⟨ent0, k0, hent0, hfn0, hge0, _, heq0⟩
      · subst heq0; exact absurd hp2 hpp0
      · subst heq heq0
        simp only [Rc.requested] at hname
        exact absurd hname.symm (findParentRc_none hfn hg0 hpp0)
      · exact hd r1 r2 rc1 rc2 hge hge0 hg1 hg2 hname
  · intro ent hent
    cases hfnd : s.ca.findParentRc p ent.rcn with
    | some q =>
      obtain ⟨r, rc⟩ := q
      obtain ⟨h1, h2, h3⟩ := findParentRc_some hnd hfnd
      exact ⟨r, _, ha ent hent r rc hfnd, h2, h3⟩
    | none =>
      obtain ⟨r, k, _, hg⟩ := hb ent hent hfnd
      exact ⟨r, _, hg, rfl, rfl⟩

end KM.CaK
