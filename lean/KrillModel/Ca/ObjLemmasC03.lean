/- Helper lemmas for C03 about `Ca/Objects.lean`: a generic preservation principle for
predicates on key object sets along CA histories, and the superseded-objects invariant. -/
import KrillModel.Ca.ObjLemmas
import KrillModel.Ca.PubBaseLemmas
namespace KM.Ca.Pub

/-! ### Events the 0.16 code produces -/

/-- `ChildCertificateUpdates.unsuspended` is only filled by pre-0.16 histories. -/
def ObjEvent.ok : ObjEvent → Prop
  | .certsUpdated _ c => c.unsuspended = []
  | _ => True

def CaOp.ok : CaOp → Prop
  | .command evs _ _ => ∀ e ∈ evs, e.ok
  | .republish .. => True

def SetOp.ok : SetOp → Prop
  | .updateCerts c => c.unsuspended = []
  | _ => True

/-! ### A predicate closed under the set operations holds along every CA history -/

structure Closed (t : Timing) (I : KeyObjectSet → Prop) : Prop where
  update : ∀ s u, I s → I (s.update u)
  certs : ∀ s c, c.unsuspended = [] → I s → I (s.updateCerts c)
  reissue : ∀ s i, I s → I (s.reissue t i)
  retire : ∀ s now, I s → I (s.retire now)
  create : ∀ k : NewKey, I (k.create t)

theorem mapCurrent_sets (f : KeyObjectSet → KeyObjectSet) (c : ClassObjects) :
    ∀ s' ∈ (c.mapCurrent f).sets, s' ∈ c.sets ∨ s' = f c.cur := by
  intro s' hs'
  cases c <;> simp [ClassObjects.mapCurrent, ClassObjects.sets, ClassObjects.cur] at hs' ⊢
  · exact Or.inr hs'
  · rcases hs' with h | h
    · exact Or.inl (Or.inl h)
    · exact Or.inr h
  · rcases hs' with h | h
    · exact Or.inl (Or.inl h)
    · exact Or.inr h

theorem cur_mem_sets (c : ClassObjects) : c.cur ∈ c.sets := by
  cases c <;> simp [ClassObjects.cur, ClassObjects.sets]

theorem applyEvent_preserves (t : Timing) (I : KeyObjectSet → Prop) (hI : Closed t I)
    (o o' : CaObjects) (e : ObjEvent) (f : Bool) (he : e.ok)
    (h : applyEvent t o e = some (o', f)) (ho : ∀ s ∈ allSets o, I s) : ∀ s ∈ allSets o', I s := by
  -- updates of the current set of one class
  have upd : ∀ (rcn : Nat) (g : KeyObjectSet → KeyObjectSet) (o1 : CaObjects),
      (∀ s, I s → I (g s)) →
      modifyClass o rcn (fun c => some (c.mapCurrent g)) = some o1 → ∀ s ∈ allSets o1, I s := by
    intro rcn g o1 hg hm s hs
    obtain ⟨c, c', hc, hf, hall⟩ := allSets_modify hm
    simp at hf; subst hf
    rcases hall s hs with h1 | h1
    · exact ho s h1
    · rcases mapCurrent_sets g c s h1 with h2 | h2
      · exact ho s (mem_allSets.mpr ⟨_, hc, h2⟩)
      · subst h2; exact hg _ (ho _ (mem_allSets.mpr ⟨_, hc, cur_mem_sets c⟩))
  cases e with
  | roasUpdated rcn u =>
    simp only [applyEvent, Option.map] at h
    split at h
    · rename_i o1 hm; simp at h; obtain ⟨rfl, _⟩ := h
      exact upd rcn _ _ (fun s hs => hI.update s u hs) hm
    · simp at h
  | aspasUpdated rcn u =>
    simp only [applyEvent, Option.map] at h
    split at h
    · rename_i o1 hm; simp at h; obtain ⟨rfl, _⟩ := h
      exact upd rcn _ _ (fun s hs => hI.update s u hs) hm
    · simp at h
  | bgpsecUpdated rcn u =>
    simp only [applyEvent, Option.map] at h
    split at h
    · rename_i o1 hm; simp at h; obtain ⟨rfl, _⟩ := h
      exact upd rcn _ _ (fun s hs => hI.update s u hs) hm
    · simp at h
  | certsUpdated rcn c =>
    simp only [applyEvent, Option.map] at h
    split at h
    · rename_i o1 hm; simp at h; obtain ⟨rfl, _⟩ := h
      exact upd rcn _ _ (fun s hs => hI.certs s c he hs) hm
    · simp at h
  | keyRollActivated rcn now =>
    simp only [applyEvent, Option.map] at h
    split at h
    · rename_i o1 hm; simp at h; obtain ⟨rfl, _⟩ := h
      obtain ⟨c, c', hc, hf, hall⟩ := allSets_modify hm
      intro s hs
      rcases hall s hs with h1 | h1
      · exact ho s h1
      · cases c with
        | staging sg cu =>
          simp [ClassObjects.keyrollActivate] at hf; subst hf
          simp [ClassObjects.sets] at h1
          rcases h1 with rfl | rfl
          · exact hI.retire _ _ (ho _ (mem_allSets.mpr ⟨_, hc, by simp [ClassObjects.sets]⟩))
          · exact ho _ (mem_allSets.mpr ⟨_, hc, by simp [ClassObjects.sets]⟩)
        | current _ => simp [ClassObjects.keyrollActivate] at hf
        | old _ _ => simp [ClassObjects.keyrollActivate] at hf
    · simp at h
  | resourceClassRemoved rcn =>
    simp [applyEvent] at h
    obtain ⟨rfl, _⟩ := h
    intro s hs
    rw [mem_allSets] at hs
    obtain ⟨e, he', hse⟩ := hs
    simp only [erase, List.mem_filter] at he'
    exact ho s (mem_allSets.mpr ⟨e, he'.1, hse⟩)
  | repoUpdated => simp [applyEvent] at h; obtain ⟨rfl, _⟩ := h; exact ho
  | other => simp [applyEvent] at h; obtain ⟨rfl, _⟩ := h; exact ho
  | certificateReceived rcn => simp [applyEvent] at h; obtain ⟨_, rfl, _⟩ := h; exact ho
  | keyPendingToActive rcn key =>
    have hf : f = false := by
      simp [applyEvent] at h; exact h.2.2
    subst hf
    intro s hs
    rcases applyEvent_false_stable t o o' _ h s hs with h1 | ⟨k, rfl⟩
    · exact ho s h1
    · exact hI.create k
  | keyPendingToNew rcn key =>
    have hf : f = false := by
      simp only [applyEvent, Option.map] at h
      split at h <;> simp at h
      exact h.2
    subst hf
    intro s hs
    rcases applyEvent_false_stable t o o' _ h s hs with h1 | ⟨k, rfl⟩
    · exact ho s h1
    · exact hI.create k
  | keyRollFinished rcn =>
    have hf : f = false := by
      simp only [applyEvent, Option.map] at h
      split at h <;> simp at h
      exact h.2
    subst hf
    intro s hs
    rcases applyEvent_false_stable t o o' _ h s hs with h1 | ⟨k, rfl⟩
    · exact ho s h1
    · exact hI.create k

theorem applyEvents_preserves (t : Timing) (I : KeyObjectSet → Prop) (hI : Closed t I)
    (evs : List ObjEvent) (o o' : CaObjects) (f : Bool) (he : ∀ e ∈ evs, e.ok)
    (h : applyEvents t o evs = some (o', f)) (ho : ∀ s ∈ allSets o, I s) : ∀ s ∈ allSets o', I s := by
  induction evs generalizing o f with
  | nil => simp [applyEvents] at h; obtain ⟨rfl, _⟩ := h; exact ho
  | cons e es ih =>
    simp only [applyEvents] at h
    cases he1 : applyEvent t o e with
    | none => simp [he1] at h
    | some r =>
      obtain ⟨o1, f1⟩ := r
      simp only [he1] at h
      cases hes : applyEvents t o1 es with
      | none => simp [hes] at h
      | some r2 =>
        obtain ⟨o2, f2⟩ := r2
        simp [hes] at h
        obtain ⟨rfl, _⟩ := h
        exact ih o1 f2 (fun e' he' => he e' (List.mem_cons_of_mem _ he')) hes
          (applyEvent_preserves t I hI o o1 e f1 (he e (List.mem_cons_self ..)) he1 ho)

theorem reIssue_preserves (t : Timing) (I : KeyObjectSet → Prop) (hI : Closed t I)
    (o : CaObjects) (force : Bool) (now : Nat) (ins : IssueInputs) (ho : ∀ s ∈ allSets o, I s) :
    ∀ s ∈ allSets (reIssue o force now t ins).1, I s := by
  intro s hs
  rw [mem_allSets] at hs
  obtain ⟨e', he', hse'⟩ := hs
  simp only [reIssue, List.mem_map] at he'
  obtain ⟨e, he, hee⟩ := he'
  by_cases hc : (force || e.2.requiresReissuance now t.hoursBefore) = true
  · simp [hc] at hee
    subst hee
    obtain ⟨s₀, hs₀, i, hi, _⟩ := class_reissue_sets t _ _ e.2 s hse'
    rw [hi]; exact hI.reissue _ _ (ho _ (mem_allSets.mpr ⟨e, he, hs₀⟩))
  · simp [hc] at hee
    subst hee
    exact ho s (mem_allSets.mpr ⟨e, he, hse'⟩)

theorem caStep_preserves (t : Timing) (I : KeyObjectSet → Prop) (hI : Closed t I) (o : CaObjects) (op : CaOp)
    (hop : op.ok) (ho : ∀ s ∈ allSets o, I s) : ∀ s ∈ allSets (caStep t o op), I s := by
  cases op with
  | republish force now ins => exact reIssue_preserves t I hI o force now ins ho
  | command evs now ins =>
    simp only [caStep, preSave]
    cases hev : applyEvents t o evs with
    | none => simpa using ho
    | some r =>
      obtain ⟨o1, f⟩ := r
      simp only [Option.map, Option.getD]
      exact reIssue_preserves t I hI o1 f now ins (applyEvents_preserves t I hI evs o o1 f hop hev ho)

theorem caRun_preserves (t : Timing) (I : KeyObjectSet → Prop) (hI : Closed t I) (ops : List CaOp) (o : CaObjects)
    (hop : ∀ op ∈ ops, op.ok) (ho : ∀ s ∈ allSets o, I s) : ∀ s ∈ allSets (caRun t o ops), I s := by
  induction ops generalizing o with
  | nil => exact ho
  | cons op ops ih =>
    exact ih (caStep t o op) (fun op' h' => hop op' (List.mem_cons_of_mem _ h'))
      (caStep_preserves t I hI o op (hop op (List.mem_cons_self ..)) ho)

/-! ### Whatever was published and is not any more is revoked (or had expired) -/

/-- Every `(serial, notAfter)` ever published is currently published, or on the revocation list,
or had expired when expired revocations were dropped. -/
def Superseded (s : KeyObjectSet) : Prop :=
  ∀ x ∈ s.ever, (∃ e ∈ s.published, (e.2.serial, e.2.expires) = x) ∨
    (⟨x.1, x.2⟩ : Revocation) ∈ s.revocations ∨ x.2 ≤ s.maxNow

/-- The invariant: the published objects form a map and nothing superseded is forgotten. -/
def RevInv (s : KeyObjectSet) : Prop := (keys s.published).Nodup ∧ Superseded s

theorem keys_put_nodup {m : List (Nat × PubObj)} (h : (keys m).Nodup) (n : Nat) (o : PubObj) :
    (keys (put m n o)).Nodup := by
  simp only [put, keys_append, erase]
  rw [List.nodup_append]
  refine ⟨?_, by simp [keys], ?_⟩
  · rw [keys_filter m (fun k => decide (k ≠ n))]; exact nodup_filter h _
  · intro a ha b hb hab
    simp [keys] at hb
    subst hab; subst hb
    rw [keys_filter m (fun k => decide (k ≠ a)), List.mem_filter] at ha
    simp at ha

theorem keys_erase_nodup {m : List (Nat × PubObj)} (h : (keys m).Nodup) (n : Nat) : (keys (erase m n)).Nodup := by
  simp only [erase]
  rw [keys_filter m (fun k => decide (k ≠ n))]; exact nodup_filter h _

theorem revInv_insert (s : KeyObjectSet) (n : Nat) (o : PubObj) (h : RevInv s) : RevInv (s.insert n o) := by
  obtain ⟨hk, hs⟩ := h
  refine ⟨keys_put_nodup hk n o, ?_⟩
  intro x hx
  simp only [KeyObjectSet.insert, List.mem_append, List.mem_singleton] at hx
  rcases hx with hx | rfl
  · rcases hs x hx with ⟨e, he, hex⟩ | h2 | h3
    · by_cases hn : e.1 = n
      · -- the replaced entry: now revoked
        right; left
        have hg : get? s.published n = some e.2 := get?_of_mem hk (by cases e; simp_all)
        simp only [KeyObjectSet.insert, hg, List.mem_append, List.mem_singleton, PubObj.revoke]
        right
        rw [← hex]
      · left
        refine ⟨e, ?_, hex⟩
        simp only [KeyObjectSet.insert, put, erase, List.mem_append, List.mem_filter]
        exact Or.inl ⟨he, by simpa using hn⟩
    · right; left
      simp only [KeyObjectSet.insert]
      cases get? s.published n <;> simp [h2]
    · right; right; exact h3
  · left
    exact ⟨(n, o), by simp [KeyObjectSet.insert, put], rfl⟩

theorem revInv_remove (s : KeyObjectSet) (n : Nat) (h : RevInv s) : RevInv (s.remove n) := by
  obtain ⟨hk, hs⟩ := h
  unfold KeyObjectSet.remove
  cases hg : get? s.published n with
  | none => exact ⟨hk, hs⟩
  | some old =>
    refine ⟨keys_erase_nodup hk n, ?_⟩
    intro x hx
    rcases hs x hx with ⟨e, he, hex⟩ | h2 | h3
    · by_cases hn : e.1 = n
      · right; left
        have : e.2 = old := by
          have := get?_of_mem hk (k := n) (v := e.2) (by cases e; simp_all)
          rw [hg] at this; exact (Option.some.inj this).symm
        simp only [List.mem_append, List.mem_singleton, PubObj.revoke]
        right; rw [← hex, this]
      · left
        exact ⟨e, by simp only [erase, List.mem_filter]; exact ⟨he, by simpa using hn⟩, hex⟩
    · right; left; simp [h2]
    · right; right; exact h3

theorem revInv_foldl {α} (f : KeyObjectSet → α → KeyObjectSet) (hf : ∀ s a, RevInv s → RevInv (f s a))
    (l : List α) (s : KeyObjectSet) (h : RevInv s) : RevInv (l.foldl f s) := by
  induction l generalizing s with
  | nil => exact h
  | cons a l ih => exact ih (f s a) (hf s a h)

theorem revInv_update (s : KeyObjectSet) (u : ObjUpdates) (h : RevInv s) : RevInv (s.update u) := by
  unfold KeyObjectSet.update
  exact revInv_foldl _ (fun s n => revInv_remove s n) _ _
    (revInv_foldl _ (fun s (e : Nat × PubObj) => revInv_insert s e.1 e.2) _ _ h)

theorem revInv_updateCerts (s : KeyObjectSet) (c : CertUpdates) (hc : c.unsuspended = []) (h : RevInv s) :
    RevInv (s.updateCerts c) := by
  unfold KeyObjectSet.updateCerts
  rw [hc]
  simp only [List.foldl_nil]
  exact revInv_foldl _ (fun s n => revInv_remove s n) _ _
    (revInv_foldl _ (fun s (e : Nat × PubObj) => revInv_insert s e.1 e.2) _ _
      (revInv_foldl _ (fun s n => revInv_remove s n) _ _ h))

theorem mem_removeExpired {now : Nat} {revs : List Revocation} {r : Revocation} (h : r ∈ revs) :
    r ∈ removeExpired now revs ∨ r.expires ≤ now := by
  by_cases he : r.expires > now
  · exact Or.inl (List.mem_filter.mpr ⟨h, by simpa using he⟩)
  · exact Or.inr (by omega)

theorem revInv_reissue (s : KeyObjectSet) (t : Timing) (i : IssueIn) (h : RevInv s) : RevInv (s.reissue t i) := by
  obtain ⟨hk, hs⟩ := h
  refine ⟨hk, ?_⟩
  intro x hx
  rcases hs x hx with h1 | h2 | h3
  · exact Or.inl h1
  · rcases mem_removeExpired (now := i.now) h2 with h4 | h4
    · exact Or.inr (Or.inl h4)
    · right; right
      simp only [KeyObjectSet.reissue]
      exact Nat.le_trans h4 (Nat.le_max_right ..)
  · right; right
    simp only [KeyObjectSet.reissue]
    exact Nat.le_trans h3 (Nat.le_max_left ..)

theorem revInv_retire (s : KeyObjectSet) (now : Nat) (h : RevInv s) : RevInv (s.retire now) := by
  obtain ⟨_, hs⟩ := h
  refine ⟨by simp [KeyObjectSet.retire, keys], ?_⟩
  intro x hx
  have key : ∀ r : Revocation, r ∈ s.revocations ++ s.published.map (·.2.revoke) →
      r ∈ (s.retire now).revocations ∨ r.expires ≤ (s.retire now).maxNow := by
    intro r hr
    rcases mem_removeExpired (now := now) hr with h4 | h4
    · exact Or.inl h4
    · exact Or.inr (Nat.le_trans h4 (Nat.le_max_right ..))
  rcases hs x hx with ⟨e, he, hex⟩ | h2 | h3
  · have := key e.2.revoke (List.mem_append.mpr (Or.inr (List.mem_map.mpr ⟨e, he, rfl⟩)))
    simp only [PubObj.revoke] at this
    rw [← hex]
    rcases this with h | h
    · exact Or.inr (Or.inl h)
    · exact Or.inr (Or.inr h)
  · rcases key _ (List.mem_append.mpr (Or.inl h2)) with h | h
    · exact Or.inr (Or.inl h)
    · exact Or.inr (Or.inr h)
  · right; right
    simp only [KeyObjectSet.retire]
    exact Nat.le_trans h3 (Nat.le_max_left ..)

theorem revInv_create (k : NewKey) (t : Timing) : RevInv (k.create t) := by
  refine ⟨by simp [NewKey.create, KeyObjectSet.create, keys], ?_⟩
  intro x hx
  simp [NewKey.create, KeyObjectSet.create] at hx

theorem revInv_closed (t : Timing) : Closed t RevInv :=
  { update := fun s u h => revInv_update s u h
    certs := fun s c hc h => revInv_updateCerts s c hc h
    reissue := fun s i h => revInv_reissue s t i h
    retire := fun s now h => revInv_retire s now h
    create := fun k => revInv_create k t }

theorem revInv_step (t : Timing) (s : KeyObjectSet) (op : SetOp) (hop : op.ok) (h : RevInv s) :
    RevInv (s.step t op) := by
  cases op with
  | update u => exact revInv_update s u h
  | updateCerts c => exact revInv_updateCerts s c hop h
  | reissue i => exact revInv_reissue s t i h
  | retire now => exact revInv_retire s now h

theorem revInv_run (t : Timing) (ops : List SetOp) (s : KeyObjectSet) (hop : ∀ op ∈ ops, op.ok) (h : RevInv s) :
    RevInv (s.run t ops) := by
  induction ops generalizing s with
  | nil => exact h
  | cons op ops ih =>
    exact ih (s.step t op) (fun op' h' => hop op' (List.mem_cons_of_mem _ h'))
      (revInv_step t s op (hop op (List.mem_cons_self ..)) h)

end KM.Ca.Pub
