/-
Helper lemmas for C04 / C02: what the class loops emit and leave behind (second initiate,
quiescent entitlement updates).  No property statements.
-/
import KrillModel.Ca.LemmasNoOver
namespace KM.CaK
open KM.Res KM.AMap

theorem mem_forClasses {f : Rcn → Rc → Except Err (List Ev)} {l : List (Rcn × Rc)} {evs : List Ev}
    (h : forClasses f l = .ok evs) {e : Ev} (he : e ∈ evs) :
    ∃ p ∈ l, ∃ a, f p.1 p.2 = .ok a ∧ e ∈ a := by
  induction l generalizing evs with
  | nil => simp only [forClasses, Except.ok.injEq] at h; subst h; cases he
  | cons p ps ih =>
    simp only [forClasses] at h
    cases hfp : f p.1 p.2 with
    | error e => simp [hfp] at h
    | ok a =>
      simp only [hfp] at h
      cases hrest : forClasses f ps with
      | error e => simp [hrest] at h
      | ok b =>
        simp only [hrest, Except.ok.injEq] at h; subst h
        rcases List.mem_append.mp he with he | he
        · exact ⟨p, List.mem_cons_self .., a, hfp, he⟩
        · obtain ⟨q, hq, a', ha', he'⟩ := ih hrest he
          exact ⟨q, List.mem_cons_of_mem _ hq, a', ha', he'⟩

/-- A loop whose chunks are all empty emits nothing. -/
theorem forClasses_nil {f : Rcn → Rc → Except Err (List Ev)} {l : List (Rcn × Rc)} {evs : List Ev}
    (h : forClasses f l = .ok evs) (hf : ∀ p ∈ l, ∀ a, f p.1 p.2 = .ok a → a = []) : evs = [] := by
  cases evs with
  | nil => rfl
  | cons e es =>
    obtain ⟨p, hp, a, ha, he⟩ := mem_forClasses h (List.mem_cons_self ..)
    rw [hf p hp a ha] at he; cases he

theorem initClass_nonactive {fresh : AMap Rcn KeyId} {r : Rcn} {rc : Rc} {a : List Ev}
    (hv : rc.keys.variant ≠ .active) (h : initClass fresh r rc = .ok a) : a = [] := by
  unfold initClass at h
  cases hk : rc.keys with
  | active c => rw [hk] at hv; simp [KeyState.variant] at hv
  | pending _ => simp only [hk, Except.ok.injEq] at h; exact h.symm
  | rollPending _ _ => simp only [hk, Except.ok.injEq] at h; exact h.symm
  | rollNew _ _ => simp only [hk, Except.ok.injEq] at h; exact h.symm
  | rollOld _ _ => simp only [hk, Except.ok.injEq] at h; exact h.symm

/-- After its initiate chunk a class is not `active`. -/
theorem initClass_post (fresh : AMap Rcn KeyId) (r : Rcn) (rc : Rc) (evs : List Ev)
    (h : initClass fresh r rc = .ok evs) :
    ∀ rc', rc.applyEvs evs = some rc' → rc'.keys.variant ≠ .active := by
  intro rc' happ
  unfold initClass at h
  cases hk : rc.keys with
  | active c =>
    simp only [hk] at h
    cases hf : get fresh r with
    | none => simp [hf] at h
    | some k =>
      simp only [hf] at h
      by_cases hkc : k = c.id
      · simp [hkc] at h
      · simp only [hkc, if_false, Except.ok.injEq, KeyState.keyrollInitiate, List.map_cons, List.map_nil] at h
        subst h
        simp only [Rc.applyEvs, Rc.applyEv, hk, KeyState.apply, KeyState.applyPendingAdded,
          KeyState.applyRequested, Option.map_some, Option.bind_some, Option.some.injEq] at happ
        subst happ
        simp only
        split <;> simp [KeyState.variant]
  | pending _ =>
    simp only [hk, Except.ok.injEq] at h; subst h
    simp only [Rc.applyEvs, Option.some.injEq] at happ; subst happ; simp [hk, KeyState.variant]
  | rollPending _ _ =>
    simp only [hk, Except.ok.injEq] at h; subst h
    simp only [Rc.applyEvs, Option.some.injEq] at happ; subst happ; simp [hk, KeyState.variant]
  | rollNew _ _ =>
    simp only [hk, Except.ok.injEq] at h; subst h
    simp only [Rc.applyEvs, Option.some.injEq] at happ; subst happ; simp [hk, KeyState.variant]
  | rollOld _ _ =>
    simp only [hk, Except.ok.injEq] at h; subst h
    simp only [Rc.applyEvs, Option.some.injEq] at happ; subst happ; simp [hk, KeyState.variant]

/-- What every chunk establishes holds afterwards for the classes of the list; the others are
untouched. -/
theorem forClasses_post (Q : Rc → Prop) {f : Rcn → Rc → Except Err (List Ev)}
    (hf : ∀ r rc evs, f r rc = .ok evs → (∀ e ∈ evs, e.onClass r = true) ∧
      (∀ rc', rc.applyEvs evs = some rc' → Q rc'))
    {l : List (Rcn × Rc)} {evs : List Ev} {s s' : Ca} (hnd : (keys l).Nodup)
    (hl : ∀ p ∈ l, get s.classes p.1 = some p.2)
    (h : forClasses f l = .ok evs) (hs : s.applyAll evs = some s') :
    (∀ p ∈ l, ∃ rc', get s'.classes p.1 = some rc' ∧ Q rc') ∧
    (∀ r, r ∉ keys l → get s'.classes r = get s.classes r) := by
  induction l generalizing s evs with
  | nil =>
    simp only [forClasses, Except.ok.injEq] at h; subst h
    simp only [Ca.applyAll, Option.some.injEq] at hs; subst hs
    exact ⟨(by intro p hp; cases hp), fun _ _ => rfl⟩
  | cons p ps ih =>
    simp only [forClasses] at h
    cases hfp : f p.1 p.2 with
    | error e => simp [hfp] at h
    | ok a =>
      simp only [hfp] at h
      cases hrest : forClasses f ps with
      | error e => simp [hrest] at h
      | ok b =>
        simp only [hrest, Except.ok.injEq] at h; subst h
        rw [applyAll_append] at hs
        cases hs1 : s.applyAll a with
        | none => simp [hs1] at hs
        | some s1 =>
          simp only [hs1, Option.bind_some] at hs
          obtain ⟨hon, hq⟩ := hf p.1 p.2 a hfp
          have hgp := hl p (List.mem_cons_self ..)
          obtain ⟨rc', happ, hg', hframe, _⟩ := applyAll_of_rc hon hgp hs1
          simp only [keys, List.map_cons, List.nodup_cons] at hnd
          have hl1 : ∀ q ∈ ps, get s1.classes q.1 = some q.2 := by
            intro q hq'
            have hne : q.1 ≠ p.1 := fun he => hnd.1 (he ▸ List.mem_map.mpr ⟨q, hq', rfl⟩)
            rw [hframe q.1 hne]; exact hl q (List.mem_cons_of_mem _ hq')
          obtain ⟨h1, h2⟩ := ih hnd.2 hl1 hrest hs
          refine ⟨?_, ?_⟩
          · intro q hq'
            rcases List.mem_cons.mp hq' with rfl | hq'
            · refine ⟨rc', ?_, hq rc' happ⟩
              rw [h2 _ hnd.1]; exact hg'
            · exact h1 q hq'
          · intro r hr
            simp only [keys, List.map_cons, List.mem_cons, not_or] at hr
            rw [h2 r hr.2, hframe r hr.1]

end KM.CaK
