/-
Helper lemmas for C02 (`exchange_converges` with a key roll of the child in progress): the
request branch of `Pair.sync` for classes in any key state, class by class, as
`KeyState.syncStep`; the coupling invariant with a key roll in progress.  No property statements.
-/
import KrillModel.Ca.ExchangeRoll
set_option linter.unusedSimpArgs false
namespace KM.CaK
open KM.Res KM.AMap

/-! ## Keys of a class through the steps of the key-state machine -/

/-- The certified keys that stay: the current key, or the new key of a roll. -/
def KeyState.staying : KeyState → List CertKey
  | .active c => [c]
  | .rollNew n _ => [n]
  | .rollOld c _ => [c]
  | _ => []

/-- The key a roll in progress will revoke. -/
def KeyState.leaving : KeyState → List KeyId
  | .rollPending _ c => [c.id]
  | .rollNew _ c => [c.id]
  | .rollOld _ o => [o.id]
  | _ => []

theorem revoked_sub_leaving (ks : KeyState) : ∀ k ∈ ks.revoked, k ∈ ks.leaving := by
  cases ks <;> simp [KeyState.revoked, KeyState.leaving]

theorem leaving_sub_keyIds (ks : KeyState) : ∀ k ∈ ks.leaving, k ∈ ks.keyIds := by
  cases ks <;> simp [KeyState.leaving, KeyState.keyIds]

theorem staying_sub_keyIds (ks : KeyState) : ∀ k ∈ ks.staying, k.id ∈ ks.keyIds := by
  cases ks <;> simp [KeyState.staying, KeyState.keyIds]

theorem staying_not_revoked {ks : KeyState} (hwf : ks.wf = true) : ∀ k ∈ ks.staying, k.id ∉ ks.revoked := by
  cases ks with
  | rollOld c o =>
    simp only [KeyState.wf, Bool.and_eq_true, Bool.not_eq_true', decide_eq_true_eq] at hwf
    simp [KeyState.staying, KeyState.revoked, hwf.2]
  | _ => simp [KeyState.revoked]

theorem keyIds_receive (ks : KeyState) (ki : KeyId) (cert : Cert) : (ks.receive ki cert).keyIds = ks.keyIds := by
  cases ks with
  | pending p =>
    by_cases h : ki = p.id <;>
      simp [KeyState.receive, KeyState.route, h, KeyState.applyPendingToActive, KeyState.keyIds, create_id]
  | active c =>
    by_cases h : ki = c.id <;>
      simp [KeyState.receive, KeyState.route, h, KeyState.applyReceived, KeyState.keyIds, setIncoming_id]
  | rollOld c o =>
    by_cases h : ki = c.id <;>
      simp [KeyState.receive, KeyState.route, h, KeyState.applyReceived, KeyState.keyIds, setIncoming_id]
  | rollPending p c =>
    by_cases h : ki = p.id
    · simp [KeyState.receive, KeyState.route, h, KeyState.applyPendingToNew, KeyState.keyIds, create_id]
    · by_cases h2 : ki = c.id
      · subst h2
        simp [KeyState.receive, KeyState.route, h, KeyState.applyReceived, KeyState.keyIds, setIncoming_id]
      · simp [KeyState.receive, KeyState.route, h, h2, KeyState.keyIds]
  | rollNew n c =>
    by_cases h : ki = n.id
    · simp [KeyState.receive, KeyState.route, h, KeyState.applyReceived, KeyState.keyIds, setIncoming_id]
    · by_cases h2 : ki = c.id
      · subst h2
        have h' : ¬ n.id = c.id := fun e => h e.symm
        simp [KeyState.receive, KeyState.route, h, KeyState.applyReceived, KeyState.keyIds, setIncoming_id, h']
      · simp [KeyState.receive, KeyState.route, h, h2, KeyState.keyIds]

theorem keyIds_foldl_receive (L : List KeyId) (cert : Cert) (ks : KeyState) :
    (L.foldl (fun k ki => k.receive ki cert) ks).keyIds = ks.keyIds := by
  induction L generalizing ks with
  | nil => rfl
  | cons a t ih => simp only [List.foldl_cons, ih, keyIds_receive]

theorem keyIds_applyRequested (ks : KeyState) (ki : KeyId) : (ks.applyRequested ki).keyIds = ks.keyIds := by
  cases ks <;> simp only [KeyState.applyRequested] <;> (try split) <;> rfl

theorem keyIds_syncStep (ks : KeyState) (o : Offer) (now : Int) :
    ∀ k ∈ (ks.syncStep o now).keyIds, k ∈ ks.keyIds := by
  intro k hk
  unfold KeyState.syncStep at hk
  split at hk
  · rw [keyIds_foldl_receive] at hk
    have : ∀ k ∈ (match ks with | .rollOld c _ => KeyState.active c | _ => ks).keyIds, k ∈ ks.keyIds := by
      cases ks <;> simp [KeyState.keyIds]
    exact this k hk
  · have : ∀ (L : List KeyId) (ks0 : KeyState),
        (L.foldl (fun k ki => k.applyRequested ki) ks0).keyIds = ks0.keyIds := by
      intro L
      induction L with
      | nil => intro _; rfl
      | cons a t ih => intro ks0; simp only [List.foldl_cons, ih, keyIds_applyRequested]
    rw [this] at hk; exact hk

theorem keyIds_activateStep (ks : KeyState) : ∀ k ∈ ks.activateStep.keyIds, k ∈ ks.keyIds := by
  intro k hk
  cases ks with
  | rollNew n c =>
    simp only [KeyState.activateStep, KeyState.keyrollActivate] at hk
    split at hk
    · exact hk
    · simp only [KeyState.applyActivated, Option.getD_some, KeyState.keyIds] at hk ⊢; exact hk
  | _ => exact hk

/-- A staying key after the requests of the class were answered either received the answer or is
a staying key as it was. -/
theorem staying_syncStep {ks : KeyState} (hwf : ks.wf = true) (hp : ks.hasPending = true) (o : Offer) (now : Int) :
    ∀ k' ∈ (ks.syncStep o now).staying, k'.id ∈ ks.finished.certRequests ∨ k' ∈ ks.staying := by
  cases ks with
  | pending p =>
    obtain ⟨pid, preq⟩ := p
    cases preq
    · simp [KeyState.hasPending, KeyState.certRequests, KeyState.revokeRequest] at hp
    · simp [KeyState.syncStep, KeyState.hasPending, KeyState.certRequests, KeyState.revokeRequest,
        KeyState.receive, KeyState.route, KeyState.applyPendingToActive, KeyState.staying, KeyState.finished,
        create_id]
  | active c =>
    obtain ⟨cid, ccert, creq⟩ := c
    cases creq
    · simp [KeyState.hasPending, KeyState.certRequests, KeyState.revokeRequest] at hp
    · simp [KeyState.syncStep, KeyState.hasPending, KeyState.certRequests, KeyState.revokeRequest,
        KeyState.receive, KeyState.route, KeyState.applyReceived, KeyState.staying, KeyState.finished,
        setIncoming_id]
  | rollPending p c =>
    obtain ⟨pid, preq⟩ := p
    obtain ⟨cid, ccert, creq⟩ := c
    have hne : pid ≠ cid := by simpa [KeyState.wf] using hwf
    have hne' : cid ≠ pid := fun h => hne h.symm
    cases preq <;> cases creq
    · simp [KeyState.hasPending, KeyState.certRequests, KeyState.revokeRequest] at hp
    · simp [KeyState.syncStep, KeyState.hasPending, KeyState.certRequests, KeyState.revokeRequest,
        KeyState.receive, KeyState.route, KeyState.applyReceived, KeyState.staying, KeyState.finished, hne, hne']
    · simp [KeyState.syncStep, KeyState.hasPending, KeyState.certRequests, KeyState.revokeRequest,
        KeyState.receive, KeyState.route, KeyState.applyPendingToNew, KeyState.staying, KeyState.finished,
        create_id]
    · simp [KeyState.syncStep, KeyState.hasPending, KeyState.certRequests, KeyState.revokeRequest,
        KeyState.receive, KeyState.route, KeyState.applyPendingToNew, KeyState.applyReceived,
        KeyState.staying, KeyState.finished, create_id, setIncoming_id, hne, hne']
  | rollNew n c =>
    obtain ⟨nid, ncert, nreq⟩ := n
    obtain ⟨cid, ccert, creq⟩ := c
    have hne : nid ≠ cid := by simpa [KeyState.wf] using hwf
    have hne' : cid ≠ nid := fun h => hne h.symm
    cases nreq <;> cases creq
    · simp [KeyState.hasPending, KeyState.certRequests, KeyState.revokeRequest] at hp
    · simp [KeyState.syncStep, KeyState.hasPending, KeyState.certRequests, KeyState.revokeRequest,
        KeyState.receive, KeyState.route, KeyState.applyReceived, KeyState.staying, KeyState.finished, hne, hne']
    · simp [KeyState.syncStep, KeyState.hasPending, KeyState.certRequests, KeyState.revokeRequest,
        KeyState.receive, KeyState.route, KeyState.applyReceived, KeyState.staying, KeyState.finished, hne, hne',
        setIncoming_id]
    · simp [KeyState.syncStep, KeyState.hasPending, KeyState.certRequests, KeyState.revokeRequest,
        KeyState.receive, KeyState.route, KeyState.applyReceived, KeyState.staying, KeyState.finished, hne, hne',
        setIncoming_id]
  | rollOld c od =>
    obtain ⟨cid, ccert, creq⟩ := c
    simp only [KeyState.wf, Bool.and_eq_true, Bool.not_eq_true', decide_eq_true_eq] at hwf
    cases creq
    · simp [KeyState.syncStep, KeyState.hasPending, KeyState.certRequests, KeyState.revokeRequest,
        KeyState.staying, KeyState.finished]
    · simp [KeyState.syncStep, KeyState.hasPending, KeyState.certRequests, KeyState.revokeRequest,
        KeyState.receive, KeyState.route, KeyState.applyReceived, KeyState.staying, KeyState.finished,
        setIncoming_id]

/-- The leaving keys after a step of the class were leaving before and are not the revoked one. -/
theorem leaving_syncStep {ks : KeyState} (hwf : ks.wf = true) (o : Offer) (now : Int) :
    ∀ k ∈ (ks.syncStep o now).leaving, k ∈ ks.leaving ∧ k ∉ ks.revoked := by
  have hfold : ∀ (L : List KeyId) (ks0 : KeyState) (cert : Cert),
      (L.foldl (fun k ki => k.receive ki cert) ks0).leaving = ks0.leaving := by
    intro L
    induction L with
    | nil => intro _ _; rfl
    | cons a t ih =>
      intro ks0 cert
      simp only [List.foldl_cons, ih]
      cases ks0 with
      | pending p =>
        by_cases h : a = p.id <;>
          simp [KeyState.receive, KeyState.route, h, KeyState.applyPendingToActive, KeyState.leaving]
      | active c =>
        by_cases h : a = c.id <;>
          simp [KeyState.receive, KeyState.route, h, KeyState.applyReceived, KeyState.leaving]
      | rollOld c o =>
        by_cases h : a = c.id <;>
          simp [KeyState.receive, KeyState.route, h, KeyState.applyReceived, KeyState.leaving]
      | rollPending p c =>
        by_cases h : a = p.id
        · simp [KeyState.receive, KeyState.route, h, KeyState.applyPendingToNew, KeyState.leaving]
        · by_cases h2 : a = c.id
          · subst h2
            simp [KeyState.receive, KeyState.route, h, KeyState.applyReceived, KeyState.leaving, setIncoming_id]
          · simp [KeyState.receive, KeyState.route, h, h2, KeyState.leaving]
      | rollNew n c =>
        by_cases h : a = n.id
        · simp [KeyState.receive, KeyState.route, h, KeyState.applyReceived, KeyState.leaving]
        · by_cases h2 : a = c.id
          · subst h2
            have h' : ¬ n.id = c.id := fun e => h e.symm
            simp [KeyState.receive, KeyState.route, h, KeyState.applyReceived, KeyState.leaving, setIncoming_id, h']
          · simp [KeyState.receive, KeyState.route, h, h2, KeyState.leaving]
  have hreq : ∀ (L : List KeyId) (ks0 : KeyState),
      (L.foldl (fun k ki => k.applyRequested ki) ks0).leaving = ks0.leaving := by
    intro L
    induction L with
    | nil => intro _; rfl
    | cons a t ih =>
      intro ks0
      simp only [List.foldl_cons, ih]
      cases ks0 <;> simp only [KeyState.applyRequested] <;> (try split) <;> rfl
  intro k hk
  unfold KeyState.syncStep at hk
  split at hk
  · rw [hfold] at hk
    cases ks <;> simp_all [KeyState.leaving, KeyState.revoked]
  · rw [hreq] at hk
    rename_i hnp
    refine ⟨hk, ?_⟩
    cases ks <;> simp_all [KeyState.leaving, KeyState.revoked, KeyState.hasPending, KeyState.revokeRequest]


/-! ## The request branch of a sync, any key states -/

/-- Key identifiers of different classes under the parent are different. -/
def KeysDistinct (s : Ca) (p : Handle) : Prop :=
  ∀ r1 r2 rc1 rc2 k, get s.classes r1 = some rc1 → get s.classes r2 = some rc2 →
    rc1.parent = p → rc2.parent = p → k ∈ rc1.keys.keyIds → k ∈ rc2.keys.keyIds → r1 = r2

/-- The class as it is after its open requests were sent (any key state), relative to the pair
`x` in which the answers are computed. -/
structure Answered2 (x y : Pair) (na now : Int) (r : Rcn) : Prop where
  absent : get x.child.ca.classes r = none → get y.child.ca.classes r = none
  quiet : ∀ rc, get x.child.ca.classes r = some rc → ¬ (rc.parent = x.ph ∧ rc.keys.hasPending = true) →
    get y.child.ca.classes r = some rc
  refused : ∀ rc, get x.child.ca.classes r = some rc → rc.parent = x.ph → rc.keys.hasPending = true →
    x.parent.ca.answer x.ch rc.parentRcn = none →
    get y.child.ca.classes r = none ∨
    ∃ rc', get y.child.ca.classes r = some rc' ∧ rc'.parent = rc.parent ∧ rc'.parentRcn = rc.parentRcn ∧
      rc'.keys = rc.keys.finished ∧ rc.keys.finished.certRequests = []
  answered : ∀ rc R, get x.child.ca.classes r = some rc → rc.parent = x.ph → rc.keys.hasPending = true →
    x.parent.ca.answer x.ch rc.parentRcn = some R →
    ∃ rc', get y.child.ca.classes r = some rc' ∧ rc'.parent = rc.parent ∧ rc'.parentRcn = rc.parentRcn ∧
      rc'.keys = rc.keys.syncStep ⟨R, na⟩ now ∧
      ∀ ki ∈ rc.keys.finished.certRequests, ∃ c, get y.parent.ca.children x.ch = some c ∧
        y.parent.ca.bookedExact x.ch (c.nameInParent rc.parentRcn) ki
  inuse : ∀ rc k, get x.child.ca.classes r = some rc → rc.parent = x.ph → k ∈ rc.keys.keyIds →
    InUse x.parent.ca x.ch rc.parentRcn k → k ∉ rc.keys.revoked → InUse y.parent.ca x.ch rc.parentRcn k

theorem finished_certRequests_sub_keyIds (ks : KeyState) : ∀ k ∈ ks.finished.certRequests, k ∈ ks.keyIds := by
  intro k hk
  cases ks with
  | pending p => simp only [KeyState.finished, KeyState.certRequests] at hk; split at hk <;> simp_all [KeyState.keyIds]
  | active c => simp only [KeyState.finished, KeyState.certRequests] at hk; split at hk <;> simp_all [KeyState.keyIds]
  | rollOld c o => simp only [KeyState.finished, KeyState.certRequests] at hk; split at hk <;> simp_all [KeyState.keyIds]
  | rollPending p c =>
    simp only [KeyState.finished, KeyState.certRequests, List.mem_append] at hk
    rcases hk with hk | hk <;> split at hk <;> simp_all [KeyState.keyIds]
  | rollNew n c =>
    simp only [KeyState.finished, KeyState.certRequests, List.mem_append] at hk
    rcases hk with hk | hk <;> split at hk <;> simp_all [KeyState.keyIds]

/-- A later step on another class (with other keys) keeps `Answered2`. -/
theorem Answered2.step {x y y' : Pair} {na now : Int} {r r' : Rcn} {Kb K : List KeyId}
    (h : Answered2 x y na now r) (hch : y.ch = x.ch) (hst : ReqStep2 y y' r' Kb K) (hne : r ≠ r')
    (hKb : ∀ k ∈ Kb, k ∈ K)
    (hK : ∀ rc, get x.child.ca.classes r = some rc → rc.parent = x.ph → ∀ k ∈ rc.keys.keyIds, k ∉ K) :
    Answered2 x y' na now r := by
  have hfr := hst.frame r hne
  have hsame := hst.same
  rw [hch] at hsame
  refine ⟨fun h0 => (by rw [hfr]; exact h.absent h0), fun rc h0 h1 => (by rw [hfr]; exact h.quiet rc h0 h1),
    fun rc h0 h1 h2 h3 => (by rw [hfr]; exact h.refused rc h0 h1 h2 h3), ?_, ?_⟩
  · intro rc R h0 h1 h2 h3
    obtain ⟨rc', a1, a2, a3, a4, a5⟩ := h.answered rc R h0 h1 h2 h3
    refine ⟨rc', (by rw [hfr]; exact a1), a2, a3, a4, ?_⟩
    intro ki hki
    obtain ⟨c, c1, c2⟩ := a5 ki hki
    rcases hsame.child_cases with ⟨e1, _⟩ | ⟨c0, c', e1, e2, _, e4⟩
    · rw [e1] at c1; cases c1
    · rw [e1] at c1; cases c1
      refine ⟨c', e2, ?_⟩
      rw [nameInParent_congr e4]
      have hkK : ki ∉ K := hK rc h0 h1 ki (finished_certRequests_sub_keyIds rc.keys ki hki)
      have hb := hst.book (c.nameInParent rc.parentRcn) ki
      rw [hch] at hb
      rcases hb with hb | hb | hb
      · exact hsame.bookedExact c2 hb
      · exact hb
      · exact absurd (hKb ki hb) hkK
  · intro rc k h0 h1 hk hu hnr
    obtain ⟨c, hc, hkc⟩ := h.inuse rc k h0 h1 hk hu hnr
    have hu' := hst.used
    rw [hch] at hu'
    obtain ⟨c', hc', hm, hks⟩ := hu' c hc
    exact ⟨c', hc', by rw [nameInParent_congr hm, hks k (hK rc h0 h1 k hk)]; exact hkc⟩

/-- Certificates on file at the parent after the request branch: untouched, exact, or of a key
some class had revoked. -/
def BookRel2 (x : Pair) (p' : Ca) : Prop :=
  ∀ q k, p'.issuedIn q k = x.parent.ca.issuedIn q k ∨ p'.bookedExact x.ch q k ∨
    ∃ r rc, get x.child.ca.classes r = some rc ∧ rc.parent = x.ph ∧ k ∈ rc.keys.revoked

/-- The pair after the request branch of a sync (any key states). -/
structure ReqRun2 (x z : Pair) (na now : Int) : Prop where
  ch : z.ch = x.ch
  ph : z.ph = x.ph
  inv : PairInv2 z
  same : ParentSame x.parent.ca z.parent.ca x.ch
  book : BookRel2 x z.parent.ca
  cls : ∀ r, Answered2 x z na now r

/-- Every class under the parent has a well-formed key state and the key it is about to revoke
is in use at the parent. -/
structure RollOk (x : Pair) : Prop where
  wf : ∀ r rc, get x.child.ca.classes r = some rc → rc.parent = x.ph → rc.keys.wf = true
  distinct : KeysDistinct x.child.ca x.ph
  leaving : ∀ r rc, get x.child.ca.classes r = some rc → rc.parent = x.ph →
    ∀ k ∈ rc.keys.leaving, InUse x.parent.ca x.ch rc.parentRcn k

theorem requests_fold2 {x : Pair} (na now : Int) (hok : RollOk x) (hansw : Answerable x) :
    ∀ (rs : List Rcn) (y : Pair), rs.Nodup → y.ch = x.ch → y.ph = x.ph → PairInv2 y →
      ParentSame x.parent.ca y.parent.ca x.ch → BookRel2 x y.parent.ca →
      (∀ r ∈ rs, get y.child.ca.classes r = get x.child.ca.classes r) →
      (∀ r ∈ rs, ∀ rc k, get x.child.ca.classes r = some rc → rc.parent = x.ph → k ∈ rc.keys.keyIds →
        InUse x.parent.ca x.ch rc.parentRcn k → InUse y.parent.ca x.ch rc.parentRcn k) →
      (∀ r, r ∉ rs → Answered2 x y na now r) →
      ReqRun2 x (rs.foldl (fun y r => y.classRequests r na) y) na now := by
  intro rs
  induction rs with
  | nil =>
    intro y _ hch hph hinv hsame hbook _ _ hdone
    exact ⟨hch, hph, hinv, hsame, hbook, fun r => hdone r (by simp)⟩
  | cons r t ih =>
    intro y hnd hch hph hinv hsame hbook htodo huse hdone
    have hnd' := List.nodup_cons.mp hnd
    simp only [List.foldl_cons]
    have hgr := htodo r (List.mem_cons_self ..)
    -- the step on class `r`
    have hstep : ∃ Kb K, ReqStep2 y (y.classRequests r na) r Kb K ∧ (∀ k ∈ Kb, k ∈ K) ∧
        (∀ r' rc', r' ≠ r → get x.child.ca.classes r' = some rc' → rc'.parent = x.ph →
          ∀ k ∈ rc'.keys.keyIds, k ∉ K) ∧
        (∀ k ∈ Kb, ∃ r0 rc0, get x.child.ca.classes r0 = some rc0 ∧ rc0.parent = x.ph ∧ k ∈ rc0.keys.revoked) ∧
        Answered2 x (y.classRequests r na) na now r := by
      cases hg : get x.child.ca.classes r with
      | none =>
        have hgy : get y.child.ca.classes r = none := hgr.trans hg
        have hy : y.classRequests r na = y := by unfold Pair.classRequests; rw [hgy]
        rw [hy]
        exact ⟨[], [], ReqStep2.refl hinv r [] [], fun _ h => (nomatch h), fun _ _ _ _ _ _ _ h => (nomatch h),
          fun _ h => (nomatch h),
          ⟨fun _ => hgy, fun rc h => (by rw [hg] at h; cases h), fun rc h => (by rw [hg] at h; cases h),
            fun rc R h => (by rw [hg] at h; cases h), fun rc k h => (by rw [hg] at h; cases h)⟩⟩
      | some rc =>
        have hgy : get y.child.ca.classes r = some rc := hgr.trans hg
        by_cases hp : rc.parent = x.ph
        · have hwf := hok.wf r rc hg hp
          have hans : ∀ n, y.parent.ca.answer x.ch n = x.parent.ca.answer x.ch n := hsame.answer
          obtain ⟨b1, b2, b3, b4, b5⟩ := classRequests_gen hinv r na now hgy (hp.trans hph.symm) hwf (by
            intro k hk
            rw [hch]
            exact huse r (List.mem_cons_self ..) rc k hg hp (revoked_sub_keyIds rc.keys k hk)
              (hok.leaving r rc hg hp k (revoked_sub_leaving rc.keys k hk))) (by
            intro hreq
            obtain ⟨R, hR⟩ := hansw r rc hg hp hreq
            exact ⟨R, by rw [hch]; exact (hans _).trans hR⟩)
          rw [hch] at b3 b4 b5
          refine ⟨rc.keys.revoked, rc.keys.keyIds, b1, revoked_sub_keyIds rc.keys, ?_, ?_, ?_⟩
          · intro r' rc' hne hg' hp' k hk hk2
            exact hne (hok.distinct r' r rc' rc k hg' hg hp' hp hk hk2)
          · intro k hk; exact ⟨r, rc, hg, hp, hk⟩
          · refine ⟨fun h => (by rw [hg] at h; cases h), ?_, ?_, ?_, ?_⟩
            · intro rc0 h0 hq
              rw [hg] at h0; cases h0
              have hnp : rc.keys.hasPending = false := by
                cases hpend : rc.keys.hasPending with
                | false => rfl
                | true => exact absurd ⟨hp, hpend⟩ hq
              rw [b2 hnp]; exact hgy
            · intro rc0 h0 _ hpend hnone
              rw [hg] at h0; cases h0
              exact b4 hpend ((hans _).trans hnone)
            · intro rc0 R h0 _ hpend hsome
              rw [hg] at h0; cases h0
              exact b5 R hpend ((hans _).trans hsome)
            · intro rc0 k h0 _ hk hu hnr
              rw [hg] at h0; cases h0
              exact b3 k (huse r (List.mem_cons_self ..) rc k hg hp hk hu) hnr
        · have hy : y.classRequests r na = y := by
            unfold Pair.classRequests
            simp only [hgy]
            have : rc.parent ≠ y.ph := fun h => hp (h.trans hph)
            simp only [this, ne_eq, not_false_eq_true, if_true]
          rw [hy]
          exact ⟨[], [], ReqStep2.refl hinv r [] [], fun _ h => (nomatch h), fun _ _ _ _ _ _ _ h => (nomatch h),
            fun _ h => (nomatch h),
            ⟨fun h => (by rw [hg] at h; cases h), fun rc0 h0 _ => (by rw [hg] at h0; cases h0; exact hgy),
              fun rc0 h0 hp0 => (by rw [hg] at h0; cases h0; exact absurd hp0 hp),
              fun rc0 R h0 hp0 => (by rw [hg] at h0; cases h0; exact absurd hp0 hp),
              fun rc0 k h0 hp0 => (by rw [hg] at h0; cases h0; exact absurd hp0 hp)⟩⟩
    obtain ⟨Kb, K, hst, hKb, hKother, hKbx, hans⟩ := hstep
    have hs1 := hst.same
    rw [hch] at hs1
    refine ih (y.classRequests r na) hnd'.2 (hst.ch.trans hch) (hst.ph.trans hph) hst.inv (hsame.trans hs1) ?_ ?_ ?_ ?_
    · -- certificates on file
      intro q k
      have hb := hst.book q k
      rw [hch] at hb
      rcases hb with hb | hb | hb
      · rcases hbook q k with h1 | h1 | h1
        · exact Or.inl (hb.trans h1)
        · exact Or.inr (Or.inl (hs1.bookedExact h1 hb))
        · exact Or.inr (Or.inr h1)
      · exact Or.inr (Or.inl hb)
      · exact Or.inr (Or.inr (hKbx k hb))
    · intro r' hr'
      have hne : r' ≠ r := fun h => hnd'.1 (h ▸ hr')
      rw [hst.frame r' hne]
      exact htodo r' (List.mem_cons_of_mem _ hr')
    · intro r' hr' rc' k hg' hp' hk hu
      have hne : r' ≠ r := fun h => hnd'.1 (h ▸ hr')
      obtain ⟨c, hc, hkc⟩ := huse r' (List.mem_cons_of_mem _ hr') rc' k hg' hp' hk hu
      have hu' := hst.used
      rw [hch] at hu'
      obtain ⟨c', hc', hm, hks⟩ := hu' c hc
      exact ⟨c', hc', by rw [nameInParent_congr hm, hks k (hKother r' rc' hne hg' hp' k hk)]; exact hkc⟩
    · intro r' hr'
      by_cases hrr : r' = r
      · subst hrr; exact hans
      · have hnot : r' ∉ r :: t := by
          intro h
          rcases List.mem_cons.mp h with h | h
          · exact hrr h
          · exact hr' h
        exact (hdone r' hnot).step hch hst hrr hKb (fun rc' hg' hp' => hKother r' rc' hrr hg' hp')

/-- The request branch of `Pair.sync`, any key states. -/
theorem syncR2_spec {x : Pair} (hinv : PairInv2 x) (hok : RollOk x) (hansw : Answerable x) (now na : Int)
    (fresh : List KeyId) (hpend : x.child.ca.hasPendingRequests x.ph = true) :
    ReqRun2 x (x.sync now na fresh) na now := by
  unfold Pair.sync
  simp only [hpend, if_true]
  refine requests_fold2 na now hok hansw _ x (reachable_inv hinv.base.rc).core.nodup rfl rfl hinv (ParentSame.refl _ _)
    (fun _ _ => Or.inl rfl) (fun _ _ => rfl) (fun _ _ _ _ _ _ _ h => h) ?_
  intro r hr
  have hnone : get x.child.ca.classes r = none := by
    cases hg : get x.child.ca.classes r with
    | none => rfl
    | some rc => exact absurd (mem_keys_of_get hg) hr
  exact ⟨fun _ => hnone, fun rc h => (by rw [hnone] at h; cases h), fun rc h => (by rw [hnone] at h; cases h),
    fun rc R h => (by rw [hnone] at h; cases h), fun rc k h => (by rw [hnone] at h; cases h)⟩

/-! ## The coupling invariant with a key roll in progress -/

theorem hasPending_finished_nil {ks : KeyState} (h : ks.finished.certRequests = []) : ks.finished.hasPending = false := by
  cases ks <;> simp_all [KeyState.finished, KeyState.hasPending, KeyState.revokeRequest]

/-- After its requests were answered a class has nothing left to send. -/
theorem syncStep_clears {ks : KeyState} (hwf : ks.wf = true) (hp : ks.hasPending = true) (o : Offer) (now : Int) :
    (ks.syncStep o now).hasPending = false := by
  cases ks with
  | pending p =>
    obtain ⟨pid, preq⟩ := p
    cases preq
    · simp [KeyState.hasPending, KeyState.certRequests, KeyState.revokeRequest] at hp
    · simp [KeyState.syncStep, KeyState.hasPending, KeyState.certRequests, KeyState.revokeRequest,
        KeyState.receive, KeyState.route, KeyState.applyPendingToActive, CertKey.create]
  | active c =>
    obtain ⟨cid, ccert, creq⟩ := c
    cases creq
    · simp [KeyState.hasPending, KeyState.certRequests, KeyState.revokeRequest] at hp
    · simp [KeyState.syncStep, KeyState.hasPending, KeyState.certRequests, KeyState.revokeRequest,
        KeyState.receive, KeyState.route, KeyState.applyReceived, CertKey.setIncoming]
  | rollPending p c =>
    obtain ⟨pid, preq⟩ := p
    obtain ⟨cid, ccert, creq⟩ := c
    have hne : pid ≠ cid := by simpa [KeyState.wf] using hwf
    have hne' : cid ≠ pid := fun h => hne h.symm
    cases preq <;> cases creq
    · simp [KeyState.hasPending, KeyState.certRequests, KeyState.revokeRequest] at hp
    · simp [KeyState.syncStep, KeyState.hasPending, KeyState.certRequests, KeyState.revokeRequest,
        KeyState.receive, KeyState.route, KeyState.applyReceived, CertKey.setIncoming, hne, hne']
    · simp [KeyState.syncStep, KeyState.hasPending, KeyState.certRequests, KeyState.revokeRequest,
        KeyState.receive, KeyState.route, KeyState.applyPendingToNew, CertKey.create]
    · simp [KeyState.syncStep, KeyState.hasPending, KeyState.certRequests, KeyState.revokeRequest,
        KeyState.receive, KeyState.route, KeyState.applyPendingToNew, KeyState.applyReceived,
        CertKey.create, CertKey.setIncoming, hne, hne']
  | rollNew n c =>
    obtain ⟨nid, ncert, nreq⟩ := n
    obtain ⟨cid, ccert, creq⟩ := c
    have hne : nid ≠ cid := by simpa [KeyState.wf] using hwf
    have hne' : cid ≠ nid := fun h => hne h.symm
    cases nreq <;> cases creq
    · simp [KeyState.hasPending, KeyState.certRequests, KeyState.revokeRequest] at hp
    · simp [KeyState.syncStep, KeyState.hasPending, KeyState.certRequests, KeyState.revokeRequest,
        KeyState.receive, KeyState.route, KeyState.applyReceived, CertKey.setIncoming, hne, hne']
    · simp [KeyState.syncStep, KeyState.hasPending, KeyState.certRequests, KeyState.revokeRequest,
        KeyState.receive, KeyState.route, KeyState.applyReceived, CertKey.setIncoming, hne, hne']
    · simp [KeyState.syncStep, KeyState.hasPending, KeyState.certRequests, KeyState.revokeRequest,
        KeyState.receive, KeyState.route, KeyState.applyReceived, CertKey.setIncoming, hne, hne']
  | rollOld c od =>
    obtain ⟨cid, ccert, creq⟩ := c
    simp only [KeyState.wf, Bool.and_eq_true, Bool.not_eq_true', decide_eq_true_eq] at hwf
    cases creq
    · simp [KeyState.syncStep, KeyState.hasPending, KeyState.certRequests, KeyState.revokeRequest]
    · simp [KeyState.syncStep, KeyState.hasPending, KeyState.certRequests, KeyState.revokeRequest,
        KeyState.receive, KeyState.route, KeyState.applyReceived, CertKey.setIncoming]

theorem leaving_finished (ks : KeyState) : ∀ k ∈ ks.finished.leaving, k ∈ ks.leaving ∧ k ∉ ks.revoked := by
  cases ks <;> simp [KeyState.finished, KeyState.leaving, KeyState.revoked]

theorem staying_finished (ks : KeyState) : ks.finished.staying = ks.staying := by
  cases ks <;> rfl

theorem not_pending_revoked {ks : KeyState} (h : ks.hasPending = false) : ks.revoked = [] := by
  cases ks <;> simp_all [KeyState.hasPending, KeyState.revokeRequest, KeyState.revoked]


/-- The certificate of a staying key that holds what the parent would answer is on file at the
parent with those resources. -/
def Booked2 (x : Pair) : Prop :=
  ∀ r rc k R, get x.child.ca.classes r = some rc → rc.parent = x.ph → k ∈ rc.keys.staying →
    x.parent.ca.answer x.ch rc.parentRcn = some R → seteq k.cert.res R = true →
    ∃ cc, x.parent.ca.issuedFor x.ch rc.parentRcn k.id = some cc ∧ seteq cc.res R = true

/-- What the exchange needs and keeps, key rolls included. -/
structure Coupled2 (x : Pair) : Prop where
  inv : PairInv2 x
  names : x.parent.ca.namesOk x.ch = true
  uniq : UniqueNames x.child.ca x.ph
  ok : RollOk x
  booked : Booked2 x

/-- Where a class after the request branch comes from. -/
theorem Answered2.origin {x z : Pair} {na now : Int} {r : Rcn} (h : Answered2 x z na now r) {rc' : Rc}
    (hg : get z.child.ca.classes r = some rc') :
    ∃ rc, get x.child.ca.classes r = some rc ∧ rc'.parent = rc.parent ∧ rc'.parentRcn = rc.parentRcn ∧
      ((rc' = rc ∧ ¬ (rc.parent = x.ph ∧ rc.keys.hasPending = true)) ∨
       (rc.parent = x.ph ∧ rc.keys.hasPending = true ∧ x.parent.ca.answer x.ch rc.parentRcn = none ∧
          rc'.keys = rc.keys.finished ∧ rc.keys.finished.certRequests = []) ∨
       (rc.parent = x.ph ∧ rc.keys.hasPending = true ∧ ∃ R, x.parent.ca.answer x.ch rc.parentRcn = some R ∧
          rc'.keys = rc.keys.syncStep ⟨R, na⟩ now ∧
          ∀ ki ∈ rc.keys.finished.certRequests, ∃ c, get z.parent.ca.children x.ch = some c ∧
            z.parent.ca.bookedExact x.ch (c.nameInParent rc.parentRcn) ki)) := by
  cases hx : get x.child.ca.classes r with
  | none => rw [h.absent hx] at hg; cases hg
  | some rc =>
    refine ⟨rc, rfl, ?_⟩
    by_cases hq : rc.parent = x.ph ∧ rc.keys.hasPending = true
    · cases ha : x.parent.ca.answer x.ch rc.parentRcn with
      | none =>
        rcases h.refused rc hx hq.1 hq.2 ha with h1 | ⟨rc'', a1, a2, a3, a4, a5⟩
        · rw [h1] at hg; cases hg
        · rw [a1] at hg; cases hg
          exact ⟨a2, a3, Or.inr (Or.inl ⟨hq.1, hq.2, rfl, a4, a5⟩)⟩
      | some R =>
        obtain ⟨rc'', a1, a2, a3, a4, a5⟩ := h.answered rc R hx hq.1 hq.2 ha
        rw [a1] at hg; cases hg
        exact ⟨a2, a3, Or.inr (Or.inr ⟨hq.1, hq.2, R, rfl, a4, a5⟩)⟩
    · rw [h.quiet rc hx hq] at hg; cases hg
      exact ⟨rfl, rfl, Or.inl ⟨rfl, hq⟩⟩

/-- A class of `x` that the parent answers is still there, under its names. -/
theorem Answered2.survives {x z : Pair} {na now : Int} {r : Rcn} (h : Answered2 x z na now r) {rc : Rc}
    (hg : get x.child.ca.classes r = some rc)
    (hans : rc.parent = x.ph → rc.keys.hasPending = true → ∃ R, x.parent.ca.answer x.ch rc.parentRcn = some R) :
    ∃ rc', get z.child.ca.classes r = some rc' ∧ rc'.parent = rc.parent ∧ rc'.parentRcn = rc.parentRcn := by
  by_cases hq : rc.parent = x.ph ∧ rc.keys.hasPending = true
  · obtain ⟨R, hR⟩ := hans hq.1 hq.2
    obtain ⟨rc', a1, a2, a3, _⟩ := h.answered rc R hg hq.1 hq.2 hR
    exact ⟨rc', a1, a2, a3⟩
  · exact ⟨rc, h.quiet rc hg hq, rfl, rfl⟩

/-- After the request branch nothing is left to send. -/
theorem ReqRun2.quiet {x z : Pair} {na now : Int} (hok : RollOk x) (h : ReqRun2 x z na now) :
    z.child.ca.hasPendingRequests z.ph = false := by
  rw [hasPendingRequests_false_iff (reachable_inv h.inv.base.rc).core.nodup]
  intro r rc' hg hp
  obtain ⟨rc, hx, a1, _, a3⟩ := (h.cls r).origin hg
  rw [h.ph] at hp
  have hpx : rc.parent = x.ph := a1.symm.trans hp
  rcases a3 with ⟨heq, hnot⟩ | ⟨_, _, _, hk, hnil⟩ | ⟨_, hpend, R, _, hk, _⟩
  · subst heq
    cases hpend : rc'.keys.hasPending with
    | false => rfl
    | true => exact absurd ⟨hp, hpend⟩ hnot
  · rw [hk]; exact hasPending_finished_nil hnil
  · rw [hk]; exact syncStep_clears (hok.wf r rc hx hpx) hpend _ _

/-- The request branch keeps the coupling. -/
theorem ReqRun2.coupled {x z : Pair} {na now : Int} (hc : Coupled2 x) (h : ReqRun2 x z na now) : Coupled2 z := by
  refine ⟨h.inv, ?_, ?_, ⟨?_, ?_, ?_⟩, ?_⟩
  · rw [h.ch]; exact h.same.namesOk hc.names
  · intro r1 r2 rc1 rc2 hg1 hg2 hp1 hp2 hname
    obtain ⟨rc1', hx1, a1, a2, _⟩ := (h.cls r1).origin hg1
    obtain ⟨rc2', hx2, b1, b2, _⟩ := (h.cls r2).origin hg2
    rw [h.ph] at hp1 hp2
    exact hc.uniq r1 r2 rc1' rc2' hx1 hx2 (a1.symm.trans hp1) (b1.symm.trans hp2) (a2.symm.trans (hname.trans b2))
  · -- well-formed key states
    intro r rc' hg hp
    obtain ⟨rc, hx, a1, _, a3⟩ := (h.cls r).origin hg
    rw [h.ph] at hp
    have hwf := hc.ok.wf r rc hx (a1.symm.trans hp)
    rcases a3 with ⟨heq, _⟩ | ⟨_, _, _, hk, _⟩ | ⟨_, _, R, _, hk, _⟩
    · rw [heq]; exact hwf
    · rw [hk]; exact wf_finished hwf
    · rw [hk]; exact wf_syncStep hwf _ _
  · -- keys of different classes stay different
    intro r1 r2 rc1 rc2 k hg1 hg2 hp1 hp2 hk1 hk2
    obtain ⟨rc1', hx1, a1, _, a3⟩ := (h.cls r1).origin hg1
    obtain ⟨rc2', hx2, b1, _, b3⟩ := (h.cls r2).origin hg2
    rw [h.ph] at hp1 hp2
    have hsub : ∀ {rc rc' : Rc}, ((rc' = rc ∧ ¬ (rc.parent = x.ph ∧ rc.keys.hasPending = true)) ∨
        (rc.parent = x.ph ∧ rc.keys.hasPending = true ∧ x.parent.ca.answer x.ch rc.parentRcn = none ∧
          rc'.keys = rc.keys.finished ∧ rc.keys.finished.certRequests = []) ∨
        (rc.parent = x.ph ∧ rc.keys.hasPending = true ∧ ∃ R, x.parent.ca.answer x.ch rc.parentRcn = some R ∧
          rc'.keys = rc.keys.syncStep ⟨R, na⟩ now ∧
          ∀ ki ∈ rc.keys.finished.certRequests, ∃ c, get z.parent.ca.children x.ch = some c ∧
            z.parent.ca.bookedExact x.ch (c.nameInParent rc.parentRcn) ki)) →
        ∀ k ∈ rc'.keys.keyIds, k ∈ rc.keys.keyIds := by
      intro rc rc' h3 k hk
      rcases h3 with ⟨heq, _⟩ | ⟨_, _, _, hk', _⟩ | ⟨_, _, R, _, hk', _⟩
      · rw [heq] at hk; exact hk
      · rw [hk'] at hk; exact keyIds_finished_sub _ k hk
      · rw [hk'] at hk; exact keyIds_syncStep _ _ _ k hk
    exact hc.ok.distinct r1 r2 rc1' rc2' k hx1 hx2 (a1.symm.trans hp1) (b1.symm.trans hp2)
      (hsub a3 k hk1) (hsub b3 k hk2)
  · -- the keys about to be revoked are in use
    intro r rc' hg hp k hk
    obtain ⟨rc, hx, a1, a2, a3⟩ := (h.cls r).origin hg
    rw [h.ph] at hp
    have hpx : rc.parent = x.ph := a1.symm.trans hp
    have hwf := hc.ok.wf r rc hx hpx
    rw [h.ch, a2]
    have hkey : k ∈ rc.keys.leaving ∧ k ∉ rc.keys.revoked := by
      rcases a3 with ⟨heq, hnot⟩ | ⟨_, _, _, hk', _⟩ | ⟨_, _, R, _, hk', _⟩
      · rw [heq] at hk
        refine ⟨hk, ?_⟩
        have hnp : rc.keys.hasPending = false := by
          cases hpend : rc.keys.hasPending with
          | false => rfl
          | true => exact absurd ⟨hpx, hpend⟩ hnot
        rw [not_pending_revoked hnp]; exact List.not_mem_nil
      · rw [hk'] at hk; exact leaving_finished _ k hk
      · rw [hk'] at hk; exact leaving_syncStep hwf _ _ k hk
    exact (h.cls r).inuse rc k hx hpx (leaving_sub_keyIds _ k hkey.1) (hc.ok.leaving r rc hx hpx k hkey.1) hkey.2
  · -- certificates on file
    intro r rc' k R hg hp hk ha hse
    rw [h.ch] at ha ⊢
    rw [h.ph] at hp
    have ha' : x.parent.ca.answer x.ch rc'.parentRcn = some R := (h.same.answer _).symm.trans ha
    obtain ⟨rc, hx, a1, a2, a3⟩ := (h.cls r).origin hg
    have hpx : rc.parent = x.ph := a1.symm.trans hp
    have hwf := hc.ok.wf r rc hx hpx
    rcases h.same.child_cases with ⟨e1, _⟩ | ⟨c0, c', e1, e2, _, e4⟩
    · unfold Ca.answer at ha'; rw [e1] at ha'; cases ha'
    · -- a staying key as it was in `x`
      have hold : k ∈ rc.keys.staying → ∃ cc, z.parent.ca.issuedFor x.ch rc'.parentRcn k.id = some cc ∧
          seteq cc.res R = true := by
        intro hks
        obtain ⟨cc, hcc, hres⟩ := hc.booked r rc k R hx hpx hks (by rw [← a2]; exact ha') hse
        rcases h.book (c0.nameInParent rc'.parentRcn) k.id with hsame | hex | ⟨r2, rc2, hx2, hp2, hrev⟩
        · refine ⟨cc, ?_, hres⟩
          rw [issuedFor_eq, e2]; simp only
          rw [nameInParent_congr e4, hsame, a2]
          rw [issuedFor_eq, e1] at hcc; exact hcc
        · have hex' : z.parent.ca.bookedExact x.ch (c'.nameInParent rc'.parentRcn) k.id := by
            rw [nameInParent_congr e4]; exact hex
          obtain ⟨cc', h1, h2⟩ := bookedExact_issuedFor e2 hex' ha
          exact ⟨cc', h1, by rw [h2]; exact seteq_refl _⟩
        · -- revoked keys are not staying keys
          exfalso
          have hrr : r2 = r := hc.ok.distinct r2 r rc2 rc k.id hx2 hx hp2 hpx (revoked_sub_keyIds _ _ hrev)
            (staying_sub_keyIds _ k hks)
          subst hrr
          rw [hx] at hx2; cases hx2
          exact staying_not_revoked hwf k hks hrev
      rcases a3 with ⟨heq, _⟩ | ⟨_, _, hnone, _, _⟩ | ⟨_, hpend, R', hR', hk', hb⟩
      · rw [heq] at hk; exact hold hk
      · rw [← a2, ha'] at hnone; cases hnone
      · rw [← a2, ha'] at hR'; cases hR'
        rw [hk'] at hk
        rcases staying_syncStep hwf hpend _ _ k hk with hrecv | hks
        · obtain ⟨c, hcz, hbz⟩ := hb k.id hrecv
          rw [e2] at hcz; cases hcz
          rw [← a2] at hbz
          obtain ⟨cc', h1, h2⟩ := bookedExact_issuedFor e2 hbz ha
          exact ⟨cc', h1, by rw [h2]; exact seteq_refl _⟩
        · exact hold hks

end KM.CaK
