/- Lemmas about the association-list primitives of `Ca/PubBase.lean`. -/
import KrillModel.Ca.PubBase
set_option linter.unusedSectionVars false
namespace KM.Ca.Pub

universe u v
variable {κ : Type u} {ν : Type v} [DecidableEq κ]

theorem mem_keys {m : List (κ × ν)} {k : κ} : k ∈ keys m ↔ ∃ v, (k, v) ∈ m := by
  simp [keys, List.mem_map]

theorem mem_keys_of_mem {m : List (κ × ν)} {e : κ × ν} (h : e ∈ m) : e.1 ∈ keys m :=
  mem_keys.mpr ⟨e.2, h⟩

theorem keys_filter (m : List (κ × ν)) (p : κ → Bool) :
    keys (m.filter fun e => p e.1) = (keys m).filter p := by
  induction m with
  | nil => rfl
  | cons e m ih =>
    simp only [keys, List.filter_cons, List.map_cons] at ih ⊢
    cases h : p e.1 <;> simp [ih]

theorem keys_append (a b : List (κ × ν)) : keys (a ++ b) = keys a ++ keys b := by simp [keys]

/-- In a map (unique keys) a key has one value. -/
theorem nodup_keys_unique {m : List (κ × ν)} (h : (keys m).Nodup) {k : κ} {v v' : ν}
    (h1 : (k, v) ∈ m) (h2 : (k, v') ∈ m) : v = v' := by
  induction m with
  | nil => simp at h1
  | cons e m ih =>
    simp only [keys, List.map_cons, List.nodup_cons] at h
    rcases List.mem_cons.mp h1 with rfl | h1' <;> rcases List.mem_cons.mp h2 with h2' | h2'
    · exact (Prod.mk.inj h2').2.symm ▸ rfl
    · exact absurd (mem_keys_of_mem h2') h.1
    · subst h2'; exact absurd (mem_keys_of_mem h1') h.1
    · exact ih h.2 h1' h2'

theorem nodup_filter {α : Type u} {l : List α} (h : l.Nodup) (p : α → Bool) : (l.filter p).Nodup :=
  List.Nodup.sublist List.filter_sublist h

/-! ### eraseAll / putAll -/

theorem mem_eraseAll {m : List (κ × ν)} {ks : List κ} {e : κ × ν} :
    e ∈ eraseAll m ks ↔ e ∈ m ∧ e.1 ∉ ks := by
  simp [eraseAll, List.mem_filter]

theorem keys_eraseAll (m : List (κ × ν)) (ks : List κ) :
    keys (eraseAll m ks) = (keys m).filter fun k => decide (k ∉ ks) :=
  keys_filter m fun k => decide (k ∉ ks)

theorem eraseAll_nil (m : List (κ × ν)) : eraseAll m [] = m := by
  simp [eraseAll]

theorem nodup_keys_eraseAll {m : List (κ × ν)} (h : (keys m).Nodup) (ks : List κ) :
    (keys (eraseAll m ks)).Nodup := by
  rw [keys_eraseAll]; exact nodup_filter h _

theorem mem_putAll {m us : List (κ × ν)} {e : κ × ν} :
    e ∈ putAll m us ↔ (e ∈ m ∧ e.1 ∉ keys us) ∨ e ∈ us := by
  simp [putAll, List.mem_append, List.mem_filter]

theorem keys_putAll (m us : List (κ × ν)) :
    keys (putAll m us) = ((keys m).filter fun k => decide (k ∉ keys us)) ++ keys us := by
  unfold putAll
  rw [keys_append]
  congr 1
  exact keys_filter m fun k => decide (k ∉ keys us)

theorem nodup_keys_putAll {m us : List (κ × ν)} (hm : (keys m).Nodup) (hu : (keys us).Nodup) :
    (keys (putAll m us)).Nodup := by
  rw [keys_putAll, List.nodup_append]
  refine ⟨nodup_filter hm _, hu, ?_⟩
  intro a ha b hb hab
  rw [List.mem_filter] at ha
  subst hab
  simp at ha
  exact ha.2 hb

theorem mem_keys_putAll {m us : List (κ × ν)} {k : κ} : k ∈ keys (putAll m us) ↔ k ∈ keys m ∨ k ∈ keys us := by
  rw [keys_putAll, List.mem_append, List.mem_filter]
  by_cases h : k ∈ keys us <;> simp [h]

/-! ### dedup / sameMembers -/

theorem mem_dedup {α : Type u} [DecidableEq α] {l : List α} {a : α} : a ∈ dedup l ↔ a ∈ l := by
  induction l with
  | nil => simp [dedup]
  | cons b l ih =>
    unfold dedup
    by_cases h : b ∈ l
    · simp only [h, if_true, ih, List.mem_cons]
      constructor
      · exact Or.inr
      · rintro (rfl | h') <;> assumption
    · simp only [h, if_false, List.mem_cons, ih]

theorem nodup_dedup {α : Type u} [DecidableEq α] (l : List α) : (dedup l).Nodup := by
  induction l with
  | nil => simp [dedup]
  | cons b l ih =>
    unfold dedup
    by_cases h : b ∈ l
    · simp only [h, if_true]; exact ih
    · simp only [h, if_false, List.nodup_cons]
      exact ⟨fun hb => h (mem_dedup.mp hb), ih⟩

theorem sameMembers_iff {α : Type u} [DecidableEq α] {a b : List α} :
    sameMembers a b = true ↔ ∀ x, x ∈ a ↔ x ∈ b := by
  simp only [sameMembers, Bool.and_eq_true, List.all_eq_true, decide_eq_true_eq]
  constructor
  · rintro ⟨h1, h2⟩ x; exact ⟨h1 x, h2 x⟩
  · intro h; exact ⟨fun x hx => (h x).mp hx, fun x hx => (h x).mpr hx⟩

theorem get?_some_mem' {m : List (κ × ν)} {k : κ} {v : ν} (h : get? m k = some v) : (k, v) ∈ m := by
  unfold get? at h
  cases hf : m.find? (fun e => decide (e.1 = k)) with
  | none => simp [hf] at h
  | some e =>
    simp [hf] at h
    have h1 := List.find?_some hf
    have h2 := List.mem_of_find?_eq_some hf
    simp at h1
    cases e with
    | mk a b => simp at h h1; subst h; subst h1; exact h2

theorem get?_none_iff {m : List (κ × ν)} {k : κ} : get? m k = none ↔ k ∉ keys m := by
  unfold get?
  rw [Option.map_eq_none_iff, List.find?_eq_none]
  simp only [keys, List.mem_map, decide_eq_true_eq, not_exists, not_and, Prod.forall]

theorem get?_of_mem {m : List (κ × ν)} (hn : (keys m).Nodup) {k : κ} {v : ν} (h : (k, v) ∈ m) :
    get? m k = some v := by
  cases hg : get? m k with
  | none => exact absurd (mem_keys_of_mem h) (get?_none_iff.mp hg)
  | some v' => rw [nodup_keys_unique hn (get?_some_mem' hg) h]

theorem has_iff {m : List (κ × ν)} {k : κ} : has m k = true ↔ k ∈ keys m := by simp [has]

end KM.Ca.Pub
