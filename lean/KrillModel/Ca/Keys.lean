/-
Key life cycle of one resource class: `KeyState` of src/server/ca/keys.rs with the `apply_*`
functions of src/server/ca/rc.rs (891-1000) as *partial* functions (`none` = the `panic!` arm)
and the command side (`append_keyroll_initiate`, `append_keyroll_activate`,
`process_keyroll_finish`, routing of `process_received_cert`, `wants_update`,
`append_entitlement_events`).

Abstractions: a key is a number; a received certificate is its resource set (atoms), its
not-after time and the two flags `wants_update` reads; an open `IssuanceRequest` is a flag;
the `RevocationRequest` kept with the old key is determined by the key and dropped;
`old_repo` (repository migration) is not modelled.  Import-free (model files only).
-/
import KrillModel.Base.ResSet
import KrillModel.Base.Exc
namespace KM.CaK
open KM.Res

abbrev KeyId := Nat
abbrev Rcn := Nat
abbrev Handle := Nat

/-- `ReceivedCert` as far as the key logic reads it. -/
structure Cert where
  res : ResSet
  /-- `validity.not_after` (unix seconds) -/
  na : Int := 0
  /-- `ca_repository().ends_with("/")` -/
  slash : Bool := true
  /-- `resources == ResourceSet::all()` (how the code recognises a TA certificate) -/
  all : Bool := false
deriving DecidableEq, Repr

/-- `CertifiedKey` -/
structure CertKey where
  id : KeyId
  cert : Cert
  /-- `request.is_some()` -/
  req : Bool := false
deriving DecidableEq, Repr

/-- `CertifiedKey::create` -/
def CertKey.create (id : KeyId) (cert : Cert) : CertKey := ⟨id, cert, false⟩

/-- `set_incoming_cert`: stores the certificate **and clears the request** (keys.rs:80-83). -/
def CertKey.setIncoming (k : CertKey) (cert : Cert) : CertKey := { k with cert := cert, req := false }

/-- `PendingKey` -/
structure PendKey where
  id : KeyId
  req : Bool := false
deriving DecidableEq, Repr

/-- `KeyState` (keys.rs:309-326).  In `rollOld` the second key is `OldKey.key`. -/
inductive KeyState where
  | pending (p : PendKey)
  | active (c : CertKey)
  | rollPending (p : PendKey) (c : CertKey)
  | rollNew (n : CertKey) (c : CertKey)
  | rollOld (c : CertKey) (o : CertKey)
deriving DecidableEq, Repr

inductive KVar where
  | pending | active | rollPending | rollNew | rollOld
deriving DecidableEq, Repr

def KeyState.variant : KeyState → KVar
  | .pending _ => .pending
  | .active _ => .active
  | .rollPending .. => .rollPending
  | .rollNew .. => .rollNew
  | .rollOld .. => .rollOld

/-- `ResourceClass::current_key` -/
def KeyState.current : KeyState → Option CertKey
  | .pending _ => none
  | .active c => some c
  | .rollPending _ c => some c
  | .rollNew _ c => some c
  | .rollOld c _ => some c

/-- `KeyState::new_key` -/
def KeyState.newKey : KeyState → Option CertKey
  | .rollNew n _ => some n
  | _ => none

/-- All key identifiers of the state (`knows_key`). -/
def KeyState.keyIds : KeyState → List KeyId
  | .pending p => [p.id]
  | .active c => [c.id]
  | .rollPending p c => [p.id, c.id]
  | .rollNew n c => [n.id, c.id]
  | .rollOld c o => [c.id, o.id]

def KeyState.knows (ks : KeyState) (ki : KeyId) : Bool := ks.keyIds.contains ki

/-- `cert_requests()`: keys with an open request, in the order the code pushes them. -/
def KeyState.certRequests : KeyState → List KeyId
  | .pending p => if p.req then [p.id] else []
  | .active c => if c.req then [c.id] else []
  | .rollPending p c => (if p.req then [p.id] else []) ++ (if c.req then [c.id] else [])
  | .rollNew n c => (if n.req then [n.id] else []) ++ (if c.req then [c.id] else [])
  | .rollOld c o => (if c.req then [c.id] else []) ++ (if o.req then [o.id] else [])

/-- `revoke_request()`: the old key waiting for revocation. -/
def KeyState.revokeRequest : KeyState → Option KeyId
  | .rollOld _ o => some o.id
  | _ => none

/-- The keys that hold a certificate of the parent: every key but a pending one (`CertifiedKey` vs `PendingKey`). -/
def KeyState.certifiedIds : KeyState → List KeyId
  | .pending _ => []
  | .active c => [c.id]
  | .rollPending _ c => [c.id]
  | .rollNew n c => [n.id, c.id]
  | .rollOld c o => [c.id, o.id]

/-- `KeyState::revoke` (keys.rs): the keys a revocation request is made for when the class goes away (the class is
removed at the parent, the parent is removed, the CA is deleted, the class is dropped), in the order of the requests. -/
def KeyState.revokeKeys : KeyState → List KeyId
  | .pending _ => []
  | .active c => [c.id]
  | .rollPending _ c => [c.id]
  | .rollNew n c => [n.id, c.id]
  | .rollOld c o => [c.id, o.id]

/-- `ResourceClass::has_pending_requests` -/
def KeyState.hasPending (ks : KeyState) : Bool :=
  !ks.certRequests.isEmpty || ks.revokeRequest.isSome

/-- A roll is in progress. -/
def KeyState.rolling : KeyState → Bool
  | .rollPending .. => true
  | .rollNew .. => true
  | .rollOld .. => true
  | _ => false

/-! ## Events (key part) -/

inductive KeyEv where
  /-- `CertificateRequested { ki }` -/
  | requested (ki : KeyId)
  /-- `CertificateReceived { ki, rcvd_cert }` -/
  | received (ki : KeyId) (cert : Cert)
  /-- `KeyRollPendingKeyAdded { pending_key_id }` -/
  | pendingAdded (ki : KeyId)
  /-- `KeyPendingToNew { new_key }` -/
  | pendingToNew (k : CertKey)
  /-- `KeyPendingToActive { current_key }` -/
  | pendingToActive (k : CertKey)
  /-- `KeyRollActivated { revoke_req }` -/
  | activated
  /-- `KeyRollFinished` -/
  | finished
  /-- `UnexpectedKeyFound { revoke_req }` -/
  | unexpected (ki : KeyId)
deriving DecidableEq, Repr

/-- `KeyState::apply_issuance_request` (keys.rs:335-372) – total. -/
def KeyState.applyRequested (ks : KeyState) (ki : KeyId) : KeyState :=
  match ks with
  | .pending p => .pending { p with req := true }
  | .active c => .active { c with req := true }
  | .rollPending p c =>
    if p.id = ki then .rollPending { p with req := true } c else .rollPending p { c with req := true }
  | .rollNew n c =>
    if n.id = ki then .rollNew { n with req := true } c else .rollNew n { c with req := true }
  | .rollOld c o =>
    if c.id = ki then .rollOld { c with req := true } o else .rollOld c { o with req := true }

/-- `apply_received_cert` (rc.rs:891-923); `none` = `panic!("Would have received KeyPendingToActive event")`. -/
def KeyState.applyReceived (ks : KeyState) (ki : KeyId) (cert : Cert) : Option KeyState :=
  match ks with
  | .pending _ => none
  | .active c => some (.active (c.setIncoming cert))
  | .rollPending p c => some (.rollPending p (c.setIncoming cert))
  | .rollNew n c =>
    if n.id = ki then some (.rollNew (n.setIncoming cert) c) else some (.rollNew n (c.setIncoming cert))
  | .rollOld c o =>
    if c.id = ki then some (.rollOld (c.setIncoming cert) o) else some (.rollOld c (o.setIncoming cert))

/-- `apply_pending_key_id_added` (rc.rs:928-939) -/
def KeyState.applyPendingAdded (ks : KeyState) (ki : KeyId) : Option KeyState :=
  match ks with
  | .active c => some (.rollPending ⟨ki, false⟩ c)
  | _ => none

/-- `apply_pending_key_to_new` (rc.rs:944-953) -/
def KeyState.applyPendingToNew (ks : KeyState) (n : CertKey) : Option KeyState :=
  match ks with
  | .rollPending _ c => some (.rollNew n c)
  | _ => none

/-- `apply_pending_key_to_active` (rc.rs:958-967) -/
def KeyState.applyPendingToActive (ks : KeyState) (n : CertKey) : Option KeyState :=
  match ks with
  | .pending _ => some (.active n)
  | _ => none

/-- `apply_new_key_activated` (rc.rs:972-983) -/
def KeyState.applyActivated (ks : KeyState) : Option KeyState :=
  match ks with
  | .rollNew n c => some (.rollOld n c)
  | _ => none

/-- `apply_old_key_removed` (rc.rs:990-1000) -/
def KeyState.applyFinished (ks : KeyState) : Option KeyState :=
  match ks with
  | .rollOld c _ => some (.active c)
  | _ => none

/-- The key part of `CertAuth::apply` for one class. -/
def KeyState.apply (ks : KeyState) : KeyEv → Option KeyState
  | .requested ki => some (ks.applyRequested ki)
  | .received ki cert => ks.applyReceived ki cert
  | .pendingAdded ki => ks.applyPendingAdded ki
  | .pendingToNew k => ks.applyPendingToNew k
  | .pendingToActive k => ks.applyPendingToActive k
  | .activated => ks.applyActivated
  | .finished => ks.applyFinished
  | .unexpected _ => some ks

def KeyState.applyAll (ks : KeyState) : List KeyEv → Option KeyState
  | [] => some ks
  | e :: es => (ks.apply e).bind (·.applyAll es)

/-! ## Command side -/

inductive KeyErr where
  /-- `Error::KeyUseNoMatch` -/
  | noMatch
  /-- `Error::KeyRollActivatePendingRequests` -/
  | pendingRequests
  /-- `Error::KeyUseNoNewKey` -/
  | noNewKey
  /-- `Error::KeyUseNoOldKey` -/
  | noOldKey
  /-- `Error::KeyUseNoCurrentKey` -/
  | noCurrentKey
deriving DecidableEq, Repr

/-- `KeyState::append_keyroll_initiate` (keys.rs:725-759): only from `Active`; the new key is
an input (`signer.create_key()`). -/
def KeyState.keyrollInitiate (ks : KeyState) (fresh : KeyId) : List KeyEv :=
  match ks with
  | .active _ => [.pendingAdded fresh, .requested fresh]
  | _ => []

/-- `ResourceClass::append_keyroll_activate` (rc.rs:560-638, key part) with
`KeyState::append_keyroll_activate` (keys.rs:765-792): nothing without a new key, refused while
either key has an open request. -/
def KeyState.keyrollActivate (ks : KeyState) : Except KeyErr (List KeyEv) :=
  match ks with
  | .rollNew n c => if n.req || c.req then .error .pendingRequests else .ok [.activated]
  | _ => .ok []

/-- `process_keyroll_finish` (rc.rs:641-650) -/
def KeyState.keyrollFinish (ks : KeyState) : Except KeyErr KeyEv :=
  match ks with
  | .rollOld .. => .ok .finished
  | _ => .error .noOldKey

/-- Where `process_received_cert` (rc.rs:203-275) sends a certificate for key `ki`. -/
inductive Route where
  /-- pending key of a new class → `KeyPendingToActive` -/
  | toActive
  /-- pending key of a roll → `KeyPendingToNew` -/
  | toNew
  /-- new key of a roll → bare `CertificateReceived` -/
  | newCert
  /-- `process_rcvd_cert_current` for the given current key -/
  | current (c : CertKey)
deriving DecidableEq, Repr

def KeyState.route (ks : KeyState) (ki : KeyId) : Except KeyErr Route :=
  match ks with
  | .pending p => if ki ≠ p.id then .error .noMatch else .ok .toActive
  | .active c => if ki ≠ c.id then .error .noMatch else .ok (.current c)
  | .rollPending p c =>
    if ki = p.id then .ok .toNew else if ki ≠ c.id then .error .noMatch else .ok (.current c)
  | .rollNew n c =>
    if ki = n.id then .ok .newCert else if ki ≠ c.id then .error .noMatch else .ok (.current c)
  | .rollOld c _ => if ki ≠ c.id then .error .noMatch else .ok (.current c)

/-- `CertifiedKey::wants_update` (keys.rs:95-214).  The two `f64` ratio tests
`e/c < 0.9` and `e/c > 1.1` are restated as `10·e < 9·c` and `10·e > 11·c`; for `c > 0` and
`|e|, |c| < 2^45` the correctly rounded quotient compares with the constants `0.9_f64`,
`1.1_f64` exactly as the rationals do (sampled at the boundaries by the `pure` stream). -/
def CertKey.wantsUpdate (k : CertKey) (newRes : ResSet) (newNa now : Int) : Bool :=
  if !k.cert.slash then true
  else if !(seteq newRes k.cert.res) then true
  else
    let rc := k.cert.na - now
    let re := newNa - now
    if re ≤ 0 then false
    else if rc = re then false
    else if rc > 0 && decide (10 * re < 9 * rc) then true
    else if decide (rc ≤ 0) || decide (10 * re > 11 * rc) || decide (re - rc ≥ 604800) then true
    else if k.cert.all then true
    else false

/-- One class of a `ResourceClassListResponse` as the child reads it. -/
structure Entitlement where
  /-- class name at the parent -/
  rcn : Rcn
  res : ResSet
  na : Int
  /-- keys of the certificates listed as issued -/
  issued : List KeyId := []
deriving DecidableEq, Repr

/-- `keys_for_requests` of `append_entitlement_events` (keys.rs:441-520), in order.  Note the
`RollOld` arm: when the **old** key wants an update the request is made for the *current* key
id (keys.rs:508-517). -/
def KeyState.requestKeys (ks : KeyState) (ent : Entitlement) (now : Int) : List KeyId :=
  match ks with
  | .pending p => [p.id]
  | .active c => if c.wantsUpdate ent.res ent.na now then [c.id] else []
  | .rollPending p c => [p.id] ++ (if c.wantsUpdate ent.res ent.na now then [c.id] else [])
  | .rollNew n c =>
    (if n.wantsUpdate ent.res ent.na now then [n.id] else []) ++
    (if c.wantsUpdate ent.res ent.na now then [c.id] else [])
  | .rollOld c o =>
    (if c.wantsUpdate ent.res ent.na now then [c.id] else []) ++
    (if o.wantsUpdate ent.res ent.na now then [c.id] else [])

/-- `KeyState::append_entitlement_events`: requests, then `UnexpectedKeyFound` for every listed
key the class does not know. -/
def KeyState.entitlementEvents (ks : KeyState) (ent : Entitlement) (now : Int) : List KeyEv :=
  (ks.requestKeys ent now).map .requested ++
  (ent.issued.filter (fun k => !ks.knows k)).map .unexpected

/-! ## Non-vacuity -/

private def c123 : Cert := { res := [1, 2, 3], na := 1000000 }

private def act1 : KeyState := .active ⟨1, c123, false⟩

/-- A complete roll: initiate, certificate for the new key, activate, finish. -/
example :
    (act1.applyAll (act1.keyrollInitiate 2)) = some (.rollPending ⟨2, true⟩ ⟨1, c123, false⟩) ∧
    (KeyState.rollPending ⟨2, true⟩ ⟨1, c123, false⟩).route 2 = .ok .toNew ∧
    (KeyState.rollNew ⟨2, c123, false⟩ ⟨1, c123, false⟩).keyrollActivate = .ok [.activated] ∧
    (KeyState.rollNew ⟨2, c123, true⟩ ⟨1, c123, false⟩).keyrollActivate = .error .pendingRequests ∧
    (KeyState.rollOld ⟨2, c123, false⟩ ⟨1, c123, false⟩).apply .finished =
      some (.active ⟨2, c123, false⟩) := by decide

/-- The panic arms. -/
example :
    (KeyState.pending ⟨1, true⟩).apply (.received 1 c123) = none ∧
    (KeyState.rollNew ⟨2, c123, false⟩ ⟨1, c123, false⟩).apply (.pendingAdded 3) = none ∧
    (KeyState.active ⟨1, c123, false⟩).apply .finished = none := by decide

private def k1000 : CertKey := ⟨1, { res := [1], na := 1000 }, false⟩

/-- `wants_update` at the 10 % boundaries (remaining 1000 s on the current certificate). -/
example :
    k1000.wantsUpdate [1] 900 0 = false ∧ k1000.wantsUpdate [1] 899 0 = true ∧
    k1000.wantsUpdate [1] 1100 0 = false ∧ k1000.wantsUpdate [1] 1101 0 = true ∧
    k1000.wantsUpdate [1] 1000 0 = false ∧ k1000.wantsUpdate [1, 2] 1000 0 = true ∧
    k1000.wantsUpdate [1] 0 0 = false := by decide

end KM.CaK
