/-
Helper lemmas for C04 (`roll_completes`): a command whose `process` succeeds is stored in every
reachable state, and sufficient conditions for the activation of a class to succeed.
No property statements.
-/
import KrillModel.Ca.LemmasReach
import KrillModel.Ca.LemmasRoll
namespace KM.CaK
open KM.Res KM.AMap

/-- In a reachable state a successful `process` (for a revocation request: of a class that is past
`pending`) is always stored: `apply` does not panic and the listener accepts. -/
theorem stored_of_process {s : Sys} (h : Reachable s) {c : Cmd} {evs : List Ev} (hok : RevokeOk s.ca c)
    (hp : s.ca.process c = .ok evs) :
    ∃ s', s.exec c = .stored evs s' ∧ s.ca.applyAll evs = some s'.ca ∧ Reachable s' := by
  have hinv := reachable_inv h
  obtain ⟨s', hrun, _⟩ := readySeq_run hinv (process_readySeq hinv hok hp)
  have hex : s.exec c = .stored evs s' := exec_stored_iff.mpr ⟨hp, hrun⟩
  refine ⟨s', hex, ?_, ?_⟩
  · obtain ⟨ca', o'⟩ := s'
    exact (runEvs_some_iff.mp hrun).1
  · have := Reachable.step c h
    unfold Sys.next at this; rw [hex] at this; exact this

theorem forClasses_ok_of_all {f : Rcn → Rc → Except Err (List Ev)} {l : List (Rcn × Rc)}
    (h : ∀ p ∈ l, ∃ evs, f p.1 p.2 = .ok evs) : ∃ evs, forClasses f l = .ok evs := by
  induction l with
  | nil => exact ⟨[], rfl⟩
  | cons p ps ih =>
    obtain ⟨a, ha⟩ := h p (List.mem_cons_self ..)
    obtain ⟨b, hb⟩ := ih (fun q hq => h q (List.mem_cons_of_mem _ hq))
    exact ⟨a ++ b, by simp only [forClasses, ha, hb]⟩

/-- A child certificate that carries its limit (or none) and lies inside the signing certificate
is re-issued without error. -/
theorem reissue_ok {cc : ChildCert} {signing : Cert} (na : Int)
    (hl : cc.limit = none ∨ cc.limit = some cc.res) (hs : subset cc.res signing.res = true) :
    ∃ cc', reissue cc none signing na = .ok cc' := by
  rcases hl with hl | hl
  · exact ⟨{ res := cc.res, na := na }, by simp [reissue, makeIssued, applyLimit, hl, hs]⟩
  · exact ⟨{ res := cc.res, limit := some cc.res, na := na }, by
      simp [reissue, makeIssued, applyLimit, hl, hs, subset_refl]⟩

theorem reissueAll_ok {l : List (KeyId × ChildCert)} {signing : Cert} (na : Int)
    (h : ∀ p ∈ l, (p.2.limit = none ∨ p.2.limit = some p.2.res) ∧ subset p.2.res signing.res = true) :
    ∃ r, reissueAll l signing na = .ok r := by
  induction l with
  | nil => exact ⟨[], rfl⟩
  | cons p t ih =>
    obtain ⟨k, cc⟩ := p
    obtain ⟨cc', hcc⟩ := reissue_ok na (h (k, cc) (List.mem_cons_self ..)).1 (h (k, cc) (List.mem_cons_self ..)).2
    obtain ⟨r, hr⟩ := ih (fun q hq => h q (List.mem_cons_of_mem _ hq))
    exact ⟨(k, cc') :: r, by simp only [reissueAll, hcc, hr]⟩

/-- What makes the activation of one class succeed: it is not in `rollNew` (nothing to do), or no
request is open for its two keys and every child certificate (issued or suspended) carries its
limit and lies inside the new key's certificate. -/
def Rc.activatable (rc : Rc) : Prop :=
  match rc.keys with
  | .rollNew n c =>
    n.req = false ∧ c.req = false ∧
    (∀ p ∈ rc.certs.issued ++ rc.certs.suspended,
      (p.2.limit = none ∨ p.2.limit = some p.2.res) ∧ subset p.2.res n.cert.res = true)
  | _ => True

theorem activateClass_ok {r : Rcn} {rc : Rc} (na : Int) (h : rc.activatable) :
    ∃ evs, activateClass r rc na = .ok evs := by
  unfold activateClass
  cases hk : rc.keys with
  | rollNew n c =>
    simp only [Rc.activatable, hk] at h
    obtain ⟨hn, hc, hall⟩ := h
    obtain ⟨iss, hi⟩ := reissueAll_ok (signing := n.cert) na (fun p hp => hall p (List.mem_append_left _ hp))
    obtain ⟨sus, hsu⟩ := reissueAll_ok (signing := n.cert) na (fun p hp => hall p (List.mem_append_right _ hp))
    simp only [KeyState.newKey, KeyState.keyrollActivate, hn, hc, Bool.or_self, Bool.false_eq_true, if_false,
      ChildCerts.activateKey, hi, hsu]
    exact ⟨_, rfl⟩
  | pending _ => exact ⟨[], by simp [KeyState.newKey]⟩
  | active _ => exact ⟨[], by simp [KeyState.newKey]⟩
  | rollPending _ _ => exact ⟨[], by simp [KeyState.newKey]⟩
  | rollOld _ _ => exact ⟨[], by simp [KeyState.newKey]⟩

end KM.CaK
