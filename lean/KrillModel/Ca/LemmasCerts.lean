/-
Helper lemmas for C02: what `ChildCertificates::apply` of an update, `shrink_overclaiming` and
`activate_key` do to the `issued` map, and the class-level invariant "every issued child
certificate lies inside the current key's certificate".  No property statements.
-/
import KrillModel.Ca.Preds
namespace KM.CaK
open KM.Res KM.AMap

/-! ## `applyUpd` on the issued map -/

theorem get_issued_foldl_addIssued (l : List (KeyId × ChildCert)) (cs : ChildCerts) (k : KeyId) (x : ChildCert)
    (h : get (l.foldl ChildCerts.addIssued cs).issued k = some x) :
    (k, x) ∈ l ∨ (get cs.issued k = some x ∧ k ∉ l.map (·.1)) := by
  induction l generalizing cs with
  | nil => exact Or.inr ⟨h, by simp⟩
  | cons p t ih =>
    simp only [List.foldl_cons] at h
    rcases ih _ h with hm | ⟨hg, hn⟩
    · exact Or.inl (List.mem_cons_of_mem _ hm)
    · simp only [ChildCerts.addIssued, get_set] at hg
      by_cases hk : p.1 = k
      · simp only [hk, if_true, Option.some.injEq] at hg
        left
        have : p = (k, x) := by cases p; simp_all
        rw [this]; exact List.mem_cons_self ..
      · simp only [hk, if_false] at hg
        right
        refine ⟨hg, ?_⟩
        simp only [List.map_cons, List.mem_cons, not_or]
        exact ⟨fun h => hk h.symm, hn⟩

theorem suspended_foldl_addIssued (l : List (KeyId × ChildCert)) (cs : ChildCerts) :
    (l.foldl ChildCerts.addIssued cs).suspended = l.foldl (fun m a => del m a.1) cs.suspended := by
  induction l generalizing cs with
  | nil => rfl
  | cons p t ih => simp only [List.foldl_cons, ih, ChildCerts.addIssued]

theorem get_issued_foldl_unsuspend (l : List (KeyId × ChildCert)) (cs : ChildCerts) (k : KeyId) (x : ChildCert)
    (h : get (l.foldl ChildCerts.unsuspend cs).issued k = some x) :
    (k, x) ∈ l ∨ (get cs.issued k = some x ∧ k ∉ l.map (·.1)) := by
  induction l generalizing cs with
  | nil => exact Or.inr ⟨h, by simp⟩
  | cons p t ih =>
    simp only [List.foldl_cons] at h
    rcases ih _ h with hm | ⟨hg, hn⟩
    · exact Or.inl (List.mem_cons_of_mem _ hm)
    · simp only [ChildCerts.unsuspend, get_set] at hg
      by_cases hk : p.1 = k
      · simp only [hk, if_true, Option.some.injEq] at hg
        left
        have : p = (k, x) := by cases p; simp_all
        rw [this]; exact List.mem_cons_self ..
      · simp only [hk, if_false] at hg
        right
        refine ⟨hg, ?_⟩
        simp only [List.map_cons, List.mem_cons, not_or]
        exact ⟨fun h => hk h.symm, hn⟩

theorem get_issued_foldl_removeRevoked (l : List KeyId) (cs : ChildCerts) (k : KeyId) (x : ChildCert)
    (h : get (l.foldl ChildCerts.removeRevoked cs).issued k = some x) :
    get cs.issued k = some x ∧ k ∉ l := by
  induction l generalizing cs with
  | nil => exact ⟨h, by simp⟩
  | cons p t ih =>
    simp only [List.foldl_cons] at h
    obtain ⟨hg, hn⟩ := ih _ h
    simp only [ChildCerts.removeRevoked, get_del] at hg
    by_cases hk : p = k
    · simp [hk] at hg
    · simp only [hk, if_false] at hg
      exact ⟨hg, by simp only [List.mem_cons, not_or]; exact ⟨fun h => hk h.symm, hn⟩⟩

theorem get_issued_foldl_suspend (l : List (KeyId × ChildCert)) (cs : ChildCerts) (k : KeyId) (x : ChildCert)
    (h : get (l.foldl ChildCerts.suspend cs).issued k = some x) :
    get cs.issued k = some x ∧ k ∉ l.map (·.1) := by
  induction l generalizing cs with
  | nil => exact ⟨h, by simp⟩
  | cons p t ih =>
    simp only [List.foldl_cons] at h
    obtain ⟨hg, hn⟩ := ih _ h
    simp only [ChildCerts.suspend, get_del] at hg
    by_cases hk : p.1 = k
    · simp [hk] at hg
    · simp only [hk, if_false] at hg
      exact ⟨hg, by simp only [List.map_cons, List.mem_cons, not_or]; exact ⟨fun h => hk h.symm, hn⟩⟩

/-- Where an entry of the issued map comes from after an update was applied. -/
theorem applyUpd_issued_cases (cs : ChildCerts) (u : CertUpd) (k : KeyId) (x : ChildCert)
    (h : get (cs.applyUpd u).issued k = some x) :
    k ∉ u.removed ∧ k ∉ u.suspended.map (·.1) ∧
    ((k, x) ∈ u.unsuspended ∨
     (k ∉ u.unsuspended.map (·.1) ∧
      ((k, x) ∈ u.issued ∨ (get cs.issued k = some x ∧ k ∉ u.issued.map (·.1))))) := by
  simp only [ChildCerts.applyUpd] at h
  obtain ⟨h1, hns⟩ := get_issued_foldl_suspend _ _ _ _ h
  obtain ⟨h2, hnr⟩ := get_issued_foldl_removeRevoked _ _ _ _ h1
  refine ⟨hnr, hns, ?_⟩
  rcases get_issued_foldl_unsuspend _ _ _ _ h2 with hm | ⟨h3, hnu⟩
  · exact Or.inl hm
  · exact Or.inr ⟨hnu, get_issued_foldl_addIssued _ _ _ _ h3⟩

/-! ## `shrink_overclaiming` -/

theorem makeIssued_subset {res : ResSet} {l : Limit} {signing : Cert} {na : Int} {cc : ChildCert}
    (h : makeIssued res l signing na = .ok cc) : subset cc.res signing.res = true := by
  unfold makeIssued at h
  cases ha : applyLimit l res with
  | error e => simp [ha] at h
  | ok r =>
    simp only [ha] at h
    split at h
    · rename_i hs; cases h; exact hs
    · cases h

theorem reissue_subset {prev : ChildCert} {upd : Option ResSet} {signing : Cert} {na : Int} {cc : ChildCert}
    (h : reissue prev upd signing na = .ok cc) : subset cc.res signing.res = true :=
  makeIssued_subset h

/-- `shrinkList`: what is re-issued lies inside the received certificate; every over-claiming
entry is re-issued or removed; nothing else is touched. -/
theorem shrinkList_spec {l : List (KeyId × ChildCert)} {rcvd : Cert} {na : Int}
    {iss : List (KeyId × ChildCert)} {rem : List KeyId} (h : shrinkList l rcvd na = .ok (iss, rem)) :
    (∀ p ∈ iss, subset p.2.res rcvd.res = true) ∧
    (∀ p ∈ l, subset p.2.res rcvd.res = false → p.1 ∈ rem ∨ p.1 ∈ iss.map (·.1)) ∧
    (∀ k, k ∈ rem ∨ k ∈ iss.map (·.1) → k ∈ l.map (·.1)) := by
  induction l generalizing iss rem with
  | nil =>
    simp only [shrinkList, Except.ok.injEq, Prod.mk.injEq] at h
    obtain ⟨rfl, rfl⟩ := h
    exact ⟨(by intro p hp; cases hp), (by intro p hp; cases hp), (by intro k hk; simp at hk)⟩
  | cons p t ih =>
    obtain ⟨k, cc⟩ := p
    simp only [shrinkList] at h
    cases hr : cc.reduced rcvd.res with
    | none =>
      simp only [hr] at h
      obtain ⟨h1, h2, h3⟩ := ih h
      have hsub : subset cc.res rcvd.res = true := by
        unfold ChildCert.reduced at hr
        split at hr
        · assumption
        · cases hr
      refine ⟨h1, ?_, ?_⟩
      · intro q hq hov
        rcases List.mem_cons.mp hq with rfl | hq
        · simp [hsub] at hov
        · exact h2 q hq hov
      · intro k' hk'
        simp only [List.map_cons, List.mem_cons]
        exact Or.inr (h3 k' hk')
    | some r =>
      simp only [hr] at h
      split at h
      · cases hrest : shrinkList t rcvd na with
        | error e => simp [hrest] at h
        | ok pr =>
          obtain ⟨iss', rem'⟩ := pr
          simp only [hrest, Except.ok.injEq, Prod.mk.injEq] at h
          obtain ⟨rfl, rfl⟩ := h
          obtain ⟨h1, h2, h3⟩ := ih hrest
          refine ⟨h1, ?_, ?_⟩
          · intro q hq hov
            rcases List.mem_cons.mp hq with rfl | hq
            · exact Or.inl (List.mem_cons_self ..)
            · rcases h2 q hq hov with h | h
              · exact Or.inl (List.mem_cons_of_mem _ h)
              · exact Or.inr h
          · intro k' hk'
            simp only [List.map_cons, List.mem_cons] at hk' ⊢
            rcases hk' with (rfl | hk') | hk'
            · exact Or.inl rfl
            · exact Or.inr (h3 k' (Or.inl hk'))
            · exact Or.inr (h3 k' (Or.inr hk'))
      · cases hre : reissue cc (some r) rcvd na with
        | error e => simp [hre] at h
        | ok c' =>
          simp only [hre] at h
          cases hrest : shrinkList t rcvd na with
          | error e => simp [hrest] at h
          | ok pr =>
            obtain ⟨iss', rem'⟩ := pr
            simp only [hrest, Except.ok.injEq, Prod.mk.injEq] at h
            obtain ⟨rfl, rfl⟩ := h
            obtain ⟨h1, h2, h3⟩ := ih hrest
            refine ⟨?_, ?_, ?_⟩
            · intro q hq
              rcases List.mem_cons.mp hq with rfl | hq
              · exact reissue_subset hre
              · exact h1 q hq
            · intro q hq hov
              rcases List.mem_cons.mp hq with rfl | hq
              · exact Or.inr (by simp)
              · rcases h2 q hq hov with h | h
                · exact Or.inl h
                · exact Or.inr (by simp only [List.map_cons, List.mem_cons]; exact Or.inr h)
            · intro k' hk'
              simp only [List.map_cons, List.mem_cons] at hk' ⊢
              rcases hk' with hk' | rfl | hk'
              · exact Or.inr (h3 k' (Or.inl hk'))
              · exact Or.inl rfl
              · exact Or.inr (h3 k' (Or.inr hk'))

theorem reissueAll_spec {l : List (KeyId × ChildCert)} {signing : Cert} {na : Int}
    {out : List (KeyId × ChildCert)} (h : reissueAll l signing na = .ok out) :
    (∀ p ∈ out, subset p.2.res signing.res = true) ∧ out.map (·.1) = l.map (·.1) := by
  induction l generalizing out with
  | nil => simp only [reissueAll, Except.ok.injEq] at h; subst h; exact ⟨(by intro p hp; cases hp), rfl⟩
  | cons p t ih =>
    obtain ⟨k, cc⟩ := p
    simp only [reissueAll] at h
    cases hre : reissue cc none signing na with
    | error e => simp [hre] at h
    | ok c' =>
      simp only [hre] at h
      cases hrest : reissueAll t signing na with
      | error e => simp [hrest] at h
      | ok r =>
        simp only [hrest, Except.ok.injEq] at h; subst h
        obtain ⟨h1, h2⟩ := ih hrest
        refine ⟨?_, by simp [h2]⟩
        intro q hq
        rcases List.mem_cons.mp hq with rfl | hq
        · exact reissue_subset hre
        · exact h1 q hq

/-! ## The class invariant "issued ⊆ current certificate" -/

/-- Every issued child certificate of the class lies inside the current key's certificate; a
class without current key has issued nothing. -/
def NoOver (rc : Rc) : Prop :=
  match rc.keys.current with
  | some c => ∀ k cc, get rc.certs.issued k = some cc → subset cc.res c.cert.res = true
  | none => ∀ k, get rc.certs.issued k = none

theorem noOver_create (p : Handle) (pr : Rcn) (k : KeyId) : NoOver (Rc.create p pr k) := by
  simp [NoOver, Rc.create, KeyState.current]

/-- A key-state change that keeps the current key's certificate resources (as a set). -/
theorem noOver_keys {rc : Rc} {ks' : KeyState} (h : NoOver rc)
    (hcur : match rc.keys.current, ks'.current with
      | some c, some c' => seteq c'.cert.res c.cert.res = true
      | none, none => True
      | none, some _ => True
      | some _, none => False) : NoOver { rc with keys := ks' } := by
  unfold NoOver at h ⊢
  simp only
  cases hc : rc.keys.current with
  | none =>
    rw [hc] at h
    cases hc' : ks'.current with
    | none => exact h
    | some c' => intro k cc hk; rw [h k] at hk; cases hk
  | some c =>
    rw [hc] at h hcur
    cases hc' : ks'.current with
    | none => rw [hc'] at hcur; exact absurd hcur id
    | some c' =>
      rw [hc'] at hcur
      intro k cc hk
      exact subset_trans (h k cc hk) (seteq_subset_right hcur)

/-- An update whose new entries lie inside the current certificate keeps the invariant. -/
theorem noOver_applyUpd {rc : Rc} {c : CertKey} (u : CertUpd) (h : NoOver rc) (hc : rc.keys.current = some c)
    (hu : ∀ p, p ∈ u.issued ∨ p ∈ u.unsuspended → subset p.2.res c.cert.res = true) :
    NoOver { rc with certs := rc.certs.applyUpd u } := by
  unfold NoOver at h ⊢
  simp only [hc] at h ⊢
  intro k cc hk
  obtain ⟨_, _, hcase⟩ := applyUpd_issued_cases _ _ _ _ hk
  rcases hcase with hm | ⟨_, hm | ⟨hg, _⟩⟩
  · exact hu (k, cc) (Or.inr hm)
  · exact hu (k, cc) (Or.inl hm)
  · exact h k cc hg

/-- Removing a revoked key keeps the invariant. -/
theorem noOver_removeRevoked {rc : Rc} (k0 : KeyId) (h : NoOver rc) :
    NoOver { rc with certs := rc.certs.removeRevoked k0 } := by
  unfold NoOver at h ⊢
  simp only [ChildCerts.removeRevoked]
  cases hc : rc.keys.current with
  | none =>
    rw [hc] at h
    intro k; simp only [get_del]; split
    · rfl
    · exact h k
  | some c =>
    rw [hc] at h
    intro k cc hk
    simp only [get_del] at hk
    split at hk
    · cases hk
    · exact h k cc hk

theorem noOver_products {rc : Rc} (u : ProdUpd) (h : NoOver rc) : NoOver (rc.applyProducts u) := h

/-- The received-certificate chunk for the current key with changed resources: the new
certificate, then the shrink computed from the old record. -/
theorem noOver_shrink {rc : Rc} {c : CertKey} {cert : Cert} {na : Int} {upd : CertUpd} {ks' : KeyState}
    (hks : ks'.current = some (c.setIncoming cert))
    (hsh : rc.certs.shrinkOverclaiming cert na = .ok upd) :
    NoOver { rc with keys := ks', certs := rc.certs.applyUpd upd } := by
  unfold NoOver
  simp only [hks, CertKey.setIncoming]
  unfold ChildCerts.shrinkOverclaiming at hsh
  cases h1 : shrinkList rc.certs.issued cert na with
  | error e => simp [h1] at hsh
  | ok pr1 =>
    obtain ⟨iss, rem1⟩ := pr1
    simp only [h1] at hsh
    cases h2 : shrinkList rc.certs.suspended cert na with
    | error e => simp [h2] at hsh
    | ok pr2 =>
      obtain ⟨sus, rem2⟩ := pr2
      simp only [h2, Except.ok.injEq] at hsh; subst hsh
      obtain ⟨hiss, hover, _⟩ := shrinkList_spec h1
      intro k cc hk
      obtain ⟨hnr, _, hcase⟩ := applyUpd_issued_cases _ _ _ _ hk
      simp only at hnr hcase
      rcases hcase with hm | ⟨_, hm | ⟨hg, hni⟩⟩
      · cases hm
      · exact hiss _ hm
      · -- untouched: it was not over-claiming
        cases hs : subset cc.res cert.res with
        | true => rfl
        | false =>
          rcases hover (k, cc) (mem_of_get hg) hs with h | h
          · exact absurd (List.mem_append_left _ h) hnr
          · exact absurd h hni

/-- The activation chunk: the new key becomes current, everything issued is re-issued under it. -/
theorem noOver_activate {rc : Rc} {n : CertKey} {na : Int} {upd : CertUpd} {ks' : KeyState}
    (hks : ks'.current = some n)
    (hac : rc.certs.activateKey n.cert na = .ok upd) :
    NoOver { rc with keys := ks', certs := rc.certs.applyUpd upd } := by
  unfold NoOver
  simp only [hks]
  unfold ChildCerts.activateKey at hac
  cases h1 : reissueAll rc.certs.issued n.cert na with
  | error e => simp [h1] at hac
  | ok iss =>
    simp only [h1] at hac
    cases h2 : reissueAll rc.certs.suspended n.cert na with
    | error e => simp [h2] at hac
    | ok sus =>
      simp only [h2, Except.ok.injEq] at hac; subst hac
      obtain ⟨hiss, hkeys⟩ := reissueAll_spec h1
      intro k cc hk
      obtain ⟨_, _, hcase⟩ := applyUpd_issued_cases _ _ _ _ hk
      simp only at hcase
      rcases hcase with hm | ⟨_, hm | ⟨hg, hni⟩⟩
      · cases hm
      · exact hiss _ hm
      · rw [hkeys] at hni
        exact absurd (mem_keys_of_get hg) hni

end KM.CaK
