/-
Helper lemmas for C04 / C02: shape of `withClass`, the per-class invariant (mirror, distinct
keys, side sets empty) and its preservation by every single event.  No property statements.
-/
import KrillModel.Ca.Preds
namespace KM.CaK
open KM.Res KM.AMap

/-! ## Shape lemmas -/

theorem Ca.withClass_some {s s' : Ca} {r : Rcn} {f : Rc → Option Rc} (h : s.withClass r f = some s') :
    ∃ rc rc', get s.classes r = some rc ∧ f rc = some rc' ∧
      s' = { s with classes := set s.classes r rc' } := by
  unfold Ca.withClass at h
  cases hg : get s.classes r with
  | none => simp [hg] at h
  | some rc =>
    simp only [hg] at h
    cases hf : f rc with
    | none => simp [hf] at h
    | some rc' =>
      simp only [hf, Option.some.injEq] at h
      exact ⟨rc, rc', rfl, hf, h.symm⟩

theorem Ca.withChild_some {s s' : Ca} {ch : Handle} {f : Child → Child} (h : s.withChild ch f = some s') :
    ∃ c, get s.children ch = some c ∧ s' = { s with children := set s.children ch (f c) } := by
  unfold Ca.withChild at h
  cases hg : get s.children ch with
  | none => simp [hg] at h
  | some c => simp only [hg, Option.some.injEq] at h; exact ⟨c, rfl, h.symm⟩

theorem Objs.withClass_ok {o o' : Objs} {r : Rcn} {f : ObjKeys → Except ObjErr ObjKeys}
    (h : o.withClass r f = .ok o') :
    ∃ ks ks', get o r = some ks ∧ f ks = .ok ks' ∧ o' = set o r ks' := by
  unfold Objs.withClass at h
  cases hg : get o r with
  | none => simp [hg] at h
  | some ks =>
    simp only [hg] at h
    cases hf : f ks with
    | error e => simp [hf] at h
    | ok ks' => simp only [hf, Except.ok.injEq] at h; exact ⟨ks, ks', rfl, hf, h.symm⟩

/-! ## The per-class invariant -/

/-- Mirror, distinct keys, side sets empty for one class name. -/
def ClsInv (x : Option Rc) (y : Option ObjKeys) : Prop :=
  match x with
  | none => y = none
  | some rc =>
    ksMirror rc.keys y = true ∧ rc.keys.distinct = true ∧
    (∀ ok, y = some ok → ok.sideSetsEmpty = true)

/-- Class part of the system invariant behind `mirror`, `single_signer` and `process_emits_applicable`. -/
structure InvCore (s : Sys) : Prop where
  /-- class names are unique -/
  nodup : (keys s.ca.classes).Nodup
  /-- class names are below `next_class_name` -/
  fresh : ∀ r, (get s.ca.classes r).isSome = true → r < s.ca.nextClass
  cls : ∀ r, ClsInv (get s.ca.classes r) (get s.objs r)

theorem clsInv_update {c c' : AMap Rcn Rc} {o o' : Objs} (r0 : Rcn)
    (h : ∀ r, ClsInv (get c r) (get o r))
    (hc : ∀ r, r ≠ r0 → get c' r = get c r) (ho : ∀ r, r ≠ r0 → get o' r = get o r)
    (h0 : ClsInv (get c' r0) (get o' r0)) : ∀ r, ClsInv (get c' r) (get o' r) := by
  intro r
  by_cases hr : r = r0
  · subst hr; exact h0
  · rw [hc r hr, ho r hr]; exact h r

theorem get_set_ne' {V : Type} (m : AMap Rcn V) (r0 : Rcn) (v : V) :
    ∀ r, r ≠ r0 → get (set m r0 v) r = get m r :=
  fun _ hr => get_set_ne m v (Ne.symm hr)

theorem get_del_ne' {V : Type} (m : AMap Rcn V) (r0 : Rcn) :
    ∀ r, r ≠ r0 → get (del m r0) r = get m r :=
  fun _ hr => get_del_ne m (Ne.symm hr)

/-- A class update that leaves the key state alone keeps the class invariant. -/
theorem clsInv_keys_eq {rc rc' : Rc} {y : Option ObjKeys} (hk : rc'.keys = rc.keys)
    (h : ClsInv (some rc) y) : ClsInv (some rc') y := by
  simp only [ClsInv] at h ⊢
  rw [hk]; exact h

/-- `mapCurrent` with a function that keeps key and certificate keeps the mirror. -/
theorem ksMirror_mapCurrent {ks : KeyState} {ok : ObjKeys} {f : ObjSet → ObjSet}
    (hf : ∀ x, (f x).key = x.key ∧ (f x).cert = x.cert) (h : ksMirror ks (some ok) = true) :
    ksMirror ks (some (ok.mapCurrent f)) = true := by
  cases ks <;> cases ok <;> simp [ksMirror, ObjKeys.mapCurrent, hf] at h ⊢ <;> exact h

theorem sideSetsEmpty_mapCurrent {ok : ObjKeys} {f : ObjSet → ObjSet} (h : ok.sideSetsEmpty = true) :
    (ok.mapCurrent f).sideSetsEmpty = true := by
  cases ok <;> simp [ObjKeys.sideSetsEmpty, ObjKeys.mapCurrent] at h ⊢ <;> exact h

theorem updateProducts_key_cert (u : ProdUpd) (x : ObjSet) :
    (x.updateProducts u).key = x.key ∧ (x.updateProducts u).cert = x.cert := ⟨rfl, rfl⟩

theorem updateCerts_key_cert (u : CertUpd) (x : ObjSet) :
    (x.updateCerts u).key = x.key ∧ (x.updateCerts u).cert = x.cert := ⟨rfl, rfl⟩

/-! ## Key events on one class -/

theorem ksMirror_applyRequested (ks : KeyState) (ki : KeyId) (y : Option ObjKeys) :
    ksMirror (ks.applyRequested ki) y = ksMirror ks y := by
  cases ks <;> simp only [KeyState.applyRequested] <;> (try split) <;>
    cases y <;> (try (rename_i ok; cases ok)) <;> simp [ksMirror]

theorem distinct_applyRequested (ks : KeyState) (ki : KeyId) :
    (ks.applyRequested ki).distinct = ks.distinct := by
  cases ks <;> simp only [KeyState.applyRequested] <;> (try split) <;> simp [KeyState.distinct]

theorem ksMirror_pending {p : PendKey} {y : Option ObjKeys} :
    ksMirror (.pending p) y = true ↔ y = none := by
  cases y with
  | none => simp [ksMirror]
  | some ok => cases ok <;> simp [ksMirror]

theorem ksMirror_active {c : CertKey} {y : Option ObjKeys} :
    ksMirror (.active c) y = true ↔ ∃ cs, y = some (.current cs) ∧ cs.key = c.id ∧ cs.cert = c.cert := by
  cases y with
  | none => simp [ksMirror]
  | some ok => cases ok <;> simp [ksMirror]

theorem ksMirror_rollPending {p : PendKey} {c : CertKey} {y : Option ObjKeys} :
    ksMirror (.rollPending p c) y = true ↔
      ∃ cs, y = some (.current cs) ∧ cs.key = c.id ∧ cs.cert = c.cert := by
  cases y with
  | none => simp [ksMirror]
  | some ok => cases ok <;> simp [ksMirror]

theorem ksMirror_rollNew {n c : CertKey} {y : Option ObjKeys} :
    ksMirror (.rollNew n c) y = true ↔
      ∃ ss cs, y = some (.staging ss cs) ∧ ss.key = n.id ∧ ss.cert = n.cert ∧
        cs.key = c.id ∧ cs.cert = c.cert := by
  cases y with
  | none => simp [ksMirror]
  | some ok => cases ok <;> simp [ksMirror, and_assoc]

theorem ksMirror_rollOld {c o : CertKey} {y : Option ObjKeys} :
    ksMirror (.rollOld c o) y = true ↔
      ∃ cs os, y = some (.old cs os) ∧ cs.key = c.id ∧ cs.cert = c.cert ∧
        os.key = o.id ∧ os.cert = o.cert := by
  cases y with
  | none => simp [ksMirror]
  | some ok => cases ok <;> simp [ksMirror, and_assoc]

theorem distinct_rollPending {p : PendKey} {c : CertKey} :
    (KeyState.rollPending p c).distinct = true ↔ p.id ≠ c.id := by simp [KeyState.distinct]
theorem distinct_rollNew {n c : CertKey} :
    (KeyState.rollNew n c).distinct = true ↔ n.id ≠ c.id := by simp [KeyState.distinct]
theorem distinct_rollOld {c o : CertKey} :
    (KeyState.rollOld c o).distinct = true ↔ c.id ≠ o.id := by simp [KeyState.distinct]

/-- What a key event does to the object class, given that it succeeds. -/
theorem clsInv_keyEv {rc : Rc} {y : Option ObjKeys} {ks' : KeyState} {y' : Option ObjKeys} (e : KeyEv)
    (h : ClsInv (some rc) y) (hk : rc.keys.apply e = some ks')
    (hy : match e with
      | .pendingToActive k => y = none ∧ y' = some (.current (ObjSet.create k))
      | .pendingToNew k => ∃ ok ok', y = some ok ∧ ok.keyrollStage k = .ok ok' ∧ y' = some ok'
      | .activated => ∃ ok ok', y = some ok ∧ ok.keyrollActivate = .ok ok' ∧ y' = some ok'
      | .finished => ∃ ok ok', y = some ok ∧ ok.keyrollFinish = .ok ok' ∧ y' = some ok'
      | .received ki cert => ∃ ok ok', y = some ok ∧ ok.updateReceivedCert ki cert = .ok ok' ∧ y' = some ok'
      | _ => y' = y)
    (hgood : match e with
      | .pendingAdded k => ∀ c, rc.keys = .active c → k ≠ c.id
      | .pendingToNew n => ∀ p c, rc.keys = .rollPending p c → n.id = p.id
      | _ => True) :
    ClsInv (some { rc with keys := ks' }) y' := by
  obtain ⟨hm, hd, hs⟩ := h
  show ksMirror ks' y' = true ∧ ks'.distinct = true ∧ ∀ ok, y' = some ok → ok.sideSetsEmpty = true
  cases e with
  | requested ki =>
    simp only at hy; subst hy
    simp only [KeyState.apply, Option.some.injEq] at hk; subst hk
    exact ⟨by rw [ksMirror_applyRequested]; exact hm, by rw [distinct_applyRequested]; exact hd, hs⟩
  | unexpected ki =>
    simp only at hy; subst hy
    simp only [KeyState.apply, Option.some.injEq] at hk; subst hk
    exact ⟨hm, hd, hs⟩
  | pendingAdded k =>
    simp only at hy; subst hy
    cases hks : rc.keys with
    | active c =>
      rw [hks] at hk hm
      simp only [KeyState.apply, KeyState.applyPendingAdded, Option.some.injEq] at hk; subst hk
      exact ⟨ksMirror_rollPending.mpr (ksMirror_active.mp hm), distinct_rollPending.mpr (hgood c hks), hs⟩
    | _ => rw [hks] at hk; simp [KeyState.apply, KeyState.applyPendingAdded] at hk
  | pendingToActive k =>
    obtain ⟨hy0, hy1⟩ := hy
    subst hy0 hy1
    cases hks : rc.keys with
    | pending p =>
      rw [hks] at hk
      simp only [KeyState.apply, KeyState.applyPendingToActive, Option.some.injEq] at hk; subst hk
      refine ⟨ksMirror_active.mpr ⟨_, rfl, rfl, rfl⟩, by simp [KeyState.distinct], ?_⟩
      intro ok hok; cases hok; simp [ObjKeys.sideSetsEmpty]
    | _ => rw [hks] at hk; simp [KeyState.apply, KeyState.applyPendingToActive] at hk
  | pendingToNew n =>
    obtain ⟨ok, ok', hy0, hst, hy1⟩ := hy
    subst hy0 hy1
    cases hks : rc.keys with
    | rollPending p c =>
      rw [hks] at hk hm hd
      simp only [KeyState.apply, KeyState.applyPendingToNew, Option.some.injEq] at hk; subst hk
      obtain ⟨cs, hcs, h1, h2⟩ := ksMirror_rollPending.mp hm
      cases hcs
      simp only [ObjKeys.keyrollStage, Except.ok.injEq] at hst; subst hst
      refine ⟨ksMirror_rollNew.mpr ⟨_, _, rfl, rfl, rfl, h1, h2⟩, ?_, ?_⟩
      · rw [distinct_rollNew, hgood p c hks]; exact distinct_rollPending.mp hd
      · intro ok hok; cases hok; simp [ObjKeys.sideSetsEmpty, ObjSet.create]
    | _ => rw [hks] at hk; simp [KeyState.apply, KeyState.applyPendingToNew] at hk
  | activated =>
    obtain ⟨ok, ok', hy0, hst, hy1⟩ := hy
    subst hy0 hy1
    cases hks : rc.keys with
    | rollNew n c =>
      rw [hks] at hk hm hd
      simp only [KeyState.apply, KeyState.applyActivated, Option.some.injEq] at hk; subst hk
      obtain ⟨ss, cs, hcs, h1, h2, h3, h4⟩ := ksMirror_rollNew.mp hm
      cases hcs
      simp only [ObjKeys.keyrollActivate, Except.ok.injEq] at hst; subst hst
      refine ⟨ksMirror_rollOld.mpr ⟨_, _, rfl, h1, h2, h3, h4⟩, ?_, ?_⟩
      · rw [distinct_rollOld]; exact distinct_rollNew.mp hd
      · intro ok hok; cases hok; simp [ObjKeys.sideSetsEmpty, ObjSet.retire]
    | _ => rw [hks] at hk; simp [KeyState.apply, KeyState.applyActivated] at hk
  | finished =>
    obtain ⟨ok, ok', hy0, hst, hy1⟩ := hy
    subst hy0 hy1
    cases hks : rc.keys with
    | rollOld c o =>
      rw [hks] at hk hm
      simp only [KeyState.apply, KeyState.applyFinished, Option.some.injEq] at hk; subst hk
      obtain ⟨cs, os, hcs, h1, h2, _, _⟩ := ksMirror_rollOld.mp hm
      cases hcs
      simp only [ObjKeys.keyrollFinish, Except.ok.injEq] at hst; subst hst
      refine ⟨ksMirror_active.mpr ⟨_, rfl, h1, h2⟩, by simp [KeyState.distinct], ?_⟩
      intro ok hok; cases hok; simp [ObjKeys.sideSetsEmpty]
    | _ => rw [hks] at hk; simp [KeyState.apply, KeyState.applyFinished] at hk
  | received ki cert =>
    obtain ⟨ok, ok', hy0, hst, hy1⟩ := hy
    subst hy0 hy1
    have hs' := hs ok rfl
    cases hks : rc.keys with
    | pending p => rw [hks] at hk; simp [KeyState.apply, KeyState.applyReceived] at hk
    | active c =>
      rw [hks] at hk hm
      simp only [KeyState.apply, KeyState.applyReceived, Option.some.injEq] at hk; subst hk
      obtain ⟨cs, hcs, h1, h2⟩ := ksMirror_active.mp hm
      cases hcs
      simp only [ObjKeys.updateReceivedCert, ObjSet.updateSigningCert] at hst
      by_cases hki : cs.key = ki
      · simp only [hki, if_true, Except.ok.injEq] at hst; subst hst
        refine ⟨ksMirror_active.mpr ⟨_, rfl, hki ▸ h1, rfl⟩, by simp [KeyState.distinct], ?_⟩
        intro ok hok; cases hok; simp [ObjKeys.sideSetsEmpty]
      · simp only [hki, if_false] at hst; cases hst
    | rollPending p c =>
      rw [hks] at hk hm hd
      simp only [KeyState.apply, KeyState.applyReceived, Option.some.injEq] at hk; subst hk
      obtain ⟨cs, hcs, h1, h2⟩ := ksMirror_rollPending.mp hm
      cases hcs
      simp only [ObjKeys.updateReceivedCert, ObjSet.updateSigningCert] at hst
      by_cases hki : cs.key = ki
      · simp only [hki, if_true, Except.ok.injEq] at hst; subst hst
        refine ⟨ksMirror_rollPending.mpr ⟨_, rfl, hki ▸ h1, rfl⟩, ?_, ?_⟩
        · rw [distinct_rollPending] at hd ⊢; exact hd
        · intro ok hok; cases hok; simp [ObjKeys.sideSetsEmpty]
      · simp only [hki, if_false] at hst; cases hst
    | rollNew n c =>
      rw [hks] at hk hm hd
      obtain ⟨ss, cs, hcs, h1, h2, h3, h4⟩ := ksMirror_rollNew.mp hm
      cases hcs
      simp only [ObjKeys.sideSetsEmpty] at hs'
      simp only [KeyState.apply, KeyState.applyReceived] at hk
      simp only [ObjKeys.updateReceivedCert, ObjSet.updateSigningCert] at hst
      rw [distinct_rollNew] at hd
      by_cases hn : n.id = ki
      · simp only [hn, if_true, Option.some.injEq] at hk; subst hk
        have : ss.key = ki := by rw [h1, hn]
        simp only [this, if_true, Except.ok.injEq] at hst; subst hst
        refine ⟨ksMirror_rollNew.mpr ⟨_, _, rfl, this ▸ h1, rfl, h3, h4⟩, ?_, ?_⟩
        · rw [distinct_rollNew]; exact hd
        · intro ok hok; cases hok; simpa [ObjKeys.sideSetsEmpty] using hs'
      · simp only [hn, if_false, Option.some.injEq] at hk; subst hk
        have : ss.key ≠ ki := by rw [h1]; exact hn
        simp only [this, if_false] at hst
        by_cases hc : cs.key = ki
        · simp only [hc, if_true, Except.ok.injEq] at hst; subst hst
          refine ⟨ksMirror_rollNew.mpr ⟨_, _, rfl, h1, h2, hc ▸ h3, rfl⟩, ?_, ?_⟩
          · rw [distinct_rollNew]; exact hd
          · intro ok hok; cases hok; simpa [ObjKeys.sideSetsEmpty] using hs'
        · simp only [hc, if_false] at hst; cases hst
    | rollOld c o =>
      rw [hks] at hk hm hd
      obtain ⟨cs, os, hcs, h1, h2, h3, h4⟩ := ksMirror_rollOld.mp hm
      cases hcs
      simp only [ObjKeys.sideSetsEmpty] at hs'
      rw [distinct_rollOld] at hd
      simp only [KeyState.apply, KeyState.applyReceived] at hk
      simp only [ObjKeys.updateReceivedCert, ObjSet.updateSigningCert] at hst
      by_cases hcid : c.id = ki
      · simp only [hcid, if_true, Option.some.injEq] at hk; subst hk
        have ho : os.key ≠ ki := by rw [h3, ← hcid]; exact Ne.symm hd
        have hck : cs.key = ki := by rw [h1, hcid]
        simp only [ho, if_false, hck, if_true, Except.ok.injEq] at hst; subst hst
        refine ⟨ksMirror_rollOld.mpr ⟨_, _, rfl, hck ▸ h1, rfl, h3, h4⟩, ?_, ?_⟩
        · rw [distinct_rollOld]; exact hd
        · intro ok hok; cases hok; simpa [ObjKeys.sideSetsEmpty] using hs'
      · simp only [hcid, if_false, Option.some.injEq] at hk; subst hk
        by_cases ho : os.key = ki
        · simp only [ho, if_true, Except.ok.injEq] at hst; subst hst
          refine ⟨ksMirror_rollOld.mpr ⟨_, _, rfl, h1, h2, ho ▸ h3, rfl⟩, ?_, ?_⟩
          · rw [distinct_rollOld]; exact hd
          · intro ok hok; cases hok; simpa [ObjKeys.sideSetsEmpty] using hs'
        · have hck : cs.key ≠ ki := by rw [h1]; exact hcid
          simp only [ho, if_false, hck] at hst; cases hst

/-! ## One event on the whole system -/

/-- What `process` guarantees about an event beyond its applicability (used for the invariant). -/
def Good (s : Ca) : Ev → Prop
  | .rcAdded r .. => r = s.nextClass
  | .parentRemoved p => ∀ r rc, get s.classes r = some rc → rc.parent ≠ p
  | .key r (.pendingAdded k) => ∀ rc c, get s.classes r = some rc → rc.keys = .active c → k ≠ c.id
  | .key r (.pendingToNew n) =>
    ∀ rc p c, get s.classes r = some rc → rc.keys = .rollPending p c → n.id = p.id
  | .childCertIssued _ r _ => ∃ rc, get s.classes r = some rc ∧ rc.keys.current.isSome = true
  | _ => True

theorem filter_eq_self_of_get {V : Type} {m : AMap Rcn V} (hnd : (keys m).Nodup) (q : Rcn × V → Bool)
    (h : ∀ r v, get m r = some v → q (r, v) = true) : m.filter q = m :=
  List.filter_eq_self.mpr fun p hp => h p.1 p.2 (get_of_mem_nodup hnd hp)

theorem nodup_filter {V : Type} {m : AMap Rcn V} (hnd : (keys m).Nodup) (q : Rcn × V → Bool) :
    (keys (m.filter q)).Nodup := by
  unfold keys
  exact (List.filter_sublist.map _).nodup hnd

theorem apply_current_isSome {ks ks' : KeyState} {e : KeyEv} (h : ks.apply e = some ks')
    (hc : ks.current.isSome = true) : ks'.current.isSome = true := by
  cases e <;> cases ks <;>
    simp [KeyState.apply, KeyState.applyRequested, KeyState.applyReceived, KeyState.applyPendingAdded,
      KeyState.applyPendingToNew, KeyState.applyPendingToActive, KeyState.applyActivated,
      KeyState.applyFinished, KeyState.current] at h hc ⊢ <;>
    (try split at h) <;> (try (cases h; simp [KeyState.current])) <;> (try (subst h; simp [KeyState.current]))

theorem get_revokeEverywhere (m : AMap Handle Child) (k : KeyId) (ch : Handle) :
    get (revokeEverywhere m k) ch =
      (get m ch).map fun c => if c.isIssued k then { c with usedKeys := set c.usedKeys k .revoked } else c := by
  induction m with
  | nil => rfl
  | cons p t ih =>
    obtain ⟨h, c⟩ := p
    simp only [revokeEverywhere, List.map_cons] at ih ⊢
    by_cases hi : c.isIssued k = true
    · simp only [hi, if_true, get_cons]
      by_cases hh : h = ch
      · simp [hh, hi]
      · simp only [hh, if_false]; exact ih
    · simp only [hi, Bool.false_eq_true, if_false, get_cons]
      by_cases hh : h = ch
      · simp [hh, hi]
      · simp only [hh, if_false]; exact ih

/-- Revoking keys everywhere adds no key in use. -/
theorem inUse_of_revokeAll (ks : List KeyId) (m : AMap Handle Child) (ch : Handle) (c' : Child) (k : KeyId)
    (r : Rcn) (hg : get (ks.foldl revokeEverywhere m) ch = some c')
    (hu : get c'.usedKeys k = some (.inUse r)) :
    ∃ c, get m ch = some c ∧ get c.usedKeys k = some (.inUse r) := by
  induction ks generalizing m with
  | nil => exact ⟨c', hg, hu⟩
  | cons k0 ks ih =>
    simp only [List.foldl_cons] at hg
    obtain ⟨c1, hc1, hu1⟩ := ih _ hg
    rw [get_revokeEverywhere] at hc1
    cases hm : get m ch with
    | none => simp [hm] at hc1
    | some c =>
      simp only [hm, Option.map_some, Option.some.injEq] at hc1
      refine ⟨c, rfl, ?_⟩
      by_cases hi : c.isIssued k0 = true
      · simp only [hi, if_true] at hc1; subst hc1
        simp only [get_set] at hu1
        by_cases hk : k0 = k
        · simp [hk] at hu1
        · simpa [hk] using hu1
      · simp only [hi, Bool.false_eq_true, if_false] at hc1; subst hc1; exact hu1

/-- A key in use in class `r`: the name was handed out, and the class – if it still exists – is
past `pending`. -/
def UsedInv (ca : Ca) : Prop :=
  ∀ ch c k r, get ca.children ch = some c → get c.usedKeys k = some (.inUse r) →
    r < ca.nextClass ∧ ∀ rc, get ca.classes r = some rc → rc.keys.current.isSome = true

/-- A single event keeps the class part of the invariant. -/
theorem invCore_step {ca ca' : Ca} {o o' : Objs} {e : Ev} (hinv : InvCore ⟨ca, o⟩) (hgood : Good ca e)
    (ha : ca.apply e = some ca') (ho : o.step e = .ok o') : InvCore ⟨ca', o'⟩ := by
  obtain ⟨hnd, hfr, hcls⟩ := hinv
  simp only at hnd hfr hcls
  cases e with
  | rcAdded r p pr k =>
    simp only [Ca.apply, Option.some.injEq] at ha; subst ha
    simp only [Objs.step, Except.ok.injEq] at ho; subst ho
    simp only [Good] at hgood
    have hnone : get ca.classes r = none := by
      cases hg : get ca.classes r with
      | none => rfl
      | some rc =>
        have := hfr r (by simp [hg])
        rw [hgood] at this
        exact absurd this (Nat.lt_irrefl _)
    refine ⟨nodup_set hnd _ _, ?_, ?_⟩
    · intro r' hr'
      simp only [get_set] at hr'
      by_cases h : r = r'
      · subst h; show r < ca.nextClass + 1; rw [hgood]; exact Nat.lt_succ_self _
      · simp only [h, if_false] at hr'
        exact Nat.lt_succ_of_lt (hfr r' hr')
    · refine clsInv_update r hcls (get_set_ne' _ _ _) (fun _ _ => rfl) ?_
      simp only [get_set_self]
      have := hcls r
      rw [hnone] at this
      simp only [ClsInv] at this
      rw [this]
      exact ⟨by simp [Rc.create, ksMirror], by simp [Rc.create, KeyState.distinct], by intro ok h; cases h⟩
  | rcRemoved r =>
    simp only [Ca.apply, Option.some.injEq] at ha; subst ha
    simp only [Objs.step, Except.ok.injEq] at ho; subst ho
    refine ⟨nodup_del hnd _, ?_, ?_⟩
    · intro r' hr'
      simp only [get_del] at hr'
      by_cases h : r = r'
      · simp [h] at hr'
      · simp only [h, if_false] at hr'; exact hfr r' hr'
    · refine clsInv_update r hcls (get_del_ne' _ _) (get_del_ne' _ _) ?_
      simp [get_del_self, ClsInv]
  | key r ke =>
    by_cases hu : ∃ k, ke = .unexpected k
    · obtain ⟨k, rfl⟩ := hu
      simp only [Ca.apply, Option.some.injEq] at ha; subst ha
      simp only [Objs.step, Except.ok.injEq] at ho; subst ho
      exact ⟨hnd, hfr, hcls⟩
    · have happ : ca.apply (.key r ke) =
          ca.withClass r fun rc => (rc.keys.apply ke).map fun ks => { rc with keys := ks } := by
        cases ke <;> first | rfl | exact absurd ⟨_, rfl⟩ hu
      rw [happ] at ha
      obtain ⟨rc, rc', hg, hf, rfl⟩ := Ca.withClass_some ha
      cases hk : rc.keys.apply ke with
      | none => simp [hk] at hf
      | some ks' =>
        simp only [hk, Option.map_some, Option.some.injEq] at hf; subst hf
        have hc0 := hcls r
        rw [hg] at hc0
        -- the object side
        have key : ∃ y', get o' r = y' ∧ (∀ r', r' ≠ r → get o' r' = get o r') ∧
            ClsInv (some { rc with keys := ks' }) y' := by
          cases ke with
          | requested ki =>
            simp only [Objs.step, Except.ok.injEq] at ho; subst ho
            exact ⟨_, rfl, fun _ _ => rfl, clsInv_keyEv (.requested ki) hc0 hk rfl trivial⟩
          | unexpected ki => exact absurd ⟨_, rfl⟩ hu
          | pendingAdded k =>
            simp only [Objs.step, Except.ok.injEq] at ho; subst ho
            refine ⟨_, rfl, fun _ _ => rfl, clsInv_keyEv (.pendingAdded k) hc0 hk rfl ?_⟩
            intro c hc; exact hgood rc c hg hc
          | pendingToActive k =>
            simp only [Objs.step] at ho
            cases hgo : get o r with
            | some ok => simp [hgo] at ho
            | none =>
              simp only [hgo, Option.isSome_none, Bool.false_eq_true, if_false, Except.ok.injEq] at ho
              subst ho
              exact ⟨_, get_set_self _ _ _, get_set_ne' _ _ _,
                clsInv_keyEv (.pendingToActive k) hc0 hk ⟨hgo, rfl⟩ trivial⟩
          | pendingToNew k =>
            simp only [Objs.step] at ho
            obtain ⟨ok, ok', hgo, hfo, rfl⟩ := Objs.withClass_ok ho
            refine ⟨_, get_set_self _ _ _, get_set_ne' _ _ _,
              clsInv_keyEv (.pendingToNew k) hc0 hk ⟨ok, ok', hgo, hfo, rfl⟩ ?_⟩
            intro p c hc; exact hgood rc p c hg hc
          | activated =>
            simp only [Objs.step] at ho
            obtain ⟨ok, ok', hgo, hfo, rfl⟩ := Objs.withClass_ok ho
            exact ⟨_, get_set_self _ _ _, get_set_ne' _ _ _,
              clsInv_keyEv .activated hc0 hk ⟨ok, ok', hgo, hfo, rfl⟩ trivial⟩
          | finished =>
            simp only [Objs.step] at ho
            obtain ⟨ok, ok', hgo, hfo, rfl⟩ := Objs.withClass_ok ho
            exact ⟨_, get_set_self _ _ _, get_set_ne' _ _ _,
              clsInv_keyEv .finished hc0 hk ⟨ok, ok', hgo, hfo, rfl⟩ trivial⟩
          | received ki cert =>
            simp only [Objs.step] at ho
            obtain ⟨ok, ok', hgo, hfo, rfl⟩ := Objs.withClass_ok ho
            exact ⟨_, get_set_self _ _ _, get_set_ne' _ _ _,
              clsInv_keyEv (.received ki cert) hc0 hk ⟨ok, ok', hgo, hfo, rfl⟩ trivial⟩
        obtain ⟨y', hy', hframe, hc'⟩ := key
        refine ⟨nodup_set hnd _ _, ?_, ?_⟩
        · intro r' hr'
          simp only [get_set] at hr'
          by_cases h : r = r'
          · subst h; exact hfr r (by simp [hg])
          · simp only [h, if_false] at hr'; exact hfr r' hr'
        · refine clsInv_update r hcls (get_set_ne' _ _ _) hframe ?_
          simp only [get_set_self]
          rw [hy']; exact hc'
  | products r u =>
    simp only [Ca.apply] at ha
    obtain ⟨rc, rc', hg, hf, rfl⟩ := Ca.withClass_some ha
    simp only [Option.some.injEq] at hf; subst hf
    simp only [Objs.step] at ho
    obtain ⟨ok, ok', hgo, hfo, rfl⟩ := Objs.withClass_ok ho
    simp only [Except.ok.injEq] at hfo; subst hfo
    have hc0 := hcls r
    rw [hg, hgo] at hc0
    refine ⟨nodup_set hnd _ _, ?_, ?_⟩
    · intro r' hr'
      simp only [get_set] at hr'
      by_cases h : r = r'
      · subst h; exact hfr r (by simp [hg])
      · simp only [h, if_false] at hr'; exact hfr r' hr'
    · refine clsInv_update r hcls (get_set_ne' _ _ _) (get_set_ne' _ _ _) ?_
      simp only [get_set_self]
      obtain ⟨hm, hd, hs⟩ := hc0
      exact ⟨ksMirror_mapCurrent (updateProducts_key_cert u) hm, hd,
        fun ok hok => by cases hok; exact sideSetsEmpty_mapCurrent (hs _ rfl)⟩
  | childCerts r u =>
    simp only [Ca.apply] at ha
    cases hw : ca.withClass r (fun rc => some { rc with certs := rc.certs.applyUpd u }) with
    | none => simp [hw] at ha
    | some s1 =>
      simp only [hw, Option.some.injEq] at ha; subst ha
      obtain ⟨rc, rc', hg, hf, rfl⟩ := Ca.withClass_some hw
      simp only [Option.some.injEq] at hf; subst hf
      simp only [Objs.step] at ho
      obtain ⟨ok, ok', hgo, hfo, rfl⟩ := Objs.withClass_ok ho
      simp only [Except.ok.injEq] at hfo; subst hfo
      have hc0 := hcls r
      rw [hg, hgo] at hc0
      refine ⟨nodup_set hnd _ _, ?_, ?_⟩
      · intro r' hr'
        simp only [get_set] at hr'
        by_cases h : r = r'
        · subst h; exact hfr r (by simp [hg])
        · simp only [h, if_false] at hr'; exact hfr r' hr'
      · refine clsInv_update r hcls (get_set_ne' _ _ _) (get_set_ne' _ _ _) ?_
        simp only [get_set_self]
        obtain ⟨hm, hd, hs⟩ := hc0
        exact ⟨ksMirror_mapCurrent (updateCerts_key_cert u) hm, hd,
          fun ok hok => by cases hok; exact sideSetsEmpty_mapCurrent (hs _ rfl)⟩
  | childKeyRevoked ch r k =>
    simp only [Ca.apply] at ha
    cases hw : ca.withClass r (fun rc => some { rc with certs := rc.certs.removeRevoked k }) with
    | none => simp [hw] at ha
    | some s1 =>
      simp only [hw] at ha
      obtain ⟨c, _, rfl⟩ := Ca.withChild_some ha
      obtain ⟨rc, rc', hg, hf, rfl⟩ := Ca.withClass_some hw
      simp only [Option.some.injEq] at hf; subst hf
      simp only [Objs.step, Except.ok.injEq] at ho; subst ho
      have hc0 := hcls r
      rw [hg] at hc0
      refine ⟨nodup_set hnd _ _, ?_, ?_⟩
      · intro r' hr'
        simp only [get_set] at hr'
        by_cases h : r = r'
        · subst h; exact hfr r (by simp [hg])
        · simp only [h, if_false] at hr'; exact hfr r' hr'
      · refine clsInv_update r hcls (get_set_ne' _ _ _) (fun _ _ => rfl) ?_
        simp only [get_set_self]
        exact clsInv_keys_eq rfl hc0
  | childAdded ch res =>
    simp only [Ca.apply, Option.some.injEq] at ha; subst ha
    simp only [Objs.step, Except.ok.injEq] at ho; subst ho
    exact ⟨hnd, hfr, hcls⟩
  | childCertIssued ch r k =>
    simp only [Ca.apply] at ha
    obtain ⟨c, _, rfl⟩ := Ca.withChild_some ha
    simp only [Objs.step, Except.ok.injEq] at ho; subst ho
    exact ⟨hnd, hfr, hcls⟩
  | childUpdatedResources ch res =>
    simp only [Ca.apply] at ha
    obtain ⟨c, _, rfl⟩ := Ca.withChild_some ha
    simp only [Objs.step, Except.ok.injEq] at ho; subst ho
    exact ⟨hnd, hfr, hcls⟩
  | childUpdatedId ch =>
    simp only [Ca.apply] at ha
    obtain ⟨c, _, rfl⟩ := Ca.withChild_some ha
    simp only [Objs.step, Except.ok.injEq] at ho; subst ho
    exact ⟨hnd, hfr, hcls⟩
  | childMapping ch n m =>
    simp only [Ca.apply] at ha
    obtain ⟨c, _, rfl⟩ := Ca.withChild_some ha
    simp only [Objs.step, Except.ok.injEq] at ho; subst ho
    exact ⟨hnd, hfr, hcls⟩
  | childRemoved ch =>
    simp only [Ca.apply, Option.some.injEq] at ha; subst ha
    simp only [Objs.step, Except.ok.injEq] at ho; subst ho
    exact ⟨hnd, hfr, hcls⟩
  | childSuspended ch =>
    simp only [Ca.apply] at ha
    obtain ⟨c, _, rfl⟩ := Ca.withChild_some ha
    simp only [Objs.step, Except.ok.injEq] at ho; subst ho
    exact ⟨hnd, hfr, hcls⟩
  | childUnsuspended ch =>
    simp only [Ca.apply] at ha
    obtain ⟨c, _, rfl⟩ := Ca.withChild_some ha
    simp only [Objs.step, Except.ok.injEq] at ho; subst ho
    exact ⟨hnd, hfr, hcls⟩
  | parentAdded p =>
    simp only [Ca.apply, Option.some.injEq] at ha; subst ha
    simp only [Objs.step, Except.ok.injEq] at ho; subst ho
    exact ⟨hnd, hfr, hcls⟩
  | parentRemoved p =>
    simp only [Ca.apply, Option.some.injEq] at ha; subst ha
    simp only [Objs.step, Except.ok.injEq] at ho; subst ho
    simp only [Good] at hgood
    have hfil : ca.classes.filter (fun q => decide (q.2.parent ≠ p)) = ca.classes :=
      filter_eq_self_of_get hnd _ (fun r v hg => by simpa using hgood r v hg)
    simp only [hfil]
    exact ⟨hnd, hfr, hcls⟩
  | repoUpdated =>
    simp only [Ca.apply, Option.some.injEq] at ha; subst ha
    simp only [Objs.step, Except.ok.injEq] at ho; subst ho
    exact ⟨hnd, hfr, hcls⟩
  | other =>
    simp only [Ca.apply, Option.some.injEq] at ha; subst ha
    simp only [Objs.step, Except.ok.injEq] at ho; subst ho
    exact ⟨hnd, hfr, hcls⟩

/-- A single event keeps the used-key part of the invariant. -/
theorem used_step {ca ca' : Ca} {e : Ev} (hnd : (keys ca.classes).Nodup)
    (hfr : ∀ r, (get ca.classes r).isSome = true → r < ca.nextClass)
    (hu : UsedInv ca) (hgood : Good ca e) (ha : ca.apply e = some ca') : UsedInv ca' := by
  -- children unchanged, classes changed at one name with `current` kept
  have classOnly : ∀ (cl : AMap Rcn Rc) (r0 : Rcn),
      (∀ r, r ≠ r0 → get cl r = get ca.classes r) →
      (∀ rc', get cl r0 = some rc' → ∃ rc, get ca.classes r0 = some rc ∧
        (rc.keys.current.isSome = true → rc'.keys.current.isSome = true)) →
      UsedInv { ca with classes := cl } := by
    intro cl r0 hframe hself ch c k r hc hk
    obtain ⟨h1, h2⟩ := hu ch c k r hc hk
    refine ⟨h1, ?_⟩
    intro rc' hrc'
    by_cases hr : r = r0
    · subst hr
      obtain ⟨rc, hrc, himp⟩ := hself rc' hrc'
      exact himp (h2 rc hrc)
    · rw [hframe r hr] at hrc'; exact h2 rc' hrc'
  -- one child changed without new keys in use
  have childOnly : ∀ (ch0 : Handle) (c0 c0' : Child), get ca.children ch0 = some c0 →
      (∀ k r, get c0'.usedKeys k = some (.inUse r) → get c0.usedKeys k = some (.inUse r)) →
      UsedInv { ca with children := set ca.children ch0 c0' } := by
    intro ch0 c0 c0' hc0 hsub ch c k r hc hk
    simp only [get_set] at hc
    by_cases h : ch0 = ch
    · subst h
      simp only [if_true, Option.some.injEq] at hc; subst hc
      exact hu ch0 c0 k r hc0 (hsub k r hk)
    · simp only [h, if_false] at hc; exact hu ch c k r hc hk
  cases e with
  | rcAdded r p pr k0 =>
    simp only [Ca.apply, Option.some.injEq] at ha; subst ha
    simp only [Good] at hgood
    intro ch c k r' hc hk
    obtain ⟨h1, h2⟩ := hu ch c k r' hc hk
    refine ⟨Nat.lt_succ_of_lt h1, ?_⟩
    intro rc hrc
    have hne : r ≠ r' := by
      intro he; subst he; rw [hgood] at h1; exact absurd h1 (Nat.lt_irrefl _)
    simp only [get_set_ne _ _ hne] at hrc
    exact h2 rc hrc
  | rcRemoved r =>
    simp only [Ca.apply, Option.some.injEq] at ha; subst ha
    intro ch c k r' hc hk
    obtain ⟨h1, h2⟩ := hu ch c k r' hc hk
    refine ⟨h1, ?_⟩
    intro rc hrc
    simp only [get_del] at hrc
    by_cases h : r = r'
    · simp [h] at hrc
    · simp only [h, if_false] at hrc; exact h2 rc hrc
  | key r ke =>
    by_cases hun : ∃ k, ke = .unexpected k
    · obtain ⟨k, rfl⟩ := hun
      simp only [Ca.apply, Option.some.injEq] at ha; subst ha; exact hu
    · have happ : ca.apply (.key r ke) =
          ca.withClass r fun rc => (rc.keys.apply ke).map fun ks => { rc with keys := ks } := by
        cases ke <;> first | rfl | exact absurd ⟨_, rfl⟩ hun
      rw [happ] at ha
      obtain ⟨rc, rc', hg, hf, rfl⟩ := Ca.withClass_some ha
      cases hk : rc.keys.apply ke with
      | none => simp [hk] at hf
      | some ks' =>
        simp only [hk, Option.map_some, Option.some.injEq] at hf; subst hf
        refine classOnly _ r (get_set_ne' _ _ _) ?_
        intro rc' hrc'
        simp only [get_set_self, Option.some.injEq] at hrc'; subst hrc'
        exact ⟨rc, hg, fun h => apply_current_isSome hk h⟩
  | products r u =>
    simp only [Ca.apply] at ha
    obtain ⟨rc, rc', hg, hf, rfl⟩ := Ca.withClass_some ha
    simp only [Option.some.injEq] at hf; subst hf
    refine classOnly _ r (get_set_ne' _ _ _) ?_
    intro rc' hrc'
    simp only [get_set_self, Option.some.injEq] at hrc'; subst hrc'
    exact ⟨rc, hg, fun h => h⟩
  | childCerts r u =>
    simp only [Ca.apply] at ha
    cases hw : ca.withClass r (fun rc => some { rc with certs := rc.certs.applyUpd u }) with
    | none => simp [hw] at ha
    | some s1 =>
      simp only [hw, Option.some.injEq] at ha; subst ha
      obtain ⟨rc, rc', hg, hf, rfl⟩ := Ca.withClass_some hw
      simp only [Option.some.injEq] at hf; subst hf
      have h1 : UsedInv { ca with classes := set ca.classes r { rc with certs := rc.certs.applyUpd u } } := by
        refine classOnly _ r (get_set_ne' _ _ _) ?_
        intro rc' hrc'
        simp only [get_set_self, Option.some.injEq] at hrc'; subst hrc'
        exact ⟨rc, hg, fun h => h⟩
      intro ch c k r' hc hk
      simp only at hc
      obtain ⟨c0, hc0, hk0⟩ := inUse_of_revokeAll _ _ _ _ _ _ hc hk
      exact h1 ch c0 k r' hc0 hk0
  | childKeyRevoked ch0 r k0 =>
    simp only [Ca.apply] at ha
    cases hw : ca.withClass r (fun rc => some { rc with certs := rc.certs.removeRevoked k0 }) with
    | none => simp [hw] at ha
    | some s1 =>
      simp only [hw] at ha
      obtain ⟨c0, hc0, rfl⟩ := Ca.withChild_some ha
      obtain ⟨rc, rc', hg, hf, rfl⟩ := Ca.withClass_some hw
      simp only [Option.some.injEq] at hf; subst hf
      have h1 : UsedInv { ca with classes := set ca.classes r { rc with certs := rc.certs.removeRevoked k0 } } := by
        refine classOnly _ r (get_set_ne' _ _ _) ?_
        intro rc' hrc'
        simp only [get_set_self, Option.some.injEq] at hrc'; subst hrc'
        exact ⟨rc, hg, fun h => h⟩
      intro ch c k r' hc hk
      simp only [get_set] at hc
      by_cases h : ch0 = ch
      · subst h
        simp only [if_true, Option.some.injEq] at hc; subst hc
        simp only [get_set] at hk
        by_cases hkk : k0 = k
        · simp [hkk] at hk
        · simp only [hkk, if_false] at hk
          exact h1 ch0 c0 k r' hc0 hk
      · simp only [h, if_false] at hc; exact h1 ch c k r' hc hk
  | childAdded ch0 res =>
    simp only [Ca.apply, Option.some.injEq] at ha; subst ha
    intro ch c k r hc hk
    simp only [get_set] at hc
    by_cases h : ch0 = ch
    · simp only [h, if_true, Option.some.injEq] at hc; subst hc
      simp at hk
    · simp only [h, if_false] at hc; exact hu ch c k r hc hk
  | childCertIssued ch0 r0 k0 =>
    simp only [Ca.apply] at ha
    obtain ⟨c0, hc0, rfl⟩ := Ca.withChild_some ha
    simp only [Good] at hgood
    obtain ⟨rc0, hrc0, hcur0⟩ := hgood
    intro ch c k r hc hk
    simp only [get_set] at hc
    by_cases h : ch0 = ch
    · subst h
      simp only [if_true, Option.some.injEq] at hc; subst hc
      simp only [get_set] at hk
      by_cases hkk : k0 = k
      · simp only [hkk, if_true, Option.some.injEq, UsedKey.inUse.injEq] at hk; subst hk
        refine ⟨hfr r0 (by simp [hrc0]), ?_⟩
        intro rc hrc; rw [hrc0] at hrc; cases hrc; exact hcur0
      · simp only [hkk, if_false] at hk; exact hu ch0 c0 k r hc0 hk
    · simp only [h, if_false] at hc; exact hu ch c k r hc hk
  | childUpdatedResources ch0 res =>
    simp only [Ca.apply] at ha
    obtain ⟨c0, hc0, rfl⟩ := Ca.withChild_some ha
    exact childOnly ch0 c0 _ hc0 (fun _ _ h => h)
  | childUpdatedId ch0 =>
    simp only [Ca.apply] at ha
    obtain ⟨c0, hc0, rfl⟩ := Ca.withChild_some ha
    exact childOnly ch0 c0 _ hc0 (fun _ _ h => h)
  | childMapping ch0 n m =>
    simp only [Ca.apply] at ha
    obtain ⟨c0, hc0, rfl⟩ := Ca.withChild_some ha
    exact childOnly ch0 c0 _ hc0 (fun _ _ h => h)
  | childRemoved ch0 =>
    simp only [Ca.apply, Option.some.injEq] at ha; subst ha
    intro ch c k r hc hk
    simp only [get_del] at hc
    by_cases h : ch0 = ch
    · simp [h] at hc
    · simp only [h, if_false] at hc; exact hu ch c k r hc hk
  | childSuspended ch0 =>
    simp only [Ca.apply] at ha
    obtain ⟨c0, hc0, rfl⟩ := Ca.withChild_some ha
    exact childOnly ch0 c0 _ hc0 (fun _ _ h => h)
  | childUnsuspended ch0 =>
    simp only [Ca.apply] at ha
    obtain ⟨c0, hc0, rfl⟩ := Ca.withChild_some ha
    exact childOnly ch0 c0 _ hc0 (fun _ _ h => h)
  | parentAdded p =>
    simp only [Ca.apply, Option.some.injEq] at ha; subst ha; exact hu
  | parentRemoved p =>
    simp only [Ca.apply, Option.some.injEq] at ha; subst ha
    intro ch c k r hc hk
    obtain ⟨h1, h2⟩ := hu ch c k r hc hk
    refine ⟨h1, ?_⟩
    intro rc hrc
    have hm := mem_of_get hrc
    have hm' := (List.mem_filter.mp hm).1
    exact h2 rc (get_of_mem_nodup hnd hm')
  | repoUpdated =>
    simp only [Ca.apply, Option.some.injEq] at ha; subst ha; exact hu
  | other =>
    simp only [Ca.apply, Option.some.injEq] at ha; subst ha; exact hu

/-- The invariant of reachable systems. -/
structure Inv (s : Sys) : Prop where
  core : InvCore s
  used : UsedInv s.ca

theorem inv_step {ca ca' : Ca} {o o' : Objs} {e : Ev} (hinv : Inv ⟨ca, o⟩) (hgood : Good ca e)
    (ha : ca.apply e = some ca') (ho : o.step e = .ok o') : Inv ⟨ca', o'⟩ :=
  ⟨invCore_step hinv.core hgood ha ho, used_step hinv.core.nodup hinv.core.fresh hinv.used hgood ha⟩

theorem inv_init : Inv {} := by
  refine ⟨⟨List.nodup_nil, ?_, ?_⟩, ?_⟩
  · intro r h; simp at h
  · intro r; simp [ClsInv]
  · intro ch c k r h; simp at h

end KM.CaK
