/-
Helper lemmas for C04: the published-object side of a key activation – what the new current
set publishes after the activation chunk.  No property statements.
-/
import KrillModel.Ca.LemmasRoll
namespace KM.CaK
open KM.Res KM.AMap

/-! ## Folding `set` / `del` over a list -/

/-- Last value given for a key in an update list. -/
def lastOf {K V : Type} [DecidableEq K] : List (K × V) → K → Option V
  | [], _ => none
  | (k', v) :: t, k => match lastOf t k with
    | some x => some x
    | none => if k' = k then some v else none

theorem get_foldl_set {K V : Type} [DecidableEq K] (l : List (K × V)) (m : AMap K V) (k : K) :
    get (l.foldl (fun m a => set m a.1 a.2) m) k = (lastOf l k).orElse (fun _ => get m k) := by
  induction l generalizing m with
  | nil => simp [lastOf]
  | cons p t ih =>
    obtain ⟨k', v⟩ := p
    simp only [List.foldl_cons, ih, lastOf]
    cases h : lastOf t k with
    | some x => simp
    | none =>
      simp only [Option.orElse_none, get_set]
      by_cases hk : k' = k <;> simp [hk]

theorem lastOf_isSome_iff {K V : Type} [DecidableEq K] (l : List (K × V)) (k : K) :
    (lastOf l k).isSome = true ↔ k ∈ l.map (·.1) := by
  induction l with
  | nil => simp [lastOf]
  | cons p t ih =>
    obtain ⟨k', v⟩ := p
    simp only [lastOf, List.map_cons, List.mem_cons]
    cases h : lastOf t k with
    | some x =>
      simp only [Option.isSome_some, true_iff]
      exact Or.inr (ih.mp (by simp [h]))
    | none =>
      have hn : k ∉ t.map (·.1) := fun hm => by
        have := ih.mpr hm
        rw [h] at this; cases this
      by_cases hk : k' = k
      · simp [hk]
      · simp only [hk, if_false, Option.isSome_none, Bool.false_eq_true, false_iff, not_or]
        exact ⟨fun h => hk h.symm, hn⟩

theorem get_foldl_delK {K V : Type} [DecidableEq K] (l : List K) (m : AMap K V) (k : K) :
    get (l.foldl (fun m a => del m a) m) k = if k ∈ l then none else get m k := by
  induction l generalizing m with
  | nil => simp
  | cons a t ih =>
    simp only [List.foldl_cons, ih, List.mem_cons, get_del]
    by_cases h1 : k ∈ t
    · simp [h1]
    · by_cases h0 : a = k
      · simp [h0]
      · have : ¬ k = a := fun h => h0 h.symm
        simp [h1, h0, this]

/-! ## Names published by an object set after updates -/

theorem isSome_foldl_set {K V : Type} [DecidableEq K] (l : List (K × V)) (m : AMap K V) (k : K) :
    (get (l.foldl (fun m a => set m a.1 a.2) m) k).isSome = (decide (k ∈ l.map (·.1)) || (get m k).isSome) := by
  rw [get_foldl_set]
  cases h : lastOf l k with
  | some x =>
    have := (lastOf_isSome_iff l k).mp (by simp [h])
    simp [this]
  | none =>
    have : k ∉ l.map (·.1) := fun hm => by
      have := (lastOf_isSome_iff l k).mpr hm
      rw [h] at this; cases this
    simp [this]

theorem isSome_set_del {K V : Type} [DecidableEq K] (l : List (K × V)) (rl : List K) (m : AMap K V) (k : K) :
    (get (rl.foldl (fun m a => del m a) (l.foldl (fun m a => set m a.1 a.2) m)) k).isSome =
      (!decide (k ∈ rl) && (decide (k ∈ l.map (·.1)) || (get m k).isSome)) := by
  rw [get_foldl_delK]
  by_cases h : k ∈ rl
  · simp [h]
  · simp only [h, if_false, decide_false, Bool.not_false, Bool.true_and]
    exact isSome_foldl_set l m k

/-- Names after a product update: the added identifiers of that kind appear, the removed ones
disappear, other names are untouched. -/
theorem updateProducts_isSome (s : ObjSet) (u : ProdUpd) (n : OName) :
    (get (s.updateProducts u).published n).isSome =
      (match n with
        | .prod k id =>
          if k = u.kind then (!decide (id ∈ u.removed) && (decide (id ∈ u.added.map (·.1)) || (get s.published n).isSome))
          else (get s.published n).isSome
        | .cer _ => (get s.published n).isSome) := by
  simp only [ObjSet.updateProducts]
  have h1 : u.added.foldl (fun m a => set m (OName.prod u.kind a.1) (OVal.prod a.2)) s.published =
      (u.added.map fun a => (OName.prod u.kind a.1, OVal.prod a.2)).foldl (fun m a => set m a.1 a.2) s.published := by
    rw [List.foldl_map]
  have h2 : ∀ m : AMap OName OVal, u.removed.foldl (fun m r => del m (OName.prod u.kind r)) m =
      (u.removed.map (OName.prod u.kind)).foldl (fun m a => del m a) m := by
    intro m; rw [List.foldl_map]
  rw [h1, h2, isSome_set_del]
  have memR : ∀ k id, (OName.prod k id ∈ u.removed.map (OName.prod u.kind)) ↔ (k = u.kind ∧ id ∈ u.removed) := by
    intro k id
    simp only [List.mem_map, OName.prod.injEq]
    constructor
    · rintro ⟨r, hr, hk, rfl⟩; exact ⟨hk.symm, hr⟩
    · rintro ⟨rfl, hr⟩; exact ⟨id, hr, rfl, rfl⟩
  have memA : ∀ k id, (OName.prod k id ∈ (u.added.map fun a => (OName.prod u.kind a.1, OVal.prod a.2)).map (·.1)) ↔
      (k = u.kind ∧ id ∈ u.added.map (·.1)) := by
    intro k id
    simp only [List.map_map, List.mem_map, Function.comp, OName.prod.injEq]
    constructor
    · rintro ⟨a, ha, hk, rfl⟩; exact ⟨hk.symm, a, ha, rfl⟩
    · rintro ⟨rfl, a, ha, rfl⟩; exact ⟨a, ha, rfl, rfl⟩
  cases n with
  | prod k id =>
    by_cases hk : k = u.kind
    · simp only [hk, if_true]
      have r1 := memR u.kind id
      have a1 := memA u.kind id
      simp only [true_and] at r1 a1
      simp only [decide_eq_decide.mpr r1, decide_eq_decide.mpr a1]
    · have r1 : OName.prod k id ∉ u.removed.map (OName.prod u.kind) := fun h => hk ((memR k id).mp h).1
      have a1 : OName.prod k id ∉ (u.added.map fun a => (OName.prod u.kind a.1, OVal.prod a.2)).map (·.1) :=
        fun h => hk ((memA k id).mp h).1
      simp only [hk, if_false, r1, a1, decide_false, Bool.not_false, Bool.true_and, Bool.false_or]
  | cer key =>
    have r1 : OName.cer key ∉ u.removed.map (OName.prod u.kind) := by
      intro hm; obtain ⟨r, _, hr⟩ := List.mem_map.mp hm; cases hr
    have a1 : OName.cer key ∉ (u.added.map fun a => (OName.prod u.kind a.1, OVal.prod a.2)).map (·.1) := by
      intro hm
      simp only [List.map_map, List.mem_map, Function.comp] at hm
      obtain ⟨a, _, ha⟩ := hm; cases ha
    simp only [r1, a1, decide_false, Bool.not_false, Bool.true_and, Bool.false_or]

/-- Names after a certificate update without removals or un-suspensions (what activation and
suspension produce). -/
theorem updateCerts_isSome (s : ObjSet) (u : CertUpd) (hr : u.removed = []) (hu : u.unsuspended = []) (n : OName) :
    (get (s.updateCerts u).published n).isSome =
      (match n with
        | .cer key => !decide (key ∈ u.suspended.map (·.1)) &&
            (decide (key ∈ u.issued.map (·.1)) || (get s.published n).isSome)
        | .prod .. => (get s.published n).isSome) := by
  simp only [ObjSet.updateCerts, hr, hu, List.foldl_nil]
  have h1 : u.issued.foldl (fun m a => set m (OName.cer a.1) (OVal.cert a.2)) s.published =
      (u.issued.map fun a => (OName.cer a.1, OVal.cert a.2)).foldl (fun m a => set m a.1 a.2) s.published := by
    rw [List.foldl_map]
  have h2 : ∀ m : AMap OName OVal, u.suspended.foldl (fun m a => del m (OName.cer a.1)) m =
      (u.suspended.map fun a => OName.cer a.1).foldl (fun m a => del m a) m := by
    intro m; rw [List.foldl_map]
  rw [h1, h2, isSome_set_del]
  cases n with
  | cer key =>
    have r1 : (OName.cer key ∈ u.suspended.map fun a => OName.cer a.1) ↔ key ∈ u.suspended.map (·.1) := by
      simp only [List.mem_map, OName.cer.injEq]
    have a1 : (OName.cer key ∈ (u.issued.map fun a => (OName.cer a.1, OVal.cert a.2)).map (·.1)) ↔
        key ∈ u.issued.map (·.1) := by
      simp only [List.map_map, List.mem_map, Function.comp, OName.cer.injEq]
    simp only [decide_eq_decide.mpr r1, decide_eq_decide.mpr a1]
  | prod k id =>
    have h3 : OName.prod k id ∉ u.suspended.map fun a => OName.cer a.1 := by
      intro hm; obtain ⟨a, _, ha⟩ := List.mem_map.mp hm; cases ha
    have h4 : OName.prod k id ∉ (u.issued.map fun a => (OName.cer a.1, OVal.cert a.2)).map (·.1) := by
      intro hm
      simp only [List.map_map, List.mem_map, Function.comp] at hm
      obtain ⟨a, _, ha⟩ := hm; cases ha
    simp only [h3, h4, decide_false, Bool.not_false, Bool.true_and, Bool.false_or]

/-! ## The listener on one class -/

/-- The listener's action on the object class of a class-local event (all but
`KeyPendingToActive`, which creates the object class). -/
def ObjKeys.applyEv (ok : ObjKeys) : Ev → Except ObjErr ObjKeys
  | .products _ u => .ok (ok.mapCurrent (·.updateProducts u))
  | .childCerts _ u => .ok (ok.mapCurrent (·.updateCerts u))
  | .key _ (.pendingToNew k) => ok.keyrollStage k
  | .key _ .activated => ok.keyrollActivate
  | .key _ .finished => ok.keyrollFinish
  | .key _ (.received ki cert) => ok.updateReceivedCert ki cert
  | _ => .ok ok

def ObjKeys.applyEvs (ok : ObjKeys) : List Ev → Except ObjErr ObjKeys
  | [] => .ok ok
  | e :: es =>
    match ok.applyEv e with
    | .ok ok' => ok'.applyEvs es
    | .error err => .error err

def Ev.notCreate : Ev → Bool
  | .key _ (.pendingToActive _) => false
  | _ => true

theorem step_onClass {o : Objs} {r : Rcn} {ok : ObjKeys} {e : Ev} (he : e.onClass r = true)
    (hn : e.notCreate = true) (hg : get o r = some ok) :
    match ok.applyEv e with
    | .ok ok' => ∃ o', o.step e = .ok o' ∧ get o' r = some ok' ∧ ∀ r2, r2 ≠ r → get o' r2 = get o r2
    | .error err => o.step e = .error err := by
  have viaSet : ∀ (f : ObjKeys → Except ObjErr ObjKeys),
      (match f ok with
        | .ok ok' => ∃ o', o.withClass r f = .ok o' ∧ get o' r = some ok' ∧ ∀ r2, r2 ≠ r → get o' r2 = get o r2
        | .error err => o.withClass r f = .error err) := by
    intro f
    simp only [Objs.withClass, hg]
    cases f ok with
    | ok ok' => exact ⟨_, rfl, get_set_self _ _ _, get_set_ne' _ _ _⟩
    | error err => rfl
  cases e with
  | key r' ke =>
    cases ke with
    | requested ki =>
      simp only [Ev.onClass, decide_eq_true_eq] at he; subst he
      exact ⟨o, rfl, hg, fun _ _ => rfl⟩
    | pendingAdded ki =>
      simp only [Ev.onClass, decide_eq_true_eq] at he; subst he
      exact ⟨o, rfl, hg, fun _ _ => rfl⟩
    | unexpected ki => simp [Ev.onClass] at he
    | pendingToActive k => simp [Ev.notCreate] at hn
    | pendingToNew k =>
      simp only [Ev.onClass, decide_eq_true_eq] at he; subst he
      exact viaSet (·.keyrollStage k)
    | activated =>
      simp only [Ev.onClass, decide_eq_true_eq] at he; subst he
      exact viaSet (·.keyrollActivate)
    | finished =>
      simp only [Ev.onClass, decide_eq_true_eq] at he; subst he
      exact viaSet (·.keyrollFinish)
    | received ki cert =>
      simp only [Ev.onClass, decide_eq_true_eq] at he; subst he
      exact viaSet (·.updateReceivedCert ki cert)
  | products r' u =>
    simp only [Ev.onClass, decide_eq_true_eq] at he; subst he
    exact viaSet (fun ks => .ok (ks.mapCurrent (·.updateProducts u)))
  | childCerts r' u =>
    simp only [Ev.onClass, decide_eq_true_eq] at he; subst he
    exact viaSet (fun ks => .ok (ks.mapCurrent (·.updateCerts u)))
  | _ => simp [Ev.onClass] at he

/-- The listener along a class-local chunk. -/
theorem stepAll_of_class {o o' : Objs} {r : Rcn} {ok : ObjKeys} {evs : List Ev}
    (he : ∀ e ∈ evs, e.onClass r = true ∧ e.notCreate = true) (hg : get o r = some ok)
    (hs : o.stepAll evs = .ok o') :
    ∃ ok', ok.applyEvs evs = .ok ok' ∧ get o' r = some ok' ∧ ∀ r2, r2 ≠ r → get o' r2 = get o r2 := by
  induction evs generalizing o ok with
  | nil =>
    simp only [Objs.stepAll, Except.ok.injEq] at hs; subst hs
    exact ⟨ok, rfl, hg, fun _ _ => rfl⟩
  | cons e es ih =>
    have h1 := he e (List.mem_cons_self ..)
    have hstep := step_onClass h1.1 h1.2 hg
    simp only [Objs.stepAll] at hs
    cases hae : ok.applyEv e with
    | error err =>
      rw [hae] at hstep
      simp only at hstep
      rw [hstep] at hs; cases hs
    | ok ok1 =>
      rw [hae] at hstep
      obtain ⟨o1, ho1, hg1, hf1⟩ := hstep
      simp only [ho1] at hs
      obtain ⟨ok', happ, hg', hf'⟩ := ih (fun e' he' => he e' (List.mem_cons_of_mem _ he')) hg1 hs
      refine ⟨ok', by simp [ObjKeys.applyEvs, hae, happ], hg', ?_⟩
      intro r2 hr2; rw [hf' r2 hr2, hf1 r2 hr2]

/-! ## Activation -/

/-- Payload events on an `old` object class go to the current set. -/
def payloadFold (cs : ObjSet) : List Ev → ObjSet
  | [] => cs
  | .products _ u :: t => payloadFold (cs.updateProducts u) t
  | .childCerts _ u :: t => payloadFold (cs.updateCerts u) t
  | _ :: t => payloadFold cs t

theorem applyEvs_payload_old (cs os : ObjSet) (evs : List Ev) (hp : ∀ e ∈ evs, e.isPayload = true) :
    (ObjKeys.old cs os).applyEvs evs = .ok (.old (payloadFold cs evs) os) := by
  induction evs generalizing cs with
  | nil => rfl
  | cons e es ih =>
    have he := hp e (List.mem_cons_self ..)
    have hrest := fun e' he' => hp e' (List.mem_cons_of_mem _ he')
    cases e with
    | products r u => simp only [ObjKeys.applyEvs, ObjKeys.applyEv, ObjKeys.mapCurrent, payloadFold]; exact ih _ hrest
    | childCerts r u => simp only [ObjKeys.applyEvs, ObjKeys.applyEv, ObjKeys.mapCurrent, payloadFold]; exact ih _ hrest
    | _ => simp [Ev.isPayload] at he

theorem payloadFold_append (cs : ObjSet) (a b : List Ev) :
    payloadFold cs (a ++ b) = payloadFold (payloadFold cs a) b := by
  induction a generalizing cs with
  | nil => rfl
  | cons e es ih => cases e <;> simp only [List.cons_append, payloadFold] <;> exact ih _

/-- Names after the renewal of one product kind (whether or not there is anything to renew). -/
theorem renewal_names (cs : ObjSet) (r : Rcn) (rc : Rc) (k : PKind) (n : OName) :
    (get (payloadFold cs (renewal r rc k)).published n).isSome =
      (match n with
        | .prod k' id => if k' = k then (decide (id ∈ (rc.productsOf k).map (·.1)) || (get cs.published n).isSome)
          else (get cs.published n).isSome
        | .cer _ => (get cs.published n).isSome) := by
  simp only [renewal]
  by_cases hp : (rc.productsOf k).isEmpty = true
  · simp only [hp, if_true, payloadFold]
    simp only [List.isEmpty_iff] at hp
    cases n with
    | prod k' id => by_cases hk : k' = k <;> simp [hk, hp]
    | cer key => rfl
  · simp only [hp, Bool.false_eq_true, if_false, payloadFold]
    rw [updateProducts_isSome]
    cases n with
    | prod k' id => by_cases hk : k' = k <;> simp [hk]
    | cer key => rfl

theorem mem_productsOf (rc : Rc) (k : PKind) (id : Nat) :
    id ∈ (rc.productsOf k).map (·.1) ↔ (get rc.products (k, id)).isSome = true := by
  rw [get_isSome_iff_mem_keys]
  simp only [Rc.productsOf, List.map_map, List.mem_map, List.mem_filter, Function.comp, keys,
    decide_eq_true_eq]
  constructor
  · rintro ⟨p, ⟨hp, hk⟩, rfl⟩
    exact ⟨p, hp, by cases p with | mk a b => cases a; simp_all⟩
  · rintro ⟨p, hp, hpk⟩
    refine ⟨p, ⟨hp, ?_⟩, ?_⟩
    · rw [hpk]
    · rw [hpk]

/-- **What the new current set publishes after the activation chunk**: from a staging set that
publishes nothing, the new current set publishes a product name exactly when the class holds
that product, and a child certificate name exactly when the key was issued and has no
(stale) suspended entry; the old set publishes nothing. -/
theorem activate_objs {rc : Rc} {n c : CertKey} (hk : rc.keys = .rollNew n c) {r : Rcn} {na : Int}
    {evs : List Ev} (h : activateClass r rc na = .ok evs) (ss cs : ObjSet) (hemp : ss.published = []) :
    ∃ cs', (ObjKeys.staging ss cs).applyEvs evs = .ok (.old cs' cs.retire) ∧
      cs'.key = ss.key ∧ cs'.cert = ss.cert ∧ cs.retire.published = [] ∧
      ∀ nm : OName, (get cs'.published nm).isSome =
        (match nm with
          | .prod k id => (get rc.products (k, id)).isSome
          | .cer key => (get rc.certs.issued key).isSome && !(get rc.certs.suspended key).isSome) := by
  unfold activateClass at h
  have hn : rc.keys.newKey = some n := by rw [hk]; rfl
  simp only [hn] at h
  cases ha : rc.keys.keyrollActivate with
  | error e => simp [ha] at h
  | ok kevs =>
    simp only [ha] at h
    have hkevs : kevs = [.activated] := by
      rw [hk] at ha
      simp only [KeyState.keyrollActivate] at ha
      split at ha <;> cases ha
      rfl
    subst hkevs
    cases hac : rc.certs.activateKey n.cert na with
    | error e => simp [hac] at h
    | ok upd =>
      simp only [hac, Except.ok.injEq] at h; subst h
      -- shape of the update
      unfold ChildCerts.activateKey at hac
      cases h1 : reissueAll rc.certs.issued n.cert na with
      | error e => simp [h1] at hac
      | ok iss =>
        simp only [h1] at hac
        cases h2 : reissueAll rc.certs.suspended n.cert na with
        | error e => simp [h2] at hac
        | ok sus =>
          simp only [h2, Except.ok.injEq] at hac; subst hac
          have hki := (reissueAll_spec h1).2
          have hks := (reissueAll_spec h2).2
          -- the payload part of the chunk
          let pay := renewal r rc .roa ++ renewal r rc .aspa ++
            (if ({ issued := iss, suspended := sus } : CertUpd).isEmpty = true then []
              else [Ev.childCerts r { issued := iss, suspended := sus }]) ++ renewal r rc .bgpsec
          have hpay : ∀ e ∈ pay, e.isPayload = true := by
            intro e he
            simp only [pay, List.mem_append] at he
            rcases he with ((he | he) | he) | he
            · exact (renewal_payload r rc .roa e he).1
            · exact (renewal_payload r rc .aspa e he).1
            · split at he
              · cases he
              · simp only [List.mem_singleton] at he; subst he; rfl
            · exact (renewal_payload r rc .bgpsec e he).1
          refine ⟨payloadFold ss pay, ?_, ?_, ?_, rfl, ?_⟩
          · simp only [List.map_cons, List.map_nil, List.cons_append, List.nil_append, List.append_assoc,
              ObjKeys.applyEvs, ObjKeys.applyEv, ObjKeys.keyrollActivate]
            have := applyEvs_payload_old ss cs.retire pay hpay
            simp only [pay, List.append_assoc] at this ⊢
            exact this
          · -- key and certificate are not touched by payload events
            have : ∀ (l : List Ev) (x : ObjSet), (payloadFold x l).key = x.key ∧ (payloadFold x l).cert = x.cert := by
              intro l
              induction l with
              | nil => intro x; exact ⟨rfl, rfl⟩
              | cons e es ih => intro x; cases e <;> simp only [payloadFold] <;> exact ih _
            exact (this pay ss).1
          · have : ∀ (l : List Ev) (x : ObjSet), (payloadFold x l).key = x.key ∧ (payloadFold x l).cert = x.cert := by
              intro l
              induction l with
              | nil => intro x; exact ⟨rfl, rfl⟩
              | cons e es ih => intro x; cases e <;> simp only [payloadFold] <;> exact ih _
            exact (this pay ss).2
          · intro nm
            simp only [pay, payloadFold_append]
            rw [renewal_names]
            -- the certificate step
            have hcert : ∀ (x : ObjSet) (nm : OName),
                (get (payloadFold x (if ({ issued := iss, suspended := sus } : CertUpd).isEmpty = true then []
                  else [Ev.childCerts r { issued := iss, suspended := sus }])).published nm).isSome =
                (match nm with
                  | .cer key => !decide (key ∈ sus.map (·.1)) && (decide (key ∈ iss.map (·.1)) || (get x.published nm).isSome)
                  | .prod .. => (get x.published nm).isSome) := by
              intro x nm
              by_cases hemp2 : ({ issued := iss, suspended := sus } : CertUpd).isEmpty = true
              · simp only [hemp2, if_true, payloadFold]
                simp only [CertUpd.isEmpty, Bool.and_eq_true, List.isEmpty_iff] at hemp2
                obtain ⟨⟨⟨hi, _⟩, hsu⟩, _⟩ := hemp2
                subst hi hsu
                cases nm <;> simp
              · simp only [hemp2, Bool.false_eq_true, if_false, payloadFold]
                rw [updateCerts_isSome _ _ rfl rfl]
            cases nm with
            | prod k id =>
              simp only [hcert]
              rw [renewal_names, renewal_names]
              simp only [hemp, get_nil, Option.isSome_none, Bool.or_false]
              cases k <;> simp [mem_productsOf]
            | cer key =>
              simp only [hcert]
              rw [renewal_names, renewal_names]
              simp only [hemp, get_nil, Option.isSome_none, Bool.or_false, hki, hks]
              have e1 : decide (key ∈ rc.certs.issued.map (·.1)) = (get rc.certs.issued key).isSome := by
                cases hg : (get rc.certs.issued key).isSome
                · have : key ∉ keys rc.certs.issued := fun hm => by
                    rw [get_isSome_iff_mem_keys.mpr hm] at hg; cases hg
                  simpa [keys] using this
                · have := get_isSome_iff_mem_keys.mp hg
                  simpa [keys] using this
              have e2 : decide (key ∈ rc.certs.suspended.map (·.1)) = (get rc.certs.suspended key).isSome := by
                cases hg : (get rc.certs.suspended key).isSome
                · have : key ∉ keys rc.certs.suspended := fun hm => by
                    rw [get_isSome_iff_mem_keys.mpr hm] at hg; cases hg
                  simpa [keys] using this
                · have := get_isSome_iff_mem_keys.mp hg
                  simpa [keys] using this
              rw [e1, e2, Bool.and_comm]

/-! ## One class inside a class loop -/

theorem forClasses_append {f : Rcn → Rc → Except Err (List Ev)} (l1 l2 : List (Rcn × Rc)) :
    forClasses f (l1 ++ l2) =
      (match forClasses f l1 with
        | .error e => .error e
        | .ok a => match forClasses f l2 with
          | .error e => .error e
          | .ok b => .ok (a ++ b)) := by
  induction l1 with
  | nil => simp only [List.nil_append, forClasses]; cases forClasses f l2 <;> rfl
  | cons p ps ih =>
    simp only [List.cons_append, forClasses, ih]
    cases f p.1 p.2 with
    | error e => rfl
    | ok a =>
      simp only
      cases forClasses f ps with
      | error e => rfl
      | ok a' =>
        simp only
        cases forClasses f l2 with
        | error e => rfl
        | ok b => simp [List.append_assoc]

/-- The output of a class loop around one of its classes. -/
theorem forClasses_split {f : Rcn → Rc → Except Err (List Ev)} {l : List (Rcn × Rc)} {evs : List Ev}
    (h : forClasses f l = .ok evs) {p0 : Rcn × Rc} (hp : p0 ∈ l) :
    ∃ l1 l2 A a0 B, l = l1 ++ p0 :: l2 ∧ forClasses f l1 = .ok A ∧ f p0.1 p0.2 = .ok a0 ∧
      forClasses f l2 = .ok B ∧ evs = A ++ (a0 ++ B) := by
  obtain ⟨l1, l2, rfl⟩ := List.append_of_mem hp
  rw [forClasses_append] at h
  cases h1 : forClasses f l1 with
  | error e => simp [h1] at h
  | ok A =>
    simp only [h1, forClasses] at h
    cases h0 : f p0.1 p0.2 with
    | error e => simp [h0] at h
    | ok a0 =>
      simp only [h0] at h
      cases h2 : forClasses f l2 with
      | error e => simp [h2] at h
      | ok B =>
        simp only [h2, Except.ok.injEq] at h
        exact ⟨l1, l2, A, a0, B, rfl, h1, rfl, h2, h.symm⟩

/-- Events of other classes leave an object class alone. -/
theorem step_frame {o o' : Objs} {e : Ev} {r : Rcn} (he : ∃ r', r' ≠ r ∧ e.onClass r' = true)
    (hs : o.step e = .ok o') : get o' r = get o r := by
  obtain ⟨r', hne, hon⟩ := he
  have viaSet : ∀ (f : ObjKeys → Except ObjErr ObjKeys) (o1 : Objs), o.withClass r' f = .ok o1 → get o1 r = get o r := by
    intro f o1 h
    obtain ⟨ks, ks', _, _, rfl⟩ := Objs.withClass_ok h
    exact get_set_ne _ _ hne
  cases e with
  | key r2 ke =>
    cases ke <;> simp only [Ev.onClass, decide_eq_true_eq] at hon <;> (try subst hon) <;>
      simp only [Objs.step] at hs
    · cases hs; rfl
    · exact viaSet _ _ hs
    · cases hs; rfl
    · exact viaSet _ _ hs
    · split at hs
      · cases hs
      · cases hs; exact get_set_ne _ _ hne
    · exact viaSet _ _ hs
    · exact viaSet _ _ hs
    · cases hon
  | products r2 u =>
    simp only [Ev.onClass, decide_eq_true_eq] at hon; subst hon
    simp only [Objs.step] at hs; exact viaSet _ _ hs
  | childCerts r2 u =>
    simp only [Ev.onClass, decide_eq_true_eq] at hon; subst hon
    simp only [Objs.step] at hs; exact viaSet _ _ hs
  | _ => simp [Ev.onClass] at hon

theorem stepAll_frame {o o' : Objs} {evs : List Ev} {r : Rcn}
    (he : ∀ e ∈ evs, ∃ r', r' ≠ r ∧ e.onClass r' = true) (hs : o.stepAll evs = .ok o') :
    get o' r = get o r := by
  induction evs generalizing o with
  | nil => simp only [Objs.stepAll, Except.ok.injEq] at hs; subst hs; rfl
  | cons e es ih =>
    simp only [Objs.stepAll] at hs
    cases h1 : o.step e with
    | error err => simp [h1] at hs
    | ok o1 =>
      simp only [h1] at hs
      rw [ih (fun e' he' => he e' (List.mem_cons_of_mem _ he')) hs]
      exact step_frame (he e (List.mem_cons_self ..)) h1

theorem stepAll_append {o : Objs} {a b : List Ev} :
    o.stepAll (a ++ b) = (match o.stepAll a with | .ok o1 => o1.stepAll b | .error e => .error e) := by
  induction a generalizing o with
  | nil => rfl
  | cons e es ih =>
    simp only [List.cons_append, Objs.stepAll]
    cases o.step e with
    | error err => rfl
    | ok o1 => exact ih

/-- Events of a class loop over classes with other names. -/
theorem forClasses_other {f : Rcn → Rc → Except Err (List Ev)}
    (hf : ∀ r rc evs, f r rc = .ok evs → ∀ e ∈ evs, e.onClass r = true)
    {l : List (Rcn × Rc)} {evs : List Ev} (h : forClasses f l = .ok evs) {r : Rcn} (hr : r ∉ keys l) :
    ∀ e ∈ evs, ∃ r', r' ≠ r ∧ e.onClass r' = true := by
  intro e he
  obtain ⟨p, hp, a, ha, hea⟩ := mem_forClasses h he
  refine ⟨p.1, ?_, hf p.1 p.2 a ha e hea⟩
  intro heq
  exact hr (heq ▸ List.mem_map.mpr ⟨p, hp, rfl⟩)

end KM.CaK
