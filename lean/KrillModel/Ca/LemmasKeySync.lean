/-
Helper lemmas for C04 / C02: the class-level sync machine (`Ca/KeySync.lean`) is simulated by
its finite abstraction.  No property statements.
-/
import KrillModel.Ca.KeySync
namespace KM.CaK
open KM.Res

/-- A key holding exactly the offered certificate does not want an update. -/
theorem wantsUpdate_offer (id : KeyId) (req : Bool) (o : Offer) (now : Int) :
    (CertKey.mk id o.cert req).wantsUpdate o.res o.na now = false := by
  simp only [CertKey.wantsUpdate, Offer.cert, Bool.not_true, Bool.false_eq_true, if_false, seteq_refl]
  split
  · rfl
  · simp

theorem abs_setIncoming (k : CertKey) (o : Offer) (now : Int) :
    (k.setIncoming o.cert).abs o now = AKey.fresh := by
  simp only [CertKey.abs, CertKey.setIncoming, AKey.fresh, AKey.mk.injEq, true_and]
  exact wantsUpdate_offer k.id false o now

theorem abs_create (ki : KeyId) (o : Offer) (now : Int) :
    (CertKey.create ki o.cert).abs o now = AKey.fresh := by
  simp only [CertKey.abs, CertKey.create, AKey.fresh, AKey.mk.injEq, true_and]
  exact wantsUpdate_offer ki false o now

theorem abs_req (k : CertKey) (b : Bool) (o : Offer) (now : Int) :
    ({ k with req := b } : CertKey).abs o now = ⟨b, (k.abs o now).want⟩ := rfl

theorem create_id (k : KeyId) (c : Cert) : (CertKey.create k c).id = k := rfl
theorem setIncoming_id (k : CertKey) (c : Cert) : (k.setIncoming c).id = k.id := rfl

theorem abs_req_proj (k : CertKey) (o : Offer) (now : Int) : (k.abs o now).req = k.req := rfl

theorem abs_syncStep {ks : KeyState} (hwf : ks.wf = true) (o : Offer) (now : Int) :
    (ks.syncStep o now).abs o now = (ks.abs o now).syncStep := by
  cases ks with
  | pending p =>
    obtain ⟨pid, preq⟩ := p
    cases preq <;>
      simp [KeyState.syncStep, KeyState.hasPending, KeyState.certRequests, KeyState.revokeRequest,
        KeyState.requestKeys, KeyState.applyRequested, KeyState.receive, KeyState.route,
        KeyState.applyPendingToActive, KeyState.abs, AState.syncStep, abs_create]
  | active c =>
    obtain ⟨cid, ccert, creq⟩ := c
    cases creq
    · by_cases hw : (CertKey.mk cid ccert false).wantsUpdate o.res o.na now = true
      · simp [KeyState.syncStep, KeyState.hasPending, KeyState.certRequests, KeyState.revokeRequest,
          KeyState.requestKeys, Offer.ent, hw, KeyState.applyRequested, KeyState.abs, AState.syncStep,
          CertKey.abs]
        simpa [CertKey.wantsUpdate] using hw
      · have hw' : (CertKey.mk cid ccert false).wantsUpdate o.res o.na now = false := by
          simpa using hw
        simp [KeyState.syncStep, KeyState.hasPending, KeyState.certRequests, KeyState.revokeRequest,
          KeyState.requestKeys, Offer.ent, hw', KeyState.abs, AState.syncStep, CertKey.abs]
    · simp [KeyState.syncStep, KeyState.hasPending, KeyState.certRequests, KeyState.revokeRequest,
        KeyState.receive, KeyState.route, KeyState.applyReceived, KeyState.abs, AState.syncStep,
        CertKey.abs, abs_setIncoming]
      exact abs_setIncoming _ o now
  | rollPending p c =>
    obtain ⟨pid, preq⟩ := p
    obtain ⟨cid, ccert, creq⟩ := c
    have hne : pid ≠ cid := by simpa [KeyState.wf] using hwf
    have hne' : cid ≠ pid := fun h => hne h.symm
    cases preq <;> cases creq
    · -- nothing open: entitlements
      cases hw : (CertKey.mk cid ccert false).wantsUpdate o.res o.na now <;>
        simp [KeyState.syncStep, KeyState.hasPending, KeyState.certRequests, KeyState.revokeRequest,
          KeyState.requestKeys, Offer.ent, hw, KeyState.applyRequested, KeyState.abs, AState.syncStep,
          CertKey.abs, hne] <;>
        (try simpa [CertKey.wantsUpdate] using hw)
    · simp [KeyState.syncStep, KeyState.hasPending, KeyState.certRequests, KeyState.revokeRequest,
        KeyState.receive, KeyState.route, KeyState.applyReceived, KeyState.abs, AState.syncStep, hne', abs_req_proj, abs_setIncoming, abs_create]
    · simp [KeyState.syncStep, KeyState.hasPending, KeyState.certRequests, KeyState.revokeRequest,
        KeyState.receive, KeyState.route, KeyState.applyPendingToNew, KeyState.abs, AState.syncStep,
        abs_create, abs_req_proj, abs_setIncoming]
    · simp [KeyState.syncStep, KeyState.hasPending, KeyState.certRequests, KeyState.revokeRequest,
        KeyState.receive, KeyState.route, KeyState.applyPendingToNew, KeyState.applyReceived,
        KeyState.abs, AState.syncStep, abs_create, hne, hne', abs_req_proj, abs_setIncoming, create_id,
        setIncoming_id]
  | rollNew n c =>
    obtain ⟨nid, ncert, nreq⟩ := n
    obtain ⟨cid, ccert, creq⟩ := c
    have hne : nid ≠ cid := by simpa [KeyState.wf] using hwf
    have hne' : cid ≠ nid := fun h => hne h.symm
    cases nreq <;> cases creq
    · cases hwn : (CertKey.mk nid ncert false).wantsUpdate o.res o.na now <;>
      cases hwc : (CertKey.mk cid ccert false).wantsUpdate o.res o.na now <;>
        simp [KeyState.syncStep, KeyState.hasPending, KeyState.certRequests, KeyState.revokeRequest,
          KeyState.requestKeys, Offer.ent, hwn, hwc, KeyState.applyRequested, KeyState.abs,
          AState.syncStep, CertKey.abs, hne, hne'] <;>
        (try constructor) <;> (try simpa [CertKey.wantsUpdate] using hwn) <;>
        (try simpa [CertKey.wantsUpdate] using hwc)
    · simp [KeyState.syncStep, KeyState.hasPending, KeyState.certRequests, KeyState.revokeRequest,
        KeyState.receive, KeyState.route, KeyState.applyReceived, KeyState.abs, AState.syncStep, hne, hne', abs_req_proj, abs_setIncoming]
    · simp [KeyState.syncStep, KeyState.hasPending, KeyState.certRequests, KeyState.revokeRequest,
        KeyState.receive, KeyState.route, KeyState.applyReceived, KeyState.abs, AState.syncStep, hne, hne', abs_req_proj, abs_setIncoming]
    · simp [KeyState.syncStep, KeyState.hasPending, KeyState.certRequests, KeyState.revokeRequest,
        KeyState.receive, KeyState.route, KeyState.applyReceived, KeyState.abs, AState.syncStep, hne, hne', abs_req_proj, abs_setIncoming,
        create_id, setIncoming_id]
  | rollOld c od =>
    obtain ⟨cid, ccert, creq⟩ := c
    cases creq
    · simp [KeyState.syncStep, KeyState.hasPending, KeyState.certRequests, KeyState.revokeRequest,
        KeyState.abs, AState.syncStep, CertKey.abs]
    · simp [KeyState.syncStep, KeyState.hasPending, KeyState.certRequests, KeyState.revokeRequest,
        KeyState.receive, KeyState.route, KeyState.applyReceived, KeyState.abs, AState.syncStep, abs_req_proj,
        abs_setIncoming]

theorem abs_activateStep (ks : KeyState) (o : Offer) (now : Int) :
    (ks.activateStep).abs o now = (ks.abs o now).activateStep := by
  cases ks with
  | rollNew n c =>
    obtain ⟨nid, ncert, nreq⟩ := n
    obtain ⟨cid, ccert, creq⟩ := c
    cases nreq <;> cases creq <;>
      simp [KeyState.activateStep, KeyState.keyrollActivate, KeyState.applyActivated, KeyState.abs,
        AState.activateStep, abs_req_proj, CertKey.abs]
  | pending p => simp [KeyState.activateStep, KeyState.keyrollActivate, KeyState.abs, AState.activateStep]
  | active c => simp [KeyState.activateStep, KeyState.keyrollActivate, KeyState.abs, AState.activateStep]
  | rollPending p c => simp [KeyState.activateStep, KeyState.keyrollActivate, KeyState.abs, AState.activateStep]
  | rollOld c od => simp [KeyState.activateStep, KeyState.keyrollActivate, KeyState.abs, AState.activateStep]

theorem wf_activateStep {ks : KeyState} (h : ks.wf = true) : ks.activateStep.wf = true := by
  cases ks with
  | rollNew n c =>
    obtain ⟨nid, ncert, nreq⟩ := n
    obtain ⟨cid, ccert, creq⟩ := c
    cases nreq <;> cases creq <;>
      simp_all [KeyState.activateStep, KeyState.keyrollActivate, KeyState.applyActivated, KeyState.wf]
  | pending p => simpa [KeyState.activateStep, KeyState.keyrollActivate] using h
  | active c => simpa [KeyState.activateStep, KeyState.keyrollActivate] using h
  | rollPending p c => simpa [KeyState.activateStep, KeyState.keyrollActivate] using h
  | rollOld c od => simpa [KeyState.activateStep, KeyState.keyrollActivate] using h

theorem wf_syncStep {ks : KeyState} (h : ks.wf = true) (o : Offer) (now : Int) :
    (ks.syncStep o now).wf = true := by
  cases ks with
  | pending p =>
    obtain ⟨pid, preq⟩ := p
    cases preq <;>
      simp [KeyState.syncStep, KeyState.hasPending, KeyState.certRequests, KeyState.revokeRequest,
        KeyState.requestKeys, KeyState.applyRequested, KeyState.receive, KeyState.route,
        KeyState.applyPendingToActive, KeyState.wf]
  | active c =>
    obtain ⟨cid, ccert, creq⟩ := c
    cases creq
    · cases hw : (CertKey.mk cid ccert false).wantsUpdate o.res o.na now <;>
        simp [KeyState.syncStep, KeyState.hasPending, KeyState.certRequests, KeyState.revokeRequest,
          KeyState.requestKeys, Offer.ent, hw, KeyState.applyRequested, KeyState.wf]
    · simp [KeyState.syncStep, KeyState.hasPending, KeyState.certRequests, KeyState.revokeRequest,
        KeyState.receive, KeyState.route, KeyState.applyReceived, KeyState.wf]
  | rollPending p c =>
    obtain ⟨pid, preq⟩ := p
    obtain ⟨cid, ccert, creq⟩ := c
    have hne : pid ≠ cid := by simpa [KeyState.wf] using h
    have hne' : cid ≠ pid := fun h => hne h.symm
    cases preq <;> cases creq
    · cases hw : (CertKey.mk cid ccert false).wantsUpdate o.res o.na now <;>
        simp [KeyState.syncStep, KeyState.hasPending, KeyState.certRequests, KeyState.revokeRequest,
          KeyState.requestKeys, Offer.ent, hw, KeyState.applyRequested, KeyState.wf, hne]
    · simp [KeyState.syncStep, KeyState.hasPending, KeyState.certRequests, KeyState.revokeRequest,
        KeyState.receive, KeyState.route, KeyState.applyReceived, KeyState.wf, hne, hne', setIncoming_id]
    · simp [KeyState.syncStep, KeyState.hasPending, KeyState.certRequests, KeyState.revokeRequest,
        KeyState.receive, KeyState.route, KeyState.applyPendingToNew, KeyState.wf, create_id, hne]
    · simp [KeyState.syncStep, KeyState.hasPending, KeyState.certRequests, KeyState.revokeRequest,
        KeyState.receive, KeyState.route, KeyState.applyPendingToNew, KeyState.applyReceived,
        KeyState.wf, create_id, setIncoming_id, hne, hne']
  | rollNew n c =>
    obtain ⟨nid, ncert, nreq⟩ := n
    obtain ⟨cid, ccert, creq⟩ := c
    have hne : nid ≠ cid := by simpa [KeyState.wf] using h
    have hne' : cid ≠ nid := fun h => hne h.symm
    cases nreq <;> cases creq
    · cases hwn : (CertKey.mk nid ncert false).wantsUpdate o.res o.na now <;>
      cases hwc : (CertKey.mk cid ccert false).wantsUpdate o.res o.na now <;>
        simp [KeyState.syncStep, KeyState.hasPending, KeyState.certRequests, KeyState.revokeRequest,
          KeyState.requestKeys, Offer.ent, hwn, hwc, KeyState.applyRequested, KeyState.wf, hne, hne']
    · simp [KeyState.syncStep, KeyState.hasPending, KeyState.certRequests, KeyState.revokeRequest,
        KeyState.receive, KeyState.route, KeyState.applyReceived, KeyState.wf, hne, hne', setIncoming_id]
    · simp [KeyState.syncStep, KeyState.hasPending, KeyState.certRequests, KeyState.revokeRequest,
        KeyState.receive, KeyState.route, KeyState.applyReceived, KeyState.wf, hne, hne', setIncoming_id]
    · simp [KeyState.syncStep, KeyState.hasPending, KeyState.certRequests, KeyState.revokeRequest,
        KeyState.receive, KeyState.route, KeyState.applyReceived, KeyState.wf, hne, hne', setIncoming_id]
  | rollOld c od =>
    obtain ⟨cid, ccert, creq⟩ := c
    cases creq <;>
      simp [KeyState.syncStep, KeyState.hasPending, KeyState.certRequests, KeyState.revokeRequest,
        KeyState.receive, KeyState.route, KeyState.applyReceived, KeyState.wf]

theorem abs_wf {ks : KeyState} (h : ks.wf = true) (o : Offer) (now : Int) : (ks.abs o now).wf = true := by
  cases ks <;> simp_all [KeyState.wf, KeyState.abs, AState.wf]

theorem abs_isActive (ks : KeyState) (o : Offer) (now : Int) :
    (ks.abs o now).isActive = decide (ks.variant = .active) := by
  cases ks <;> simp [KeyState.abs, AState.isActive, KeyState.variant]

theorem abs_rolling (ks : KeyState) (o : Offer) (now : Int) : (ks.abs o now).rolling = ks.rolling := by
  cases ks <;> rfl

theorem abs_round {ks : KeyState} (h : ks.wf = true) (o : Offer) (now : Int) :
    (ks.round o now).abs o now = (ks.abs o now).round ∧ (ks.round o now).wf = true := by
  unfold KeyState.round AState.round
  have h1 := wf_syncStep h o now
  have h2 := wf_activateStep h1
  refine ⟨?_, wf_syncStep h2 o now⟩
  rw [abs_syncStep h2, abs_activateStep, abs_syncStep h]

/-- The finite machine: two rounds complete every roll; three syncs make every state quiet. -/
theorem aState_two_rounds (a : AState) (hwf : a.wf = true) (hr : a.rolling = true) :
    (a.round.round).isActive = true := by
  cases a with
  | pending r => simp [AState.rolling] at hr
  | active c => simp [AState.rolling] at hr
  | rollPending pr c => obtain ⟨r, w⟩ := c; cases pr <;> cases r <;> cases w <;> decide
  | rollNew n c =>
    obtain ⟨r, w⟩ := c; obtain ⟨r2, w2⟩ := n
    cases r <;> cases w <;> cases r2 <;> cases w2 <;> decide
  | rollOld c oreq owant =>
    obtain ⟨r, w⟩ := c
    cases oreq
    · cases r <;> cases w <;> cases owant <;> decide
    · simp [AState.wf] at hwf

theorem aState_active_quiet (a : AState) (h : a.isActive = true) :
    (a.syncStep.syncStep).quiet = true ∧
    ∀ b : AState, b.quiet = true → b.syncStep = b ∧ b.activateStep = b := by
  refine ⟨?_, ?_⟩
  · cases a with
    | active c => obtain ⟨r, w⟩ := c; cases r <;> cases w <;> decide
    | _ => simp [AState.isActive] at h
  · intro b hb
    cases b with
    | active c =>
      obtain ⟨r, w⟩ := c
      cases r <;> cases w <;> simp [AState.quiet] at hb
      exact ⟨rfl, rfl⟩
    | _ => simp [AState.quiet] at hb

end KM.CaK
