/-
Executable forms of the C02 / C04 property predicates.  The theorems of `Props/C02.lean` and
`Props/C04.lean` are about these functions on the model's states; the driver `syskeys`
evaluates the same functions on the *implementation's* observed states (oracle).
Import-free (model files only).
-/
import KrillModel.Ca.CertAuth
namespace KM.CaK
open KM.Res KM.AMap

/-- Key state of the aggregate and key state of the published-object sets agree:
`pending` ↔ no object class, `active`/`rollPending` ↔ `current`, `rollNew` ↔ `staging`,
`rollOld` ↔ `old`, with the same keys and the same certificates. -/
def ksMirror (ks : KeyState) (ok : Option ObjKeys) : Bool :=
  match ks, ok with
  | .pending _, none => true
  | .active c, some (.current cs) => cs.key = c.id && cs.cert = c.cert
  | .rollPending _ c, some (.current cs) => cs.key = c.id && cs.cert = c.cert
  | .rollNew n c, some (.staging ss cs) =>
    ss.key = n.id && ss.cert = n.cert && cs.key = c.id && cs.cert = c.cert
  | .rollOld c o, some (.old cs os) =>
    cs.key = c.id && cs.cert = c.cert && os.key = o.id && os.cert = o.cert
  | _, _ => false

/-- `mirror` / `NoKeyWithoutCert`: every class of the aggregate mirrors its object class and
there is no object class without an aggregate class. -/
def Sys.mirrorOk (s : Sys) : Bool :=
  (keys s.ca.classes).all (fun r => match get s.ca.classes r with
    | some rc => ksMirror rc.keys (get s.objs r)
    | none => true) &&
  (keys s.objs).all (fun r => (get s.ca.classes r).isSome)

/-- `single_signer`: only the current set of a class carries products. -/
def Sys.singleSigner (s : Sys) : Bool :=
  (keys s.objs).all (fun r => match get s.objs r with
    | some ok => ok.sideSetsEmpty
    | none => true)

/-- Keys of a class are pairwise different. -/
def KeyState.distinct : KeyState → Bool
  | .rollPending p c => p.id ≠ c.id
  | .rollNew n c => n.id ≠ c.id
  | .rollOld c o => c.id ≠ o.id
  | _ => true

/-- `never_overclaims` on the aggregate: every issued child certificate lies inside the current
key's certificate. -/
def Rc.noOverclaim (rc : Rc) : Bool :=
  match rc.keys.current with
  | none => rc.certs.issued.isEmpty
  | some c => (AMap.keys rc.certs.issued).all (fun k => match get rc.certs.issued k with
    | some cc => subset cc.res c.cert.res
    | none => true)

def Ca.noOverclaim (s : Ca) : Bool :=
  (keys s.classes).all (fun r => match get s.classes r with
    | some rc => rc.noOverclaim
    | none => true)

/-- `never_overclaims` on the publication: every published child certificate lies inside the
certificate of the set that publishes it. -/
def ObjSet.noOverclaim (o : ObjSet) : Bool :=
  o.published.all fun p =>
    match p.2 with
    | .cert cc => subset cc.res o.cert.res
    | .prod _ => true

def Sys.noOverclaimPublished (s : Sys) : Bool := s.objs.all (fun p => p.2.currentSet.noOverclaim)

/-- `shrink_active_child` / `ActiveChildHasCert`: an active child's key that is in use in an
existing class has its certificate among the issued ones of that class. -/
def Ca.activeChildHasCert (s : Ca) : Bool :=
  s.children.all fun ch =>
    !ch.2.active || ch.2.usedKeys.all fun uk =>
      match uk.2 with
      | .revoked => true
      | .inUse rcn =>
        match get s.classes rcn with
        | none => true
        | some rc => (get rc.certs.issued uk.1).isSome

/-- No key is both issued and suspended in a class (what F-C02-1 breaks). -/
def Rc.noStale (rc : Rc) : Bool := rc.certs.issued.all fun p => !(get rc.certs.suspended p.1).isSome

def Ca.noStale (s : Ca) : Bool := s.classes.all (fun p => p.2.noStale)

/-- The published objects of the current set are exactly the products and issued certificates
of the class (names). -/
def Rc.publishedNames (rc : Rc) : List OName :=
  rc.products.map (fun p => OName.prod p.1.1 p.1.2) ++ rc.certs.issued.map (fun p => OName.cer p.1)

def sameNames (a b : List OName) : Bool := a.all (b.contains ·) && b.all (a.contains ·)

def Sys.objectsMirror (s : Sys) : Bool :=
  s.ca.classes.all fun p =>
    match get s.objs p.1 with
    | none => true
    | some ok => sameNames (keys ok.currentSet.published) p.2.publishedNames

/-- `CertAuth::has_pending_requests(parent)` (certauth.rs:1720-1727): what makes
`ca_sync_parent` send requests instead of fetching entitlements. -/
def Ca.hasPendingRequests (s : Ca) (p : Handle) : Bool :=
  s.classes.any fun q => decide (q.2.parent = p) && q.2.keys.hasPending

/-- The child has converged on the parent's list: nothing to send, every class under the parent
is listed, and for every listed class the matching resource class creates no event (no key
wants an update, no listed key is unknown). -/
def Ca.convergedB (s : Ca) (p : Handle) (ents : List Entitlement) (now : Int) : Bool :=
  !s.hasPendingRequests p &&
  s.classes.all (fun q => !decide (q.2.parent = p) || (ents.map (·.rcn)).contains q.2.parentRcn) &&
  ents.all fun ent =>
    match s.findParentRc p ent.rcn with
    | some q => (q.2.keys.entitlementEvents ent now).isEmpty
    | none => false

end KM.CaK
