/-
Histories without the F-C02-1 trigger: no certificate is issued for a key that has a suspended
entry in the class (so `add_issued_certificate` never meets a `suspended` entry it would have to
remove), i.e. no unsuspension of a suspended child and no certify for a key still suspended.
(The one-line repair of `add_issued_certificate` would make the restriction unnecessary.)
Import-free (model files only).
-/
import KrillModel.Ca.Reach
namespace KM.CaK
open KM.AMap

/-- The command does not issue for a key with a suspended entry. -/
def Cmd.quiet (s : Ca) : Cmd → Bool
  | .childUnsuspend ch _ _ =>
    match get s.children ch with
    | some c => c.active
    | none => true
  | .childCertify ch childRcn ki _ _ =>
    match get s.children ch with
    | some c =>
      match get s.classes (c.nameInParent childRcn) with
      | some rc => (get rc.certs.suspended ki).isNone
      | none => true
    | none => true
  | _ => true

inductive ReachableQ : Sys → Prop where
  | init : ReachableQ {}
  | step {s : Sys} (c : Cmd) : ReachableQ s → c.quiet s.ca = true → ReachableQ (s.next c)

theorem ReachableQ.reachable {s : Sys} (h : ReachableQ s) : Reachable s := by
  induction h with
  | init => exact .init
  | step c _ _ ih => exact .step c ih

end KM.CaK
