/-
Association-list primitives shared by the publication models (`Ca/RoaObjects.lean`,
`Ca/Objects.lean`).  krill keeps these collections in `HashMap`s; iteration order never reaches
an observation, so the model keeps them as lists of `(key, value)` pairs with unique keys and
gives them map semantics.

Import-free so that the driver can be compiled as a `lean_exe`.
-/
namespace KM.Ca.Pub

universe u v

variable {κ : Type u} {ν : Type v}

/-- Keys of an association list. -/
def keys (m : List (κ × ν)) : List κ := m.map (·.1)

/-- `HashMap::get`. -/
def get? [DecidableEq κ] (m : List (κ × ν)) (k : κ) : Option ν :=
  (m.find? (fun e => decide (e.1 = k))).map (·.2)

/-- `HashMap::contains_key`. -/
def has [DecidableEq κ] (m : List (κ × ν)) (k : κ) : Bool := decide (k ∈ keys m)

/-- `HashMap::remove`. -/
def erase [DecidableEq κ] (m : List (κ × ν)) (k : κ) : List (κ × ν) :=
  m.filter (fun e => decide (e.1 ≠ k))

/-- `HashMap::insert` (replaces an entry with the same key). -/
def put [DecidableEq κ] (m : List (κ × ν)) (k : κ) (v : ν) : List (κ × ν) :=
  erase m k ++ [(k, v)]

/-- Remove every key in `ks`. -/
def eraseAll [DecidableEq κ] (m : List (κ × ν)) (ks : List κ) : List (κ × ν) :=
  m.filter (fun e => decide (e.1 ∉ ks))

/-- Insert every entry of `us` (itself a map: unique keys), replacing entries with the same key. -/
def putAll [DecidableEq κ] (m us : List (κ × ν)) : List (κ × ν) :=
  m.filter (fun e => decide (e.1 ∉ keys us)) ++ us

/-- Remove duplicates (keeps the last occurrence). -/
def dedup {α : Type u} [DecidableEq α] : List α → List α
  | [] => []
  | a :: l => if a ∈ l then dedup l else a :: dedup l

/-- Same elements, as sets. -/
def sameMembers {α : Type u} [DecidableEq α] (a b : List α) : Bool :=
  a.all (fun x => decide (x ∈ b)) && b.all (fun x => decide (x ∈ a))

end KM.Ca.Pub
