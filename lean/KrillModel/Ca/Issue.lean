/-
Issuing a child certificate: `ResourceClass::issue_cert` (rc.rs:665-687) and
`SignSupport::make_issued_cert` (commons/crypto/signing/misc.rs:122-153) with
`RequestResourceLimit::apply_to` of rpki-rs.

Abstraction: a request limit is either empty (`none`) or one atom set that limits all three
resource families at once (atoms are AS + v4 + v6 triples).  Import-free.
-/
import KrillModel.Ca.Keys
namespace KM.CaK
open KM.Res

/-- `RequestResourceLimit`: `none` = `is_empty()`. -/
abbrev Limit := Option ResSet

inductive IssueErr where
  /-- rpki-rs `Error::limit`: the limit is not inside the set it is applied to -/
  | limit
  /-- `Error::MissingResources`: the signing certificate does not hold the resources -/
  | missingResources
  /-- `Error::KeyUseNoCurrentKey` -/
  | noCurrentKey
deriving DecidableEq, Repr

/-- `IssuedCertificate` / `SuspendedCert` as far as delegation reads it (the key is the map key). -/
structure ChildCert where
  res : ResSet
  limit : Limit := none
  /-- `validity.not_after` -/
  na : Int := 0
deriving DecidableEq, Repr

/-- `RequestResourceLimit::apply_to` -/
def applyLimit (l : Limit) (set : ResSet) : Except IssueErr ResSet :=
  match l with
  | none => .ok set
  | some lim => if subset lim set then .ok lim else .error .limit

/-- `SignSupport::make_issued_cert`: limit applied, containment in the signing certificate checked. -/
def makeIssued (res : ResSet) (l : Limit) (signing : Cert) (na : Int) : Except IssueErr ChildCert :=
  match applyLimit l res with
  | .error e => .error e
  | .ok r => if subset r signing.res then .ok { res := r, limit := l, na := na } else .error .missingResources

/-- `ResourceClass::issue_cert`: issuer's current certificate ∩ child entitlement, then the limit. -/
def issueCert (ks : KeyState) (childRes : ResSet) (l : Limit) (na : Int) : Except IssueErr ChildCert :=
  match ks.current with
  | none => .error .noCurrentKey
  | some c => makeIssued (inter c.cert.res childRes) l c.cert na

/-- `reduced_applicable_resources` (api/ca.rs:429-437): `none` when not over-claiming. -/
def ChildCert.reduced (cc : ChildCert) (encompassing : ResSet) : Option ResSet :=
  if subset cc.res encompassing then none else some (inter encompassing cc.res)

/-- `ChildCertificates::re_issue` (child.rs:346-370). -/
def reissue (prev : ChildCert) (updated : Option ResSet) (signing : Cert) (na : Int) :
    Except IssueErr ChildCert :=
  makeIssued (updated.getD prev.res) prev.limit signing na

/-! Non-vacuity -/
example :
    issueCert (.active ⟨1, { res := [1, 2, 3] }, false⟩) [2, 3, 4] none 7 = .ok { res := [2, 3], na := 7 } ∧
    issueCert (.active ⟨1, { res := [1, 2, 3] }, false⟩) [2, 3, 4] (some [3]) 7 =
      .ok { res := [3], limit := some [3], na := 7 } ∧
    issueCert (.active ⟨1, { res := [1, 2, 3] }, false⟩) [2, 3, 4] (some [4]) 7 = .error .limit ∧
    issueCert (.pending ⟨1, true⟩) [2] none 7 = .error .noCurrentKey := by decide

end KM.CaK
