/-
The `CertAuth` aggregate (src/server/ca/certauth.rs) projected onto resource classes, keys,
children and child certificates: `apply` (certauth.rs:368-673) as a **partial** function
(`none` = an `unwrap()` on a missing class / child or a `panic!` arm of rc.rs) and `process`
(certauth.rs:173-362) for the commands that touch that state.

What is an *input* of a command here although the code computes it: new key identifiers
(`signer.create_key()`), not-after times of new certificates (`Time::now()` + configuration),
the current time, and the ROA/ASPA/BGPsec object updates that accompany a received certificate
or a configuration change (their computation is modelled in C01/C05; here only *where* they may
go).  Import-free (model files only).
-/
import KrillModel.Ca.ObjKeys
namespace KM.CaK
open KM.Res KM.AMap

/-- `ResourceClass` -/
structure Rc where
  parent : Handle
  /-- `parent_rc_name` -/
  parentRcn : Rcn
  keys : KeyState
  /-- `certificates` -/
  certs : ChildCerts := {}
  /-- `roas`, `aspas`, `bgpsec_certificates`: identifier ↦ payload per kind -/
  products : AMap (PKind × Nat) Nat := []
deriving DecidableEq, Repr

/-- `ResourceClass::create` -/
def Rc.create (parent : Handle) (parentRcn : Rcn) (pending : KeyId) : Rc :=
  { parent := parent, parentRcn := parentRcn, keys := .pending ⟨pending, false⟩ }

/-- `apply_roa_updates` / `apply_aspa_updates` / `apply_bgpsec_updates`: insert, then remove. -/
def Rc.applyProducts (rc : Rc) (u : ProdUpd) : Rc :=
  let p := u.added.foldl (fun m a => set m (u.kind, a.1) a.2) rc.products
  { rc with products := u.removed.foldl (fun m r => del m (u.kind, r)) p }

/-- Products of one kind as `(id, payload)`. -/
def Rc.productsOf (rc : Rc) (k : PKind) : List (Nat × Nat) :=
  (rc.products.filter (fun p => p.1.1 = k)).map (fun p => (p.1.2, p.2))

/-- `CertAuth` -/
structure Ca where
  /-- `resources` -/
  classes : AMap Rcn Rc := []
  children : AMap Handle Child := []
  parents : List Handle := []
  /-- `next_class_name` -/
  nextClass : Nat := 0
  /-- `repository.is_some()` -/
  hasRepo : Bool := false
deriving DecidableEq, Repr

/-- `all_resources()`: union of the current certificates' resources. -/
def Ca.allResources (s : Ca) : ResSet :=
  s.classes.foldl (fun acc p => match p.2.keys.current with
    | some c => union acc c.cert.res
    | none => acc) []

/-- Marks `k` revoked for every child that has it in use (certauth.rs:426-432). -/
def revokeEverywhere (children : AMap Handle Child) (k : KeyId) : AMap Handle Child :=
  children.map fun p => if p.2.isIssued k then (p.1, { p.2 with usedKeys := set p.2.usedKeys k .revoked }) else p

/-- Update of an existing child (`children.get_mut(&child).unwrap()`). -/
def Ca.withChild (s : Ca) (ch : Handle) (f : Child → Child) : Option Ca :=
  match get s.children ch with
  | none => none
  | some c => some { s with children := set s.children ch (f c) }

/-- Update of an existing class (`resources.get_mut(&rcn).unwrap()`). -/
def Ca.withClass (s : Ca) (rcn : Rcn) (f : Rc → Option Rc) : Option Ca :=
  match get s.classes rcn with
  | none => none
  | some rc =>
    match f rc with
    | none => none
    | some rc' => some { s with classes := set s.classes rcn rc' }

/-- `CertAuth::apply` (certauth.rs:368-673). -/
def Ca.apply (s : Ca) : Ev → Option Ca
  | .rcAdded rcn parent parentRcn pending =>
    some { s with nextClass := s.nextClass + 1, classes := set s.classes rcn (Rc.create parent parentRcn pending) }
  | .rcRemoved rcn => some { s with classes := del s.classes rcn }
  | .key _ (.unexpected _) => some s   -- "no action needed" (certauth.rs:577-582): no class look-up
  | .key rcn e => s.withClass rcn fun rc => (rc.keys.apply e).map fun ks => { rc with keys := ks }
  | .products rcn u => s.withClass rcn fun rc => some (rc.applyProducts u)
  | .childCerts rcn u =>
    match s.withClass rcn fun rc => some { rc with certs := rc.certs.applyUpd u } with
    | none => none
    | some s' => some { s' with children := u.removed.foldl revokeEverywhere s'.children }
  | .childAdded ch res => some { s with children := set s.children ch { res := res } }
  | .childCertIssued ch rcn ki => s.withChild ch fun c => { c with usedKeys := set c.usedKeys ki (.inUse rcn) }
  | .childKeyRevoked ch rcn ki =>
    match s.withClass rcn fun rc => some { rc with certs := rc.certs.removeRevoked ki } with
    | none => none
    | some s' => s'.withChild ch fun c => { c with usedKeys := set c.usedKeys ki .revoked }
  | .childUpdatedResources ch res => s.withChild ch fun c => { c with res := res }
  | .childUpdatedId ch => s.withChild ch fun c => c
  | .childMapping ch n m => s.withChild ch fun c => { c with rcnMap := set c.rcnMap n m }
  | .childRemoved ch => some { s with children := del s.children ch }
  | .childSuspended ch => s.withChild ch fun c => { c with active := false }
  | .childUnsuspended ch => s.withChild ch fun c => { c with active := true }
  | .parentAdded p => some { s with parents := p :: s.parents.filter (· ≠ p) }
  | .parentRemoved p =>
    some { s with parents := s.parents.filter (· ≠ p), classes := s.classes.filter (fun q => q.2.parent ≠ p) }
  | .repoUpdated => some { s with hasRepo := true }
  | .other => some s

def Ca.applyAll (s : Ca) : List Ev → Option Ca
  | [] => some s
  | e :: es => (s.apply e).bind (·.applyAll es)

/-! ## Commands -/

inductive Cmd where
  /-- `ChildAdd` -/
  | childAdd (ch : Handle) (res : ResSet)
  /-- `ChildUpdateResources` -/
  | childUpdateResources (ch : Handle) (res : ResSet)
  /-- `ChildUpdateResourceClassNameMapping` -/
  | childMapping (ch : Handle) (nameInParent nameForChild : Rcn)
  /-- `ChildCertify`: the request names the class as the child knows it -/
  | childCertify (ch : Handle) (childRcn : Rcn) (ki : KeyId) (limit : Limit) (na : Int)
  /-- `ChildRevokeKey` -/
  | childRevokeKey (ch : Handle) (childRcn : Rcn) (ki : KeyId)
  /-- `ChildRemove` -/
  | childRemove (ch : Handle)
  /-- `ChildSuspendInactive` -/
  | childSuspend (ch : Handle)
  /-- `ChildUnsuspend`; `now1d` = now + 1 day, `na` = not-after of re-issued certificates -/
  | childUnsuspend (ch : Handle) (now1d : Int) (na : Int)
  /-- `AddParent` -/
  | addParent (p : Handle)
  /-- `RemoveParent` -/
  | removeParent (p : Handle)
  /-- `UpdateEntitlements`; `fresh` = keys created for new classes, in order -/
  | updateEntitlements (p : Handle) (ents : List Entitlement) (now : Int) (fresh : List KeyId)
  /-- `UpdateRcvdCert`; `prods` = the ROA/ASPA/BGPsec updates the new certificate leads to -/
  | updateRcvdCert (rcn : Rcn) (ki : KeyId) (cert : Cert) (na : Int) (prods : List ProdUpd)
  /-- `DropResourceClass` -/
  | dropClass (rcn : Rcn)
  /-- `KeyRollInitiate`; `fresh` = the key created per class -/
  | keyrollInit (fresh : AMap Rcn KeyId)
  /-- `KeyRollActivate`; `na` = not-after of the re-issued child certificates -/
  | keyrollActivate (na : Int)
  /-- `KeyRollFinish` -/
  | keyrollFinish (rcn : Rcn)
  /-- `RepoUpdate`: sets the repository; when there already is one, every class must be `Active`
  and starts a roll towards the new repository (certauth.rs:2150-2192); `fresh` as for
  `keyrollInit` -/
  | repoUpdate (fresh : AMap Rcn KeyId)
  /-- a configuration change or renewal (`RouteAuthorizationsUpdate`, `AspasUpdate`, …, `…Renew`):
  the object updates it computed, per class -/
  | config (upds : List (Rcn × ProdUpd))
deriving DecidableEq, Repr

inductive Err where
  | key (e : KeyErr)
  | issue (e : IssueErr)
  /-- `ResourceClassUnknown` -/
  | unknownClass
  /-- `CaChildUnknown` -/
  | unknownChild
  /-- `CaChildMustHaveResources` -/
  | childNoResources
  /-- `CaChildExtraResources` -/
  | childExtraResources
  /-- `CaChildDuplicate` -/
  | childDuplicate
  /-- "child already received certificate(s)" -/
  | childHasCerts
  /-- "child already sees another resource class under that name" (fix 02d8de59) -/
  | childNameClash
  /-- `KeyUseNoIssuedCert` -/
  | noIssuedCert
  /-- `CaParentDuplicateName` -/
  | parentDuplicate
  /-- `CaParentUnknown` -/
  | parentUnknown
  /-- `CaRepoIssue` (no repository configured) -/
  | noRepo
  /-- `KeyRollInProgress` -/
  | keyRollInProgress
  /-- the input does not provide a new key where the code creates one, or the new key is
  already a key of that class (`create_key` returns new keys) -/
  | badFreshKey
deriving DecidableEq, Repr

/-- `append_child_certify` (certauth.rs:1367-1416). -/
def Ca.childCertifyEvents (s : Ca) (ch : Handle) (res : ResSet) (myRcn : Rcn) (ki : KeyId)
    (limit : Limit) (na : Int) : Except Err (List Ev) :=
  match get s.classes myRcn with
  | none => .error .unknownClass
  | some rc =>
    match issueCert rc.keys res limit na with
    | .error e => .error (.issue e)
    | .ok cc => .ok [.childCertIssued ch myRcn ki, .childCerts myRcn { issued := [(ki, cc)] }]

/-- The per-class loop of `process_child_remove` (certauth.rs:1479-1503). -/
def removeEventsFor (c : Child) (classes : List (Rcn × Rc)) : List Ev :=
  classes.filterMap fun p =>
    let keys := c.issuedKeys p.1
    if keys.isEmpty then none
    else some (.childCerts p.1 { removed := keys.filter fun k => (get p.2.certs.issued k).isSome })

/-- The per-class loop of `process_child_suspend_inactive` (certauth.rs:1535-1554). -/
def suspendEventsFor (c : Child) (classes : List (Rcn × Rc)) : List Ev :=
  classes.filterMap fun p =>
    let keys := c.issuedKeys p.1
    if keys.isEmpty then none
    else some (.childCerts p.1 { suspended := keys.filterMap fun k => (get p.2.certs.issued k).map fun cc => (k, cc) })

/-- The per-key loop of `process_child_unsuspend` for one class (certauth.rs:1613-1643):
re-issue events so far, keys to remove. -/
def unsuspendKeys (s : Ca) (ch : Handle) (c : Child) (rcn : Rcn) (rc : Rc) (now1d na : Int) :
    List KeyId → Except Err (List Ev × List KeyId)
  | [] => .ok ([], [])
  | k :: ks =>
    match get rc.certs.suspended k with
    | none => unsuspendKeys s ch c rcn rc now1d na ks
    | some sc =>
      if sc.na > now1d && subset sc.res c.res then
        match s.childCertifyEvents ch sc.res rcn k sc.limit na with
        | .error e => .error e
        | .ok evs =>
          match unsuspendKeys s ch c rcn rc now1d na ks with
          | .error e => .error e
          | .ok (es, rem) => .ok (evs ++ es, rem)
      else
        match unsuspendKeys s ch c rcn rc now1d na ks with
        | .error e => .error e
        | .ok (es, rem) => .ok (es, k :: rem)

/-- The class loop of `process_child_unsuspend` (certauth.rs:1604-1649).  Per class: the
re-issue events (`append_child_certify` pushes onto the result vector directly), then the
class's own – possibly empty – `ChildCertificatesUpdated` with the removed keys. -/
def unsuspendClasses (s : Ca) (ch : Handle) (c : Child) (now1d na : Int) :
    List (Rcn × Rc) → Except Err (List Ev)
  | [] => .ok []
  | p :: ps =>
    let keys := c.issuedKeys p.1
    if keys.isEmpty then unsuspendClasses s ch c now1d na ps
    else
      match unsuspendKeys s ch c p.1 p.2 now1d na keys with
      | .error e => .error e
      | .ok (evs, rem) =>
        match unsuspendClasses s ch c now1d na ps with
        | .error e => .error e
        | .ok rest => .ok (evs ++ [.childCerts p.1 { removed := rem }] ++ rest)

/-- `find_parent_rc` -/
def Ca.findParentRc (s : Ca) (p : Handle) (parentRcn : Rcn) : Option (Rcn × Rc) :=
  s.classes.find? fun q => q.2.parent = p ∧ q.2.parentRcn = parentRcn

/-- The test of `process_child_resource_class_name_mapping` (certauth.rs:1340-1346, fix 02d8de59):
some class other than `n` - an existing one or one named in the child's mapping - already appears
to the child under the name `m`. -/
def Ca.nameTaken (s : Ca) (c : Child) (n m : Rcn) : Bool :=
  ((keys s.classes ++ keys c.rcnMap).filter (· ≠ n)).any fun q => c.nameForChild q = m

/-- The entitlement loop of `process_update_entitlements` (certauth.rs:1924-1978). -/
def entitlementLoop (s : Ca) (p : Handle) (now : Int) :
    List Entitlement → Nat → List KeyId → Except Err (List Ev)
  | [], _, _ => .ok []
  | ent :: ents, next, fresh =>
    match s.findParentRc p ent.rcn with
    | some (rcn, rc) =>
      if !s.hasRepo then .error .noRepo
      else
        match entitlementLoop s p now ents next fresh with
        | .error e => .error e
        | .ok rest => .ok ((rc.keys.entitlementEvents ent now).map (.key rcn) ++ rest)
    | none =>
      match fresh with
      | [] => .error .badFreshKey
      | k :: fresh' =>
        if !s.hasRepo then .error .noRepo
        else
          match entitlementLoop s p now ents (next + 1) fresh' with
          | .error e => .error e
          | .ok rest =>
            .ok (.rcAdded next p ent.rcn k ::
              ((KeyState.pending ⟨k, false⟩).entitlementEvents ent now).map (.key next) ++ rest)

/-- The class loop of `process_keyroll_initiate` (certauth.rs:2075-2087). -/
def keyrollInitLoop (fresh : AMap Rcn KeyId) : List (Rcn × Rc) → Except Err (List Ev)
  | [] => .ok []
  | p :: ps =>
    match p.2.keys with
    | .active c =>
      match get fresh p.1 with
      | none => .error .badFreshKey
      | some k =>
        if k = c.id then .error .badFreshKey
        else
          match keyrollInitLoop fresh ps with
          | .error e => .error e
          | .ok rest => .ok ((p.2.keys.keyrollInitiate k).map (.key p.1) ++ rest)
    | _ => keyrollInitLoop fresh ps

/-- Non-empty product renewal of one kind. -/
def renewal (rcn : Rcn) (rc : Rc) (k : PKind) : List Ev :=
  let ps := rc.productsOf k
  if ps.isEmpty then [] else [.products rcn { kind := k, added := ps }]

/-- `ResourceClass::append_keyroll_activate` (rc.rs:560-638) for one class. -/
def activateClass (rcn : Rcn) (rc : Rc) (na : Int) : Except Err (List Ev) :=
  match rc.keys.newKey with
  | none => .ok []
  | some n =>
    match rc.keys.keyrollActivate with
    | .error e => .error (.key e)
    | .ok kevs =>
      match rc.certs.activateKey n.cert na with
      | .error e => .error (.issue e)
      | .ok upd =>
        .ok (kevs.map (.key rcn) ++ renewal rcn rc .roa ++ renewal rcn rc .aspa ++
          (if upd.isEmpty then [] else [.childCerts rcn upd]) ++ renewal rcn rc .bgpsec)

def activateLoop (na : Int) : List (Rcn × Rc) → Except Err (List Ev)
  | [] => .ok []
  | p :: ps =>
    match activateClass p.1 p.2 na with
    | .error e => .error e
    | .ok evs =>
      match activateLoop na ps with
      | .error e => .error e
      | .ok rest => .ok (evs ++ rest)

/-- `process_rcvd_cert_current` (rc.rs:354-473). -/
def Rc.rcvdCertCurrent (rc : Rc) (rcn : Rcn) (c : CertKey) (ki : KeyId) (cert : Cert) (na : Int)
    (prods : List ProdUpd) : Except Err (List Ev) :=
  if seteq cert.res c.cert.res then .ok [.key rcn (.received ki cert)]
  else
    match rc.certs.shrinkOverclaiming cert na with
    | .error e => .error (.issue e)
    | .ok upd =>
      .ok (.key rcn (.received ki cert) :: (if upd.isEmpty then [] else [.childCerts rcn upd]) ++
        (prods.filter (!·.isEmpty)).map (.products rcn))

/-- `CertAuth::process_command` (certauth.rs:173-362) for the modelled commands. -/
def Ca.process (s : Ca) : Cmd → Except Err (List Ev)
  | .childAdd ch res =>
    if isEmpty res then .error .childNoResources
    else if !subset res s.allResources then .error .childExtraResources
    else if (get s.children ch).isSome then .error .childDuplicate
    else .ok [.childAdded ch res]
  | .childUpdateResources ch res =>
    if !subset res s.allResources then .error .childExtraResources
    else
      match get s.children ch with
      | none => .error .unknownChild
      | some c => if seteq res c.res then .ok [] else .ok [.childUpdatedResources ch res]
  | .childMapping ch n m =>
    match get s.children ch with
    | none => .error .unknownChild
    | some c =>
      if !(c.issuedKeys n).isEmpty then .error .childHasCerts
      -- certauth.rs:1337-1352 (fix 02d8de59): the names under which the child sees the classes stay
      -- distinct - no other class (existing, or named in a mapping) may appear under `m`
      else if s.nameTaken c n m then .error .childNameClash
      else .ok [.childMapping ch n m]
  | .childCertify ch childRcn ki limit na =>
    match get s.children ch with
    | none => .error .unknownChild
    | some c => s.childCertifyEvents ch c.res (c.nameInParent childRcn) ki limit na
  | .childRevokeKey ch childRcn ki =>
    -- certauth.rs:1429-1447 after fix 43d7eca0: the child's name is translated first, the class
    -- test is made on the parent's own name
    match get s.children ch with
    | none => .error .unknownChild
    | some c =>
      let myRcn := c.nameInParent childRcn
      if !(get s.classes myRcn).isSome then .ok []
      else if !c.isIssued ki then
        -- certauth.rs:1476-1487 (fix 7be8c4c6): a key this CA marked revoked itself - the request is
        -- confirmed, nothing to do; a key the child never used is refused
        if get c.usedKeys ki = some .revoked then .ok [] else .error .noIssuedCert
      -- certauth.rs:1477-1484 (fix 239f0a59): the key is in use in ANOTHER class than the one named in
      -- the request - its certificate is not in this class: refused, not confirmed
      else if get c.usedKeys ki ≠ some (.inUse myRcn) then .error .noIssuedCert
      else .ok [.childKeyRevoked ch myRcn ki, .childCerts myRcn { removed := [ki] }]
  | .childRemove ch =>
    match get s.children ch with
    | none => .error .unknownChild
    | some c => .ok (removeEventsFor c s.classes ++ [.childRemoved ch])
  | .childSuspend ch =>
    match get s.children ch with
    | none => .error .unknownChild
    | some c =>
      if !c.active then .ok []
      else
        let evs := suspendEventsFor c s.classes
        if evs.isEmpty then .ok [] else .ok (evs ++ [.childSuspended ch])
  | .childUnsuspend ch now1d na =>
    match get s.children ch with
    | none => .error .unknownChild
    | some c =>
      if c.active then .ok []
      else
        match unsuspendClasses s ch c now1d na s.classes with
        | .error e => .error e
        | .ok evs => .ok (evs ++ [.childUnsuspended ch])
  | .addParent p => if s.parents.contains p then .error .parentDuplicate else .ok [.parentAdded p]
  | .removeParent p =>
    if !s.parents.contains p then .error .parentUnknown
    else .ok (((s.classes.filter fun q => q.2.parent = p).map fun q => Ev.rcRemoved q.1) ++ [.parentRemoved p])
  | .updateEntitlements p ents now fresh =>
    let removed := (s.classes.filter fun q => q.2.parent = p ∧ !(ents.map (·.rcn)).contains q.2.parentRcn).map
      fun q => Ev.rcRemoved q.1
    match entitlementLoop s p now ents s.nextClass fresh with
    | .error e => .error e
    | .ok evs => .ok (removed ++ evs)
  | .updateRcvdCert rcn ki cert na prods =>
    match get s.classes rcn with
    | none => .error .unknownClass
    | some rc =>
      match rc.keys.route ki with
      | .error e => .error (.key e)
      | .ok .toActive =>
        .ok (.key rcn (.pendingToActive (CertKey.create ki cert)) :: (prods.filter (!·.isEmpty)).map (.products rcn))
      | .ok .toNew => .ok [.key rcn (.pendingToNew (CertKey.create ki cert))]
      | .ok .newCert => .ok [.key rcn (.received ki cert)]
      | .ok (.current c) => rc.rcvdCertCurrent rcn c ki cert na prods
  | .dropClass rcn =>
    match get s.classes rcn with
    | none => .error .unknownClass
    | some _ => .ok [.rcRemoved rcn]
  | .keyrollInit fresh =>
    if s.classes.isEmpty then .ok []
    else if !s.hasRepo then .error .noRepo
    else keyrollInitLoop fresh s.classes
  | .keyrollActivate na => activateLoop na s.classes
  | .repoUpdate fresh =>
    if !s.hasRepo then .ok [.repoUpdated]
    else if s.classes.any (fun p => p.2.keys.variant ≠ .active) then .error .keyRollInProgress
    else
      match keyrollInitLoop fresh s.classes with
      | .error e => .error e
      | .ok evs => .ok (evs ++ [.repoUpdated])
  | .keyrollFinish rcn =>
    match get s.classes rcn with
    | none => .error .unknownClass
    | some rc =>
      match rc.keys.keyrollFinish with
      | .error e => .error (.key e)
      | .ok e => .ok [.key rcn e]
  | .config upds =>
    .ok ((upds.filter fun u =>
      !u.2.isEmpty && (match get s.classes u.1 with
        | some rc => rc.keys.current.isSome
        | none => false)).map fun u => .products u.1 u.2)

/-- `process` of the tree BEFORE the fixes 7be8c4c6, 02d8de59 and 239f0a59 for the two commands
they changed (counter-models of F-C02-2 / F-C01-3 / F-C08-6, of F-C02-3 / F-C03-2 and of F-C03-3;
says nothing about the current tree): a revocation request for a key that is not in use is refused
even when this CA revoked the key itself, a key in use in ANY class is revoked in the class the
request names, and a class-name mapping is accepted whatever name it gives the child. -/
def Ca.pinnedProcess (s : Ca) : Cmd → Except Err (List Ev)
  | .childMapping ch n m =>
    match get s.children ch with
    | none => .error .unknownChild
    | some c => if !(c.issuedKeys n).isEmpty then .error .childHasCerts else .ok [.childMapping ch n m]
  | .childRevokeKey ch childRcn ki =>
    match get s.children ch with
    | none => .error .unknownChild
    | some c =>
      let myRcn := c.nameInParent childRcn
      if !(get s.classes myRcn).isSome then .ok []
      else if !c.isIssued ki then .error .noIssuedCert
      else .ok [.childKeyRevoked ch myRcn ki, .childCerts myRcn { removed := [ki] }]
  | c => s.process c

/-- A system state: the aggregate and its published-object sets. -/
structure Sys where
  ca : Ca := {}
  objs : Objs := []
deriving DecidableEq, Repr

/-- Storing a command: the events are applied to the aggregate, the pre-save listener updates
the object sets; a listener error makes the command fail and nothing is stored. -/
inductive Outcome where
  /-- command refused, nothing changes -/
  | refused (e : Err)
  /-- an `apply_*` arm panicked / unwrapped `None` -/
  | panic
  /-- the pre-save listener returned an error: the command fails, nothing is stored -/
  | listenerError (e : ObjErr)
  | stored (evs : List Ev) (s : Sys)
deriving DecidableEq, Repr

def Sys.exec (s : Sys) (c : Cmd) : Outcome :=
  match s.ca.process c with
  | .error e => .refused e
  | .ok evs =>
    match s.ca.applyAll evs with
    | none => .panic
    | some ca' =>
      match s.objs.stepAll evs with
      | .error e => .listenerError e
      | .ok o' => .stored evs ⟨ca', o'⟩

/-- State after a command (unchanged unless stored). -/
def Sys.next (s : Sys) (c : Cmd) : Sys :=
  match s.exec c with
  | .stored _ s' => s'
  | _ => s

def Sys.run (s : Sys) : List Cmd → Sys
  | [] => s
  | c :: cs => (s.next c).run cs

/-- `Sys.exec` over the pinned `process`. -/
def Sys.pinnedExec (s : Sys) (c : Cmd) : Outcome :=
  match s.ca.pinnedProcess c with
  | .error e => .refused e
  | .ok evs =>
    match s.ca.applyAll evs with
    | none => .panic
    | some ca' =>
      match s.objs.stepAll evs with
      | .error e => .listenerError e
      | .ok o' => .stored evs ⟨ca', o'⟩

def Sys.pinnedNext (s : Sys) (c : Cmd) : Sys :=
  match s.pinnedExec c with
  | .stored _ s' => s'
  | _ => s

def Sys.pinnedRun (s : Sys) : List Cmd → Sys
  | [] => s
  | c :: cs => (s.pinnedNext c).pinnedRun cs

end KM.CaK
