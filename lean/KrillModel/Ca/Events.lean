/-
The part of `CertAuthEvent` (src/server/ca/events.rs) the delegation and key-roll model reads,
with abstract payloads.  ROA / ASPA / BGPsec object updates are one event kind `products`
(kind, added `(id, payload)`, removed ids): their *contents* are computed by code modelled
elsewhere (C01/C05); here they are the products that have to follow the signing key.
Import-free (model files only).
-/
import KrillModel.Ca.Child
namespace KM.CaK
open KM.Res

/-- Kind of a signed product of a resource class. -/
inductive PKind where
  | roa | aspa | bgpsec
deriving DecidableEq, Repr

/-- `RoaUpdates` / `AspaObjectsUpdates` / `BgpSecCertificateUpdates`: objects added or
replaced (identifier, payload), objects removed. -/
structure ProdUpd where
  kind : PKind
  added : List (Nat × Nat) := []
  removed : List Nat := []
deriving DecidableEq, Repr

def ProdUpd.isEmpty (u : ProdUpd) : Bool := u.added.isEmpty && u.removed.isEmpty

inductive Ev where
  /-- `ResourceClassAdded` -/
  | rcAdded (rcn : Rcn) (parent : Handle) (parentRcn : Rcn) (pending : KeyId)
  /-- `ResourceClassRemoved` -/
  | rcRemoved (rcn : Rcn)
  /-- `CertificateRequested`, `CertificateReceived`, `KeyRollPendingKeyAdded`, `KeyPendingToNew`,
  `KeyPendingToActive`, `KeyRollActivated`, `KeyRollFinished`, `UnexpectedKeyFound` -/
  | key (rcn : Rcn) (e : KeyEv)
  /-- `RoasUpdated`, `AspaObjectsUpdated`, `BgpSecCertificatesUpdated` -/
  | products (rcn : Rcn) (u : ProdUpd)
  /-- `ChildCertificatesUpdated` -/
  | childCerts (rcn : Rcn) (u : CertUpd)
  | childAdded (ch : Handle) (res : ResSet)
  | childCertIssued (ch : Handle) (rcn : Rcn) (ki : KeyId)
  | childKeyRevoked (ch : Handle) (rcn : Rcn) (ki : KeyId)
  | childUpdatedResources (ch : Handle) (res : ResSet)
  /-- `ChildUpdatedIdCert` (the certificate itself is not modelled) -/
  | childUpdatedId (ch : Handle)
  /-- `ChildUpdatedResourceClassNameMapping` -/
  | childMapping (ch : Handle) (nameInParent nameForChild : Rcn)
  | childRemoved (ch : Handle)
  | childSuspended (ch : Handle)
  | childUnsuspended (ch : Handle)
  | parentAdded (p : Handle)
  | parentRemoved (p : Handle)
  | repoUpdated
  /-- events that touch nothing modelled here (route/ASPA/BGPsec definitions, `IdUpdated`, RTA, `ParentUpdated`) -/
  | other
deriving DecidableEq, Repr

/-- The resource class an event is about (used to compare event lists up to the arbitrary
`HashMap` order in which classes are visited). -/
def Ev.rcn? : Ev → Option Rcn
  | .rcAdded r .. => some r
  | .rcRemoved r => some r
  | .key r _ => some r
  | .products r _ => some r
  | .childCerts r _ => some r
  | .childCertIssued _ r _ => some r
  | .childKeyRevoked _ r _ => some r
  | _ => none

end KM.CaK
