/-
Helper lemmas for C04 / C02: the invariant holds in every reachable state.  No property
statements.
-/
import KrillModel.Ca.LemmasProcess
import KrillModel.Ca.Reach
namespace KM.CaK
open KM.Res KM.AMap

/-- A command keeps the invariant (stored or not). -/
theorem inv_next {s : Sys} (hinv : Inv s) (c : Cmd) : Inv (s.next c) := by
  unfold Sys.next
  cases hex : s.exec c with
  | refused e => exact hinv
  | panic => exact hinv
  | listenerError e => exact hinv
  | stored evs s' =>
    simp only
    by_cases hok : RevokeOk s.ca c
    · obtain ⟨hp, hr⟩ := exec_stored_iff.mp hex
      obtain ⟨s'', hrun, hinv'⟩ := readySeq_run hinv (process_readySeq hinv hok hp)
      rw [hr] at hrun; cases hrun; exact hinv'
    · rw [bad_revoke_not_stored hinv hok hex]; exact hinv

theorem reachable_inv {s : Sys} (h : Reachable s) : Inv s := by
  induction h with
  | init => exact inv_init
  | step c _ ih => exact inv_next ih c

end KM.CaK
