/-
Helper lemmas for C04 / C02: event sequences.  `Ready` = what has to hold of the aggregate for
one event to be applied without panic and accepted by the pre-save listener; `ReadySeq` = the
same along a list; running a ready sequence from a state with the invariant succeeds on both
sides and keeps the invariant.  No property statements.
-/
import KrillModel.Ca.LemmasInv
namespace KM.CaK
open KM.Res KM.AMap

/-- One event on both sides (`none`: the aggregate panics or the listener refuses). -/
def Sys.stepEv (s : Sys) (e : Ev) : Option Sys :=
  match s.ca.apply e with
  | none => none
  | some ca' =>
    match s.objs.step e with
    | .error _ => none
    | .ok o' => some ⟨ca', o'⟩

def Sys.runEvs (s : Sys) : List Ev → Option Sys
  | [] => some s
  | e :: es => (s.stepEv e).bind (·.runEvs es)

theorem runEvs_some_iff {s : Sys} {evs : List Ev} {ca' : Ca} {o' : Objs} :
    s.runEvs evs = some ⟨ca', o'⟩ ↔ s.ca.applyAll evs = some ca' ∧ s.objs.stepAll evs = .ok o' := by
  induction evs generalizing s with
  | nil =>
    simp only [Sys.runEvs, Ca.applyAll, Objs.stepAll, Option.some.injEq, Except.ok.injEq]
    constructor
    · intro h; cases h; exact ⟨rfl, rfl⟩
    · rintro ⟨rfl, rfl⟩; rfl
  | cons e es ih =>
    simp only [Sys.runEvs, Sys.stepEv, Ca.applyAll, Objs.stepAll]
    cases ha : s.ca.apply e with
    | none => simp
    | some ca1 =>
      cases ho : s.objs.step e with
      | error err =>
        simp
      | ok o1 =>
        simp only [Option.bind_some]
        exact ih (s := ⟨ca1, o1⟩)

theorem runEvs_none_iff {s : Sys} {evs : List Ev} :
    s.runEvs evs = none ↔ s.ca.applyAll evs = none ∨ ∃ e, s.objs.stepAll evs = .error e := by
  constructor
  · intro h
    cases ha : s.ca.applyAll evs with
    | none => exact Or.inl rfl
    | some ca' =>
      cases ho : s.objs.stepAll evs with
      | error e => exact Or.inr ⟨e, rfl⟩
      | ok o' =>
        have := (runEvs_some_iff (s := s) (evs := evs)).mpr ⟨ha, ho⟩
        rw [h] at this; cases this
  · intro h
    cases hr : s.runEvs evs with
    | none => rfl
    | some s' =>
      obtain ⟨ca', o'⟩ := s'
      obtain ⟨ha, ho⟩ := runEvs_some_iff.mp hr
      rcases h with h | ⟨e, h⟩
      · rw [ha] at h; cases h
      · rw [ho] at h; cases h

/-- Key identifiers that hold a certificate. -/
def KeyState.certified : KeyState → List KeyId
  | .pending _ => []
  | .active c => [c.id]
  | .rollPending _ c => [c.id]
  | .rollNew n c => [n.id, c.id]
  | .rollOld c o => [c.id, o.id]

/-- What the listener needs beyond what the mirror gives. -/
def ObjReady (s : Ca) : Ev → Prop
  | .products r _ => ∃ rc, get s.classes r = some rc ∧ rc.keys.current.isSome = true
  | .childCerts r _ => ∃ rc, get s.classes r = some rc ∧ rc.keys.current.isSome = true
  | .key r (.received ki _) => ∃ rc, get s.classes r = some rc ∧ ki ∈ rc.keys.certified
  | _ => True

/-- An event the aggregate can apply and the listener accepts, with what `process` guarantees. -/
structure Ready (s : Ca) (e : Ev) : Prop where
  good : Good s e
  app : (s.apply e).isSome = true
  obj : ObjReady s e

def ReadySeq (s : Ca) : List Ev → Prop
  | [] => True
  | e :: es => Ready s e ∧ ∀ s', s.apply e = some s' → ReadySeq s' es

theorem readySeq_append {s : Ca} {a b : List Ev} (ha : ReadySeq s a)
    (hb : ∀ s', s.applyAll a = some s' → ReadySeq s' b) : ReadySeq s (a ++ b) := by
  induction a generalizing s with
  | nil => exact hb s rfl
  | cons e es ih =>
    obtain ⟨hr, hrest⟩ := ha
    refine ⟨hr, ?_⟩
    intro s' hs'
    refine ih (hrest s' hs') ?_
    intro s'' hs''
    apply hb
    simp [Ca.applyAll, hs', hs'']

theorem applyAll_append {s : Ca} {a b : List Ev} :
    s.applyAll (a ++ b) = (s.applyAll a).bind (·.applyAll b) := by
  induction a generalizing s with
  | nil => rfl
  | cons e es ih =>
    simp only [List.cons_append, Ca.applyAll]
    cases s.apply e with
    | none => rfl
    | some s' => simp only [Option.bind_some]; exact ih

/-- The listener accepts a ready event in a state with the invariant. -/
theorem ready_objStep {s : Sys} {e : Ev} (hinv : Inv s) (hr : Ready s.ca e) :
    ∃ o', s.objs.step e = .ok o' := by
  obtain ⟨_, happ, hobj⟩ := hr
  have hcls := hinv.core.cls
  -- an object class exists for a class with a current key
  have objOf : ∀ r rc, get s.ca.classes r = some rc → rc.keys.current.isSome = true →
      ∃ ok, get s.objs r = some ok := by
    intro r rc hg hc
    have h := hcls r
    rw [hg] at h
    obtain ⟨hm, _, _⟩ := h
    cases hk : rc.keys with
    | pending p => rw [hk] at hc; simp [KeyState.current] at hc
    | active c => rw [hk] at hm; obtain ⟨cs, h1, _⟩ := ksMirror_active.mp hm; exact ⟨_, h1⟩
    | rollPending p c => rw [hk] at hm; obtain ⟨cs, h1, _⟩ := ksMirror_rollPending.mp hm; exact ⟨_, h1⟩
    | rollNew n c => rw [hk] at hm; obtain ⟨ss, cs, h1, _⟩ := ksMirror_rollNew.mp hm; exact ⟨_, h1⟩
    | rollOld c o => rw [hk] at hm; obtain ⟨cs, os, h1, _⟩ := ksMirror_rollOld.mp hm; exact ⟨_, h1⟩
  cases e with
  | products r u =>
    obtain ⟨rc, hg, hc⟩ := hobj
    obtain ⟨ok, hok⟩ := objOf r rc hg hc
    simp [Objs.step, Objs.withClass, hok]
  | childCerts r u =>
    obtain ⟨rc, hg, hc⟩ := hobj
    obtain ⟨ok, hok⟩ := objOf r rc hg hc
    simp [Objs.step, Objs.withClass, hok]
  | key r ke =>
    cases ke with
    | requested ki => exact ⟨_, rfl⟩
    | unexpected ki => exact ⟨_, rfl⟩
    | pendingAdded k => exact ⟨_, rfl⟩
    | pendingToActive k =>
      -- the aggregate applied it: the class was pending, so there is no object class
      cases ha : s.ca.apply (.key r (.pendingToActive k)) with
      | none => rw [ha] at happ; cases happ
      | some ca' =>
        obtain ⟨rc, rc', hg, hf, _⟩ := Ca.withClass_some (by simpa [Ca.apply] using ha)
        have h := hcls r
        rw [hg] at h
        obtain ⟨hm, _, _⟩ := h
        cases hk : rc.keys with
        | pending p =>
          rw [hk] at hm
          have := ksMirror_pending.mp hm
          simp [Objs.step, this]
        | _ => rw [hk] at hf; simp [KeyState.apply, KeyState.applyPendingToActive] at hf
    | pendingToNew k =>
      cases ha : s.ca.apply (.key r (.pendingToNew k)) with
      | none => rw [ha] at happ; cases happ
      | some ca' =>
        obtain ⟨rc, rc', hg, hf, _⟩ := Ca.withClass_some (by simpa [Ca.apply] using ha)
        have h := hcls r
        rw [hg] at h
        obtain ⟨hm, _, _⟩ := h
        cases hk : rc.keys with
        | rollPending p c =>
          rw [hk] at hm
          obtain ⟨cs, h1, _⟩ := ksMirror_rollPending.mp hm
          simp [Objs.step, Objs.withClass, h1, ObjKeys.keyrollStage]
        | _ => rw [hk] at hf; simp [KeyState.apply, KeyState.applyPendingToNew] at hf
    | activated =>
      cases ha : s.ca.apply (.key r .activated) with
      | none => rw [ha] at happ; cases happ
      | some ca' =>
        obtain ⟨rc, rc', hg, hf, _⟩ := Ca.withClass_some (by simpa [Ca.apply] using ha)
        have h := hcls r
        rw [hg] at h
        obtain ⟨hm, _, _⟩ := h
        cases hk : rc.keys with
        | rollNew n c =>
          rw [hk] at hm
          obtain ⟨ss, cs, h1, _⟩ := ksMirror_rollNew.mp hm
          simp [Objs.step, Objs.withClass, h1, ObjKeys.keyrollActivate]
        | _ => rw [hk] at hf; simp [KeyState.apply, KeyState.applyActivated] at hf
    | finished =>
      cases ha : s.ca.apply (.key r .finished) with
      | none => rw [ha] at happ; cases happ
      | some ca' =>
        obtain ⟨rc, rc', hg, hf, _⟩ := Ca.withClass_some (by simpa [Ca.apply] using ha)
        have h := hcls r
        rw [hg] at h
        obtain ⟨hm, _, _⟩ := h
        cases hk : rc.keys with
        | rollOld c o =>
          rw [hk] at hm
          obtain ⟨cs, os, h1, _⟩ := ksMirror_rollOld.mp hm
          simp [Objs.step, Objs.withClass, h1, ObjKeys.keyrollFinish]
        | _ => rw [hk] at hf; simp [KeyState.apply, KeyState.applyFinished] at hf
    | received ki cert =>
      obtain ⟨rc, hg, hmem⟩ := hobj
      have h := hcls r
      rw [hg] at h
      obtain ⟨hm, _, _⟩ := h
      cases hk : rc.keys with
      | pending p => rw [hk] at hmem; simp [KeyState.certified] at hmem
      | active c =>
        rw [hk] at hm hmem
        obtain ⟨cs, h1, h2, _⟩ := ksMirror_active.mp hm
        simp only [KeyState.certified, List.mem_singleton] at hmem
        simp [Objs.step, Objs.withClass, h1, ObjKeys.updateReceivedCert,
          ObjSet.updateSigningCert, h2, hmem]
      | rollPending p c =>
        rw [hk] at hm hmem
        obtain ⟨cs, h1, h2, _⟩ := ksMirror_rollPending.mp hm
        simp only [KeyState.certified, List.mem_singleton] at hmem
        simp [Objs.step, Objs.withClass, h1, ObjKeys.updateReceivedCert,
          ObjSet.updateSigningCert, h2, hmem]
      | rollNew n c =>
        rw [hk] at hm hmem
        obtain ⟨ss, cs, h1, h2, _, h4, _⟩ := ksMirror_rollNew.mp hm
        simp only [KeyState.certified, List.mem_cons, List.not_mem_nil, or_false] at hmem
        by_cases hs : ss.key = ki
        · simp [Objs.step, Objs.withClass, h1, ObjKeys.updateReceivedCert,
            ObjSet.updateSigningCert, hs]
        · have hc : cs.key = ki := by
            rcases hmem with h | h
            · exact absurd (by rw [h2, h]) hs
            · rw [h4, h]
          simp [Objs.step, Objs.withClass, h1, ObjKeys.updateReceivedCert,
            ObjSet.updateSigningCert, hs, hc]
      | rollOld c o =>
        rw [hk] at hm hmem
        obtain ⟨cs, os, h1, h2, _, h4, _⟩ := ksMirror_rollOld.mp hm
        simp only [KeyState.certified, List.mem_cons, List.not_mem_nil, or_false] at hmem
        by_cases hs : os.key = ki
        · simp [Objs.step, Objs.withClass, h1, ObjKeys.updateReceivedCert,
            ObjSet.updateSigningCert, hs]
        · have hc : cs.key = ki := by
            rcases hmem with h | h
            · rw [h2, h]
            · exact absurd (by rw [h4, h]) hs
          simp [Objs.step, Objs.withClass, h1, ObjKeys.updateReceivedCert,
            ObjSet.updateSigningCert, hs, hc]
  | rcAdded r p pr k => exact ⟨_, rfl⟩
  | rcRemoved r => exact ⟨_, rfl⟩
  | childAdded ch res => exact ⟨_, rfl⟩
  | childCertIssued ch r k => exact ⟨_, rfl⟩
  | childKeyRevoked ch r k => exact ⟨_, rfl⟩
  | childUpdatedResources ch res => exact ⟨_, rfl⟩
  | childUpdatedId ch => exact ⟨_, rfl⟩
  | childMapping ch n m => exact ⟨_, rfl⟩
  | childRemoved ch => exact ⟨_, rfl⟩
  | childSuspended ch => exact ⟨_, rfl⟩
  | childUnsuspended ch => exact ⟨_, rfl⟩
  | parentAdded p => exact ⟨_, rfl⟩
  | parentRemoved p => exact ⟨_, rfl⟩
  | repoUpdated => exact ⟨_, rfl⟩
  | other => exact ⟨_, rfl⟩

/-- Running a ready sequence from a state with the invariant succeeds and keeps the invariant. -/
theorem readySeq_run {s : Sys} {evs : List Ev} (hinv : Inv s) (hr : ReadySeq s.ca evs) :
    ∃ s', s.runEvs evs = some s' ∧ Inv s' := by
  induction evs generalizing s with
  | nil => exact ⟨s, rfl, hinv⟩
  | cons e es ih =>
    obtain ⟨hready, hrest⟩ := hr
    obtain ⟨o', ho'⟩ := ready_objStep hinv hready
    cases ha : s.ca.apply e with
    | none => have := hready.app; rw [ha] at this; cases this
    | some ca' =>
      have hinv' : Inv ⟨ca', o'⟩ := inv_step (ca := s.ca) (o := s.objs) hinv hready.good ha ho'
      obtain ⟨s'', hrun, hinv''⟩ := ih (s := ⟨ca', o'⟩) hinv' (hrest ca' ha)
      refine ⟨s'', ?_, hinv''⟩
      simp only [Sys.runEvs, Sys.stepEv, ha, ho', Option.bind_some]
      exact hrun

end KM.CaK
