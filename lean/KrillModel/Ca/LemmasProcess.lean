/-
Helper lemmas for C04 / C02: the event list `process` returns is a ready sequence
(every event applicable where it is applied, accepted by the listener, with the side conditions
the invariant needs).  No property statements.
-/
import KrillModel.Ca.LemmasSeq
namespace KM.CaK
open KM.Res KM.AMap

/-! ## Class-local events -/

/-- Class part of `Ca.apply` for the events that rewrite one class record. -/
def Rc.applyEv (rc : Rc) : Ev → Option Rc
  | .key _ ke => (rc.keys.apply ke).map fun ks => { rc with keys := ks }
  | .products _ u => some (rc.applyProducts u)
  | .childCerts _ u => some { rc with certs := rc.certs.applyUpd u }
  | _ => none

/-- Events that rewrite the record of class `r` and nothing else of the class map. -/
def Ev.onClass (r : Rcn) : Ev → Bool
  | .key _ (.unexpected _) => false
  | .key r' _ => r' = r
  | .products r' _ => r' = r
  | .childCerts r' _ => r' = r
  | _ => false

/-- Children after a class-local event. -/
def childrenAfter (ch : AMap Handle Child) : Ev → AMap Handle Child
  | .childCerts _ u => u.removed.foldl revokeEverywhere ch
  | _ => ch

theorem apply_onClass {s : Ca} {r : Rcn} {rc : Rc} {e : Ev} (he : e.onClass r = true)
    (hg : get s.classes r = some rc) :
    s.apply e = (rc.applyEv e).map fun rc' =>
      { s with classes := set s.classes r rc', children := childrenAfter s.children e } := by
  cases e with
  | key r' ke =>
    by_cases hu : ∃ k, ke = .unexpected k
    · obtain ⟨k, rfl⟩ := hu; simp [Ev.onClass] at he
    · have hr : r' = r := by
        cases ke <;> first | (simp [Ev.onClass] at he; exact he) | exact absurd ⟨_, rfl⟩ hu
      subst hr
      have happ : s.apply (.key r' ke) =
          s.withClass r' fun rc => (rc.keys.apply ke).map fun ks => { rc with keys := ks } := by
        cases ke <;> first | rfl | exact absurd ⟨_, rfl⟩ hu
      rw [happ]
      simp only [Ca.withClass, hg, Rc.applyEv]
      cases ke <;> (first | (cases rc.keys.apply _ <;> rfl) | exact absurd ⟨_, rfl⟩ hu)
  | products r' u =>
    simp only [Ev.onClass, decide_eq_true_eq] at he; subst he
    simp [Ca.apply, Ca.withClass, hg, Rc.applyEv, childrenAfter]
  | childCerts r' u =>
    simp only [Ev.onClass, decide_eq_true_eq] at he; subst he
    simp [Ca.apply, Ca.withClass, hg, Rc.applyEv, childrenAfter]
  | _ => simp [Ev.onClass] at he

/-- Readiness of a class-local event, read off the class record. -/
structure RcReady (rc : Rc) (e : Ev) : Prop where
  good : match e with
    | .key _ (.pendingAdded k) => ∀ c, rc.keys = .active c → k ≠ c.id
    | .key _ (.pendingToNew n) => ∀ p c, rc.keys = .rollPending p c → n.id = p.id
    | _ => True
  app : (rc.applyEv e).isSome = true
  obj : match e with
    | .products .. => rc.keys.current.isSome = true
    | .childCerts .. => rc.keys.current.isSome = true
    | .key _ (.received ki _) => ki ∈ rc.keys.certified
    | _ => True

theorem ready_of_rc {s : Ca} {r : Rcn} {rc : Rc} {e : Ev} (he : e.onClass r = true)
    (hg : get s.classes r = some rc) (h : RcReady rc e) : Ready s e := by
  obtain ⟨hgood, happ, hobj⟩ := h
  refine ⟨?_, ?_, ?_⟩
  · cases e with
    | key r' ke =>
      cases ke <;> simp only [Good] <;> simp only [Ev.onClass, decide_eq_true_eq] at he
      · subst he; intro rc' c hg' hk; rw [hg] at hg'; cases hg'; exact hgood c hk
      · subst he; intro rc' p c hg' hk; rw [hg] at hg'; cases hg'; exact hgood p c hk
    | products r' u => simp [Good]
    | childCerts r' u => simp [Good]
    | _ => simp [Ev.onClass] at he
  · rw [apply_onClass he hg]
    simp only [Option.isSome_map]; exact happ
  · cases e with
    | key r' ke =>
      cases ke <;> simp only [ObjReady] <;> simp only [Ev.onClass, decide_eq_true_eq] at he
      subst he; exact ⟨rc, hg, hobj⟩
    | products r' u =>
      simp only [Ev.onClass, decide_eq_true_eq] at he; subst he; exact ⟨rc, hg, hobj⟩
    | childCerts r' u =>
      simp only [Ev.onClass, decide_eq_true_eq] at he; subst he; exact ⟨rc, hg, hobj⟩
    | _ => simp [Ev.onClass] at he

def RcReadySeq (rc : Rc) : List Ev → Prop
  | [] => True
  | e :: es => RcReady rc e ∧ ∀ rc', rc.applyEv e = some rc' → RcReadySeq rc' es

def Rc.applyEvs (rc : Rc) : List Ev → Option Rc
  | [] => some rc
  | e :: es => (rc.applyEv e).bind (·.applyEvs es)

/-- A class-local sequence is ready when it is ready on the class record; afterwards only that
record (and `used_keys` of children) has changed. -/
theorem readySeq_of_rc {s : Ca} {r : Rcn} {rc : Rc} {evs : List Ev}
    (he : ∀ e ∈ evs, e.onClass r = true) (hg : get s.classes r = some rc) (h : RcReadySeq rc evs) :
    ReadySeq s evs := by
  induction evs generalizing s rc with
  | nil => trivial
  | cons e es ih =>
    obtain ⟨h1, h2⟩ := h
    have he1 := he e (List.mem_cons_self ..)
    refine ⟨ready_of_rc he1 hg h1, ?_⟩
    intro s' hs'
    rw [apply_onClass he1 hg] at hs'
    cases hrc : rc.applyEv e with
    | none => simp [hrc] at hs'
    | some rc' =>
      simp only [hrc, Option.map_some, Option.some.injEq] at hs'; subst hs'
      exact ih (fun e' he' => he e' (List.mem_cons_of_mem _ he')) (get_set_self _ _ _) (h2 rc' hrc)

theorem isSome_revokeAll (ks : List KeyId) (m : AMap Handle Child) (ch : Handle) :
    (get (ks.foldl revokeEverywhere m) ch).isSome = (get m ch).isSome := by
  induction ks generalizing m with
  | nil => rfl
  | cons k ks ih =>
    simp only [List.foldl_cons]
    rw [ih, get_revokeEverywhere, Option.isSome_map]

/-- State after a class-local sequence. -/
theorem applyAll_of_rc {s s' : Ca} {r : Rcn} {rc : Rc} {evs : List Ev}
    (he : ∀ e ∈ evs, e.onClass r = true) (hg : get s.classes r = some rc)
    (hs : s.applyAll evs = some s') :
    ∃ rc', rc.applyEvs evs = some rc' ∧ get s'.classes r = some rc' ∧
      (∀ r2, r2 ≠ r → get s'.classes r2 = get s.classes r2) ∧
      s'.nextClass = s.nextClass ∧ s'.hasRepo = s.hasRepo ∧ s'.parents = s.parents ∧
      (∀ ch, (get s'.children ch).isSome = (get s.children ch).isSome) ∧
      (evs.all (fun e => match e with | .childCerts .. => false | _ => true) = true → s'.children = s.children) := by
  induction evs generalizing s rc with
  | nil =>
    simp only [Ca.applyAll, Option.some.injEq] at hs; subst hs
    exact ⟨rc, rfl, hg, fun _ _ => rfl, rfl, rfl, rfl, fun _ => rfl, fun _ => rfl⟩
  | cons e es ih =>
    have he1 := he e (List.mem_cons_self ..)
    simp only [Ca.applyAll] at hs
    rw [apply_onClass he1 hg] at hs
    cases hrc : rc.applyEv e with
    | none => simp [hrc] at hs
    | some rc1 =>
      simp only [hrc, Option.map_some, Option.bind_some] at hs
      obtain ⟨rc', h1, h2, h3, h4, h5, h6, h7, h8⟩ :=
        ih (fun e' he' => he e' (List.mem_cons_of_mem _ he')) (get_set_self _ _ _) hs
      refine ⟨rc', by simp [Rc.applyEvs, hrc, h1], h2, ?_, h4, h5, h6, ?_, ?_⟩
      · intro r2 hr2; rw [h3 r2 hr2]; exact get_set_ne' _ _ _ r2 hr2
      · intro ch
        rw [h7 ch]
        simp only
        cases e with
        | childCerts r' u => simp only [childrenAfter]; exact isSome_revokeAll _ _ _
        | _ => rfl
      · intro hall
        simp only [List.all_cons, Bool.and_eq_true] at hall
        rw [h8 hall.2]
        cases e <;> simp_all [childrenAfter]

/-! ## Chunks of class-local events -/

/-- ROA/ASPA/BGPsec object updates and child certificate updates. -/
def Ev.isPayload : Ev → Bool
  | .products .. => true
  | .childCerts .. => true
  | _ => false

theorem rcReadySeq_payloads {rc : Rc} {evs : List Ev} (hc : rc.keys.current.isSome = true)
    (hp : ∀ e ∈ evs, e.isPayload = true) : RcReadySeq rc evs := by
  induction evs generalizing rc with
  | nil => trivial
  | cons e es ih =>
    have he := hp e (List.mem_cons_self ..)
    cases e with
    | products r u =>
      refine ⟨⟨trivial, rfl, hc⟩, ?_⟩
      intro rc' hrc'
      simp only [Rc.applyEv, Option.some.injEq] at hrc'; subst hrc'
      exact ih hc (fun e' he' => hp e' (List.mem_cons_of_mem _ he'))
    | childCerts r u =>
      refine ⟨⟨trivial, rfl, hc⟩, ?_⟩
      intro rc' hrc'
      simp only [Rc.applyEv, Option.some.injEq] at hrc'; subst hrc'
      exact ih hc (fun e' he' => hp e' (List.mem_cons_of_mem _ he'))
    | _ => simp [Ev.isPayload] at he

theorem isPayload_onClass {r : Rcn} {e : Ev} (hp : e.isPayload = true) (hr : e.rcn? = some r) :
    e.onClass r = true := by
  cases e <;> simp [Ev.isPayload] at hp <;> simp [Ev.rcn?] at hr <;> simp [Ev.onClass, hr]

theorem current_mem_certified {ks : KeyState} {c : CertKey} (h : ks.current = some c) :
    c.id ∈ ks.certified := by
  cases ks <;> simp [KeyState.current] at h <;> subst h <;> simp [KeyState.certified]

theorem renewal_payload (r : Rcn) (rc : Rc) (k : PKind) :
    ∀ e ∈ renewal r rc k, e.isPayload = true ∧ e.rcn? = some r := by
  intro e he
  simp only [renewal] at he
  by_cases hp : (rc.productsOf k).isEmpty = true
  · simp [hp] at he
  · simp only [hp, Bool.false_eq_true, if_false, List.mem_singleton] at he; subst he; exact ⟨rfl, rfl⟩

/-! ## Single-class commands -/

theorem ready_single {s : Ca} {e : Ev} (h : Ready s e) : ReadySeq s [e] := ⟨h, fun _ _ => trivial⟩

/-- `UpdateRcvdCert` -/
theorem readySeq_updateRcvdCert {s : Ca} {rcn : Rcn} {ki : KeyId} {cert : Cert} {na : Int}
    {prods : List ProdUpd} {evs : List Ev}
    (h : s.process (.updateRcvdCert rcn ki cert na prods) = .ok evs) : ReadySeq s evs := by
  simp only [Ca.process] at h
  cases hg : get s.classes rcn with
  | none => simp [hg] at h
  | some rc =>
    simp only [hg] at h
    have hprods : ∀ e ∈ (prods.filter (!·.isEmpty)).map (Ev.products rcn),
        e.isPayload = true ∧ e.rcn? = some rcn := by
      intro e he
      obtain ⟨u, _, rfl⟩ := List.mem_map.mp he
      exact ⟨rfl, rfl⟩
    cases hr : rc.keys.route ki with
    | error e => simp [hr] at h
    | ok route =>
      simp only [hr] at h
      cases route with
      | toActive =>
        simp only [Except.ok.injEq] at h; subst h
        -- the class is pending with that key
        cases hk : rc.keys with
        | pending p =>
          refine readySeq_of_rc (r := rcn) (rc := rc) ?_ hg ?_
          · intro e he
            rcases List.mem_cons.mp he with rfl | he
            · simp [Ev.onClass]
            · exact isPayload_onClass (hprods e he).1 (hprods e he).2
          · refine ⟨⟨trivial, by simp [Rc.applyEv, hk, KeyState.apply, KeyState.applyPendingToActive], trivial⟩, ?_⟩
            intro rc' hrc'
            simp only [Rc.applyEv, hk, KeyState.apply, KeyState.applyPendingToActive, Option.map_some,
              Option.some.injEq] at hrc'
            subst hrc'
            exact rcReadySeq_payloads (by simp [KeyState.current]) (fun e he => (hprods e he).1)
        | active c => rw [hk] at hr; simp only [KeyState.route] at hr; split at hr <;> cases hr
        | rollPending p c =>
          rw [hk] at hr; simp only [KeyState.route] at hr
          split at hr
          · cases hr
          · split at hr <;> cases hr
        | rollNew n c =>
          rw [hk] at hr; simp only [KeyState.route] at hr
          split at hr
          · cases hr
          · split at hr <;> cases hr
        | rollOld c o => rw [hk] at hr; simp only [KeyState.route] at hr; split at hr <;> cases hr
      | toNew =>
        simp only [Except.ok.injEq] at h; subst h
        cases hk : rc.keys with
        | rollPending p c =>
          rw [hk] at hr; simp only [KeyState.route] at hr
          by_cases hki : ki = p.id
          · refine readySeq_of_rc (r := rcn) (rc := rc) (by intro e he; simp at he; subst he; simp [Ev.onClass]) hg ?_
            refine ⟨⟨?_, by simp [Rc.applyEv, hk, KeyState.apply, KeyState.applyPendingToNew], trivial⟩, fun _ _ => trivial⟩
            intro p' c' hk'
            rw [hk] at hk'; cases hk'
            simp [CertKey.create, hki]
          · simp only [hki, if_false] at hr; split at hr <;> cases hr
        | pending p => rw [hk] at hr; simp only [KeyState.route] at hr; split at hr <;> cases hr
        | active c => rw [hk] at hr; simp only [KeyState.route] at hr; split at hr <;> cases hr
        | rollNew n c =>
          rw [hk] at hr; simp only [KeyState.route] at hr
          split at hr
          · cases hr
          · split at hr <;> cases hr
        | rollOld c o => rw [hk] at hr; simp only [KeyState.route] at hr; split at hr <;> cases hr
      | newCert =>
        simp only [Except.ok.injEq] at h; subst h
        cases hk : rc.keys with
        | rollNew n c =>
          rw [hk] at hr; simp only [KeyState.route] at hr
          by_cases hki : ki = n.id
          · refine readySeq_of_rc (r := rcn) (rc := rc) (by intro e he; simp at he; subst he; simp [Ev.onClass]) hg ?_
            refine ⟨⟨trivial, ?_, ?_⟩, fun _ _ => trivial⟩
            · simp only [Rc.applyEv, hk, KeyState.apply, KeyState.applyReceived]
              split <;> rfl
            · simp [hk, KeyState.certified, hki]
          · simp only [hki, if_false] at hr; split at hr <;> cases hr
        | pending p => rw [hk] at hr; simp only [KeyState.route] at hr; split at hr <;> cases hr
        | active c => rw [hk] at hr; simp only [KeyState.route] at hr; split at hr <;> cases hr
        | rollPending p c =>
          rw [hk] at hr; simp only [KeyState.route] at hr
          split at hr
          · cases hr
          · split at hr <;> cases hr
        | rollOld c o => rw [hk] at hr; simp only [KeyState.route] at hr; split at hr <;> cases hr
      | current c =>
        -- `c` is the current key and `ki` its identifier
        have hcur : rc.keys.current = some c ∧ ki = c.id := by
          cases hk : rc.keys with
          | pending p => rw [hk] at hr; simp only [KeyState.route] at hr; split at hr <;> cases hr
          | active c' =>
            rw [hk] at hr; simp only [KeyState.route] at hr
            split at hr
            · cases hr
            · rename_i hne; cases hr; exact ⟨rfl, by simpa using hne⟩
          | rollPending p c' =>
            rw [hk] at hr; simp only [KeyState.route] at hr
            split at hr
            · cases hr
            · split at hr
              · cases hr
              · rename_i hne; cases hr; exact ⟨rfl, by simpa using hne⟩
          | rollNew n c' =>
            rw [hk] at hr; simp only [KeyState.route] at hr
            split at hr
            · cases hr
            · split at hr
              · cases hr
              · rename_i hne; cases hr; exact ⟨rfl, by simpa using hne⟩
          | rollOld c' o =>
            rw [hk] at hr; simp only [KeyState.route] at hr
            split at hr
            · cases hr
            · rename_i hne; cases hr; exact ⟨rfl, by simpa using hne⟩
        obtain ⟨hcur, hki⟩ := hcur
        have hsome : rc.keys.current.isSome = true := by simp [hcur]
        -- the first event
        have hrecv : RcReady rc (.key rcn (.received ki cert)) := by
          refine ⟨trivial, ?_, ?_⟩
          · simp only [Rc.applyEv, KeyState.apply, Option.isSome_map]
            cases hk : rc.keys <;> simp [hk, KeyState.current] at hsome <;>
              simp only [KeyState.applyReceived] <;> (try split) <;> rfl
          · rw [hki]; exact current_mem_certified hcur
        have hafter : ∀ rc', rc.applyEv (.key rcn (.received ki cert)) = some rc' →
            rc'.keys.current.isSome = true := by
          intro rc' hrc'
          simp only [Rc.applyEv] at hrc'
          cases hka : rc.keys.apply (.received ki cert) with
          | none => simp [hka] at hrc'
          | some ks' =>
            simp only [hka, Option.map_some, Option.some.injEq] at hrc'; subst hrc'
            exact apply_current_isSome hka hsome
        simp only [Rc.rcvdCertCurrent] at h
        split at h
        · simp only [Except.ok.injEq] at h; subst h
          exact readySeq_of_rc (r := rcn) (rc := rc) (by intro e he; simp at he; subst he; simp [Ev.onClass]) hg
            ⟨hrecv, fun _ _ => trivial⟩
        · cases hsh : rc.certs.shrinkOverclaiming cert na with
          | error e => simp [hsh] at h
          | ok upd =>
            simp only [hsh, Except.ok.injEq] at h; subst h
            have hrest : ∀ e ∈ (if upd.isEmpty = true then [] else [Ev.childCerts rcn upd]) ++
                (prods.filter (!·.isEmpty)).map (Ev.products rcn), e.isPayload = true ∧ e.rcn? = some rcn := by
              intro e he
              rcases List.mem_append.mp he with he | he
              · split at he
                · cases he
                · simp only [List.mem_singleton] at he; subst he; exact ⟨rfl, rfl⟩
              · exact hprods e he
            refine readySeq_of_rc (r := rcn) (rc := rc) ?_ hg ?_
            · intro e he
              rcases List.mem_cons.mp he with rfl | he
              · simp [Ev.onClass]
              · exact isPayload_onClass (hrest e he).1 (hrest e he).2
            · exact ⟨hrecv, fun rc' hrc' => rcReadySeq_payloads (hafter rc' hrc') (fun e he => (hrest e he).1)⟩

/-! ## Events that leave every key state alone -/

/-- Two aggregate states with the same class names, key states and children names. -/
structure Env (s s' : Ca) : Prop where
  keys : ∀ r, (get s'.classes r).map (·.keys) = (get s.classes r).map (·.keys)
  child : ∀ ch, (get s'.children ch).isSome = (get s.children ch).isSome

theorem Env.refl (s : Ca) : Env s s := ⟨fun _ => rfl, fun _ => rfl⟩

theorem Env.trans {a b c : Ca} (h1 : Env a b) (h2 : Env b c) : Env a c :=
  ⟨fun r => (h2.keys r).trans (h1.keys r), fun ch => (h2.child ch).trans (h1.child ch)⟩

/-- Events that change no key state, no class name and no child name. -/
def Ev.keysPres : Ev → Bool
  | .products .. => true
  | .childCerts .. => true
  | .childCertIssued .. => true
  | .childKeyRevoked .. => true
  | .childUpdatedResources .. => true
  | .childUpdatedId _ => true
  | .childMapping .. => true
  | .childSuspended _ => true
  | .childUnsuspended _ => true
  | .parentAdded _ => true
  | .repoUpdated => true
  | .other => true
  | .key _ (.unexpected _) => true
  | _ => false

theorem withClass_isSome' (s : Ca) (r : Rcn) (f : Rc → Option Rc) :
    (s.withClass r f).isSome = (match get s.classes r with | none => false | some rc => (f rc).isSome) := by
  unfold Ca.withClass
  cases get s.classes r with
  | none => rfl
  | some rc => simp only; cases h : f rc <;> simp

theorem withChild_isSome' (s : Ca) (ch : Handle) (f : Child → Child) :
    (s.withChild ch f).isSome = (get s.children ch).isSome := by
  unfold Ca.withChild
  cases get s.children ch <;> rfl

theorem get_map_keys {s : Ca} {r : Rcn} {rc : Rc} (rc' : Rc) (hk : rc'.keys = rc.keys)
    (hg : get s.classes r = some rc) (r2 : Rcn) :
    (get (set s.classes r rc') r2).map (·.keys) = (get s.classes r2).map (·.keys) := by
  simp only [get_set]
  by_cases h : r = r2
  · subst h; simp [hg, hk]
  · simp [h]

theorem child_isSome_set {m : AMap Handle Child} {ch0 : Handle} {c0 : Child} (c0' : Child)
    (hg : get m ch0 = some c0) (ch : Handle) :
    (get (set m ch0 c0') ch).isSome = (get m ch).isSome := by
  simp only [get_set]
  by_cases h : ch0 = ch
  · subst h; simp [hg]
  · simp [h]

theorem apply_env {s s' : Ca} {e : Ev} (hp : e.keysPres = true) (ha : s.apply e = some s') : Env s s' := by
  cases e with
  | products r u =>
    simp only [Ca.apply] at ha
    obtain ⟨rc, rc', hg, hf, rfl⟩ := Ca.withClass_some ha
    simp only [Option.some.injEq] at hf; subst hf
    exact ⟨get_map_keys (rc := rc) _ rfl hg, fun _ => rfl⟩
  | childCerts r u =>
    simp only [Ca.apply] at ha
    cases hw : s.withClass r (fun rc => some { rc with certs := rc.certs.applyUpd u }) with
    | none => simp [hw] at ha
    | some s1 =>
      simp only [hw, Option.some.injEq] at ha; subst ha
      obtain ⟨rc, rc', hg, hf, rfl⟩ := Ca.withClass_some hw
      simp only [Option.some.injEq] at hf; subst hf
      exact ⟨get_map_keys (rc := rc) _ rfl hg, fun ch => isSome_revokeAll _ _ _⟩
  | childCertIssued ch r k =>
    simp only [Ca.apply] at ha
    obtain ⟨c, hc, rfl⟩ := Ca.withChild_some ha
    exact ⟨fun _ => rfl, child_isSome_set _ hc⟩
  | childKeyRevoked ch r k =>
    simp only [Ca.apply] at ha
    cases hw : s.withClass r (fun rc => some { rc with certs := rc.certs.removeRevoked k }) with
    | none => simp [hw] at ha
    | some s1 =>
      simp only [hw] at ha
      obtain ⟨c, hc, rfl⟩ := Ca.withChild_some ha
      obtain ⟨rc, rc', hg, hf, rfl⟩ := Ca.withClass_some hw
      simp only [Option.some.injEq] at hf; subst hf
      exact ⟨get_map_keys (rc := rc) _ rfl hg, child_isSome_set _ hc⟩
  | childUpdatedResources ch res =>
    simp only [Ca.apply] at ha
    obtain ⟨c, hc, rfl⟩ := Ca.withChild_some ha
    exact ⟨fun _ => rfl, child_isSome_set _ hc⟩
  | childUpdatedId ch =>
    simp only [Ca.apply] at ha
    obtain ⟨c, hc, rfl⟩ := Ca.withChild_some ha
    exact ⟨fun _ => rfl, child_isSome_set _ hc⟩
  | childMapping ch n m =>
    simp only [Ca.apply] at ha
    obtain ⟨c, hc, rfl⟩ := Ca.withChild_some ha
    exact ⟨fun _ => rfl, child_isSome_set _ hc⟩
  | childSuspended ch =>
    simp only [Ca.apply] at ha
    obtain ⟨c, hc, rfl⟩ := Ca.withChild_some ha
    exact ⟨fun _ => rfl, child_isSome_set _ hc⟩
  | childUnsuspended ch =>
    simp only [Ca.apply] at ha
    obtain ⟨c, hc, rfl⟩ := Ca.withChild_some ha
    exact ⟨fun _ => rfl, child_isSome_set _ hc⟩
  | parentAdded p => simp only [Ca.apply, Option.some.injEq] at ha; subst ha; exact ⟨fun _ => rfl, fun _ => rfl⟩
  | repoUpdated => simp only [Ca.apply, Option.some.injEq] at ha; subst ha; exact ⟨fun _ => rfl, fun _ => rfl⟩
  | other => simp only [Ca.apply, Option.some.injEq] at ha; subst ha; exact Env.refl _
  | key r ke =>
    cases ke <;> simp [Ev.keysPres] at hp
    simp only [Ca.apply, Option.some.injEq] at ha; subst ha; exact Env.refl _
  | rcAdded => simp [Ev.keysPres] at hp
  | rcRemoved => simp [Ev.keysPres] at hp
  | childAdded => simp [Ev.keysPres] at hp
  | childRemoved => simp [Ev.keysPres] at hp
  | parentRemoved => simp [Ev.keysPres] at hp

/-- Readiness of events that only look at class key states and child names is the same in
key-equivalent states. -/
theorem ready_env {s s1 : Ca} {e : Ev} (henv : Env s s1)
    (hp : e.keysPres = true ∨ (∃ ch, e = .childRemoved ch) ∨ (∃ ch res, e = .childAdded ch res))
    (h : Ready s e) : Ready s1 e := by
  obtain ⟨hgood, happ, hobj⟩ := h
  -- a class with a current key stays one
  have cls : ∀ r, (∃ rc, get s.classes r = some rc ∧ rc.keys.current.isSome = true) →
      ∃ rc, get s1.classes r = some rc ∧ rc.keys.current.isSome = true := by
    intro r ⟨rc, hg, hc⟩
    have := henv.keys r
    rw [hg] at this
    cases hg1 : get s1.classes r with
    | none => simp [hg1] at this
    | some rc1 =>
      simp only [hg1, Option.map_some, Option.some.injEq] at this
      exact ⟨rc1, rfl, by rw [this]; exact hc⟩
  have clsEx : ∀ r, (get s.classes r).isSome = true → (get s1.classes r).isSome = true := by
    intro r h
    have := henv.keys r
    cases hg : get s.classes r with
    | none => simp [hg] at h
    | some rc =>
      rw [hg] at this
      cases hg1 : get s1.classes r with
      | none => simp [hg1] at this
      | some _ => rfl
  have chEx : ∀ ch, (get s.children ch).isSome = true → (get s1.children ch).isSome = true := by
    intro ch h; rw [henv.child ch]; exact h
  rcases hp with hp | ⟨ch, rfl⟩ | ⟨ch, res, rfl⟩
  · cases e with
    | products r u =>
      obtain ⟨rc1, hg1, hc1⟩ := cls r hobj
      exact ⟨trivial, by simp [Ca.apply, withClass_isSome', hg1], ⟨rc1, hg1, hc1⟩⟩
    | childCerts r u =>
      obtain ⟨rc1, hg1, hc1⟩ := cls r hobj
      refine ⟨trivial, ?_, ⟨rc1, hg1, hc1⟩⟩
      simp only [Ca.apply]
      have := withClass_isSome' s1 r (fun rc => some { rc with certs := rc.certs.applyUpd u })
      rw [hg1] at this
      cases hw : s1.withClass r (fun rc => some { rc with certs := rc.certs.applyUpd u }) with
      | none => rw [hw] at this; simp at this
      | some _ => rfl
    | childCertIssued ch r k =>
      refine ⟨cls r hgood, ?_, trivial⟩
      simp only [Ca.apply, withChild_isSome'] at happ ⊢
      exact chEx ch happ
    | childKeyRevoked ch r k =>
      refine ⟨trivial, ?_, trivial⟩
      simp only [Ca.apply] at happ ⊢
      -- class and child exist in `s`
      have hcl : (get s.classes r).isSome = true ∧ (get s.children ch).isSome = true := by
        cases hw : s.withClass r (fun rc => some { rc with certs := rc.certs.removeRevoked k }) with
        | none => simp [hw] at happ
        | some s2 =>
          simp only [hw, withChild_isSome'] at happ
          obtain ⟨rc, rc', hg, hf, rfl⟩ := Ca.withClass_some hw
          exact ⟨by simp [hg], happ⟩
      have h1 := clsEx r hcl.1
      have h2 := chEx ch hcl.2
      cases hg1 : get s1.classes r with
      | none => simp [hg1] at h1
      | some rc1 =>
        simp only [Ca.withClass, hg1, withChild_isSome']
        exact h2
    | childUpdatedResources ch res =>
      refine ⟨trivial, ?_, trivial⟩
      simp only [Ca.apply, withChild_isSome'] at happ ⊢; exact chEx ch happ
    | childUpdatedId ch =>
      refine ⟨trivial, ?_, trivial⟩
      simp only [Ca.apply, withChild_isSome'] at happ ⊢; exact chEx ch happ
    | childMapping ch n m =>
      refine ⟨trivial, ?_, trivial⟩
      simp only [Ca.apply, withChild_isSome'] at happ ⊢; exact chEx ch happ
    | childSuspended ch =>
      refine ⟨trivial, ?_, trivial⟩
      simp only [Ca.apply, withChild_isSome'] at happ ⊢; exact chEx ch happ
    | childUnsuspended ch =>
      refine ⟨trivial, ?_, trivial⟩
      simp only [Ca.apply, withChild_isSome'] at happ ⊢; exact chEx ch happ
    | parentAdded p => exact ⟨trivial, rfl, trivial⟩
    | repoUpdated => exact ⟨trivial, rfl, trivial⟩
    | other => exact ⟨trivial, rfl, trivial⟩
    | key r ke =>
      cases ke <;> simp [Ev.keysPres] at hp
      exact ⟨trivial, rfl, trivial⟩
    | rcAdded => simp [Ev.keysPres] at hp
    | rcRemoved => simp [Ev.keysPres] at hp
    | childAdded => simp [Ev.keysPres] at hp
    | childRemoved => simp [Ev.keysPres] at hp
    | parentRemoved => simp [Ev.keysPres] at hp
  · exact ⟨trivial, rfl, trivial⟩
  · exact ⟨trivial, rfl, trivial⟩

/-- A list of key-preserving events, each ready in the initial state, is a ready sequence; a
last event that adds or removes a child may follow. -/
theorem readySeq_keysPres {s : Ca} {evs : List Ev} (last : List Ev)
    (h : ∀ e ∈ evs, e.keysPres = true ∧ Ready s e)
    (hl : ∀ e ∈ last, ((∃ ch, e = .childRemoved ch) ∨ (∃ ch res, e = .childAdded ch res)) ∧ Ready s e)
    (hlen : last.length ≤ 1) : ReadySeq s (evs ++ last) := by
  suffices H : ∀ s1, Env s s1 → ReadySeq s1 (evs ++ last) from H s (Env.refl s)
  induction evs with
  | nil =>
    intro s1 henv
    match last, hl, hlen with
    | [], _, _ => trivial
    | [e], hl, _ =>
      have := hl e (List.mem_singleton.mpr rfl)
      exact ⟨ready_env henv (Or.inr this.1) this.2, fun _ _ => trivial⟩
    | _ :: _ :: _, _, hlen => simp at hlen
  | cons e es ih =>
    intro s1 henv
    have he := h e (List.mem_cons_self ..)
    refine ⟨ready_env henv (Or.inl he.1) he.2, ?_⟩
    intro s2 hs2
    exact ih (fun e' he' => h e' (List.mem_cons_of_mem _ he')) s2 (henv.trans (apply_env he.1 hs2))

/-! ## Readiness in the initial state -/

theorem ready_childCerts {s : Ca} {r : Rcn} {rc : Rc} (u : CertUpd) (hg : get s.classes r = some rc)
    (hc : rc.keys.current.isSome = true) : Ready s (.childCerts r u) :=
  ready_of_rc (r := r) (by simp [Ev.onClass]) hg ⟨trivial, rfl, hc⟩

theorem ready_products {s : Ca} {r : Rcn} {rc : Rc} (u : ProdUpd) (hg : get s.classes r = some rc)
    (hc : rc.keys.current.isSome = true) : Ready s (.products r u) :=
  ready_of_rc (r := r) (by simp [Ev.onClass]) hg ⟨trivial, rfl, hc⟩

theorem ready_childCertIssued {s : Ca} {ch : Handle} {r : Rcn} {rc : Rc} (k : KeyId)
    (hg : get s.classes r = some rc) (hc : rc.keys.current.isSome = true)
    (hch : (get s.children ch).isSome = true) : Ready s (.childCertIssued ch r k) :=
  ⟨⟨rc, hg, hc⟩, by simp [Ca.apply, withChild_isSome', hch], trivial⟩

theorem issueCert_current {ks : KeyState} {res : ResSet} {l : Limit} {na : Int} {cc : ChildCert}
    (h : issueCert ks res l na = .ok cc) : ks.current.isSome = true := by
  unfold issueCert at h
  cases hc : ks.current with
  | none => simp [hc] at h
  | some c => rfl

/-- Events of `append_child_certify`. -/
theorem certifyEvents_ready {s : Ca} {ch : Handle} {res : ResSet} {r : Rcn} {k : KeyId} {l : Limit}
    {na : Int} {evs : List Ev} (h : s.childCertifyEvents ch res r k l na = .ok evs)
    (hch : (get s.children ch).isSome = true) : ∀ e ∈ evs, e.keysPres = true ∧ Ready s e := by
  unfold Ca.childCertifyEvents at h
  cases hg : get s.classes r with
  | none => simp [hg] at h
  | some rc =>
    simp only [hg] at h
    cases hi : issueCert rc.keys res l na with
    | error e => simp [hi] at h
    | ok cc =>
      simp only [hi, Except.ok.injEq] at h; subst h
      have hc := issueCert_current hi
      intro e he
      simp only [List.mem_cons, List.not_mem_nil, or_false] at he
      rcases he with rfl | rfl
      · exact ⟨rfl, ready_childCertIssued k hg hc hch⟩
      · exact ⟨rfl, ready_childCerts _ hg hc⟩

/-- A class in which a child has a key in use has a current key. -/
theorem class_of_issuedKeys {s : Ca} (hu : UsedInv s) {ch : Handle} {c : Child} {r : Rcn} {rc : Rc}
    (hc : get s.children ch = some c) (hk : (c.issuedKeys r).isEmpty = false)
    (hg : get s.classes r = some rc) : rc.keys.current.isSome = true := by
  -- some key is in use in `r`
  have : ∃ k, k ∈ c.issuedKeys r := by
    cases hl : c.issuedKeys r with
    | nil => simp [hl] at hk
    | cons k t => exact ⟨k, List.mem_cons_self ..⟩
  obtain ⟨k, hk'⟩ := this
  simp only [Child.issuedKeys, List.mem_filter, decide_eq_true_eq] at hk'
  exact (hu ch c k r hc hk'.2).2 rc hg

/-! ## Child commands and configuration changes -/

theorem ready_childUpdatedResources {s : Ca} {ch : Handle} (res : ResSet)
    (hch : (get s.children ch).isSome = true) : Ready s (.childUpdatedResources ch res) :=
  ⟨trivial, by simp [Ca.apply, withChild_isSome', hch], trivial⟩

theorem ready_childMapping {s : Ca} {ch : Handle} (n m : Rcn)
    (hch : (get s.children ch).isSome = true) : Ready s (.childMapping ch n m) :=
  ⟨trivial, by simp [Ca.apply, withChild_isSome', hch], trivial⟩

theorem ready_childSuspended {s : Ca} {ch : Handle}
    (hch : (get s.children ch).isSome = true) : Ready s (.childSuspended ch) :=
  ⟨trivial, by simp [Ca.apply, withChild_isSome', hch], trivial⟩

theorem ready_childUnsuspended {s : Ca} {ch : Handle}
    (hch : (get s.children ch).isSome = true) : Ready s (.childUnsuspended ch) :=
  ⟨trivial, by simp [Ca.apply, withChild_isSome', hch], trivial⟩

theorem readySeq_of_all {s : Ca} {evs : List Ev} (h : ∀ e ∈ evs, e.keysPres = true ∧ Ready s e) :
    ReadySeq s evs := by
  have := readySeq_keysPres (s := s) (evs := evs) [] h (by intro e he; cases he) (by simp)
  simpa using this

theorem mem_removeEventsFor {c : Child} {classes : List (Rcn × Rc)} {e : Ev}
    (he : e ∈ removeEventsFor c classes) :
    ∃ p u, p ∈ classes ∧ (c.issuedKeys p.1).isEmpty = false ∧ e = .childCerts p.1 u := by
  simp only [removeEventsFor, List.mem_filterMap] at he
  obtain ⟨p, hp, hsome⟩ := he
  by_cases hk : (c.issuedKeys p.1).isEmpty = true
  · simp [hk] at hsome
  · simp only [hk, Bool.false_eq_true, if_false, Option.some.injEq] at hsome
    exact ⟨p, _, hp, by simpa using hk, hsome.symm⟩

theorem mem_suspendEventsFor {c : Child} {classes : List (Rcn × Rc)} {e : Ev}
    (he : e ∈ suspendEventsFor c classes) :
    ∃ p u, p ∈ classes ∧ (c.issuedKeys p.1).isEmpty = false ∧ e = .childCerts p.1 u := by
  simp only [suspendEventsFor, List.mem_filterMap] at he
  obtain ⟨p, hp, hsome⟩ := he
  by_cases hk : (c.issuedKeys p.1).isEmpty = true
  · simp [hk] at hsome
  · simp only [hk, Bool.false_eq_true, if_false, Option.some.injEq] at hsome
    exact ⟨p, _, hp, by simpa using hk, hsome.symm⟩

/-- A `ChildCertificatesUpdated` for a class of the class list in which the child has keys in use. -/
theorem ready_childCerts_used {s : Ca} (hu : UsedInv s) {ch : Handle} {c : Child}
    (hc : get s.children ch = some c) {p : Rcn × Rc} (hp : p ∈ s.classes)
    (hk : (c.issuedKeys p.1).isEmpty = false) (u : CertUpd) : Ready s (.childCerts p.1 u) := by
  have hsome := get_isSome_of_mem hp
  cases hg : get s.classes p.1 with
  | none => simp [hg] at hsome
  | some rc => exact ready_childCerts u hg (class_of_issuedKeys hu hc hk hg)

theorem mem_unsuspendKeys {s : Ca} {ch : Handle} {c : Child} {r : Rcn} {rc : Rc} {now1d na : Int}
    {ks : List KeyId} {evs : List Ev} {rem : List KeyId}
    (h : unsuspendKeys s ch c r rc now1d na ks = .ok (evs, rem))
    (hch : (get s.children ch).isSome = true) : ∀ e ∈ evs, e.keysPres = true ∧ Ready s e := by
  induction ks generalizing evs rem with
  | nil => simp only [unsuspendKeys, Except.ok.injEq, Prod.mk.injEq] at h; intro e he; rw [← h.1] at he; cases he
  | cons k ks ih =>
    simp only [unsuspendKeys] at h
    cases hs : get rc.certs.suspended k with
    | none => simp only [hs] at h; exact ih h
    | some sc =>
      simp only [hs] at h
      split at h
      · cases hce : s.childCertifyEvents ch sc.res r k sc.limit na with
        | error e => simp [hce] at h
        | ok evs1 =>
          simp only [hce] at h
          cases hrest : unsuspendKeys s ch c r rc now1d na ks with
          | error e => simp [hrest] at h
          | ok pr =>
            obtain ⟨es, rm⟩ := pr
            simp only [hrest, Except.ok.injEq, Prod.mk.injEq] at h
            intro e he
            rw [← h.1] at he
            rcases List.mem_append.mp he with he | he
            · exact certifyEvents_ready hce hch e he
            · exact ih hrest e he
      · cases hrest : unsuspendKeys s ch c r rc now1d na ks with
        | error e => simp [hrest] at h
        | ok pr =>
          obtain ⟨es, rm⟩ := pr
          simp only [hrest, Except.ok.injEq, Prod.mk.injEq] at h
          intro e he
          rw [← h.1] at he
          exact ih hrest e he

theorem mem_unsuspendClasses {s : Ca} (hu : UsedInv s) {ch : Handle} {c : Child} {now1d na : Int}
    (hc : get s.children ch = some c) {l : List (Rcn × Rc)} (hl : ∀ p ∈ l, p ∈ s.classes) {evs : List Ev}
    (h : unsuspendClasses s ch c now1d na l = .ok evs) : ∀ e ∈ evs, e.keysPres = true ∧ Ready s e := by
  have hch : (get s.children ch).isSome = true := by simp [hc]
  induction l generalizing evs with
  | nil => simp only [unsuspendClasses, Except.ok.injEq] at h; subst h; intro e he; cases he
  | cons p ps ih =>
    simp only [unsuspendClasses] at h
    by_cases hk : (c.issuedKeys p.1).isEmpty = true
    · simp only [hk, if_true] at h
      exact ih (fun q hq => hl q (List.mem_cons_of_mem _ hq)) h
    · simp only [hk, Bool.false_eq_true, if_false] at h
      cases hkeys : unsuspendKeys s ch c p.1 p.2 now1d na (c.issuedKeys p.1) with
      | error e => simp [hkeys] at h
      | ok pr =>
        obtain ⟨evs1, rem⟩ := pr
        simp only [hkeys] at h
        cases hrest : unsuspendClasses s ch c now1d na ps with
        | error e => simp [hrest] at h
        | ok rest =>
          simp only [hrest, Except.ok.injEq] at h; subst h
          intro e he
          simp only [List.append_assoc, List.mem_append, List.mem_cons, List.not_mem_nil, or_false] at he
          rcases he with he | rfl | he
          · exact mem_unsuspendKeys hkeys hch e he
          · exact ⟨rfl, ready_childCerts_used hu hc (hl p (List.mem_cons_self ..)) (by simpa using hk) _⟩
          · exact ih (fun q hq => hl q (List.mem_cons_of_mem _ hq)) hrest e he

/-- Child commands (revocation under the condition that the translated class is there and has
a current key) and configuration changes. -/
theorem readySeq_childCmd {s : Ca} (hu : UsedInv s) {c : Cmd} {evs : List Ev}
    (hc : match c with
      | .childAdd .. | .childUpdateResources .. | .childMapping .. | .childCertify .. | .childRemove _
      | .childSuspend _ | .childUnsuspend .. | .addParent _ | .config _ | .childRevokeKey .. => True
      | _ => False)
    (h : s.process c = .ok evs) : ReadySeq s evs := by
  cases c with
  | childAdd ch res =>
    simp only [Ca.process] at h
    split at h
    · cases h
    · split at h
      · cases h
      · split at h
        · cases h
        · simp only [Except.ok.injEq] at h; subst h
          exact readySeq_keysPres (evs := []) [.childAdded ch res] (by intro e he; cases he)
            (by intro e he; simp at he; subst he; exact ⟨Or.inr ⟨_, _, rfl⟩, trivial, rfl, trivial⟩) (by simp)
  | childUpdateResources ch res =>
    simp only [Ca.process] at h
    split at h
    · cases h
    · cases hg : get s.children ch with
      | none => simp [hg] at h
      | some cd =>
        simp only [hg] at h
        split at h
        · simp only [Except.ok.injEq] at h; subst h; trivial
        · simp only [Except.ok.injEq] at h; subst h
          exact readySeq_of_all (by
            intro e he; simp at he; subst he
            exact ⟨rfl, ready_childUpdatedResources res (by simp [hg])⟩)
  | childMapping ch n m =>
    simp only [Ca.process] at h
    cases hg : get s.children ch with
    | none => simp [hg] at h
    | some cd =>
      simp only [hg] at h
      split at h
      · cases h
      · split at h
        · cases h
        · simp only [Except.ok.injEq] at h; subst h
          exact readySeq_of_all (by
            intro e he; simp at he; subst he
            exact ⟨rfl, ready_childMapping n m (by simp [hg])⟩)
  | childCertify ch childRcn ki limit na =>
    simp only [Ca.process] at h
    cases hg : get s.children ch with
    | none => simp [hg] at h
    | some cd =>
      simp only [hg] at h
      exact readySeq_of_all (certifyEvents_ready h (by simp [hg]))
  | childRevokeKey ch childRcn ki =>
    simp only [Ca.process] at h
    cases hg : get s.children ch with
    | none => simp [hg] at h
    | some cd =>
      simp only [hg] at h
      split at h
      · simp only [Except.ok.injEq] at h; subst h; trivial
      · rename_i hcls
        split at h
        · split at h
          · simp only [Except.ok.injEq] at h; subst h; trivial
          · cases h
        · split at h
          · cases h
          rename_i hused
          simp only [Except.ok.injEq] at h; subst h
          cases hrc : get s.classes (cd.nameInParent childRcn) with
          | none => simp [hrc] at hcls
          | some rc =>
            -- since fix 239f0a59 the key is in use in THIS class: the class is past `pending`
            have hcur := (hu ch cd ki _ hg (Classical.not_not.mp hused)).2 rc hrc
            refine readySeq_of_all ?_
            intro e he
            simp only [List.mem_cons, List.not_mem_nil, or_false] at he
            rcases he with rfl | rfl
            · refine ⟨rfl, trivial, ?_, trivial⟩
              simp [Ca.apply, Ca.withClass, hrc, withChild_isSome', hg]
            · exact ⟨rfl, ready_childCerts _ hrc hcur⟩
  | childRemove ch =>
    simp only [Ca.process] at h
    cases hg : get s.children ch with
    | none => simp [hg] at h
    | some cd =>
      simp only [hg, Except.ok.injEq] at h; subst h
      refine readySeq_keysPres [.childRemoved ch] ?_ ?_ (by simp)
      · intro e he
        obtain ⟨p, u, hp, hk, rfl⟩ := mem_removeEventsFor he
        exact ⟨rfl, ready_childCerts_used hu hg hp hk u⟩
      · intro e he; simp at he; subst he; exact ⟨Or.inl ⟨_, rfl⟩, trivial, rfl, trivial⟩
  | childSuspend ch =>
    simp only [Ca.process] at h
    cases hg : get s.children ch with
    | none => simp [hg] at h
    | some cd =>
      simp only [hg] at h
      split at h
      · simp only [Except.ok.injEq] at h; subst h; trivial
      · split at h
        · simp only [Except.ok.injEq] at h; subst h; trivial
        · simp only [Except.ok.injEq] at h; subst h
          refine readySeq_of_all ?_
          intro e he
          rcases List.mem_append.mp he with he | he
          · obtain ⟨p, u, hp, hk, rfl⟩ := mem_suspendEventsFor he
            exact ⟨rfl, ready_childCerts_used hu hg hp hk u⟩
          · simp at he; subst he
            exact ⟨rfl, ready_childSuspended (by simp [hg])⟩
  | childUnsuspend ch now1d na =>
    simp only [Ca.process] at h
    cases hg : get s.children ch with
    | none => simp [hg] at h
    | some cd =>
      simp only [hg] at h
      split at h
      · simp only [Except.ok.injEq] at h; subst h; trivial
      · cases hcl : unsuspendClasses s ch cd now1d na s.classes with
        | error e => simp [hcl] at h
        | ok evs1 =>
          simp only [hcl, Except.ok.injEq] at h; subst h
          refine readySeq_of_all ?_
          intro e he
          rcases List.mem_append.mp he with he | he
          · exact mem_unsuspendClasses hu hg (fun p hp => hp) hcl e he
          · simp at he; subst he
            exact ⟨rfl, ready_childUnsuspended (by simp [hg])⟩
  | addParent p =>
    simp only [Ca.process] at h
    split at h
    · cases h
    · simp only [Except.ok.injEq] at h; subst h
      exact readySeq_of_all (by intro e he; simp at he; subst he; exact ⟨rfl, trivial, rfl, trivial⟩)
  | config upds =>
    simp only [Ca.process, Except.ok.injEq] at h; subst h
    refine readySeq_of_all ?_
    intro e he
    obtain ⟨u, hu', rfl⟩ := List.mem_map.mp he
    simp only [List.mem_filter, Bool.and_eq_true] at hu'
    obtain ⟨_, _, hcur⟩ := hu'
    cases hg : get s.classes u.1 with
    | none => simp [hg] at hcur
    | some rc =>
      simp only [hg] at hcur
      exact ⟨rfl, ready_products _ hg hcur⟩
  | _ => exact absurd hc (by simp)

/-! ## Loops over the classes -/

/-- A loop over the class list that fails as a whole when one class fails. -/
def forClasses (f : Rcn → Rc → Except Err (List Ev)) : List (Rcn × Rc) → Except Err (List Ev)
  | [] => .ok []
  | p :: ps =>
    match f p.1 p.2 with
    | .error e => .error e
    | .ok a =>
      match forClasses f ps with
      | .error e => .error e
      | .ok b => .ok (a ++ b)

/-- If every class's chunk is class-local and ready on the class record, the loop's output is a
ready sequence – whatever state the classes of the list are found in unchanged. -/
theorem readySeq_forClasses {f : Rcn → Rc → Except Err (List Ev)}
    (hf : ∀ r rc evs, f r rc = .ok evs → (∀ e ∈ evs, e.onClass r = true) ∧ RcReadySeq rc evs)
    {l : List (Rcn × Rc)} {evs : List Ev} {s : Ca} (hnd : (keys l).Nodup)
    (hl : ∀ p ∈ l, get s.classes p.1 = some p.2) (h : forClasses f l = .ok evs) : ReadySeq s evs := by
  induction l generalizing s evs with
  | nil => simp only [forClasses, Except.ok.injEq] at h; subst h; trivial
  | cons p ps ih =>
    simp only [forClasses] at h
    cases hfp : f p.1 p.2 with
    | error e => simp [hfp] at h
    | ok a =>
      simp only [hfp] at h
      cases hrest : forClasses f ps with
      | error e => simp [hrest] at h
      | ok b =>
        simp only [hrest, Except.ok.injEq] at h; subst h
        obtain ⟨hon, hrs⟩ := hf p.1 p.2 a hfp
        have hgp := hl p (List.mem_cons_self ..)
        refine readySeq_append (readySeq_of_rc hon hgp hrs) ?_
        intro s' hs'
        obtain ⟨_, _, _, hframe, _⟩ := applyAll_of_rc hon hgp hs'
        simp only [keys, List.map_cons, List.nodup_cons] at hnd
        refine ih hnd.2 ?_ hrest
        intro q hq
        have hne : q.1 ≠ p.1 := by
          intro he
          exact hnd.1 (he ▸ List.mem_map.mpr ⟨q, hq, rfl⟩)
        rw [hframe q.1 hne]
        exact hl q (List.mem_cons_of_mem _ hq)

/-- `append_keyroll_initiate` for one class, with the input checks of the model. -/
def initClass (fresh : AMap Rcn KeyId) (r : Rcn) (rc : Rc) : Except Err (List Ev) :=
  match rc.keys with
  | .active c =>
    match get fresh r with
    | none => .error .badFreshKey
    | some k => if k = c.id then .error .badFreshKey else .ok ((rc.keys.keyrollInitiate k).map (.key r))
  | _ => .ok []

theorem keyrollInitLoop_eq (fresh : AMap Rcn KeyId) (l : List (Rcn × Rc)) :
    keyrollInitLoop fresh l = forClasses (initClass fresh) l := by
  induction l with
  | nil => rfl
  | cons p ps ih =>
    simp only [keyrollInitLoop, forClasses, initClass]
    cases hk : p.2.keys with
    | active c =>
      simp only
      cases hf : get fresh p.1 with
      | none => rfl
      | some k =>
        simp only
        by_cases hkc : k = c.id
        · simp [hkc]
        · simp only [hkc, if_false, ih]; rfl
    | pending _ => simp only [List.nil_append]; rw [ih]; cases forClasses (initClass fresh) ps <;> rfl
    | rollPending _ _ => simp only [List.nil_append]; rw [ih]; cases forClasses (initClass fresh) ps <;> rfl
    | rollNew _ _ => simp only [List.nil_append]; rw [ih]; cases forClasses (initClass fresh) ps <;> rfl
    | rollOld _ _ => simp only [List.nil_append]; rw [ih]; cases forClasses (initClass fresh) ps <;> rfl

theorem initClass_ready (fresh : AMap Rcn KeyId) (r : Rcn) (rc : Rc) (evs : List Ev)
    (h : initClass fresh r rc = .ok evs) : (∀ e ∈ evs, e.onClass r = true) ∧ RcReadySeq rc evs := by
  unfold initClass at h
  cases hk : rc.keys with
  | active c =>
    simp only [hk] at h
    cases hf : get fresh r with
    | none => simp [hf] at h
    | some k =>
      simp only [hf] at h
      by_cases hkc : k = c.id
      · simp [hkc] at h
      · simp only [hkc, if_false, Except.ok.injEq, KeyState.keyrollInitiate, List.map_cons, List.map_nil] at h
        subst h
        refine ⟨by intro e he; simp at he; rcases he with rfl | rfl <;> simp [Ev.onClass], ?_⟩
        refine ⟨⟨?_, by simp [Rc.applyEv, hk, KeyState.apply, KeyState.applyPendingAdded], trivial⟩, ?_⟩
        · intro c' hc'; rw [hk] at hc'; cases hc'; exact hkc
        · intro rc' hrc'
          exact ⟨⟨trivial, by simp [Rc.applyEv, KeyState.apply], trivial⟩, fun _ _ => trivial⟩
  | pending _ => simp only [hk, Except.ok.injEq] at h; subst h; exact ⟨(by intro e he; cases he), trivial⟩
  | rollPending _ _ => simp only [hk, Except.ok.injEq] at h; subst h; exact ⟨(by intro e he; cases he), trivial⟩
  | rollNew _ _ => simp only [hk, Except.ok.injEq] at h; subst h; exact ⟨(by intro e he; cases he), trivial⟩
  | rollOld _ _ => simp only [hk, Except.ok.injEq] at h; subst h; exact ⟨(by intro e he; cases he), trivial⟩

theorem activateLoop_eq (na : Int) (l : List (Rcn × Rc)) :
    activateLoop na l = forClasses (fun r rc => activateClass r rc na) l := by
  induction l with
  | nil => rfl
  | cons p ps ih => simp only [activateLoop, forClasses, ih]; rfl

theorem activateClass_ready (na : Int) (r : Rcn) (rc : Rc) (evs : List Ev)
    (h : activateClass r rc na = .ok evs) : (∀ e ∈ evs, e.onClass r = true) ∧ RcReadySeq rc evs := by
  unfold activateClass at h
  cases hn : rc.keys.newKey with
  | none => simp only [hn, Except.ok.injEq] at h; subst h; exact ⟨(by intro e he; cases he), trivial⟩
  | some n =>
    simp only [hn] at h
    cases hk : rc.keys with
    | rollNew n' c =>
      cases ha : rc.keys.keyrollActivate with
      | error e => simp [ha] at h
      | ok kevs =>
        simp only [ha] at h
        cases hac : rc.certs.activateKey n.cert na with
        | error e => simp [hac] at h
        | ok upd =>
          simp only [hac, Except.ok.injEq] at h; subst h
          -- the key events are `[activated]`
          have hkevs : kevs = [.activated] := by
            rw [hk] at ha
            simp only [KeyState.keyrollActivate] at ha
            split at ha <;> cases ha
            rfl
          subst hkevs
          have hrest : ∀ e ∈ renewal r rc .roa ++ renewal r rc .aspa ++
              (if upd.isEmpty = true then [] else [Ev.childCerts r upd]) ++ renewal r rc .bgpsec,
              e.isPayload = true ∧ e.rcn? = some r := by
            intro e he
            simp only [List.mem_append] at he
            rcases he with ((he | he) | he) | he
            · exact renewal_payload r rc .roa e he
            · exact renewal_payload r rc .aspa e he
            · split at he
              · cases he
              · simp only [List.mem_singleton] at he; subst he; exact ⟨rfl, rfl⟩
            · exact renewal_payload r rc .bgpsec e he
          simp only [List.map_cons, List.map_nil, List.cons_append, List.nil_append, List.append_assoc] at hrest ⊢
          refine ⟨?_, ?_⟩
          · intro e he
            rcases List.mem_cons.mp he with rfl | he
            · simp [Ev.onClass]
            · exact isPayload_onClass (hrest e he).1 (hrest e he).2
          · refine ⟨⟨trivial, by simp [Rc.applyEv, hk, KeyState.apply, KeyState.applyActivated], trivial⟩, ?_⟩
            intro rc' hrc'
            simp only [Rc.applyEv, hk, KeyState.apply, KeyState.applyActivated, Option.map_some,
              Option.some.injEq] at hrc'
            subst hrc'
            exact rcReadySeq_payloads (by simp [KeyState.current]) (fun e he => (hrest e he).1)
    | pending _ => rw [hk] at hn; simp [KeyState.newKey] at hn
    | active _ => rw [hk] at hn; simp [KeyState.newKey] at hn
    | rollPending _ _ => rw [hk] at hn; simp [KeyState.newKey] at hn
    | rollOld _ _ => rw [hk] at hn; simp [KeyState.newKey] at hn

/-! ## Key-roll commands -/

theorem classes_get_of_mem {s : Ca} (hnd : (keys s.classes).Nodup) :
    ∀ p ∈ s.classes, get s.classes p.1 = some p.2 :=
  fun _ hp => get_of_mem_nodup hnd hp

theorem ready_repoUpdated (s : Ca) : Ready s .repoUpdated := ⟨trivial, rfl, trivial⟩

theorem readySeq_keyroll {s : Ca} (hnd : (keys s.classes).Nodup) {c : Cmd} {evs : List Ev}
    (hc : match c with
      | .keyrollInit _ | .keyrollActivate _ | .keyrollFinish _ | .repoUpdate _ | .dropClass _ => True
      | _ => False)
    (h : s.process c = .ok evs) : ReadySeq s evs := by
  cases c with
  | keyrollInit fresh =>
    simp only [Ca.process] at h
    split at h
    · simp only [Except.ok.injEq] at h; subst h; trivial
    · split at h
      · cases h
      · rw [keyrollInitLoop_eq] at h
        exact readySeq_forClasses (initClass_ready fresh) hnd (classes_get_of_mem hnd) h
  | keyrollActivate na =>
    simp only [Ca.process] at h
    rw [activateLoop_eq] at h
    exact readySeq_forClasses (activateClass_ready na) hnd (classes_get_of_mem hnd) h
  | keyrollFinish rcn =>
    simp only [Ca.process] at h
    cases hg : get s.classes rcn with
    | none => simp [hg] at h
    | some rc =>
      simp only [hg] at h
      cases hf : rc.keys.keyrollFinish with
      | error e => simp [hf] at h
      | ok e =>
        simp only [hf, Except.ok.injEq] at h; subst h
        cases hk : rc.keys with
        | rollOld c o =>
          rw [hk] at hf; simp only [KeyState.keyrollFinish, Except.ok.injEq] at hf; subst hf
          refine readySeq_of_rc (r := rcn) (rc := rc) (by intro e he; simp at he; subst he; simp [Ev.onClass]) hg ?_
          exact ⟨⟨trivial, by simp [Rc.applyEv, hk, KeyState.apply, KeyState.applyFinished], trivial⟩, fun _ _ => trivial⟩
        | pending _ => rw [hk] at hf; simp [KeyState.keyrollFinish] at hf
        | active _ => rw [hk] at hf; simp [KeyState.keyrollFinish] at hf
        | rollPending _ _ => rw [hk] at hf; simp [KeyState.keyrollFinish] at hf
        | rollNew _ _ => rw [hk] at hf; simp [KeyState.keyrollFinish] at hf
  | repoUpdate fresh =>
    simp only [Ca.process] at h
    split at h
    · simp only [Except.ok.injEq] at h; subst h
      exact ⟨ready_repoUpdated s, fun _ _ => trivial⟩
    · split at h
      · cases h
      · cases hl : keyrollInitLoop fresh s.classes with
        | error e => simp [hl] at h
        | ok evs1 =>
          simp only [hl, Except.ok.injEq] at h; subst h
          rw [keyrollInitLoop_eq] at hl
          refine readySeq_append (readySeq_forClasses (initClass_ready fresh) hnd (classes_get_of_mem hnd) hl) ?_
          intro s' _
          exact ⟨ready_repoUpdated s', fun _ _ => trivial⟩
  | dropClass rcn =>
    simp only [Ca.process] at h
    cases hg : get s.classes rcn with
    | none => simp [hg] at h
    | some rc =>
      simp only [hg, Except.ok.injEq] at h; subst h
      exact ⟨⟨trivial, rfl, trivial⟩, fun _ _ => trivial⟩
  | _ => exact absurd hc (by simp)

/-! ## Removing a parent -/

theorem get_foldl_del {V : Type} (rs : List Rcn) (m : AMap Rcn V) (r : Rcn) :
    get (rs.foldl del m) r = if r ∈ rs then none else get m r := by
  induction rs generalizing m with
  | nil => simp
  | cons r0 rs ih =>
    simp only [List.foldl_cons, ih, List.mem_cons, get_del]
    by_cases h1 : r ∈ rs
    · simp [h1]
    · by_cases h0 : r0 = r
      · simp [h0]
      · have : ¬ r = r0 := fun h => h0 h.symm
        simp [h1, h0, this]

theorem applyAll_rcRemoved (s : Ca) (rs : List Rcn) :
    s.applyAll (rs.map Ev.rcRemoved) = some { s with classes := rs.foldl del s.classes } := by
  induction rs generalizing s with
  | nil => rfl
  | cons r rs ih =>
    simp only [List.map_cons, Ca.applyAll, Ca.apply, Option.bind_some, List.foldl_cons]
    exact ih _

theorem readySeq_rcRemoved (s : Ca) (rs : List Rcn) : ReadySeq s (rs.map Ev.rcRemoved) := by
  induction rs generalizing s with
  | nil => trivial
  | cons r rs ih => exact ⟨⟨trivial, rfl, trivial⟩, fun s' _ => ih s'⟩

theorem readySeq_removeParent {s : Ca} {p : Handle} {evs : List Ev}
    (h : s.process (.removeParent p) = .ok evs) : ReadySeq s evs := by
  simp only [Ca.process] at h
  split at h
  · cases h
  · simp only [Except.ok.injEq] at h; subst h
    have hmap : (s.classes.filter fun q => decide (q.2.parent = p)).map (fun q => Ev.rcRemoved q.1) =
        ((s.classes.filter fun q => decide (q.2.parent = p)).map (·.1)).map Ev.rcRemoved := by
      simp [List.map_map]
    rw [hmap]
    refine readySeq_append (readySeq_rcRemoved _ _) ?_
    intro s' hs'
    rw [applyAll_rcRemoved] at hs'
    simp only [Option.some.injEq] at hs'; subst hs'
    refine ⟨⟨?_, rfl, trivial⟩, fun _ _ => trivial⟩
    intro r rc hg
    simp only [get_foldl_del] at hg
    split at hg
    · cases hg
    · rename_i hnot
      intro hpar
      apply hnot
      exact List.mem_map.mpr ⟨(r, rc), List.mem_filter.mpr ⟨mem_of_get hg, by simpa using hpar⟩, rfl⟩

/-! ## Entitlements -/

/-- Requests and unexpected-key notices for class `r`. -/
def Ev.isEntEv (r : Rcn) : Ev → Bool
  | .key r' (.requested _) => r' = r
  | .key r' (.unexpected _) => r' = r
  | _ => false

theorem entitlementEvents_isEntEv (ks : KeyState) (ent : Entitlement) (now : Int) (r : Rcn) :
    ∀ e ∈ (ks.entitlementEvents ent now).map (Ev.key r), e.isEntEv r = true := by
  intro e he
  obtain ⟨ke, hke, rfl⟩ := List.mem_map.mp he
  simp only [KeyState.entitlementEvents, List.mem_append, List.mem_map] at hke
  rcases hke with ⟨k, _, rfl⟩ | ⟨k, _, rfl⟩ <;> simp [Ev.isEntEv]

/-- Class names only grow, `next_class_name` is what it was. -/
structure Grow (s s' : Ca) : Prop where
  cls : ∀ r, (get s.classes r).isSome = true → (get s'.classes r).isSome = true
  next : s'.nextClass = s.nextClass

theorem Grow.refl (s : Ca) : Grow s s := ⟨fun _ h => h, rfl⟩

theorem Grow.trans {a b c : Ca} (h1 : Grow a b) (h2 : Grow b c) : Grow a c :=
  ⟨fun r h => h2.cls r (h1.cls r h), h2.next.trans h1.next⟩

theorem entEv_step {s : Ca} {r : Rcn} {e : Ev} (he : e.isEntEv r = true)
    (hex : (get s.classes r).isSome = true) :
    Ready s e ∧ ∀ s', s.apply e = some s' → Grow s s' := by
  cases e with
  | key r' ke =>
    cases ke with
    | requested k =>
      simp only [Ev.isEntEv, decide_eq_true_eq] at he; subst he
      cases hg : get s.classes r' with
      | none => simp [hg] at hex
      | some rc =>
        refine ⟨⟨trivial, by simp [Ca.apply, Ca.withClass, hg, KeyState.apply], trivial⟩, ?_⟩
        intro s' hs'
        simp only [Ca.apply, Ca.withClass, hg, KeyState.apply, Option.map_some, Option.some.injEq] at hs'
        subst hs'
        refine ⟨?_, rfl⟩
        intro r2 h2
        simp only [get_set]
        split <;> simp_all
    | unexpected k =>
      refine ⟨⟨trivial, rfl, trivial⟩, ?_⟩
      intro s' hs'
      simp only [Ca.apply, Option.some.injEq] at hs'; subst hs'
      exact Grow.refl s
    | _ => simp [Ev.isEntEv] at he
  | _ => simp [Ev.isEntEv] at he

theorem readySeq_entEvs {s : Ca} {r : Rcn} {evs : List Ev} (he : ∀ e ∈ evs, e.isEntEv r = true)
    (hex : (get s.classes r).isSome = true) :
    ReadySeq s evs ∧ ∀ s', s.applyAll evs = some s' → Grow s s' := by
  induction evs generalizing s with
  | nil =>
    refine ⟨trivial, ?_⟩
    intro s' hs'; simp only [Ca.applyAll, Option.some.injEq] at hs'; subst hs'; exact Grow.refl s
  | cons e es ih =>
    obtain ⟨hr, hg⟩ := entEv_step (he e (List.mem_cons_self ..)) hex
    refine ⟨⟨hr, ?_⟩, ?_⟩
    · intro s' hs'
      exact (ih (fun e' he' => he e' (List.mem_cons_of_mem _ he')) ((hg s' hs').cls r hex)).1
    · intro s' hs'
      simp only [Ca.applyAll] at hs'
      cases ha : s.apply e with
      | none => simp [ha] at hs'
      | some s1 =>
        simp only [ha, Option.bind_some] at hs'
        exact (hg s1 ha).trans
          ((ih (fun e' he' => he e' (List.mem_cons_of_mem _ he')) ((hg s1 ha).cls r hex)).2 s' hs')

/-- The loop of `process_update_entitlements` over the entitlements, from any state in which
the classes the loop found in the original state still exist and whose `next_class_name` is the
loop's counter. -/
theorem readySeq_entitlementLoop {s : Ca} {p : Handle} {now : Int} {ents : List Entitlement}
    {next : Nat} {fresh : List KeyId} {evs : List Ev} {s1 : Ca}
    (hnext : s1.nextClass = next)
    (hfound : ∀ ent ∈ ents, ∀ q, s.findParentRc p ent.rcn = some q → (get s1.classes q.1).isSome = true)
    (h : entitlementLoop s p now ents next fresh = .ok evs) : ReadySeq s1 evs := by
  induction ents generalizing next fresh evs s1 with
  | nil => simp only [entitlementLoop, Except.ok.injEq] at h; subst h; trivial
  | cons ent ents ih =>
    simp only [entitlementLoop] at h
    cases hf : s.findParentRc p ent.rcn with
    | some q =>
      obtain ⟨rcn, rc⟩ := q
      simp only [hf] at h
      split at h
      · cases h
      · cases hrest : entitlementLoop s p now ents next fresh with
        | error e => simp [hrest] at h
        | ok rest =>
          simp only [hrest, Except.ok.injEq] at h; subst h
          have hex := hfound ent (List.mem_cons_self ..) (rcn, rc) hf
          obtain ⟨hrs, hgrow⟩ := readySeq_entEvs (entitlementEvents_isEntEv rc.keys ent now rcn) hex
          refine readySeq_append hrs ?_
          intro s' hs'
          have hg := hgrow s' hs'
          refine ih (hg.next.trans hnext) ?_ hrest
          intro ent' hent' q hq
          exact hg.cls _ (hfound ent' (List.mem_cons_of_mem _ hent') q hq)
    | none =>
      simp only [hf] at h
      cases fresh with
      | nil => simp at h
      | cons k fresh' =>
        simp only at h
        split at h
        · cases h
        · cases hrest : entitlementLoop s p now ents (next + 1) fresh' with
          | error e => simp [hrest] at h
          | ok rest =>
            simp only [hrest, Except.ok.injEq] at h; subst h
            refine ⟨⟨hnext.symm, rfl, trivial⟩, ?_⟩
            intro s2 hs2
            simp only [Ca.apply, Option.some.injEq] at hs2; subst hs2
            have hex2 : (get (set s1.classes next (Rc.create p ent.rcn k)) next).isSome = true := by
              simp [get_set_self]
            obtain ⟨hrs, hgrow⟩ := readySeq_entEvs
              (s := { s1 with nextClass := s1.nextClass + 1, classes := set s1.classes next (Rc.create p ent.rcn k) })
              (entitlementEvents_isEntEv (KeyState.pending ⟨k, false⟩) ent now next) hex2
            refine readySeq_append hrs ?_
            intro s' hs'
            have hg := hgrow s' hs'
            refine ih (by rw [hg.next]; simp [hnext]) ?_ hrest
            intro ent' hent' q hq
            apply hg.cls
            have := hfound ent' (List.mem_cons_of_mem _ hent') q hq
            simp only [get_set]
            split <;> simp_all

theorem readySeq_updateEntitlements {s : Ca} (hnd : (keys s.classes).Nodup) {p : Handle}
    {ents : List Entitlement} {now : Int} {fresh : List KeyId} {evs : List Ev}
    (h : s.process (.updateEntitlements p ents now fresh) = .ok evs) : ReadySeq s evs := by
  simp only [Ca.process] at h
  cases hl : entitlementLoop s p now ents s.nextClass fresh with
  | error e => simp [hl] at h
  | ok evs1 =>
    simp only [hl, Except.ok.injEq] at h; subst h
    have hmap : ∀ (l : List (Rcn × Rc)), l.map (fun q => Ev.rcRemoved q.1) = (l.map (·.1)).map Ev.rcRemoved := by
      intro l; simp [List.map_map]
    rw [hmap]
    refine readySeq_append (readySeq_rcRemoved _ _) ?_
    intro s' hs'
    rw [applyAll_rcRemoved] at hs'
    simp only [Option.some.injEq] at hs'; subst hs'
    refine readySeq_entitlementLoop rfl ?_ hl
    intro ent hent q hq
    -- the class found for an entitlement is not one of the removed ones
    simp only [Ca.findParentRc] at hq
    have hmem := List.mem_of_find?_eq_some hq
    have hprop := List.find?_some hq
    simp only [decide_eq_true_eq] at hprop
    simp only [get_foldl_del]
    split
    · rename_i hin
      obtain ⟨q', hq', hq1⟩ := List.mem_map.mp hin
      simp only [List.mem_filter, Bool.and_eq_true, decide_eq_true_eq, Bool.not_eq_true',
        Bool.decide_and] at hq'
      -- same name, so the same record
      have h1 := get_of_mem_nodup hnd hq'.1
      have h2 := get_of_mem_nodup hnd hmem
      rw [hq1] at h1
      rw [h2] at h1
      have heq : q.2 = q'.2 := by simpa using h1
      have : ent.rcn ∈ ents.map (·.rcn) := List.mem_map.mpr ⟨ent, hent, rfl⟩
      have hnot := hq'.2.2
      rw [← hprop.2, heq] at this
      simp_all
    · rw [get_of_mem_nodup hnd hmem]; rfl

/-! ## All commands -/

/-- The condition under which the pre-save listener accepts the events of a revocation request:
the class the child's name is translated to, if it exists, has a current key (a class that is
still `pending` has no published object sets, and the listener refuses the certificate update
for it with an error).  `apply` needs no condition since fix 43d7eca0. -/
def RevokeOk (s : Ca) : Cmd → Prop
  | .childRevokeKey ch childRcn _ =>
    ∀ cd rc, get s.children ch = some cd → get s.classes (cd.nameInParent childRcn) = some rc →
      rc.keys.current.isSome = true
  | _ => True

theorem process_readySeq {s : Sys} (hinv : Inv s) {c : Cmd} {evs : List Ev} (hok : RevokeOk s.ca c)
    (h : s.ca.process c = .ok evs) : ReadySeq s.ca evs := by
  have hnd := hinv.core.nodup
  have hu := hinv.used
  cases c with
  | childAdd ch res => exact readySeq_childCmd hu trivial h
  | childUpdateResources ch res => exact readySeq_childCmd hu trivial h
  | childMapping ch n m => exact readySeq_childCmd hu trivial h
  | childCertify ch r k l na => exact readySeq_childCmd hu trivial h
  | childRevokeKey ch r k => exact readySeq_childCmd hu trivial h
  | childRemove ch => exact readySeq_childCmd hu trivial h
  | childSuspend ch => exact readySeq_childCmd hu trivial h
  | childUnsuspend ch now1d na => exact readySeq_childCmd hu trivial h
  | addParent p => exact readySeq_childCmd hu trivial h
  | config upds => exact readySeq_childCmd hu trivial h
  | removeParent p => exact readySeq_removeParent h
  | updateEntitlements p ents now fresh => exact readySeq_updateEntitlements hnd h
  | updateRcvdCert r k cert na prods => exact readySeq_updateRcvdCert h
  | dropClass r => exact readySeq_keyroll hnd trivial h
  | keyrollInit fresh => exact readySeq_keyroll hnd trivial h
  | keyrollActivate na => exact readySeq_keyroll hnd trivial h
  | keyrollFinish r => exact readySeq_keyroll hnd trivial h
  | repoUpdate fresh => exact readySeq_keyroll hnd trivial h

theorem exec_stored_iff {s s' : Sys} {c : Cmd} {evs : List Ev} :
    s.exec c = .stored evs s' ↔ s.ca.process c = .ok evs ∧ s.runEvs evs = some s' := by
  unfold Sys.exec
  cases hp : s.ca.process c with
  | error e => simp
  | ok evs0 =>
    simp only
    cases ha : s.ca.applyAll evs0 with
    | none =>
      simp only [Except.ok.injEq]
      constructor
      · intro h; cases h
      · rintro ⟨rfl, hr⟩
        obtain ⟨ca', o'⟩ := s'
        rw [runEvs_some_iff] at hr
        rw [ha] at hr; cases hr.1
    | some ca' =>
      simp only
      cases ho : s.objs.stepAll evs0 with
      | error e =>
        simp only [Except.ok.injEq]
        constructor
        · intro h; cases h
        · rintro ⟨rfl, hr⟩
          obtain ⟨ca'', o'⟩ := s'
          rw [runEvs_some_iff] at hr
          rw [ho] at hr; cases hr.2
      | ok o' =>
        simp only [Outcome.stored.injEq, Except.ok.injEq]
        constructor
        · rintro ⟨rfl, rfl⟩
          exact ⟨rfl, runEvs_some_iff.mpr ⟨ha, ho⟩⟩
        · rintro ⟨rfl, hr⟩
          obtain ⟨ca'', o''⟩ := s'
          obtain ⟨h1, h2⟩ := runEvs_some_iff.mp hr
          rw [ha] at h1; rw [ho] at h2
          cases h1; cases h2
          exact ⟨rfl, rfl⟩

/-- Since fix 239f0a59 (a revocation is executed only for a key in use in the class the request
names, and such a class is past `pending` - `UsedInv`) `RevokeOk` is not needed any more: the
events of EVERY successful `process` are ready. -/
theorem process_readySeq_all {s : Sys} (hinv : Inv s) {c : Cmd} {evs : List Ev}
    (h : s.ca.process c = .ok evs) : ReadySeq s.ca evs := by
  by_cases hok : RevokeOk s.ca c
  · exact process_readySeq hinv hok h
  · cases c with
    | childRevokeKey ch r k => exact readySeq_childCmd hinv.used trivial h
    | _ => exact absurd trivial hok

/-- A revocation request outside `RevokeOk` never changes anything: the listener refuses (class
still pending), or - since fix 7be8c4c6 - the key was revoked by this CA before and the request
is confirmed without an event. -/
theorem bad_revoke_not_stored {s : Sys} (hinv : Inv s) {c : Cmd} (hbad : ¬ RevokeOk s.ca c)
    {evs : List Ev} {s' : Sys} (hst : s.exec c = .stored evs s') : s' = s := by
  obtain ⟨hp, hr⟩ := exec_stored_iff.mp hst
  cases c with
  | childRevokeKey ch childRcn ki =>
    simp only [RevokeOk] at hbad
    simp only [Ca.process] at hp
    refine Classical.byContradiction fun hne => hbad ?_
    intro cd rc hcd hg
    simp only [hcd, hg, Option.isSome_some, Bool.not_true, Bool.false_eq_true, if_false] at hp
    split at hp
    · split at hp
      · -- the key was revoked by this CA before: confirmed without events - but then nothing
        -- is stored for a pending class either; `RevokeOk` is about the class having a current key
        simp only [Except.ok.injEq] at hp; subst hp
        simp only [Sys.runEvs, Option.some.injEq] at hr
        exact absurd hr.symm hne
      · cases hp
    · split at hp
      · cases hp
      simp only [Except.ok.injEq] at hp; subst hp
      obtain ⟨ca', o'⟩ := s'
      obtain ⟨ha, ho⟩ := runEvs_some_iff.mp hr
      -- the listener accepted `ChildCertificatesUpdated`: there is an object class, so the
      -- class is not pending
      simp only [Objs.stepAll, Objs.step] at ho
      cases hgo : get s.objs (cd.nameInParent childRcn) with
      | none => simp [Objs.withClass, hgo] at ho
      | some ok =>
        have hc := hinv.core.cls (cd.nameInParent childRcn)
        rw [hg, hgo] at hc
        obtain ⟨hm, _, _⟩ := hc
        cases hk : rc.keys with
        | pending p => rw [hk] at hm; have := ksMirror_pending.mp hm; cases this
        | _ => simp [KeyState.current]
  | _ => exact absurd trivial hbad

/-- The events of a revocation request are applied by `apply` whatever the state of the class
(the listener is the one that may refuse). -/
theorem revoke_applies {s : Ca} {ch : Handle} {childRcn : Rcn} {ki : KeyId} {evs : List Ev}
    (h : s.process (.childRevokeKey ch childRcn ki) = .ok evs) : (s.applyAll evs).isSome = true := by
  simp only [Ca.process] at h
  cases hg : get s.children ch with
  | none => simp [hg] at h
  | some cd =>
    simp only [hg] at h
    split at h
    · simp only [Except.ok.injEq] at h; subst h; rfl
    · rename_i hcls
      split at h
      · split at h
        · simp only [Except.ok.injEq] at h; subst h; rfl
        · cases h
      · split at h
        · cases h
        simp only [Except.ok.injEq] at h; subst h
        cases hrc : get s.classes (cd.nameInParent childRcn) with
        | none => simp [hrc] at hcls
        | some rc =>
          simp [Ca.applyAll, Ca.apply, Ca.withClass, Ca.withChild, hrc, hg, get_set]

end KM.CaK
