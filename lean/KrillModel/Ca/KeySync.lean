/-
The sync driver seen from one resource class (src/server/ca/manager.rs:1588-1615, 1722-1760,
1913-1991): "has pending requests → send them (revocations first, then certificate requests
and handle the responses) else fetch the entitlements and create requests", with a parent that
answers every request with a certificate for the currently entitled resources and not-after
time, and confirms revocations.  Plus the key-roll activation step.  Used for
`roll_completes` and `sync_converges`; the projection of `Sys`-level syncs onto this machine is
what the `syskeys` driver checks on traces.  Import-free (model files only).
-/
import KrillModel.Ca.Keys
namespace KM.CaK
open KM.Res

/-- What the parent currently entitles the class to. -/
structure Offer where
  res : ResSet
  na : Int
deriving DecidableEq, Repr

/-- The certificate the parent issues for any request while the offer stands. -/
def Offer.cert (o : Offer) : Cert := { res := o.res, na := o.na, slash := true, all := false }

def Offer.ent (o : Offer) : Entitlement := { rcn := 0, res := o.res, na := o.na, issued := [] }

/-- `UpdateRcvdCert` on the key state (routing of `process_received_cert`, then `apply`); a
refused certificate leaves the state (the manager then drops the class – not reachable for the
requests the class itself created, see `receive_requested`). -/
def KeyState.receive (ks : KeyState) (ki : KeyId) (cert : Cert) : KeyState :=
  match ks.route ki with
  | .ok .toActive => (ks.applyPendingToActive (CertKey.create ki cert)).getD ks
  | .ok .toNew => (ks.applyPendingToNew (CertKey.create ki cert)).getD ks
  | .ok .newCert => (ks.applyReceived ki cert).getD ks
  | .ok (.current _) => (ks.applyReceived ki cert).getD ks
  | .error _ => ks

/-- One `ca_sync_parent` round for the class. -/
def KeyState.syncStep (ks : KeyState) (o : Offer) (now : Int) : KeyState :=
  if ks.hasPending then
    -- revocation confirmed → `KeyRollFinish`
    let ks1 : KeyState := match ks with
      | .rollOld c _ => .active c
      | _ => ks
    -- the open requests (as listed after the revocations), each answered with a certificate
    ks1.certRequests.foldl (fun k ki => k.receive ki o.cert) ks1
  else
    -- `UpdateEntitlements`: the requests `append_entitlement_events` creates
    (ks.requestKeys o.ent now).foldl (fun k ki => k.applyRequested ki) ks

/-- `KeyRollActivate` for the class (nothing happens unless there is a new key without open
requests on either key). -/
def KeyState.activateStep (ks : KeyState) : KeyState :=
  match ks.keyrollActivate with
  | .ok [.activated] => (ks.applyActivated).getD ks
  | _ => ks

/-- The schedule (sync, activate, sync). -/
def KeyState.round (ks : KeyState) (o : Offer) (now : Int) : KeyState :=
  ((ks.syncStep o now).activateStep).syncStep o now

/-- Request flags are where the code can put them: the old key of a finished activation never
gets a request (`apply_issuance_request` is only ever called with the current key's id in
`RollOld`, keys.rs:496-519), keys are pairwise different. -/
def KeyState.wf : KeyState → Bool
  | .rollOld c o => !o.req && c.id ≠ o.id
  | .rollNew n c => n.id ≠ c.id
  | .rollPending p c => p.id ≠ c.id
  | _ => true

/-! ## Finite abstraction -/

/-- A certified key as far as a sync round looks at it: open request, wants an update under the
current offer. -/
structure AKey where
  req : Bool
  want : Bool
deriving DecidableEq, Repr

inductive AState where
  | pending (req : Bool)
  | active (c : AKey)
  | rollPending (preq : Bool) (c : AKey)
  | rollNew (n c : AKey)
  | rollOld (c : AKey) (oreq owant : Bool)
deriving DecidableEq, Repr

/-- A key that just received the offered certificate. -/
def AKey.fresh : AKey := ⟨false, false⟩

def AState.syncStep : AState → AState
  | .pending req => if req then .active .fresh else .pending true
  | .active c => if c.req then .active .fresh else .active ⟨c.want, c.want⟩
  | .rollPending preq c =>
    if preq || c.req then
      match preq, c.req with
      | true, true => .rollNew .fresh .fresh
      | true, false => .rollNew .fresh c
      | false, _ => .rollPending false .fresh
    else .rollPending true ⟨c.want, c.want⟩
  | .rollNew n c =>
    if n.req || c.req then
      .rollNew (if n.req then .fresh else n) (if c.req then .fresh else c)
    else .rollNew ⟨n.want, n.want⟩ ⟨c.want, c.want⟩
  | .rollOld c _ _ => if c.req then .active .fresh else .active c

def AState.activateStep : AState → AState
  | .rollNew n c => if n.req || c.req then .rollNew n c else .rollOld n c.req c.want
  | a => a

def AState.round (a : AState) : AState := a.syncStep.activateStep.syncStep

def AState.isActive : AState → Bool
  | .active _ => true
  | _ => false

def AState.rolling : AState → Bool
  | .rollPending .. => true
  | .rollNew .. => true
  | .rollOld .. => true
  | _ => false

/-- `wf` of the abstraction: no request on the old key. -/
def AState.wf : AState → Bool
  | .rollOld _ oreq _ => !oreq
  | _ => true

def AState.quiet : AState → Bool
  | .active c => !c.req && !c.want
  | _ => false

/-- The abstraction of a key state under an offer at a time. -/
def CertKey.abs (k : CertKey) (o : Offer) (now : Int) : AKey := ⟨k.req, k.wantsUpdate o.res o.na now⟩

def KeyState.abs (ks : KeyState) (o : Offer) (now : Int) : AState :=
  match ks with
  | .pending p => .pending p.req
  | .active c => .active (c.abs o now)
  | .rollPending p c => .rollPending p.req (c.abs o now)
  | .rollNew n c => .rollNew (n.abs o now) (c.abs o now)
  | .rollOld c od => .rollOld (c.abs o now) od.req (od.wantsUpdate o.res o.na now)

end KM.CaK
