/-
One resource class with one key: the ROA objects the `ResourceClass` believes it issued
(`Roas`, rc.rs) together with the key object set the pre-save listener keeps for it
(`KeyObjectSet`, publishing.rs), driven by the same `RoaUpdates`.

`CertAuthEvent::RoasUpdated { updates }` is applied to the aggregate (`Roas::apply_updates`) and
handed to `CaObjects::update_roas`, which inserts `updates.added_roas()` and removes
`updates.removed_roas()` – object names are computed from the keys (`ObjectName::from(auth)`,
`RoaAggregateKey::object_name`) – and then re-issues manifest and CRL (`force_reissue`).

Import-free apart from the two models.
-/
import KrillModel.Ca.RoaObjects
import KrillModel.Ca.Objects
namespace KM.Ca.Pub

/-- Object names of simple and aggregated ROAs. -/
structure Naming where
  nameS : Payload → Nat
  nameA : AggKey → Nat

def pubOf (m : ObjMeta) : PubObj := ⟨m.serial, m.expires, m.hash⟩

/-- `RoaUpdates::added_roas` / `removed_roas`. -/
def roaObjUpdates (nm : Naming) (u : RoaUpdates) : ObjUpdates :=
  { added := (u.updated.map fun e => (nm.nameS e.1, pubOf e.2.obj)) ++
      (u.aggUpdated.map fun e => (nm.nameA e.1, pubOf e.2.obj))
    removed := u.removed.map nm.nameS ++ u.aggRemoved.map nm.nameA }

structure ClassState where
  roas : Roas
  set  : KeyObjectSet
deriving Inhabited

/-- A `RoasUpdated` event: aggregate and object store move together, then the forced re-issue. -/
def ClassState.applyRoaUpdates (nm : Naming) (t : Timing) (c : ClassState) (u : RoaUpdates) (i : IssueIn) :
    ClassState :=
  { roas := c.roas.apply u, set := (c.set.update (roaObjUpdates nm u)).reissue t i }

/-- What happens to a class (one key, no roll). -/
inductive ClassOp where
  /-- route delta or changed certificate: `create_updates` with the current routes and cover -/
  | derive (cov : Payload → Bool) (routes : List Payload) (deagg agg : Nat)
      (mintS : Payload → ObjMeta) (mintA : AggKey → ObjMeta) (i : IssueIn)
  /-- `create_renewal` -/
  | renew (force : Bool) (threshold : Nat) (mintS : Payload → ObjMeta) (mintA : AggKey → ObjMeta) (i : IssueIn)
  /-- `republish` re-issue -/
  | republish (i : IssueIn)

def ClassState.step (nm : Naming) (t : Timing) (c : ClassState) : ClassOp → ClassState
  | .derive cov routes deagg agg mintS mintA i =>
    c.applyRoaUpdates nm t (c.roas.createUpdates cov routes deagg agg mintS mintA) i
  | .renew force thr mintS mintA i => c.applyRoaUpdates nm t (c.roas.createRenewal force thr mintS mintA) i
  | .republish i => { c with set := c.set.reissue t i }

def ClassState.run (nm : Naming) (t : Timing) (c : ClassState) (ops : List ClassOp) : ClassState :=
  ops.foldl (ClassState.step nm t) c

/-- The objects the class believes it issued, as `(name, object)` – what the current key set
should publish. -/
def roaView (nm : Naming) (r : Roas) : List (Nat × PubObj) :=
  (r.simple.map fun e => (nm.nameS e.1, pubOf e.2.obj)) ++ (r.agg.map fun e => (nm.nameA e.1, pubOf e.2.obj))

end KM.Ca.Pub
