/-
Helper lemmas for C02: every class of every reachable state is `Tidy` (since fix bb96d233; on
the pinned tree only without an unsuspension of a suspended child).  No property statements.
-/
import KrillModel.Ca.LemmasTidy
import KrillModel.Ca.LemmasReach
namespace KM.CaK
open KM.Res KM.AMap

/-! ## Single events -/

theorem tidy_step {s s' : Ca} {e : Ev} (hnd : (keys s.classes).Nodup)
    (hP : AllCls Tidy s) (ha : s.apply e = some s') : AllCls Tidy s' := by
  have upd : ∀ (r : Rcn) (rc' : Rc), Tidy rc' → ∀ (ch : AMap Handle Child),
      AllCls Tidy { s with classes := set s.classes r rc', children := ch } := by
    intro r rc' hno ch r2 rc2 hg2
    simp only [get_set] at hg2
    by_cases h : r = r2
    · simp only [h, if_true, Option.some.injEq] at hg2; subst hg2; exact hno
    · simp only [h, if_false] at hg2; exact hP r2 rc2 hg2
  have childOnly : ∀ (ch0 : Handle) (f : Child → Child) (s1 : Ca), s.withChild ch0 f = some s1 → AllCls Tidy s1 := by
    intro ch0 f s1 h
    obtain ⟨c, _, rfl⟩ := Ca.withChild_some h
    exact hP
  cases e with
  | rcAdded r p pr k =>
    simp only [Ca.apply, Option.some.injEq] at ha; subst ha
    intro r2 rc2 hg2
    simp only [get_set] at hg2
    by_cases h : r = r2
    · simp only [h, if_true, Option.some.injEq] at hg2; subst hg2; exact tidyC_empty
    · simp only [h, if_false] at hg2; exact hP r2 rc2 hg2
  | rcRemoved r =>
    simp only [Ca.apply, Option.some.injEq] at ha; subst ha
    intro r2 rc2 hg2
    simp only [get_del] at hg2
    split at hg2
    · cases hg2
    · exact hP r2 rc2 hg2
  | key r ke =>
    by_cases hu : ∃ k, ke = .unexpected k
    · obtain ⟨k, rfl⟩ := hu
      simp only [Ca.apply, Option.some.injEq] at ha; subst ha; exact hP
    · have happ : s.apply (.key r ke) =
          s.withClass r fun rc => (rc.keys.apply ke).map fun ks => { rc with keys := ks } := by
        cases ke <;> first | rfl | exact absurd ⟨_, rfl⟩ hu
      rw [happ] at ha
      obtain ⟨rc, rc', hg, hf, rfl⟩ := Ca.withClass_some ha
      cases hk : rc.keys.apply ke with
      | none => simp [hk] at hf
      | some ks' =>
        simp only [hk, Option.map_some, Option.some.injEq] at hf; subst hf
        exact upd r { rc with keys := ks' } (hP r rc hg : TidyC rc.certs) s.children
  | products r u =>
    simp only [Ca.apply] at ha
    obtain ⟨rc, rc', hg, hf, rfl⟩ := Ca.withClass_some ha
    simp only [Option.some.injEq] at hf; subst hf
    exact upd r (rc.applyProducts u) (hP r rc hg : TidyC rc.certs) s.children
  | childCerts r u =>
    simp only [Ca.apply] at ha
    cases hw : s.withClass r (fun rc => some { rc with certs := rc.certs.applyUpd u }) with
    | none => simp [hw] at ha
    | some s1 =>
      simp only [hw, Option.some.injEq] at ha; subst ha
      obtain ⟨rc, rc', hg, hf, rfl⟩ := Ca.withClass_some hw
      simp only [Option.some.injEq] at hf; subst hf
      refine upd r { rc with certs := rc.certs.applyUpd u } ?_ _
      exact (tidyC_applyUpd (hP r rc hg) u : TidyC _)
  | childKeyRevoked ch r k =>
    simp only [Ca.apply] at ha
    cases hw : s.withClass r (fun rc => some { rc with certs := rc.certs.removeRevoked k }) with
    | none => simp [hw] at ha
    | some s1 =>
      simp only [hw] at ha
      obtain ⟨c, _, rfl⟩ := Ca.withChild_some ha
      obtain ⟨rc, rc', hg, hf, rfl⟩ := Ca.withClass_some hw
      simp only [Option.some.injEq] at hf; subst hf
      exact upd r { rc with certs := rc.certs.removeRevoked k } (tidyC_removeRevoked (hP r rc hg) k : TidyC _) _
  | childAdded ch res => simp only [Ca.apply, Option.some.injEq] at ha; subst ha; exact hP
  | childCertIssued ch r k => simp only [Ca.apply] at ha; exact childOnly _ _ _ ha
  | childUpdatedResources ch res => simp only [Ca.apply] at ha; exact childOnly _ _ _ ha
  | childUpdatedId ch => simp only [Ca.apply] at ha; exact childOnly _ _ _ ha
  | childMapping ch n m => simp only [Ca.apply] at ha; exact childOnly _ _ _ ha
  | childRemoved ch => simp only [Ca.apply, Option.some.injEq] at ha; subst ha; exact hP
  | childSuspended ch => simp only [Ca.apply] at ha; exact childOnly _ _ _ ha
  | childUnsuspended ch => simp only [Ca.apply] at ha; exact childOnly _ _ _ ha
  | parentAdded p => simp only [Ca.apply, Option.some.injEq] at ha; subst ha; exact hP
  | parentRemoved p =>
    simp only [Ca.apply, Option.some.injEq] at ha; subst ha
    intro r2 rc2 hg2
    have hm := (List.mem_filter.mp (mem_of_get hg2)).1
    exact hP r2 rc2 (get_of_mem_nodup hnd hm)
  | repoUpdated => simp only [Ca.apply, Option.some.injEq] at ha; subst ha; exact hP
  | other => simp only [Ca.apply, Option.some.injEq] at ha; subst ha; exact hP

theorem tidy_applyAll {s s' : Ca} {evs : List Ev} (hnd : (keys s.classes).Nodup) (hP : AllCls Tidy s)
    (hs : s.applyAll evs = some s') : AllCls Tidy s' := by
  induction evs generalizing s with
  | nil => simp only [Ca.applyAll, Option.some.injEq] at hs; subst hs; exact hP
  | cons e es ih =>
    simp only [Ca.applyAll] at hs
    cases ha : s.apply e with
    | none => simp [ha] at hs
    | some s1 =>
      simp only [ha, Option.bind_some] at hs
      exact ih (apply_nodup hnd ha) (tidy_step hnd hP ha) hs

/-! ## All commands -/

/-- A command keeps every class tidy. -/
theorem tidy_next {s : Sys} (hinv : Inv s) (hP : AllCls Tidy s.ca) (c : Cmd) : AllCls Tidy (s.next c).ca := by
  unfold Sys.next
  cases hex : s.exec c with
  | refused e => exact hP
  | panic => exact hP
  | listenerError e => exact hP
  | stored evs s' =>
    simp only
    obtain ⟨_, hr⟩ := exec_stored_iff.mp hex
    obtain ⟨ca', o'⟩ := s'
    obtain ⟨hs, _⟩ := runEvs_some_iff.mp hr
    exact tidy_applyAll hinv.core.nodup hP hs

theorem reachable_tidy {s : Sys} (h : Reachable s) : AllCls Tidy s.ca := by
  induction h with
  | init => intro r rc hg; simp at hg
  | step c hr ih => exact tidy_next (reachable_inv hr) ih c

end KM.CaK
