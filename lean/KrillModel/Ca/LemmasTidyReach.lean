/-
Helper lemmas for C02: every class of every state reachable without the F-C02-1 trigger is
`Tidy`.  No property statements.
-/
import KrillModel.Ca.LemmasTidy
namespace KM.CaK
open KM.Res KM.AMap

/-! ## Certificates of a class after a class-local chunk -/

def certsFold (cs : ChildCerts) : List Ev → ChildCerts
  | [] => cs
  | .childCerts _ u :: t => certsFold (cs.applyUpd u) t
  | _ :: t => certsFold cs t

theorem applyEvs_certs {rc rc' : Rc} {evs : List Ev} (h : rc.applyEvs evs = some rc') :
    rc'.certs = certsFold rc.certs evs := by
  induction evs generalizing rc with
  | nil => simp only [Rc.applyEvs, Option.some.injEq] at h; subst h; rfl
  | cons e es ih =>
    simp only [Rc.applyEvs] at h
    cases hae : rc.applyEv e with
    | none => simp [hae] at h
    | some rc1 =>
      simp only [hae, Option.bind_some] at h
      rw [ih h]
      cases e with
      | key r ke =>
        simp only [Rc.applyEv] at hae
        cases hk : rc.keys.apply ke with
        | none => simp [hk] at hae
        | some ks => simp only [hk, Option.map_some, Option.some.injEq] at hae; subst hae; rfl
      | products r u => simp only [Rc.applyEv, Option.some.injEq] at hae; subst hae; rfl
      | childCerts r u => simp only [Rc.applyEv, Option.some.injEq] at hae; subst hae; rfl
      | _ => simp [Rc.applyEv] at hae

def Ev.isCerts : Ev → Bool
  | .childCerts .. => true
  | _ => false

theorem certsFold_noCerts (cs : ChildCerts) (evs : List Ev) (h : ∀ e ∈ evs, e.isCerts = false) :
    certsFold cs evs = cs := by
  induction evs with
  | nil => rfl
  | cons e es ih =>
    have he := h e (List.mem_cons_self ..)
    cases e <;> simp [Ev.isCerts] at he <;> simp only [certsFold] <;>
      exact ih (fun e' he' => h e' (List.mem_cons_of_mem _ he'))

theorem certsFold_append (cs : ChildCerts) (a b : List Ev) :
    certsFold cs (a ++ b) = certsFold (certsFold cs a) b := by
  induction a generalizing cs with
  | nil => rfl
  | cons e es ih => cases e <;> simp only [List.cons_append, certsFold] <;> exact ih _

theorem renewal_noCerts (r : Rcn) (rc : Rc) (k : PKind) : ∀ e ∈ renewal r rc k, e.isCerts = false := by
  intro e he
  obtain ⟨u, rfl⟩ := renewal_products r rc k e he
  rfl

theorem certsFold_optional (cs : ChildCerts) (r : Rcn) (upd : CertUpd) :
    certsFold cs (if upd.isEmpty = true then [] else [Ev.childCerts r upd]) = cs.applyUpd upd := by
  by_cases h : upd.isEmpty = true
  · simp only [h, if_true, certsFold]; exact (isEmpty_applyUpd h cs).symm
  · simp only [h, Bool.false_eq_true, if_false, certsFold]

/-- Certificates after the activation chunk. -/
theorem activateClass_certs {na : Int} {r : Rcn} {rc rc' : Rc} {evs : List Ev}
    (h : activateClass r rc na = .ok evs) (happ : rc.applyEvs evs = some rc') :
    rc'.certs = rc.certs ∨
      ∃ n upd, rc.keys.newKey = some n ∧ rc.certs.activateKey n.cert na = .ok upd ∧
        rc'.certs = rc.certs.applyUpd upd := by
  rw [applyEvs_certs happ]
  unfold activateClass at h
  cases hn : rc.keys.newKey with
  | none => simp only [hn, Except.ok.injEq] at h; subst h; exact Or.inl rfl
  | some n =>
    simp only [hn] at h
    cases ha : rc.keys.keyrollActivate with
    | error e => simp [ha] at h
    | ok kevs =>
      simp only [ha] at h
      cases hac : rc.certs.activateKey n.cert na with
      | error e => simp [hac] at h
      | ok upd =>
        simp only [hac, Except.ok.injEq] at h; subst h
        refine Or.inr ⟨n, upd, rfl, hac, ?_⟩
        have hk : ∀ e ∈ kevs.map (Ev.key r), e.isCerts = false := by
          intro e he; obtain ⟨ke, _, rfl⟩ := List.mem_map.mp he; rfl
        simp only [certsFold_append, certsFold_noCerts _ _ hk, certsFold_noCerts _ _ (renewal_noCerts r rc _),
          certsFold_optional]

theorem initClass_certs {fresh : AMap Rcn KeyId} {r : Rcn} {rc rc' : Rc} {evs : List Ev}
    (h : initClass fresh r rc = .ok evs) (happ : rc.applyEvs evs = some rc') : rc'.certs = rc.certs := by
  rw [applyEvs_certs happ]
  apply certsFold_noCerts
  intro e he
  have hon := (initClass_ready fresh r rc evs h).1 e he
  unfold initClass at h
  cases hk : rc.keys with
  | active c =>
    simp only [hk] at h
    cases hf : get fresh r with
    | none => simp [hf] at h
    | some k =>
      simp only [hf] at h
      split at h
      · cases h
      · simp only [Except.ok.injEq] at h; subst h
        obtain ⟨ke, _, rfl⟩ := List.mem_map.mp he; rfl
  | pending _ => simp only [hk, Except.ok.injEq] at h; subst h; cases he
  | rollPending _ _ => simp only [hk, Except.ok.injEq] at h; subst h; cases he
  | rollNew _ _ => simp only [hk, Except.ok.injEq] at h; subst h; cases he
  | rollOld _ _ => simp only [hk, Except.ok.injEq] at h; subst h; cases he

/-- Certificates of the class after `UpdateRcvdCert`. -/
theorem rcvd_certs {s : Ca} {rcn : Rcn} {ki : KeyId} {cert : Cert} {na : Int} {prods : List ProdUpd}
    {evs : List Ev} {rc rc' : Rc} (hg : get s.classes rcn = some rc)
    (h : s.process (.updateRcvdCert rcn ki cert na prods) = .ok evs) (happ : rc.applyEvs evs = some rc') :
    rc'.certs = rc.certs ∨ ∃ upd, rc.certs.shrinkOverclaiming cert na = .ok upd ∧ rc'.certs = rc.certs.applyUpd upd := by
  rw [applyEvs_certs happ]
  simp only [Ca.process, hg] at h
  have hprods : ∀ e ∈ (prods.filter (!·.isEmpty)).map (Ev.products rcn), e.isCerts = false := by
    intro e he; obtain ⟨u, _, rfl⟩ := List.mem_map.mp he; rfl
  cases hr : rc.keys.route ki with
  | error e => simp [hr] at h
  | ok route =>
    simp only [hr] at h
    cases route with
    | toActive =>
      simp only [Except.ok.injEq] at h; subst h
      left
      apply certsFold_noCerts
      intro e he
      rcases List.mem_cons.mp he with rfl | he
      · rfl
      · exact hprods e he
    | toNew => simp only [Except.ok.injEq] at h; subst h; left; rfl
    | newCert => simp only [Except.ok.injEq] at h; subst h; left; rfl
    | current c =>
      simp only [Rc.rcvdCertCurrent] at h
      split at h
      · simp only [Except.ok.injEq] at h; subst h; left; rfl
      · cases hsh : rc.certs.shrinkOverclaiming cert na with
        | error e => simp [hsh] at h
        | ok upd =>
          simp only [hsh, Except.ok.injEq] at h; subst h
          right
          refine ⟨upd, rfl, ?_⟩
          simp only [List.cons_append, certsFold, certsFold_append, certsFold_optional,
            certsFold_noCerts _ _ hprods]

/-! ## Single events -/

theorem tidy_step {s s' : Ca} {e : Ev} (hnd : (keys s.classes).Nodup) (hadd : e.addsNothing = true)
    (hP : AllCls Tidy s) (ha : s.apply e = some s') : AllCls Tidy s' := by
  have upd : ∀ (r : Rcn) (rc' : Rc), Tidy rc' → ∀ (ch : AMap Handle Child),
      AllCls Tidy { s with classes := set s.classes r rc', children := ch } := by
    intro r rc' hno ch r2 rc2 hg2
    simp only [get_set] at hg2
    by_cases h : r = r2
    · simp only [h, if_true, Option.some.injEq] at hg2; subst hg2; exact hno
    · simp only [h, if_false] at hg2; exact hP r2 rc2 hg2
  have childOnly : ∀ (ch0 : Handle) (f : Child → Child) (s1 : Ca), s.withChild ch0 f = some s1 → AllCls Tidy s1 := by
    intro ch0 f s1 h
    obtain ⟨c, _, rfl⟩ := Ca.withChild_some h
    exact hP
  cases e with
  | rcAdded r p pr k =>
    simp only [Ca.apply, Option.some.injEq] at ha; subst ha
    intro r2 rc2 hg2
    simp only [get_set] at hg2
    by_cases h : r = r2
    · simp only [h, if_true, Option.some.injEq] at hg2; subst hg2; exact tidyC_empty
    · simp only [h, if_false] at hg2; exact hP r2 rc2 hg2
  | rcRemoved r =>
    simp only [Ca.apply, Option.some.injEq] at ha; subst ha
    intro r2 rc2 hg2
    simp only [get_del] at hg2
    split at hg2
    · cases hg2
    · exact hP r2 rc2 hg2
  | key r ke =>
    by_cases hu : ∃ k, ke = .unexpected k
    · obtain ⟨k, rfl⟩ := hu
      simp only [Ca.apply, Option.some.injEq] at ha; subst ha; exact hP
    · have happ : s.apply (.key r ke) =
          s.withClass r fun rc => (rc.keys.apply ke).map fun ks => { rc with keys := ks } := by
        cases ke <;> first | rfl | exact absurd ⟨_, rfl⟩ hu
      rw [happ] at ha
      obtain ⟨rc, rc', hg, hf, rfl⟩ := Ca.withClass_some ha
      cases hk : rc.keys.apply ke with
      | none => simp [hk] at hf
      | some ks' =>
        simp only [hk, Option.map_some, Option.some.injEq] at hf; subst hf
        exact upd r { rc with keys := ks' } (hP r rc hg : TidyC rc.certs) s.children
  | products r u =>
    simp only [Ca.apply] at ha
    obtain ⟨rc, rc', hg, hf, rfl⟩ := Ca.withClass_some ha
    simp only [Option.some.injEq] at hf; subst hf
    exact upd r (rc.applyProducts u) (hP r rc hg : TidyC rc.certs) s.children
  | childCerts r u =>
    simp only [Ca.apply] at ha
    cases hw : s.withClass r (fun rc => some { rc with certs := rc.certs.applyUpd u }) with
    | none => simp [hw] at ha
    | some s1 =>
      simp only [hw, Option.some.injEq] at ha; subst ha
      obtain ⟨rc, rc', hg, hf, rfl⟩ := Ca.withClass_some hw
      simp only [Option.some.injEq] at hf; subst hf
      simp only [Ev.addsNothing, Bool.and_eq_true, List.isEmpty_iff] at hadd
      refine upd r { rc with certs := rc.certs.applyUpd u } ?_ _
      exact (tidyC_applyUpd (hP r rc hg) u hadd.2 (by intro p hp; rw [hadd.1] at hp; cases hp) : TidyC _)
  | childKeyRevoked ch r k =>
    simp only [Ca.apply] at ha
    cases hw : s.withClass r (fun rc => some { rc with certs := rc.certs.removeRevoked k }) with
    | none => simp [hw] at ha
    | some s1 =>
      simp only [hw] at ha
      obtain ⟨c, _, rfl⟩ := Ca.withChild_some ha
      obtain ⟨rc, rc', hg, hf, rfl⟩ := Ca.withClass_some hw
      simp only [Option.some.injEq] at hf; subst hf
      exact upd r { rc with certs := rc.certs.removeRevoked k } (tidyC_removeRevoked (hP r rc hg) k : TidyC _) _
  | childAdded ch res => simp only [Ca.apply, Option.some.injEq] at ha; subst ha; exact hP
  | childCertIssued ch r k => simp only [Ca.apply] at ha; exact childOnly _ _ _ ha
  | childUpdatedResources ch res => simp only [Ca.apply] at ha; exact childOnly _ _ _ ha
  | childUpdatedId ch => simp only [Ca.apply] at ha; exact childOnly _ _ _ ha
  | childMapping ch n m => simp only [Ca.apply] at ha; exact childOnly _ _ _ ha
  | childRemoved ch => simp only [Ca.apply, Option.some.injEq] at ha; subst ha; exact hP
  | childSuspended ch => simp only [Ca.apply] at ha; exact childOnly _ _ _ ha
  | childUnsuspended ch => simp only [Ca.apply] at ha; exact childOnly _ _ _ ha
  | parentAdded p => simp only [Ca.apply, Option.some.injEq] at ha; subst ha; exact hP
  | parentRemoved p =>
    simp only [Ca.apply, Option.some.injEq] at ha; subst ha
    intro r2 rc2 hg2
    have hm := (List.mem_filter.mp (mem_of_get hg2)).1
    exact hP r2 rc2 (get_of_mem_nodup hnd hm)
  | repoUpdated => simp only [Ca.apply, Option.some.injEq] at ha; subst ha; exact hP
  | other => simp only [Ca.apply, Option.some.injEq] at ha; subst ha; exact hP

theorem tidy_applyAll_plain {s s' : Ca} {evs : List Ev} (hnd : (keys s.classes).Nodup)
    (h : ∀ e ∈ evs, e.addsNothing = true) (hP : AllCls Tidy s)
    (hs : s.applyAll evs = some s') : AllCls Tidy s' := by
  induction evs generalizing s with
  | nil => simp only [Ca.applyAll, Option.some.injEq] at hs; subst hs; exact hP
  | cons e es ih =>
    simp only [Ca.applyAll] at hs
    cases ha : s.apply e with
    | none => simp [ha] at hs
    | some s1 =>
      simp only [ha, Option.bind_some] at hs
      exact ih (apply_nodup hnd ha) (fun e' he' => h e' (List.mem_cons_of_mem _ he'))
        (tidy_step hnd (h e (List.mem_cons_self ..)) hP ha) hs

/-! ## All quiet commands -/

theorem keyEv_addsNothing (r : Rcn) (ke : KeyEv) : (Ev.key r ke).addsNothing = true := rfl

theorem forClasses_keyOnly {f : Rcn → Rc → Except Err (List Ev)}
    (hf : ∀ r rc evs, f r rc = .ok evs → ∀ e ∈ evs, e.addsNothing = true)
    {l : List (Rcn × Rc)} {evs : List Ev} (h : forClasses f l = .ok evs) : ∀ e ∈ evs, e.addsNothing = true := by
  intro e he
  obtain ⟨p, _, a, ha, hea⟩ := mem_forClasses h he
  exact hf p.1 p.2 a ha e hea

theorem initClass_addsNothing (fresh : AMap Rcn KeyId) (r : Rcn) (rc : Rc) (evs : List Ev)
    (h : initClass fresh r rc = .ok evs) : ∀ e ∈ evs, e.addsNothing = true := by
  intro e he
  unfold initClass at h
  cases hk : rc.keys with
  | active c =>
    simp only [hk] at h
    cases hf : get fresh r with
    | none => simp [hf] at h
    | some k =>
      simp only [hf] at h
      split at h
      · cases h
      · simp only [Except.ok.injEq] at h; subst h
        obtain ⟨ke, _, rfl⟩ := List.mem_map.mp he; rfl
  | pending _ => simp only [hk, Except.ok.injEq] at h; subst h; cases he
  | rollPending _ _ => simp only [hk, Except.ok.injEq] at h; subst h; cases he
  | rollNew _ _ => simp only [hk, Except.ok.injEq] at h; subst h; cases he
  | rollOld _ _ => simp only [hk, Except.ok.injEq] at h; subst h; cases he

/-- A stored quiet command keeps every class tidy. -/
theorem tidy_next {s : Sys} (hinv : Inv s) (hP : AllCls Tidy s.ca) (c : Cmd) (hq : c.quiet s.ca = true) :
    AllCls Tidy (s.next c).ca := by
  unfold Sys.next
  cases hex : s.exec c with
  | refused e => exact hP
  | panic => exact hP
  | listenerError e => exact hP
  | stored evs s' =>
    simp only
    obtain ⟨hp, hr⟩ := exec_stored_iff.mp hex
    obtain ⟨ca', o'⟩ := s'
    obtain ⟨hs, _⟩ := runEvs_some_iff.mp hr
    simp only
    have hnd := hinv.core.nodup
    have plain : (∀ e ∈ evs, e.addsNothing = true) → AllCls Tidy ca' :=
      fun h => tidy_applyAll_plain hnd h hP hs
    cases c with
    | childAdd ch res =>
      simp only [Ca.process] at hp
      split at hp
      · cases hp
      · split at hp
        · cases hp
        · split at hp
          · cases hp
          · simp only [Except.ok.injEq] at hp; subst hp
            exact plain (by intro e he; simp at he; subst he; rfl)
    | childUpdateResources ch res =>
      simp only [Ca.process] at hp
      split at hp
      · cases hp
      · cases hg : get s.ca.children ch with
        | none => simp [hg] at hp
        | some cd =>
          simp only [hg] at hp
          split at hp
          · simp only [Except.ok.injEq] at hp; subst hp; exact plain (by intro e he; cases he)
          · simp only [Except.ok.injEq] at hp; subst hp
            exact plain (by intro e he; simp at he; subst he; rfl)
    | childMapping ch n m =>
      simp only [Ca.process] at hp
      cases hg : get s.ca.children ch with
      | none => simp [hg] at hp
      | some cd =>
        simp only [hg] at hp
        split at hp
        · cases hp
        · simp only [Except.ok.injEq] at hp; subst hp
          exact plain (by intro e he; simp at he; subst he; rfl)
    | childCertify ch childRcn ki limit na =>
      simp only [Ca.process] at hp
      cases hg : get s.ca.children ch with
      | none => simp [hg] at hp
      | some cd =>
        simp only [hg] at hp
        simp only [Cmd.quiet, hg] at hq
        unfold Ca.childCertifyEvents at hp
        cases hgc : get s.ca.classes (cd.nameInParent childRcn) with
        | none => simp [hgc] at hp
        | some rc =>
          simp only [hgc] at hp hq
          cases hi : issueCert rc.keys cd.res limit na with
          | error e => simp [hi] at hp
          | ok cc =>
            simp only [hi, Except.ok.injEq] at hp; subst hp
            -- run the two events
            simp only [Ca.applyAll, Ca.apply, Ca.withChild, hg, Option.bind_some, Ca.withClass, hgc,
              List.foldl_nil, Option.some.injEq] at hs
            subst hs
            intro r2 rc2 hg2
            simp only [get_set] at hg2
            by_cases h : cd.nameInParent childRcn = r2
            · simp only [h, if_true, Option.some.injEq] at hg2; subst hg2
              show TidyC _
              apply tidyC_applyUpd (hP _ rc hgc)
              · rfl
              · intro p hp'
                simp only [List.mem_singleton] at hp'; subst hp'
                simpa using hq
            · simp only [h, if_false] at hg2; exact hP r2 rc2 hg2
    | childRevokeKey ch childRcn ki =>
      simp only [Ca.process] at hp
      split at hp
      · simp only [Except.ok.injEq] at hp; subst hp; exact plain (by intro e he; cases he)
      · cases hg : get s.ca.children ch with
        | none => simp [hg] at hp
        | some cd =>
          simp only [hg] at hp
          split at hp
          · cases hp
          · simp only [Except.ok.injEq] at hp; subst hp
            exact plain (by
              intro e he
              simp only [List.mem_cons, List.not_mem_nil, or_false] at he
              rcases he with rfl | rfl <;> rfl)
    | childRemove ch =>
      simp only [Ca.process] at hp
      cases hg : get s.ca.children ch with
      | none => simp [hg] at hp
      | some cd =>
        simp only [hg, Except.ok.injEq] at hp; subst hp
        refine plain ?_
        intro e he
        rcases List.mem_append.mp he with he | he
        · simp only [removeEventsFor, List.mem_filterMap] at he
          obtain ⟨p, _, hsome⟩ := he
          split at hsome
          · cases hsome
          · simp only [Option.some.injEq] at hsome; subst hsome; rfl
        · simp at he; subst he; rfl
    | childSuspend ch =>
      simp only [Ca.process] at hp
      cases hg : get s.ca.children ch with
      | none => simp [hg] at hp
      | some cd =>
        simp only [hg] at hp
        split at hp
        · simp only [Except.ok.injEq] at hp; subst hp; exact plain (by intro e he; cases he)
        · split at hp
          · simp only [Except.ok.injEq] at hp; subst hp; exact plain (by intro e he; cases he)
          · simp only [Except.ok.injEq] at hp; subst hp
            refine plain ?_
            intro e he
            rcases List.mem_append.mp he with he | he
            · simp only [suspendEventsFor, List.mem_filterMap] at he
              obtain ⟨p, _, hsome⟩ := he
              split at hsome
              · cases hsome
              · simp only [Option.some.injEq] at hsome; subst hsome; rfl
            · simp at he; subst he; rfl
    | childUnsuspend ch now1d na =>
      simp only [Ca.process] at hp
      cases hg : get s.ca.children ch with
      | none => simp [hg] at hp
      | some cd =>
        simp only [hg] at hp
        simp only [Cmd.quiet, hg] at hq
        simp only [hq, if_true, Except.ok.injEq] at hp; subst hp
        exact plain (by intro e he; cases he)
    | addParent p =>
      simp only [Ca.process] at hp
      split at hp
      · cases hp
      · simp only [Except.ok.injEq] at hp; subst hp
        exact plain (by intro e he; simp at he; subst he; rfl)
    | removeParent p =>
      simp only [Ca.process] at hp
      split at hp
      · cases hp
      · simp only [Except.ok.injEq] at hp; subst hp
        refine plain ?_
        intro e he
        rcases List.mem_append.mp he with he | he
        · obtain ⟨q, _, rfl⟩ := List.mem_map.mp he; rfl
        · simp at he; subst he; rfl
    | updateEntitlements p ents now fresh =>
      simp only [Ca.process] at hp
      cases hl : entitlementLoop s.ca p now ents s.ca.nextClass fresh with
      | error e => simp [hl] at hp
      | ok evs1 =>
        simp only [hl, Except.ok.injEq] at hp; subst hp
        refine plain ?_
        intro e he
        rcases List.mem_append.mp he with he | he
        · obtain ⟨q, _, rfl⟩ := List.mem_map.mp he; rfl
        · exact (entitlementLoop_plain hl e he).2
    | updateRcvdCert rcn ki cert na prods =>
      have hp0 := hp
      simp only [Ca.process] at hp
      cases hg : get s.ca.classes rcn with
      | none => simp [hg] at hp
      | some rc =>
        have hon : ∀ e ∈ evs, e.onClass rcn = true := by
          have hrs := readySeq_updateRcvdCert hp0
          -- every event of the command is class-local (read off the process definition)
          simp only [hg] at hp
          cases hr : rc.keys.route ki with
          | error e => simp [hr] at hp
          | ok route =>
            simp only [hr] at hp
            have hprods : ∀ e ∈ (prods.filter (!·.isEmpty)).map (Ev.products rcn), e.onClass rcn = true := by
              intro e he; obtain ⟨u, _, rfl⟩ := List.mem_map.mp he; simp [Ev.onClass]
            cases route with
            | toActive =>
              simp only [Except.ok.injEq] at hp; subst hp
              intro e he
              rcases List.mem_cons.mp he with rfl | he
              · simp [Ev.onClass]
              · exact hprods e he
            | toNew => simp only [Except.ok.injEq] at hp; subst hp; intro e he; simp at he; subst he; simp [Ev.onClass]
            | newCert => simp only [Except.ok.injEq] at hp; subst hp; intro e he; simp at he; subst he; simp [Ev.onClass]
            | current c =>
              simp only [Rc.rcvdCertCurrent] at hp
              split at hp
              · simp only [Except.ok.injEq] at hp; subst hp; intro e he; simp at he; subst he; simp [Ev.onClass]
              · cases hsh : rc.certs.shrinkOverclaiming cert na with
                | error e => simp [hsh] at hp
                | ok upd =>
                  simp only [hsh, Except.ok.injEq] at hp; subst hp
                  intro e he
                  rcases List.mem_cons.mp he with rfl | he
                  · simp [Ev.onClass]
                  · rcases List.mem_append.mp he with he | he
                    · split at he
                      · cases he
                      · simp only [List.mem_singleton] at he; subst he; simp [Ev.onClass]
                    · exact hprods e he
        refine allCls_chunk Tidy hon hg hP ?_ hs
        intro rc' happ
        rcases rcvd_certs hg hp0 happ with h | ⟨upd, hsh, h⟩
        · show TidyC rc'.certs; rw [h]; exact hP rcn rc hg
        · show TidyC rc'.certs; rw [h]; exact tidyC_shrink (hP rcn rc hg) hsh
    | dropClass rcn =>
      simp only [Ca.process] at hp
      cases hg : get s.ca.classes rcn with
      | none => simp [hg] at hp
      | some rc =>
        simp only [hg, Except.ok.injEq] at hp; subst hp
        exact plain (by intro e he; simp at he; subst he; rfl)
    | keyrollInit fresh =>
      simp only [Ca.process] at hp
      split at hp
      · simp only [Except.ok.injEq] at hp; subst hp; exact plain (by intro e he; cases he)
      · split at hp
        · cases hp
        · rw [keyrollInitLoop_eq] at hp
          exact plain (forClasses_keyOnly (initClass_addsNothing fresh) hp)
    | keyrollActivate na =>
      simp only [Ca.process] at hp
      rw [activateLoop_eq] at hp
      refine forClasses_pres Tidy ?_ hnd (classes_get_of_mem hnd) hP hp hs
      intro r rc evs h
      refine ⟨(activateClass_ready na r rc evs h).1, ?_⟩
      intro hT rc' happ
      rcases activateClass_certs h happ with h1 | ⟨n, upd, _, hac, h1⟩
      · show TidyC rc'.certs; rw [h1]; exact hT
      · show TidyC rc'.certs; rw [h1]; exact tidyC_activate hT hac
    | keyrollFinish rcn =>
      simp only [Ca.process] at hp
      cases hg : get s.ca.classes rcn with
      | none => simp [hg] at hp
      | some rc =>
        simp only [hg] at hp
        cases hf : rc.keys.keyrollFinish with
        | error e => simp [hf] at hp
        | ok e =>
          simp only [hf, Except.ok.injEq] at hp; subst hp
          exact plain (by intro e' he; simp at he; subst he; rfl)
    | repoUpdate fresh =>
      simp only [Ca.process] at hp
      split at hp
      · simp only [Except.ok.injEq] at hp; subst hp
        exact plain (by intro e he; simp at he; subst he; rfl)
      · split at hp
        · cases hp
        · cases hl : keyrollInitLoop fresh s.ca.classes with
          | error e => simp [hl] at hp
          | ok evs1 =>
            simp only [hl, Except.ok.injEq] at hp; subst hp
            rw [keyrollInitLoop_eq] at hl
            refine plain ?_
            intro e he
            rcases List.mem_append.mp he with he | he
            · exact forClasses_keyOnly (initClass_addsNothing fresh) hl e he
            · simp at he; subst he; rfl
    | config upds =>
      simp only [Ca.process, Except.ok.injEq] at hp; subst hp
      refine plain ?_
      intro e he
      obtain ⟨u, _, rfl⟩ := List.mem_map.mp he
      rfl

theorem reachableQ_tidy {s : Sys} (h : ReachableQ s) : AllCls Tidy s.ca := by
  induction h with
  | init => intro r rc hg; simp at hg
  | step c hr hq ih => exact tidy_next (reachable_inv hr.reachable) ih c hq

end KM.CaK
