/-
Helper lemmas for C02 (`exchange_converges` with a key roll of the child in progress): the
entitlement branch of `Pair.sync` for classes in any key state, as `KeyState.syncStep`; the
activation of the new keys (`KeyRollActivate`) as `KeyState.activateStep`.  No property statements.
-/
import KrillModel.Ca.ExchangeRollSync
set_option linter.unusedSimpArgs false
namespace KM.CaK
open KM.Res KM.AMap

/-! ## The entitlement branch on one key state -/

theorem requestedFor_eq_syncStep {ks : KeyState} (hnp : ks.hasPending = false) (ent : Entitlement) (now : Int) :
    ks.requestedFor ent now = ks.syncStep ⟨ent.res, ent.na⟩ now := by
  unfold KeyState.requestedFor KeyState.syncStep
  simp only [hnp, Bool.false_eq_true, if_false]
  have : ks.requestKeys ent now = ks.requestKeys (Offer.ent ⟨ent.res, ent.na⟩) now := by
    cases ks <;> rfl
  rw [this]

theorem staying_applyRequested (ks : KeyState) (ki : KeyId) :
    ∀ k' ∈ (ks.applyRequested ki).staying, ∃ k ∈ ks.staying, k.id = k'.id ∧ k.cert = k'.cert := by
  intro k' hk'
  cases ks with
  | pending p => simp [KeyState.applyRequested, KeyState.staying] at hk'
  | active c =>
    simp only [KeyState.applyRequested, KeyState.staying, List.mem_singleton] at hk'
    exact ⟨c, by simp [KeyState.staying], by rw [hk'], by rw [hk']⟩
  | rollPending p c =>
    simp only [KeyState.applyRequested] at hk'
    split at hk' <;> simp [KeyState.staying] at hk'
  | rollNew n c =>
    simp only [KeyState.applyRequested] at hk'
    split at hk'
    · simp only [KeyState.staying, List.mem_singleton] at hk'
      exact ⟨n, by simp [KeyState.staying], by rw [hk'], by rw [hk']⟩
    · simp only [KeyState.staying, List.mem_singleton] at hk'
      exact ⟨n, by simp [KeyState.staying], by rw [hk'], by rw [hk']⟩
  | rollOld c o =>
    simp only [KeyState.applyRequested] at hk'
    split at hk'
    · simp only [KeyState.staying, List.mem_singleton] at hk'
      exact ⟨c, by simp [KeyState.staying], by rw [hk'], by rw [hk']⟩
    · simp only [KeyState.staying, List.mem_singleton] at hk'
      exact ⟨c, by simp [KeyState.staying], by rw [hk'], by rw [hk']⟩

theorem staying_requestedFor (ks : KeyState) (ent : Entitlement) (now : Int) :
    ∀ k' ∈ (ks.requestedFor ent now).staying, ∃ k ∈ ks.staying, k.id = k'.id ∧ k.cert = k'.cert := by
  unfold KeyState.requestedFor
  generalize ks.requestKeys ent now = L
  induction L generalizing ks with
  | nil => intro k' hk'; exact ⟨k', hk', rfl, rfl⟩
  | cons a t ih =>
    intro k' hk'
    simp only [List.foldl_cons] at hk'
    obtain ⟨k1, hk1, e1, e2⟩ := ih (ks.applyRequested a) k' hk'
    obtain ⟨k, hk, e3, e4⟩ := staying_applyRequested ks a k1 hk1
    exact ⟨k, hk, e3.trans e1, e4.trans e2⟩

theorem keyIds_requestedFor (ks : KeyState) (ent : Entitlement) (now : Int) :
    (ks.requestedFor ent now).keyIds = ks.keyIds := by
  unfold KeyState.requestedFor
  generalize ks.requestKeys ent now = L
  induction L generalizing ks with
  | nil => rfl
  | cons a t ih => simp only [List.foldl_cons, ih, keyIds_applyRequested]

/-! ## The entitlement branch of a sync, any key states -/

/-- The pair after the entitlement branch: every class under the parent is listed and made the
entitlement step of the key-state machine from a state with nothing to send; every listed class
exists. -/
structure PostE2 (x : Pair) (now na : Int) : Prop where
  coupled : Coupled2 x
  cls : ∀ r rc, get x.child.ca.classes r = some rc → rc.parent = x.ph →
    ∃ (R : ResSet) (ks0 : KeyState), x.parent.ca.offers x.ch rc.parentRcn R ∧ ks0.wf = true ∧ ks0.hasPending = false ∧
      rc.keys = ks0.syncStep ⟨R, na⟩ now
  all : ∀ n R, x.parent.ca.offers x.ch n R →
    ∃ r rc, get x.child.ca.classes r = some rc ∧ rc.parent = x.ph ∧ rc.parentRcn = n

/-- The new keys are new: pairwise different and not a key of a class under the parent. -/
def FreshOk (x : Pair) (fresh : List KeyId) : Prop :=
  fresh.Nodup ∧ ∀ k ∈ fresh, ∀ r rc, get x.child.ca.classes r = some rc → rc.parent = x.ph → k ∉ rc.keys.keyIds

/-- The entitlement branch of `Pair.sync` on a coupled pair with nothing to send, any key states. -/
theorem syncE2_spec {x : Pair} (hc : Coupled2 x) (now na : Int) (fresh : List KeyId)
    (hpend : x.child.ca.hasPendingRequests x.ph = false)
    (hlen : x.newClasses na ≤ fresh.length) (hfresh : FreshOk x fresh) :
    PostE2 (x.sync now na fresh) now na ∧ (x.sync now na fresh).parent = x.parent ∧
    (x.sync now na fresh).ch = x.ch ∧ (x.sync now na fresh).ph = x.ph ∧
    (∀ r rc', get (x.sync now na fresh).child.ca.classes r = some rc' → rc'.parent ≠ x.ph →
      get x.child.ca.classes r = some rc') := by
  have hndP := (reachable_inv hc.inv.base.rp).core.nodup
  have hndC := (reachable_inv hc.inv.base.rc).core.nodup
  have hfr := (reachable_inv hc.inv.base.rc).core.fresh
  obtain ⟨s', hn, h1, h2, h3, h4, h5, h6, h7⟩ := updEnt_spec hc.inv.base.rc hc.inv.base.repo hc.inv.base.nolim x.ph
    hc.uniq (x.parent.ca.entitlementsFor x.ch na) (entitlementsFor_nodup na hndP hc.names) now fresh hlen
  have hy : x.sync now na fresh = { x with child := s' } := by
    unfold Pair.sync
    simp only [hpend, Bool.false_eq_true, if_false, hn]
  rw [hy]
  refine ⟨?_, rfl, rfl, rfl, ?_⟩
  rotate_left
  · intro r rc' hg hp
    rcases h5 r rc' hg with ⟨rc, hgx, _, heq⟩ | ⟨rc, ent, _, hpp, _, _, heq⟩ | ⟨ent, k, _, _, _, _, heq⟩
    · rw [heq]; exact hgx
    · rw [heq] at hp; exact absurd hpp hp
    · rw [heq] at hp; exact absurd rfl hp
  have hquiet := (hasPendingRequests_false_iff hndC x.ph).mp hpend
  -- the classes under the parent after the command
  have hcls : ∀ r rc', get s'.ca.classes r = some rc' → rc'.parent = x.ph →
      (∃ rc ent, get x.child.ca.classes r = some rc ∧ rc.parent = x.ph ∧
        ent ∈ x.parent.ca.entitlementsFor x.ch na ∧ rc.parentRcn = ent.rcn ∧
        rc' = { rc with keys := rc.keys.requestedFor ent now }) ∨
      (∃ ent k, ent ∈ x.parent.ca.entitlementsFor x.ch na ∧ x.child.ca.nextClass ≤ r ∧ k ∈ fresh ∧
        rc' = Rc.requested x.ph ent.rcn k) := by
    intro r rc' hg hp
    rcases h5 r rc' hg with ⟨rc, hgx, hpp, heq⟩ | ⟨rc, ent, hgx, hpp, hent, hname, heq⟩ | ⟨ent, k, hent, _, hr, hk, heq⟩
    · rw [heq] at hp; exact absurd hp hpp
    · exact Or.inl ⟨rc, ent, hgx, hpp, hent, hname, heq⟩
    · exact Or.inr ⟨ent, k, hent, hr, hk, heq⟩
  refine ⟨⟨⟨⟨hc.inv.base.rp, h1, h2, h3⟩, ?_⟩, hc.names, h4, ⟨?_, ?_, ?_⟩, ?_⟩, ?_, ?_⟩
  · -- no suspended certificates
    intro r rc' hg
    rcases h5 r rc' hg with ⟨rc, hgx, _, heq⟩ | ⟨rc, ent, hgx, _, _, _, heq⟩ | ⟨ent, k, _, _, _, _, heq⟩
    · rw [heq]; exact hc.inv.nosusp r rc hgx
    · rw [heq]; exact hc.inv.nosusp r rc hgx
    · rw [heq]; rfl
  · -- well-formed key states
    intro r rc' hg hp
    rcases hcls r rc' hg hp with ⟨rc, ent, hgx, hpp, _, _, heq⟩ | ⟨ent, k, _, _, _, heq⟩
    · rw [heq]
      simp only
      rw [requestedFor_eq_syncStep (hquiet r rc hgx hpp)]
      exact wf_syncStep (hc.ok.wf r rc hgx hpp) _ _
    · rw [heq]; rfl
  · -- keys of different classes are different
    intro r1 r2 rc1 rc2 k hg1 hg2 hp1 hp2 hk1 hk2
    rcases hcls r1 rc1 hg1 hp1 with ⟨rc, ent, hgx, hpp, _, _, heq⟩ | ⟨ent, k1, _, hr1, hkf1, heq⟩
    · rw [heq] at hk1
      simp only [keyIds_requestedFor] at hk1
      rcases hcls r2 rc2 hg2 hp2 with ⟨rc0, ent0, hgx0, hpp0, _, _, heq0⟩ | ⟨ent0, k2, _, hr2, hkf2, heq0⟩
      · rw [heq0] at hk2
        simp only [keyIds_requestedFor] at hk2
        exact hc.ok.distinct r1 r2 rc rc0 k hgx hgx0 hpp hpp0 hk1 hk2
      · rw [heq0] at hk2
        simp only [Rc.requested, KeyState.keyIds, List.mem_singleton] at hk2
        subst hk2
        exact absurd hk1 (hfresh.2 k hkf2 r1 rc hgx hpp)
    · rw [heq] at hk1
      simp only [Rc.requested, KeyState.keyIds, List.mem_singleton] at hk1
      subst hk1
      rcases hcls r2 rc2 hg2 hp2 with ⟨rc0, ent0, hgx0, hpp0, _, _, heq0⟩ | ⟨ent0, k2, _, hr2, hkf2, heq0⟩
      · rw [heq0] at hk2
        simp only [keyIds_requestedFor] at hk2
        exact absurd hk2 (hfresh.2 k hkf1 r2 rc0 hgx0 hpp0)
      · rw [heq0] at hk2
        simp only [Rc.requested, KeyState.keyIds, List.mem_singleton] at hk2
        subst hk2
        exact h7 hfresh.1 r1 r2 rc1 rc2 hr1 hr2 hg1 hg2 (by rw [heq, heq0]; rfl)
  · -- the keys about to be revoked are in use
    intro r rc' hg hp k hk
    rcases hcls r rc' hg hp with ⟨rc, ent, hgx, hpp, _, _, heq⟩ | ⟨ent, k1, _, _, _, heq⟩
    · rw [heq] at hk ⊢
      simp only at hk ⊢
      rw [requestedFor_eq_syncStep (hquiet r rc hgx hpp)] at hk
      exact hc.ok.leaving r rc hgx hpp k (leaving_syncStep (hc.ok.wf r rc hgx hpp) _ _ k hk).1
    · rw [heq] at hk; simp [Rc.requested, KeyState.leaving] at hk
  · -- certificates on file
    intro r rc' k R hg hp hk ha hse
    rcases hcls r rc' hg hp with ⟨rc, ent, hgx, hpp, _, _, heq⟩ | ⟨ent, k1, _, _, _, heq⟩
    · rw [heq] at hk ha ⊢
      simp only at hk ha ⊢
      obtain ⟨k0, hk0, e1, e2⟩ := staying_requestedFor rc.keys ent now k hk
      have := hc.booked r rc k0 R hgx hpp hk0 ha (by rw [e2]; exact hse)
      rw [e1] at this
      exact this
    · rw [heq] at hk; simp [Rc.requested, KeyState.staying] at hk
  · -- every class is listed and made the entitlement step
    intro r rc' hg hp
    rcases hcls r rc' hg hp with ⟨rc, ent, hgx, hpp, hent, hname, heq⟩ | ⟨ent, k1, hent, _, _, heq⟩
    · obtain ⟨hoff, hna⟩ := mem_entitlementsFor hndP hent
      refine ⟨ent.res, rc.keys, ?_, hc.ok.wf r rc hgx hpp, hquiet r rc hgx hpp, ?_⟩
      · rw [heq]; simp only; rw [hname]; exact hoff
      · rw [heq]; simp only
        rw [requestedFor_eq_syncStep (hquiet r rc hgx hpp), hna]
    · obtain ⟨hoff, hna⟩ := mem_entitlementsFor hndP hent
      refine ⟨ent.res, .pending ⟨k1, false⟩, ?_, rfl, ?_, ?_⟩
      · rw [heq]; exact hoff
      · simp [KeyState.hasPending, KeyState.certRequests, KeyState.revokeRequest]
      · rw [heq]
        simp [Rc.requested, KeyState.syncStep, KeyState.hasPending, KeyState.certRequests, KeyState.revokeRequest,
          KeyState.requestKeys, KeyState.applyRequested]
  · intro n R ho
    obtain ⟨ent, hent, hn1, _, _⟩ := entitlementsFor_of_offers na ho
    obtain ⟨r, rc', hg, hp, hname⟩ := h6 ent hent
    exact ⟨r, rc', hg, hp, hname.trans hn1⟩

/-! ## `KeyRollActivate` -/

/-- Payload events (object updates, child certificate updates satisfying `G`) leave keys and names
alone and keep a certificate property `P` that updates satisfying `G` keep. -/
theorem applyEvs_payloads (r : Rcn) (P : ChildCerts → Prop) (G : CertUpd → Prop)
    (hPG : ∀ cs u, P cs → G u → P (cs.applyUpd u)) :
    ∀ (evs : List Ev) (rc rc' : Rc),
      (∀ e ∈ evs, (∃ u, e = Ev.products r u) ∨ (∃ u, e = Ev.childCerts r u ∧ G u)) →
      rc.applyEvs evs = some rc' →
      rc'.keys = rc.keys ∧ rc'.parent = rc.parent ∧ rc'.parentRcn = rc.parentRcn ∧ (P rc.certs → P rc'.certs) := by
  intro evs
  induction evs with
  | nil =>
    intro rc rc' _ h
    simp only [Rc.applyEvs, Option.some.injEq] at h; subst h
    exact ⟨rfl, rfl, rfl, fun h => h⟩
  | cons e es ih =>
    intro rc rc' hev h
    rcases hev e (List.mem_cons_self ..) with ⟨u, rfl⟩ | ⟨u, rfl, hG⟩
    · simp only [Rc.applyEvs, Rc.applyEv, Option.bind_some] at h
      obtain ⟨h1, h2, h3, h4⟩ := ih _ rc' (fun e' he' => hev e' (List.mem_cons_of_mem _ he')) h
      exact ⟨h1, h2, h3, h4⟩
    · simp only [Rc.applyEvs, Rc.applyEv, Option.bind_some] at h
      obtain ⟨h1, h2, h3, h4⟩ := ih _ rc' (fun e' he' => hev e' (List.mem_cons_of_mem _ he')) h
      exact ⟨h1, h2, h3, fun hP => h4 (hPG _ _ hP hG)⟩

theorem reissueAll_noLimit {l : List (KeyId × ChildCert)} {signing : Cert} {na : Int}
    {out : List (KeyId × ChildCert)} (h : reissueAll l signing na = .ok out) (hl : ∀ e ∈ l, e.2.limit = none) :
    ∀ e ∈ out, e.2.limit = none := by
  induction l generalizing out with
  | nil => simp only [reissueAll, Except.ok.injEq] at h; subst h; intro e he; cases he
  | cons p t ih =>
    obtain ⟨k, cc⟩ := p
    simp only [reissueAll] at h
    cases hr : reissue cc none signing na with
    | error e => simp [hr] at h
    | ok c' =>
      simp only [hr] at h
      cases ht : reissueAll t signing na with
      | error e => simp [ht] at h
      | ok rest =>
        simp only [ht, Except.ok.injEq] at h; subst h
        intro e he
        rcases List.mem_cons.mp he with rfl | he
        · have hlim : cc.limit = none := hl (k, cc) (List.mem_cons_self ..)
          simp only [reissue, makeIssued, hlim, applyLimit, Option.getD_none] at hr
          split at hr
          · cases hr; rfl
          · cases hr
        · exact ih ht (fun e' he' => hl e' (List.mem_cons_of_mem _ he')) e he

/-- What `append_keyroll_activate` does to one class without request limits and suspended
certificates: the key state makes `KeyState.activateStep`. -/
theorem activateClass_effect (na : Int) (r : Rcn) (rc : Rc) (evs : List Ev)
    (h : activateClass r rc na = .ok evs) (hnl : rc.certs.noLimits) (hns : rc.certs.suspended = []) :
    ∀ rc', rc.applyEvs evs = some rc' →
      rc'.parent = rc.parent ∧ rc'.parentRcn = rc.parentRcn ∧ rc'.keys = rc.keys.activateStep ∧
      rc'.certs.noLimits ∧ rc'.certs.suspended = [] := by
  intro rc' happ
  unfold activateClass at h
  cases hn : rc.keys.newKey with
  | none =>
    simp only [hn, Except.ok.injEq] at h; subst h
    simp only [Rc.applyEvs, Option.some.injEq] at happ; subst happ
    refine ⟨rfl, rfl, ?_, hnl, hns⟩
    cases hk : rc.keys with
    | rollNew n c => rw [hk] at hn; simp [KeyState.newKey] at hn
    | _ => simp [KeyState.activateStep, KeyState.keyrollActivate]
  | some n =>
    simp only [hn] at h
    cases hk : rc.keys with
    | rollNew n' c =>
      have hnn : n' = n := by rw [hk] at hn; simpa [KeyState.newKey] using hn
      subst hnn
      cases ha : rc.keys.keyrollActivate with
      | error e => simp [ha] at h
      | ok kevs =>
        simp only [ha] at h
        cases hac : rc.certs.activateKey n'.cert na with
        | error e => simp [hac] at h
        | ok upd =>
          simp only [hac, Except.ok.injEq] at h; subst h
          have hreq : (n'.req || c.req) = false := by
            rw [hk] at ha
            simp only [KeyState.keyrollActivate] at ha
            cases hb : (n'.req || c.req) with
            | false => rfl
            | true => simp [hb] at ha
          have hkevs : kevs = [.activated] := by
            rw [hk] at ha
            simp only [KeyState.keyrollActivate, hreq, Bool.false_eq_true, if_false, Except.ok.injEq] at ha
            exact ha.symm
          subst hkevs
          -- the update carries no limits and suspends nothing
          have hG : (∀ e ∈ upd.issued, e.2.limit = none) ∧ upd.suspended = [] ∧ upd.unsuspended = [] := by
            unfold ChildCerts.activateKey at hac
            cases hr1 : reissueAll rc.certs.issued n'.cert na with
            | error e => simp [hr1] at hac
            | ok iss =>
              simp only [hr1] at hac
              rw [hns] at hac
              simp only [reissueAll, Except.ok.injEq] at hac; subst hac
              exact ⟨reissueAll_noLimit hr1 (fun e he => hnl e (List.mem_append_left _ he)), rfl, rfl⟩
          simp only [List.map_cons, List.map_nil, List.cons_append, List.nil_append, Rc.applyEvs,
            Rc.applyEv, hk, KeyState.apply, KeyState.applyActivated, Option.map_some, Option.bind_some] at happ
          obtain ⟨h1, h2, h3, h4⟩ := applyEvs_payloads r
            (fun cs => cs.noLimits ∧ cs.suspended = [])
            (fun u => (∀ e ∈ u.issued, e.2.limit = none) ∧ u.suspended = [] ∧ u.unsuspended = [])
            (fun cs u hP hu => ⟨noLimits_applyUpd hP.1 hu.1 (by rw [hu.2.1]; intro e he; cases he) hu.2.2,
              applyUpd_suspended_nil hP.2 hu.2.1 hu.2.2⟩)
            _ _ rc' (by
              intro e he
              simp only [List.mem_append] at he
              rcases he with ((he | he) | he) | he
              · exact Or.inl (renewal_products r rc .roa e he)
              · exact Or.inl (renewal_products r rc .aspa e he)
              · split at he
                · cases he
                · simp only [List.mem_singleton] at he; exact Or.inr ⟨upd, he, hG⟩
              · exact Or.inl (renewal_products r rc .bgpsec e he)) happ
          refine ⟨h2, h3, ?_, (h4 ⟨hnl, hns⟩).1, (h4 ⟨hnl, hns⟩).2⟩
          rw [h1]
          simp [KeyState.activateStep, KeyState.keyrollActivate, hreq, KeyState.applyActivated]
    | pending _ => rw [hk] at hn; simp [KeyState.newKey] at hn
    | active _ => rw [hk] at hn; simp [KeyState.newKey] at hn
    | rollPending _ _ => rw [hk] at hn; simp [KeyState.newKey] at hn
    | rollOld _ _ => rw [hk] at hn; simp [KeyState.newKey] at hn

/-- A class loop, class by class, relating each class after the loop to the class before. -/
theorem forClasses_rel (Q : Rc → Rc → Prop) {f : Rcn → Rc → Except Err (List Ev)}
    (hf : ∀ r rc evs, f r rc = .ok evs → (∀ e ∈ evs, e.onClass r = true) ∧
      (∀ rc', rc.applyEvs evs = some rc' → Q rc rc'))
    {l : List (Rcn × Rc)} {evs : List Ev} {s s' : Ca} (hnd : (keys l).Nodup)
    (hl : ∀ p ∈ l, get s.classes p.1 = some p.2)
    (h : forClasses f l = .ok evs) (hs : s.applyAll evs = some s') :
    (∀ p ∈ l, ∃ rc', get s'.classes p.1 = some rc' ∧ Q p.2 rc') ∧
    (∀ r, r ∉ keys l → get s'.classes r = get s.classes r) ∧ s'.hasRepo = s.hasRepo := by
  induction l generalizing s evs with
  | nil =>
    simp only [forClasses, Except.ok.injEq] at h; subst h
    simp only [Ca.applyAll, Option.some.injEq] at hs; subst hs
    exact ⟨(by intro p hp; cases hp), fun _ _ => rfl, rfl⟩
  | cons p ps ih =>
    simp only [forClasses] at h
    cases hfp : f p.1 p.2 with
    | error e => simp [hfp] at h
    | ok a =>
      simp only [hfp] at h
      cases hrest : forClasses f ps with
      | error e => simp [hrest] at h
      | ok b =>
        simp only [hrest, Except.ok.injEq] at h; subst h
        rw [applyAll_append] at hs
        cases hs1 : s.applyAll a with
        | none => simp [hs1] at hs
        | some s1 =>
          simp only [hs1, Option.bind_some] at hs
          obtain ⟨hon, hq⟩ := hf p.1 p.2 a hfp
          have hgp := hl p (List.mem_cons_self ..)
          obtain ⟨rc', happ, hg', hframe, _, hrepo, _⟩ := applyAll_of_rc hon hgp hs1
          simp only [keys, List.map_cons, List.nodup_cons] at hnd
          have hl1 : ∀ q ∈ ps, get s1.classes q.1 = some q.2 := by
            intro q hq'
            have hne : q.1 ≠ p.1 := fun he => hnd.1 (he ▸ List.mem_map.mpr ⟨q, hq', rfl⟩)
            rw [hframe q.1 hne]; exact hl q (List.mem_cons_of_mem _ hq')
          obtain ⟨h1, h2, h3⟩ := ih hnd.2 hl1 hrest hs
          refine ⟨?_, ?_, h3.trans hrepo⟩
          · intro q hq'
            rcases List.mem_cons.mp hq' with rfl | hq'
            · refine ⟨rc', ?_, hq rc' happ⟩
              rw [h2 _ hnd.1]; exact hg'
            · exact h1 q hq'
          · intro r hr
            simp only [keys, List.map_cons, List.mem_cons, not_or] at hr
            rw [h2 r hr.2, hframe r hr.1]

/-- `KeyRollActivate` in a reachable CA without request limits and suspended certificates in
which every class is `activatable`: the command is stored and every class makes
`KeyState.activateStep`. -/
theorem activate_spec {s : Sys} (hr : Reachable s) (hnl : NoLimits s.ca) (hns : NoSusp s.ca) (na : Int)
    (hall : ∀ p ∈ s.ca.classes, p.2.activatable) :
    ∃ s', s.next (.keyrollActivate na) = s' ∧ Reachable s' ∧ NoLimits s'.ca ∧ NoSusp s'.ca ∧
      s'.ca.hasRepo = s.ca.hasRepo ∧
      (∀ r, get s.ca.classes r = none → get s'.ca.classes r = none) ∧
      (∀ r rc, get s.ca.classes r = some rc → ∃ rc', get s'.ca.classes r = some rc' ∧
        rc'.parent = rc.parent ∧ rc'.parentRcn = rc.parentRcn ∧ rc'.keys = rc.keys.activateStep) := by
  have hnd := (reachable_inv hr).core.nodup
  obtain ⟨evs, hevs⟩ := forClasses_ok_of_all (f := fun r rc => activateClass r rc na)
    (fun p hp => activateClass_ok na (hall p hp))
  have hp : s.ca.process (.keyrollActivate na) = .ok evs := by
    simp only [Ca.process, activateLoop_eq, hevs]
  obtain ⟨s', hex, happ, hr'⟩ := stored_of_process hr (c := _) (by exact trivial) hp
  have hn : s.next (.keyrollActivate na) = s' := by unfold Sys.next; rw [hex]
  -- only classes without limits and suspended certificates are met
  have hrel := forClasses_rel
    (fun rc rc' => (rc.certs.noLimits ∧ rc.certs.suspended = []) →
      rc'.parent = rc.parent ∧ rc'.parentRcn = rc.parentRcn ∧ rc'.keys = rc.keys.activateStep ∧
      rc'.certs.noLimits ∧ rc'.certs.suspended = [])
    (f := fun r rc => activateClass r rc na)
    (fun r rc a ha => ⟨(activateClass_ready na r rc a ha).1,
      fun rc' happ' hP => activateClass_effect na r rc a ha hP.1 hP.2 rc' happ'⟩)
    hnd (classes_get_of_mem hnd) hevs happ
  obtain ⟨h1, h2, h3⟩ := hrel
  have hsome : ∀ r rc, get s.ca.classes r = some rc → ∃ rc', get s'.ca.classes r = some rc' ∧
      rc'.parent = rc.parent ∧ rc'.parentRcn = rc.parentRcn ∧ rc'.keys = rc.keys.activateStep ∧
      rc'.certs.noLimits ∧ rc'.certs.suspended = [] := by
    intro r rc hg
    obtain ⟨rc', g1, g2⟩ := h1 (r, rc) (mem_of_get hg)
    exact ⟨rc', g1, g2 ⟨hnl r rc hg, hns r rc hg⟩⟩
  have hnone : ∀ r, get s.ca.classes r = none → get s'.ca.classes r = none := by
    intro r hg
    rw [h2 r (fun hm => by
      have := get_isSome_iff_mem_keys.mpr hm
      rw [hg] at this; cases this)]
    exact hg
  refine ⟨s', hn, hr', ?_, ?_, h3, hnone, ?_⟩
  · intro r rc' hg'
    cases hg : get s.ca.classes r with
    | none => rw [hnone r hg] at hg'; cases hg'
    | some rc =>
      obtain ⟨rc'', g1, _, _, _, g5, _⟩ := hsome r rc hg
      rw [g1] at hg'; cases hg'; exact g5
  · intro r rc' hg'
    cases hg : get s.ca.classes r with
    | none => rw [hnone r hg] at hg'; cases hg'
    | some rc =>
      obtain ⟨rc'', g1, _, _, _, _, g6⟩ := hsome r rc hg
      rw [g1] at hg'; cases hg'; exact g6
  · intro r rc hg
    obtain ⟨rc', g1, g2, g3, g4, _⟩ := hsome r rc hg
    exact ⟨rc', g1, g2, g3, g4⟩

end KM.CaK
