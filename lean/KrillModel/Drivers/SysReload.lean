/- Driver `sysreload`: C06 on krill's real aggregates (CertAuth, trust-anchor proxy and signer)
over `system` traces.  The harness op `reloadcheck [snap]` compares, for every entity, the live
state with (a) what a fresh store object loads – the latest stored snapshot plus later
commands – and (b) a replay of the stored commands alone; this is the statement of
`KM.Props.C06.replay_eq_live` / `snapshot_any_point` evaluated on the implementation.
`history <ca>` must list exactly the commands stored for the current incarnation of the CA
(`KM.Props.C07` history agreement; the init command has version 0 and is not listed). -/
import KrillModel.Drivers.Json
import KrillModel.Generated.CommandKinds
import KrillModel.ES.CommandCoverage
namespace KM.Drv.SysReload
open KM.Drv Lean

structure St where
  /-- highest stored command version seen per `cas:<ca>` -/
  vers : List (String × Nat) := []

def setVer (vs : List (String × Nat)) (k : String) (n : Nat) : List (String × Nat) :=
  (k, n) :: vs.filter (·.1 != k)

def step (st : St) (ws : List String) (j : Json) : St × String :=
  let op := ws.headD "?"
  let ret := jstr (jget j "ret")
  let vers := (jarr (jget j "cmds")).foldl (fun vs c =>
    let e := jstr (jget c "entity")
    if e.startsWith "cas:" then setVer vs e (jnat (jget c "version")) else vs) st.vers
  let vers := match ws with
    | ["cadelete", ca] => if ret.startsWith "ok" then vers.filter (·.1 != s!"cas:{ca}") else vers
    | _ => vers
  let st' : St := { vers }
  if ret.startsWith "PANIC" then (st', "FAIL oracle replay_never_panics") else
  match ws with
  | "serde" :: _ => (st', "ok trivial:serde")
  | "sreload" :: _ =>
    -- an offline signer (krillta): the next invocation's store object, and a replay of a copy of its commands
    if ret.startsWith "ok:same" then (st', "ok sreload:all-commands")
    else if ret.startsWith "ok:diff" then
      let routes := ((ret.splitOn ";").filterMap fun d => match d.splitOn ":" with
        | _ :: _ :: _ :: route :: _ => some route
        | [_, route, _] => some route
        | _ => none).eraseDups
      (st', s!"FAIL oracle replay_eq_live offline-signer routes={routes} {ret.take 300}")
    else (st', s!"ok trivial:sreload-{ret.take 20}")
  | "reloadcheck" :: rest =>
    let kind := if rest.isEmpty then "older-snapshot" else "fresh-snapshot"
    if ret.startsWith "ok:same" then (st', s!"ok reloadcheck:{kind}")
    else
      -- one predicate per route that differs (snapshot + later commands / commands alone)
      let routes := ((ret.splitOn ";").filterMap fun d => match d.splitOn ":" with
        | _ :: _ :: _ :: route :: _ => some route
        | [_, route, _] => some route
        | _ => none).eraseDups
      (st', s!"FAIL oracle replay_eq_live {kind} routes={routes} {ret.take 300}")
  | ["history", ca] =>
    match ret.splitOn ":" with
    | ["ok", n] =>
      let want := (vers.lookup s!"cas:{ca}").getD 0
      if n.toNat? == some want then (st', s!"ok history:{if want == 0 then "none" else if want < 4 then "few" else "many"}")
      else (st', s!"FAIL oracle history_lists_stored_commands {ca} listed={n} stored={want}")
    | _ => (st', s!"ok trivial:history-{ret.take 20}")
  | _ => (st', s!"ok trivial:{op}")

/-! ## Coverage of the stored command kinds (C06, `ES/CommandCoverage.lean`)

With `KVERIF_C06_COVER=tags` the driver prints, per trace line, which stored command kinds (and in
which shapes) the `stored` / `stored_boot` observation of that line shows:
`ok cover <Aggregate>/<Variant>/<shape>@<op> …` (`-` = the variant itself; `ev:<Aggregate>/<Variant>`
for event kinds).  With `KVERIF_C06_COVER=claims` it prints the claims of the coverage table and the
rows that are not executed, and reads nothing.  `checks/C06.py` compares the two. -/

open KM.Gen.CommandKinds in
def normName (s : String) : String :=
  String.ofList ((s.toList.filter (· != '_')).map Char.toLower)

open KM.Gen.CommandKinds in
/-- The variant a stored JSON value is, and its payload: internally tagged enums (`tag="type"`) carry
the name under `type`, the others are serde's default `"Variant"` / `{"Variant": payload}`. -/
def variantOf (ks : List Kind) (d : Json) : Option (Kind × Json) :=
  let tagged := ks.any fun k => k.enumAttrs.any (·.startsWith "tag=")
  let (name, payload) :=
    if tagged then (jstr (jget d "type"), d)
    else match d with
      | .str s => (s, Json.null)
      | _ => jvariant d
  (ks.find? fun k => normName k.variant == normName name).map (·, payload)

/-- The JSON value at a dotted field path of a variant. -/
def fieldAt (form : String) (payload : Json) (path : String) : Option Json :=
  let comps := path.splitOn "."
  let rec go (j : Json) : List String → Option Json
    | [] => some j
    | c :: cs => match j with
      | .obj _ => match j.getObjVal? c with
        | .ok v => go v cs
        | .error _ => none
      | .arr a => match c.toNat? with
        | some i => match a[i]? with | some v => go v cs | none => none
        | none => none
      | _ => none
  match comps with
  | [] => some payload
  | c :: cs =>
    if form == "newtype" && c == "0" then go payload cs
    else go payload (c :: cs)

open KM.Gen.CommandKinds in
def shapeOf (f : Field) (v : Option Json) : Option String :=
  if f.shape == "opt" then
    some (match v with | none => "none" | some .null => "none" | some _ => "some")
  else if f.shape == "coll" then
    some (match v with
      | none => "empty" | some .null => "empty"
      | some (.arr a) => if a.isEmpty then "empty" else "nonempty"
      | some (.obj kvs) => if kvs.isEmpty then "empty" else "nonempty"
      | some _ => "nonempty")
  else none

open KM.Gen.CommandKinds in
/-- Tags of one stored value of aggregate `agg` in role `role` (`command` / `change` from `commandKinds`, events from `eventKinds`). -/
def tagsOf (table : List Kind) (pre : String) (agg : String) (roles : List String) (d : Json) (withShapes : Bool) : List String :=
  let ks := table.filter fun k => k.agg == agg && roles.contains k.role
  match variantOf ks d with
  | none => [s!"{pre}{agg}/?{(toString d).take 40}"]
  | some (k, payload) =>
    let base := s!"{pre}{agg}/{k.variant}"
    if !withShapes then [base] else
    (base ++ "/-") :: k.fields.filterMap fun f =>
      (shapeOf f (fieldAt k.form payload f.name)).map fun sh => s!"{base}/{f.name}={sh}"

open KM.Gen.CommandKinds in
def coverStep (_ : Unit) (ws : List String) (j : Json) : Unit × String :=
  let op := ws.headD "?"
  let one (opname : String) (c : Json) : List String :=
    let agg := jstr (jget c "agg")
    if jstr (jget c "role") == "change" then
      (jarr (jget c "ch")).flatMap fun d => (tagsOf commandKinds "" agg ["change"] d true).map (· ++ "@" ++ opname)
    else
      let cmd := (tagsOf commandKinds "" agg ["command"] (jget c "d") true).map (· ++ "@" ++ opname)
      let evs := (jarr (jget c "ev")).flatMap fun d => tagsOf eventKinds "ev:" agg ["event"] d false
      let ini := if jisNull (jget c "init") then [] else [s!"ev:{agg}/(init)"]
      cmd ++ evs ++ ini
  let tags := (jarr (jget j "stored_boot")).flatMap (one "(boot)") ++ (jarr (jget j "stored")).flatMap (one op)
  ((), "ok cover " ++ " ".intercalate tags.eraseDups)

def printClaims : IO Unit := do
  for (stream, agg, variant, shape, op) in KM.ES.CommandCoverage.claims do
    IO.println s!"claim {stream} {agg}/{variant}/{shape}@{op}"
  for r in KM.ES.CommandCoverage.coverage do
    match r.status with
    | .notExecuted reason why => IO.println s!"uncovered {r.agg}/{r.variant} {KM.ES.CommandCoverage.reasonName reason} {why}"
    | .covered via _ excused =>
      IO.println s!"via {r.agg}/{r.variant} {KM.ES.CommandCoverage.viaName via}"
      for (a, why) in excused do
        IO.println s!"excused {r.agg}/{r.variant}/{a} {why}"

def main : IO Unit := do
  let stdin ← IO.getStdin
  match (← IO.getEnv "KVERIF_C06_COVER") with
  | some "claims" => printClaims
  | some "tags" => jloop stdin () coverStep ()
  | _ => jloop stdin ({} : St) step {}

end KM.Drv.SysReload
