/- Driver `sysreload`: C06 on krill's real aggregates (CertAuth, trust-anchor proxy and signer)
over `system` traces.  The harness op `reloadcheck [snap]` compares, for every entity, the live
state with (a) what a fresh store object loads – the latest stored snapshot plus later
commands – and (b) a replay of the stored commands alone; this is the statement of
`KM.Props.C06.replay_eq_live` / `snapshot_any_point` evaluated on the implementation.
`history <ca>` must list exactly the commands stored for the current incarnation of the CA
(`KM.Props.C07` history agreement; the init command has version 0 and is not listed). -/
import KrillModel.Drivers.Json
namespace KM.Drv.SysReload
open KM.Drv Lean

structure St where
  /-- highest stored command version seen per `cas:<ca>` -/
  vers : List (String × Nat) := []

def setVer (vs : List (String × Nat)) (k : String) (n : Nat) : List (String × Nat) :=
  (k, n) :: vs.filter (·.1 != k)

def step (st : St) (ws : List String) (j : Json) : St × String :=
  let op := ws.headD "?"
  let ret := jstr (jget j "ret")
  let vers := (jarr (jget j "cmds")).foldl (fun vs c =>
    let e := jstr (jget c "entity")
    if e.startsWith "cas:" then setVer vs e (jnat (jget c "version")) else vs) st.vers
  let vers := match ws with
    | ["cadelete", ca] => if ret.startsWith "ok" then vers.filter (·.1 != s!"cas:{ca}") else vers
    | _ => vers
  let st' : St := { vers }
  if ret.startsWith "PANIC" then (st', "FAIL oracle replay_never_panics") else
  match ws with
  | "reloadcheck" :: rest =>
    let kind := if rest.isEmpty then "older-snapshot" else "fresh-snapshot"
    if ret.startsWith "ok:same" then (st', s!"ok reloadcheck:{kind}")
    else
      -- one predicate per route that differs (snapshot + later commands / commands alone)
      let routes := ((ret.splitOn ";").filterMap fun d => match d.splitOn ":" with
        | _ :: _ :: _ :: route :: _ => some route
        | [_, route, _] => some route
        | _ => none).eraseDups
      (st', s!"FAIL oracle replay_eq_live {kind} routes={routes} {ret.take 300}")
  | ["history", ca] =>
    match ret.splitOn ":" with
    | ["ok", n] =>
      let want := (vers.lookup s!"cas:{ca}").getD 0
      if n.toNat? == some want then (st', s!"ok history:{if want == 0 then "none" else if want < 4 then "few" else "many"}")
      else (st', s!"FAIL oracle history_lists_stored_commands {ca} listed={n} stored={want}")
    | _ => (st', s!"ok trivial:history-{ret.take 20}")
  | _ => (st', s!"ok trivial:{op}")

def main : IO Unit := do
  let stdin ← IO.getStdin
  jloop stdin ({} : St) step {}

end KM.Drv.SysReload
