/- `sysobjects` driver, part B: the projection model of `create_updates` / `create_renewal`
(ROAs, ASPA objects, router certificates) driven by the stored commands of one op. -/
import KrillModel.Drivers.SysObjModel
namespace KM.Drv.SysObj
open Lean KM.Drv KM.Ca.Pub

structure Acc where
  errs : List String := []
  tags : List String := []
deriving Inhabited

def Acc.err (a : Acc) (e : String) : Acc := { a with errs := a.errs ++ [e] }
def Acc.errsOf (a : Acc) (es : List String) : Acc := { a with errs := a.errs ++ es }
def Acc.tag (a : Acc) (t : String) : Acc := if a.tags.contains t then a else { a with tags := a.tags ++ [t] }

def findEv (evs : List Json) (ty : String) (rcn : Nat) : Option Json :=
  evs.find? fun e => evType e == ty && evRcn e == rcn

def sortP (l : List Payload) : List Payload := sortBy payloadLt l
def showPs (l : List Payload) : String := ",".intercalate ((sortP l).map showPayload)

/-! ### Configuration after the op (model input) -/

def caRoutes (ca : Json) : List Payload := (jkeys (jpath ca ["routes", "map"])).filterMap parsePayload

def caAspaDefs (ca : Json) : List AspaDefn :=
  (jfields (jpath ca ["aspas", "attestations"])).map fun (_, v) => parseAspaDefn v

def caRouterDefs (ca : Json) : List RouterKey := (jkeys (jget ca "bgpsec_defs")).filterMap parseRouterKey

/-! ### ROAs -/

def aggLt (a b : AggKey × List Payload) : Bool := a.1.asn < b.1.asn

def normAgg (l : List (AggKey × List Payload)) : List (Nat × List Payload) :=
  (sortBy aggLt l).map fun e => (e.1.asn, sortP e.2)

/-- The plan an observed `roas_updated` event amounts to. -/
def evRoaPlan (ev : Option Json) : RoaPlan :=
  match ev with
  | none => {}
  | some e =>
    let u := jget e "updates"
    { updated := (jkeys (jget u "updated")).filterMap parsePayload
      removed := (jarr (jget u "removed")).filterMap fun k => parsePayload (jstr k)
      aggUpdated := (jfields (jget u "aggregate_updated")).filterMap fun (k, v) =>
        (parseAggKey k).map fun a => (a, (parseRoaInfo v).auths)
      aggRemoved := (jarr (jget u "aggregate_removed")).filterMap fun k => parseAggKey (jstr k) }

def cmpRoaPlan (wh : String) (p o : RoaPlan) : List String :=
  (if sortP p.updated == sortP o.updated then [] else
    [s!"{wh}: simple ROAs to issue model=[{showPs p.updated}] impl=[{showPs o.updated}]"]) ++
  (if sortP p.removed == sortP o.removed then [] else
    [s!"{wh}: simple ROAs to remove model=[{showPs p.removed}] impl=[{showPs o.removed}]"]) ++
  (if normAgg p.aggUpdated == normAgg o.aggUpdated then [] else
    [s!"{wh}: aggregates to issue model={(normAgg p.aggUpdated).map (·.1)} impl={(normAgg o.aggUpdated).map (·.1)}"]) ++
  (if sortNats (p.aggRemoved.map (·.asn)) == sortNats (o.aggRemoved.map (·.asn)) then [] else
    [s!"{wh}: aggregates to remove model={p.aggRemoved.map (·.asn)} impl={o.aggRemoved.map (·.asn)}"])

def mintSimple (ev : Option Json) (p : Payload) : ObjMeta :=
  match ev with
  | none => default
  | some e =>
    match (jfields (jpath e ["updates", "updated"])).find? fun (k, _) => parsePayload k == some p with
    | some (_, v) => parseMeta v
    | none => default

def mintAgg (ev : Option Json) (a : AggKey) : ObjMeta :=
  match ev with
  | none => default
  | some e =>
    match (jfields (jpath e ["updates", "aggregate_updated"])).find? fun (k, _) => parseAggKey k == some a with
    | some (_, v) => parseMeta v
    | none => default

def modeTag (m : RoaMode) : String := match m with
  | .simple => "simple" | .stopAggregating => "stop" | .startAggregating => "start" | .aggregate => "aggregate"

/-- Check a (re-)derivation of the ROAs of class `rcn` and advance the projection model. -/
def stepRoas (cfg : Cfg) (wh : String) (routes : List Payload) (res : Res) (evs : List Json) (rcn : Nat)
    (c : ClassM) (a : Acc) : ClassM × Acc :=
  let ev := findEv evs "roas_updated" rcn
  let plan := c.roas.plan res.coversPfx routes cfg.deagg cfg.agg
  let mode := c.roas.mode (relevant res.coversPfx routes).length cfg.deagg cfg.agg
  let a := a.errsOf (cmpRoaPlan wh plan (evRoaPlan ev))
  let a := a.tag s!"roa-{modeTag mode}{if plan.isEmpty then "" else "*"}"
  ({ c with roas := c.roas.apply (plan.sign (mintSimple ev) (mintAgg ev)) }, a)

/-- Renewal (`create_renewal`): `thr = none` stands for `force`. -/
def stepRoaRenewal (wh : String) (thr : Option Nat) (evs : List Json) (rcn : Nat) (c : ClassM) (a : Acc) :
    ClassM × Acc :=
  let ev := findEv evs "roas_updated" rcn
  let plan := c.roas.planRenewal thr.isNone (thr.getD 0)
  let a := a.errsOf (cmpRoaPlan wh plan (evRoaPlan ev))
  let a := a.tag s!"roa-renew{if plan.isEmpty then "-none" else ""}"
  ({ c with roas := c.roas.apply (plan.sign (mintSimple ev) (mintAgg ev)) }, a)

/-! ### ASPA objects -/

def defLt (a b : AspaDefn) : Bool := a.customer < b.customer

def evAspaPlan (ev : Option Json) : AspaPlan :=
  match ev with
  | none => {}
  | some e =>
    { updated := (jarr (jpath e ["updates", "updated"])).map fun v => parseAspaDefn (jget v "definition")
      removed := (jarr (jpath e ["updates", "removed"])).map jnat }

def cmpAspaPlan (wh : String) (p o : AspaPlan) : List String :=
  (if sortBy defLt p.updated == sortBy defLt o.updated then [] else
    [s!"{wh}: ASPA objects to issue model={p.updated.map (·.customer)} impl={o.updated.map (·.customer)}"]) ++
  (if sortNats p.removed == sortNats o.removed then [] else
    [s!"{wh}: ASPA objects to remove model={p.removed} impl={o.removed}"])

def mintAspa (ev : Option Json) (d : AspaDefn) : ObjMeta :=
  match ev with
  | none => default
  | some e =>
    match (jarr (jpath e ["updates", "updated"])).find? fun v => parseAspaDefn (jget v "definition") == d with
    | some v => parseMeta v
    | none => default

def stepAspas (wh : String) (defs : List AspaDefn) (res : Res) (evs : List Json) (rcn : Nat) (c : ClassM)
    (a : Acc) : ClassM × Acc :=
  let ev := findEv evs "aspa_objects_updated" rcn
  let plan := aspaPlan c.aspas res.hasAsn defs
  let a := a.errsOf (cmpAspaPlan wh plan (evAspaPlan ev))
  let a := a.tag s!"aspa-{if plan.updated.isEmpty then "" else "u"}{if plan.removed.isEmpty then "" else "r"}"
  ({ c with aspas := aspaApply c.aspas (plan.sign (mintAspa ev)) }, a)

def stepAspaRenewal (wh : String) (thr : Option Nat) (evs : List Json) (rcn : Nat) (c : ClassM) (a : Acc) :
    ClassM × Acc :=
  let ev := findEv evs "aspa_objects_updated" rcn
  let plan := aspaRenewalPlan c.aspas thr
  let a := a.errsOf (cmpAspaPlan wh plan (evAspaPlan ev))
  let a := a.tag s!"aspa-renew{if plan.isEmpty then "-none" else ""}"
  ({ c with aspas := aspaApply c.aspas (plan.sign (mintAspa ev)) }, a)

/-! ### Router certificates -/

def evRouterAsns (ev : Option Json) : List Nat × List RouterKey :=
  match ev with
  | none => ([], [])
  | some e =>
    ((jarr (jpath e ["updates", "updated"])).map fun v => jnat (jget v "asn"),
     (jarr (jpath e ["updates", "removed"])).filterMap fun k => parseRouterKey (jstr k))

def rkLt (a b : RouterKey) : Bool := a.asn < b.asn || (a.asn == b.asn && a.key < b.key)

def cmpRouterPlan (wh : String) (p : RouterPlan) (ev : Option Json) : List String :=
  let (ua, rk) := evRouterAsns ev
  (if sortNats (p.updated.map (·.asn)) == sortNats ua then [] else
    [s!"{wh}: router certificates to issue model={p.updated.map (·.asn)} impl={ua}"]) ++
  (if sortBy rkLt p.removed == sortBy rkLt rk then [] else
    [s!"{wh}: router certificates to remove model={p.removed.map (·.asn)} impl={rk.map (·.asn)}"])

def mintRouter (ev : Option Json) (k : RouterKey) : ObjMeta :=
  let name := enc s!"ROUTER-{hex8 k.asn}-{dec k.key}.cer"
  match ev with
  | none => { name, serial := 0, expires := 0, hash := 0 }
  | some e =>
    match (jarr (jpath e ["updates", "updated"])).find? fun v => jnat (jget v "asn") == k.asn with
    | some v => { name, serial := jtok (jget v "serial"), expires := jnat (jget v "expires"), hash := 0 }
    | none => { name, serial := 0, expires := 0, hash := 0 }

def stepRouters (wh : String) (defs : List RouterKey) (res : Res) (evs : List Json) (rcn : Nat) (c : ClassM)
    (a : Acc) : ClassM × Acc :=
  let ev := findEv evs "bgp_sec_certificates_updated" rcn
  let plan := routerPlan c.routers res.hasAsn defs
  let a := a.errsOf (cmpRouterPlan wh plan ev)
  let a := a.tag s!"router-{if plan.updated.isEmpty then "" else "u"}{if plan.removed.isEmpty then "" else "r"}"
  ({ c with routers := routerApply c.routers (plan.sign (mintRouter ev)) }, a)

def stepRouterRenewal (wh : String) (thr : Option Nat) (evs : List Json) (rcn : Nat) (c : ClassM) (a : Acc) :
    ClassM × Acc :=
  let ev := findEv evs "bgp_sec_certificates_updated" rcn
  let plan := routerRenewalPlan c.routers thr
  let a := a.errsOf (cmpRouterPlan wh plan ev)
  let a := a.tag s!"router-renew{if plan.isEmpty then "-none" else ""}"
  ({ c with routers := routerApply c.routers (plan.sign (mintRouter ev)) }, a)

/-! ### One stored command -/

def mapClasses (m : CaM) (a : Acc) (f : Nat → ClassM → Acc → ClassM × Acc) : CaM × Acc :=
  m.classes.foldl (fun (m', a') (rcn, c) =>
    let (c', a'') := f rcn c a'
    (setClass m' rcn c', a'')) (m, a)

def objectEventTypes : List String :=
  ["roas_updated", "aspa_objects_updated", "bgp_sec_certificates_updated"]

/-- Renewal threshold `now + weeks` (seconds). -/
def thrOf (now weeks : Nat) : Nat := now + weeks * 7 * 86400

/-- Projection step for one successful command of CA `h`.  `postCa`: the CA's state after the op
(configuration input), `now`: clock bound for renewal thresholds. -/
def projCmd (cfg : Cfg) (h : String) (postCa : Json) (now : Nat) (cmd : Json) (m : CaM) (a : Acc) : CaM × Acc :=
  let ty := jstr (jpath cmd ["details", "type"])
  let evs := jarr (jget cmd "events")
  let wh := s!"{h} v{jnat (jget cmd "version")} {ty}"
  let routes := caRoutes postCa
  let adefs := caAspaDefs postCa
  let rdefs := caRouterDefs postCa
  -- structural events first: classes added/removed
  let m := evs.foldl (fun m e =>
    match evType e with
    | "resource_class_added" => setClass m (evRcn e) {}
    | "resource_class_removed" => { m with classes := erase m.classes (evRcn e) }
    | _ => m) m
  match ty with
  | "roa_definition_updates" =>
    mapClasses m a fun rcn c a => if c.hasKey then stepRoas cfg wh routes c.res evs rcn c a else (c, a)
  | "aspas_update" =>
    mapClasses m a fun rcn c a => if c.hasKey then stepAspas wh adefs c.res evs rcn c a else (c, a)
  | "bgp_sec_definition_updates" =>
    mapClasses m a fun rcn c a => if c.hasKey then stepRouters wh rdefs c.res evs rcn c a else (c, a)
  | "update_rcvd_cert" =>
    evs.foldl (fun (m, a) e =>
      let rcn := evRcn e
      let c := getClass m rcn
      match evType e with
      | "key_pending_to_active" =>
        let k := jget e "current_key"
        let res := parseRes (jpath k ["incoming_cert", "resources"])
        let c := { c with hasKey := true, res, curKey := jtok (jget k "key_id") }
        let (c, a) := stepRoas cfg wh routes res evs rcn c a
        let (c, a) := stepAspas wh adefs res evs rcn c a
        let (c, a) := stepRouters wh rdefs res evs rcn c a
        (setClass m rcn c, a.tag "rcvd-first")
      | "key_pending_to_new" =>
        let k := jget e "new_key"
        (setClass m rcn { c with newKey := jtok (jget k "key_id"),
                                  newRes := parseRes (jpath k ["incoming_cert", "resources"]) }, a.tag "rcvd-new")
      | "certificate_received" =>
        let res := parseRes (jpath e ["rcvd_cert", "resources"])
        if jtok (jget e "ki") == c.curKey then
          if res != c.res then
            let c := { c with res }
            let (c, a) := stepRoas cfg wh routes res evs rcn c a
            let (c, a) := stepAspas wh adefs res evs rcn c a
            let (c, a) := stepRouters wh rdefs res evs rcn c a
            (setClass m rcn c, a.tag "rcvd-changed")
          else
            let bad := evs.filter fun x => objectEventTypes.contains (evType x) && evRcn x == rcn
            (m, (if bad.isEmpty then a else a.err s!"{wh}: object updates without a resource change").tag "rcvd-same")
        else (setClass m rcn { c with newRes := res }, a.tag "rcvd-newkey")
      | _ => (m, a)) (m, a)
  | "key_roll_activate" =>
    evs.foldl (fun (m, a) e =>
      if evType e == "key_roll_activated" then
        let rcn := evRcn e
        let c := getClass m rcn
        let (c, a) := stepRoaRenewal wh none evs rcn c a
        let (c, a) := stepAspaRenewal wh none evs rcn c a
        let (c, a) := stepRouterRenewal wh none evs rcn c a
        (setClass m rcn { c with curKey := c.newKey, res := c.newRes }, a.tag "activate")
      else (m, a)) (m, a)
  | "reissue_before_expiring" =>
    -- one of three commands (ROAs, ASPAs, router certificates); stored only when it has events
    let kinds := evs.map evType
    mapClasses m a fun rcn c a =>
      if !c.hasKey then (c, a) else
      if kinds.contains "roas_updated" then stepRoaRenewal wh (some (thrOf now cfg.roaReissue)) evs rcn c a
      else if kinds.contains "aspa_objects_updated" then stepAspaRenewal wh (some (thrOf now cfg.aspaReissue)) evs rcn c a
      else if kinds.contains "bgp_sec_certificates_updated" then
        stepRouterRenewal wh (some (thrOf now cfg.bgpsecReissue)) evs rcn c a
      else (c, a)
  | _ =>
    let bad := evs.filter fun x => objectEventTypes.contains (evType x)
    (m, if bad.isEmpty then a else a.err s!"{wh}: unexpected object updates")

/-! ### End-of-op comparison of the projection with the CA's state -/

def roaSig (r : Roas) : List String :=
  let s := (sortBy (fun a b => payloadLt a.1 b.1) r.simple).map fun e => s!"{showPayload e.1}#{dec e.2.obj.serial}"
  let g := (sortBy (fun (a b : AggKey × RoaInfo) => a.1.asn < b.1.asn) r.agg).map fun e =>
    s!"AS{e.1.asn}[{showPs e.2.auths}]#{dec e.2.obj.serial}"
  s ++ g

def aspaSig (o : AspaObjects) : List String :=
  (sortBy (fun (a b : Nat × AspaInfo) => a.1 < b.1) o).map fun e =>
    s!"{e.1}:{e.2.defn.providers}#{dec e.2.obj.serial}"

def routerSig (o : RouterCerts) : List String :=
  (sortBy (fun (a b : RouterKey × ObjMeta) => rkLt a.1 b.1) o).map fun e => s!"{e.1.asn}/{dec e.1.key}#{dec e.2.serial}"

def diffProj (h : String) (m : CaM) (postCa : Json) : List String :=
  (jfields (jget postCa "resources")).flatMap fun (rcnS, rc) =>
    let c := getClass m (enc rcnS)
    let o1 := roaSig (parseRoas (jget rc "roas"))
    let o2 := aspaSig (parseAspaObjects (jget rc "aspas"))
    let o3 := routerSig (parseRouterCerts (jget rc "bgpsec_certificates"))
    (if roaSig c.roas == o1 then [] else [s!"{h}/{rcnS}: ROA objects model={roaSig c.roas} impl={o1}"]) ++
    (if aspaSig c.aspas == o2 then [] else [s!"{h}/{rcnS}: ASPA objects model={aspaSig c.aspas} impl={o2}"]) ++
    (if routerSig c.routers == o3 then [] else [s!"{h}/{rcnS}: router certs model={routerSig c.routers} impl={o3}"])

end KM.Drv.SysObj
