/-
Driver `syskeys` (C02 / C04): reads the `system` trace, keeps per CA the model state
(`KM.CaK.Sys` = aggregate projection + published-object sets) in lock-step with the
implementation:

* every stored command of a CA is translated to the model's `Cmd` (inputs the code computes –
  new keys, times – are taken from the observation), `process` predicts the events, the
  prediction is compared with the observed events on the abstract fields;
* the *observed* events are applied with the model's partial `apply` (a `none` is the model
  saying the real code panics) and fed to the model of the pre-save listener;
* the resulting model state is compared with the observed `cas` / `objects`;
* the executable property predicates (`Ca/Preds.lean`) are evaluated on the
  implementation's own observed state (oracle).
-/
import Lean.Data.Json
import KrillModel.Ca.Preds
import KrillModel.Ca.Exchange
import KrillModel.Drivers.Json
namespace KM.Drv.SysKeys
open Lean KM.CaK KM.Res KM.AMap KM.Drv

/-! ## Interning of names -/

structure Tab where
  strs : List String := []
  /-- product key (`roa:<payload>`, `agg:<key>`, `aspa:<asn>`) ↦ file name -/
  files : List (String × String) := []

abbrev M := StateM Tab

def intern (s : String) : M Nat := do
  let t ← get
  match t.strs.idxOf? s with
  | some i => pure i
  | none =>
    set { t with strs := t.strs ++ [s] }
    pure t.strs.length

def keyOf (s : String) : M KeyId :=
  if s.startsWith "K" then
    match (s.drop 1).toString.toNat? with
    | some n => pure n
    | none => (· + 100000) <$> intern ("k:" ++ s)
  else (· + 100000) <$> intern ("k:" ++ s)

def rcnOf (s : String) : M Rcn :=
  match s.toNat? with
  | some n => pure n
  | none => (· + 1000) <$> intern ("rcn:" ++ s)

def handleOf (s : String) : M Handle := intern ("h:" ++ s)

def lastSeg (uri : String) : String := (uri.splitOn "/").getLast?.getD ""

def stemOf (file : String) : String :=
  match file.splitOn "." with
  | [] => file
  | [x] => x
  | l => ".".intercalate l.dropLast

def hex8 (n : Nat) : String :=
  let ds := (Nat.toDigits 16 n).map Char.toUpper
  String.ofList (List.replicate (8 - ds.length) '0' ++ ds)

/-- `ROUTER-0000FC02-K7[.cer]` → `ROUTER-0000FC02` (one static router key in the harness). -/
def routerName (s : String) : String :=
  match s.splitOn "-" with
  | a :: b :: _ => a ++ "-" ++ b
  | _ => s

def rememberFile (key file : String) : M Unit :=
  modify fun t => { t with files := (key, file) :: t.files.filter (·.1 != key) }

def fileFor (key dflt : String) : M String := do
  let t ← get
  pure ((t.files.find? (·.1 == key)).map (·.2) |>.getD dflt)

/-- Published-object name → model name. -/
def onameOf (file : String) : M OName := do
  if file.startsWith "ROUTER-" then
    return .prod .bgpsec (← intern ("f:" ++ routerName file))
  else if file.endsWith ".cer" then
    return .cer (← keyOf (stemOf file))
  else if file.endsWith ".asa" then
    return .prod .aspa (← intern ("f:" ++ file))
  else
    return .prod .roa (← intern ("f:" ++ file))

/-! ## JSON → model values -/

def sortNat (l : List Nat) : List Nat := l.mergeSort (· ≤ ·)

def parseRes (j : Json) : ResSet × Bool :=
  match jatoms? j with
  | some a => (sortNat a, false)
  | none => ([], (jbool? (jget j "all")).getD false)

def parseCert (j : Json) : Cert :=
  let (res, all) := parseRes (jget j "resources")
  { res := res, all := all,
    na := (jint? (jpath j ["validity", "not_after"])).getD 0,
    slash := (jstr (jget j "ca_repository")).endsWith "/" }

def parseLimit (j : Json) : Limit :=
  match j with
  | .obj _ => if (jfields j).isEmpty then none else some ((jatoms? j).getD [])
  | _ => none

def parseChildCert (j : Json) : ChildCert :=
  { res := (parseRes (jget j "resources")).1, limit := parseLimit (jget j "limit"),
    na := (jint? (jpath j ["validity", "not_after"])).getD 0 }

/-- The subject key of an issued certificate: stem of its manifest URI (`…/<key>.mft`). -/
def childCertKey (j : Json) : M KeyId :=
  let m := stemOf (lastSeg (jstr (jget j "rpki_manifest")))
  if m.startsWith "K" then keyOf m else keyOf (stemOf (jstr (jget j "name")))

def parseCertKey (j : Json) : M CertKey := do
  let id ← keyOf (jstr (jget j "key_id"))
  pure { id := id, cert := parseCert (jget j "incoming_cert"), req := !(jisNull (jget j "request")) }

def parsePend (j : Json) : M PendKey := do
  let id ← keyOf (jstr (jget j "key_id"))
  pure { id := id, req := !(jisNull (jget j "request")) }

def parseKeyState (j : Json) : M (Option KeyState) := do
  let (v, p) := jvariant j
  match v, jarr p with
  | "pending", _ => return some (.pending (← parsePend p))
  | "active", _ => return some (.active (← parseCertKey p))
  | "roll_pending", [a, b] => return some (.rollPending (← parsePend a) (← parseCertKey b))
  | "roll_new", [a, b] => return some (.rollNew (← parseCertKey a) (← parseCertKey b))
  | "roll_old", [a, b] => return some (.rollOld (← parseCertKey a) (← parseCertKey (jget b "key")))
  | _, _ => return none

def parseCertList (j : Json) : M (List (KeyId × ChildCert)) :=
  (jarr j).mapM fun c => do pure (← childCertKey c, parseChildCert c)

def parseCertUpd (j : Json) : M CertUpd := do
  let removed ← (jarr (jget j "removed")).mapM fun k => keyOf (jstr k)
  pure { issued := ← parseCertList (jget j "issued"), removed := removed,
         suspended := ← parseCertList (jget j "suspended"),
         unsuspended := ← parseCertList (jget j "unsuspended") }

def payloadOf (j : Json) : M Nat := intern ("p:" ++ j.compress)

/-- A product entry `info` published at `info.uri`, remembered under the logical key. -/
def prodEntry (logical : String) (info : Json) (payload : Json) : M (Nat × Nat) := do
  let file := lastSeg (jstr (jget info "uri"))
  rememberFile logical file
  pure (← intern ("f:" ++ file), ← payloadOf payload)

def keyStr (j : Json) : String := match j with | .str s => s | other => other.compress

def parseRoaUpd (j : Json) : M ProdUpd := do
  let a1 ← (jfields (jget j "updated")).mapM fun (k, info) => prodEntry ("roa:" ++ k) info (jget info "authorizations")
  let a2 ← (jfields (jget j "aggregate_updated")).mapM fun (k, info) =>
    prodEntry ("agg:" ++ k) info (jget info "authorizations")
  let r1 ← (jarr (jget j "removed")).mapM fun k => do
    intern ("f:" ++ (← fileFor ("roa:" ++ keyStr k) ("?" ++ keyStr k)))
  let r2 ← (jarr (jget j "aggregate_removed")).mapM fun k => do
    intern ("f:" ++ (← fileFor ("agg:" ++ keyStr k) (keyStr k ++ ".roa")))
  pure { kind := .roa, added := a1 ++ a2, removed := r1 ++ r2 }

def parseAspaUpd (j : Json) : M ProdUpd := do
  let a ← (jarr (jget j "updated")).mapM fun info =>
    prodEntry ("aspa:" ++ (jpath info ["definition", "customer"]).compress) info (jget info "definition")
  let r ← (jarr (jget j "removed")).mapM fun k => do
    intern ("f:" ++ (← fileFor ("aspa:" ++ k.compress) ("AS" ++ k.compress ++ ".asa")))
  pure { kind := .aspa, added := a, removed := r }

def bgpName (j : Json) : String :=
  match j with
  | .str s => routerName s
  | other => "ROUTER-" ++ hex8 (jnat (jget other "asn"))

def parseBgpUpd (j : Json) : M ProdUpd := do
  let a ← (jarr (jget j "updated")).mapM fun info => do
    pure (← intern ("f:" ++ bgpName info), ← payloadOf (jget info "asn"))
  let r ← (jarr (jget j "removed")).mapM fun k => intern ("f:" ++ bgpName k)
  pure { kind := .bgpsec, added := a, removed := r }

def parseEv (j : Json) : M Ev := do
  let ty := jstr (jget j "type")
  let rcn ← rcnOf (jstr (jget j "resource_class_name"))
  let child ← handleOf (jstr (jget j "child"))
  match ty with
  | "resource_class_added" =>
    return .rcAdded rcn (← handleOf (jstr (jget j "parent")))
      (← rcnOf (jstr (jget j "parent_resource_class_name"))) (← keyOf (jstr (jget j "pending_key")))
  | "resource_class_removed" => return .rcRemoved rcn
  | "certificate_requested" => return .key rcn (.requested (← keyOf (jstr (jget j "ki"))))
  | "certificate_received" =>
    return .key rcn (.received (← keyOf (jstr (jget j "ki"))) (parseCert (jget j "rcvd_cert")))
  | "key_roll_pending_key_added" => return .key rcn (.pendingAdded (← keyOf (jstr (jget j "pending_key_id"))))
  | "key_pending_to_new" => return .key rcn (.pendingToNew (← parseCertKey (jget j "new_key")))
  | "key_pending_to_active" => return .key rcn (.pendingToActive (← parseCertKey (jget j "current_key")))
  | "key_roll_activated" => return .key rcn .activated
  | "key_roll_finished" => return .key rcn .finished
  | "unexpected_key_found" => return .key rcn (.unexpected (← keyOf (jstr (jpath j ["revoke_req", "key"]))))
  | "roas_updated" => return .products rcn (← parseRoaUpd (jget j "updates"))
  | "aspa_objects_updated" => return .products rcn (← parseAspaUpd (jget j "updates"))
  | "bgp_sec_certificates_updated" => return .products rcn (← parseBgpUpd (jget j "updates"))
  | "child_certificates_updated" => return .childCerts rcn (← parseCertUpd (jget j "updates"))
  | "child_added" => return .childAdded child (parseRes (jget j "resources")).1
  | "child_certificate_issued" => return .childCertIssued child rcn (← keyOf (jstr (jget j "ki")))
  | "child_key_revoked" => return .childKeyRevoked child rcn (← keyOf (jstr (jget j "ki")))
  | "child_updated_resources" => return .childUpdatedResources child (parseRes (jget j "resources")).1
  | "child_updated_id_cert" => return .childUpdatedId child
  | "child_updated_resource_class_name_mapping" =>
    return .childMapping child (← rcnOf (jstr (jget j "name_in_parent"))) (← rcnOf (jstr (jget j "name_for_child")))
  | "child_removed" => return .childRemoved child
  | "child_suspended" => return .childSuspended child
  | "child_unsuspended" => return .childUnsuspended child
  | "parent_added" => return .parentAdded (← handleOf (jstr (jget j "parent")))
  | "parent_removed" => return .parentRemoved (← handleOf (jstr (jget j "parent")))
  | "repo_updated" => return .repoUpdated
  | _ => return .other

/-! ## Observed state → model values -/

def parseProducts (rc : Json) : M (AMap (PKind × Nat) Nat) := do
  let roas := jget rc "roas"
  let simple ← (jfields (jget roas "simple")).mapM fun (_, info) => do
    pure ((PKind.roa, ← intern ("f:" ++ lastSeg (jstr (jget info "uri")))), ← payloadOf (jget info "authorizations"))
  let aggName := if (jget roas "aggregate").isNull then "aggregated" else "aggregate"
  let agg ← (jfields (jget roas aggName)).mapM fun (_, info) => do
    pure ((PKind.roa, ← intern ("f:" ++ lastSeg (jstr (jget info "uri")))), ← payloadOf (jget info "authorizations"))
  let aspas ← (jfields (jget rc "aspas")).mapM fun (_, info) => do
    pure ((PKind.aspa, ← intern ("f:" ++ lastSeg (jstr (jget info "uri")))), ← payloadOf (jget info "definition"))
  let bgp ← (jfields (jget rc "bgpsec_certificates")).mapM fun (k, info) => do
    pure ((PKind.bgpsec, ← intern ("f:" ++ routerName k)), ← payloadOf (jget info "asn"))
  pure (simple ++ agg ++ aspas ++ bgp)

def parseRc (j : Json) : M (Option Rc) := do
  match ← parseKeyState (jget j "key_state") with
  | none => return none
  | some ks =>
    let certs := jget j "certificates"
    let issued ← (jfields (jget certs "issued")).mapM fun (k, c) => do pure (← keyOf k, parseChildCert c)
    let susp ← (jfields (jget certs "suspended")).mapM fun (k, c) => do pure (← keyOf k, parseChildCert c)
    return some { parent := ← handleOf (jstr (jget j "parent_handle")),
                  parentRcn := ← rcnOf (jstr (jget j "parent_rc_name")),
                  keys := ks, certs := { issued := issued, suspended := susp },
                  products := ← parseProducts j }

def parseChild (j : Json) : M Child := do
  let used ← (jfields (jget j "used_keys")).mapM fun (k, v) => do
    let (tag, p) := jvariant v
    let st ← if tag == "revoked" then pure UsedKey.revoked else (UsedKey.inUse <$> rcnOf (jstr p))
    pure (← keyOf k, st)
  let map ← (jfields (jget j "rcn_map")).mapM fun (k, v) => do pure (← rcnOf k, ← rcnOf (jstr v))
  pure { active := jstr (jget j "state") != "suspended", res := (parseRes (jget j "resources")).1,
         usedKeys := used, rcnMap := map }

def parseCa (j : Json) : M Ca := do
  let classes ← (jfields (jget j "resources")).filterMapM fun (k, rc) => do
    match ← parseRc rc with
    | some r => pure (some (← rcnOf k, r))
    | none => pure none
  let children ← (jfields (jget j "children")).mapM fun (k, c) => do pure (← handleOf k, ← parseChild c)
  let parents ← (jkeys (jget j "parents")).mapM handleOf
  pure { classes := classes, children := children, parents := parents,
         nextClass := jnat (jget j "next_class_name"), hasRepo := !(jisNull (jget j "repository")) }

/-- `(hash, resources)` of the certificates the aggregate holds for a class. -/
def certHashes (rc : Json) : List (String × ResSet) :=
  let certs := jget rc "certificates"
  ((jfields (jget certs "issued")) ++ (jfields (jget certs "suspended"))).map fun (_, c) =>
    (jstr (jget c "hash"), (parseRes (jget c "resources")).1)

def parseObjSet (j : Json) (hashes : List (String × ResSet)) : M ObjSet := do
  let key ← keyOf (stemOf (jstr (jpath j ["manifest", "name"])))
  let pubs ← (jfields (jget j "published_objects")).mapM fun (name, o) => do
    let n ← onameOf name
    let v := match n with
      | .cer _ =>
        match hashes.find? (·.1 == jstr (jget o "hash")) with
        | some (_, res) => OVal.cert { res := res }
        | none => OVal.prod 999999   -- a published certificate the aggregate does not know
      | .prod .. => OVal.prod 0
    pure (n, v)
  pure { key := key, cert := parseCert (jget j "signing_cert"), published := pubs }

def parseObjs (j : Json) (ca : Json) : M Objs :=
  (jfields (jget j "classes")).filterMapM fun (k, c) => do
    let keys := jget c "keys"
    let hashes := certHashes (jpath ca ["resources", k])
    let cur ← parseObjSet (jget keys "current_set") hashes
    match jstr (jget keys "type") with
    | "current" => pure (some (← rcnOf k, ObjKeys.current cur))
    | "staging" => pure (some (← rcnOf k, ObjKeys.staging (← parseObjSet (jget keys "staging_set") hashes) cur))
    | "old" => pure (some (← rcnOf k, ObjKeys.old cur (← parseObjSet (jget keys "old_set") hashes)))
    | _ => pure none

/-! ## Normal forms for comparison -/

def sortKeys {V : Type} (m : List (Nat × V)) : List (Nat × V) := m.mergeSort (fun a b => a.1 ≤ b.1)

def pkNat : PKind → Nat
  | .roa => 0 | .aspa => 1 | .bgpsec => 2

def onameLe : OName → OName → Bool
  | .prod k i, .prod k' i' => pkNat k < pkNat k' || (pkNat k == pkNat k' && i ≤ i')
  | .prod .., .cer _ => true
  | .cer _, .prod .. => false
  | .cer a, .cer b => a ≤ b

def normCert (c : Cert) : Cert := { c with res := sortNat c.res }
def normCK (k : CertKey) : CertKey := { k with cert := normCert k.cert }

def normKs : KeyState → KeyState
  | .pending p => .pending p
  | .active c => .active (normCK c)
  | .rollPending p c => .rollPending p (normCK c)
  | .rollNew n c => .rollNew (normCK n) (normCK c)
  | .rollOld c o => .rollOld (normCK c) (normCK o)

def normCC (c : ChildCert) : ChildCert := { c with res := sortNat c.res, limit := c.limit.map sortNat }

def normCerts (l : List (KeyId × ChildCert)) : List (KeyId × ChildCert) :=
  sortKeys (l.map fun p => (p.1, normCC p.2))

def normRc (rc : Rc) : Rc :=
  { rc with keys := normKs rc.keys,
            certs := { issued := normCerts rc.certs.issued, suspended := normCerts rc.certs.suspended },
            products := rc.products.mergeSort fun a b =>
              pkNat a.1.1 < pkNat b.1.1 || (pkNat a.1.1 == pkNat b.1.1 && a.1.2 ≤ b.1.2) }

def normChild (c : Child) : Child :=
  { c with res := sortNat c.res, usedKeys := sortKeys c.usedKeys, rcnMap := sortKeys c.rcnMap }

def normCa (s : Ca) : Ca :=
  { s with classes := sortKeys (s.classes.map fun p => (p.1, normRc p.2)),
           children := sortKeys (s.children.map fun p => (p.1, normChild p.2)),
           parents := sortNat s.parents }

/-- Object sets compared on key, certificate and published *names*. -/
def normSet (o : ObjSet) (keepVals : Bool) : ObjSet :=
  { o with cert := normCert o.cert,
           published := (o.published.map fun p => (p.1, if keepVals then p.2 else OVal.prod 0)).mergeSort
             fun a b => onameLe a.1 b.1 }

def normOk (keep : Bool) : ObjKeys → ObjKeys
  | .current c => .current (normSet c keep)
  | .staging s c => .staging (normSet s keep) (normSet c keep)
  | .old c o => .old (normSet c keep) (normSet o keep)

def normObjs (o : Objs) : Objs := sortKeys (o.map fun p => (p.1, normOk false p.2))

/-- Events compared up to: class visiting order, order inside update lists, not-after of
certificates the command issues. -/
def normUpdCerts (l : List (KeyId × ChildCert)) : List (KeyId × ChildCert) :=
  sortKeys (l.map fun p => (p.1, { normCC p.2 with na := 0 }))

def normEv : Ev → Ev
  | .childCerts r u =>
    .childCerts r { issued := normUpdCerts u.issued, removed := sortNat u.removed,
                    suspended := normUpdCerts u.suspended, unsuspended := normUpdCerts u.unsuspended }
  | .products r u => .products r { u with added := sortKeys u.added, removed := sortNat u.removed }
  | .key r (.received k c) => .key r (.received k (normCert c))
  | .key r (.pendingToNew k) => .key r (.pendingToNew (normCK k))
  | .key r (.pendingToActive k) => .key r (.pendingToActive (normCK k))
  | .childAdded c res => .childAdded c (sortNat res)
  | .childUpdatedResources c res => .childUpdatedResources c (sortNat res)
  | e => e

def rcnKey (e : Ev) : Nat := match e.rcn? with | some r => r | none => 1000000000

/-- Event lists are compared as multisets per class: `HashMap` iteration (classes, `used_keys`
of a child, entries of `issued`) decides the order in which `process` pushes independent events;
what the order does to the state is checked by applying the observed events. -/
def normEvs (evs : List Ev) : List Ev :=
  ((evs.map normEv).map fun e => (rcnKey e, reprStr e, e)).mergeSort
    (fun a b => a.1 < b.1 || (a.1 == b.1 && a.2.1 ≤ b.2.1)) |>.map (·.2.2)

/-! ## Driver state -/

structure St where
  tab : Tab := {}
  /-- model state per CA handle -/
  model : List (String × Sys) := []
  /-- observed state per CA handle after the previous op (for the oracle) -/
  prev : List (String × Sys) := []
  /-- estimate of the implementation's clock (unix seconds) -/
  now : Int := 0
  /-- `(handle, key)` pairs that were at some point both issued and suspended in a class of the
  model state (the input class of F-C02-1) -/
  staleSeen : List (String × KeyId) := []
  /-- which property's predicates the oracle reports: "C02", "C04" or "" (all) -/
  mode : String := ""
  /-- CAs whose products were outside their certificate after the previous op -/
  prevBadProducts : List String := []

def lookupSys (l : List (String × Sys)) (h : String) : Sys := ((l.find? (·.1 == h)).map (·.2)).getD {}

def setSys (l : List (String × Sys)) (h : String) (s : Sys) : List (String × Sys) :=
  (h, s) :: l.filter (·.1 != h)

def short (s : String) (n : Nat := 400) : String := if s.length > n then (s.take n).toString ++ "…" else s

/-- Largest wall-clock reading in an observation (`last_key_change`). -/
def clockOf (cas : Json) : Int :=
  (jfields cas).foldl (fun acc (_, ca) =>
    (jfields (jget ca "resources")).foldl (fun acc (_, rc) =>
      max acc ((jint? (jget rc "last_key_change")).getD 0)) acc) 0

/-! ## Products against the certificate (observed state only) -/

def hexNat (s : String) : Nat :=
  s.foldl (fun acc c =>
    let d := if c.isDigit then c.toNat - '0'.toNat
      else if 'a' ≤ c && c ≤ 'f' then c.toNat - 'a'.toNat + 10
      else if 'A' ≤ c && c ≤ 'F' then c.toNat - 'A'.toNat + 10 else 0
    acc * 16 + d) 0

/-- Atom of a ROA authorization `10.I.J.0/L-M => A` / `2001:db8:I:J::/L-M => A` (the prefix). -/
def authAtom (a : String) : Option Nat :=
  if a.startsWith "10." then ((a.splitOn ".").getD 1 "").toNat?
  else if a.startsWith "2001:db8:" then some (hexNat ((a.splitOn ":").getD 2 ""))
  else none

/-- Atoms the signed products of a class need (ROA prefixes, ASPA customer, router ASN). -/
def productAtoms (rc : Json) : List Nat :=
  let roas := jget rc "roas"
  let aggName := if (jget roas "aggregate").isNull then "aggregated" else "aggregate"
  let auths := ((jfields (jget roas "simple")) ++ (jfields (jget roas aggName))).foldl
    (fun acc (_, info) => acc ++ (jarr (jget info "authorizations")).filterMap fun a => authAtom (jstr a)) []
  let aspas := (jfields (jget rc "aspas")).filterMap fun (_, info) =>
    (jnat? (jpath info ["definition", "customer"])).map (· - 64512)
  let bgp := (jfields (jget rc "bgpsec_certificates")).filterMap fun (_, info) =>
    (jnat? (jget info "asn")).map (· - 64512)
  auths ++ aspas ++ bgp

/-- Every product of every class lies inside the current key's certificate. -/
def productsWithinCert (ca : Json) : Bool :=
  (jfields (jget ca "resources")).all fun (_, rc) =>
    let (v, p) := jvariant (jget rc "key_state")
    let cur := match v, jarr p with
      | "active", _ => some p
      | "roll_pending", [_, c] => some c
      | "roll_new", [_, c] => some c
      | "roll_old", [c, _] => some c
      | _, _ => none
    match cur with
    | none => (productAtoms rc).isEmpty
    | some c =>
      let (res, all) := parseRes (jpath c ["incoming_cert", "resources"])
      all || (productAtoms rc).all (res.contains ·)

/-! ## Commands: translation, prediction -/

def _root_.KM.CaK.KVar.name : KVar → String
  | .pending => "pending" | .active => "active" | .rollPending => "rollPending"
  | .rollNew => "rollNew" | .rollOld => "rollOld"

/-- Entitlement of child `ch` in class `rcn` of parent state `p` (`entitlement_class`,
certauth.rs:986-1084): keys listed as issued and the candidate not-after values. -/
def parentView (p : Ca) (ch : Handle) (parentRcn : Rcn) : List KeyId × List Int :=
  match get p.children ch, get p.classes parentRcn with
  | some c, some rc =>
    let ks := (c.issuedKeys parentRcn).filter fun k => (get rc.certs.issued k).isSome
    (ks, ks.filterMap fun k => (get rc.certs.issued k).map (·.na))
  | _, _ => ([], [])

structure Pred where
  /-- acceptable event lists (normalised); empty list of alternatives = not predicted -/
  alts : List (Except Err (List Ev)) := []
  tag : String := ""

/-- The model's prediction for a stored command. -/
def predict (st : St) (hist : String → List Ca) (h : String) (s : Sys) (details : Json) (evs : List Ev)
    (isErr : Bool) : M Pred := do
  let ty := jstr (jget details "type")
  let ca := s.ca
  let one (c : Cmd) (tag : String) : Pred := { alts := [ca.process c], tag := tag }
  match ty with
  | "key_roll_initiate" =>
    let fresh := evs.filterMap fun e => match e with
      | .key r (.pendingAdded k) => some (r, k)
      | _ => none
    -- classes that do not roll need no key; give the others a dummy that is never used
    let fresh := fresh ++ (ca.classes.filterMap fun p =>
      if (get fresh p.1).isSome then none else some (p.1, 999999999))
    let vs := ca.classes.map fun p => p.2.keys.variant.name
    return one (.keyrollInit fresh) ("rollinit/" ++ "+".intercalate (vs.eraseDups))
  | "repo_update" =>
    let fresh := evs.filterMap fun e => match e with
      | .key r (.pendingAdded k) => some (r, k)
      | _ => none
    return one (.repoUpdate fresh) (if ca.hasRepo then "repoupdate/migrate" else "repoupdate/first")
  | "key_roll_activate" =>
    let vs := ca.classes.map fun p => p.2.keys.variant.name
    let stale := if ca.noStale then "" else "/stale"
    return one (.keyrollActivate 0) ("rollactivate/" ++ "+".intercalate (vs.eraseDups) ++ stale)
  | "key_roll_finish" =>
    return one (.keyrollFinish (← rcnOf (jstr (jget details "resource_class_name")))) "rollfinish"
  | "drop_resource_class" =>
    return one (.dropClass (← rcnOf (jstr (jget details "resource_class_name")))) "dropclass"
  | "update_rcvd_cert" =>
    let rcn ← rcnOf (jstr (jget details "resource_class_name"))
    let prods := evs.filterMap fun e => match e with
      | .products _ u => some u
      | _ => none
    let input := evs.findSome? fun e => match e with
      | .key _ (.received k c) => some (k, c)
      | .key _ (.pendingToNew k) => some (k.id, k.cert)
      | .key _ (.pendingToActive k) => some (k.id, k.cert)
      | _ => none
    match input with
    | none => return { tag := if isErr then "rcvd/refused" else "rcvd/?" }
    | some (ki, cert) =>
      let route := match get ca.classes rcn with
        | some rc => match rc.keys.route ki with
          | .ok .toActive => "toActive"
          | .ok .toNew => "toNew"
          | .ok .newCert => "newKeyCert"
          | .ok (.current c) =>
            if seteq cert.res c.cert.res then "current-same"
            else if subset cert.res c.cert.res then
              (if rc.certs.issued.any (fun p => !subset p.2.res cert.res) then "current-shrink-children" else "current-shrink")
            else "current-grow"
          | .error _ => "nomatch"
        | none => "noclass"
      return one (.updateRcvdCert rcn ki cert 0 prods) ("rcvd/" ++ route)
  | "update_resource_entitlements" =>
    let parentName := jstr (jget details "parent")
    let p ← handleOf parentName
    let me ← handleOf h
    let fresh := evs.filterMap fun e => match e with
      | .rcAdded _ _ _ k => some k
      | _ => none
    let isModelled := (st.model.find? (·.1 == parentName)).isSome
    -- the parent answered from one of the states it went through during this op
    let pcas := if isModelled then hist parentName else [{}]
    let entsJ := jarr (jget details "entitlements")
    let alts ← pcas.mapM fun pca => do
      let ents ← entsJ.mapM fun e => do
        let prcn ← rcnOf (jstr (jget e "resource_class_name"))
        let res := (parseRes (jget e "resources")).1
        -- the parent's own name for the class: the entitlement's name was produced from a class
        -- of the parent with `name_for_parent_rcn` (not the inverse of `parent_name_for_rcn` when
        -- a mapping names a class the parent does not have)
        let myRcn := match get pca.children me with
          | some c =>
            match pca.classes.find? (fun q => c.nameForChild q.1 == prcn) with
            | some q => q.1
            | none => c.nameInParent prcn
          | none => prcn
        let (listed, nas) := parentView pca me myRcn
        pure (prcn, res, listed, nas)
      -- one alternative per candidate not-after (the same for all classes), plus "equal to the
      -- certificate's own" (what the parent's white lie produces)
      let own : List Int := ca.classes.filterMap fun q => q.2.keys.current.map (·.cert.na)
      let cands : List Int := ((ents.map fun e => e.2.2.2).flatten ++ own ++ [st.now + 31449600]).eraseDups
      let mk (na : Int) : Cmd :=
        .updateEntitlements p (ents.map fun (prcn, res, listed, _) =>
          { rcn := prcn, res := res, na := na,
            issued := if isModelled then listed else
              -- parent not modelled (the TA): unexpected keys are taken from the observation
              evs.filterMap fun e => match e with
                | .key _ (.unexpected k) => some k
                | _ => none }) st.now fresh
      pure (cands.map fun na => ca.process (mk na))
    let nreq := (evs.filter fun e => match e with | .key _ (.requested _) => true | _ => false).length
    let tag := "ent/" ++ (if fresh.isEmpty then "" else "newclass+") ++
      (if evs.any (fun e => match e with | .rcRemoved _ => true | _ => false) then "rmclass+" else "") ++
      (if evs.any (fun e => match e with | .key _ (.unexpected _) => true | _ => false) then "unexpected+" else "") ++
      s!"req{nreq}"
    return { alts := alts.flatten, tag := tag }
  | "child_add" =>
    return one (.childAdd (← handleOf (jstr (jget details "child"))) (parseRes (jget details "resources")).1) "childadd"
  | "child_update_resources" =>
    return one (.childUpdateResources (← handleOf (jstr (jget details "child")))
      (parseRes (jget details "resources")).1) "childres"
  | "child_update_resource_class_name_mapping" =>
    let m := jget details "mapping"
    let m := if m.isNull then details else m
    let n := jstr (jget m "name_in_parent")
    if n == "" then return { tag := "childmap/?" }
    return one (.childMapping (← handleOf (jstr (jget details "child"))) (← rcnOf n)
      (← rcnOf (jstr (jget m "name_for_child")))) "childmap"
  | "child_certify" =>
    let ch ← handleOf (jstr (jget details "child"))
    let ki ← keyOf (jstr (jget details "ki"))
    let rcn ← rcnOf (jstr (jget details "resource_class_name"))
    let limit := parseLimit (jget details "limit")
    if limit.isSome then return { tag := "certify/limit" }
    let stale := match get ca.children ch with
      | some c => match get ca.classes (c.nameInParent rcn) with
        | some rc => (get rc.certs.suspended ki).isSome
        | none => false
      | none => false
    return one (.childCertify ch rcn ki none 0) (if stale then "certify/suspended-key" else "certify")
  | "child_revoke_key" =>
    let ch ← handleOf (jstr (jget details "child"))
    let rr := jget details "revoke_req"
    return one (.childRevokeKey ch (← rcnOf (jstr (jget rr "class_name"))) (← keyOf (jstr (jget rr "key")))) "revoke"
  | "child_remove" => return one (.childRemove (← handleOf (jstr (jget details "child")))) "childrm"
  | "child_suspend_inactive" => return one (.childSuspend (← handleOf (jstr (jget details "child")))) "suspend"
  | "child_unsuspend" =>
    return one (.childUnsuspend (← handleOf (jstr (jget details "child"))) (st.now + 86400) 0) "unsuspend"
  | "add_parent" => return one (.addParent (← handleOf (jstr (jget details "parent")))) "addparent"
  | "remove_parent" => return one (.removeParent (← handleOf (jstr (jget details "parent")))) "rmparent"
  | _ =>
    -- configuration changes and renewals: the product events must be for classes with a
    -- current key, anything else is outside the model
    let upds := evs.filterMap fun e => match e with
      | .products r u => some (r, u)
      | _ => none
    if upds.isEmpty then return { tag := "" }
    let want := ca.process (.config upds)
    let got : Except Err (List Ev) := .ok (upds.map fun u => Ev.products u.1 u.2)
    return { alts := [if want == got then .ok evs else want], tag := "config" }

def showAlt : Except Err (List Ev) → String
  | .ok evs => "ok " ++ short ((reprStr (normEvs evs)).replace "\n" " ")
  | .error e => "refused " ++ reprStr e

/-! ## Oracle on the implementation's observed states -/

/-- Keys of active children that are in use in an existing class but have no issued certificate there. -/
def missingCerts (s : Ca) : List KeyId :=
  s.children.foldl (fun acc ch =>
    if !ch.2.active then acc else
    acc ++ ch.2.usedKeys.filterMap fun uk =>
      match uk.2 with
      | .revoked => none
      | .inUse rcn =>
        match get s.classes rcn with
        | none => none
        | some rc => if (get rc.certs.issued uk.1).isSome then none else some uk.1) []

/-- Keys of published child certificates that over-claim or that the aggregate does not know. -/
def badPublished (s : Sys) : List KeyId :=
  s.objs.foldl (fun acc p =>
    acc ++ p.2.currentSet.published.filterMap fun q =>
      match q.1, q.2 with
      | .cer k, .cert cc => if subset cc.res p.2.currentSet.cert.res then none else some k
      | .cer k, .prod _ => some k
      | _, _ => none) []

def staleDetail (seen : List (String × KeyId)) (h : String) (ks : List KeyId) : String :=
  if !ks.isEmpty && ks.all (fun k => seen.contains (h, k)) then ":stale-suspended" else ""

/-- The F-C04-1 / F-C04-3 input class: a parent maps a child's class name to a class it does not
have. -/
def revokeMappedMissing (model : List (String × Sys)) : Bool :=
  model.any fun (_, ps) =>
    ps.ca.children.any fun (_, chd) => chd.rcnMap.any fun (n, _) => !(get ps.ca.classes n).isSome

/-! ### C02 convergence (`settle <child> <parent>`) -/

/-- A class under the parent whose new key waits for the operator's `KeyRollActivate` (`RollNew`,
nothing to send) is judged on its current key: `settle` runs syncs, no activation. -/
def settleView (s : Sys) (ph : Handle) : Sys :=
  { s with ca := { s.ca with classes := s.ca.classes.map fun q =>
      match q.2.keys with
      | .rollNew _ c => if q.2.parent = ph then (q.1, { q.2 with keys := .active c }) else q
      | _ => q } }

/-- Which recorded class of non-convergence a pair that is NOT `Pair.converged` belongs to
(`""`: none of them). -/
def settleClass (x : Pair) : String :=
  let ents := x.parent.ca.entitlementsFor x.ch 0
  let names := ents.map (·.rcn)
  let mine := x.child.ca.classes.filter fun q => q.2.parent = x.ph
  if names.eraseDups.length != names.length then "/duplicate-class-name"
  else if mine.any (fun q => match q.2.keys.revokeRequest with
      | some k => match get x.parent.ca.children x.ch with
        | some c => (get c.usedKeys k).isNone
        | none => false
      | none => false) then "/revoke-refused-unknown-key"
  else if mine.any (fun q => q.2.keys.certRequests.any fun k =>
      match x.parent.ca.process (.childCertify x.ch q.2.parentRcn k none 0) with
      | .error _ => true
      | .ok _ => false) then "/request-for-lost-class"
  else if mine.any (fun q => match q.2.keys with
      | .active k =>
        !k.req && ents.any fun e => e.rcn == q.2.parentRcn && seteq k.cert.res e.res &&
          (match x.parent.ca.issuedFor x.ch e.rcn k.id with
            | some cc => !seteq cc.res e.res
            | none => true)
      | _ => false) then "/cert-on-file-differs"
  else ""

/-- The pair (parent `p`, child `h`) of observed states, if `p` is a CA that has `h` as a child
and `h` has `p` as a parent. -/
def settlePair (tab : Tab) (post : List (String × Sys)) (h p : String) : Option Pair :=
  match tab.strs.idxOf? ("h:" ++ h), tab.strs.idxOf? ("h:" ++ p) with
  | some hid, some pid =>
    match post.find? (·.1 == p), post.find? (·.1 == h) with
    | some (_, ps), some (_, cs) =>
      if (get ps.ca.children hid).isSome && cs.ca.parents.contains pid
      then some ⟨ps, settleView cs pid, hid, pid⟩ else none
    | _, _ => none
  | _, _ => none

def oracle (st : St) (op : List String) (ret : String) (cmds : List Json)
    (pre post : List (String × Sys)) : List String :=
  let c02 := st.mode != "C04"
  let c04 := st.mode != "C02"
  let seen := st.staleSeen
  -- state predicates are reported when they start to fail
  let newly (h : String) (f : Sys → Bool) (s : Sys) : Bool :=
    !f s && (match pre.find? (·.1 == h) with | some (_, p) => f p | none => true)
  let perCa := post.foldl (fun acc (h, s) =>
    acc ++
    (if c04 && newly h (·.singleSigner) s then [s!"SingleSigner@{h}"] else []) ++
    (if c04 && newly h (·.mirrorOk) s then [s!"NoKeyWithoutCert@{h}"] else []) ++
    (if c02 && newly h (·.ca.noOverclaim) s then [s!"NoOverclaim@{h}"] else []) ++
    (if c02 && newly h (fun x => (badPublished x).isEmpty) s then
      [s!"NoOverclaimPublished{staleDetail seen h (badPublished s)}@{h}"] else []) ++
    (if c02 && newly h (·.ca.activeChildHasCert) s then
      [s!"ActiveChildHasCert{staleDetail seen h (missingCerts s.ca)}@{h}"] else [])) []
  let panic :=
    if c04 && ret.startsWith "PANIC" then
      ["Panic" ++ (if revokeMappedMissing st.model then ":revoke-mapped-missing-class" else "")]
    else []
  -- a sync that stores a command although the CA's state does not change
  let syncIdem := match op with
    | ["sync", h, _] =>
      let mine := cmds.filter fun c => jstr (jget c "entity") == "cas:" ++ h && jstr (jget c "result") == "success"
      if c02 && ret.startsWith "ok" && !mine.isEmpty &&
          normCa (lookupSys pre h).ca == normCa (lookupSys post h).ca then
        let unexpected := mine.all fun c => (jarr (jget c "events")).all fun e => jstr (jget e "type") == "unexpected_key_found"
        [s!"SyncIdempotent" ++ (if unexpected then ":unexpected-key-loop" else "") ++
          (if unexpected && revokeMappedMissing post then ":mapping-to-missing-class" else "") ++ s!"@{h}"]
      else []
    | _ => []
  -- per command of a CA: activation keeps all products; a finished roll removes the old key at the parent
  let perCmd := if !c04 then [] else cmds.foldl (fun acc c =>
    let ent := jstr (jget c "entity")
    if !ent.startsWith "cas:" then acc else
    let h := (ent.drop 4).toString
    let types := (jarr (jget c "events")).map fun e => jstr (jget e "type")
    let nCmds := (cmds.filter fun d => jstr (jget d "entity") == ent).length
    let a1 :=
      if types.contains "key_roll_activated" && nCmds == 1 then
        let preS := lookupSys pre h
        let postS := lookupSys post h
        let lost : List OName := preS.objs.foldl (fun acc (rcn, ok) =>
          match ok, get postS.objs rcn with
          | .staging _ c, some (.old c' _) =>
            acc ++ (keys c.published).filter (fun n => !(keys c'.published).contains n) ++
              (keys c'.published).filter (fun n => !(keys c.published).contains n)
          | _, _ => acc) []
        if lost.isEmpty then [] else
          let ks := lost.filterMap fun n => match n with | .cer k => some k | _ => none
          [s!"NoLossNoDup" ++ (if ks.length == lost.length then staleDetail seen h ks else "") ++ s!"@{h}"]
      else []
    let a2 :=
      if types.contains "key_roll_finished" then
        let preS := lookupSys pre h
        let postS := lookupSys post h
        preS.ca.classes.foldl (fun acc (_, rc) =>
          match rc.keys with
          | .rollOld _ o =>
            if postS.ca.classes.any (fun (_, r) => r.keys.keyIds.contains o.id) then acc
            else
              -- the old key is gone here: no CA of the system may still hold a certificate for it
              post.foldl (fun acc (ph, ps) =>
                if ps.ca.classes.any (fun (_, prc) =>
                    (get prc.certs.issued o.id).isSome || (get prc.certs.suspended o.id).isSome) then
                  let mapped := ps.ca.children.any fun (_, chd) => !chd.rcnMap.isEmpty
                  let missing := ps.ca.children.any fun (_, chd) =>
                    chd.rcnMap.any fun (n, _) => !(get ps.ca.classes n).isSome
                  acc ++ [s!"OldKeyGoneAtParent" ++
                    (if missing then ":mapping-to-missing-class" else if mapped then ":mapped-class" else "") ++ s!"@{ph}"]
                else acc) acc
          | _ => acc) []
      else []
    acc ++ a1 ++ a2) []
  -- `settle <child> <parent>` (after 4 rounds of sync + pump, this op = one further sync): the pair is
  -- converged in the sense of `Pair.converged` (the predicate of `exchange_converges*`), and the
  -- further sync stored no command on either side
  let settle := match op with
    | ["settle", h, p] =>
      if !c02 then [] else
      match settlePair st.tab post h p with
      | none => []
      | some x =>
        let conv := x.converged 0
        let stored := cmds.any fun c => jstr (jget c "entity") == "cas:" ++ h || jstr (jget c "entity") == "cas:" ++ p
        let cls := if conv then "" else settleClass x
        (if conv then [] else [s!"SyncConverges{cls}@{h}"]) ++
        (if stored then [s!"SyncIdempotent{if conv then "/settle" else cls}@{h}"] else [])
    | _ => []
  -- `sync <child> <parent>` (a parent in the same krill: request and reply in this op): once the parent has the old key
  -- of a class as REVOKED, the child's roll of that class is finished - the confirmation ends the old-key phase of the
  -- class it was given for, whatever that class is called on either side (C04 "always completes")
  let rollDone := match op with
    | ["sync", h, p] =>
      if !c04 then [] else
      match st.tab.strs.idxOf? ("h:" ++ h), st.tab.strs.idxOf? ("h:" ++ p), post.find? (·.1 == h), post.find? (·.1 == p) with
      | some hid, some pid, some (_, s), some (_, ps) =>
        s.ca.classes.foldl (fun acc (_, rc) =>
          match rc.keys with
          | .rollOld _ o =>
            let revokedAtParent : Bool := match AMap.get ps.ca.children hid with
              | some ch => AMap.get ch.usedKeys o.id == some UsedKey.revoked
              | none => false
            if rc.parent == pid && revokedAtParent then
              acc ++ [s!"RollCompletes/revocation-confirmed-roll-not-finished@{h}"] else acc
          | _ => acc) []
      | _, _, _, _ => []
    | _ => []
  perCa ++ panic ++ syncIdem ++ perCmd ++ settle ++ rollDone

/-! ## One step -/

def diffCa (h : String) (m o : Ca) : Option String :=
  let m := normCa m
  let o := normCa o
  if m == o then none
  else
    -- first differing part
    let part :=
      if m.classes != o.classes then
        let d := (m.classes.zip o.classes).find? (fun (a, b) => a != b)
        match d with
        | some (a, b) => s!"class {a.1}: model {short (reprStr a.2) 700} observed {short (reprStr b.2) 700}"
        | none => s!"classes: model {short (reprStr (m.classes.map (·.1)))} observed {short (reprStr (o.classes.map (·.1)))}"
      else if m.children != o.children then
        s!"children: model {short (reprStr m.children) 500} observed {short (reprStr o.children) 500}"
      else s!"parents/next/repo: model {reprStr m.parents} {m.nextClass} {m.hasRepo} observed {reprStr o.parents} {o.nextClass} {o.hasRepo}"
    some (s!"state {h} " ++ part.replace "\n" " ")

def diffObjs (h : String) (m o : Objs) : Option String :=
  let m := normObjs m
  let o := normObjs o
  if m == o then none
  else some (s!"objects {h}: model {short (reprStr m) 700} observed {short (reprStr o) 700}".replace "\n" " ")

/-- A stored command of a CA with the model states around it. -/
structure Item where
  h : String
  cmd : Json
  evs : List Ev
  before : Sys
  applyFail : Option String

def step (st : St) (op : List String) (obs : Json) : St × String :=
  let ret := jstr (jget obs "ret")
  let cmds := jarr (jget obs "cmds")
  let casJ := jget obs "cas"
  let objsJ := jget obs "objects"
  let fullObs := !casJ.isNull
  let start := st.model
  -- 1. apply the observed events of every command, in (entity, version) order
  let (st, items) : St × List Item := cmds.foldl (fun (st, items) c =>
    let ent := jstr (jget c "entity")
    if !ent.startsWith "cas:" then (st, items) else
    let h := (ent.drop 4).toString
    if jstr (jget c "result") == "init" then ({ st with model := setSys st.model h {} }, items) else
    let s := lookupSys st.model h
    let (evs, tab) := ((jarr (jget c "events")).mapM parseEv).run st.tab
    let ty := jstr (jpath c ["details", "type"])
    let (s', applyFail) :=
      match s.ca.applyAll evs with
      | none => (s, some s!"{h} {ty}: model apply panics on the observed events")
      | some ca' =>
        match s.objs.stepAll evs with
        | .error e => (⟨ca', s.objs⟩, some s!"{h} {ty}: model listener refuses the observed events ({reprStr e})")
        | .ok o' => (⟨ca', o'⟩, none)
    let stale := s'.ca.classes.foldl (fun acc (_, rc) =>
      acc ++ (keys rc.certs.issued).filterMap fun k =>
        if (get rc.certs.suspended k).isSome && !(st.staleSeen.contains (h, k)) then some (h, k) else none) []
    ({ st with tab := tab, model := setSys st.model h s', staleSeen := st.staleSeen ++ stale },
      items ++ [{ h := h, cmd := c, evs := evs, before := s, applyFail := applyFail }])) (st, [])
  -- states a CA went through during this op
  let hist (h : String) : List Ca :=
    (lookupSys start h).ca :: (items.filter (·.h == h)).map (·.before.ca) ++ [(lookupSys st.model h).ca]
  -- 2. predictions
  let (st, fails, tags) : St × List String × List String := items.foldl (fun (st, fails, tags) it =>
    let isErr := jstr (jget it.cmd "result") == "error"
    let ty := jstr (jpath it.cmd ["details", "type"])
    let (pred, tab) := (predict st hist it.h it.before (jget it.cmd "details") it.evs isErr).run st.tab
    let observedAlt : Except Err (List Ev) := .ok it.evs
    let predFail :=
      if pred.alts.isEmpty then none
      else if isErr then
        if pred.alts.any (fun a => match a with | .error _ => true | .ok _ => false) then none
        else some s!"{it.h} {ty}: implementation refused, model predicts {showAlt (pred.alts.headD (.ok []))}"
      else if pred.alts.any (fun a => match a with
          | .ok p => normEvs p == normEvs it.evs
          | .error _ => false) then none
      else some s!"{it.h} {ty}: predicted {showAlt (pred.alts.headD (.ok []))} observed {showAlt observedAlt}"
    let tag := if pred.tag == "" then "" else if isErr then pred.tag ++ "/refused" else pred.tag
    ({ st with tab := tab }, fails ++ predFail.toList ++ it.applyFail.toList,
      if tag == "" || tags.contains tag then tags else tags ++ [tag])) (st, [], [])
  let okLine := s!"ok {op.headD ""}:{"+".intercalate tags}"
  if !fullObs then
    -- a caught panic (the harness answers without states once a store lock is poisoned): the
    -- first one of a case is the violation, the poisoned-lock echoes after it are not
    if st.mode != "C02" && ret.startsWith "PANIC" && !ret.startsWith "PANIC:poisoned" then
      (st, "FAIL oracle Panic" ++ (if revokeMappedMissing st.model then ":revoke-mapped-missing-class" else ""))
    else
    (st, if fails.isEmpty then okLine else "FAIL model " ++ short ("; ".intercalate fails) 1500)
  else
  -- 3. observed states
  let (post, tab) : List (String × Sys) × Tab := ((jfields casJ).mapM fun (h, ca) => do
    let c ← parseCa ca
    let o ← parseObjs (jget objsJ h) ca
    pure (h, Sys.mk c o)).run st.tab
  let st := { st with tab := tab }
  -- CAs that disappeared are dropped from the model
  let st := { st with model := st.model.filter fun (h, _) => post.any fun q => q.1 == h }
  let stateFails := post.foldl (fun acc (h, o) =>
    let m := lookupSys st.model h
    acc ++ (diffCa h m.ca o.ca).toList ++ (diffObjs h m.objs o.objs).toList) []
  let badProducts := (jfields casJ).filterMap fun (h, ca) => if productsWithinCert ca then none else some h
  let activated := cmds.any fun c => (jarr (jget c "events")).any fun e => jstr (jget e "type") == "key_roll_activated"
  let prodOrc := if st.mode == "C02" then [] else
    (badProducts.filter fun h => !st.prevBadProducts.contains h).map fun h =>
      "ProductsWithinCert" ++ (if activated then ":at-activation" else "") ++ s!"@{h}"
  let orc := oracle st op ret cmds st.prev post ++ prodOrc
  let fails := fails ++ stateFails
  let st' := { st with prev := post, now := max st.now (clockOf casJ), prevBadProducts := badProducts }
  -- after a disagreement the model continues from the observed state: one report per cause
  let st' := if fails.isEmpty then st' else { st' with model := post }
  if !orc.isEmpty then
    (st', "FAIL oracle " ++ " ".intercalate orc ++ (if fails.isEmpty then "" else " MODEL " ++ short ("; ".intercalate fails) 600))
  else if !fails.isEmpty then
    (st', "FAIL model " ++ short ("; ".intercalate fails) 1500)
  else
    (st', okLine)

def main (mode : String := "") : IO Unit := do
  let stdin ← IO.getStdin
  jloop stdin ({ mode := mode } : St) step { mode := mode }

end KM.Drv.SysKeys
