/-
Driver stream `rptree`: the Lean relying-party model (`Sys/Rp.lean`: `TreeValid`, `treeVrps`,
`treeAspas`, `treeRouterKeys` – the functions the theorems of `Props/C01.lean` are about) executed
on the REAL repository content of every observation of the `system` harness stream, and compared
with an independent implementation that uses real cryptography (the harness's top-down walk with
rpki-rs primitives, `harness/src/rp.rs`).

Input: the `rp.abstract` value of a trace line (`rp.rs::abstract_export`): what the repository
contains – the TA certificate, per directory the files `name → hash`, a catalog `hash → decoded
object` – independent of the walk's verdicts.  Lines without it are skipped.

How the model's inputs are built (everything else is the model, verbatim):

* `Catalog`: the exported objects.  Times: the walk accepts `now ≤ notAfter` / `now ≤ nextUpdate`
  where the model has half-open windows `now < …`, so `notAfter`, `nextUpdate` are the exported
  value + 1.  A manifest is current when its `thisUpdate/nextUpdate` AND its EE certificate's
  validity contain `now`: the model's manifest window is the intersection.
* `Repo` (publication-point key ↦ files): for every certificate reachable from the TA through CA
  certificates found in the directories (no validity involved, fuel = number of certificates), the
  files of its directory `pp` as seen by that certificate, `Rp.filesFor` (`Sys/RpShared.lean`): all
  keys of a krill resource class publish into one directory; files claimed only by a sibling
  certificate's manifest are not this certificate's business.  With one manifest in the directory
  this is the directory as it is (`filesFor_nil`).
* fuel = number of certificates + 1, `now` = the walk's clock.

Comparison with the walk's report on the same line (`FAIL model rptree …` on a difference):

* Problem kinds the abstraction sees (*inside*): decode-error, bad-signature, bad-issuer (key
  identifier mismatch), expired, revoked (not of a manifest's EE certificate), overclaim,
  hash-mismatch, missing, no-manifest, stale-manifest, stale-crl, crl-missing, multiple-crls,
  unknown-object, loop, unlisted.  Any of them ⇒ the model's `TreeValid` must be false
  (`invalid-agreed`).
* Kinds *outside the abstraction* (DER/profile strictness, URIs, things the model's records do not
  carry): invalid-object, not-yet-valid, crldp-mismatch, sia-mismatch, aia-mismatch,
  mft-outside-repo, mft-ee-validity-mismatch, mft-ee-not-inherit, duplicate-entry,
  duplicate-serial, duplicate-ca, too-many-asns, panic, bad-issuer for another reason than the key
  identifier, revoked manifest EE certificate, any problem with the TA certificate itself; and what
  the export names in `outside` (inherited resources, router certificate with ≠ 1 ASN) or resources
  that are not whole atoms (`rest`; `Res` is `.all | .atoms`).  A line with only such problems is
  compared in one direction only: nothing is required of the model (`outside-abstraction`).
* `unlisted-subdir` (files in a directory no accepted certificate points at, below an accepted
  one's URI prefix) is not a notion of the model (a publication point is one directory): ignored.
* No problem at all ⇒ `TreeValid` must be true, and the three payload walks must equal the
  report's `vrps` / `aspas` / `router_keys` as sets (`valid-agreed`).

Oracle (`FAIL oracle RpModel…Exact`): on quiescent lines (no due task, no outstanding repository
sync, every CA holds the certificate its parent currently issues) where the tree is valid, the
model's walks must be exactly – `PayloadsExact` – the configured authorisations covered by the
configuring CA's current certificate, computed from the configuration on the same line
(`SysObj.expectVrps`).
-/
import KrillModel.Drivers.SysObjOracle
import KrillModel.Sys.Rp
import KrillModel.Sys.RpShared
namespace KM.Drv.RpTree
open Lean KM.Drv KM.Ca.Pub KM.Drv.SysObj

abbrev RCert := KM.Sys.Rp.Cert
abbrev RObj := KM.Sys.Rp.Obj
abbrev RFiles := KM.Sys.Rp.Files

/-- Does a resource value carry something that is not whole atoms? -/
def hasRest (j : Json) : Bool := !(jisNull (jget j "rest"))

def parseCert (j : Json) : RCert :=
  { issuer := jtok (jget j "issuer_key"), subject := jtok (jget j "subject_key")
    resources := parseRes (jget j "resources"), notAfter := jnat (jget j "not_after") + 1
    serial := jtok (jget j "serial"), mftName := jtok (jget j "mft_name"), crlName := jtok (jget j "crl_name") }

def parsePairs (j : Json) : List (Nat × Nat) :=
  (jarr j).map fun e => match jarr e with
    | [n, h] => (jtok n, jtok h)
    | _ => (0, 0)

def parsePayloads (j : Json) : List Payload :=
  (jarr j).filterMap fun v => match jarr v with
    | [a, p, m] => parsePayload s!"{jstr p}-{jnat m} => {jnat a}"
    | _ => none

def parseObj (j : Json) : Option RObj :=
  let signed (c : KM.Sys.Rp.Content) : RObj :=
    .signed ⟨jtok (jget j "issuer_key"), jtok (jget j "serial"), jnat (jget j "not_after") + 1, c⟩
  match jstr (jget j "t") with
  | "cert" => some (.cert (parseCert j))
  | "mft" => some (.mft
      { key := jtok (jget j "issuer_key"), number := (jstr (jget j "number")).toNat?.getD 0
        thisUpdate := max (jnat (jget j "this_update")) (jnat (jget j "not_before"))
        nextUpdate := min (jnat (jget j "next_update")) (jnat (jget j "not_after")) + 1
        entries := parsePairs (jget j "entries") })
  | "crl" => some (.crl
      { key := jtok (jget j "issuer_key"), number := (jstr (jget j "number")).toNat?.getD 0
        thisUpdate := jnat (jget j "this_update"), nextUpdate := jnat (jget j "next_update") + 1
        revoked := (jarr (jget j "revoked")).map jtok })
  | "roa" => some (signed (.roa (parsePayloads (jget j "payloads"))))
  | "aspa" => some (signed (.aspa ⟨jnat (jget j "customer"), (jarr (jget j "providers")).map jnat⟩))
  | "router" => some (signed (.router ⟨jnat (jget j "asn"), jtok (jget j "router_key")⟩))
  | _ => none

structure Abs where
  now : Nat
  ta : RCert
  taPp : String
  dirs : List (String × RFiles)
  cat : List (Nat × RObj)
  /-- publication point of every CA certificate in the catalog -/
  pps : List (RCert × String)
  outside : List String

def parseAbs (a : Json) : Abs :=
  let catJ : List (Nat × Json) := (jarr (jget a "cat")).filterMap fun e => match jarr e with
    | [h, o] => some (jtok h, o)
    | _ => none
  let certJs := catJ.filter fun (_, o) => jstr (jget o "t") == "cert"
  let rest := (hasRest (jpath a ["ta", "resources"])) || certJs.any fun (_, o) => hasRest (jget o "resources")
  { now := jnat (jget a "now"), ta := parseCert (jget a "ta"), taPp := jstr (jpath a ["ta", "pp"])
    dirs := (jarr (jget a "dirs")).map fun d => match jarr d with
      | [n, fs] => (jstr n, parsePairs fs)
      | _ => ("", [])
    cat := catJ.filterMap fun (h, o) => (parseObj o).map fun x => (h, x)
    pps := certJs.map fun (_, o) => (parseCert o, jstr (jget o "pp"))
    outside := ((jarr (jget a "outside")).map jstr) ++ (if rest then ["non-atom-resources"] else []) }

def Abs.catalog (a : Abs) : KM.Sys.Rp.Catalog := fun h => get? a.cat h

def Abs.dir (a : Abs) (pp : String) : RFiles := ((a.dirs.find? (·.1 == pp)).map (·.2)).getD []

def Abs.ppOf (a : Abs) (c : RCert) : String :=
  if c == a.ta then a.taPp else ((a.pps.find? (·.1 == c)).map (·.2)).getD ""

/-- Certificates reachable from the TA through CA certificates present in the directories
(structure only, no validity). -/
def Abs.reachable (a : Abs) : List RCert :=
  let step (l : List RCert) : List RCert :=
    l.foldl (fun acc c =>
      (KM.Sys.Rp.childCerts a.catalog (a.dir (a.ppOf c)) c).foldl
        (fun acc k => if acc.contains k then acc else acc ++ [k]) acc) l
  (List.range (a.pps.length + 1)).foldl (fun l _ => step l) [a.ta]

/-- The model's repository: per reachable certificate (by subject key, the first one wins) the
files of its directory as seen by it. -/
def Abs.repo (a : Abs) : KM.Sys.Rp.Repo :=
  let r := a.reachable
  r.foldl (fun acc c =>
    if acc.any (·.1 == c.subject) then acc else
    let pp := a.ppOf c
    let sibs := r.filter fun k => k.subject != c.subject && a.ppOf k == pp
    acc ++ [(c.subject, KM.Sys.Rp.filesFor a.catalog (a.dir pp) c sibs)]) []

/-! ### The report's side -/

def insideKinds : List String :=
  ["decode-error", "bad-signature", "bad-issuer", "expired", "revoked", "overclaim", "hash-mismatch", "missing",
   "no-manifest", "stale-manifest", "stale-crl", "crl-missing", "multiple-crls", "unknown-object", "loop", "unlisted"]

def contains (s sub : String) : Bool := (s.splitOn sub).length > 1

/-- `some true`: inside the abstraction, `some false`: outside, `none`: ignored. -/
def classify (p : Json) : Option Bool :=
  let kind := jstr (jget p "kind")
  let uri := jstr (jget p "uri")
  let detail := jstr (jget p "detail")
  if kind == "unlisted-subdir" then none
  else if !(uri.contains '/') then some false                       -- the TA certificate itself
  else if kind == "revoked" && uri.endsWith ".mft" then some false  -- manifest EE certificate on the CRL
  else if kind == "bad-issuer" then some (contains detail "Key Identifier" || contains detail "AKI")
  else some (insideKinds.contains kind)

def sameSet {α} [BEq α] (a b : List α) : Bool := a.all b.contains && b.all a.contains

def showRk (l : List (Nat × String)) : String := " ".intercalate (l.map fun (a, k) => s!"{a}/{k}")

/-- The configuration-side gating of the oracle, as `SysObj.rpPreds` has it. -/
def settled (obs : Json) : Bool :=
  ((jbool? (jpath obs ["rp", "quiescent"])).getD false) &&
  !((handlesOf obs "server").any fun h => syncPending obs h) && (laggingCas obs).isEmpty

def step (_ : Unit) (_ws : List String) (obs : Json) : Unit × String :=
  let rp := jget obs "rp"
  let aj := jget rp "abstract"
  if jisNull aj || jisNull (jget aj "ta") then ((), "ok rptree:skip") else
  let a := parseAbs aj
  let cat := a.catalog
  let repo := a.repo
  let fuel := a.pps.length + 2
  let valid := KM.Sys.Rp.TreeValid cat repo a.now fuel a.ta
  let probs := (jarr (jget rp "problems")).filterMap fun p => (classify p).map fun c => (c, jstr (jget p "kind"))
  let pin := (probs.filter (·.1)).map (·.2)
  let pout := ((probs.filter (!·.1)).map (·.2)) ++ a.outside
  let dd (l : List String) : List String := l.foldl (fun acc x => if acc.contains x then acc else acc ++ [x]) []
  if !pin.isEmpty then
    if !valid then ((), "ok rptree:invalid-agreed")
    else ((), s!"FAIL model rptree valid-but-report-has {",".intercalate (dd pin)}")
  else if !pout.isEmpty then ((), s!"ok rptree:outside-abstraction")
  else if !valid then
    let bad := a.reachable.filter fun c =>
      !(KM.Sys.Rp.PointValid cat (KM.Sys.Rp.filesOf repo c.subject) c a.now)
    ((), s!"FAIL model rptree invalid-but-report-clean points={",".intercalate (bad.map fun c => dec c.subject)}")
  else
  -- both accept the tree: what is extracted must be the same
  let vr := KM.Sys.Rp.treeVrps cat repo fuel a.ta
  let asp := KM.Sys.Rp.treeAspas cat repo fuel a.ta
  let rk := (KM.Sys.Rp.treeRouterKeys cat repo fuel a.ta).map fun k => (k.asn, dec k.key)
  let gotV := rpVrps rp
  let gotA := (jarr (jget rp "aspas")).map fun x => match jarr x with
    | [c, ps] => (⟨jnat c, (jarr ps).map jnat⟩ : AspaDefn)
    | _ => ⟨0, []⟩
  let gotK := (jarr (jget rp "router_keys")).map fun x => match jarr x with
    | [c, k] => (jnat c, jstr k)
    | _ => (0, "")
  let d1 := if KM.Sys.Rp.PayloadsExact vr gotV then [] else [s!"vrps model={showPs vr} walk={showPs gotV}"]
  let d2 := if sameMembers asp gotA then [] else ["aspas"]
  let d3 := if sameSet rk gotK then [] else [s!"router_keys model={showRk rk} walk={showRk gotK}"]
  if !(d1 ++ d2 ++ d3).isEmpty then ((), s!"FAIL model rptree {" ;; ".intercalate (d1 ++ d2 ++ d3)}") else
  if !(settled obs) then ((), "ok rptree:valid-agreed") else
  -- the specification: configured ∩ covered by the configuring CA's current certificate
  let taObjs : List (String × List (Nat × ClassO)) :=
    match parseTaSet (jpath obs ["ta_proxy", "signer", "objects"]) with
    | some s => [("ta", [(enc "ta", { kind := "current", cur := s })])]
    | none => []
  let objs := ((handlesOf obs "objects").map fun h => (h, parseCaObjects (jpath obs ["objects", h]))) ++ taObjs
  let (wantV, wantA, wantK) := expectVrps obs objs
  let o1 := if KM.Sys.Rp.PayloadsExact vr wantV then [] else ["RpModelPayloadsExact"]
  let o2 := if mergeAspas asp == mergeAspas wantA then [] else ["RpModelAspasExact"]
  let o3 := if sameSet rk wantK then [] else ["RpModelRouterKeysExact"]
  if (o1 ++ o2 ++ o3).isEmpty then ((), "ok rptree:valid-agreed+exact")
  else ((), s!"FAIL oracle {" ".intercalate (o1 ++ o2 ++ o3)}")

def main : IO Unit := do
  let stdin ← IO.getStdin
  jloop stdin () step ()

end KM.Drv.RpTree
