/- `sysobjects` driver, part C: executable forms of the C01/C03/C14 predicates evaluated on the
implementation's own observations (oracle). Returns names of failed predicates. -/
import KrillModel.Drivers.SysObjProj
namespace KM.Drv.SysObj
open Lean KM.Drv KM.Ca.Pub

/-- Current key of a resource class (`KeyState` serialisation). -/
def currentKeyJ (rc : Json) : Option Json :=
  let (v, p) := jvariant (jget rc "key_state")
  match v with
  | "active" => some p
  | "roll_pending" | "roll_new" => (jarr p)[1]?
  | "roll_old" => (jarr p)[0]?
  | _ => none

/-- Every key of a resource class that holds a certificate of the parent (`KeyState` serialisation): the current key
and the new or old key of a roll in progress; a pending key has none. -/
def certifiedKeysJ (rc : Json) : List String :=
  let (v, p) := jvariant (jget rc "key_state")
  let ks : List Json := match v with
    | "active" => [p]
    | "roll_pending" => ((jarr p)[1]?).toList
    | "roll_new" | "roll_old" => jarr p
    | _ => []
  (ks.filter fun k => !(jisNull (jget k "incoming_cert"))).map fun k => jstr (jget k "key_id")

/-- (parent, key) for every certified key of CA `h` under `parent` (every parent when `none`). -/
def classKeysOf (prev : Json) (h : String) (parent : Option String) : List (String × String) :=
  (jfields (jpath prev ["cas", h, "resources"])).flatMap fun (_, rc) =>
    let p := jstr (jget rc "parent_handle")
    if parent.isSome && parent != some p then [] else (certifiedKeysJ rc).map fun k => (p, k)

def pendingTasks (obs : Json) : List (String × String) :=
  (jarr (jpath obs ["tasks", "pending"])).map fun t => match jarr t with
    | [n, w] => (jstr n, jstr w)
    | _ => ("", "")

def quiescent (obs : Json) : Bool :=
  (pendingTasks obs).all (·.2 != "due") && (jarr (jpath obs ["tasks", "running"])).isEmpty

def syncPending (obs : Json) (h : String) : Bool :=
  (pendingTasks obs).any (·.1 == s!"sync_repo_{h}") ||
    (jarr (jpath obs ["tasks", "running"])).any fun n => jstr n == s!"sync_repo_{h}"

def handlesOf (obs : Json) (k : String) : List String := jkeys (jget obs k)

def serverOf (obs : Json) (h : String) : List (String × Nat) :=
  (jarr (jpath obs ["server", h])).map fun e => match jarr e with
    | [u, x] => (jstr u, jtok x)
    | _ => ("", 0)

def strPairLt (a b : String × Nat) : Bool := a.1 < b.1 || (a.1 == b.1 && a.2 < b.2)

/-- Files an observed `CaObjects` wants published: `(uri, hash)`. -/
def elementsO (cls : List (Nat × ClassO)) : List (String × Nat) :=
  cls.flatMap fun (_, c) => c.sets.flatMap fun s =>
    [(dec s.base ++ dec s.mftName, s.mftHash), (dec s.base ++ dec s.crlName, s.crlHash)] ++
      s.pub.map fun e => (dec s.base ++ dec e.1, e.2.hash)

/-! ### Per-set predicates (C14) -/

def setPreds (now : Nat) (aged : Bool) (s : SetO) : List String :=
  (if s.crlSerial == toString s.number then [] else ["MftCrlNumbersAgree"]) ++
  (if aged || (s.mftExpires == s.nextU && s.crlExpires == s.nextU) then [] else ["MftCrlNumbersAgree"]) ++
  (if s.thisU ≤ now && now < s.nextU then [] else ["WindowContainsNow"])

def revSerials (s : SetO) : List Nat := sortNats (s.revs.map (·.serial))

def pubSig (s : SetO) : List (Nat × Nat) :=
  (sortBy pubLt s.pub).map fun e => (e.1, e.2.serial)

/-- Transition predicates for one key set seen before and after an op. -/
def transPreds (t0 now : Nat) (ageOp : Bool) (p q : SetO) : List String :=
  (if q.number ≥ p.number then [] else ["NumbersStrictlyIncrease"]) ++
  (if q.number == p.number then
    (if q.mftHash == p.mftHash && q.crlHash == p.crlHash && q.thisU == p.thisU && (ageOp || q.nextU == p.nextU) then []
      else ["NumbersStrictlyIncrease"]) ++
    (if pubSig q == pubSig p && revSerials q == revSerials p then [] else ["ChangeForcesReissue"])
  else
    (if q.mftHash != p.mftHash && q.crlHash != p.crlHash then [] else ["DueIsReissued"]) ++
    (if t0 ≤ q.thisU + 300 + 2 && q.thisU + 300 ≤ now + 2 then [] else ["WindowContainsNow"]))

/-! ### Ghost of everything seen published (C03) -/

def seenOfSets (h : String) (cls : List (Nat × ClassO)) : List Seen :=
  cls.flatMap fun (rcn, c) => c.sets.flatMap fun s =>
    s.pub.map fun e => ⟨h, rcn, s.crlName, e.1, e.2.serial, e.2.expires⟩

/-- Objects a command's events put into the current set (seen even if replaced within the op). -/
def seenOfEvents (h : String) (prevCa postCa : Json) (post : List (Nat × ClassO)) (cmd : Json)
    (curCrl : Nat → Nat) : List Seen :=
  (jarr (jget cmd "events")).flatMap fun e =>
    match toObjEvent {} prevCa postCa post 0 e with
    | .roasUpdated rcn u | .aspasUpdated rcn u | .bgpsecUpdated rcn u =>
      u.added.map fun a => ⟨h, rcn, curCrl rcn, a.1, a.2.serial, a.2.expires⟩
    | .certsUpdated rcn c =>
      c.issued.map fun a => ⟨h, rcn, curCrl rcn, a.1, a.2.serial, a.2.expires⟩
    | _ => []

def addSeen (l : List Seen) (n : List Seen) : List Seen :=
  n.foldl (fun acc s => if acc.contains s then acc else acc ++ [s]) l

/-- `SupersededRevoked` on the observed sets; also prunes the ghost of key sets that are gone. -/
def checkSeen (now : Nat) (seen : List Seen) (objs : List (String × List (Nat × ClassO))) : List Seen × List String :=
  let live := seen.filter fun s =>
    match (objs.find? (·.1 == s.ca)).bind fun (_, cls) => findSetO cls s.rcn s.crl with
    | some _ => true
    | none => false
  let bad := live.filter fun s =>
    match (objs.find? (·.1 == s.ca)).bind fun (_, cls) => findSetO cls s.rcn s.crl with
    | some set =>
      !(set.pub.any fun e => e.2.serial == s.serial) &&
      !(set.revs.any fun r => r.serial == s.serial) &&
      !(s.expires ≤ now)
    | none => false
  (live, if bad.isEmpty then [] else ["SupersededRevoked"])

/-! ### Payloads exact, objects mirrored (C01) -/

def classPreds (ca prevCa : Json) (rcnS : String) (rc : Json) (cls : List (Nat × ClassO)) (activated : Bool) :
    List String :=
  match currentKeyJ rc with
  | none => []
  | some k =>
    let res := parseRes (jpath k ["incoming_cert", "resources"])
    let roas := parseRoas (jget rc "roas")
    let aspas := parseAspaObjects (jget rc "aspas")
    let routers := parseRouterCerts (jget rc "bgpsec_certificates")
    let wantR := sortP ((caRoutes ca).filter res.coversPfx)
    let wantA := sortBy defLt ((caAspaDefs ca).filter fun d => res.hasAsn d.customer)
    let wantK := sortBy rkLt ((caRouterDefs ca).filter fun k => res.hasAsn k.asn)
    let extra := roas.payloads.filter fun p => !(wantR.contains p)
    let missing := wantR.filter fun p => !(roas.payloads.contains p)
    let p1 := if sortP roas.payloads == wantR then [] else
      -- recorded finding: activation of a new key renews every ROA, covered by the new certificate or not
      if activated && missing.isEmpty && !extra.isEmpty && extra.all (fun p => !(res.coversPfx p))
      then ["PayloadsExact/uncovered-after-activation"] else ["PayloadsExact"]
    let haveA := aspas.map (·.2.defn)
    let p2 := if sortBy defLt haveA == wantA then [] else
      if activated && wantA.all (fun d => haveA.contains d) &&
          (haveA.filter fun d => !(wantA.contains d)).all (fun d => !(res.hasAsn d.customer))
      then ["AspasExact/uncovered-after-activation"] else ["AspasExact"]
    let haveK := keys routers
    let p3 := if sortBy rkLt haveK == wantK then [] else
      if activated && wantK.all (fun k => haveK.contains k) &&
          (haveK.filter fun k => !(wantK.contains k)).all (fun k => !(res.hasAsn k.asn))
      then ["BgpsecExact/uncovered-after-activation"] else ["BgpsecExact"]
    -- what the class believes it issued = what the current key publishes
    let issued : List (Nat × Nat) := (jfields (jpath rc ["certificates", "issued"])).map fun (_, v) =>
      (enc (jstr (jget v "name")), jtok (jget v "serial"))
    let mine : List (Nat × Nat) :=
      (roas.objects.map fun o => (o.name, o.serial)) ++ (aspas.map fun e => (e.2.obj.name, e.2.obj.serial)) ++
      (routers.map fun e => (e.2.name, e.2.serial)) ++ issued
    let pubd := match get? cls (enc rcnS) with
      | some c => pubSig c.cur
      | none => []
    -- recorded finding F-C02-1: a key both in `issued` and (stale) in `suspended` – the next shrink or
    -- activation then loses track of the live certificate
    let stale (c : Json) : Bool :=
      (jkeys (jpath c ["resources", rcnS, "certificates", "issued"])).any fun k =>
        !(jisNull (jpath c ["resources", rcnS, "certificates", "suspended", k]))
    let p4 := if sortBy (fun (a b : Nat × Nat) => a.1 < b.1) mine == pubd then [] else
      if stale prevCa || stale ca then ["ObjectsMirror/stale-suspended-entry"] else ["ObjectsMirror"]
    p1 ++ p2 ++ p3 ++ p4

def caPreds (ca prevCa : Json) (cls : List (Nat × ClassO)) (activated : List String) : List String :=
  (jfields (jget ca "resources")).flatMap fun (rcnS, rc) =>
    classPreds ca prevCa rcnS rc cls (activated.contains rcnS)

/-! ### Renewal (C14) -/

/-- `(kind/key, serial, expires)` of every signed object a CA holds. -/
def objIndex (ca : Json) : List (String × Nat × Nat) :=
  (jfields (jget ca "resources")).flatMap fun (rcnS, rc) =>
    let roas := parseRoas (jget rc "roas")
    (roas.simple.map fun e => (s!"{rcnS}/roa/{showPayload e.1}", e.2.obj.serial, e.2.obj.expires)) ++
    (roas.agg.map fun e => (s!"{rcnS}/roa/AS{e.1.asn}", e.2.obj.serial, e.2.obj.expires)) ++
    ((parseAspaObjects (jget rc "aspas")).map fun e => (s!"{rcnS}/aspa/{e.1}", e.2.obj.serial, e.2.obj.expires)) ++
    ((parseRouterCerts (jget rc "bgpsec_certificates")).map fun e =>
      (s!"{rcnS}/router/{e.1.asn}/{dec e.1.key}", e.2.serial, e.2.expires))

def weeksFor (cfg : Cfg) (k : String) : Nat :=
  if (k.splitOn "/roa/").length > 1 then cfg.roaReissue
  else if (k.splitOn "/aspa/").length > 1 then cfg.aspaReissue else cfg.bgpsecReissue

/-- After a renewal run: due objects have a new serial, the others are untouched. -/
def renewPreds (cfg : Cfg) (t0 now : Nat) (pre post : Json) : List String :=
  let p := objIndex pre
  let q := objIndex post
  let bad := p.filter fun (k, ser, exp) =>
    match q.find? (·.1 == k) with
    | none => true
    | some (_, ser', _) =>
      let dueLo := exp < thrOf t0 (weeksFor cfg k)
      let dueHi := exp < thrOf now (weeksFor cfg k)
      if dueLo && dueHi then ser' == ser
      else if !dueLo && !dueHi then ser' != ser
      else false
  (if bad.isEmpty then [] else ["RenewDueObjects"]) ++
  (if (p.map (·.1)) == (q.map (·.1)) then [] else ["ReissueKeepsPayloads"])

/-! ### Relying-party report (`rp` key of the observation) -/

def rpEntry (rp : Json) (mftUri : String) : Option Json :=
  (jarr (jget rp "per_ca")).find? fun e => jstr (jget e "mft") == mftUri

def sortS (l : List String) : List String := sortBy (fun (a b : String) => a < b) l

/-- Decoded manifest and CRL of a key set whose files are on the server: the manifest lists the
CRL and exactly the published objects, numbers agree, the CRL carries exactly the revocations. -/
def rpSetPreds (rp : Json) (aged : Bool) (s : SetO) : List String :=
  match rpEntry rp (dec s.base ++ dec s.mftName) with
  | none => []
  | some e =>
    let listed := sortS ((jarr (jget e "listed")).map jstr)
    let want := sortS (dec s.crlName :: s.pub.map fun x => dec x.1)
    let revoked := sortNats ((jarr (jget e "revoked")).map jtok)
    (if listed == want then [] else ["ManifestListsExactly"]) ++
    (if jstr (jget e "number") == toString s.number && jstr (jget e "crl_number") == toString s.number
        && (aged || (jnat (jget e "next_update") == s.nextU && jnat (jget e "crl_next_update") == s.nextU))
        && jnat (jget e "this_update") == s.thisU && jnat (jget e "crl_this_update") == s.thisU
      then [] else ["MftCrlNumbersAgree"]) ++
    (if revoked == revSerials s then [] else ["CrlListsRevocations"])

def accepted (rp : Json) (s : SetO) : Bool :=
  (jarr (jget rp "cas_accepted")).any fun u => jstr u == dec s.base ++ dec s.mftName

/-- Expected validated payloads: configured ∩ covered, for the classes the walk accepted. -/
def expectVrps (obs : Json) (objs : List (String × List (Nat × ClassO))) : List Payload × List AspaDefn × List (Nat × String) :=
  let rp := jget obs "rp"
  (jfields (jget obs "cas")).foldl (fun (vr, asp, rk) (h, ca) =>
    (jfields (jget ca "resources")).foldl (fun (vr, asp, rk) (rcnS, rc) =>
      match currentKeyJ rc, ((objs.find? (·.1 == h)).bind fun (_, cls) => get? cls (enc rcnS)) with
      | some k, some c =>
        if !(accepted rp c.cur) then (vr, asp, rk) else
        let res := parseRes (jpath k ["incoming_cert", "resources"])
        (vr ++ (caRoutes ca).filter res.coversPfx,
         asp ++ (caAspaDefs ca).filter (fun d => res.hasAsn d.customer),
         rk ++ ((caRouterDefs ca).filter fun k => res.hasAsn k.asn).map fun k => (k.asn, dec k.key))
      | _, _ => (vr, asp, rk)) (vr, asp, rk)) ([], [], [])

def dedupP (l : List Payload) : List Payload := l.foldl (fun acc x => if acc.contains x then acc else acc ++ [x]) []

def rpVrps (rp : Json) : List Payload :=
  (jarr (jget rp "vrps")).filterMap fun v => match jarr v with
    | [a, p, m] => parsePayload s!"{jstr p}-{jnat m} => {jnat a}"
    | _ => none

/-- A class whose certificate the (accepted) parent currently publishes must itself be accepted. -/
def mustBeAccepted (obs : Json) (objs : List (String × List (Nat × ClassO))) : List String :=
  let rp := jget obs "rp"
  (jfields (jget obs "cas")).flatMap fun (h, ca) =>
    (jfields (jget ca "resources")).flatMap fun (rcnS, rc) =>
      match currentKeyJ rc, ((objs.find? (·.1 == h)).bind fun (_, cls) => get? cls (enc rcnS)) with
      | some k, some c =>
        let parent := jstr (jget rc "parent_handle")
        let cert := enc (jstr (jget k "key_id") ++ ".cer")
        let serial := jtok (jpath k ["incoming_cert", "serial"])
        let parentPublishes :=
          if parent == "ta" then
            (jarr (jget rp "per_ca")).any fun e => jstr (jget e "key") == jstr (jget e "issuer_key") &&
              (jarr (jget e "listed")).any fun n => enc (jstr n) == cert
          else (((objs.find? (·.1 == parent)).map (·.2)).getD []).any fun (_, pc) =>
            accepted rp pc.cur && pc.cur.pub.any fun e => e.1 == cert && e.2.serial == serial
        if parentPublishes && !(accepted rp c.cur) then ["RpTreeValid"] else []
      | _, _ => []

/-- CAs that do not hold the certificate their parent currently issues to them (the periodic
child → parent sync has not caught up), with their descendants; the TA level is not looked at. -/
def laggingCas (obs : Json) : List String :=
  let direct := (jfields (jget obs "cas")).filterMap fun (h, ca) =>
    let ok := (jfields (jget ca "resources")).all fun (_, rc) =>
      let parent := jstr (jget rc "parent_handle")
      let pca := jpath obs ["cas", parent]
      if parent == "ta" || jisNull pca then true else
      let (v, p) := jvariant (jget rc "key_state")
      let ks : List Json := match v with
        | "active" => [p]
        | "roll_new" => jarr p
        | "roll_pending" => (jarr p).drop 1
        | "roll_old" => (jarr p).take 1
        | _ => []
      ks.all fun k =>
        let kid := jstr (jget k "key_id")
        let serial := jtok (jpath k ["incoming_cert", "serial"])
        jisNull (jget k "request") &&
        (jfields (jget pca "resources")).any fun (_, prc) =>
          match jpath prc ["certificates", "issued", kid] with
          | .null => false
          | c => jtok (jget c "serial") == serial &&
              jstr (jpath pca ["children", h, "state"]) == "active"
    if ok then none else some h
  -- descendants (three levels are enough for the generated hierarchies)
  let kids (l : List String) : List String := l.flatMap fun h => jkeys (jpath obs ["cas", h, "children"])
  let l1 := direct ++ kids direct
  let l2 := l1 ++ kids l1
  l2 ++ kids l2

/-- Several ASPA objects for one customer (the AS held by several CAs) count as the union of their
provider sets (that is how relying parties combine them). -/
def mergeAspas (l : List AspaDefn) : List (Nat × List Nat) :=
  let custs := sortNats (l.foldl (fun acc d => if acc.contains d.customer then acc else acc ++ [d.customer]) [])
  custs.map fun c =>
    (c, sortNats ((l.filter (·.customer == c)).foldl
      (fun acc d => d.providers.foldl (fun a p => if a.contains p then a else a ++ [p]) acc) []))

def rpPreds (obs : Json) (objs : List (String × List (Nat × ClassO))) (synced : String → Bool)
    (ignoredRevokes ignoredMissing : List String) (aged : String → Nat → Bool)
    (settled : List String := []) : List String :=
  let rp := jget obs "rp"
  if jisNull rp then [] else
  -- decoded manifests/CRLs of every CA whose server content is its object set
  let p0 := objs.flatMap fun (h, cls) =>
    if !(synced h) then [] else cls.flatMap fun (_, c) => c.sets.flatMap fun s => rpSetPreds rp (aged h s.crlName) s
  -- a repository sync that was put back ("premature", retried a second later) is still outstanding
  let syncOutstanding := (handlesOf obs "server").any fun h => syncPending obs h
  if !((jbool? (jget rp "quiescent")).getD false) || syncOutstanding then p0 else
  -- a child that `settle` has just given four rounds of sync + pump with its parent is not excused
  -- as "lagging" any more: if it still does not hold the certificate on file, that is final
  let lagging := (laggingCas obs).filter fun h => !settled.contains h
  let underSettled (uri : String) : Bool :=
    settled.any fun h => (laggingCas obs).contains h && (uri.splitOn s!"/repo/{h}/").length > 1
  let underLagging (uri : String) : Bool :=
    lagging.any fun h => (uri.splitOn s!"/repo/{h}/").length > 1
  -- manifest and CRL of the old key of a class in the `old` phase of a roll
  let retiredFiles : List String := objs.flatMap fun (_, cls) => cls.flatMap fun (_, c) =>
    match c.kind, c.other with
    | "old", some os => [dec os.base ++ dec os.mftName, dec os.base ++ dec os.crlName]
    | _, _ => []
  let probs := (jarr (jget rp "problems")).filter fun p =>
    jstr (jget p "kind") != "unlisted-subdir" && !(underLagging (jstr (jget p "uri")))
  let (vr, asp, rk) := expectVrps obs objs
  let gotA := (jarr (jget rp "aspas")).map fun a => match jarr a with
    | [c, ps] => (⟨jnat c, (jarr ps).map jnat⟩ : AspaDefn)
    | _ => ⟨0, []⟩
  let gotK := (jarr (jget rp "router_keys")).map fun a => match jarr a with
    | [c, k] => (jnat c, jstr k)
    | _ => (0, "")
  let kLt (a b : Nat × String) : Bool := a.1 < b.1 || (a.1 == b.1 && a.2 < b.2)
  let dd {α} [BEq α] (l : List α) : List α := l.foldl (fun acc x => if acc.contains x then acc else acc ++ [x]) []
  p0 ++
  (probs.map fun p =>
    let kind := jstr (jget p "kind")
    let detail := jstr (jget p "detail")
    let uri := jstr (jget p "uri")
    if kind == "decode-error" && (detail.splitOn "resources extensions are missing").length > 1
    then "RpTreeValid/empty-resources-cert"
    else if kind == "no-manifest" && ignoredMissing.any (fun k => (uri.splitOn s!"/{k}.").length > 1)
    then "RpTreeValid/no-manifest-after-ignored-revocation/mapping-to-missing-class"
    else if kind == "no-manifest" && ignoredRevokes.any (fun k => (uri.splitOn s!"/{k}.").length > 1)
    then "RpTreeValid/no-manifest-after-ignored-revocation"
    else if kind == "unlisted" && retiredFiles.contains uri
    then "RpTreeValid/unlisted-retired-key"
    else if kind == "overclaim" && underSettled uri
    then "RpTreeValid/overclaim/cert-on-file-differs"
    else s!"RpTreeValid/{kind}") ++
  (if ((jarr (jget rp "missing")).filter fun u => !(underLagging (jstr u))).isEmpty then [] else ["RpTreeValid/missing"]) ++
  (if !lagging.isEmpty then [] else
  mustBeAccepted obs objs ++
  (if sortP (dedupP (rpVrps rp)) == sortP (dedupP vr) then [] else ["RpPayloadsExact"]) ++
  (if mergeAspas gotA == mergeAspas asp then [] else ["RpAspasExact"]) ++
  (if sortBy kLt (dd gotK) == sortBy kLt (dd rk) then [] else ["RpRouterKeysExact"]))

end KM.Drv.SysObj
