/-
Driver `sysstatus` (C19): lock-step model of the CA status store over traces of the `status`
harness (`harness/src/bin/status`).

Every trace line is `op => {observation}`.  From the op, its result (`ret`) and the *other side's*
state (`truth`: who is a child of whom, suspended, identity matches; `server`: what the publication
server holds before and after) the driver derives the exchange events, runs the model
(`KM.Status.step`) and compares the whole status store with the implementation's (`raw` = the
key-value store, `st` = public API).  Where several outcomes are possible the model yields a set
and the observed one must be a member; for ops that run many tasks (`pump`, removals) the
observed outcome of an exchange is taken as input and the *consequences* are checked (failure
leaves list / last success / entitlements alone; the list follows the server's delta; times of a
success coincide).

The oracle evaluates the executable form of the theorems of `Props/C19.lean` on the
implementation's own observation and prints `FAIL oracle <theorem>[:tag]`.
Time stamps are inputs (the model quantifies over them); only equalities between them are used.
-/
import KrillModel.Status.Status
import KrillModel.Drivers.Json
namespace KM.Drv.SysStatus
open KM.Status KM.Drv Lean

/-! ## parsing the observation -/

def pResult (j : Json) : Result :=
  if jstr (jget j "res") == "ok" then .success else .failure (jstr (jget j "err"))

def pExch (j : Json) : Option Exchange :=
  if jisNull j then none else some ⟨jnat (jget j "t"), jstr (jget j "uri"), pResult j⟩

def pFiles (j : Json) : List File :=
  (jarr j).map fun e => match jarr e with
    | [u, h] => (jstr u, jstr h)
    | _ => ("?", "?")

def pRepo (j : Json) : RepoStatus :=
  if jisNull j then {} else
  { lastExchange := pExch (jget j "x"), lastSuccess := jnat? (jget j "ls"),
    published := pFiles (jget j "pub") }

def pAtoms (j : Json) : List Nat := (jarr j).filterMap jnat?

def pEnt (j : Json) : Entitlements := (jfields j).map fun (k, v) => (k, pAtoms v)

def pParent (j : Json) : ParentStatus :=
  { lastExchange := pExch (jget j "x"), lastSuccess := jnat? (jget j "ls"),
    allResources := pAtoms (jget j "all"), classes := pEnt (jget j "ent") }

def pChild (j : Json) : ChildStatus :=
  let x := jget j "x"
  { lastExchange := if jisNull x then none
      else some ⟨jnat (jget x "t"), pResult x, jstr? (jget x "agent")⟩,
    lastSuccess := jnat? (jget j "ls"), suspended := jnat? (jget j "susp") }

def pDisk (j : Json) : DiskCa :=
  { repo := if jisNull (jget j "repo") then none else some (pRepo (jget j "repo")),
    parents := (jfields (jget j "parents")).map fun (k, v) => (k, pParent v),
    children := (jfields (jget j "children")).map fun (k, v) => (k, pChild v) }

def pViews (j : Json) : AList CaStatus := (jfields j).map fun (k, v) => (k, (pDisk v).toCa)

/-! ## normal forms (hash-map order never matters) -/

def strLt (a b : String) : Bool := decide (a < b)

def sortNats (l : List Nat) : List Nat :=
  sortBy (fun a b => decide (a < b)) (l.foldl (fun acc x => if acc.contains x then acc else x :: acc) [])

def normRepo (r : RepoStatus) : RepoStatus :=
  { r with published := sortBy (fun a b => strLt a.1 b.1 || (a.1 == b.1 && strLt a.2 b.2)) r.published }

def normParent (p : ParentStatus) : ParentStatus :=
  { p with allResources := sortNats p.allResources,
           classes := sortBy (fun a b => strLt a.1 b.1) (p.classes.map fun (k, v) => (k, sortNats v)) }

def normCa (c : CaStatus) : CaStatus :=
  { repo := normRepo c.repo,
    parents := sortBy (fun a b => strLt a.1 b.1) (c.parents.map fun (k, v) => (k, normParent v)),
    children := sortBy (fun a b => strLt a.1 b.1) c.children }

def caEq (a b : CaStatus) : Bool := normCa a == normCa b

def viewOf (vs : AList CaStatus) (ca : String) : CaStatus := (alookup vs ca).getD {}

/-! ## short descriptions for failure messages -/

def showRes : Result → String
  | .success => "ok"
  | .failure e => s!"fail({e})"

def showX (x : Option Exchange) : String :=
  match x with
  | none => "-"
  | some e => s!"{showRes e.result}@{e.time}"

def showOptNat (o : Option Nat) : String := match o with | none => "-" | some n => toString n

def showRepo (r : RepoStatus) : String :=
  let files := " ".intercalate ((normRepo r).published.map fun (u, h) => s!"{(u.splitOn "/").getLastD ""}={h}")
  s!"x={showX r.lastExchange},ls={showOptNat r.lastSuccess},pub=[{files}]"

def showParent (p : ParentStatus) : String :=
  s!"x={showX p.lastExchange},ls={showOptNat p.lastSuccess},ent={(normParent p).classes},all={(normParent p).allResources}"

def showChild (c : ChildStatus) : String :=
  let x := match c.lastExchange with
    | none => "-"
    | some e => s!"{showRes e.result}@{e.time}/{e.agent.getD "-"}"
  s!"x={x},ls={showOptNat c.lastSuccess},susp={showOptNat c.suspended}"

/-- The entries in which two views of a CA differ. -/
def diffCa (ca : String) (m o : CaStatus) : List String :=
  let m := normCa m
  let o := normCa o
  (if m.repo == o.repo then [] else [s!"{ca}/repo model[{showRepo m.repo}] impl[{showRepo o.repo}]"]) ++
  ((akeys m.parents ++ (akeys o.parents).filter fun k => !(akeys m.parents).contains k).filterMap fun p =>
    let a := alookup m.parents p
    let b := alookup o.parents p
    if a == b then none
    else some s!"{ca}/parents-{p} model[{(a.map showParent).getD "absent"}] impl[{(b.map showParent).getD "absent"}]") ++
  ((akeys m.children ++ (akeys o.children).filter fun k => !(akeys m.children).contains k).filterMap fun c =>
    let a := alookup m.children c
    let b := alookup o.children c
    if a == b then none
    else some s!"{ca}/children-{c} model[{(a.map showChild).getD "absent"}] impl[{(b.map showChild).getD "absent"}]")

/-! ## the other side's state -/

def serverOf (obs : Json) (ca : String) : Option (List File) :=
  let j := jpath obs ["server", ca]
  if jisNull j then none else some (pFiles j)

def truthHasCa (obs : Json) (ca : String) : Bool := !(jisNull (jpath obs ["truth", ca]))

def truthParents (obs : Json) (ca : String) : List String := jkeys (jpath obs ["truth", ca, "parents"])

/-- `(suspended, identity matches)` if `c` is a child of `p`. -/
def truthChild (obs : Json) (p c : String) : Option (Bool × Bool) :=
  let j := jpath obs ["truth", p, "children", c]
  if jisNull j then none
  else some ((jbool? (jget j "suspended")).getD false, (jbool? (jget j "idmatch")).getD false)

def truthEnt (obs : Json) (ca p : String) : Option Entitlements :=
  let j := jpath obs ["truth", ca, "parents", p, "ent"]
  if jisNull j then none else some (pEnt j)

def parentUri (p : String) : String := s!"https://localhost:3000/rfc6492/{p}"
def repoUri (ca : String) : String := s!"https://localhost:3000/rfc8181/{ca}/"

/-! ## driver state -/

structure St where
  model   : Store := {}
  prev    : Json := Json.null
  /-- publishers whose content changed at the server out of band since their last successful sync -/
  oob     : List String := []
  /-- publishers for which the known duplicate / stale entries are in the list -/
  tainted : List String := []
  synced  : Bool := true
  /-- `init` seen: the model has adopted the state the case starts from -/
  started : Bool := false

/-- All scopes the model or the implementation knows. -/
def allScopes (m : Store) (raw : AList CaStatus) : List String :=
  let a := akeys m.disk ++ akeys m.cache
  let all := a ++ (akeys raw).filter fun k => !a.contains k
  all.foldl (fun acc x => if acc.contains x then acc else acc ++ [x]) []

/-- Model store vs. implementation: the key-value store (`raw`, every scope) against the model's
storage, the public API (`st`) against the model's cache. -/
def mismatches (m : Store) (raw st : AList CaStatus) : List String :=
  ((allScopes m raw).flatMap fun ca => diffCa ca (diskOr m.disk ca).toCa (viewOf raw ca)) ++
  ((akeys st).flatMap fun ca => (diffCa ca (m.view ca) (viewOf st ca)).map (· ++ "(api)"))

/-! ## inference: take an observed exchange outcome as input -/

/-- Events that explain the difference between the model's repository status of `ca` and the
observed one, given what the server held before and holds now. -/
def inferRepo (m : Store) (ca : String) (o : RepoStatus) (before after : Option (List File)) : List Ev :=
  let cur := m.repo ca
  let changed := match before, after with
    | some b, some a => !(inSyncB b a)
    | _, _ => false
  if normRepo cur == normRepo o && !changed then [] else
  let uri := (o.lastExchange.map (·.uri)).getD (repoUri ca)
  let ls := o.lastSuccess.getD 0
  let e1 : List Ev :=
    if changed then
      [.repoList ca uri (.ok ()) ls, .repoDelta ca uri (diffDelta (before.getD []) (after.getD [])) (.ok ()) ls]
    else if o.lastSuccess != cur.lastSuccess then [.repoList ca uri (.ok ()) ls] else []
  let e2 : List Ev := match o.lastExchange with
    | none => []
    | some x => match x.result with
      | .success => [.repoList ca uri (.ok ()) x.time]
      | .failure e => [.repoList ca uri (.error e) x.time]
  e1 ++ e2

def inferParent (m : Store) (ca p : String) (o : ParentStatus) : List Ev :=
  let cur := (m.parent? ca p).getD {}
  if (m.parent? ca p).map normParent == some (normParent o) then [] else
  let uri := (o.lastExchange.map (·.uri)).getD (parentUri p)
  let ls := o.lastSuccess.getD 0
  let e1 : List Ev :=
    if (normParent cur).classes != (normParent o).classes then
      [.parentList ca p uri true (.ok o.classes) ls]
    else if o.lastSuccess != cur.lastSuccess then [.parentCerts ca p uri (.ok ()) ls] else []
  let e2 : List Ev := match o.lastExchange with
    | none => []
    | some x => match x.result with
      | .success => [.parentCerts ca p uri (.ok ()) x.time]
      | .failure e => [.parentCerts ca p uri (.error e) x.time]
  e1 ++ e2

def inferChild (m : Store) (ca c : String) (o : ChildStatus) : List Ev :=
  let cur := (m.child? ca c).getD {}
  if m.child? ca c == some o then [] else
  let e0 : List Ev := match o.lastExchange with
    | none => []
    | some x =>
      (if o.lastSuccess != cur.lastSuccess && x.result != .success then
        [.childRequest ca c x.agent (.ok ()) (o.lastSuccess.getD 0)] else []) ++
      (if some x == cur.lastExchange && o.lastSuccess == cur.lastSuccess && (o.suspended.isSome || cur.suspended.isNone)
        then [] else
        match x.result with
        | .success => [.childRequest ca c x.agent (.ok ()) x.time]
        | .failure e => [.childRequest ca c x.agent (.error e) x.time])
  let e1 : List Ev := match o.suspended with
    | some t => [.childSuspended ca c t]
    | none => []
  e0 ++ e1

/-- All inferred events for the scopes the implementation shows. -/
def inferAll (m : Store) (raw : AList CaStatus) (prev obs : Json) : List Ev :=
  raw.flatMap fun (ca, o) =>
    inferRepo m ca o.repo (serverOf prev ca) (serverOf obs ca) ++
    (o.parents.flatMap fun (p, ps) => inferParent m ca p ps) ++
    (o.children.flatMap fun (c, cs) => inferChild m ca c cs)

/-! ## the oracle -/

def optFailureOfRepo (c : CaStatus) : Option String := c.repo.optFailure

/-- `get_ca_issues` shows exactly the failures of the view. -/
def issuesOk (obs : Json) (st : AList CaStatus) : Bool :=
  st.all fun (ca, v) =>
    let j := jpath obs ["issues", ca]
    let repoI := jstr? (jget j "repo")
    let parI := (jfields (jget j "parents")).map fun (k, x) => (k, jstr x)
    let want := (normCa v).parents.filterMap fun (p, ps) => ps.optFailure.map fun e => (p, e)
    repoI == v.repo.optFailure && parI == want

/-- Entry of parent `p` of `ca` in the implementation's view. -/
def obsParent (raw : AList CaStatus) (ca p : String) : Option ParentStatus := alookup (viewOf raw ca).parents p
def obsChild (raw : AList CaStatus) (ca c : String) : Option ChildStatus := alookup (viewOf raw ca).children c

def retParts (ret : String) : List String := ret.splitOn ":"

structure OrcOut where
  fails : List String := []
  oob : List String
  tainted : List String

/-- How a shadow list differs from the server's content after an out-of-band loss:
`duplicates` (a URI listed twice – F-C19-1, fixed by 7b4aa6c7), `stale-entry` (everything the server
holds is listed once with the right content, and there are additional entries for URIs the server
does not hold – F-C19-3), `other`. -/
def lossClass (p m : List File) : String :=
  if !(noDupUris p) then "duplicates"
  else if m.all (fun f => entries p f.1 == [f.2]) &&
          p.all (fun f => (entries m f.1 == [f.2]) || (entries m f.1).isEmpty) then "stale-entry"
  else "other"

/-- Shadow list = server content for every publisher that has not been touched out of band; for a
publisher that was, at its first successful synchronisation afterwards. -/
def oraclePublished (st : St) (raw : AList CaStatus) (obs : Json) (syncedNow : List String) : OrcOut :=
  let pubs := jkeys (jget obs "server")
  pubs.foldl (fun acc ca =>
    let shadow := (viewOf raw ca).repo.published
    let srv := (serverOf obs ca).getD []
    let ok := inSyncB shadow srv
    if acc.tainted.contains ca then acc
    else if acc.oob.contains ca then
      if syncedNow.contains ca then
        if ok then { acc with oob := acc.oob.filter (· != ca) }
        else { acc with oob := acc.oob.filter (· != ca), tainted := ca :: acc.tainted,
                        fails := acc.fails ++ [s!"published_list_is_server_content:lost-content-{lossClass shadow srv}"] }
      else acc
    else if ok then acc
    else { acc with tainted := ca :: acc.tainted,
                    fails := acc.fails ++ ["published_list_is_server_content:in-band"] })
    { oob := st.oob, tainted := st.tainted }

/-- Predicates that follow from the op's own result, without the model. -/
def oracleOp (st : St) (op : List String) (ret : String) (raw stv : AList CaStatus) (obs : Json) : List String :=
  let rp := retParts ret
  let always :=
    (if (jbool? (jget obs "api_ok")).getD true then [] else ["status_is_last_exchange:api-views-differ"]) ++
    (if issuesOk obs stv then [] else ["status_is_last_exchange:issues-view"]) ++
    (if stv.all (fun (ca, v) => caEq v (viewOf raw ca)) then [] else ["restart_invariant:storage-differs-from-view"])
  let specific : List String := match op with
    | ["sync", ca, p] =>
      let mode := rp.getLastD ""
      if mode == "none" || mode == "" then [] else
      let e := obsParent raw ca p
      let parentSide :=
        match rp with
        | "ok" :: _ =>
          (match e with
           | some ps => if ps.optFailure.isNone && ps.lastExchange.isSome &&
                          ps.lastSuccess == ps.lastExchange.map (·.time) then [] else ["status_is_last_exchange:sync-ok"]
           | none => ["status_is_last_exchange:sync-ok"]) ++
          (if mode == "list" then
            match e, truthEnt obs ca p with
            | some ps, some ent =>
              if (normParent ps).classes == (normParent { classes := ent }).classes then []
              else ["entitlements_are_last_returned"]
            | _, _ => ["entitlements_are_last_returned"]
           else [])
        | "err" :: _ :: lbl :: _ =>
          (match e with
           | some ps => if ps.optFailure == some lbl then [] else ["status_is_last_exchange:sync-err"]
           | none => ["status_is_last_exchange:sync-err"]) ++
          -- nothing succeeded in this sync unless a revocation request was answered: last_success stays
          (let before := (alookup (viewOf (pViews (jget st.prev "raw")) ca).parents p).bind (·.lastSuccess)
           let nRev := jnat (jpath st.prev ["truth", ca, "parents", p, "revokes"])
           if (e.bind (·.lastSuccess)) == before then []
           else if mode != "list" && nRev == 0 then ["last_success_is_last_successful:vacuous-revocation"]
           else if mode == "list" then ["last_success_is_last_successful:moved-on-failure"] else [])
        | _ => []
      -- the parent's view of this child: the request just made (one request only)
      let childSide :=
        if (truthChild st.prev p ca).isNone && p != "ta" then
          (if obsChild raw p ca == (alookup (viewOf (pViews (jget st.prev "raw")) p).children ca) then []
           else ["child_last_request:unknown-child-recorded"])
        else if mode == "list" || mode == "req1" then
          match obsChild raw p ca, rp with
          | some cs, "ok" :: _ =>
            if (cs.lastExchange.map (·.result)) == some .success &&
               (cs.lastExchange.bind (·.agent)) == some "local-child" && cs.suspended.isNone then []
            else ["child_last_request:local"]
          | some cs, "err" :: _ =>
            if (cs.lastExchange.map (·.result.wasSuccess)) == some false then [] else ["child_last_request:local"]
          | none, _ => ["child_last_request:local"]
          | _, _ => []
        else []
      parentSide ++ childSide
    | ["reposync", ca] =>
      if !(truthHasCa st.prev ca) then [] else
      let r := (viewOf raw ca).repo
      (match rp with
       | ["ok", "true"] =>
         if r.optFailure.isNone && r.lastExchange.isSome && r.lastSuccess == r.lastExchange.map (·.time) then []
         else ["status_is_last_exchange:reposync-ok"]
       | "err" :: _ :: lbl :: _ =>
         if r.optFailure == some lbl then [] else ["status_is_last_exchange:reposync-err"]
       | _ => [])
    | ["repoprobe", ca] =>
      -- the check of a new, unreachable publication server: the failed probe is the most recent attempt
      if !(truthHasCa st.prev ca) then [] else
      let r := (viewOf raw ca).repo
      (match rp with
       | "err" :: _ =>
         -- the call returns the wrapping error (`ca-repo-issue`), the status shows the error of the exchange itself
         if r.optFailure.isSome then [] else ["status_is_last_exchange:repoprobe-err"]
       | _ => [])
    | ["rfc6492", p, c, _, agent] =>
      let agentO := if agent == "-" then none else some agent
      match truthChild st.prev p c with
      | some (_, true) =>
        (match obsChild raw p c, rp with
         | some cs, "ok" :: _ =>
           if cs.lastExchange.map (fun x => (x.result, x.agent)) == some (.success, agentO) &&
              cs.suspended.isNone && cs.lastSuccess == cs.lastExchange.map (·.time) then []
           else ["child_last_request:remote"]
         | some cs, "err" :: _ :: lbl :: _ =>
           if cs.lastExchange.map (fun x => (x.result, x.agent)) == some (.failure lbl, agentO) &&
              cs.suspended.isNone then []
           else ["child_last_request:remote"]
         | none, _ => ["child_last_request:remote"]
         | _, _ => [])
      | _ => []
    | ["parentrm", ca, p] =>
      if (obsParent raw ca p).isSome || (alookup (viewOf stv ca).parents p).isSome then ["removal_removes_entries:parent"] else []
    | ["childrm", p, c] =>
      if (obsChild raw p c).isSome || (alookup (viewOf stv p).children c).isSome then ["removal_removes_entries:child"] else []
    | ["cadelete", ca] =>
      if ret == "ok" && ((alookup raw ca).isSome || (alookup stv ca).isSome) then ["removal_removes_entries:ca"] else []
    | ["restart"] =>
      let fresh := pViews (jpath obs ["fresh", "st"])
      (if akeys fresh == akeys stv && stv.all (fun (ca, v) => caEq v (viewOf fresh ca)) then []
       else ["restart_invariant:fresh-store-differs"]) ++
      (if (jbool? (jpath obs ["fresh", "api_ok"])).getD true && jpath obs ["fresh", "issues"] == jget obs "issues" then []
       else ["restart_invariant:fresh-issues-differ"])
    | _ => []
  always ++ specific

/-! ## one step -/

def evKind : Ev → String
  | .repoList .. => "repoList"
  | .repoDelta .. => "repoDelta"
  | .parentList .. => "parentList"
  | .parentRevokes .. => "parentRevokes"
  | .parentCerts .. => "parentCerts"
  | .childRequest .. => "childRequest"
  | .childSuspended .. => "childSuspended"
  | .parentRemove .. => "parentRemove"
  | .childRemove .. => "childRemove"
  | .caRemove .. => "caRemove"
  | .restart => "restart"

def outcomeOf (rp : List String) : Except String Unit :=
  match rp with
  | "err" :: _ :: lbl :: _ => .error lbl
  | _ => .ok ()

/-- Candidate event lists (with a branch tag) for an op whose exchanges are determined by its
result and the other side's state.  `none`: not such an op. -/
def directCandidates (st : St) (op : List String) (ret : String) (raw : AList CaStatus) (obs : Json) :
    Option (List (List Ev × String)) :=
  let rp := retParts ret
  let m := st.model
  match op with
  | ["sync", ca, p] =>
    let mode := rp.getLastD ""
    if mode == "none" then some [([], "no-exchange")] else
    let isErr := rp.head? == some "err"
    let lbl := match rp with | "err" :: _ :: l :: _ => l | _ => ""
    let uri := parentUri p
    let oe := obsParent raw ca p
    let t := ((oe.bind (·.lastExchange)).map (·.time)).getD 0
    let ls := ((oe.bind (·.lastSuccess))).getD 0
    let nRev := jnat (jpath st.prev ["truth", ca, "parents", p, "revokes"])
    let parentSide : List (List Ev × String) :=
      if mode == "list" then
        if isErr then [([.parentList ca p uri true (.error lbl) t], "list-refused")]
        else [([.parentList ca p uri true (.ok ((truthEnt obs ca p).getD [])) t], "list-ok")]
      else
        if isErr then
          if nRev == 0 then
            -- nothing to revoke: no revocation phase, only the refused certificate request is recorded
            [(syncParentEvents ca p uri true 0 (.ok ()) (.error lbl) (.ok []) t, "request-refused-nothing-to-revoke")]
          else
          [(syncParentEvents ca p uri true nRev (.error lbl) (.ok ()) (.ok []) t, "revoke-refused"),
           ([.parentRevokes ca p uri nRev (.ok ()) ls, .parentCerts ca p uri (.error lbl) t], "request-refused")]
        else [(syncParentEvents ca p uri true nRev (.ok ()) (.ok ()) (.ok []) t, "requests-ok")]
    let known := (truthChild st.prev p ca).isSome
    let oc := obsChild raw p ca
    let tc := ((oc.bind (·.lastExchange)).map (·.time)).getD 0
    let obsLbl := match (oc.bind (·.lastExchange)).map (·.result) with
      | some (.failure e) => e
      | _ => lbl
    let childSide : List (List Ev × String) :=
      if !(truthHasCa st.prev p) && p != "ta" then [([], "parent-gone")] else
      let mk (o : Except String Unit) := childRequestEvents p ca false (p == "ta") known true none o tc
      if !isErr then [(mk (.ok ()), if known then "child-known" else "child-unknown")]
      else if !known && p != "ta" then [([], "child-unknown")]
      else [(mk (.error lbl), "child-refused"), (mk (.error obsLbl), "child-refused-other-label")] ++
           -- several requests in one synchronisation: the parent's entry shows the last of them, an earlier one
           -- may have succeeded; the observed entry is taken as input
           (if mode != "list" && mode != "req1" then
             [(mk (.ok ()), "child-last-request-ok"),
              ((oc.map fun o => inferChild m p ca o).getD [], "child-several-requests")] else [])
    some (parentSide.flatMap fun (a, ta) => childSide.map fun (b, tb) => (a ++ b, s!"{ta}/{tb}"))
  | ["reposync", ca] =>
    if !(truthHasCa st.prev ca) then some [([], "no-such-ca")] else
    let uri := repoUri ca
    let o := (viewOf raw ca).repo
    let t := (o.lastExchange.map (·.time)).getD 0
    let ls := o.lastSuccess.getD 0
    let before := serverOf st.prev ca
    let after := serverOf obs ca
    match rp with
    | ["ok", "true"] =>
      let r := repoSyncEvents ca uri true before (after.getD []) "?" "?" t
      let tag := match before, r.1.length with
        | none, _ => "publisher-unknown-nothing-to-publish"
        | some _, 1 => "list-only"
        | some _, _ => "delta-accepted"
      -- the model's server must end up with what the server holds
      let srvOk := match r.2, after with
        | some a, some b => inSyncB a b
        | none, none => true
        | _, _ => false
      some [(r.1, if srvOk then tag else tag ++ "-server-differs")]
    | "err" :: _ :: lbl :: _ =>
      some [([.repoList ca uri (.ok ()) ls, .repoDelta ca uri [] (.error lbl) t],
              if before.isNone then "publisher-unknown-delta-refused" else "delta-refused"),
            ([.repoList ca uri (.error lbl) t], "list-refused")]
    | _ => some [([], "premature")]
  | ["repoprobe", ca] =>
    -- `update_repo` with `check_repo`: one list query to the NEW server (its URI is taken from the observation); refused:
    -- the failure is recorded, the CA keeps its repository
    if !(truthHasCa st.prev ca) then some [([], "no-such-ca")] else
    let o := (viewOf raw ca).repo
    let t := (o.lastExchange.map (·.time)).getD 0
    let u := (o.lastExchange.map (·.uri)).getD ""
    (match rp with
     | "err" :: _ =>
       -- the label of the exchange's own error is taken from the observation (the call returns a wrapping error)
       let lbl := (o.optFailure).getD "?"
       some [([.repoList ca u (.error lbl) t], "probe-refused")]
     | _ => some [([], "probe-not-refused")])
  | ["rfc6492", p, c, _, agent] =>
    -- `CaManager::rfc6492` refuses remote requests to the trust anchor and to unknown CAs outright
    if !(truthHasCa st.prev p) || p == "ta" then some [([], "no-such-parent")] else
    let agentO := if agent == "-" then none else some agent
    let tc := (((obsChild raw p c).bind (·.lastExchange)).map (·.time)).getD 0
    let (known, sigOk) := match truthChild st.prev p c with
      | some (_, idm) => (true, idm)
      | none => (false, false)
    let evs := childRequestEvents p c true false known sigOk agentO (outcomeOf rp) tc
    let tag := if !known then "unknown-child" else if !sigOk then "identity-replaced"
      else if rp.head? == some "ok" then
        (if (truthChild st.prev p c).map (·.1) == some true then "suspended-child-accepted" else "accepted")
      else "refused-recorded"
    some [(evs, tag)]
  | ["suspendinactive", ca] =>
    let evs := (suspendEvents m ca 0 (jnat (jget obs "now") + 1)).map fun e =>
      match e with
      | .childSuspended ca' c _ => .childSuspended ca' c (((obsChild raw ca' c).bind (·.suspended)).getD 0)
      | e => e
    some [(evs, s!"marked{min evs.length 3}")]
  | ["restart"] => some [([.restart], (retParts ret).getLastD "")]
  | _ => none

/-- Ops that perform exchanges whose outcome is not determined by the op's result: the observed
outcome is taken as input. -/
def inferredOp (op : List String) : Bool :=
  match op with
  | "pump" :: _ => true
  | "task" :: _ => true
  | "parentrm" :: _ => true
  | "cadelete" :: _ => true
  | "childrm" :: _ => true
  | _ => false

def removalEvents (op : List String) (ret : String) : List Ev :=
  match op with
  | ["parentrm", ca, p] => [.parentRemove ca p]
  | ["childrm", p, c] => [.childRemove p c]
  | ["cadelete", ca] => if ret == "ok" then [.caRemove ca] else []
  | _ => []

/-- Publishers this op synchronised successfully (for the oracle's out-of-band bookkeeping). -/
def syncedNow (op : List String) (ret : String) (evs : List Ev) : List String :=
  (match op with
   | ["reposync", ca] => if ret == "ok:true" then [ca] else []
   | _ => []) ++
  evs.filterMap fun e =>
    match e with
    | .repoDelta ca _ _ (.ok ()) _ => some ca
    | .repoList ca _ (.ok ()) _ => some ca
    | _ => none

def step (st : St) (op : List String) (obs : Json) : St × String :=
  let ret := jstr (jget obs "ret")
  let opS := " ".intercalate op
  match op with
  | "config" :: _ => (st, "ok config:trivial")
  | ["init"] =>
    let disk : AList DiskCa := (jfields (jget obs "raw")).map fun (k, v) => (k, pDisk v)
    let m : Store := Store.restart { disk := disk }
    ({ st with model := m, prev := obs, started := true }, s!"ok init:scopes{min disk.length 3}")
  | _ =>
    if !st.started then (st, "bad-op missing-init " ++ opS) else
    let raw := pViews (jget obs "raw")
    let stv := pViews (jget obs "st")
    -- events
    let cands : List (List Ev × String) :=
      match directCandidates st op ret raw obs with
      | some cs => cs
      | none =>
        if inferredOp op then
          let rem := removalEvents op ret
          let m1 := run st.model rem
          let inf := inferAll m1 raw st.prev obs
          [(rem ++ inf, s!"inferred{min inf.length 4}")]
        else [([], "no-exchange")]
    let pick := cands.find? fun (evs, _) => (mismatches (run st.model evs) raw stv).isEmpty
    let chosen := pick.getD (cands.headD ([], "?"))
    let evs := chosen.1
    let m' := run st.model evs
    -- oracle
    let oob1 := match op with
      | ["pubrm", ca] => if st.oob.contains ca then st.oob else ca :: st.oob
      | ["pubadd", ca] => if st.oob.contains ca then st.oob else ca :: st.oob
      | ["repoconfuse", ca, _] => if st.oob.contains ca then st.oob else ca :: st.oob
      | _ => st.oob
    let sn := syncedNow op ret evs
    let po := oraclePublished { st with oob := oob1 } raw obs (if st.synced then sn else jkeys (jget obs "server"))
    let orc := oracleOp st op ret raw stv obs ++ po.fails
    let st1 := { st with prev := obs, oob := po.oob, tainted := po.tainted }
    if !st.synced then
      if orc.isEmpty then (st1, "skip unsynced") else (st1, "FAIL oracle " ++ " ".intercalate orc)
    else
    match pick with
    | some (_, tag) =>
      let kinds := (evs.map evKind).foldl (fun acc k => if acc.contains k then acc else acc ++ [k]) []
      let st2 := { st1 with model := m' }
      if orc.isEmpty then (st2, s!"ok {op.headD ""}:{tag}" ++ (if inferredOp op then ":" ++ "+".intercalate kinds else ""))
      else (st2, "FAIL oracle " ++ " ".intercalate orc)
    | none =>
      let mm := mismatches m' raw stv
      let o := if orc.isEmpty then "" else " ORACLE " ++ " ".intercalate orc
      ({ st1 with synced := false },
        s!"FAIL model {opS} ret={ret} branches=[{",".intercalate (cands.map (·.2))}] " ++ " ; ".intercalate (mm.take 4) ++ o)

def main : IO Unit := do
  let stdin ← IO.getStdin
  jloop stdin ({} : St) step {}

end KM.Drv.SysStatus
