/- Line-protocol driver for the publication server model (stream `pubd`).

`kmodel pubd [C10|C11]`: reads the trace lines written by `harness/src/bin/pubd.rs`, runs the
model in lock-step (`ok <op>:<branch>` / `FAIL model …`) and evaluates the executable property
predicates on the implementation's own observations (`FAIL oracle <predicate>[<class>] …`).
With an argument only the predicates of that property are evaluated. -/
import KrillModel.Pubd.Files
import KrillModel.Pubd.Manager
import KrillModel.Drivers.Util
namespace KM.Drv.Pubd
open KM.Pubd KM.Drv

/-! ## text <-> model values -/

def caseMask (s : String) : Nat :=
  s.toList.foldl (fun acc c => 2 * acc + (if c.isUpper then 1 else 0)) 0

def ciOf (s : String) : CiName := ⟨s.toLower, caseMask s⟩

def ciWritten (n : CiName) : String :=
  let cs := n.canon.toList
  let len := cs.length
  String.ofList (cs.mapIdx fun i c => if (n.var >>> (len - 1 - i)) % 2 == 1 then c.toUpper else c)

def parseUri (s : String) : Option Uri :=
  match s.splitOn "://" with
  | [scheme, rest] =>
      match rest.splitOn "/" with
      | host :: module :: path =>
          if host == "" || module == "" || path.isEmpty then none
          else
            let dir := path.getLast? == some ""
            let segs := if dir then path.dropLast else path
            if segs.any (· == "") then none
            else some ⟨ciOf scheme, ciOf host, ciOf module, segs, dir⟩
      | _ => none
  | _ => none

def showUri (u : Uri) : String :=
  ciWritten u.scheme ++ "://" ++ ciWritten u.host ++ "/" ++ ciWritten u.module ++ "/" ++
    "/".intercalate u.segs ++ (if u.dir && !u.segs.isEmpty then "/" else "")

def parseContent (s : String) : Option Content :=
  match s.splitOn "." with
  | [a, b] => do pure ⟨← a.toNat?, ← b.toNat?⟩
  | _ => none

def showContent (c : Content) : String := s!"{c.id}.{c.len}"

def parseElem (s : String) : Option Elem :=
  match s.splitOn "," with
  | ["P", u, c] => do pure (.publish (← parseUri u) (← parseContent c))
  | ["U", u, h, c] => do pure (.update (← parseUri u) (← h.toNat?) (← parseContent c))
  | ["W", u, h] => do pure (.withdraw (← parseUri u) (← h.toNat?))
  | _ => none

def showElem : Elem → String
  | .publish u c => s!"P,{showUri u},{showContent c}"
  | .update u h c => s!"U,{showUri u},{h},{showContent c}"
  | .withdraw u h => s!"W,{showUri u},{h}"

def parseElems (s : String) : Option (List Elem) :=
  if s == "-" || s == "" then some [] else (s.splitOn ";").mapM parseElem

def parseHandle (s : String) : Handle := s.splitOn "/"
def showHandle (h : Handle) : String := "/".intercalate h

def strLt (a b : String) : Bool := a < b
def sortStr (l : List String) : List String := sortBy strLt l
def sortKeyed (l : List (String × String)) : List String :=
  (sortBy (fun a b => a.1 < b.1) l).map (·.2)
def dash (l : List String) (sep : String) : String := if l.isEmpty then "-" else sep.intercalate l

def showObjs (o : Objs) : String :=
  ",".intercalate (sortStr (o.map fun p => s!"{showUri p.1}={showContent p.2}"))

def showElemsSorted (l : List Elem) : String := ";".intercalate (sortStr (l.map showElem))

/-! ## rendering the model state like the harness renders the implementation -/

def showL (s : Server) : String :=
  dash (sortKeyed (s.access.map fun p =>
    (showHandle p.1, s!"{showHandle p.1}@{showUri p.2}\{{showObjs (s.list p.1)}}"))) "|"

def showCp (s : Server) : String :=
  dash (sortStr (s.stats.map fun (h, n, sz) => s!"{showHandle h}:{n}:{sz}")) ","

def showSnap (r : Rrdp) : String :=
  dash (sortKeyed (r.snapshot.map fun p => (showHandle p.1, s!"{showHandle p.1}\{{showObjs p.2}}"))) "|"

def showStg (r : Rrdp) : String :=
  dash (sortKeyed (r.staged.map fun p =>
    (showHandle p.1, s!"{showHandle p.1}\{{showElemsSorted p.2}}"))) "|"

def showDl (r : Rrdp) : String :=
  dash (r.deltas.map fun d => s!"{d.serial}:r{d.rnd}\{{showElemsSorted d.elems}}") "|"

def showSeg : Seg → String
  | .sess n => s!"S{n}"
  | .num n => toString n
  | .rnd n => s!"r{n}"
  | .name s => s

def showPath (p : Path) : String := "/".intercalate (p.map showSeg)

def parseSeg (s : String) : Seg :=
  if s.startsWith "S" && ((s.drop 1).toString.toNat?).isSome then .sess ((s.drop 1).toString.toNat!)
  else if s.startsWith "r" && ((s.drop 1).toString.toNat?).isSome then .rnd ((s.drop 1).toString.toNat!)
  else match s.toNat? with
    | some n => .num n
    | none => .name s

def parsePath (s : String) : Path := (s.splitOn "/").map parseSeg

def showRf (fs : RrdpFs) : String :=
  dash (sortStr (fs.map fun e => "rrdp/" ++ showPath e.1)) ","

def refFlag (fs : RrdpFs) (r : DataRef) : String :=
  match fs.get? r.path with
  | none => "missing"
  | some (.data d) => if d == r.data then "ok" else "badhash"
  | some _ => "badhash"

def showNf (fs : RrdpFs) : String :=
  match fs.notification with
  | none => "none"
  | some n =>
      s!"S{n.session}:{n.serial}:rrdp/{showPath n.snap.path}:{refFlag fs n.snap}/" ++
        dash (n.deltas.map fun d => s!"{d.1}:rrdp/{showPath d.2.path}:{refFlag fs d.2}") ","

def showSf (fs : RrdpFs) : String :=
  match fs.notification with
  | none => ""
  | some n =>
      match fs.get? n.snap.path with
      | some (.data (.snapshot s ser objs)) => s!"S{s}:{ser}\{{showObjs objs}}"
      | some _ => "parse-err"
      | none => "none"

def showDf (fs : RrdpFs) : String :=
  match fs.notification with
  | none => ""
  | some n =>
      dash (n.deltas.filterMap fun d =>
        match fs.get? d.2.path with
        | some (.data (.delta s ser elems)) => some s!"{d.1}:S{s}:{ser}\{{showElemsSorted elems}}"
        | some _ => some s!"{d.1}:parse-err"
        | none => none) "|"

def showRaw : Raw → String
  | .clean c => showContent c
  | .garbage => "?"

def showRs (fs : RsyncFs) : String :=
  dash (sortKeyed (fs.map fun e =>
    (e.1.name, s!"{e.1.name}\{{",".intercalate (sortStr (e.2.map fun f => s!"{"/".intercalate f.1}={showRaw f.2}"))}}"))) "|"

/-! ## observations of the implementation (for the oracle) -/

structure PubObs where
  handle : String
  base   : String
  objs   : Objs
deriving Repr, Inhabited

/-- `name{a,b,c}` → `(name, [a,b,c])`. -/
def splitBraces (s : String) : String × List String :=
  match s.splitOn "{" with
  | [name, rest] =>
      let body := (rest.dropEndWhile (· == '}')).toString
      (name, if body == "" then [] else body.splitOn ",")
  | _ => (s, [])

def parseKV (s : String) : Option (Uri × Content) :=
  match s.splitOn "=" with
  | [u, c] => do pure (key (← parseUri u), ← parseContent c)
  | _ => none

def parseObjsList (items : List String) : Objs := items.filterMap parseKV

def parseL (s : String) : List PubObs :=
  if s == "-" || s == "" then [] else
  (s.splitOn "|").map fun p =>
    let (head, items) := splitBraces p
    match head.splitOn "@" with
    | [h, b] => ⟨h, b, parseObjsList items⟩
    | _ => ⟨head, "-", parseObjsList items⟩

structure DeltaObs where
  serial : Nat
  flag   : String
  /-- session token and serial written inside the file, elements in document order -/
  inner  : Option (String × Nat × List Elem)
deriving Repr, Inhabited

structure FileObs where
  /-- `none`: no parsable notification -/
  nf      : Option (String × Nat)
  snapFlag : String
  deltas  : List DeltaObs
  sf      : Option (String × Nat × Objs)
  rs      : List (String × List (String × String))
deriving Repr, Inhabited

def splitBracesSemi (s : String) : String × List String :=
  match s.splitOn "{" with
  | [name, rest] =>
      let body := (rest.dropEndWhile (· == '}')).toString
      (name, if body == "" then [] else body.splitOn ";")
  | _ => (s, [])

def parseFiles (ows : List String) : Option FileObs :=
  match kv? ows "nf" with
  | none => none
  | some nfS =>
    let rs : List (String × List (String × String)) :=
      match kv? ows "rs" with
      | none => []
      | some "-" => []
      | some s => (s.splitOn "|").map fun t =>
          let (n, items) := splitBraces t
          (n, items.filterMap fun it => match it.splitOn "=" with
            | [a, b] => some (a, b)
            | _ => none)
    if nfS == "none" then some ⟨none, "", [], none, rs⟩ else
    match nfS.splitOn "/" with
    | [] => none
    | _ =>
      -- `S1:3:<path>:<flag>/<deltas>`: the path contains '/', so split at the last "/"…
      -- the delta list never contains the substring ":ok/" etc., so split on the flag.
      let parts := nfS.splitOn ":"
      match parts with
      | sess :: serial :: rest =>
        let tail := ":".intercalate rest          -- `<path>:<flag>/<deltas>`
        -- flag is one of ok|missing|badhash followed by '/'
        let findFlag : Option (String × String) :=
          ["ok", "missing", "badhash"].findSome? fun f =>
            match tail.splitOn (":" ++ f ++ "/") with
            | [_, d] => some (f, d)
            | _ => none
        match findFlag with
        | none => none
        | some (flag, dS) =>
          let dfS := (kv? ows "df").getD "-"
          let dfs : List (Nat × Option (String × Nat × List Elem)) :=
            if dfS == "-" then [] else (dfS.splitOn "|").filterMap fun t =>
              let (head, items) := splitBracesSemi t
              match head.splitOn ":" with
              | [d, s, ser] => match d.toNat?, ser.toNat? with
                  | some d, some ser => some (d, some (s, ser, items.filterMap parseElem))
                  | _, _ => none
              | [d, _] => d.toNat?.map fun d => (d, none)
              | _ => none
          let deltas : List DeltaObs :=
            if dS == "-" then [] else (dS.splitOn ",").filterMap fun t =>
              let ps := t.splitOn ":"
              match ps.head?, ps.getLast? with
              | some d, some fl => d.toNat?.map fun d =>
                  ⟨d, fl, (dfs.find? (·.1 == d)).bind (·.2)⟩
              | _, _ => none
          let sf : Option (String × Nat × Objs) :=
            match kv? ows "sf" with
            | none => none
            | some s =>
              let (head, items) := splitBraces s
              match head.splitOn ":" with
              | [ss, ser] => ser.toNat?.map fun ser => (ss, ser, parseObjsList items)
              | _ => none
          some ⟨some (sess, natOr serial 0), flag, deltas, sf, rs⟩
      | _ => none

/-! ## driver state -/

structure InitCfg where
  base : Uri
  cfg : Cfg
  minNr : Nat
  maxNr : Nat
deriving Repr, Inhabited

structure Impl where
  pubs   : List PubObs := []
  sess   : String := ""
  serial : Nat := 0
  files  : Option FileObs := none
  /-- snapshots a client has seen: (session, serial) ↦ objects -/
  seen   : List ((String × Nat) × Objs) := []
  /-- the last write was interrupted or failed -/
  lastWriteBroken : Bool := false
  /-- an interruption left `new-notification.xml` behind -/
  staleNewNotif : Bool := false
  /-- an interruption left a `tmp-` directory behind -/
  staleTmp : Bool := false
  /-- class of shared / clashing URIs seen so far in the case -/
  sticky : String := ""
  /-- why `notification.xml` cannot be parsed (kept while it stays unparsable) -/
  badNotif : String := ""
  /-- the same for the copy of the files taken by `fsave` -/
  bakBad : String := ""
deriving Repr, Inhabited

structure St where
  srv    : Option Server := none
  rfs    : RrdpFs := []
  sfs    : RsyncFs := []
  bak    : Option (RrdpFs × RsyncFs) := none
  dead   : Bool := false
  synced : Bool := true
  impl   : Impl := {}
  maxNr  : Nat := 0
  minNr  : Nat := 0
  young  : Bool := false
  prop   : String := ""
  /-- an oracle predicate failed earlier in this case: the implementation has left the envelope
  in which the model is deterministic (shared URIs make hash-map order observable) -/
  taint  : Bool := false
  /-- a delta naming a URI twice was accepted: the history is outside the quantifier of the
  properties (each URI at most once per delta); only the model is compared from then on -/
  outside : Bool := false
deriving Inhabited

def parseSecs (s : String) : Bool := s == "H"   -- true = huge

/-! ## oracle: executable property predicates on the implementation's observations -/

def objsSubsetEq (a b : Objs) : Bool := a.all fun p => b.get? p.1 == some p.2
def objsEquiv (a b : Objs) : Bool := objsSubsetEq a b && objsSubsetEq b a && a.length == b.length

def hasDupKeys (o : Objs) : Bool :=
  let rec go : Objs → Bool
    | [] => false
    | p :: rest => rest.any (·.1 == p.1) || go rest
  go o

/-- The handles `a`, `b` have nested jails: one is a `/`-segment prefix of the other, or one of
them is `ta`. -/
def nestedHandles (a b : Handle) : Bool :=
  a.isPrefixOf b || b.isPrefixOf a || a == taHandle || b == taHandle

def anyNested (pubs : List PubObs) : Bool :=
  pubs.any fun p => pubs.any fun q =>
    p.handle != q.handle && nestedHandles (parseHandle p.handle) (parseHandle q.handle)

/-- Two URIs that are equal for `uri::Rsync` but different object keys. -/
def schemeCaseClash (us : List Uri) : Bool :=
  us.any fun u => us.any fun v => rsEq u v && key u != key v

def allKeys (pubs : List PubObs) : List Uri := pubs.flatMap fun p => p.objs.map (·.1)

/-- Class of a shared / duplicated URI. -/
def sharedClass (pubs : List PubObs) (extra : List Uri) : String :=
  if schemeCaseClash (allKeys pubs ++ extra) then "scheme-case"
  else if anyNested pubs then "nested-jails"
  else "unexplained"

def sharedUris (pubs : List PubObs) : Bool :=
  pubs.any fun p => pubs.any fun q =>
    p.handle != q.handle && p.objs.any fun o => q.objs.any fun o' => rsEq o.1 o'.1

def selfClash (pubs : List PubObs) : Bool :=
  pubs.any fun p => p.objs.any fun o => p.objs.any fun o' => o.1 != o'.1 && rsEq o.1 o'.1

def c10 : List String := ["publish_iff", "publish_atomic", "staging_refines", "rrdp_update_preserves",
  "isolation", "jails_disjoint_iff", "remove_exact", "list_reply"]

def propOf (pred : String) : String :=
  let name := (pred.splitOn "[").headD pred
  if c10.contains name then "C10" else "C11"

def elemCond (objs : Objs) (jail : Uri) (e : Elem) : Bool := (checkElem objs jail e).isNone

/-- Strict client over observed deltas; `none` = a delta does not apply. -/
def clientFrom (held : Objs) (chain : List (List Elem)) : Option Objs := catchUp held chain

def dupUris (d : Delta) : Bool :=
  let rec go : List Elem → Bool
    | [] => false
    | e :: rest => rest.any (fun e' => rsEq e.uri e'.uri) || go rest
  go d

/-- Class of a failure caused by URIs that are equal for `uri::Rsync` but different object keys
(F-C10-2), or by publishers with nested jails sharing a URI (F-C10-1); `sticky` is what was
seen earlier in the case. -/
def globalClass (pubs : List PubObs) (extra : List Uri) (sticky : String) : String :=
  if schemeCaseClash (allKeys pubs ++ extra) then "scheme-case"
  else if sharedUris pubs && anyNested pubs then "nested-jails"
  else sticky

def tagWith (cls : String) (pred : String) : String :=
  if cls == "" || pred.contains '[' then pred else s!"{pred}[{cls}]"

def cpOf (ows : List String) (h : String) : Option Nat :=
  match kv? ows "cp" with
  | none => none
  | some s => if s == "-" then none else
    (s.splitOn ",").findSome? fun t => match t.splitOn ":" with
      | [a, n, _] => if a == h then n.toNat? else none
      | _ => none

def oracle (st : St) (pre : Impl) (op : List String) (ret : String) (ows : List String)
    (post : Impl) : List String := Id.run do
  if ret == "panic" then
    return [s!"deltas_le_max[{if st.maxNr == 0 then "underflow" else "panic"}]"]
  let mut c10 : List String := []     -- per-publisher predicates (tagged with the publisher's class)
  let mut glob : List String := []    -- predicates about the repository as a whole
  let mut other : List String := []   -- predicates with their own classes
  let prePub := fun (h : String) => pre.pubs.find? (·.handle == h)
  let postPub := fun (h : String) => post.pubs.find? (·.handle == h)
  let others := fun (h : String) =>
    pre.pubs.all fun p => p.handle == h ||
      (match postPub p.handle with
       | some q => objsEquiv p.objs q.objs
       | none => false)
  let opk := op.headD ""
  let mut pubClass := ""
  if (kv? ows "lm").getD "0" != "0" then c10 := c10 ++ ["list_reply"]
  -- no URI held by two publishers
  if sharedUris post.pubs && !(sharedUris pre.pubs) then glob := glob ++ ["isolation"]
  match op with
  | "pub" :: h :: spec :: _ =>
    match parseElems spec with
    | none => pure ()
    | some d =>
      let accepted := ret == "ok"
      match prePub h with
      | none => if accepted then c10 := c10 ++ ["publish_iff[unregistered]"]
      | some p =>
        let postKeys := match postPub h with | some q => q.objs.map (·.1) | none => []
        if schemeCaseClash (p.objs.map (·.1) ++ postKeys ++ d.map (·.uri)) then pubClass := "scheme-case"
        match parseUri p.base with
        | none => pure ()
        | some jail =>
          let should := d.isEmpty || d.all (elemCond p.objs jail)
          -- with the URI equality of rpki-rs a published URI equal to a held one is not new
          let clash := d.any fun e => e.isPublish && p.objs.any fun o => rsEq o.1 e.uri && o.1 != key e.uri
          if accepted != should then c10 := c10 ++ ["publish_iff"]
          else if accepted && clash then c10 := c10 ++ ["publish_iff[scheme-case]"]
          if !accepted then
            if !(pre.pubs.all fun q => match postPub q.handle with
                  | some q' => objsEquiv q.objs q'.objs
                  | none => false) then c10 := c10 ++ ["publish_atomic"]
          else
            match postPub h with
            | none => c10 := c10 ++ ["staging_refines"]
            | some p' =>
              if !(objsEquiv p'.objs (applyDelta p.objs d)) || selfClash [p'] then
                c10 := c10 ++ ["staging_refines"]
          if !(others h) then c10 := c10 ++ ["isolation"]
  | "rmpub" :: h :: _ =>
    match prePub h with
    | some p => if schemeCaseClash (p.objs.map (·.1)) then pubClass := "scheme-case"
    | none => pure ()
    if ret == "ok" then
      if (postPub h).isSome then c10 := c10 ++ ["remove_exact"]
      -- the content side must not keep objects of the removed publisher
      match cpOf ows h with
      | some n => if n != 0 then c10 := c10 ++ ["remove_exact"]
      | none => pure ()
    if !(others h) then c10 := c10 ++ ["remove_exact"]
  | "rmpubf" :: h :: _ =>
    -- after the faulty attempt and the retry the publisher is gone with all its objects, nothing else moved
    if (postPub h).isSome then c10 := c10 ++ ["removal_recoverable"]
    match cpOf ows h with
    | some n => if n != 0 then c10 := c10 ++ ["removal_recoverable"]
    | none => pure ()
    if !(others h) then c10 := c10 ++ ["remove_exact"]
  | "addpub" :: h :: _ =>
    if !(others h) then c10 := c10 ++ ["isolation"]
    for p in post.pubs do
      for q in post.pubs do
        if p.handle != q.handle then
          match parseUri p.base, parseUri q.base with
          | some a, some b =>
            let overlap := eqModule a b && (a.segs.isPrefixOf b.segs || b.segs.isPrefixOf a.segs)
            if overlap != nestedHandles (parseHandle p.handle) (parseHandle q.handle) then
              c10 := c10 ++ ["jails_disjoint_iff"]
          | _, _ => pure ()
  | _ => pure ()
  let writer := ["update", "reset", "delete", "write", "init"].contains opk
  if (writer && opk != "delete") || opk == "frestore" || opk == "fsave" || opk == "listq" then
    if !(others "") then c10 := c10 ++ ["rrdp_update_preserves"]
  -- serial and session
  if opk != "init" && pre.sess != "" && ret != "panic" then
    if post.sess != pre.sess then
      if opk != "reset" then other := other ++ ["session_changes_only_on_reset"]
      else if post.serial != 1 then other := other ++ ["session_changes_only_on_reset"]
    else
      if opk == "update" && ret != "none" && ret != "later" then
        if post.serial != pre.serial + 1 then other := other ++ ["serial_plus_one"]
      else if opk == "delete" then
        if post.serial < pre.serial || post.serial > pre.serial + 2 then other := other ++ ["serial_plus_one"]
      else if opk == "reset" then other := other ++ ["session_changes_only_on_reset"]
      else if post.serial != pre.serial then other := other ++ ["serial_plus_one"]
  -- files
  let mut extra : List Uri := []
  if writer || opk == "frestore" then
    match post.files with
    | none => pure ()
    | some f =>
      match f.nf with
      | none => other := other ++ [s!"notification_consistent[{post.badNotif}]"]
      | some (ns, nser) =>
        let flagsOk := f.snapFlag == "ok" && f.deltas.all (·.flag == "ok")
        if !flagsOk then other := other ++ ["notification_consistent"]
        let serials := f.deltas.map (·.serial)
        let contig := (serials.zipIdx.all fun (s, i) => s + i == nser) && serials.length < nser
        if !contig then other := other ++ ["deltas_contiguous"]
        if serials.length > st.maxNr then
          let cls := if st.maxNr == 0 then "max_nr=0" else if st.minNr + 1 > st.maxNr then "min_nr>=max_nr"
            else if st.young then "young" else "unexplained"
          other := other ++ [s!"deltas_le_max[{cls}]"]
        let innerOk := f.deltas.all fun d => match d.inner with
          | some (s, ser, _) => s == ns && ser == d.serial
          | none => d.flag != "ok"
        let sfOk := match f.sf with
          | some (s, ser, _) => s == ns && ser == nser
          | none => f.snapFlag != "ok"
        if !(innerOk && sfOk) then other := other ++ ["notification_consistent[inner]"]
        match f.sf with
        | none => pure ()
        | some (_, _, sobjs) =>
          extra := sobjs.map (·.1) ++ (f.deltas.flatMap fun d => match d.inner with
            | some (_, _, es) => es.map (·.uri) | none => [])
          if ns == post.sess && nser == post.serial then
            let snapS := (kv? ows "snap").getD "-"
            let flat : Objs := if snapS == "-" then [] else
              (snapS.splitOn "|").flatMap fun t => parseObjsList (splitBraces t).2
            if !(objsEquiv sobjs flat) || hasDupKeys sobjs then glob := glob ++ ["snapshot_is_state"]
            else if opk == "update" && ret == "done" then
              -- everything the registered publishers list is in the snapshot
              let all : Objs := post.pubs.flatMap (·.objs)
              if !(objsSubsetEq all sobjs) then glob := glob ++ ["snapshot_is_state"]
          -- a client that saw any earlier serial of this session catches up
          let mut bad := false
          for ((ss, sser), held) in pre.seen do
            if ss == ns && sser ≤ nser then
              let need := (List.range (nser - sser)).map (· + sser + 1)
              let chain := need.filterMap fun s =>
                (f.deltas.find? (·.serial == s)).bind fun d => d.inner.map (·.2.2)
              if chain.length == need.length then
                match clientFrom held chain with
                | some r => if !(objsEquiv r sobjs) then bad := true
                | none => bad := true
          if bad then glob := glob ++ ["client_catches_up"]
          -- rsync
          let completed := ret == "ok" || ret == "done"
          if writer && completed && ns == post.sess && nser == post.serial then
            let cur := f.rs.find? (·.1 == "current")
            match cur, st.srv with
            | some (_, files), some srv =>
              let exp := (rsyncFiles srv.base sobjs).map fun p => ("/".intercalate p.1, showContent p.2)
              let same := exp.all (fun e => files.contains e) && files.all (fun e => exp.contains e)
              if !same then
                let clashPaths := exp.any fun e => exp.any fun e' => e.1 == e'.1 && e.2 != e'.2
                if pre.staleTmp && !clashPaths && !(hasDupKeys sobjs) then
                  other := other ++ ["rsync_equals_snapshot[stale-tmp]"]
                else glob := glob ++ ["rsync_equals_snapshot"]
            | none, _ => other := other ++ ["rsync_equals_snapshot[no-current]"]
            | _, none => pure ()
    if writer && ret == "ioerr" then
      let cls := match pre.files with
        | some f => if (f.rs.any fun e => e.1 == "old" && !e.2.isEmpty) && (f.rs.any fun e => e.1 == "current")
            then "[old-left-behind]" else ""
        | none => ""
      other := other ++ [s!"rsync_write_after_any_cut{cls}"]
  let gcls := globalClass (pre.pubs ++ post.pubs) extra pre.sticky
  let pcls := if pubClass != "" then pubClass else if gcls == "scheme-case" || gcls == "nested-jails" then pre.sticky else ""
  return ((c10.map (tagWith pcls)) ++ (glob.map (tagWith gcls)) ++ other).eraseDups

/-! ## the model step -/

def parseLog (s : String) : List Sig × List Sig :=
  if s == "-" || s == "" then ([], []) else
  let entries := (s.splitOn ",").filterMap fun e =>
    match e.splitOn ":" with
    | [kind, p] =>
      match p.splitOn ">" with
      | [a, b] => some (kind, a, b)
      | [a] => some (kind, a, "")
      | _ => none
    | _ => none
  let strip := fun (pre : String) (p : String) => (p.drop pre.length).toString
  let rr := entries.filter fun (_, a, _) => a.startsWith "rrdp/"
  let rs := entries.filter fun (_, a, _) => a.startsWith "rsync/"
  (rr.map fun (k, a, b) => ⟨k, parsePath (strip "rrdp/" a), if b == "" then [] else parsePath (strip "rrdp/" b)⟩,
   rs.map fun (k, a, b) => ⟨k, (((strip "rsync/" a).splitOn "/").map Seg.name),
      if b == "" then [] else (((strip "rsync/" b).splitOn "/").map Seg.name)⟩)

/-- Outcome of the file-writing part. -/
structure WriteOut where
  rfs : RrdpFs
  sfs : RsyncFs
  /-- `ok` | `cut` | `ioerr` | `nomatch <why>` -/
  res : String
  branch : String

def doWrite (srv : Server) (rfs : RrdpFs) (sfs : RsyncFs) (logS : String) : WriteOut :=
  let (rl, sl) := parseLog logS
  let plan := rrdpPlan srv.rrdp rfs
  match matchLog Mut.sig plan rl with
  | none => ⟨rfs, sfs, s!"nomatch rrdp-log plan={plan.map fun p => p.2.map fun m => (m.sig.kind, showPath m.sig.path)}", ""⟩
  | some (muts, rest) =>
    let rfs' := rfs.applyAll muts
    let rbranch := if plan.isEmpty then "rrdp-uptodate" else
      s!"rrdp-w{min (plan.headD (true, [])).2.length 4}c{min (muts.length - min muts.length ((plan.headD (true, [])).2.length)) 3}"
    if !planDone rest then
      if sl.isEmpty then ⟨rfs', sfs, "cut", s!"{rbranch}/cut-rrdp{min muts.length 6}"⟩
      else ⟨rfs', sfs, "nomatch rsync-log-after-rrdp-cut", ""⟩
    else
      let splan := rsyncPlan sfs srv.base srv.rrdp.serial (flatten srv.rrdp.snapshot)
      match matchLog RMut.sig splan sl with
      | none => ⟨rfs', sfs, s!"nomatch rsync-log plan={splan.map fun p => p.2.map fun m => (m.sig.kind, showPath m.sig.path)}", ""⟩
      | some (smuts, srest) =>
        let (sfs', allOk) := sfs.applyAll smuts
        let nfiles := (splan.getD 1 (false, [])).2.length
        let sb := s!"rsync-f{min nfiles 3}{if (sfs.get? .current).isSome then "c" else ""}{if (sfs.get? .old).isSome then "o" else ""}{if (sfs.get? (.tmp srv.rrdp.serial)).isSome then "t" else ""}"
        if !allOk then
          -- the failing mutation must be the last one of the log
          let okPrefix := (sfs.applyAll smuts.dropLast).2
          if okPrefix then ⟨rfs', sfs', "ioerr", s!"{rbranch}/{sb}/ioerr"⟩
          else ⟨rfs', sfs', "nomatch mutation-after-failure", ""⟩
        else if !planDone srest then ⟨rfs', sfs', "cut", s!"{rbranch}/{sb}/cut-rsync{min smuts.length 6}"⟩
        else ⟨rfs', sfs', "ok", s!"{rbranch}/{sb}/done"⟩

def tokNat (s : String) : Nat := ((s.drop 1).toString.toNat?).getD 0

/-- Random component of the delta with the given serial as observed (`dl=`). -/
def rndOfObs (dlS : String) (serial : Nat) : Nat :=
  if dlS == "-" then 0 else
  ((dlS.splitOn "|").findSome? fun t =>
    match ((t.splitOn "{").headD "").splitOn ":" with
    | [s, r] => if s.toNat? == some serial then some (tokNat r) else none
    | _ => none).getD 0

structure ModelOut where
  srv : Option Server
  rfs : RrdpFs
  sfs : RsyncFs
  bak : Option (RrdpFs × RsyncFs)
  ret : String
  branch : String
  files : Bool
  dead : Bool := false

def errStr : DeltaErr → String
  | .outside u => s!"outside,{showUri u}"
  | .present u => s!"present,{showUri u}"
  | .noMatch u => s!"nomatch,{showUri u}"

def replyStr : Reply → String
  | .ok => "ok"
  | .unknown => "unknown"
  | .dup => "dup"
  | .badBase => "err"
  | .refused e => errStr e

def branchOfPublish (srv : Server) (h : Handle) (d : Delta) (r : Reply) : String :=
  match r with
  | .ok =>
    if d.isEmpty then "empty" else
    let st := srv.rrdp.stagedOf h
    let kinds := d.ordered.map fun e =>
      let sk := match Staged.findWith rsEq st e.uri with
        | some (.publish ..) => "P" | some (.update ..) => "U" | some (.withdraw ..) => "W" | none => "-"
      let ek := match e with | .publish .. => "p" | .update .. => "u" | .withdraw .. => "w"
      sk ++ ek
    "ok/" ++ "+".intercalate (sortStr kinds.eraseDups)
  | .refused (.outside _) => s!"outside/{min d.length 3}"
  | .refused (.present _) => s!"present/{min d.length 3}"
  | .refused (.noMatch _) => s!"nomatch/{min d.length 3}"
  | .unknown => "unknown"
  | _ => "other"

def modelStep (st : St) (op : List String) (ows : List String) : Option ModelOut :=
  let isS := (kv? ows "is").getD ""
  let dlS := (kv? ows "dl").getD "-"
  let logS := (kv? ows "mut").getD "-"
  let retO := (kv? ows "ret").getD ""
  let keep := fun (srv : Server) (ret branch : String) =>
    some (⟨some srv, st.rfs, st.sfs, st.bak, ret, branch, false, false⟩ : ModelOut)
  match op with
  | ["merge", sS, "|", dS] =>
    -- `StagedElements::merge_new_elements` alone (pure function, through a hook)
    match parseElems sS, parseElems dS with
    | some stg, some d =>
      let res := mergeNew stg d
      let kinds : List String := (Delta.ordered d).map fun e =>
        let sk := match Staged.findWith rsEq stg e.uri with
          | some (.publish ..) => "P" | some (.update ..) => "U" | some (.withdraw ..) => "W" | none => "-"
        let ek := match e with | .publish .. => "p" | .update .. => "u" | .withdraw .. => "w"
        sk ++ ek
      some { srv := st.srv, rfs := st.rfs, sfs := st.sfs, bak := st.bak,
             ret := if res.isEmpty then "-" else showElemsSorted res,
             branch := "+".intercalate (sortStr kinds.eraseDups), files := false }
    | _, _ => none
  | "init" :: args =>
    match parseUri ((kv? args "base").getD "") with
    | none => none
    | some base =>
      let minNr := natOr ((kv? args "minnr").getD "") 0
      let maxNr := natOr ((kv? args "maxnr").getD "") 0
      let cfg : Cfg := ⟨minNr, maxNr, parseSecs ((kv? args "minsecs").getD "0"),
        !(parseSecs ((kv? args "maxsecs").getD "H")), parseSecs ((kv? args "interval").getD "0")⟩
      match isS.splitOn ":" with
      | [s, _, r] =>
        let srv : Server := ⟨base, cfg, [], Rrdp.create (tokNat s) (tokNat r)⟩
        let w := doWrite srv [] [] logS
        some ⟨some srv, w.rfs, w.sfs, none, if w.res == "ok" then "ok" else w.res, s!"{w.branch}", true, false⟩
      | _ => none
  | _ =>
  match st.srv with
  | none => none
  | some srv =>
  match op with
  | ["addpub", h] =>
    let (s', r) := srv.addPublisher (parseHandle h)
    keep s' (replyStr r) (replyStr r ++ (if (parseHandle h).length > 1 then "/nested" else ""))
  | ["rmpub", h] =>
    let (s', r) := srv.removePublisher (parseHandle h)
    keep s' (replyStr r) (replyStr r ++ (if (srv.rrdp.objectsFor (parseHandle h)).isEmpty then "/empty" else "/objects"))
  | ["rmpubf", h, _] =>
    -- `remove_publisher` with one failing key-value write, then the retry: whatever write failed, the
    -- two attempts together must have removed the publisher and its objects (`removal_recoverable`);
    -- the observed pair of replies is accepted when it is one a recoverable removal can give
    let (s', r) := srv.removePublisher (parseHandle h)
    let want := replyStr r
    match retO.splitOn "|" with
    | [r1, r2, hit] =>
      let good :=
        if want == "ok" then r1 == "ok" || r2 == "ok" || (r1 != "ok" && r2 == "unknown")
        else r2 == want && (r1 == want || hit == "hit")
      keep s' (if good then retO else want)
        (s!"{want}/{hit}/" ++ (if r1 == "ok" then "first" else if r2 == "ok" then "retry" else "both-steps-done"))
    | _ => keep s' want "?"
  | ["pub", h, spec] =>
    match parseElems spec with
    | none => if retO == "badop" then keep srv "badop" "bad" else none
    | some d =>
      let (s', r) := srv.publish (parseHandle h) d
      keep s' (replyStr r) (branchOfPublish srv (parseHandle h) d r)
  | ["listq", h] =>
    let o := srv.list (parseHandle h)
    let items := sortStr (o.map fun p => s!"{showUri p.1}={p.2.hash}")
    keep srv ("list{" ++ ",".intercalate items ++ "}") (if o.isEmpty then "empty" else "objects")
  | "update" :: _ =>
    let (s', r) := srv.update (rndOfObs dlS (srv.rrdp.serial + 1))
    match r with
    | .none => keep s' "none" "none"
    | .later => keep s' "later" "later"
    | .panic => some ⟨some s', st.rfs, st.sfs, st.bak, "panic", "panic", false, true⟩
    | .done =>
      let w := doWrite s' st.rfs st.sfs logS
      let trunc := s!"t{min (srv.rrdp.deltas.length + 1 - s'.rrdp.deltas.length) 2}n{min s'.rrdp.deltas.length 4}"
      some ⟨some s', w.rfs, w.sfs, st.bak, if w.res == "ok" then "done" else w.res, s!"{trunc}/{w.branch}", true, false⟩
  | "reset" :: _ =>
    match isS.splitOn ":" with
    | [s, _, r] =>
      -- an interrupted reset is observed after the state change as well
      let s' := srv.reset (tokNat s) (tokNat r)
      let w := doWrite s' st.rfs st.sfs logS
      some ⟨some s', w.rfs, w.sfs, st.bak, w.res, w.branch, true, false⟩
    | _ => none
  | "write" :: _ =>
    let w := doWrite srv st.rfs st.sfs logS
    some ⟨some srv, w.rfs, w.sfs, st.bak, w.res, w.branch, true, false⟩
  | "delete" :: u :: _ =>
    match parseUri u with
    | none => keep srv "baduri" "baduri"
    | some del =>
      let (s', panicked) := srv.delete del (rndOfObs dlS)
      if panicked then some ⟨some s', st.rfs, st.sfs, st.bak, "panic", "panic", false, true⟩
      else
        let w := doWrite s' st.rfs st.sfs logS
        some ⟨some s', w.rfs, w.sfs, st.bak, w.res, s!"d{s'.rrdp.serial - srv.rrdp.serial}/{w.branch}", true, false⟩
  | ["fsave"] => some ⟨some srv, st.rfs, st.sfs, some (st.rfs, st.sfs), "ok", "ok", false, false⟩
  | ["frestore"] =>
    match st.bak with
    | some (r, s) => some ⟨some srv, r, s, st.bak, "ok", "ok", true, false⟩
    | none => some ⟨some srv, st.rfs, st.sfs, st.bak, "nobackup", "nobackup", true, false⟩
  | _ => if retO == "badop" then keep srv "badop" "bad" else none

/-- Compares the model's rendering with the observed fields; returns the first difference. -/
def compareObs (m : ModelOut) (ows : List String) : Option String :=
  match m.srv with
  | none => none
  | some srv =>
    let r := srv.rrdp
    let exp : List (String × String) :=
      [("st", s!"S{r.session}:{r.serial}"), ("cp", showCp srv), ("L", showL srv),
       ("is", s!"S{r.session}:{r.serial}:r{r.snapRnd}"), ("snap", showSnap r), ("stg", showStg r),
       ("dl", showDl r)] ++
      (if m.files then
        [("rf", showRf m.rfs), ("nf", showNf m.rfs)] ++
        (if (m.rfs.notification).isSome then [("sf", showSf m.rfs), ("df", showDf m.rfs)] else []) ++
        [("rs", showRs m.sfs)]
       else [])
    exp.findSome? fun (k, v) =>
      let o := (kv? ows k).getD "<absent>"
      -- delta files are compared as sets of elements
      let o := if k == "df" && o != "-" && o != "<absent>" then
          "|".intercalate ((o.splitOn "|").map fun t =>
            let (hd, items) := splitBracesSemi t
            if t.contains '{' then hd ++ "{" ++ ";".intercalate (sortStr items) ++ "}" else t)
        else o
      if o == v then none else some s!"{k}: expected [{v}] observed [{o}]"

def updateImpl (pre : Impl) (op : List String) (ret : String) (ows : List String) : Impl :=
  let pubs := match kv? ows "L" with
    | some s => parseL s
    | none => pre.pubs
  let (sess, serial) := match (kv? ows "st").map (·.splitOn ":") with
    | some [s, n] => (s, natOr n 0)
    | _ => (pre.sess, pre.serial)
  let files := match parseFiles ows with
    | some f => some f
    | none => pre.files
  let seen := match parseFiles ows with
    | some f => match f.nf, f.sf with
      | some (ns, nser), some (ss, sser, objs) =>
        if ns == ss && nser == sser && !(pre.seen.any fun e => e.1 == (ns, nser)) then
          ((ns, nser), objs) :: pre.seen else pre.seen
      | _, _ => pre.seen
    | none => pre.seen
  let writer := ["update", "reset", "delete", "write"].contains (op.headD "")
  let broken := if writer then (ret == "cut" || ret == "ioerr") else pre.lastWriteBroken
  let rf := (kv? ows "rf").getD ""
  let staleNN := if (kv? ows "rf").isSome then (rf.splitOn ",").contains "rrdp/new-notification.xml" else pre.staleNewNotif
  let staleTmp := match files with
    | some f => f.rs.any fun e => e.1.startsWith "tmp-"
    | none => pre.staleTmp
  let extra : List Uri := match files with
    | some f => (match f.sf with | some (_, _, o) => o.map (·.1) | none => []) ++
        (f.deltas.flatMap fun d => match d.inner with | some (_, _, es) => es.map (·.uri) | none => [])
    | none => []
  let opUris : List Uri := match op with
    | "pub" :: _ :: spec :: _ => ((parseElems spec).getD []).map (·.uri)
    | _ => []
  let sticky := globalClass (pre.pubs ++ pubs) (extra ++ opUris) pre.sticky
  let badNotif := match files with
    | some f => if f.nf.isSome then "" else
        if op.headD "" == "frestore" && pre.bakBad != "" then pre.bakBad
        else if pre.badNotif != "" then pre.badNotif
        else if pre.staleNewNotif then "stale-new-notification" else "unparsable"
    | none => pre.badNotif
  let bakBad := if op.headD "" == "fsave" then pre.badNotif else pre.bakBad
  { pubs, sess, serial, files, seen, lastWriteBroken := broken, staleNewNotif := staleNN, staleTmp, sticky,
    badNotif, bakBad }

def step (st : St) (line : String) : St × String :=
  let (opS, obsS) := splitObs line
  let op := words opS
  let ows := words obsS
  let ret := (kv? ows "ret").getD ""
  if ret == "dead" then (st, "ok dead:dead")
  else if ret == "noinit" then (st, "ok noinit:trivial")
  else
  let post := updateImpl st.impl op ret ows
  -- remember configuration for the oracle
  let st := if op.headD "" == "init" then
      { st with maxNr := natOr ((kv? op "maxnr").getD "") 0, minNr := natOr ((kv? op "minnr").getD "") 0,
                young := parseSecs ((kv? op "minsecs").getD "0"),
                impl := {}, outside := false, taint := false }
    else st
  let st := match op with
    | "pub" :: _ :: spec :: _ =>
      if ret == "ok" && ((parseElems spec).map dupUris).getD false then { st with outside := true } else st
    | _ => st
  let pre := if op.headD "" == "init" then ({} : Impl) else st.impl
  let post := if op.headD "" == "init" then updateImpl {} op ret ows else post
  let forProp := fun (l : List String) => if st.prop == "" then l else l.filter fun p => propOf p == st.prop
  if !st.synced then
    let orc := if st.outside then [] else forProp (oracle st pre op ret ows post)
    let st' := { st with impl := post }
    if orc.isEmpty then (st', "skip unsynced") else (st', "FAIL oracle " ++ " ".intercalate orc)
  else
  match modelStep st op ows with
  | none => ({ st with impl := post }, "bad-op " ++ opS)
  | some m =>
    let st1 : St := { st with srv := m.srv, rfs := m.rfs, sfs := m.sfs, bak := m.bak, dead := m.dead, impl := post }
    let orcAll := oracle st1 pre op ret ows post
    -- histories outside the quantifier of the properties are only compared with the model
    let orc := if st1.outside then [] else forProp orcAll
    let osfx := if orc.isEmpty then "" else " ORACLE " ++ " ".intercalate orc
    -- the taint does not depend on which property is looked at
    let st1 := if orcAll.isEmpty then st1 else { st1 with taint := true }
    let mismatch : Option String :=
      if m.ret != ret then some s!"ret: expected [{m.ret}] observed [{ret}]"
      else if m.dead || op.headD "" == "merge" then none   -- `merge` lines carry no observation of the server
      else compareObs m ows
    match mismatch with
    | some diff =>
      if st.taint then
        ({ st1 with synced := false },
          if orc.isEmpty then s!"skip tainted {diff}" else "FAIL oracle " ++ " ".intercalate orc)
      else ({ st1 with synced := false }, s!"FAIL model {diff}{osfx}")
    | none =>
      if orc.isEmpty then (st1, s!"ok {op.headD ""}:{m.branch}")
      else (st1, "FAIL oracle " ++ " ".intercalate orc)

def main (prop : String) : IO Unit := do
  let stdin ← IO.getStdin
  let init : St := { prop }
  loop stdin init step init

end KM.Drv.Pubd
