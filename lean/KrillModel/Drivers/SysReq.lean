/- Driver `sysreq`: request-level all-or-nothing oracle over `system` traces (C05).
A request that is answered with an error must not have stored any successful command
(a refused change leaves configuration untouched); judged on the implementation's own
`cmds`.  `KM.Props.C05.child_request_not_atomic` proves on the model that the multi-field
child update violates this (finding F-C05-1). -/
import KrillModel.Drivers.Json
namespace KM.Drv.SysReq
open KM.Drv Lean

structure St where
  dummy : Unit := ()

/-- Ops that are a single API request of the daemon (the harness's composite ops `ca` and
`child` and task-running ops are not). -/
def singleRequest (op : String) : Bool :=
  op ∈ ["roa", "aspa", "bgpsec", "childres", "childupd", "childsuspend", "childunsuspend",
        "childmap", "childrm", "rollinit", "rollactivate", "updateid", "cainit"]

def step (st : St) (ws : List String) (j : Json) : St × String :=
  let op := ws.headD "?"
  let ret := jstr (jget j "ret")
  -- C09: a task claimed by hand was running while a change was committed; once it is finished
  -- the follow-up of that change must be pending (`guaranteed_methods_leave_pending`)
  if op == "finishclaimed" then
    (if ret == "ok:pending" then (st, "ok finishclaimed:followup-pending")
     else if ret == "ok:nothing-claimed" || ret == "ok:idle" then (st, "ok trivial:finishclaimed")
     else (st, s!"FAIL oracle followup_pending_after_commit {ret}")) else
  -- C09: after a start the store-wide recurring tasks are in the queue, whatever the instance held when it started
  -- (`recurring_scheduled_unconditionally`)
  if op == "recurring" then
    (if ret == "ok:all" then (st, "ok recurring:all-queued")
     else (st, s!"FAIL oracle recurring_scheduled_after_start {ret}")) else
  -- C16: no operation, request or background task run (`pump`, `sync`) may panic
  if ret.startsWith "PANIC" then (st, s!"FAIL oracle no_panic {op}") else
  if !singleRequest op then (st, s!"ok trivial:{op}") else
  let succ := (jarr (jget j "cmds")).filter fun c =>
    jstr (jget c "result") == "success" && (jstr (jget c "entity")).startsWith "cas:"
  if ret.startsWith "PANIC" then (st, "FAIL oracle no_panic")
  else if ret.startsWith "err" then
    if succ.isEmpty then (st, s!"ok {op}:refused-untouched")
    else
      let kinds := succ.map fun c => jstr (jpath c ["details", "type"])
      (st, s!"FAIL oracle refused_leaves_untouched {op} applied={kinds}")
  else (st, s!"ok {op}:accepted-{min succ.length 3}")

def main : IO Unit := do
  let stdin ← IO.getStdin
  jloop stdin ({} : St) step {}

end KM.Drv.SysReq
