/- Line-protocol driver for the stream `pure` (C05, C17, C16): every line is an independent
case `<op …> => <observation …>`.  For each line the driver

* runs the model on the inputs and compares with the observation (`FAIL model …`),
* evaluates the executable forms of the property predicates on the *implementation's own*
  output (`FAIL oracle <names>`),
* otherwise prints `ok <op>:<branch>`.

Token formats are described in `harness/src/bin/pure/tok.rs`. -/
import KrillModel.Bgp.Analyse
import KrillModel.Ca.Roa
import KrillModel.Ca.Aspa
import KrillModel.Ca.Bgpsec
import KrillModel.Input.Checked
import KrillModel.Drivers.Util
namespace KM.Drv.Pure
open KM.Bgp KM.Ca KM.Input KM.Drv

/-! ## parsing -/

def splitFirst (s sep : String) : Option (String × String) :=
  match s.splitOn sep with
  | a :: b :: rest => some (a, sep.intercalate (b :: rest))
  | _ => none

def splitLast (s sep : String) : Option (String × String) :=
  match (s.splitOn sep).reverse with
  | z :: y :: rest => some (sep.intercalate (y :: rest).reverse, z)
  | _ => none

def parseList {α} (f : String → Option α) (sep : String) (s : String) : Option (List α) :=
  if s == "-" || s == "" then some [] else (s.splitOn sep).mapM f

def parseFam : String → Option Family
  | "4" => some .v4
  | "6" => some .v6
  | _ => none

def parsePrefix (s : String) : Option Prefix := do
  let (f, rest) ← splitFirst s ":"
  let (a, l) ← splitFirst rest "/"
  pure ⟨← parseFam f, ← a.toNat?, ← l.toNat?⟩

def parsePayload (s : String) : Option Roa := do
  let (left, asn) ← splitLast s "@"
  let (pfx, ml) ← splitLast left "-"
  let m ← if ml == "x" then some none else ml.toNat?.map some
  pure ⟨← asn.toNat?, ← parsePrefix pfx, m⟩

def parseComment (s : String) : Option (Option String) :=
  if s == "-" then some none
  else if s.startsWith "c" then some (some (s.drop 1).toString) else none

def parseConf (s : String) : Option RoaConf := do
  let (p, c) ← splitFirst s "#"
  pure ⟨← parsePayload p, ← parseComment c⟩

def parseAnn (s : String) : Option Ann := do
  let (p, a) ← splitLast s "@"
  pure ⟨← a.toNat?, ← parsePrefix p⟩

def parseRange (s : String) : Option (Nat × Nat) := do
  let (a, b) ← splitFirst s "-"
  pure (← a.toNat?, ← b.toNat?)

/-- `a:LO-HI,4:LO-HI,6:LO-HI` -/
def parseBlocks (s : String) : Option ResSet := do
  let items ← parseList (fun t => do
      let (k, r) ← splitFirst t ":"
      pure (k, ← parseRange r)) "," s
  pure { asn := (items.filter (·.1 == "a")).map (·.2),
         v4 := (items.filter (·.1 == "4")).map (·.2),
         v6 := (items.filter (·.1 == "6")).map (·.2) }

def parseNatList (sep : String) (s : String) : Option (List Nat) :=
  if s == "" then some [] else (s.splitOn sep).mapM (·.toNat?)

def parseAspaDef (s : String) : Option AspaDef := do
  let (c, ps) ← splitFirst s ">"
  pure ⟨← c.toNat?, ← parseNatList "+" ps⟩

def parseProvUpdate (s : String) : Option ProvUpdate := do
  let (a, r) ← splitFirst s "|"
  pure ⟨← parseNatList "+" a, ← parseNatList "+" r⟩

/-! ## printing (must agree with the harness character for character) -/

def showFam : Family → String
  | .v4 => "4"
  | .v6 => "6"

def showPrefix (p : Prefix) : String := s!"{showFam p.fam}:{p.addr}/{p.len}"

def showPayload (r : Roa) : String :=
  let ml := match r.maxLen with
    | none => "x"
    | some m => toString m
  s!"{showPrefix r.pfx}-{ml}@{r.asn}"

def showComment : Option String → String
  | none => "-"
  | some s => "c" ++ s

def showConf (c : RoaConf) : String := s!"{showPayload c.payload}#{showComment c.comment}"

def showAnn (a : Ann) : String := s!"{showPrefix a.pfx}@{a.asn}"

def strLt (a b : String) : Bool := a < b

def sortStrs (l : List String) : List String := sortBy strLt l

def showList (sep : String) (l : List String) : String :=
  if l.isEmpty then "-" else sep.intercalate l

def showSorted (sep : String) (l : List String) : String := showList sep (sortStrs l)

def showRoutes (r : Routes) : String :=
  showSorted "," (r.map fun e => showConf ⟨e.1, e.2⟩)

def showRouteEv : RouteEv → String
  | .added p => "+" ++ showPayload p
  | .removed p => "~" ++ showPayload p
  | .comment p c => "!" ++ showPayload p ++ "#" ++ showComment c

def showNats (sep : String) (l : List Nat) : String := sep.intercalate (l.map toString)

def showAspaDef (d : AspaDef) : String := s!"{d.customer}>{showNats "+" d.providers}"

def showAspaEv : AspaEv → String
  | .added d => "+" ++ showAspaDef d
  | .removed c => s!"~{c}"
  | .updated c u => s!"!{c}>{showNats "+" u.added}|{showNats "+" u.removed}"

def showAspaErr : AspaErr → String
  | .customerUnknown c => s!"unknown {c}"
  | .providersEmpty c => s!"empty {c}"
  | .customerAsProvider c => s!"selfprovider {c}"
  | .providersDuplicates c => s!"duplicates {c}"
  | .notEntitled c => s!"notentitled {c}"

def showBlocks (r : ResSet) : String :=
  showList "," ((r.asn.map fun b => s!"a:{b.1}-{b.2}") ++ (r.v4.map fun b => s!"4:{b.1}-{b.2}") ++
    (r.v6.map fun b => s!"6:{b.1}-{b.2}"))

/-! ## helpers -/

def fail (kind msg : String) : String := s!"FAIL {kind} {msg}"

/-- Result of a line: model comparison first, oracle second. -/
def verdict (opk branch : String) (modelOk : Bool) (expected observed : String)
    (oracle : List String) : String :=
  if !modelOk then
    let o := if oracle.isEmpty then "" else " ORACLE " ++ " ".intercalate oracle
    fail "model" s!"{opk} expected [{expected}] observed [{observed}]{o}"
  else if !oracle.isEmpty then fail "oracle" (" ".intercalate oracle)
  else s!"ok {opk}:{branch}"

def obsRest (ows : List String) (skip : Nat) : String := " ".intercalate (ows.drop skip)

/-- The observation as one string; a panic (`panic <source location>`) is just `panic`. -/
def joinObs (ws : List String) : String :=
  if ws.head? == some "panic" then "panic" else " ".intercalate ws

/-- Observation words that are not `key=value` inputs echoed by the harness (`H=`, `P=`, …):
the first word that is `ok`, `err` or `panic` and everything after it. -/
def outcome (ows : List String) : List String :=
  ows.dropWhile (fun w => !(w == "ok" || w == "err" || w == "panic"))

def flagStr (l : List (Bool × String)) : String :=
  let s := String.join ((l.filter (·.1)).map (·.2))
  if s.isEmpty then "x" else s

/-! ## C05: ROA delta -/

def routesOfConfs (l : List RoaConf) : Routes :=
  -- built with `add` + `update_comment` like the harness does
  l.foldl (fun r c => (r.add c.payload).updateComment c.payload c.comment) []

/-- Final configuration the property asks for, over the payloads that can occur. -/
def expectedRoutes (r : Routes) (u : RoaUpdates) : List String :=
  let keys := (r.map (·.1) ++ u.added.map (·.payload)).eraseDups
  keys.filterMap fun p =>
    (Ca.Spec.expectedGet r u p).map fun c => showConf ⟨p, c⟩

def roaOp (ws ows : List String) : String :=
  match (do
    let state ← parseList parseConf "," (← kv? ws "S")
    let added ← parseList parseConf "," (← kv? ws "A")
    let removed ← parseList parsePayload "," (← kv? ws "R")
    let n ← kv? ws "n"
    let res ← parseBlocks (← kv? ows "H")
    pure (state, added, removed, n == "1", res)) with
  | none => "bad-op roa"
  | some (state, added, removed, norm, res) =>
    let routes := routesOfConfs state
    let u0 : RoaUpdates := ⟨added, removed⟩
    let u := if norm then u0.setExplicitMaxLength else u0
    let held := res.holdsCode
    let out := outcome ows
    let observed := joinObs out
    -- oracle inputs: the implementation's own verdict
    let spec := Ca.Spec.expectedErrors routes held u
    let implErr := out.head? == some "err"
    let implOk := out.head? == some "ok"
    let orc1 := if implErr == spec.isEmpty then ["roa_delta_iff"] else []
    let orc2 :=
      if implErr then
        let want := s!"err D={showList "," (spec.duplicates.map showConf)} N={showList "," (spec.notheld.map showConf)} U={showList "," (spec.unknowns.map showPayload)} I={showList "," (spec.invalidLength.map showConf)}"
        if want == observed then [] else ["roa_delta_errors_exact"]
      else []
    let orc3 :=
      if implOk then
        let x := (kv? out "X").getD "?"
        if x == showSorted "," (expectedRoutes routes u) then [] else ["roa_delta_all_or_nothing"]
      else []
    -- the property's own notion of holding: a block of the same family
    let orc4 :=
      if implOk && u.added.any (fun c => !(res.holdsSpec c.payload)) then ["held_same_family"] else []
    let orc := orc1 ++ orc2 ++ orc3 ++ orc4
    match processUpdates routes held u with
    | .error e =>
      let exp := s!"err D={showList "," (e.duplicates.map showConf)} N={showList "," (e.notheld.map showConf)} U={showList "," (e.unknowns.map showPayload)} I={showList "," (e.invalidLength.map showConf)}"
      let br := "err/" ++ flagStr [(!e.duplicates.isEmpty, "D"), (!e.notheld.isEmpty, "N"),
        (!e.unknowns.isEmpty, "U"), (!e.invalidLength.isEmpty, "I")] ++ (if norm then "/n" else "")
      verdict "roa" br (exp == observed) exp observed orc
    | .ok (r', evs) =>
      let exp := s!"ok S={showRoutes r'} E={showList "," (evs.map showRouteEv)} X={showRoutes (applyRouteEvs routes evs)}"
      let br := "ok/" ++ flagStr [
        (evs.any (fun e => match e with | .added _ => true | _ => false), "a"),
        (evs.any (fun e => match e with | .removed _ => true | _ => false), "r"),
        (evs.any (fun e => match e with | .comment _ _ => true | _ => false), "c")] ++
        (if norm then "/n" else "")
      verdict "roa" br (exp == observed) exp observed orc

/-! ## C05: ASPA -/

def normDefs (l : List AspaDef) : List String :=
  sortStrs (l.map fun d => showAspaDef { d with providers := sortNat d.providers })

def aspaOp (ws ows : List String) : String :=
  match (do
    let state ← parseList parseAspaDef "," (← kv? ws "S")
    let add ← parseList parseAspaDef "," (← kv? ws "A")
    let rem ← parseList (·.toNat?) "," (← kv? ws "R")
    let res ← parseBlocks (← kv? ows "H")
    pure (state, add, rem, res)) with
  | none => "bad-op aspa"
  | some (state, add, rem, res) =>
    let s : AspaDefs := state.foldl (fun acc d => acc.addOrReplace d) []
    let u : AspaUpdates := ⟨add, rem⟩
    let holds := res.containsAsn
    let out := outcome ows
    let observed := joinObs out
    let implErr := out.head? == some "err"
    let implOk := out.head? == some "ok"
    -- property: refused iff some removal or definition is bad
    let badRem := (List.range rem.length).any fun i =>
      Ca.Spec.badRemove s (rem.take i) (rem.getD i 0)
    let badAdd := add.any (Ca.Spec.badDef holds)
    let orc1 := if implErr == (badRem || badAdd) then [] else ["aspa_update_iff"]
    -- accepted: the configuration after the events is the one the objects were made from
    let orc2 :=
      if implOk then
        match kv? out "S", kv? out "X" with
        | some sS, some xS =>
          match parseList parseAspaDef "," sS, parseList parseAspaDef "," xS with
          | some a, some b => if normDefs a == normDefs b then [] else ["aspa_events_match_result"]
          | _, _ => ["unparsable-aspa-state"]
        | _, _ => ["unparsable-aspa-state"]
      else []
    let orc := orc1 ++ orc2
    match aspaProcessUpdates s holds u with
    | .error e =>
      let exp := "err " ++ showAspaErr e
      let br := "err/" ++ ((showAspaErr e).splitOn " ").headD ""
      verdict "aspa" br (exp == observed) exp observed orc
    | .ok (all, evs) =>
      let exp := s!"ok S={showSorted "," (all.map showAspaDef)} E={showList "," (evs.map showAspaEv)} X={showSorted "," ((applyAspaEvs s evs).map showAspaDef)}"
      let br := "ok/" ++ flagStr [
        (evs.any (fun e => match e with | .added _ => true | _ => false), "a"),
        (evs.any (fun e => match e with | .removed _ => true | _ => false), "r"),
        (evs.any (fun e => match e with | .updated _ _ => true | _ => false), "u")]
      verdict "aspa" br (exp == observed) exp observed orc

def aspaxOp (ws ows : List String) : String :=
  match (do
    let state ← parseList parseAspaDef "," (← kv? ws "S")
    let c ← (← kv? ws "C").toNat?
    let u ← parseProvUpdate (← kv? ws "U")
    let res ← parseBlocks (← kv? ows "H")
    pure (state, c, u, res)) with
  | none => "bad-op aspax"
  | some (state, c, u, res) =>
    let s : AspaDefs := state.foldl (fun acc d => acc.addOrReplace d) []
    let holds := res.containsAsn
    let out := outcome ows
    let observed := joinObs out
    -- property: refused iff the update would leave a non-empty definition for a customer
    -- that is not held or that names itself
    let existing : AspaDef := (s.get? c).getD ⟨c, []⟩
    let upd := existing.applyUpdate u
    let bad := upd != existing && !upd.providers.isEmpty && (!(holds c) || upd.providers.contains c)
    let orc := if (out.head? == some "err") == bad then [] else ["aspa_existing_iff"]
    match updatedAllowedAndNeeded s holds c u with
    | .error e =>
      let exp := "err " ++ showAspaErr e
      verdict "aspax" ("err/" ++ ((showAspaErr e).splitOn " ").headD "") (exp == observed) exp observed orc
    | .ok needed =>
      let s' := if needed then applyAspaEv s (.updated c u) else s
      let exp := s!"ok {if needed then "1" else "0"} X={showSorted "," (s'.map showAspaDef)}"
      let br := if !needed then "noop" else if (s'.get? c).isNone then "removes" else
        if (s.get? c).isNone then "creates" else "changes"
      verdict "aspax" ("ok/" ++ br) (exp == observed) exp observed orc

/-! ## C05: BGPsec -/

def parsePair (s : String) : Option (Nat × Nat) := do
  let (a, b) ← splitFirst s "."
  pure (← a.toNat?, ← b.toNat?)

/-- pool entry `<key><v|i>` -/
def parsePool (s : String) : Option (List (Nat × Bool)) :=
  parseList (fun t =>
    let cs := t.toList
    match cs.reverse with
    | 'v' :: r => (String.ofList r.reverse).toNat?.map (·, true)
    | 'i' :: r => (String.ofList r.reverse).toNat?.map (·, false)
    | _ => none) "," s

def showBgpsecState (s : BgpsecDefs) : String :=
  showSorted "," (s.map fun e => s!"{e.1.asn}.{e.1.key}.{e.2.csr}")

def showBgpsecEv : BgpsecEv → String
  | .added k c => s!"+{k.asn}.{k.key}.{c.csr}"
  | .updated k c => s!"^{k.asn}.{k.key}.{c.csr}"
  | .removed k => s!"~{k.asn}.{k.key}"

def bgpsecOp (ws ows : List String) : String :=
  match (do
    let state ← parseList parsePair "," (← kv? ws "S")
    let add ← parseList parsePair "," (← kv? ws "A")
    let rem ← parseList parsePair "," (← kv? ws "R")
    let res ← parseBlocks (← kv? ows "H")
    let pool ← parsePool (← kv? ows "P")
    pure (state, add, rem, res, pool)) with
  | none => "bad-op bgpsec"
  | some (state, add, rem, res, pool) =>
    let keyOf (c : Nat) : Nat := (pool.getD c (0, false)).1
    let validOf (c : Nat) : Bool := (pool.getD c (0, false)).2
    let s : BgpsecDefs := state.foldl (fun acc (a, c) => acc.addOrReplace ⟨a, keyOf c⟩ ⟨0, c⟩) []
    let u : BgpsecUpdates :=
      ⟨add.map (fun (a, c) => ⟨a, keyOf c, c, validOf c⟩), rem.map (fun (a, k) => ⟨a, k⟩)⟩
    let holds := res.containsAsn
    let out := outcome ows
    let observed := joinObs out
    -- property: refused iff a removal names an unknown definition (or one already removed
    -- by this update), or an addition has a CSR that is not validly signed or an AS that is
    -- not held
    let badRem := (List.range u.remove.length).any fun i =>
      let k := u.remove.getD i ⟨0, 0⟩
      !(s.has k) || (u.remove.take i).contains k
    let badAdd := u.add.any fun d => !d.valid || !(holds d.asn)
    let orc := if (out.head? == some "err") == (badRem || badAdd) then [] else ["bgpsec_update_iff"]
    let render (now : Nat) : String × String :=
      match bgpsecProcessUpdates s holds now u with
      | .error (.unknown k) => (s!"err unknown {k.asn}.{k.key}", "err/unknown")
      | .error (.invalidlySigned a k) => (s!"err badsig {a}.{k}", "err/badsig")
      | .error (.notEntitled k) => (s!"err notentitled {k.asn}.{k.key}", "err/notentitled")
      | .ok (all, evs) =>
        (s!"ok S={showBgpsecState all} E={showList "," (evs.map showBgpsecEv)}",
         "ok/" ++ flagStr [
          (evs.any (fun e => match e with | .added _ _ => true | _ => false), "a"),
          (evs.any (fun e => match e with | .removed _ => true | _ => false), "r"),
          (evs.any (fun e => match e with | .updated _ _ => true | _ => false), "u")])
    -- `since` of the stored CSRs (0) lies before the clock reading of the request (1)
    let (e1, b1) := render 1
    verdict "bgpsec" b1 (e1 == observed) e1 observed orc

/-! ## C05: children -/

def parseChildren (s : String) : Option Children :=
  if s == "-" then some [] else
  (s.splitOn ";").mapM fun c =>
    match c.splitOn "~" with
    | [n, i, r] => do pure (n, ⟨← i.toNat?, ← parseBlocks r⟩)
    | _ => none

def showChildEv : ChildEv → String
  | .added h id r => s!"+{h}~{id}~{showBlocks r}"
  | .updatedResources h r => s!"r{h}~{showBlocks r}"
  | .updatedIdCert h id => s!"i{h}~{id}"

def showChildErr : ChildErr → String
  | .mustHaveResources => "mustHaveResources"
  | .extraResources => "extraResources"
  | .duplicate => "duplicate"
  | .unknown => "unknown"

def childOp (kind : String) (ws ows : List String) : String :=
  match (do
    let all ← parseBlocks (← kv? ows "H")
    let ch ← parseChildren (← kv? ows "CH")
    let rr ← parseBlocks (← kv? ows "RR")
    let name ← kv? ws "N"
    let id ← (← kv? ws "I").toNat?
    pure (all, ch, rr, name, id % 3)) with
  | none => "bad-op " ++ kind
  | some (all, ch, rr, name, id) =>
    -- the harness inserts children in order; later ones replace earlier ones of the same name
    let s : Children := ch.foldl (fun acc e => acc.insert e.1 e.2) []
    let out := outcome ows
    let observed := joinObs out
    let implErr := out.head? == some "err"
    let (res, orc) : Except ChildErr (List ChildEv) × List String :=
      match kind with
      | "childadd" =>
        (processChildAdd all s name id rr,
          if implErr == (rr.isEmpty || !(all.contains rr) || s.has name) then [] else ["child_add_iff"])
      | "childupd" =>
        (processChildUpdateResources all s name rr,
          -- (an update to the empty set is accepted: shrinking a child to nothing is legitimate)
          (if implErr == (!(all.contains rr) || !(s.has name)) then [] else ["child_update_iff"]))
      | _ =>
        (processChildUpdateIdCert s name id,
          if implErr == !(s.has name) then [] else ["child_id_iff"])
    match res with
    | .error e =>
      let exp := "err " ++ showChildErr e
      verdict kind ("err/" ++ showChildErr e) (exp == observed) exp observed orc
    | .ok evs =>
      let exp := s!"ok E={showList ";" (evs.map showChildEv)}"
      verdict kind (if evs.isEmpty then "ok/noop" else "ok/event") (exp == observed) exp observed orc

/-! ## C16 / C17: payload helpers -/

def mlvOp (ws ows : List String) : String :=
  match ws.getD 1 "" |> parsePayload with
  | none => "bad-op mlv"
  | some p =>
    let observed := joinObs ows
    let e := showPayload (setExplicitMaxLength p)
    let exp := s!"valid={if maxLengthValid p then 1 else 0} eff={p.effMax} exp={e} exp2={e}"
    let orc := if observed == "panic" then ["no_panic"] else []
    let br := (if maxLengthValid p then "valid" else "invalid") ++
      (if p.maxLen.isNone then "/implicit" else if p.effMax == p.pfx.len then "/equal"
       else if p.effMax == p.pfx.fam.bits then "/max" else "/other")
    verdict "mlv" br (exp == observed) exp observed orc

def nspOp (ws ows : List String) : String :=
  match ws.getD 1 "" |> parsePayload with
  | none => "bad-op nsp"
  | some p =>
    let observed := joinObs ows
    let exp := match nrOfSpecificPrefixes p with
      | some n => s!"some {n}"
      | none => "panic"
    -- property: krill's own arithmetic never panics, on no payload
    let orc := if observed == "panic" then ["validated_arith_total"] else []
    let br := if !(maxLengthValid p) then "unvalidated"
      else if p.effMax == p.pfx.len then "one" else if p.effMax - p.pfx.len ≥ 128 then "saturated"
      else if p.effMax - p.pfx.len == 127 then "max" else "some"
    verdict "nsp" br (exp == observed) exp observed orc

def covOp (ws ows : List String) : String :=
  match parsePrefix (ws.getD 1 ""), parsePrefix (ws.getD 2 "") with
  | some p, some q =>
    let observed := joinObs ows
    let c := if p.fam != q.fam then "x" else if p.covers q then "1" else "0"
    let exp := s!"cov={c} mls={if p.matchingOrLessSpecific q then 1 else 0}"
    let orc := (if observed == "panic" then ["no_panic"] else []) ++
      (if (coversChecked p q).isNone then ["covers_total"] else []) ++
      -- `covers` is range inclusion (well-formed prefixes, same family)
      (if p.fam == q.fam && (kv? ows "cov") != (kv? ows "mls").map (fun m => m) then ["covers_iff_range"] else [])
    let br := if p.fam != q.fam then "mixed" else
      (if p.covers q then "covers" else "not") ++
      (if p.len == q.len then "/eqlen" else if p.len == 0 then "/zero" else if p.len == p.fam.bits then "/full" else "/lt")
    verdict "cov" br (exp == observed) exp observed orc
  | _, _ => "bad-op cov"

def inclOp (ws ows : List String) : String :=
  match parsePayload (ws.getD 1 ""), parsePayload (ws.getD 2 "") with
  | some a, some b =>
    let observed := joinObs ows
    let exp := s!"inc={if a.includes b then 1 else 0} ovl={if a.overlaps b then 1 else 0}"
    verdict "incl" (s!"{if a.includes b then 1 else 0}{if a.overlaps b then 1 else 0}") (exp == observed) exp observed
      (if observed == "panic" then ["no_panic"] else [])
  | _, _ => "bad-op incl"

def hexVal (c : Char) : Option Nat :=
  if c.toNat ≥ 48 && c.toNat ≤ 57 then some (c.toNat - 48)
  else if c.toNat ≥ 97 && c.toNat ≤ 102 then some (c.toNat - 87) else none

def hexDecode (s : String) : Option ByteArray :=
  let rec go : List Char → ByteArray → Option ByteArray
    | [], acc => some acc
    | a :: b :: rest, acc => do
      let x ← hexVal a
      let y ← hexVal b
      go rest (acc.push (UInt8.ofNat (x * 16 + y)))
    | _, _ => none
  go s.toList ByteArray.empty

def aggkeyOp (ws ows : List String) : String :=
  match (hexDecode ((ws.getD 1 "").drop 1).toString).bind String.fromUTF8? with
  | none => "bad-op aggkey"
  | some s =>
    let observed := joinObs ows
    let exp := match roaAggregateKeyFromStr s.toList with
      | none => "panic"
      | some none => "none"
      | some (some (asn, g)) => s!"some {asn} {match g with | none => "-" | some x => toString x}"
    verdict "aggkey" ((exp.splitOn " ").headD "") (exp == observed) exp observed
      (if observed == "panic" then ["no_panic"] else [])

/-! ## C17: analyser -/

def showState : RState → String
  | .roaSeen => "seen" | .roaRedundant => "redundant" | .roaUnseen => "unseen"
  | .roaDisallowing => "disallowing" | .roaTooPermissive => "permissive" | .roaAs0 => "as0"
  | .roaAs0Redundant => "as0red" | .roaNotHeld => "notheld" | .annValid => "valid"
  | .annInvalidLength => "invlen" | .annInvalidAsn => "invasn" | .annDisallowed => "disallowed"
  | .annNotFound => "notfound" | .roaNoAnnouncementInfo => "noinfo"

def parseState : String → Option RState
  | "seen" => some .roaSeen | "redundant" => some .roaRedundant | "unseen" => some .roaUnseen
  | "disallowing" => some .roaDisallowing | "permissive" => some .roaTooPermissive
  | "as0" => some .roaAs0 | "as0red" => some .roaAs0Redundant | "notheld" => some .roaNotHeld
  | "valid" => some .annValid | "invlen" => some .annInvalidLength | "invasn" => some .annInvalidAsn
  | "disallowed" => some .annDisallowed | "notfound" => some .annNotFound
  | "noinfo" => some .roaNoAnnouncementInfo
  | _ => none

def showEntry (e : Entry) : String :=
  match e.subject with
  | .inl rc =>
    s!"R~{showConf rc}~{showState e.state}~{showSorted "+" (e.authorizes.map showAnn)}~{showSorted "+" (e.disallows.map showAnn)}~{showSorted "+" (e.madeRedundantBy.map showPayload)}"
  | .inr a =>
    s!"A~{showAnn a}~{showState e.state}~{match e.allowedBy with | none => "-" | some r => showPayload r}~{showSorted "+" (e.disallowedBy.map showPayload)}"

def parseEntry (s : String) : Option Entry :=
  match s.splitOn "~" with
  | ["R", c, st, au, di, re] => do
    pure { subject := .inl (← parseConf c), state := ← parseState st,
           authorizes := ← parseList parseAnn "+" au, disallows := ← parseList parseAnn "+" di,
           madeRedundantBy := ← parseList parsePayload "+" re }
  | ["A", a, st, by_, dby] => do
    pure { subject := .inr (← parseAnn a), state := ← parseState st,
           allowedBy := ← (if by_ == "-" then some none else (parsePayload by_).map some),
           disallowedBy := ← parseList parsePayload "+" dby }
  | _ => none

def showSuggestion (s : Suggestion) : String :=
  let confs (l : List RoaConf) := showSorted "," (l.map showConf)
  let anns (l : List Ann) := showSorted "," (l.map showAnn)
  let perm := showSorted "," (s.tooPermissive.map fun r =>
    s!"{showConf r.current}>{showSorted "+" (r.new_.map showPayload)}")
  s!"stale:{confs s.stale}|notfound:{anns s.notFound}|invasn:{anns s.invalidAsn}|invlen:{anns s.invalidLength}|permissive:{perm}|disallowing:{confs s.disallowing}|redundant:{confs s.redundant}|notheld:{confs s.notHeld}|as0red:{confs s.as0Redundant}|keep:{confs s.keep}|keepdis:{anns s.keepDisallowing}"

def parseSuggestion (s : String) : Option Suggestion := do
  let fields ← (s.splitOn "|").mapM (fun f => splitFirst f ":")
  let get (k : String) : Option String := (fields.find? (·.1 == k)).map (·.2)
  let confs (k : String) : Option (List RoaConf) := (get k).bind (parseList parseConf ",")
  let anns (k : String) : Option (List Ann) := (get k).bind (parseList parseAnn ",")
  let perm ← (get "permissive").bind (parseList (fun t => do
      let (c, n) ← splitFirst t ">"
      pure (⟨← parseConf c, ← parseList parsePayload "+" n⟩ : Replacement)) ",")
  pure { stale := ← confs "stale", notFound := ← anns "notfound", invalidAsn := ← anns "invasn",
         invalidLength := ← anns "invlen", tooPermissive := perm, disallowing := ← confs "disallowing",
         redundant := ← confs "redundant", notHeld := ← confs "notheld", as0Redundant := ← confs "as0red",
         keep := ← confs "keep", keepDisallowing := ← anns "keepdis" }

def stateOfSpec : Spec.State → List RState
  | .valid => [.annValid]
  | .invalid => [.annInvalidLength, .annInvalidAsn, .annDisallowed]
  | .notFound => [.annNotFound]

/-- Does the announcement stay (RFC 6811) valid under the ROA list. -/
def isValid (roas : List Roa) (a : Ann) : Bool := Spec.rfc6811 roas a == .valid

/-- Executable forms of the C17 predicates on the implementation's own report. -/
def anaOracle (i : AnalyseInput) (entries : List Entry) (sug : Suggestion) : List String :=
  let held := i.roasHeld.map (·.payload)
  let scopedAnns := i.scoped
  -- every announcement entry carries the RFC 6811 state of its announcement
  let o1 := if entries.all (fun e =>
      match e.subject with
      | .inr a => (stateOfSpec (Spec.rfc6811 held a)).contains e.state
      | .inl _ => true) then [] else ["validate_eq_rfc6811"]
  -- sub-kinds
  let o1b := if entries.all (fun e =>
      match e.subject with
      | .inr a =>
        let cov := held.filter (fun r => r.pfx.covers a.pfx)
        match e.state with
        | .annInvalidLength => cov.any (fun r => r.asn == a.asn)
        | .annInvalidAsn => cov.all (fun r => r.asn != a.asn) && cov.any (fun r => r.asn != 0)
        | .annDisallowed => !cov.isEmpty && cov.all (fun r => r.asn == 0 && r.asn != a.asn)
        | _ => true
      | .inl _ => true) then [] else ["invalid_iff"]
  -- and exactly the scoped announcements are reported
  let o2 := if sortStrs ((entries.filterMap (·.ann?)).map showAnn) == sortStrs (scopedAnns.map showAnn)
    then [] else ["scoped_announcements_exact"]
  -- per ROA sets
  let carries (e : Entry) : Bool :=
    e.state == .roaSeen || e.state == .roaTooPermissive || e.state == .roaRedundant ||
    e.state == .roaDisallowing || e.state == .roaUnseen
  let o3 := if entries.all (fun e =>
      match e.subject with
      | .inl rc =>
        if carries e && rc.payload.asn != 0 then
          sortStrs (e.authorizes.map showAnn) ==
            sortStrs ((scopedAnns.filter (fun a => rc.payload.matches a)).map showAnn)
        else true
      | .inr _ => true) then [] else ["authorizes_exact"]
  let o4 := if entries.all (fun e =>
      match e.subject with
      | .inl rc =>
        if carries e && rc.payload.asn != 0 then
          sortStrs (e.disallows.map showAnn) ==
            sortStrs ((scopedAnns.filter (fun a => rc.payload.pfx.covers a.pfx && !(isValid held a))).map showAnn)
        else true
      | .inr _ => true) then [] else ["disallows_exact"]
  -- an AS0 ROA must not list an announcement that validation finds valid
  let o5 := if entries.all (fun e =>
      match e.subject with
      | .inl _ => if e.state == .roaAs0 then e.disallows.all (fun a => !(isValid held a)) else true
      | .inr _ => true) then [] else ["as0_disallows_exact"]
  -- suggestions: each single proposal keeps every valid announcement valid
  let validNow := scopedAnns.filter (isValid held)
  let without (p : Roa) := held.filter (· != p)
  let singles : List (List Roa) :=
    (sug.stale ++ sug.redundant ++ sug.as0Redundant).map (fun rc => without rc.payload) ++
    sug.tooPermissive.map (fun r => without r.current.payload ++ r.new_)
  -- (hypothesis of the theorem: the held payloads are pairwise distinct, as the keys of a
  -- CA's route map are; the analyser itself accepts any list)
  let distinct := held.eraseDups.length == held.length
  let o6 := if !distinct || singles.all (fun roas => validNow.all (fun a => a.asn == 0 || isValid roas a))
    then [] else ["suggest_safe"]
  -- … and so does the whole suggestion applied at once
  let (added, removed) := sug.toUpdates
  let after := held.filter (fun r => !(removed.contains r)) ++ added.map (·.payload)
  let o7 := if !distinct || validNow.all (fun a => a.asn == 0 || isValid after a) then []
    else ["suggest_safe_combined"]
  o1 ++ o1b ++ o2 ++ o3 ++ o4 ++ o5 ++ o6 ++ o7

def anaOp (ws ows : List String) : String :=
  match (do
    let held ← parseBlocks (← kv? ows "H")
    let limS ← kv? ows "L"
    let lim ← if limS == "_" then some none else (parseBlocks limS).map some
    let scope ← parseList parsePrefix "," (← kv? ows "SC")
    let dS ← kv? ws "D"
    let data ← if dS == "_" then some none else (parseList parseAnn "," dS).map some
    let roas ← parseList parseConf "," (← kv? ws "R")
    pure (held, lim, scope, data, roas)) with
  | none => "bad-op ana"
  | some (held, lim, scope, data, roas) =>
    let i : AnalyseInput :=
      { roas := roas, held := held.holdsCode, limit := lim.map (fun l => l.holdsCode),
        scope := scope, seen := data }
    let out := outcome ows
    let observed := joinObs out
    match analyse i with
    | none =>
      -- the model predicts the arithmetic panic; it is a violation of C16 all the same
      verdict "ana" "panic" (observed == "panic") "panic" observed
        (if observed == "panic" then ["validated_arith_total"] else [])
    | some entries =>
      let sug := suggestOf entries
      let exp := s!"ok E={showSorted ";" (entries.map showEntry)} G={showSuggestion sug}"
      let orc :=
        if observed == "panic" then ["no_panic"] else
        match (kv? out "E").bind (parseList parseEntry ";"), (kv? out "G").bind parseSuggestion with
        | some ie, some isug => anaOracle i ie isug
        | _, _ => ["unparsable-report"]
      let states := (entries.map (fun e => showState e.state)).eraseDups
      -- the rarest feature of the report names the branch
      let order := ["permissive", "as0red", "as0", "redundant", "disallowing", "disallowed", "invlen",
        "invasn", "seen", "unseen", "valid", "notfound", "notheld"]
      let br := if data.isNone then "noinfo" else
        ((order.find? (fun s => states.contains s)).getD "empty") ++ (if lim.isSome then "/limit" else "")
      verdict "ana" br (exp == observed) exp observed orc

def mspOp (ws ows : List String) : String :=
  match (do
    let data ← parseList parseAnn "," (← kv? ws "D")
    let q ← parsePrefix (← kv? ws "Q")
    pure (data, q)) with
  | none => "bad-op msp"
  | some (data, q) =>
    let observed := joinObs ows
    let res := data.filter (fun a => q.covers a.pfx)
    let exp := showSorted "," (res.map showAnn)
    let br := if data.isEmpty then "empty" else if res.isEmpty then "none" else
      if res.length == data.length then "all" else "some"
    verdict "msp" br (exp == observed) exp observed (if observed == "panic" then ["no_panic"] else [])

/-! ## C16: decoding -/

def decOp (ws ows : List String) : String :=
  let kind := ws.getD 1 ""
  match ows.head? with
  | some "panic" => fail "oracle" "no_panic"
  | some "err" => s!"ok dec:{kind}/err"
  | some "ok" =>
    -- a decoded ROA delta comes with its content: the pipeline outcome must be the model's
    match kv? ows "A", kv? ows "R", kv? ows "out" with
    | some a, some r, some out =>
      match parseList parseConf "," a, parseList parsePayload "," r with
      | some added, some removed =>
        -- fixed state of the harness: empty routes, AS64496-AS64500 | 10.0.0.0/8 | 2001:db8::/32
        let res : ResSet :=
          { asn := [(64496, 64500)],
            v4 := [(10 * 2 ^ 120, 11 * 2 ^ 120 - 1)],
            v6 := [(0x20010db8 * 2 ^ 96, 0x20010db9 * 2 ^ 96 - 1)] }
        let u := (⟨added, removed⟩ : RoaUpdates).setExplicitMaxLength
        let m := match processUpdates [] res.holdsCode u with
          | .ok _ => "ok"
          | .error _ => "err"
        if m == out then s!"ok dec:{kind}/ok-{out}" else fail "model" s!"dec pipeline expected {m} observed {out}"
      | _, _ => s!"ok dec:{kind}/ok"
    | _, _, _ => s!"ok dec:{kind}/ok"
  | _ => "bad-op dec"

/-! ## C16: krill's own string helpers (`strfn <name> x<hex-utf8>`)

`panic` is always `FAIL oracle no_panic`.  Where a checked model exists the result kind is
compared with it: `seems_global_uri` (on the string itself), `seems_global_uri_rsync|https` (on
the authority the URI type handed to the function, echoed as `auth=x<hex>`; `reject` = the
third-party URI parser refused the string), `roa_aggregate_key`.  The model's `none` (it would
panic) is shown as `panic`. -/

def hexString (w : String) : Option String :=
  (hexDecode (w.drop 1).toString).bind String.fromUTF8?

def strfnOp (ws ows : List String) : String :=
  let name := ws.getD 1 ""
  match hexString (ws.getD 2 "") with
  | none => "bad-op strfn"
  | some arg =>
    match ows with
    | "panic" :: _ => fail "oracle" "no_panic"
    | "ok" :: kind :: rest =>
      let sgu (s : String) : String :=
        match seemsGlobalUri s.toList with
        | none => "panic"
        | some b => toString b
      let expected : Option String :=
        if name == "seems_global_uri" then some (sgu arg)
        else if name == "seems_global_uri_rsync" || name == "seems_global_uri_https" then
          if kind == "reject" then none
          else match (kv? rest "auth").bind hexString with
            | some a => some (sgu a)
            | none => some "bad-auth"
        else if name == "roa_aggregate_key" then
          some (match roaAggregateKeyFromStr arg.toList with
            | none => "panic"
            | some none => "none"
            | some (some _) => "some")
        else none
      match expected with
      | some e =>
        if e == kind then s!"ok strfn:{name}/{kind}"
        else fail "model" s!"strfn {name} expected [{e}] observed [{kind}]"
      | none => s!"ok strfn:{name}/{kind}"
    | _ => "bad-op strfn"

def step (_ : Unit) (line : String) : Unit × String :=
  let (opS, obsS) := splitObs line
  let ws := words opS
  let ows := words obsS
  let r := match ws.head? with
    | some "roa" => roaOp ws ows
    | some "aspa" => aspaOp ws ows
    | some "aspax" => aspaxOp ws ows
    | some "bgpsec" => bgpsecOp ws ows
    | some "childadd" => childOp "childadd" ws ows
    | some "childupd" => childOp "childupd" ws ows
    | some "childid" => childOp "childid" ws ows
    | some "mlv" => mlvOp ws ows
    | some "nsp" => nspOp ws ows
    | some "cov" => covOp ws ows
    | some "incl" => inclOp ws ows
    | some "aggkey" => aggkeyOp ws ows
    | some "ana" => anaOp ws ows
    | some "msp" => mspOp ws ows
    | some "dec" => decOp ws ows
    | some "strfn" => strfnOp ws ows
    | _ => "bad-op " ++ opS
  ((), r)

def main : IO Unit := do
  let stdin ← IO.getStdin
  loop stdin () step ()

end KM.Drv.Pure
