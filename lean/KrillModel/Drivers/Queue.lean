/- Line-protocol driver for the queue model (stream `queue`). -/
import KrillModel.Queue.TaskQueue
import KrillModel.Generated.StartupGuard
import KrillModel.Drivers.Util
namespace KM.Drv.Queue
open KM.Queue KM.Drv

def entryLt (a b : Entry) : Bool :=
  a.ts < b.ts || (a.ts == b.ts && (a.name < b.name || (a.name == b.name && a.val < b.val)))

def canon (l : List Entry) : List Entry := sortBy entryLt l

def sameSet (a b : List Entry) : Bool := canon a == canon b

def sameState (a b : QState) : Bool := sameSet a.pending b.pending && sameSet a.running b.running

def parseEntry (s : String) : Option Entry :=
  match s.splitOn ":" with
  | [ts, name, val] => ts.toNat?.map fun t => ⟨t, name, val⟩
  | _ => none

def parseEntries (s : String) : Option (List Entry) :=
  if s == "-" || s == "" then some [] else (s.splitOn ",").mapM parseEntry

def showEntries (l : List Entry) : String :=
  if l.isEmpty then "-" else ",".intercalate ((canon l).map fun e => s!"{e.ts}:{e.name}:{e.val}")

def showState (s : QState) : String := s!"P={showEntries s.pending} R={showEntries s.running}"

def parseMode : String → Option Mode
  | "replace" => some .replaceExisting
  | "replace_soonest" => some .replaceExistingSoonest
  | "finish_replace" => some .finishOrReplaceExisting
  | "finish_replace_soonest" => some .finishOrReplaceExistingSoonest
  | "if_missing" => some .ifMissing
  | _ => none

def parseObsState (ows : List String) : Option QState := do
  let p ← parseEntries ((kv? ows "P").getD "-")
  let r ← parseEntries ((kv? ows "R").getD "-")
  pure ⟨p, r⟩

/-- Executable forms of the C09 property predicates, evaluated on the *implementation's*
own pre/post states (oracle).  Returns a list of failed predicate names. -/
def oracle (pre post : QState) (op : List String) (ret : String) : List String :=
  let namesKept (except : Option String) : Bool :=
    pre.names.all fun n => some n == except || post.hasName n
  match op with
  | "claim" :: now :: _ =>
    let now := natOr now 0
    let dueL := due pre now
    let r1 := if ret == "none" then
        (if dueL.isEmpty then [] else ["claim_none_iff_nothing_due"])
      else match parseEntry ret with
        | some r =>
          (if dueL.any (fun e => e.name == r.name && e.val == r.val &&
                dueL.all (fun x => e.ts ≤ x.ts)) then [] else ["claim_earliest_first"]) ++
          (if post.running.any (· == r) then [] else ["claim_moves"])
        | none => ["unparsable-claim-result"]
    r1 ++ (if namesKept none then [] else ["claim_keeps_names"])
  | "sched" :: name :: val :: ts :: mode :: _ =>
    let ts := natOr ts 0
    let soon := mode == "replace_soonest" || mode == "finish_replace_soonest"
    (if namesKept none then [] else ["schedule_keeps_names"]) ++
    (if soon then
      (if post.pending.any (fun e => e.name == name && e.val == val && e.ts ≤ ts) &&
          (byName pre.pending name).all (fun x =>
            post.pending.any fun y => y.name == name && y.ts ≤ x.ts)
        then [] else ["soonest_keeps_earlier"]) else []) ++
    (if mode == "if_missing" && pre.hasName name && !(sameState pre post)
      then ["if_missing_keeps_existing"] else [])
  | "finish" :: _ :: name :: _ =>
    if namesKept (some name) then [] else ["finish_keeps_other_names"]
  | "resched" :: _ =>
    if namesKept none then [] else ["reschedule_keeps_names"]
  | "startup" :: _ =>
    (if ret == "ok" && !post.running.isEmpty then ["survives_restart"] else []) ++
    (if ret == "ok" && !(pre.names.all fun n => post.pending.any (·.name == n))
      then ["survives_restart"] else [])
  | _ => []

structure St where
  model : QState := QState.empty
  /-- last observed implementation state (for the oracle) -/
  impl  : QState := QState.empty
  synced : Bool := true

def fmtFail (kind : String) (msg : String) : String := s!"FAIL {kind} {msg}"

/-- One step.  Output: `ok <branch>` | `FAIL model …` | `FAIL oracle …` | `bad-op`. -/
def step (st : St) (line : String) : St × String :=
  let (opS, obsS) := splitObs line
  let op := words opS
  let ows := words obsS
  let ret := (kv? ows "ret").getD ""
  match parseObsState ows with
  | none => (st, "bad-op unparsable-observation")
  | some obs =>
    let orc := oracle st.impl obs op ret
    let stO := { st with impl := obs }
    -- model outcomes: list of (state, ret, branch)
    let outcomes : Option (List (QState × String × String)) :=
      match op with
      | ["sched", name, val, ts, mode] =>
        match ts.toNat?, parseMode mode with
        | some t, some m =>
          let pre := st.model
          let br := s!"{mode}/p{if (byName pre.pending name).isEmpty then 0 else 1}r{if (byName pre.running name).isEmpty then 0 else 1}"
          some ((schedule pre name val t m).map fun s => (s, "ok", br))
        | _, _ => none
      | ["claim", now, now2] =>
        match now.toNat?, now2.toNat? with
        | some n, some n2 =>
          some ((claim st.model n n2).map fun (s, r) =>
            match r with
            | none => (s, "none", if st.model.pending.isEmpty then "empty" else "nothing-due")
            | some e => (s, s!"{e.ts}:{e.name}:{e.val}",
                if (claimChoices st.model n).length > 1 then "tie" else
                if (due st.model n).length > 1 then "earliest-of-many" else "single"))
        | _, _ => none
      | ["finish", ts, name] =>
        ts.toNat?.map fun t =>
          match finish st.model t name with
          | some s => [(s, "ok", "running")]
          | none => [(st.model, "err", "not-running")]
      | ["resched", ts, name, nts] =>
        match ts.toNat?, nts.toNat? with
        | some t, some nt =>
          some (match reschedule st.model t name nt with
          | some s => [(s, "ok", "running")]
          | none => [(st.model, "err", "not-running")])
        | _, _ => none
      | ["startup", now, order] =>
        match now.toNat?, parseEntries ((order.drop 6).toString) with
        | some n, some ord =>
          if !(sameSet ord st.model.running) then some []
          else some (match startup KM.Generated.startupGuard st.model ord n with
            | some s => [(s, "ok", s!"running{min ord.length 3}")]
            | none => [(st.model, "err", "error")])
        | _, _ => none
      | _ => none
    match outcomes with
    | none => (stO, "bad-op " ++ opS)
    | some outs =>
      if !st.synced then
        -- model lost lock-step earlier in this case: only the oracle is evaluated
        if orc.isEmpty then (stO, "skip unsynced") else (stO, fmtFail "oracle" (" ".intercalate orc))
      else
      match outs.find? (fun (s, r, _) => r == ret && sameState s obs) with
      | some (s, _, br) =>
        if orc.isEmpty then ({ stO with model := s }, s!"ok {op.headD ""}:{br}")
        else ({ stO with model := s }, fmtFail "oracle" (" ".intercalate orc))
      | none =>
        let exp := " | ".intercalate (outs.map fun (s, r, _) => s!"ret={r} {showState s}")
        let o := if orc.isEmpty then "" else " ORACLE " ++ " ".intercalate orc
        ({ stO with synced := false },
          fmtFail "model" s!"expected one of [{exp}] observed [ret={ret} {showState obs}]{o}")

def main : IO Unit := do
  let stdin ← IO.getStdin
  loop stdin ({} : St) step {}

end KM.Drv.Queue
