/- JSON helpers for drivers whose observations are JSON (stream `system` and friends).
Imports `Lean.Data.Json` (core Lean, links fine) – never import this from a model file. -/
import Lean.Data.Json
import KrillModel.Drivers.Util
namespace KM.Drv
open Lean

/-- Split a trace line `op … => {json}` and parse the observation. -/
def splitJson (line : String) : String × Except String Json :=
  let (op, obs) := splitObs line
  (op, Json.parse obs)

def jget (j : Json) (k : String) : Json := j.getObjValD k

/-- Path look-up: `jpath j ["cas", "a", "version"]`. -/
def jpath (j : Json) : List String → Json
  | [] => j
  | k :: ks => jpath (j.getObjValD k) ks

def jstr? (j : Json) : Option String := match j with | .str s => some s | _ => none
def jstr (j : Json) : String := (jstr? j).getD ""
def jnat? (j : Json) : Option Nat := match j.getNat? with | .ok n => some n | _ => none
def jnat (j : Json) : Nat := (jnat? j).getD 0
def jint? (j : Json) : Option Int := match j.getInt? with | .ok n => some n | _ => none
def jbool? (j : Json) : Option Bool := match j with | .bool b => some b | _ => none
def jarr (j : Json) : List Json := match j with | .arr a => a.toList | _ => []
def jisNull (j : Json) : Bool := match j with | .null => true | _ => false

/-- Object fields as an association list (sorted by key, as `Json` stores them). -/
def jfields (j : Json) : List (String × Json) :=
  match j with
  | .obj kvs => kvs.toList
  | _ => []

def jkeys (j : Json) : List String := (jfields j).map (·.1)

/-- `{"atoms":[1,2]}` → `[1,2]`; `{"all":true}` → `none`. -/
def jatoms? (j : Json) : Option (List Nat) :=
  match jget j "atoms" with
  | .arr a => some (a.toList.filterMap jnat?)
  | _ => none

/-- Serialized enum in serde's externally tagged form `{"variant": payload}` or `"variant"`. -/
def jvariant (j : Json) : String × Json :=
  match j with
  | .str s => (s, .null)
  | .obj kvs => match kvs.toList with
    | [(k, v)] => (k, v)
    | _ => ("", j)
  | _ => ("", j)

/-- Stdin loop for JSON-observation streams. `step` may fail to parse; it gets the op words
and the parsed observation. -/
partial def jloop {σ} (h : IO.FS.Stream) (init : σ)
    (step : σ → List String → Json → σ × String) (s : σ) : IO Unit := do
  let line ← h.getLine
  if line.isEmpty then return ()
  let line := (line.dropEndWhile (fun c => c == '\n' || c == '\r')).toString
  if line.startsWith "case " then
    IO.println line
    jloop h init step init
  else if line.isEmpty || line.startsWith "#" then
    jloop h init step s
  else
    let (op, obs) := splitJson line
    match obs with
    | .error e =>
      IO.println s!"bad-op unparsable-observation {e}"
      jloop h init step s
    | .ok j =>
      let (s', out) := step s (words op) j
      IO.println out
      jloop h init step s'

end KM.Drv
